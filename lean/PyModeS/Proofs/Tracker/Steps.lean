/-
  What one `adsbStep` / `commbStep` does to the table: the shape of the result, the key set,
  the `live` stamps.
-/
import PyModeS.Proofs.Tracker.Hoare
namespace PyModeS.Tracker
open PyModeS

/-- the dict key `process_raw` uses for a message: `pms.icao(msg)` (Python `None` if undefined) -/
def keyOf (m : Msg) : Msg := (icao m).getD "None".toList

/-- every successful `adsbStep` ends in `acs[key] = ac'` with `ac'.live = int(t)` -/
def AdsbPost (tr : Tracker) (t : Rat) (m : Msg) (tr' : Tracker) : Prop :=
  ∃ ac', tr' = { tr with acs := acsSet tr.acs (keyOf m) ac' } ∧ ac'.live = pyInt t

theorem qualityBlock_rall (ac : Ac) (bits : Bits) (tc : Nat) :
    RAll (fun ac' => ac'.live = ac.live) (qualityBlock ac bits tc) := by
  unfold qualityBlock
  extract_lets jp1 jp2
  have h1 : ∀ a : Ac, a.live = ac.live → RAll (fun ac' => ac'.live = ac.live) (jp1 a) := by
    intro a ha
    simp -zeta only [jp1]
    rall_auto [exact ha]
  clear_value jp1
  have h2 : ∀ a : Ac, a.live = ac.live → RAll (fun ac' => ac'.live = ac.live) (jp2 a) := by
    intro a ha
    simp -zeta only [jp2]
    extract_lets jp3 jp4
    have h3 : ∀ u, RAll (fun ac' => ac'.live = ac.live) (jp3 u) := by
      intro u
      simp -zeta only [jp3]
      rall_auto [exact h1 a ha]
    clear_value jp3
    have h4 : ∀ u, RAll (fun ac' => ac'.live = ac.live) (jp4 u) := by
      intro u
      simp -zeta only [jp4]
      rall_auto [exact h3 ()]
    clear_value jp4
    rall_auto [exact h4 ()]
  clear_value jp2
  rall_auto [exact h2 _ rfl]

/-- the uncertainty block never touches `live` -/
theorem qualityBlock_live {ac ac' : Ac} {bits : Bits} {tc : Nat}
    (h : qualityBlock ac bits tc = .val ac') : ac'.live = ac.live :=
  rall_elim (P := fun ac' => ac'.live = ac.live) (qualityBlock_rall ac bits tc) h

theorem adsbStep_rall (tr : Tracker) (t : Rat) (m : Msg) :
    RAll (AdsbPost tr t m) (adsbStep tr t m) := by
  unfold adsbStep
  extract_lets bits key tc ac0 ac save
  have hac : ac.live = pyInt t := rfl
  have hsave : ∀ a, a.live = pyInt t → AdsbPost tr t m (save a) := fun a ha => ⟨a, rfl, ha⟩
  clear_value save ac tc bits
  cases tc with
  | none => simp only [rall_exc]
  | some tc =>
    simp -zeta only []
    extract_lets jpQ jpPos jpVel
    have hQ : ∀ a c, a.live = pyInt t → RAll (AdsbPost tr t m) (jpQ (a, c)) := by
      intro a c ha
      simp -zeta only [jpQ]
      rall_auto [first | exact hsave _ ha | exact hsave _ ((qualityBlock_live ‹_›).trans ha)]
    clear_value jpQ
    have hPos : ∀ c, RAll (AdsbPost tr t m) (jpPos c) := by
      intro c
      simp -zeta only [jpPos]
      rall_auto [first | exact hsave _ hac | (apply hQ; (try split) <;> simp only [hac])]
    clear_value jpPos
    have hVel : ∀ u, RAll (AdsbPost tr t m) (jpVel u) := by
      intro u
      simp -zeta only [jpVel]
      rall_auto [exact hPos _]
    clear_value jpVel
    rall_auto [exact hVel _]

/-- shape of a successful ADS-B step -/
theorem adsbStep_val {tr tr' : Tracker} {t : Rat} {m : Msg} (h : adsbStep tr t m = .val tr') :
    ∃ ac', tr' = { tr with acs := acsSet tr.acs (keyOf m) ac' } ∧ ac'.live = pyInt t :=
  rall_elim (P := AdsbPost tr t m) (adsbStep_rall tr t m) h

/-- shape of a successful Comm-B step: an unknown address leaves the table as it is, a known one
    has its `live` raised to `max(live, int(t))` and nothing else changed -/
theorem commbStep_val {ias : Rat → Int → Rat} {tr tr' : Tracker} {t : Rat} {m : Msg}
    (h : commbStep ias tr t m = .val tr') :
    (acsGet tr.acs (keyOf m) = none ∧ tr' = tr) ∨
    (∃ ac, acsGet tr.acs (keyOf m) = some ac ∧
      tr' = { tr with acs := acsSet tr.acs (keyOf m) { ac with live := max ac.live (pyInt t) } }) := by
  unfold commbStep at h
  simp only [] at h
  cases hg : acsGet tr.acs (keyOf m) with
  | none =>
    left
    have hg' : acsGet tr.acs ((icao m).getD "None".toList) = none := hg
    rw [hg'] at h
    simp only [Res.pure_eq, Res.val.injEq] at h
    exact ⟨rfl, h.symm⟩
  | some ac =>
    right
    have hg' : acsGet tr.acs ((icao m).getD "None".toList) = some ac := hg
    rw [hg'] at h
    simp only [] at h
    obtain ⟨_, _, h⟩ := bind_eq_val h
    simp only [Res.pure_eq, Res.val.injEq] at h
    exact ⟨ac, rfl, h.symm⟩

/-- Comm-B gating: a reply from an address that is not in the table changes nothing -/
theorem commbStep_unknown (ias : Rat → Int → Rat) (tr : Tracker) (t : Rat) (m : Msg)
    (h : acsGet tr.acs (keyOf m) = none) : commbStep ias tr t m = .val tr := by
  unfold commbStep
  have h' : acsGet tr.acs ((icao m).getD "None".toList) = none := h
  simp only [h', Res.pure_eq]

/-! ### key set -/

theorem adsbStep_keys {tr tr' : Tracker} {t : Rat} {m : Msg} (h : adsbStep tr t m = .val tr') :
    (∀ k ∈ keys tr'.acs, k ∈ keys tr.acs ∨ k = keyOf m) ∧ (∀ k ∈ keys tr.acs, k ∈ keys tr'.acs) ∧
    keyOf m ∈ keys tr'.acs := by
  obtain ⟨ac', rfl, _⟩ := adsbStep_val h
  refine ⟨acsSet_keys_subset _ _ _, keys_subset_acsSet _ _ _, ?_⟩
  exact acsGet_some_key (acsGet_acsSet_same _ _ _)

theorem commbStep_keys {ias : Rat → Int → Rat} {tr tr' : Tracker} {t : Rat} {m : Msg}
    (h : commbStep ias tr t m = .val tr') : keys tr'.acs = keys tr.acs := by
  rcases commbStep_val h with ⟨_, rfl⟩ | ⟨ac, hg, rfl⟩
  · rfl
  · exact acsSet_keys_of_mem _ _ _ (acsGet_some_key hg)

theorem adsbStep_ref {tr tr' : Tracker} {t : Rat} {m : Msg} (h : adsbStep tr t m = .val tr') :
    tr'.ref = tr.ref := by
  obtain ⟨ac', rfl, _⟩ := adsbStep_val h; rfl

theorem commbStep_ref {ias : Rat → Int → Rat} {tr tr' : Tracker} {t : Rat} {m : Msg}
    (h : commbStep ias tr t m = .val tr') : tr'.ref = tr.ref := by
  rcases commbStep_val h with ⟨_, rfl⟩ | ⟨ac, hg, rfl⟩ <;> rfl

/-! ### `live` -/

theorem adsbStep_live {tr tr' : Tracker} {t : Rat} {m : Msg} (h : adsbStep tr t m = .val tr') :
    ∃ ac', acsGet tr'.acs (keyOf m) = some ac' ∧ ac'.live = pyInt t := by
  obtain ⟨ac', rfl, hl⟩ := adsbStep_val h
  exact ⟨ac', acsGet_acsSet_same _ _ _, hl⟩

theorem adsbStep_other {tr tr' : Tracker} {t : Rat} {m : Msg} (h : adsbStep tr t m = .val tr')
    (k : Msg) (hk : k ≠ keyOf m) :
    acsGet tr'.acs k = acsGet tr.acs k ∧ tr'.acs.filter (·.1 = k) = tr.acs.filter (·.1 = k) := by
  obtain ⟨ac', rfl, _⟩ := adsbStep_val h
  exact ⟨acsGet_acsSet_other _ _ _ _ hk, acsSet_filter_other _ _ _ _ hk⟩

/-- a Comm-B step only raises `live`: same key → `max`, other keys untouched -/
theorem commbStep_live {ias : Rat → Int → Rat} {tr tr' : Tracker} {t : Rat} {m : Msg}
    (h : commbStep ias tr t m = .val tr') (k : Msg) (ac : Ac) (hg : acsGet tr.acs k = some ac) :
    ∃ ac', acsGet tr'.acs k = some ac' ∧ ac.live ≤ ac'.live ∧
      (k = keyOf m → ac'.live = max ac.live (pyInt t)) ∧ (k ≠ keyOf m → ac' = ac) := by
  rcases commbStep_val h with ⟨hn, rfl⟩ | ⟨ac0, hg0, rfl⟩
  · refine ⟨ac, hg, Int.le_refl _, ?_, fun _ => rfl⟩
    intro hk; rw [hk, hn] at hg; cases hg
  · by_cases hk : k = keyOf m
    · subst hk
      rw [hg0] at hg; cases hg
      refine ⟨_, acsGet_acsSet_same _ _ _, ?_, fun _ => rfl, fun hne => absurd rfl hne⟩
      exact Int.le_max_left _ _
    · refine ⟨ac, ?_, Int.le_refl _, fun e => absurd e hk, fun _ => rfl⟩
      rw [acsGet_acsSet_other _ _ _ _ hk]; exact hg

theorem commbStep_other {ias : Rat → Int → Rat} {tr tr' : Tracker} {t : Rat} {m : Msg}
    (h : commbStep ias tr t m = .val tr') (k : Msg) (hk : k ≠ keyOf m) :
    tr'.acs.filter (·.1 = k) = tr.acs.filter (·.1 = k) := by
  rcases commbStep_val h with ⟨_, rfl⟩ | ⟨ac0, _, rfl⟩
  · rfl
  · exact acsSet_filter_other _ _ _ _ hk

/-- upper bound on the `live` of all records under key `k` is kept by an ADS-B step -/
theorem adsbStep_live_le {tr tr' : Tracker} {t : Rat} {m : Msg} (h : adsbStep tr t m = .val tr')
    (k : Msg) (L : Int) (hold : ∀ p ∈ tr.acs, p.1 = k → p.2.live ≤ L)
    (hm : keyOf m = k → pyInt t ≤ L) : ∀ p ∈ tr'.acs, p.1 = k → p.2.live ≤ L := by
  intro p hp hpk
  by_cases hk : k = keyOf m
  · obtain ⟨ac', rfl, hl⟩ := adsbStep_val h
    have := acsSet_filter_same _ _ _ p hp (hpk.trans hk)
    rw [this, hl]; exact hm hk.symm
  · have hf := (adsbStep_other h k hk).2
    have : p ∈ tr'.acs.filter (·.1 = k) := by simp [List.mem_filter, hp, hpk]
    rw [hf] at this
    simp only [List.mem_filter, decide_eq_true_eq] at this
    exact hold p this.1 this.2

theorem commbStep_live_le {ias : Rat → Int → Rat} {tr tr' : Tracker} {t : Rat} {m : Msg}
    (h : commbStep ias tr t m = .val tr')
    (k : Msg) (L : Int) (hold : ∀ p ∈ tr.acs, p.1 = k → p.2.live ≤ L)
    (hm : keyOf m = k → pyInt t ≤ L) : ∀ p ∈ tr'.acs, p.1 = k → p.2.live ≤ L := by
  intro p hp hpk
  rcases commbStep_val h with ⟨_, rfl⟩ | ⟨ac0, hg0, rfl⟩
  · exact hold p hp hpk
  · by_cases hk : k = keyOf m
    · have := acsSet_filter_same _ _ _ p hp (hpk.trans hk)
      rw [this]
      have h0 : ac0.live ≤ L := hold _ (acsGet_some_mem hg0) hk.symm
      have h1 := hm hk.symm
      simp only
      omega
    · have hf := acsSet_filter_other tr.acs (keyOf m) k { ac0 with live := max ac0.live (pyInt t) } hk
      have : p ∈ (acsSet tr.acs (keyOf m) { ac0 with live := max ac0.live (pyInt t) }).filter (·.1 = k) := by
        simp [List.mem_filter, hp, hpk]
      rw [hf] at this
      simp only [List.mem_filter, decide_eq_true_eq] at this
      exact hold p this.1 this.2

end PyModeS.Tracker
