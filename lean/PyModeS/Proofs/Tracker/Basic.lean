/-
  Invariants of the live aircraft table (`adsbStep`, `commbStep`, `processRaw`):
  `int(t)` truncation bounds, the dict operations `acsGet`/`acsSet`, which keys a step can add,
  how `live` evolves.
-/
import PyModeS.Model.Tracker
namespace PyModeS.Tracker
open PyModeS

/-! ### `int(t)` -/

theorem pyInt_nonneg_bounds (t : Rat) (h : 0 ≤ t) : (pyInt t : Rat) ≤ t ∧ t < (pyInt t : Rat) + 1 := by
  have e : pyInt t = t.floor := by simp [pyInt, h]
  rw [e]
  refine ⟨Rat.floor_le t, ?_⟩
  have := Rat.lt_floor_add_one t
  rwa [Rat.intCast_add] at this

theorem pyInt_neg_bounds (t : Rat) (h : t < 0) : t ≤ (pyInt t : Rat) ∧ (pyInt t : Rat) < t + 1 := by
  have e : pyInt t = -((-t).floor) := by
    have : ¬ (t ≥ 0) := by grind
    simp [pyInt, this]
  rw [e]
  have h1 := Rat.floor_le (-t)
  have h2 := Rat.lt_floor_add_one (-t)
  rw [Rat.intCast_add] at h2
  rw [Rat.intCast_neg]
  constructor <;> grind

theorem pyInt_bounds (t : Rat) : (pyInt t : Rat) ≤ t + 1 ∧ t - 1 < (pyInt t : Rat) := by
  by_cases h : 0 ≤ t
  · have := pyInt_nonneg_bounds t h; constructor <;> grind
  · have := pyInt_neg_bounds t (by grind); constructor <;> grind

/-- sharper: `int(t)` is within less than 1 of `t`, on the side of zero -/
theorem pyInt_abs_lt (t : Rat) : t - 1 < (pyInt t : Rat) ∧ (pyInt t : Rat) < t + 1 := by
  by_cases h : 0 ≤ t
  · have := pyInt_nonneg_bounds t h; constructor <;> grind
  · have := pyInt_neg_bounds t (by grind); constructor <;> grind

theorem pyInt_mono {s t : Rat} (h : s ≤ t) : pyInt s ≤ pyInt t := by
  unfold pyInt
  by_cases hs : s ≥ 0
  · have ht : t ≥ 0 := by grind
    simp only [hs, ht, if_true]
    exact Rat.floor_monotone h
  · by_cases ht : t ≥ 0
    · simp only [hs, ht, if_true, if_false]
      have h1 : (0 : Int) ≤ t.floor := Rat.le_floor_iff.mpr (by simpa using ht)
      have h2 : (0 : Int) ≤ (-s).floor := Rat.le_floor_iff.mpr (by simp; grind)
      omega
    · simp only [hs, ht, if_false]
      have : (-t).floor ≤ (-s).floor := Rat.floor_monotone (by grind)
      omega

/-! ### the dict -/

/-- the key set, in insertion order -/
def keys (acs : List (Msg × Ac)) : List Msg := acs.map (·.1)

theorem acsSet_keys_of_mem (acs : List (Msg × Ac)) (k : Msg) (a : Ac) (h : k ∈ keys acs) :
    keys (acsSet acs k a) = keys acs := by
  have hany : acs.any (·.1 = k) = true := by
    simp only [keys, List.mem_map] at h
    obtain ⟨p, hp, hk⟩ := h
    simp only [List.any_eq_true, decide_eq_true_eq]
    exact ⟨p, hp, hk⟩
  unfold acsSet keys
  rw [if_pos hany, List.map_map]
  apply List.map_congr_left
  intro p _
  simp only [Function.comp]
  split
  · rename_i hk; exact hk.symm
  · rfl

theorem acsSet_keys_of_not_mem (acs : List (Msg × Ac)) (k : Msg) (a : Ac) (h : k ∉ keys acs) :
    keys (acsSet acs k a) = keys acs ++ [k] := by
  have hany : ¬ (acs.any (·.1 = k) = true) := by
    intro hc
    simp only [List.any_eq_true, decide_eq_true_eq] at hc
    obtain ⟨p, hp, hk⟩ := hc
    exact h (by simp only [keys, List.mem_map]; exact ⟨p, hp, hk⟩)
  unfold acsSet keys
  rw [if_neg hany]
  simp

/-- `acs[k] = a` adds at most the key `k` -/
theorem acsSet_keys_subset (acs : List (Msg × Ac)) (k : Msg) (a : Ac) :
    ∀ x ∈ keys (acsSet acs k a), x ∈ keys acs ∨ x = k := by
  intro x hx
  by_cases h : k ∈ keys acs
  · rw [acsSet_keys_of_mem acs k a h] at hx; exact Or.inl hx
  · rw [acsSet_keys_of_not_mem acs k a h] at hx
    simpa using hx

theorem keys_subset_acsSet (acs : List (Msg × Ac)) (k : Msg) (a : Ac) :
    ∀ x ∈ keys acs, x ∈ keys (acsSet acs k a) := by
  intro x hx
  by_cases h : k ∈ keys acs
  · rw [acsSet_keys_of_mem acs k a h]; exact hx
  · rw [acsSet_keys_of_not_mem acs k a h]; simp [hx]

theorem acsGet_some_mem {acs : List (Msg × Ac)} {k : Msg} {a : Ac} (h : acsGet acs k = some a) :
    (k, a) ∈ acs := by
  unfold acsGet at h
  cases hf : acs.find? (·.1 = k) with
  | none => rw [hf] at h; simp at h
  | some p =>
    rw [hf] at h
    simp only [Option.map_some, Option.some.injEq] at h
    have h1 := List.find?_some hf
    have h2 := List.mem_of_find?_eq_some hf
    simp only [decide_eq_true_eq] at h1
    rw [← h1, ← h]; exact h2

theorem acsGet_some_key {acs : List (Msg × Ac)} {k : Msg} {a : Ac} (h : acsGet acs k = some a) :
    k ∈ keys acs := by
  have := acsGet_some_mem h
  simp only [keys, List.mem_map]
  exact ⟨(k, a), this, rfl⟩

theorem acsGet_isSome_iff (acs : List (Msg × Ac)) (k : Msg) : (acsGet acs k).isSome ↔ k ∈ keys acs := by
  constructor
  · intro h
    cases hg : acsGet acs k with
    | none => rw [hg] at h; simp at h
    | some a => exact acsGet_some_key hg
  · intro h
    simp only [keys, List.mem_map] at h
    obtain ⟨p, hp, hk⟩ := h
    unfold acsGet
    cases hf : acs.find? (·.1 = k) with
    | none =>
      rw [List.find?_eq_none] at hf
      have := hf p hp
      simp [hk] at this
    | some q => simp

/-- reading back what was just stored -/
theorem acsGet_acsSet_same (acs : List (Msg × Ac)) (k : Msg) (a : Ac) :
    acsGet (acsSet acs k a) k = some a := by
  unfold acsSet
  split
  · rename_i hany
    unfold acsGet
    induction acs with
    | nil => simp at hany
    | cons p acs ih =>
      by_cases hp : p.1 = k
      · simp [hp]
      · have hany' : acs.any (·.1 = k) = true := by simpa [hp] using hany
        simp only [List.map_cons, hp, if_false, List.find?_cons, decide_false]
        exact ih hany'
  · rename_i hany
    unfold acsGet
    have hnone : acs.find? (·.1 = k) = none := by
      rw [List.find?_eq_none]
      intro p hp hc
      apply hany
      simp only [List.any_eq_true]
      exact ⟨p, hp, hc⟩
    simp [List.find?_append, hnone]

theorem find?_map_other (acs : List (Msg × Ac)) (k k' : Msg) (a : Ac) (h : k' ≠ k) :
    (acs.map (fun p => if p.1 = k then (k, a) else p)).find? (·.1 = k') = acs.find? (·.1 = k') := by
  have hk : ¬ k = k' := fun e => h e.symm
  induction acs with
  | nil => rfl
  | cons p acs ih =>
    rw [List.map_cons, List.find?_cons, List.find?_cons, ih]
    by_cases hp : p.1 = k
    · have hp' : ¬ p.1 = k' := by rw [hp]; exact hk
      simp only [hp, if_true, hk, decide_false]
    · simp only [hp, if_false]

/-- other keys are not affected -/
theorem acsGet_acsSet_other (acs : List (Msg × Ac)) (k k' : Msg) (a : Ac) (h : k' ≠ k) :
    acsGet (acsSet acs k a) k' = acsGet acs k' := by
  unfold acsSet
  split
  · unfold acsGet
    rw [find?_map_other acs k k' a h]
  · unfold acsGet
    have hk : ¬ k = k' := fun e => h e.symm
    simp [List.find?_append, hk]

theorem filter_map_other (acs : List (Msg × Ac)) (k k' : Msg) (a : Ac) (h : k' ≠ k) :
    (acs.map (fun p => if p.1 = k then (k, a) else p)).filter (·.1 = k') = acs.filter (·.1 = k') := by
  have hk : ¬ k = k' := fun e => h e.symm
  induction acs with
  | nil => rfl
  | cons p acs ih =>
    rw [List.map_cons, List.filter_cons, List.filter_cons, ih]
    by_cases hp : p.1 = k
    · have hp' : ¬ p.1 = k' := by rw [hp]; exact hk
      simp [hp, hk]
    · simp only [hp, if_false]

/-- the records stored under another key are untouched (also with duplicate keys) -/
theorem acsSet_filter_other (acs : List (Msg × Ac)) (k k' : Msg) (a : Ac) (h : k' ≠ k) :
    (acsSet acs k a).filter (·.1 = k') = acs.filter (·.1 = k') := by
  have hk : ¬ k = k' := fun e => h e.symm
  unfold acsSet
  split
  · exact filter_map_other acs k k' a h
  · simp [List.filter_append, hk]

/-- the records under key `k` after `acs[k] = a` all equal `a` -/
theorem acsSet_filter_same (acs : List (Msg × Ac)) (k : Msg) (a : Ac) :
    ∀ p ∈ acsSet acs k a, p.1 = k → p.2 = a := by
  intro p hp hk
  unfold acsSet at hp
  split at hp
  · simp only [List.mem_map] at hp
    obtain ⟨q, _, hq⟩ := hp
    split at hq
    · rw [← hq]
    · rename_i hne; rw [hq] at hne; exact absurd hk hne
  · rename_i hany
    simp only [List.mem_append, List.mem_singleton] at hp
    rcases hp with hp | hp
    · exfalso; apply hany
      simp only [List.any_eq_true, decide_eq_true_eq]
      exact ⟨p, hp, hk⟩
    · rw [hp]

/-! ### monadic plumbing -/

theorem bind_eq_val {α β} {x : Res α} {f : α → Res β} {b : β} (h : (x >>= f) = .val b) :
    ∃ a, x = .val a ∧ f a = .val b := by
  cases x with
  | val a => exact ⟨a, rfl, h⟩
  | rte => simp at h
  | exc => simp at h

theorem foldRes_cons {α β} (f : α → β → Res α) (a : α) (b : β) (bs : List β) :
    foldRes f a (b :: bs) = (f a b >>= fun a' => foldRes f a' bs) := rfl

theorem foldRes_append {α β} (f : α → β → Res α) (a : α) (l₁ l₂ : List β) :
    foldRes f a (l₁ ++ l₂) = (foldRes f a l₁ >>= fun a' => foldRes f a' l₂) := by
  induction l₁ generalizing a with
  | nil => rfl
  | cons b bs ih =>
    rw [List.cons_append, foldRes_cons, foldRes_cons, bind_assoc]
    congr 1
    funext a'
    exact ih a'

/-- a property preserved by every successful step is preserved by the fold -/
theorem foldRes_induct {α β} (f : α → β → Res α) (P : α → Prop) (l : List β)
    (hstep : ∀ a b a', b ∈ l → P a → f a b = .val a' → P a') :
    ∀ a a', P a → foldRes f a l = .val a' → P a' := by
  induction l with
  | nil =>
    intro a a' hP h
    simp only [foldRes, Res.val.injEq] at h
    rw [← h]; exact hP
  | cons b bs ih =>
    intro a a' hP h
    rw [foldRes_cons] at h
    obtain ⟨a1, h1, h2⟩ := bind_eq_val h
    exact ih (fun a b a' hb => hstep a b a' (List.mem_cons_of_mem _ hb)) a1 a'
      (hstep a b a1 (by simp) hP h1) h2

end PyModeS.Tracker
