/-
  Totality ("returns a value: neither RuntimeError nor any other exception") of the ADS-B decoders
  in exactly the situations in which `Decode.process_raw` (model: `adsbStep`, `velocityGate`,
  `qualityBlock`) calls them: a 112-bit frame whose type code lies in the range that guards the call.
  Helper file of `PyModeS/Proofs/Tracker/NoCrash.lean`.
-/
import PyModeS.Model.Tracker
import PyModeS.Proofs.Bits

namespace PyModeS.Tracker
open PyModeS

/-- the call returns a value (no exception of either kind) -/
def Ok {α} (r : Res α) : Prop := ∃ v, r = .val v

theorem ok_val {α} (a : α) : Ok (Res.val a) := ⟨a, rfl⟩
theorem ok_pure {α} (a : α) : Ok (pure a : Res α) := ⟨a, rfl⟩
theorem Ok.bind {α β} {x : Res α} {f : α → Res β} (hx : Ok x) (hf : ∀ v, Ok (f v)) : Ok (x >>= f) := by
  obtain ⟨v, rfl⟩ := hx; exact hf v
theorem ok_ite {α} {c : Prop} [Decidable c] {x y : Res α} (hx : c → Ok x) (hy : ¬ c → Ok y) :
    Ok (if c then x else y) := by
  split
  · exact hx ‹_›
  · exact hy ‹_›
theorem Ok.ne_exc {α} {r : Res α} (h : Ok r) : r ≠ .exc := by
  obtain ⟨v, rfl⟩ := h; intro h; cases h
theorem Ok.ne_rte {α} {r : Res α} (h : Ok r) : r ≠ .rte := by
  obtain ⟨v, rfl⟩ := h; intro h; cases h
theorem ok_iff {α} {r : Res α} : Ok r ↔ r ≠ .exc ∧ r ≠ .rte := by
  constructor
  · exact fun h => ⟨h.ne_exc, h.ne_rte⟩
  · rintro ⟨h1, h2⟩
    cases r with
    | val a => exact ok_val a
    | rte => exact absurd rfl h2
    | exc => exact absurd rfl h1
theorem ok_of_isVal {α} {r : Res α} (h : r.isVal = true) : Ok r := by
  cases r with
  | val a => exact ok_val a
  | rte => simp [Res.isVal] at h
  | exc => simp [Res.isVal] at h

theorem b2iR {l : Bits} {a b : Nat} (h1 : a < b) (h2 : b ≤ l.length) :
    bin2intR (slice a b l) = .val (bin2int (slice a b l)) :=
  bin2intR_of_length (by rw [slice_length_of_le h2]; omega)

theorem ok_b2i {l : Bits} {a b : Nat} (h1 : a < b) (h2 : b ≤ l.length) : Ok (bin2intR (slice a b l)) :=
  ⟨_, b2iR h1 h2⟩
theorem ok_idx {α} {l : List α} {i : Nat} (h : i < l.length) : Ok (idxR l i) := ⟨_, idxR_eq h⟩

theorem ok_mapM {α β} (f : α → Res β) (l : List α) (h : ∀ a ∈ l, Ok (f a)) : Ok (Res.mapM f l) := by
  induction l with
  | nil => exact ok_val _
  | cons a as ih =>
    obtain ⟨b, hb⟩ := h a (by simp)
    obtain ⟨bs, hbs⟩ := ih (fun x hx => h x (by simp [hx]))
    exact ⟨b :: bs, by simp [Res.mapM, hb, hbs]⟩

theorem bin2int_slice_lt (a b : Nat) (l : Bits) : bin2int (slice a b l) < 2 ^ (b - a) := by
  have h := bin2int_lt (slice a b l)
  have h2 : (slice a b l).length ≤ b - a := by simp [slice]; omega
  exact Nat.lt_of_lt_of_le h (Nat.pow_le_pow_right (by omega) h2)

/-- one structural step of a totality proof: a `pure`, an in-range bit pick, a bind, an `if`, a `match`,
    a `have`/join point, a fact already in the context, or a branch the TC guard excludes -/
macro "ok_step" : tactic => `(tactic| first
  | exact ok_pure _
  | exact ok_val _
  | (with_reducible assumption)
  | exact ok_b2i (by omega) (by omega)
  | exact ok_idx (by omega)
  | refine Ok.bind ?_ (fun _ => ?_)
  | refine ok_ite (fun _ => ?_) (fun _ => ?_)
  | split
  | (dsimp only)
  | (exfalso; omega))
macro "ok_auto" : tactic => `(tactic| repeat (any_goals ok_step))

/-! ### TC 1–4: bds08.callsign -/

theorem callsignChars_length : Tables.callsignChars.length = 64 := by decide

theorem chars8_ok (chars : List Char) (hc : chars.length = 64) (cs : Bits) (hl : 48 ≤ cs.length) :
    Ok (chars8 chars cs) := by
  unfold chars8
  apply ok_mapM
  intro i hi
  have hi : i < 8 := by simpa using hi
  rw [b2iR (by omega) (by omega)]
  have := bin2int_slice_lt (6 * i) (6 * i + 6) cs
  have h6 : 6 * i + 6 - 6 * i = 6 := by omega
  rw [h6] at this
  exact ok_idx (by omega)

/-- `pms.adsb.callsign(msg)` under `1 <= tc <= 4` -/
theorem callsign_ok (bits : Bits) (tc : Nat) (hlen : bits.length = 112) (htc : tcB bits = some tc)
    (h1 : 1 ≤ tc) (h4 : tc ≤ 4) : Ok (callsign bits) := by
  have hc : Ok (chars8 Tables.callsignChars (slice 40 96 bits)) :=
    chars8_ok _ callsignChars_length _ (by rw [slice_length_of_le (by omega)]; omega)
  simp only [callsign, htc]
  ok_auto

/-! ### TC 5–8 / 19: adsb.velocity -/

theorem velocityRoute_surface (bits : Bits) (tc : Nat) (htc : tcB bits = some tc) (h : 5 ≤ tc ∧ tc ≤ 8) :
    velocityRoute bits = .val .surface := by
  simp only [velocityRoute, htc]; rw [if_pos h]

theorem velocityRoute_airborne (bits : Bits) (htc : tcB bits = some 19) :
    velocityRoute bits = .val .airborne := by
  simp only [velocityRoute, htc]; rfl

theorem movSpeed_isVal_all : ∀ mov < 128, (movSpeed mov).isVal = true := by decide +kernel

/-- `bds06.surface_velocity(msg)` (through `adsb.velocity`) under `5 <= tc <= 8` -/
theorem surfaceVelocity_ok (bits : Bits) (tc : Nat) (hlen : bits.length = 112) (htc : tcB bits = some tc)
    (h5 : 5 ≤ tc) (h8 : tc ≤ 8) : Ok (surfaceVelocity bits) := by
  simp only [surfaceVelocity, htc]
  generalize hmb : bits.drop 32 = mb
  have hl : mb.length = 80 := by rw [← hmb]; simp [hlen]
  simp only [b2iR (l := mb) (a := 5) (b := 12) (by omega) (by omega), Res.bind_val]
  have hm : Ok (movSpeed (bin2int (slice 5 12 mb))) :=
    ok_of_isVal (movSpeed_isVal_all _ (bin2int_slice_lt 5 12 mb))
  ok_auto

/-- `bds09.airborne_velocity(msg)` (through `adsb.velocity`) under `tc == 19` -/
theorem airborneVelocity_ok (bits : Bits) (hlen : bits.length = 112) (htc : tcB bits = some 19) :
    Ok (airborneVelocity bits) := by
  unfold airborneVelocity
  rw [if_neg (by simp [htc])]
  generalize hmb : bits.drop 32 = mb
  have hl : mb.length = 80 := by rw [← hmb]; simp [hlen]
  ok_auto

/-! ### TC 5–18: oe_flag, position_with_ref, altitude -/

/-- `pms.adsb.oe_flag(msg)` -/
theorem oeFlag_ok (bits : Bits) (hlen : bits.length = 112) : Ok (oeFlag bits) := by
  unfold oeFlag; ok_auto

theorem cprFields_ok (bits : Bits) (hlen : bits.length = 112) : Ok (cprFields bits) := by
  unfold cprFields
  generalize hmb : bits.drop 32 = mb
  have hl : mb.length = 80 := by rw [← hmb]; simp [hlen]
  ok_auto

/-- `pms.adsb.position_with_ref(msg, rlat, rlon)` under `5 <= tc <= 18` -/
theorem positionWithRef_ok (bits : Bits) (tc : Nat) (hlen : bits.length = 112) (htc : tcB bits = some tc)
    (h5 : 5 ≤ tc) (h18 : tc ≤ 18) (la lo : Rat) : Ok (positionWithRef bits la lo) := by
  have hc := cprFields_ok bits hlen
  simp only [positionWithRef, positionWithRefRoute, htc, airbornePositionWithRef, surfacePositionWithRef]
  ok_auto

theorem altitude13_ok (b : Bits) (h : b.length = 13) : Ok (altitude13 b) := by
  rcases b with _|⟨a1,_|⟨a2,_|⟨a3,_|⟨a4,_|⟨a5,_|⟨a6,_|⟨a7,_|⟨a8,_|⟨a9,_|⟨a10,_|⟨a11,_|⟨a12,_|⟨a13,_|⟨a14, r⟩⟩⟩⟩⟩⟩⟩⟩⟩⟩⟩⟩⟩⟩
  all_goals first
    | (exfalso; simp at h; done)
    | (exfalso; simp at h; omega)
    | skip
  unfold altitude13
  ok_auto

/-- `pms.adsb.altitude(msg)` under `5 <= tc <= 18` -/
theorem adsbAltitude_ok (bits : Bits) (tc : Nat) (hlen : bits.length = 112) (htc : tcB bits = some tc)
    (h5 : 5 ≤ tc) (h18 : tc ≤ 18) : Ok (adsbAltitude bits) := by
  have ha : Ok (altitude13 (slice 0 6 (slice 8 20 (bits.drop 32)) ++ [false] ++ (slice 8 20 (bits.drop 32)).drop 6)) := by
    apply altitude13_ok
    simp [slice, hlen]
  simp only [adsbAltitude, altitude05, htc]
  ok_auto

/-! ### the uncertainty block -/

/-- `pms.adsb.nic_b(msg)` under `9 <= tc <= 18` -/
theorem nicB_ok (bits : Bits) (tc : Nat) (hlen : bits.length = 112) (htc : tcB bits = some tc)
    (h9 : 9 ≤ tc) (h18 : tc ≤ 18) : Ok (nicB bits) := by
  simp only [nicB, htc]; ok_auto

/-- the position type codes: 5–8, 9–18, 20–22 -/
def PosTC (tc : Nat) : Prop := (5 ≤ tc ∧ tc ≤ 8) ∨ (9 ≤ tc ∧ tc ≤ 18) ∨ (20 ≤ tc ∧ tc ≤ 22)

instance (tc : Nat) : Decidable (PosTC tc) := by unfold PosTC; infer_instance

/-- body of `nucP` after the TC guard -/
def nucPCore (tc : Nat) : Res (Nat × Option Rat × Option Rat × Option Rat) := do
  let nucp ← lookupR Tables.tcNUCp tc
  let (hpl, rcu) := match lookup Tables.tblNUCp nucp with
    | some row => (col row 0, col row 1)
    | none => (none, none)
  let rcv : Option Rat := if tc = 20 then some 4 else if tc = 21 then some 15 else none
  pure (nucp, hpl, rcu, rcv)

/-- every position TC is a key of `uncertainty.TC_NUCp_lookup` -/
theorem nucPCore_isVal_all : ∀ tc < 23, PosTC tc → (nucPCore tc).isVal = true := by decide +kernel

/-- `pms.adsb.nuc_p(msg)` under a position TC -/
theorem nucP_ok (bits : Bits) (tc : Nat) (htc : tcB bits = some tc) (h : PosTC tc) : Ok (nucP bits) := by
  have h1 : nucP bits = nucPCore tc := by
    simp only [nucP, htc]
    rw [if_neg (by unfold PosTC at h; omega)]
    rfl
  rw [h1]
  exact ok_of_isVal (nucPCore_isVal_all tc (by unfold PosTC at h; omega) h)

/-- body of `nicV1` after the TC guard -/
def nicV1Core (tc nics : Nat) : Res (Nat × Option Rat × Option Rat) := do
  let e ← lookupR Tables.tcNICv1 tc
  let nic ← nicOfEntry e nics
  match lookup Tables.tblNICv1 nic with
  | none => pure (nic, none, none)
  | some d => match lookup d nics with
    | none => pure (nic, none, none)
    | some row => pure (nic, col row 0, col row 1)

/-- every position TC is a key of `uncertainty.TC_NICv1_lookup`, and where the entry is a dict its keys
    include the supplement values 0 and 1 -/
theorem nicV1Core_isVal_all : ∀ tc < 23, PosTC tc → ∀ s < 2, (nicV1Core tc s).isVal = true := by decide +kernel

/-- `pms.adsb.nic_v1(msg, nic_s)` under a position TC, with a stored supplement bit 0/1 -/
theorem nicV1_ok (bits : Bits) (tc s : Nat) (htc : tcB bits = some tc) (h : PosTC tc) (hs : s ≤ 1) :
    Ok (nicV1 bits s) := by
  have h1 : nicV1 bits s = nicV1Core tc s := by
    simp only [nicV1, htc]
    rw [if_neg (by unfold PosTC at h; omega)]
    rfl
  rw [h1]
  exact ok_of_isVal (nicV1Core_isVal_all tc (by unfold PosTC at h; omega) h s (by omega))

/-- every position TC is a key of `uncertainty.TC_NICv2_lookup` -/
theorem tcNICv2_isVal_all : ∀ tc < 23, PosTC tc → (lookupR Tables.tcNICv2 tc).isVal = true := by decide +kernel

/-- `pms.adsb.nic_v2(msg, nic_a, nic_bc)` under a position TC (any supplements: the inner `KeyError`
    is caught by the decoder itself) -/
theorem nicV2_ok (bits : Bits) (tc a bc : Nat) (htc : tcB bits = some tc) (h : PosTC tc) :
    Ok (nicV2 bits a bc) := by
  have hl : Ok (lookupR Tables.tcNICv2 tc) :=
    ok_of_isVal (tcNICv2_isVal_all tc (by unfold PosTC at h; omega) h)
  simp only [nicV2, htc]
  rw [if_neg (by unfold PosTC at h; omega)]
  ok_auto

/-- `pms.adsb.nuc_v(msg)` under `tc == 19` -/
theorem nucV_ok (bits : Bits) (hlen : bits.length = 112) (htc : tcB bits = some 19) : Ok (nucV bits) := by
  unfold nucV
  rw [if_neg (by simp [htc])]
  ok_auto

/-- `pms.adsb.nac_v(msg)` under `tc == 19` -/
theorem nacV_ok (bits : Bits) (hlen : bits.length = 112) (htc : tcB bits = some 19) : Ok (nacV bits) := by
  unfold nacV
  rw [if_neg (by simp [htc])]
  ok_auto

/-- `pms.adsb.sil(msg, version)` under `tc == 29` or `tc == 31` -/
theorem sil_ok (bits : Bits) (tc : Nat) (hlen : bits.length = 112) (htc : tcB bits = some tc)
    (h : tc = 29 ∨ tc = 31) (v : Option Nat) : Ok (sil bits v) := by
  simp only [sil, htc]
  ok_auto

/-- `pms.adsb.nac_p(msg)` under `tc == 29` or `tc == 31` -/
theorem nacP_ok (bits : Bits) (tc : Nat) (hlen : bits.length = 112) (htc : tcB bits = some tc)
    (h : tc = 29 ∨ tc = 31) : Ok (nacP bits) := by
  rcases h with rfl | rfl <;> (simp only [nacP, htc]; ok_auto)

/-- `pms.adsb.version(msg)` under `tc == 31` -/
theorem version_ok (bits : Bits) (hlen : bits.length = 112) (htc : tcB bits = some 31) : Ok (version bits) := by
  unfold version
  rw [if_neg (by simp [htc])]
  ok_auto

/-- `pms.adsb.nic_s(msg)` under `tc == 31`: a single bit -/
theorem nicS_ok (bits : Bits) (hlen : bits.length = 112) (htc : tcB bits = some 31) :
    ∃ s, nicS bits = .val s ∧ s ≤ 1 := by
  unfold nicS
  rw [if_neg (by simp [htc]), idxR_eq (by omega)]
  exact ⟨_, rfl, by unfold b2n; cases bits[75] <;> simp⟩

/-- `pms.adsb.nic_a_c(msg)` under `tc == 31` -/
theorem nicAC_ok (bits : Bits) (hlen : bits.length = 112) (htc : tcB bits = some 31) : Ok (nicAC bits) := by
  unfold nicAC
  rw [if_neg (by simp [htc])]
  ok_auto

end PyModeS.Tracker
