/-
  C17, robustness half: `Decode.process_raw` (model: `adsbStep`, `commbStep`, `processRaw` of
  PyModeS/Model/Tracker.lean) does not raise.
-/
import PyModeS.Proofs.Tracker.NoCrashDecoders
import PyModeS.Proofs.Tracker.NoCrashInfer
import PyModeS.Proofs.Hex
import Lean.Elab.Tactic

namespace PyModeS.Tracker
open PyModeS

/-! ### results with a post-condition -/

/-- the call returns a value, and the value satisfies `P` -/
def OkP {α} (P : α → Prop) (r : Res α) : Prop := ∃ v, r = .val v ∧ P v

theorem okP_pure {α} {P : α → Prop} (a : α) (h : P a) : OkP P (pure a : Res α) := ⟨a, rfl, h⟩
theorem okP_val {α} {P : α → Prop} (a : α) (h : P a) : OkP P (Res.val a) := ⟨a, rfl, h⟩
theorem OkP.bind {α β} {P : β → Prop} {x : Res α} {f : α → Res β} (hx : Ok x) (hf : ∀ v, OkP P (f v)) :
    OkP P (x >>= f) := by
  obtain ⟨v, rfl⟩ := hx; exact hf v
theorem OkP.bindP {α β} {Q : α → Prop} {P : β → Prop} {x : Res α} {f : α → Res β} (hx : OkP Q x)
    (hf : ∀ v, Q v → OkP P (f v)) : OkP P (x >>= f) := by
  obtain ⟨v, rfl, hv⟩ := hx; exact hf v hv
theorem okP_ite {α} {P : α → Prop} {c : Prop} [Decidable c] {x y : Res α} (hx : c → OkP P x) (hy : ¬ c → OkP P y) :
    OkP P (if c then x else y) := by
  split
  · exact hx ‹_›
  · exact hy ‹_›
theorem OkP.ok {α} {P : α → Prop} {r : Res α} (h : OkP P r) : Ok r := by
  obtain ⟨v, hv, _⟩ := h; exact ⟨v, hv⟩


/-! ### the table invariant -/

/-- what `process_raw` relies on in a stored record: `tpos` is only ever written together with `lat`
    and `lon` (otherwise `position_with_ref(msg, None, None)` is reachable: `TypeError`), and the
    stored NIC supplement `nic_s` is a bit (otherwise `TC_NICv1_lookup[tc][nic_s]` is a `KeyError`) -/
def AcWF (ac : Ac) : Prop :=
  (ac.tpos.isSome → ac.lat.isSome ∧ ac.lon.isSome) ∧ (∀ s, ac.nicS = some s → s ≤ 1)

/-- the table invariant: every stored record is well-formed -/
def TrackerWF (tr : Tracker) : Prop := ∀ p ∈ tr.acs, AcWF p.2

theorem acWF_new (l : Int) : AcWF { live := l } := ⟨fun h => by simp at h, fun s h => by simp at h⟩

/-- the empty table (a fresh `Decode()`) is well-formed -/
theorem trackerWF_empty : TrackerWF {} := by intro p hp; simp at hp

theorem acsGet_mem {acs : List (Msg × Ac)} {k : Msg} {a : Ac} (h : acsGet acs k = some a) :
    ∃ p ∈ acs, p.2 = a := by
  unfold acsGet at h
  cases hf : acs.find? (·.1 = k) with
  | none => rw [hf] at h; simp at h
  | some p =>
    rw [hf] at h
    exact ⟨p, List.mem_of_find?_eq_some hf, by simpa using h⟩

theorem mem_acsSet {acs : List (Msg × Ac)} {k : Msg} {a : Ac} {p : Msg × Ac} (h : p ∈ acsSet acs k a) :
    p ∈ acs ∨ p = (k, a) := by
  unfold acsSet at h
  split at h
  · obtain ⟨q, hq, rfl⟩ := List.mem_map.1 h
    split
    · exact Or.inr rfl
    · exact Or.inl hq
  · rcases List.mem_append.1 h with h | h
    · exact Or.inl h
    · exact Or.inr (by simpa using h)

theorem trackerWF_set {tr : Tracker} (hwf : TrackerWF tr) (k : Msg) (a : Ac) (ha : AcWF a) :
    TrackerWF { tr with acs := acsSet tr.acs k a } := by
  intro p hp
  rcases mem_acsSet hp with h | rfl
  · exact hwf p h
  · exact ha

theorem acWF_get {tr : Tracker} (hwf : TrackerWF tr) (k : Msg) (l : Int) :
    AcWF { (acsGet tr.acs k).getD { live := 0 } with live := l } := by
  cases h : acsGet tr.acs k with
  | none => exact acWF_new l
  | some a =>
    obtain ⟨p, hp, rfl⟩ := acsGet_mem h
    exact hwf p hp


theorem okP_of_ok {α} {r : Res α} (h : Ok r) : OkP (fun _ => True) r := by
  obtain ⟨v, hv⟩ := h; exact ⟨v, hv, trivial⟩

theorem tc_eq {bits : Bits} {tc k : Nat} (htc : tcB bits = some tc) (h : tc = k) : tcB bits = some k := h ▸ htc

/-- `pms.adsb.velocity(msg)` under `(5 <= tc <= 8) or (tc == 19)` -/
theorem velocityGate_ok (bits : Bits) (tc : Nat) (hlen : bits.length = 112) (htc : tcB bits = some tc)
    (h : (5 ≤ tc ∧ tc ≤ 8) ∨ tc = 19) : Ok (velocityGate bits) := by
  unfold velocityGate
  rcases h with h | rfl
  · have hs := surfaceVelocity_ok bits tc hlen htc h.1 h.2
    rw [velocityRoute_surface bits tc htc h]
    simp only [Res.bind_val]
    ok_auto
  · have ha := airborneVelocity_ok bits hlen htc
    rw [velocityRoute_airborne bits htc]
    simp only [Res.bind_val]
    ok_auto

/-- `nic_s` is one bit -/
theorem nicS_okP (bits : Bits) (tc : Nat) (hlen : bits.length = 112) (htc : tcB bits = some tc) (h : tc = 31) :
    OkP (fun s => s ≤ 1) (nicS bits) := by
  subst h; exact nicS_ok bits hlen htc

/-- the invariant of a record obtained from a well-formed one by the updates `process_raw` makes -/
macro "wf_tac" : tactic => `(tactic| first
  | assumption
  | (have hh := ‹AcWF _›
     first
     | exact ⟨hh.1, hh.2⟩
     | exact ⟨hh.1, fun _ h => by simp at h; omega⟩
     | exact ⟨fun _ => ⟨rfl, rfl⟩, hh.2⟩))

open Lean Elab Tactic Meta in
/-- succeeds iff the goal is `Ok (f …)` or `OkP _ (f …)` with head constant `f` (a syntactic test: the
    unifier would unfold the decoders) -/
elab "res_head " n:ident : tactic => do
  let c ← realizeGlobalConstNoOverloadWithInfo n
  let g := (← instantiateMVars (← getMainTarget)).consumeMData
  unless g.isApp && g.appArg!.consumeMData.getAppFn.isConstOf c do throwError "res_head: no match {g.appArg!.getAppFn}"

open Lean Elab Tactic Meta in
/-- succeeds iff the goal is `Ok (x >>= _)` or `OkP _ (x >>= _)` with `x` headed by the constant `f` -/
elab "res_bind_head " n:ident : tactic => do
  let c ← realizeGlobalConstNoOverloadWithInfo n
  let g := (← instantiateMVars (← getMainTarget)).consumeMData
  unless g.isApp && g.appArg!.isAppOfArity ``Bind.bind 6 && (g.appArg!.getArg! 4).getAppFn.isConstOf c do
    throwError "res_bind_head: no match"

/- a decoder call made by `process_raw`, under the type-code guard in the context
   (`hlen : bits.length = 112`, `htc : tcB bits = some tc` are looked up by name) -/
set_option hygiene false in
macro "dec_tac" : tactic => `(tactic| first
  | (res_head callsign; exact callsign_ok _ _ hlen htc (by omega) (by omega))
  | (res_head velocityGate; exact velocityGate_ok _ _ hlen htc (by omega))
  | (res_head oeFlag; exact oeFlag_ok _ hlen)
  | (res_head positionWithRef; exact positionWithRef_ok _ _ hlen htc (by omega) (by omega) _ _)
  | (res_head adsbAltitude; exact adsbAltitude_ok _ _ hlen htc (by omega) (by omega))
  | (res_head nicB; exact nicB_ok _ _ hlen htc (by omega) (by omega))
  | (res_head nucP; exact nucP_ok _ _ htc (by unfold PosTC; omega))
  | (res_head nicV1; exact nicV1_ok _ _ _ htc (by unfold PosTC; omega) ((‹AcWF _›).2 _ ‹_›))
  | (res_head nicV2; exact nicV2_ok _ _ _ _ htc (by unfold PosTC; omega))
  | (res_head nucV; exact nucV_ok _ hlen (tc_eq htc (by omega)))
  | (res_head nacV; exact nacV_ok _ hlen (tc_eq htc (by omega)))
  | (res_head sil; exact sil_ok _ _ hlen htc (by omega) _)
  | (res_head nacP; exact nacP_ok _ _ hlen htc (by omega))
  | (res_head version; exact version_ok _ hlen (tc_eq htc (by omega)))
  | (res_head nicAC; exact nicAC_ok _ hlen (tc_eq htc (by omega))))

set_option hygiene false in
macro "okp_step" : tactic => `(tactic| first
  | (res_head Pure.pure; exact okP_pure _ (by wf_tac))
  | dec_tac
  | (res_bind_head nicS; refine OkP.bindP (nicS_okP _ _ hlen htc (by omega)) (fun _ _ => ?_))
  | (res_head Bind.bind; refine OkP.bind ?_ (fun _ => ?_))
  | (res_head ite; refine okP_ite (fun _ => ?_) (fun _ => ?_))
  | split
  | (dsimp only)
  | (exfalso; omega))

syntax "okp_auto" "[" tactic,* "]" : tactic
macro_rules
  | `(tactic| okp_auto [$ts,*]) => do
    let alts := ts.getElems
    `(tactic| (try simp -zeta only [pure_bind]); repeat (any_goals (first $[| $alts:tactic]* | okp_step)))

theorem qualityBlock_okP (ac : Ac) (hwf : AcWF ac) (bits : Bits) (tc : Nat) (hlen : bits.length = 112)
    (htc : tcB bits = some tc) : OkP AcWF (qualityBlock ac bits tc) := by
  unfold qualityBlock
  extract_lets jp1 jp2
  have h1 : ∀ a, AcWF a → OkP AcWF (jp1 a) := by
    intro a ha; clear hwf; simp -zeta only [jp1]; okp_auto []
  clear_value jp1
  have h2 : ∀ a, AcWF a → OkP AcWF (jp2 a) := by
    intro a ha; clear hwf; simp -zeta only [jp2]
    extract_lets jp3 jp4
    have h3 : ∀ u, OkP AcWF (jp3 u) := by
      intro u; simp -zeta only [jp3]; okp_auto [exact h1 _ (by wf_tac)]
    clear_value jp3
    have h4 : ∀ u, OkP AcWF (jp4 u) := by
      intro u; simp -zeta only [jp4]; okp_auto [exact h3 _]
    clear_value jp4
    okp_auto [exact h4 _]
  clear_value jp2
  okp_auto [exact h2 _ (by wf_tac)]

/-! ### one ADS-B message -/

/-- One ADS-B step returns a value; the new table is the old one with the record of the sender replaced
    by a well-formed record. -/
theorem adsbStep_okP (tr : Tracker) (hwf : TrackerWF tr) (t : Rat) (m : Msg) (hlen : m.length = 28)
    (hdf : df m = 17 ∨ df m = 18) :
    OkP (fun tr' => ∃ ac', tr' = { tr with acs := acsSet tr.acs ((icao m).getD "None".toList) ac' } ∧ AcWF ac')
      (adsbStep tr t m) := by
  have hlen' : (hex2binM m).length = 112 := by rw [hex2binM_length, hlen]
  obtain ⟨tc, htc'⟩ : ∃ tc, tcB (hex2binM m) = some tc := by
    unfold tcB; rw [← df_eq]; simp [hdf]
  have hac := acWF_get hwf ((icao m).getD "None".toList) (pyInt t)
  unfold adsbStep
  extract_lets bits key tc? ac0 ac save
  have h1 : tc? = some tc := by rw [← htc', ← typecode_eq]
  have hlen : bits.length = 112 := hlen'
  have htc : tcB bits = some tc := htc'
  have hac : AcWF ac := hac
  clear_value tc? bits ac
  subst h1
  simp -zeta only []
  extract_lets jpC jpB jpA
  have hC : ∀ x : Ac × Bool, AcWF x.1 → OkP (fun tr' => ∃ ac', tr' = save ac' ∧ AcWF ac') (jpC x) := by
    intro x hx
    simp -zeta only [jpC]
    exact okP_ite (fun _ => okP_pure _ ⟨_, rfl, hx⟩)
      (fun _ => OkP.bindP (qualityBlock_okP _ hx bits tc hlen htc) (fun a ha => okP_pure _ ⟨_, rfl, ha⟩))
  clear_value jpC
  have hB : ∀ cont, OkP (fun tr' => ∃ ac', tr' = save ac' ∧ AcWF ac') (jpB cont) := by
    intro cont
    simp -zeta only [jpB, pure_bind]
    refine okP_ite (fun _ => okP_pure _ ⟨_, rfl, hac⟩) (fun _ => ?_)
    refine okP_ite (fun h518 => ?_) (fun _ => hC _ hac)
    refine OkP.bind (oeFlag_ok _ hlen) (fun oe => ?_)
    extract_lets ac' useRef
    have hac' : AcWF ac' := by
      simp only [ac']; split <;> exact ⟨hac.1, hac.2⟩
    refine okP_ite (fun hu => ?_) (fun _ => ?_)
    · -- `t - tpos < 180`: `tpos` is set, hence so are `lat` and `lon`
      have htp : ac'.tpos.isSome := by
        cases h : ac'.tpos with
        | none => simp [useRef, h] at hu
        | some _ => rfl
      obtain ⟨hla, hlo⟩ := hac'.1 htp
      obtain ⟨la, hla⟩ := Option.isSome_iff_exists.1 hla
      obtain ⟨lo, hlo⟩ := Option.isSome_iff_exists.1 hlo
      simp -zeta only [hla, hlo]
      okp_auto [exact hC _ (by wf_tac)]
    · okp_auto [exact hC _ (by wf_tac)]
  clear_value jpB
  have hA : ∀ u, OkP (fun tr' => ∃ ac', tr' = save ac' ∧ AcWF ac') (jpA u) := by
    intro u
    simp -zeta only [jpA]
    okp_auto [exact hB _]
  clear_value jpA
  okp_auto [exact hA _]

/-- Decoder facts the `_partial` theorems below take as a hypothesis.  All ADS-B decoder facts `process_raw` needs
    (`callsign`, `velocity`, `oe_flag`, `position_with_ref`, `altitude`, `nic_b`, `nuc_p`, `nic_v1`,
    `nic_v2`, `nuc_v`, `nac_v`, `sil`, `nac_p`, `version`, `nic_s`, `nic_a_c`) are proved outright in
    `NoCrashDecoders.lean`, each restricted to the type codes under which `process_raw` makes the call;
    no fact about `pms.adsb.position` is needed (bare `except: continue`).  What remains is one fact
    about the Comm-B loop; it is discharged at the end of this file (`decodersTotal`, from
    `NoCrashInfer.lean`), which yields the unconditional `process_raw_no_crash`. -/
structure DecodersTotal : Prop where
  /-- `pms.bds.infer(msg)` (decoder/bds/__init__.py, with the default `mrar=False`), called by the
      Comm-B loop of `process_raw` on every message of a known address: returns a label or `None` on
      any 112-bit frame, whatever the `mach2cas` oracle -/
  infer : ∀ (ias : Rat → Int → Rat) (bits : Bits), bits.length = 112 → ∃ v, infer ias bits false = .val v

/--
C17 (robustness), one ADS-B message: `process_raw`'s ADS-B loop body returns normally on a 28-digit
DF17/18 message, whatever the (well-formed) table, and leaves the table well-formed.

partial: rests on the bundle `DecodersTotal`, which PyModeS/Properties/C14.lean is to discharge
(`no_exc_112` + guard theorems); the hex well-formedness of `m` is not needed because the model reads a
non-hex character as 0 where Python raises.
(As it stands the bundle has the single field `infer`, which the ADS-B half does not use: every ADS-B
decoder fact is proved in `NoCrashDecoders.lean`, so `D` is not used here — see `adsbStep_no_crash`.
The argument is kept so that the statement has the announced shape.)
-/
theorem process_no_crash_partial (_D : DecodersTotal) (tr : Tracker) (hwf : TrackerWF tr) (t : Rat) (m : Msg)
    (hlen : m.length = 28) (hdf : df m = 17 ∨ df m = 18) :
    ∃ tr', adsbStep tr t m = .val tr' ∧ TrackerWF tr' := by
  obtain ⟨tr', h, ac', rfl, hac'⟩ := adsbStep_okP tr hwf t m hlen hdf
  exact ⟨_, h, trackerWF_set hwf _ _ hac'⟩

/-- the ADS-B half needs no decoder assumption at all -/
theorem adsbStep_no_crash (tr : Tracker) (hwf : TrackerWF tr) (t : Rat) (m : Msg)
    (hlen : m.length = 28) (hdf : df m = 17 ∨ df m = 18) :
    ∃ tr', adsbStep tr t m = .val tr' ∧ TrackerWF tr' := by
  obtain ⟨tr', h, ac', rfl, hac'⟩ := adsbStep_okP tr hwf t m hlen hdf
  exact ⟨_, h, trackerWF_set hwf _ _ hac'⟩

/-- the same in the `≠` form: neither `RuntimeError` nor any other exception -/
theorem adsbStep_ne_exc_rte (tr : Tracker) (hwf : TrackerWF tr) (t : Rat) (m : Msg)
    (hlen : m.length = 28) (hdf : df m = 17 ∨ df m = 18) :
    adsbStep tr t m ≠ .exc ∧ adsbStep tr t m ≠ .rte := by
  obtain ⟨tr', h, _⟩ := adsbStep_no_crash tr hwf t m hlen hdf
  rw [h]; exact ⟨(by intro h; cases h), (by intro h; cases h)⟩

/-- preservation of the invariant by an ADS-B step -/
theorem adsbStep_preserves (tr tr' : Tracker) (hwf : TrackerWF tr) (t : Rat) (m : Msg)
    (hlen : m.length = 28) (hdf : df m = 17 ∨ df m = 18) (h : adsbStep tr t m = .val tr') : TrackerWF tr' := by
  obtain ⟨tr'', h', hwf'⟩ := adsbStep_no_crash tr hwf t m hlen hdf
  rw [h] at h'; cases h'; exact hwf'

/-- the hypotheses of `process_no_crash_partial` are met, e.g., by an identification message to a fresh table -/
example : ("8D406B902015A678D4D220AA4BDA".toList).length = 28 ∧ df "8D406B902015A678D4D220AA4BDA".toList = 17 ∧
    TrackerWF {} := ⟨by decide, by decide +kernel, trackerWF_empty⟩

/-! ### a whole ADS-B batch -/

theorem foldRes_okP {α β} (Inv : α → Prop) (Good : β → Prop) (f : α → β → Res α)
    (hf : ∀ a b, Inv a → Good b → OkP Inv (f a b)) (a : α) (l : List β) (ha : Inv a) (hl : ∀ b ∈ l, Good b) :
    OkP Inv (foldRes f a l) := by
  induction l generalizing a with
  | nil => exact okP_val _ ha
  | cons b bs ih =>
    obtain ⟨a', h, ha'⟩ := hf a b ha (hl b (by simp))
    unfold foldRes
    rw [h]
    exact ih a' ha' (fun x hx => hl x (by simp [hx]))

/-- the ADS-B loop of `process_raw` over a batch of 28-digit DF17/18 messages returns normally -/
theorem adsbBatch_no_crash (tr : Tracker) (hwf : TrackerWF tr) (adsb : List (Rat × Msg))
    (h : ∀ p ∈ adsb, p.2.length = 28 ∧ (df p.2 = 17 ∨ df p.2 = 18)) :
    ∃ tr', foldRes (fun tr p => adsbStep tr p.1 p.2) tr adsb = .val tr' ∧ TrackerWF tr' :=
  foldRes_okP TrackerWF (fun p : Rat × Msg => p.2.length = 28 ∧ (df p.2 = 17 ∨ df p.2 = 18)) _
    (fun a b ha hb => adsbStep_no_crash a ha b.1 b.2 hb.1 hb.2) tr adsb hwf h

/-! ### Comm-B messages and the whole call -/

/-- one Comm-B message (28 hex digits) returns normally, given `DecodersTotal.infer`; the table stays well-formed
    (only `live` changes).  The model of the Comm-B loop stops at `pms.bds.infer`: the field decoders
    `process_raw` runs afterwards on a BDS50/60/44 label (`roll50` … `wind44`) are not part of `commbStep`. -/
theorem commbStep_no_crash_partial (D : DecodersTotal) (ias : Rat → Int → Rat) (tr : Tracker) (hwf : TrackerWF tr)
    (t : Rat) (m : Msg) (hlen : m.length = 28) :
    ∃ tr', commbStep ias tr t m = .val tr' ∧ TrackerWF tr' := by
  unfold commbStep
  dsimp only
  cases hg : acsGet tr.acs ((icao m).getD "None".toList) with
  | none => exact ⟨tr, rfl, hwf⟩
  | some ac =>
    obtain ⟨v, hv⟩ := D.infer ias (hex2binM m) (by rw [hex2binM_length, hlen])
    obtain ⟨p, hp, rfl⟩ := acsGet_mem hg
    have hp' := hwf p hp
    simp only [hv, Res.bind_val, Res.pure_eq]
    exact ⟨_, rfl, trackerWF_set hwf _ _ ⟨hp'.1, hp'.2⟩⟩

/-- preservation of the invariant by a Comm-B step (no hypothesis on the message) -/
theorem commbStep_preserves (ias : Rat → Int → Rat) (tr tr' : Tracker) (hwf : TrackerWF tr) (t : Rat) (m : Msg)
    (h : commbStep ias tr t m = .val tr') : TrackerWF tr' := by
  unfold commbStep at h
  dsimp only at h
  cases hg : acsGet tr.acs ((icao m).getD "None".toList) with
  | none => rw [hg] at h; cases h; exact hwf
  | some ac =>
    rw [hg] at h
    obtain ⟨p, hp, rfl⟩ := acsGet_mem hg
    have hp' := hwf p hp
    cases hi : infer ias (hex2binM m) false with
    | rte => simp [hi] at h
    | exc => simp [hi] at h
    | val v =>
      simp only [hi, Res.bind_val, Res.pure_eq, Res.val.injEq] at h
      subst h
      exact trackerWF_set hwf _ _ ⟨hp'.1, hp'.2⟩

theorem trackerWF_filter {tr : Tracker} (hwf : TrackerWF tr) (f : Msg × Ac → Bool) :
    TrackerWF { tr with acs := tr.acs.filter f } :=
  fun p hp => hwf p (List.mem_filter.1 hp).1

/--
C17 (robustness), a whole call: `process_raw(adsb_ts, adsb_msg, commb_ts, commb_msg, tnow)` returns
normally when every ADS-B message is a 28-digit DF17/18 message and every Comm-B message has 28 digits,
from any well-formed table (in particular from the table left by any earlier such calls, starting from
`Decode()`), and leaves a well-formed table.

partial: rests on `DecodersTotal.infer` (to be discharged by PyModeS/Properties/C14.lean), and the model
of the Comm-B loop stops at `pms.bds.infer`.  Hex well-formedness of the messages is not needed because
the model reads a non-hex character as 0 where Python raises.  The full statement of C17 ("for any
history … never raises") is the iteration of this theorem, `processRaw_history_no_crash_partial`.
-/
theorem process_raw_no_crash_partial (D : DecodersTotal) (ias : Rat → Int → Rat) (tr : Tracker) (hwf : TrackerWF tr)
    (adsb commb : List (Rat × Msg)) (tnow : Rat)
    (ha : ∀ p ∈ adsb, p.2.length = 28 ∧ (df p.2 = 17 ∨ df p.2 = 18))
    (hc : ∀ p ∈ commb, p.2.length = 28) :
    ∃ tr', processRaw ias tr adsb commb tnow = .val tr' ∧ TrackerWF tr' := by
  obtain ⟨tr1, h1, hwf1⟩ := adsbBatch_no_crash tr hwf adsb ha
  obtain ⟨tr2, h2, hwf2⟩ := foldRes_okP TrackerWF (fun p : Rat × Msg => p.2.length = 28)
    (fun tr p => commbStep ias tr p.1 p.2)
    (fun a b ha hb => commbStep_no_crash_partial D ias a ha b.1 b.2 hb) tr1 commb hwf1 hc
  unfold processRaw
  simp only [h1, h2, Res.bind_val, Res.pure_eq]
  exact ⟨_, rfl, trackerWF_filter hwf2 _⟩

/-- a history of calls: each call is (ADS-B batch, Comm-B batch, tnow) -/
def processHistory (ias : Rat → Int → Rat) : Tracker → List (List (Rat × Msg) × List (Rat × Msg) × Rat) → Res Tracker :=
  foldRes (fun tr c => processRaw ias tr c.1 c.2.1 c.2.2)

/-- any history of such calls, starting from a fresh `Decode()`, never raises -/
theorem processRaw_history_no_crash_partial (D : DecodersTotal) (ias : Rat → Int → Rat)
    (calls : List (List (Rat × Msg) × List (Rat × Msg) × Rat))
    (h : ∀ c ∈ calls, (∀ p ∈ c.1, p.2.length = 28 ∧ (df p.2 = 17 ∨ df p.2 = 18)) ∧ (∀ p ∈ c.2.1, p.2.length = 28)) :
    ∃ tr', processHistory ias {} calls = .val tr' ∧ TrackerWF tr' :=
  foldRes_okP TrackerWF
    (fun c : List (Rat × Msg) × List (Rat × Msg) × Rat =>
      (∀ p ∈ c.1, p.2.length = 28 ∧ (df p.2 = 17 ∨ df p.2 = 18)) ∧ (∀ p ∈ c.2.1, p.2.length = 28))
    _ (fun a c ha hc => process_raw_no_crash_partial D ias a ha c.1 c.2.1 c.2.2 hc.1 hc.2) {} calls
    trackerWF_empty h

/-! ### discharging the bundle -/

/-- the bundle holds: `infer_ok` of `NoCrashInfer.lean` -/
theorem decodersTotal : DecodersTotal := ⟨fun ias bits h => infer_ok bits h ias false⟩

/-- C17 (robustness), a whole call, without assumptions on the decoders (see `process_raw_no_crash_partial`
    for the reading; the remaining caveat is the model's: its Comm-B loop stops at `pms.bds.infer`) -/
theorem process_raw_no_crash (ias : Rat → Int → Rat) (tr : Tracker) (hwf : TrackerWF tr)
    (adsb commb : List (Rat × Msg)) (tnow : Rat)
    (ha : ∀ p ∈ adsb, p.2.length = 28 ∧ (df p.2 = 17 ∨ df p.2 = 18))
    (hc : ∀ p ∈ commb, p.2.length = 28) :
    ∃ tr', processRaw ias tr adsb commb tnow = .val tr' ∧ TrackerWF tr' :=
  process_raw_no_crash_partial decodersTotal ias tr hwf adsb commb tnow ha hc

/-- C17 (robustness): any history of calls from a fresh `Decode()` returns normally -/
theorem processRaw_history_no_crash (ias : Rat → Int → Rat)
    (calls : List (List (Rat × Msg) × List (Rat × Msg) × Rat))
    (h : ∀ c ∈ calls, (∀ p ∈ c.1, p.2.length = 28 ∧ (df p.2 = 17 ∨ df p.2 = 18)) ∧ (∀ p ∈ c.2.1, p.2.length = 28)) :
    ∃ tr', processHistory ias {} calls = .val tr' ∧ TrackerWF tr' :=
  processRaw_history_no_crash_partial decodersTotal ias calls h

/-! ### concrete runs (the theorems are not vacuous, and the model evaluates) -/

/-- an identification message (TC 4) to a fresh table -/
example : (adsbStep {} 0 "8D406B902015A678D4D220AA4BDA".toList).isVal = true := by decide +kernel

/-- one aircraft: an airborne position pair (TC 11, even then odd: global decoding), an operational status
    message (TC 31: version 1, `nic_s` = 1), a third position message (decoded against the stored position,
    then `nic_v1` with the stored supplement), an airborne velocity message (TC 19) -/
example :
    (foldRes (fun tr p => adsbStep tr p.1 p.2) {}
      [(0, "8D40621D58C382D690C8AC2863A7".toList), (1, "8D40621D58C386435CC412692AD6".toList),
       (2, "8D40621DF8000000003000000000".toList), (3, "8D40621D58C382D690C8AC2863A7".toList),
       (4, "8D40621D9944EC0000000B000000".toList)]).isVal = true := by
  decide +kernel

end PyModeS.Tracker
