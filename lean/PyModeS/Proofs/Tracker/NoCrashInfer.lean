/-
  `pms.bds.infer(msg)` returns a value on every 112-bit frame (the one decoder fact the Comm-B loop of
  `process_raw` needs).  Helper file of `PyModeS/Proofs/Tracker/NoCrash.lean`.
-/
import PyModeS.Proofs.Tracker.NoCrashDecoders

namespace PyModeS.Tracker
open PyModeS

theorem dataR_eq (bits : Bits) (hlen : bits.length = 112) : dataR bits = .val (slice 32 88 bits) := by
  unfold dataR
  rw [hlen]
  have : (slice 32 88 bits).length = 56 := by rw [slice_length_of_le (by omega)]
  cases h : slice 32 88 bits with
  | nil => rw [h] at this; simp at this
  | cons a l => simp

theorem data_length (bits : Bits) (hlen : bits.length = 112) : (slice 32 88 bits).length = 56 := by
  rw [slice_length_of_le (by omega)]

theorem ufield_ok (d : Bits) (sb a b : Nat) (scale off : Rat) (h1 : sb < d.length) (h2 : a < b) (h3 : b ≤ d.length) :
    Ok (ufield d sb a b scale off) := by
  unfold ufield; ok_auto

theorem sfield_ok (d : Bits) (sb sg a b : Nat) (scale : Rat) (h1 : sb < d.length) (h1' : sg < d.length) (h2 : a < b)
    (h3 : b ≤ d.length) : Ok (sfield d sb sg a b scale) := by
  unfold sfield; ok_auto

theorem wrongstatus_ok (d : Bits) (sb msb lsb : Nat) (h1 : 1 ≤ sb) (h2 : sb ≤ d.length) (h3 : 1 ≤ msb) (h4 : msb ≤ lsb)
    (h5 : lsb ≤ d.length) : Ok (wrongstatus d sb msb lsb) := by
  unfold wrongstatus; ok_auto

/-- a status rule `(sb, msb, lsb)` (1-based, as in `wrongstatus`) stays inside the 56-bit MB field -/
def ruleOk (r : Nat × Nat × Nat) : Bool := decide (1 ≤ r.1 ∧ r.1 ≤ 56 ∧ 1 ≤ r.2.1 ∧ r.2.1 ≤ r.2.2 ∧ r.2.2 ≤ 56)

theorem statusOk_ok (d : Bits) (hl : d.length = 56) (rules : List (Nat × Nat × Nat)) (h : rules.all ruleOk = true) :
    Ok (statusOk d rules) := by
  induction rules with
  | nil => exact ok_pure _
  | cons r rest ih =>
    obtain ⟨sb, msb, lsb⟩ := r
    simp only [List.all_cons, Bool.and_eq_true] at h
    have hr : 1 ≤ sb ∧ sb ≤ 56 ∧ 1 ≤ msb ∧ msb ≤ lsb ∧ lsb ≤ 56 := by simpa [ruleOk] using h.1
    have hw := wrongstatus_ok d sb msb lsb hr.1 (by omega) hr.2.2.1 hr.2.2.2.1 (by omega)
    have hrest := ih h.2
    unfold statusOk
    ok_auto

theorem cap17All_length : Tables.cap17All.length = 24 := by decide
theorem cs20Chars_length : Tables.cs20Chars.length = 64 := by decide

section
variable (bits : Bits) (hlen : bits.length = 112)
include hlen

set_option hygiene false in
/-- unfold a Comm-B function, replace `dataR bits` by the 56-bit MB field `d`, then go through the body -/
local macro "commb_tac" f:ident : tactic => `(tactic| (
  unfold $f
  simp only [dataR_eq bits hlen, Res.bind_val]
  have hl := data_length bits hlen
  generalize slice 32 88 bits = d at hl
  repeat (any_goals (first
    | ok_step
    | exact statusOk_ok _ hl _ (by decide)
    | exact ufield_ok _ _ _ _ _ _ (by omega) (by omega) (by omega)
    | exact sfield_ok _ _ _ _ _ _ (by omega) (by omega) (by omega) (by omega)))))

theorem allzerosB_ok : Ok (allzerosB bits) := by commb_tac allzerosB

theorem is10_ok : Ok (is10 bits) := by
  have h0 := allzerosB_ok bits hlen
  commb_tac is10

theorem cap17_ok : Ok (cap17 bits) := by
  unfold cap17
  simp only [dataR_eq bits hlen, Res.bind_val]
  apply ok_mapM
  intro i hi
  have hi' : i < 24 := by
    have := (List.mem_filter.1 hi).1
    simp at this; omega
  have := cap17All_length
  ok_auto

theorem is17_ok : Ok (is17 bits) := by
  have h0 := allzerosB_ok bits hlen
  have h1 := cap17_ok bits hlen
  commb_tac is17

theorem cs20_ok : Ok (cs20 bits) := by
  unfold cs20
  simp only [dataR_eq bits hlen, Res.bind_val]
  have hl := data_length bits hlen
  exact chars8_ok _ cs20Chars_length _ (by rw [slice_length_of_le (by omega)]; omega)

theorem is20_ok : Ok (is20 bits) := by
  have h0 := allzerosB_ok bits hlen
  have h1 := cs20_ok bits hlen
  commb_tac is20

theorem is30_ok : Ok (is30 bits) := by
  have h0 := allzerosB_ok bits hlen
  commb_tac is30

theorem is40_ok : Ok (is40 bits) := by
  have h0 := allzerosB_ok bits hlen
  commb_tac is40

theorem wind44_ok : Ok (wind44 bits) := by commb_tac wind44
theorem temp44_ok : Ok (temp44 bits) := by commb_tac temp44

theorem is44_ok : Ok (is44 bits) := by
  have h0 := allzerosB_ok bits hlen
  have h1 := wind44_ok bits hlen
  have h2 := temp44_ok bits hlen
  commb_tac is44

theorem temp45_ok : Ok (temp45 bits) := by commb_tac temp45

theorem is45_ok : Ok (is45 bits) := by
  have h0 := allzerosB_ok bits hlen
  have h1 := temp45_ok bits hlen
  commb_tac is45

theorem roll50_ok : Ok (roll50 bits) := by commb_tac roll50
theorem gs50_ok : Ok (gs50 bits) := by commb_tac gs50
theorem tas50_ok : Ok (tas50 bits) := by commb_tac tas50

theorem is50_ok : Ok (is50 bits) := by
  have h0 := allzerosB_ok bits hlen
  have h1 := roll50_ok bits hlen
  have h2 := gs50_ok bits hlen
  have h3 := tas50_ok bits hlen
  commb_tac is50

theorem ias60_ok : Ok (ias60 bits) := by commb_tac ias60
theorem mach60_ok : Ok (mach60 bits) := by commb_tac mach60
theorem vr60baro_ok : Ok (vr60baro bits) := by commb_tac vr60baro
theorem vr60ins_ok : Ok (vr60ins bits) := by commb_tac vr60ins

theorem is60Core_ok : Ok (is60Core bits) := by
  have h0 := allzerosB_ok bits hlen
  have h1 := ias60_ok bits hlen
  have h2 := mach60_ok bits hlen
  have h3 := vr60baro_ok bits hlen
  have h4 := vr60ins_ok bits hlen
  commb_tac is60Core

theorem is60AltCheck_ok (ias : Rat → Int → Rat) : Ok (is60AltCheck ias bits) := by
  have h1 := ias60_ok bits hlen
  have h2 := mach60_ok bits hlen
  have h3 : Ok (altitude13 (slice 19 32 bits)) := altitude13_ok _ (by rw [slice_length_of_le (by omega)])
  unfold is60AltCheck
  ok_auto

theorem is60_ok (ias : Rat → Int → Rat) : Ok (is60 ias bits) := by
  have h1 := is60Core_ok bits hlen
  have h2 := is60AltCheck_ok bits hlen ias
  unfold is60
  ok_auto

theorem commbRules_ok (ias : Rat → Int → Rat) : Ok (commbRules ias bits) := by
  have h10 := is10_ok bits hlen
  have h17 := is17_ok bits hlen
  have h20 := is20_ok bits hlen
  have h30 := is30_ok bits hlen
  have h40 := is40_ok bits hlen
  have h44 := is44_ok bits hlen
  have h45 := is45_ok bits hlen
  have h50 := is50_ok bits hlen
  have h60 := is60_ok bits hlen ias
  unfold commbRules
  ok_auto

/-- `pms.bds.infer(msg, mrar)` returns a label, a list of labels or `None` on every 112-bit frame -/
theorem infer_ok (ias : Rat → Int → Rat) (mrar : Bool) : Ok (infer ias bits mrar) := by
  have h0 := allzerosB_ok bits hlen
  have h1 := commbRules_ok bits hlen ias
  unfold infer
  ok_auto

end

end PyModeS.Tracker
