/-
  A small partial-correctness calculus for `Res`-valued `do` blocks.

  `RAll P x` = "if `x` returns a value, the value satisfies `P`".  The `do` notation compiles
  sequential blocks into join points (`have __do_jp := fun … ; …`); zeta-reducing them blows the
  term up exponentially and `split at h` times out.  Recipe that works:
    unfold f
    extract_lets jp1 jp2 …                 -- innermost (= textually last) block comes first
    have h1 : ∀ a, Q a → RAll P (jp1 a) := by intro a ha; simp -zeta only [jp1]; rall_auto [exact …]
    clear_value jp1                        -- make it opaque before going on
    …
    rall_auto [exact h2 _ rfl]
  `rall_auto [t]` normalises with the iff rules below (binds become `∀ a, x = .val a → …`, so the
  results of the calls are available as hypotheses), splits `if`/`match`, and tries `t` on leaves.
-/
import PyModeS.Proofs.Tracker.Basic
namespace PyModeS.Tracker
open PyModeS

/-- partial-correctness predicate: if the computation returns a value, the value satisfies `P` -/
def RAll {α} (P : α → Prop) : Res α → Prop
  | .val a => P a
  | _ => True

theorem rall_val {α} {P : α → Prop} {a : α} : RAll P (.val a) ↔ P a := Iff.rfl
theorem rall_pure {α} {P : α → Prop} {a : α} : RAll P (pure a) ↔ P a := Iff.rfl
theorem rall_rte {α} {P : α → Prop} : RAll P (.rte : Res α) ↔ True := Iff.rfl
theorem rall_exc {α} {P : α → Prop} : RAll P (.exc : Res α) ↔ True := Iff.rfl
theorem rall_bind {α β} {P : β → Prop} {x : Res α} {f : α → Res β} :
    RAll P (x >>= f) ↔ ∀ a, x = .val a → RAll P (f a) := by
  cases x with
  | val a => exact ⟨fun h b hb => by cases hb; exact h, fun h => h a rfl⟩
  | rte => exact ⟨(fun _ b hb => nomatch hb), fun _ => trivial⟩
  | exc => exact ⟨(fun _ b hb => nomatch hb), fun _ => trivial⟩
theorem rall_ite {α} {P : α → Prop} {c : Prop} [Decidable c] {x y : Res α} :
    RAll P (if c then x else y) ↔ (c → RAll P x) ∧ (¬ c → RAll P y) := by
  split <;> simp_all
theorem rall_of_forall {α} {P : α → Prop} {x : Res α} (h : ∀ a, P a) : RAll P x := by
  cases x with
  | val a => exact h a
  | rte => trivial
  | exc => trivial
theorem rall_mono {α} {P Q : α → Prop} {x : Res α} (h : RAll P x) (hpq : ∀ a, P a → Q a) : RAll Q x := by
  cases x with
  | val a => exact hpq a h
  | rte => trivial
  | exc => trivial
theorem rall_elim {α} {P : α → Prop} {x : Res α} {a : α} (h : RAll P x) (e : x = .val a) : P a := by
  rw [e] at h; exact h
theorem rall_intro {α} {P : α → Prop} {x : Res α} (h : ∀ a, x = .val a → P a) : RAll P x := by
  cases x with
  | val a => exact h a rfl
  | rte => trivial
  | exc => trivial
attribute [irreducible] RAll

/-- normalise, split, and try the given tactic on the leaves -/
macro "rall_auto" "[" t:tacticSeq "]" : tactic => `(tactic|
  repeat' (first
    | ($t)
    | simp only [rall_val, rall_pure, rall_rte, rall_exc, Res.bind_val, Res.bind_exc, Res.bind_rte, pure_bind,
        rall_bind, rall_ite]
    | intro _
    | apply And.intro
    | split))

end PyModeS.Tracker
