/-
  CPR quantisation bound: the position carried by a frame (`Spec.cprEncode … |>.rlat / .rlon`,
  which is what the decoders recover) is within half a quantisation step `dlat / 2^17`,
  `dlon / 2^17` of the encoder's input.  With the zone sizes this gives the 0.001 degree tolerance
  used by the tracker comparison: always for the latitude and for surface frames, and for airborne
  frames whenever there are at least two longitude zones (one zone only beyond 87 degrees latitude,
  where half a step is 360/2^18 = 0.00137 degrees -- see the counterexample at the end).
-/
import PyModeS.Proofs.CPR.Local

namespace PyModeS.Tracker
open PyModeS

/-! ### rounding to the nearest integer -/

/-- rounding (ties upwards) moves a rational by at most one half -/
theorem round_half (x : ℚ) : |((⌊x + 1 / 2⌋ : ℤ) : ℚ) - x| ≤ 1 / 2 := by
  have h1 := Int.floor_le (x + 1 / 2)
  have h2 := Int.lt_floor_add_one (x + 1 / 2)
  rw [abs_le]
  constructor <;> linarith

/-- rounding `x` to the nearest multiple of `d / 2^17` moves it by at most `d / 2^18` -/
theorem round_step (d : ℚ) (hd : 0 < d) (x : ℚ) :
    |d / 131072 * ((⌊131072 * (x / d) + 1 / 2⌋ : ℤ) : ℚ) - x| ≤ d / 2 ^ 18 := by
  have hx : x = d / 131072 * (131072 * (x / d)) := by field_simp
  have hr := round_half (131072 * (x / d))
  generalize 131072 * (x / d) = X at hx hr
  generalize ((⌊X + 1 / 2⌋ : ℤ) : ℚ) = F at hr
  have e : d / 131072 * F - x = d / 131072 * (F - X) := by rw [hx]; ring
  have hc : (0 : ℚ) ≤ d / 131072 := by positivity
  rw [e, abs_mul, abs_of_nonneg hc]
  calc d / 131072 * |F - X| ≤ d / 131072 * (1 / 2) := mul_le_mul_of_nonneg_left hr hc
    _ = d / 2 ^ 18 := by ring

/-! ### the carried longitude is the rounded input -/

/-- analogue of `CPR.enc_rlat_round` for the longitude: the carried longitude is the input
    longitude rounded to the nearest multiple of `dlon/2^17` (ties upwards) -/
theorem enc_rlon_round (nl : ℚ → ℕ) (B : ℚ) (i : ℕ) (lat lon : ℚ) :
    (Spec.cprEncode nl B i lat lon).rlon = (Spec.cprEncode nl B i lat lon).dlon / 131072 *
      ((⌊131072 * (lon / (Spec.cprEncode nl B i lat lon).dlon) + 1 / 2⌋ : ℤ) : ℚ) := by
  simp only [Spec.cprEncode, Spec.two17, CPR.ratFloor_eq]
  generalize (B / ((max (nl _ - i) 1 : ℕ) : ℚ)) = d
  have : (131072 : ℚ) * (lon / d - (⌊lon / d⌋ : ℚ)) + 1 / 2
      = (131072 * (lon / d) + 1 / 2) + ((-(131072 * ⌊lon / d⌋) : ℤ) : ℚ) := by push_cast; ring
  rw [this, Int.floor_add_intCast]
  push_cast; ring

/-! ### quantisation error -/

/-- the carried latitude is within half a quantisation step (`dlat / 2^17 / 2`) of the input -/
theorem quant_lat (nl : ℚ → ℕ) (base : ℚ) (hb : 0 < base) (i : ℕ) (hi : i = 0 ∨ i = 1)
    (lat lon : ℚ) (e : Spec.Enc) (he : e = Spec.cprEncode nl base i lat lon) :
    |e.rlat - lat| ≤ e.dlat / 2 ^ 18 := by
  subst he
  rw [CPR.enc_rlat_round]
  exact round_step _ (CPR.enc_dlat_pos nl base hb i hi lat lon) lat

/-- the carried longitude is within half a quantisation step (`dlon / 2^17 / 2`) of the input -/
theorem quant_lon (nl : ℚ → ℕ) (base : ℚ) (hb : 0 < base) (i : ℕ) (hi : i = 0 ∨ i = 1)
    (lat lon : ℚ) (e : Spec.Enc) (he : e = Spec.cprEncode nl base i lat lon) :
    |e.rlon - lon| ≤ e.dlon / 2 ^ 18 := by
  have _ := hi
  subst he
  rw [enc_rlon_round]
  exact round_step _ (CPR.enc_dlon_pos nl base hb i lat lon) lon

/-! ### zone sizes -/

/-- the latitude zone is `base / (60 - i)`, at most `base / 59` -/
theorem dlat_le (nl : ℚ → ℕ) (base : ℚ) (hb : 0 < base) (i : ℕ) (hi : i = 0 ∨ i = 1)
    (lat lon : ℚ) (e : Spec.Enc) (he : e = Spec.cprEncode nl base i lat lon) :
    e.dlat ≤ base / 59 := by
  subst he
  rw [CPR.enc_dlat]
  rcases hi with rfl | rfl
  · have : base / (60 - ((0 : ℕ) : ℚ)) = base / 60 := by norm_num
    rw [this]
    exact div_le_div_of_nonneg_left hb.le (by norm_num) (by norm_num)
  · have : base / (60 - ((1 : ℕ) : ℚ)) = base / 59 := by norm_num
    rw [this]

/-- the longitude zone is `base / max (NL(rlat) - i) 1` (= `CPR.enc_dlon`) -/
theorem dlon_eq' (nl : ℚ → ℕ) (base : ℚ) (i : ℕ) (lat lon : ℚ) (e : Spec.Enc)
    (he : e = Spec.cprEncode nl base i lat lon) :
    e.dlon = base / ((max (nl e.rlat - i) 1 : ℕ) : ℚ) := by
  subst he
  exact CPR.enc_dlon nl base i lat lon

/-- the longitude zone is at most `base` (one zone) -/
theorem dlon_le (nl : ℚ → ℕ) (base : ℚ) (hb : 0 < base) (i : ℕ) (lat lon : ℚ) (e : Spec.Enc)
    (he : e = Spec.cprEncode nl base i lat lon) : e.dlon ≤ base := by
  rw [dlon_eq' nl base i lat lon e he]
  have h1 : 1 ≤ max (nl e.rlat - i) 1 := le_max_right _ _
  have h1' : (1 : ℚ) ≤ ((max (nl e.rlat - i) 1 : ℕ) : ℚ) := by exact_mod_cast h1
  exact div_le_self hb.le h1'

/-- with at least two longitude zones the zone is at most `base / 2` -/
theorem dlon_le_half (nl : ℚ → ℕ) (base : ℚ) (hb : 0 < base) (i : ℕ) (lat lon : ℚ) (e : Spec.Enc)
    (he : e = Spec.cprEncode nl base i lat lon) (hni : 2 ≤ max (nl e.rlat - i) 1) :
    e.dlon ≤ base / 2 := by
  rw [dlon_eq' nl base i lat lon e he]
  have h2 : (2 : ℚ) ≤ ((max (nl e.rlat - i) 1 : ℕ) : ℚ) := by exact_mod_cast hni
  exact div_le_div_of_nonneg_left hb.le (by norm_num) h2

/-! ### explicit numeric bounds, airborne (base 360) -/

/-- airborne latitude error at most `360/59/2^18` (< 0.0000233 degrees) -/
theorem quant_lat_360 (nl : ℚ → ℕ) (i : ℕ) (hi : i = 0 ∨ i = 1) (lat lon : ℚ) (e : Spec.Enc)
    (he : e = Spec.cprEncode nl 360 i lat lon) : |e.rlat - lat| ≤ 360 / 59 / 2 ^ 18 := by
  have h1 := quant_lat nl 360 (by norm_num) i hi lat lon e he
  have h2 := dlat_le nl 360 (by norm_num) i hi lat lon e he
  calc |e.rlat - lat| ≤ e.dlat / 2 ^ 18 := h1
    _ ≤ 360 / 59 / 2 ^ 18 := div_le_div_of_nonneg_right h2 (by norm_num)

/-- airborne longitude error at most `360 / (ni * 2^18)` with `ni = max (NL(rlat) - i) 1` -/
theorem quant_lon_360 (nl : ℚ → ℕ) (i : ℕ) (hi : i = 0 ∨ i = 1) (lat lon : ℚ) (e : Spec.Enc)
    (he : e = Spec.cprEncode nl 360 i lat lon) :
    |e.rlon - lon| ≤ 360 / ((max (nl e.rlat - i) 1 : ℕ) : ℚ) / 2 ^ 18 := by
  have h1 := quant_lon nl 360 (by norm_num) i hi lat lon e he
  rwa [dlon_eq' nl 360 i lat lon e he] at h1

/-! ### the 0.001 degree tolerance -/

/-- airborne, base 360: needs at least two longitude zones (`ni = 1` only beyond 87 degrees
    latitude, where half a step is `360/2^18 = 0.00137` degrees) -/
theorem carried_within_0_001 (nl : ℚ → ℕ) (i : ℕ) (hi : i = 0 ∨ i = 1) (lat lon : ℚ)
    (e : Spec.Enc) (he : e = Spec.cprEncode nl 360 i lat lon)
    (hni : 2 ≤ max (nl e.rlat - i) 1) :
    |e.rlon - lon| < 1 / 1000 ∧ |e.rlat - lat| < 1 / 1000 := by
  constructor
  · have h1 := quant_lon nl 360 (by norm_num) i hi lat lon e he
    have h2 := dlon_le_half nl 360 (by norm_num) i lat lon e he hni
    have h3 : e.dlon / 2 ^ 18 ≤ 360 / 2 / 2 ^ 18 := div_le_div_of_nonneg_right h2 (by norm_num)
    have h4 : (360 : ℚ) / 2 / 2 ^ 18 < 1 / 1000 := by norm_num
    linarith
  · have h1 := quant_lat_360 nl i hi lat lon e he
    have h4 : (360 : ℚ) / 59 / 2 ^ 18 < 1 / 1000 := by norm_num
    linarith

/-- surface, base 90: unconditional -/
theorem carried_within_0_001_surface (nl : ℚ → ℕ) (i : ℕ) (hi : i = 0 ∨ i = 1) (lat lon : ℚ)
    (e : Spec.Enc) (he : e = Spec.cprEncode nl 90 i lat lon) :
    |e.rlon - lon| < 1 / 1000 ∧ |e.rlat - lat| < 1 / 1000 := by
  constructor
  · have h1 := quant_lon nl 90 (by norm_num) i hi lat lon e he
    have h2 := dlon_le nl 90 (by norm_num) i lat lon e he
    have h3 : e.dlon / 2 ^ 18 ≤ 90 / 2 ^ 18 := div_le_div_of_nonneg_right h2 (by norm_num)
    have h4 : (90 : ℚ) / 2 ^ 18 < 1 / 1000 := by norm_num
    linarith
  · have h1 := quant_lat nl 90 (by norm_num) i hi lat lon e he
    have h2 := dlat_le nl 90 (by norm_num) i hi lat lon e he
    have h3 : e.dlat / 2 ^ 18 ≤ 90 / 59 / 2 ^ 18 := div_le_div_of_nonneg_right h2 (by norm_num)
    have h4 : (90 : ℚ) / 59 / 2 ^ 18 < 1 / 1000 := by norm_num
    linarith

/-! ### non-vacuity and sharpness -/

/-- the hypotheses of `carried_within_0_001` hold for a real position (lat 52.2572, lon 3.91937,
    even frame, the NL function as coded): 36 longitude zones -/
example : 2 ≤ max (cprNL (Spec.cprEncode cprNL 360 0 (522572 / 10000) (391937 / 100000)).rlat - 0) 1 := by
  decide +kernel

example :
    |(Spec.cprEncode cprNL 360 0 (522572 / 10000) (391937 / 100000)).rlon - 391937 / 100000| < 1 / 1000 ∧
    |(Spec.cprEncode cprNL 360 0 (522572 / 10000) (391937 / 100000)).rlat - 522572 / 10000| < 1 / 1000 :=
  carried_within_0_001 cprNL 0 (Or.inl rfl) _ _ _ rfl (by decide +kernel)

/-- odd frame of the same position -/
example :
    |(Spec.cprEncode cprNL 360 1 (522572 / 10000) (391937 / 100000)).rlon - 391937 / 100000| < 1 / 1000 ∧
    |(Spec.cprEncode cprNL 360 1 (522572 / 10000) (391937 / 100000)).rlat - 522572 / 10000| < 1 / 1000 :=
  carried_within_0_001 cprNL 1 (Or.inr rfl) _ _ _ rfl (by decide +kernel)

/-- surface frame of the same position (unconditional) -/
example :
    |(Spec.cprEncode cprNL 90 0 (522572 / 10000) (391937 / 100000)).rlon - 391937 / 100000| < 1 / 1000 ∧
    |(Spec.cprEncode cprNL 90 0 (522572 / 10000) (391937 / 100000)).rlat - 522572 / 10000| < 1 / 1000 :=
  carried_within_0_001_surface cprNL 0 (Or.inl rfl) _ _ _ rfl

/-- sharpness: the `ni ≥ 2` hypothesis cannot be dropped for base 360.  At latitude 88 there is a
    single longitude zone (`dlon = 360`), the input longitude 0.00137 is carried as 0, an error of
    0.00137 > 0.001 degrees. -/
theorem carried_within_0_001_sharp :
    max (cprNL (Spec.cprEncode cprNL 360 0 88 (137 / 100000)).rlat - 0) 1 = 1 ∧
    (Spec.cprEncode cprNL 360 0 88 (137 / 100000)).dlon = 360 ∧
    (Spec.cprEncode cprNL 360 0 88 (137 / 100000)).rlon = 0 ∧
    ¬ |(Spec.cprEncode cprNL 360 0 88 (137 / 100000)).rlon - 137 / 100000| < 1 / 1000 := by
  have h1 : max (cprNL (Spec.cprEncode cprNL 360 0 88 (137 / 100000)).rlat - 0) 1 = 1 := by
    decide +kernel
  have h2 : (Spec.cprEncode cprNL 360 0 88 (137 / 100000)).dlon = 360 := by decide +kernel
  have h3 : (Spec.cprEncode cprNL 360 0 88 (137 / 100000)).rlon = 0 := by decide +kernel
  refine ⟨h1, h2, h3, ?_⟩
  rw [h3]
  norm_num [abs_of_nonneg]

end PyModeS.Tracker
