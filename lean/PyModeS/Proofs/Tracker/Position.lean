/-
  What `adsbStep` stores as the aircraft's position: the reference branch (`position_with_ref`
  against the stored position, when it is younger than 180 s) and the pair branch (`position` on
  the stored even/odd frames, when they are less than 10 s apart).
-/
import PyModeS.Proofs.Tracker.Steps
import PyModeS.Proofs.Tracker.NoCrash
namespace PyModeS.Tracker
open PyModeS

/-- two records agree on everything the position logic reads or writes (all fields except the
    version / NIC-supplement bookkeeping) -/
def SamePos (a b : Ac) : Prop :=
  a.live = b.live ∧ a.m0 = b.m0 ∧ a.m1 = b.m1 ∧ a.t0 = b.t0 ∧ a.t1 = b.t1 ∧
  a.tpos = b.tpos ∧ a.lat = b.lat ∧ a.lon = b.lon

theorem SamePos.rfl' (a : Ac) : SamePos a a := ⟨rfl, rfl, rfl, rfl, rfl, rfl, rfl, rfl⟩

theorem qualityBlock_samePos_rall (ac : Ac) (bits : Bits) (tc : Nat) :
    RAll (fun ac' => SamePos ac' ac) (qualityBlock ac bits tc) := by
  unfold qualityBlock
  extract_lets jp1 jp2
  have h1 : ∀ a : Ac, SamePos a ac → RAll (fun ac' => SamePos ac' ac) (jp1 a) := by
    intro a ha
    simp -zeta only [jp1]
    rall_auto [exact ha]
  clear_value jp1
  have h2 : ∀ a : Ac, SamePos a ac → RAll (fun ac' => SamePos ac' ac) (jp2 a) := by
    intro a ha
    simp -zeta only [jp2]
    extract_lets jp3 jp4
    have h3 : ∀ u, RAll (fun ac' => SamePos ac' ac) (jp3 u) := by
      intro u
      simp -zeta only [jp3]
      rall_auto [exact h1 a ha]
    clear_value jp3
    have h4 : ∀ u, RAll (fun ac' => SamePos ac' ac) (jp4 u) := by
      intro u
      simp -zeta only [jp4]
      rall_auto [exact h3 ()]
    clear_value jp4
    rall_auto [exact h4 ()]
  clear_value jp2
  rall_auto [exact h2 _ (SamePos.rfl' _)]

/-- the uncertainty block leaves position, stored frames and time stamps alone -/
theorem qualityBlock_samePos {ac ac' : Ac} {bits : Bits} {tc : Nat}
    (h : qualityBlock ac bits tc = .val ac') : SamePos ac' ac :=
  rall_elim (P := fun ac' => SamePos ac' ac) (qualityBlock_samePos_rall ac bits tc) h

/-- the record `adsbStep` starts from: the stored one (or a fresh one) with `live := int(t)` -/
def startAc (tr : Tracker) (t : Rat) (m : Msg) : Ac :=
  { (acsGet tr.acs (keyOf m)).getD { live := 0 } with live := pyInt t }

/-- … with the new frame filed under its parity -/
def filedAc (tr : Tracker) (t : Rat) (m : Msg) (oe : Nat) : Ac :=
  if oe = 0 then { startAc tr t m with m0 := some (hex2binM m), t0 := some t }
  else { startAc tr t m with m1 := some (hex2binM m), t1 := some t }

/-- the velocity gate of `process_raw` lets the message through to the position block -/
def GateOpen (bits : Bits) (tc : Nat) : Prop :=
  ((5 ≤ tc ∧ tc ≤ 8) ∨ tc = 19) → velocityGate bits = .val (some (true, false, false))

/-- REFERENCE BRANCH, partial correctness: position message (TC 5–18) through the gate, stored
    position younger than 180 s, `position_with_ref` returns `(X, Y)`: every value `adsbStep` can
    return is the table with the sender's record replaced by a record that agrees (on all
    position fields) with `filedAc` updated by `tpos := t, lat := X, lon := Y`. -/
theorem adsbStep_ref_rall (tr : Tracker) (t : Rat) (m : Msg) (tc : Nat)
    (htc : typecode m = some tc) (h518 : 5 ≤ tc ∧ tc ≤ 18) (hgate : GateOpen (hex2binM m) tc)
    (tp la lo X Y : Rat)
    (htp : (startAc tr t m).tpos = some tp) (hrecent : t - tp < 180)
    (hla : (startAc tr t m).lat = some la) (hlo : (startAc tr t m).lon = some lo)
    (hpwr : positionWithRef (hex2binM m) la lo = .val (X, Y)) :
    RAll (fun tr' => ∃ oe a', oeFlag (hex2binM m) = .val oe ∧
        tr' = { tr with acs := acsSet tr.acs (keyOf m) a' } ∧
        SamePos a' { filedAc tr t m oe with tpos := some t, lat := some X, lon := some Y })
      (adsbStep tr t m) := by
  unfold adsbStep
  extract_lets bits key tc? ac0 ac save
  have hbits : bits = hex2binM m := rfl
  have hkey : key = keyOf m := rfl
  have hac : ac = startAc tr t m := rfl
  have hsave : ∀ a, save a = { tr with acs := acsSet tr.acs (keyOf m) a } := fun _ => rfl
  have h1 : tc? = some tc := htc
  clear_value save ac tc? bits
  subst h1 hbits
  simp -zeta only []
  extract_lets jpQ jpPos jpVel
  -- the uncertainty block and the final store
  have hQ : ∀ (oe : Nat) (a : Ac), oeFlag (hex2binM m) = .val oe →
      SamePos a { filedAc tr t m oe with tpos := some t, lat := some X, lon := some Y } →
      RAll (fun tr' => ∃ oe a', oeFlag (hex2binM m) = .val oe ∧
        tr' = { tr with acs := acsSet tr.acs (keyOf m) a' } ∧
        SamePos a' { filedAc tr t m oe with tpos := some t, lat := some X, lon := some Y }) (jpQ (a, true)) := by
    intro oe a hoe ha
    simp -zeta only [jpQ]
    simp only [Bool.not_true, Bool.false_eq_true, if_false, rall_bind, rall_pure]
    intro a' hq
    refine ⟨oe, a', hoe, hsave a', ?_⟩
    obtain ⟨q1, q2, q3, q4, q5, q6, q7, q8⟩ := qualityBlock_samePos hq
    obtain ⟨p1, p2, p3, p4, p5, p6, p7, p8⟩ := ha
    exact ⟨q1.trans p1, q2.trans p2, q3.trans p3, q4.trans p4, q5.trans p5, q6.trans p6, q7.trans p7, q8.trans p8⟩
  clear_value jpQ
  have hPos : RAll (fun tr' => ∃ oe a', oeFlag (hex2binM m) = .val oe ∧
        tr' = { tr with acs := acsSet tr.acs (keyOf m) a' } ∧
        SamePos a' { filedAc tr t m oe with tpos := some t, lat := some X, lon := some Y }) (jpPos true) := by
    simp -zeta only [jpPos]
    simp -zeta only [Bool.not_true, Bool.false_eq_true, if_false, h518, and_self, if_true, rall_bind]
    intro oe hoe
    extract_lets ac' useRef
    have hac' : ac' = filedAc tr t m oe := by
      simp only [ac', filedAc, hac]
    have htp' : ac'.tpos = some tp := by rw [hac']; unfold filedAc; split <;> exact htp
    have hla' : ac'.lat = some la := by rw [hac']; unfold filedAc; split <;> exact hla
    have hlo' : ac'.lon = some lo := by rw [hac']; unfold filedAc; split <;> exact hlo
    have huse : useRef = true := by
      simp only [useRef, htp', decide_eq_true_eq]; exact hrecent
    clear_value useRef ac'
    subst huse
    simp -zeta only [if_true, hla', hlo', hpwr, Res.bind_val, pure_bind, rall_bind]
    intro _ _
    apply hQ oe _ hoe
    rw [hac']
    exact SamePos.rfl' _
  clear_value jpPos
  have hVel : ∀ u, RAll (fun tr' => ∃ oe a', oeFlag (hex2binM m) = .val oe ∧
        tr' = { tr with acs := acsSet tr.acs (keyOf m) a' } ∧
        SamePos a' { filedAc tr t m oe with tpos := some t, lat := some X, lon := some Y }) (jpVel u) := by
    intro u
    simp -zeta only [jpVel]
    by_cases hv : (5 ≤ tc ∧ tc ≤ 8) ∨ tc = 19
    · simp -zeta only [hv, if_true, hgate hv, Res.bind_val, pure_bind, Bool.not_false, Bool.and_self]
      exact hPos
    · simp -zeta only [hv, if_false, pure_bind]
      exact hPos
  clear_value jpVel
  rall_auto [exact hVel _]

/-- what the pair branch stores: the decoded position if `position` returns one, else the record
    as filed (`None`, or any exception: the bare `except: continue`) -/
def pairTarget (a : Ac) (t : Rat) (r : Res (Option (Rat × Rat))) : Ac :=
  match r with
  | .val (some p) => { a with tpos := some t, lat := some p.1, lon := some p.2 }
  | _ => a

/-- PAIR BRANCH, partial correctness: position message (TC 5–18) through the gate, no stored
    position younger than 180 s, both parities on file after filing the new frame, less than 10 s
    apart. -/
theorem adsbStep_pair_rall (tr : Tracker) (t : Rat) (m : Msg) (tc : Nat)
    (htc : typecode m = some tc) (h518 : 5 ≤ tc ∧ tc ≤ 18) (hgate : GateOpen (hex2binM m) tc)
    (hnoref : ∀ tp, (startAc tr t m).tpos = some tp → ¬ (t - tp < 180))
    (oe : Nat) (hoe : oeFlag (hex2binM m) = .val oe)
    (b0 b1 : Bits) (t0 t1 : Rat)
    (hm0 : (filedAc tr t m oe).m0 = some b0) (hm1 : (filedAc tr t m oe).m1 = some b1)
    (ht0 : (filedAc tr t m oe).t0 = some t0) (ht1 : (filedAc tr t m oe).t1 = some t1)
    (hwin : rabs (t0 - t1) < 10) :
    RAll (fun tr' => ∃ a', tr' = { tr with acs := acsSet tr.acs (keyOf m) a' } ∧
        SamePos a' (pairTarget (filedAc tr t m oe) t (position b0 b1 t0 t1 tr.ref)))
      (adsbStep tr t m) := by
  unfold adsbStep
  extract_lets bits key tc? ac0 ac save
  have hbits : bits = hex2binM m := rfl
  have hac : ac = startAc tr t m := rfl
  have hsave : ∀ a, save a = { tr with acs := acsSet tr.acs (keyOf m) a } := fun _ => rfl
  have h1 : tc? = some tc := htc
  clear_value save ac tc? bits
  subst h1 hbits
  simp -zeta only []
  extract_lets jpQ jpPos jpVel
  have hQ : ∀ (T a : Ac) (c : Bool), SamePos a T →
      RAll (fun tr' => ∃ a', tr' = { tr with acs := acsSet tr.acs (keyOf m) a' } ∧ SamePos a' T) (jpQ (a, c)) := by
    intro T a c ha
    simp -zeta only [jpQ]
    simp only [rall_ite, rall_bind, rall_pure]
    refine ⟨fun _ => ⟨a, hsave a, ha⟩, fun _ a' hq => ⟨a', hsave a', ?_⟩⟩
    obtain ⟨q1, q2, q3, q4, q5, q6, q7, q8⟩ := qualityBlock_samePos hq
    obtain ⟨p1, p2, p3, p4, p5, p6, p7, p8⟩ := ha
    exact ⟨q1.trans p1, q2.trans p2, q3.trans p3, q4.trans p4, q5.trans p5, q6.trans p6, q7.trans p7, q8.trans p8⟩
  clear_value jpQ
  have hPos : RAll (fun tr' => ∃ a', tr' = { tr with acs := acsSet tr.acs (keyOf m) a' } ∧
        SamePos a' (pairTarget (filedAc tr t m oe) t (position b0 b1 t0 t1 tr.ref))) (jpPos true) := by
    simp -zeta only [jpPos]
    simp -zeta only [Bool.not_true, Bool.false_eq_true, if_false, h518, and_self, if_true, hoe, Res.bind_val]
    extract_lets ac' useRef
    have hac' : ac' = filedAc tr t m oe := by
      simp only [ac', filedAc, hac]
    have htp' : ac'.tpos = (startAc tr t m).tpos := by rw [hac']; unfold filedAc; split <;> rfl
    have huse : useRef = false := by
      simp only [useRef, htp']
      cases h : (startAc tr t m).tpos with
      | none => rfl
      | some tp => simp only [decide_eq_false_iff_not]; exact hnoref tp h
    clear_value useRef ac'
    subst huse hac'
    simp -zeta only [Bool.false_eq_true, if_false, hm0, hm1, ht0, ht1, hwin, if_true]
    cases hpos : position b0 b1 t0 t1 tr.ref with
    | val o =>
      cases o with
      | none =>
        simp -zeta only [pure_bind]
        exact hQ _ _ _ (SamePos.rfl' _)
      | some p =>
        obtain ⟨la', lo'⟩ := p
        simp -zeta only [pure_bind, rall_bind]
        intro _ _
        exact hQ _ _ _ ⟨rfl, hm0.symm, hm1.symm, ht0.symm, ht1.symm, rfl, rfl, rfl⟩
    | rte =>
      simp -zeta only [pure_bind]
      exact hQ _ _ _ (SamePos.rfl' _)
    | exc =>
      simp -zeta only [pure_bind]
      exact hQ _ _ _ (SamePos.rfl' _)
  clear_value jpPos
  have hVel : ∀ u, RAll (fun tr' => ∃ a', tr' = { tr with acs := acsSet tr.acs (keyOf m) a' } ∧
        SamePos a' (pairTarget (filedAc tr t m oe) t (position b0 b1 t0 t1 tr.ref))) (jpVel u) := by
    intro u
    simp -zeta only [jpVel]
    by_cases hv : (5 ≤ tc ∧ tc ≤ 8) ∨ tc = 19
    · simp -zeta only [hv, if_true, hgate hv, Res.bind_val, pure_bind, Bool.not_false, Bool.and_self]
      exact hPos
    · simp -zeta only [hv, if_false, pure_bind]
      exact hPos
  clear_value jpVel
  rall_auto [exact hVel _]

/-! ### total forms (with the no-crash theorem) -/

theorem startAc_of_get {tr : Tracker} {t : Rat} {m : Msg} {ac0 : Ac} (h : acsGet tr.acs (keyOf m) = some ac0) :
    startAc tr t m = { ac0 with live := pyInt t } := by
  simp [startAc, h]

/-- REFERENCE BRANCH, total: the step returns, the table stays well-formed, and the sender's record
    agrees with `filedAc` updated by `tpos := t, lat := X, lon := Y` -/
theorem adsbStep_ref_total (tr : Tracker) (hwf : TrackerWF tr) (t : Rat) (m : Msg)
    (hlen : m.length = 28) (hdf : df m = 17 ∨ df m = 18) (tc : Nat)
    (htc : typecode m = some tc) (h518 : 5 ≤ tc ∧ tc ≤ 18) (hgate : GateOpen (hex2binM m) tc)
    (tp la lo X Y : Rat)
    (htp : (startAc tr t m).tpos = some tp) (hrecent : t - tp < 180)
    (hla : (startAc tr t m).lat = some la) (hlo : (startAc tr t m).lon = some lo)
    (hpwr : positionWithRef (hex2binM m) la lo = .val (X, Y)) :
    ∃ tr' oe a', adsbStep tr t m = .val tr' ∧ TrackerWF tr' ∧ oeFlag (hex2binM m) = .val oe ∧
      acsGet tr'.acs (keyOf m) = some a' ∧
      SamePos a' { filedAc tr t m oe with tpos := some t, lat := some X, lon := some Y } := by
  obtain ⟨tr', hv, hwf'⟩ := adsbStep_no_crash tr hwf t m hlen hdf
  obtain ⟨oe, a', hoe, rfl, hs⟩ := rall_elim
    (adsbStep_ref_rall tr t m tc htc h518 hgate tp la lo X Y htp hrecent hla hlo hpwr) hv
  exact ⟨_, oe, a', hv, hwf', hoe, acsGet_acsSet_same _ _ _, hs⟩

/-- PAIR BRANCH, total -/
theorem adsbStep_pair_total (tr : Tracker) (hwf : TrackerWF tr) (t : Rat) (m : Msg)
    (hlen : m.length = 28) (hdf : df m = 17 ∨ df m = 18) (tc : Nat)
    (htc : typecode m = some tc) (h518 : 5 ≤ tc ∧ tc ≤ 18) (hgate : GateOpen (hex2binM m) tc)
    (hnoref : ∀ tp, (startAc tr t m).tpos = some tp → ¬ (t - tp < 180))
    (oe : Nat) (hoe : oeFlag (hex2binM m) = .val oe)
    (b0 b1 : Bits) (t0 t1 : Rat)
    (hm0 : (filedAc tr t m oe).m0 = some b0) (hm1 : (filedAc tr t m oe).m1 = some b1)
    (ht0 : (filedAc tr t m oe).t0 = some t0) (ht1 : (filedAc tr t m oe).t1 = some t1)
    (hwin : rabs (t0 - t1) < 10) :
    ∃ tr' a', adsbStep tr t m = .val tr' ∧ TrackerWF tr' ∧ acsGet tr'.acs (keyOf m) = some a' ∧
      SamePos a' (pairTarget (filedAc tr t m oe) t (position b0 b1 t0 t1 tr.ref)) := by
  obtain ⟨tr', hv, hwf'⟩ := adsbStep_no_crash tr hwf t m hlen hdf
  obtain ⟨a', rfl, hs⟩ := rall_elim
    (adsbStep_pair_rall tr t m tc htc h518 hgate hnoref oe hoe b0 b1 t0 t1 hm0 hm1 ht0 ht1 hwin) hv
  exact ⟨_, a', hv, hwf', acsGet_acsSet_same _ _ _, hs⟩

/-! ### the decoders called, in terms of the CPR cores -/

theorem positionWithRef_airborne (bits : Bits) (tc : Nat) (htc : tcB bits = some tc)
    (h : (9 ≤ tc ∧ tc ≤ 18) ∨ (20 ≤ tc ∧ tc ≤ 22)) (f : CprFrame) (hf : cprFields bits = .val f) (la lo : Rat) :
    positionWithRef bits la lo = .val (positionWithRefCore cprNL 360 f la lo) := by
  have h58 : ¬ (5 ≤ tc ∧ tc ≤ 8) := by omega
  simp [positionWithRef, positionWithRefRoute, htc, h58, h, airbornePositionWithRef, hf]

theorem positionWithRef_surface (bits : Bits) (tc : Nat) (htc : tcB bits = some tc)
    (h : 5 ≤ tc ∧ tc ≤ 8) (f : CprFrame) (hf : cprFields bits = .val f) (la lo : Rat) :
    positionWithRef bits la lo = .val (positionWithRefCore cprNL 90 f la lo) := by
  simp [positionWithRef, positionWithRefRoute, htc, h, surfacePositionWithRef, hf]

/-- `adsb.position` on two airborne frames (TC 9–18 both, or 20–22 both) is the global airborne decode -/
theorem position_airborne (b0 b1 : Bits) (tc0 tc1 : Nat) (h0 : tcB b0 = some tc0) (h1 : tcB b1 = some tc1)
    (h : (9 ≤ tc0 ∧ tc0 ≤ 18 ∧ 9 ≤ tc1 ∧ tc1 ≤ 18) ∨ (20 ≤ tc0 ∧ tc0 ≤ 22 ∧ 20 ≤ tc1 ∧ tc1 ≤ 22))
    (f0 f1 : CprFrame) (hf0 : cprFields b0 = .val f0) (hf1 : cprFields b1 = .val f1)
    (t0 t1 : Rat) (ref : Option (Rat × Rat)) :
    position b0 b1 t0 t1 ref = airbornePositionCore cprNL f0 f1 t0 t1 := by
  have h58 : ¬ (5 ≤ tc0 ∧ tc0 ≤ 8 ∧ 5 ≤ tc1 ∧ tc1 ≤ 8) := by omega
  have hr : positionRoute b0 b1 ref.isSome = .val .airborne := by
    unfold positionRoute
    simp only [h0, h1, h58, if_false]
    rcases h with h | h
    · simp [h]
    · have : ¬ (9 ≤ tc0 ∧ tc0 ≤ 18 ∧ 9 ≤ tc1 ∧ tc1 ≤ 18) := by omega
      simp [this, h]
  unfold position
  rw [hr]
  simp [airbornePosition, hf0, hf1]

end PyModeS.Tracker
