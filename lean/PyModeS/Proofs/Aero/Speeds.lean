/-
  Airspeed conversions over ℝ: inverse pairs, strict monotonicity in speed, orderings.
  `conv a b c d v` is the compressible-flow conversion of a speed `v` measured in air of pressure `a`,
  density `b` to the speed giving the same impact pressure in air of pressure `c`, density `d`:
  `tas2cas v H = conv p ρ p0 ρ0 v` and `cas2tas v H = conv p0 ρ0 p ρ v`.
-/
import PyModeS.Proofs.Aero.Atmos
import Mathlib.Analysis.Convex.SpecificFunctions.Basic

namespace PyModeS.Aero
open RealModel

theorem rpow_35_27 {x : ℝ} (hx : 0 ≤ x) : (x ^ (3.5 : ℝ)) ^ ((2 : ℝ) / 7) = x := by
  rw [← Real.rpow_mul hx]
  have : (3.5 : ℝ) * (2 / 7) = 1 := by norm_num
  rw [this, Real.rpow_one]

theorem rpow_27_35 {x : ℝ} (hx : 0 ≤ x) : (x ^ ((2 : ℝ) / 7)) ^ (3.5 : ℝ) = x := by
  rw [← Real.rpow_mul hx]
  have : ((2 : ℝ) / 7) * 3.5 = 1 := by norm_num
  rw [this, Real.rpow_one]

/-- impact-pressure ratio term `(1 + b v² / (7a))^3.5` -/
noncomputable def qA (a b v : ℝ) : ℝ := (1 + b * v * v / (7 * a)) ^ (3.5 : ℝ)
/-- `1 + qdyn / c` -/
noncomputable def qX (a b c v : ℝ) : ℝ := 1 + a * (qA a b v - 1) / c
noncomputable def conv (a b c d v : ℝ) : ℝ :=
  Real.sqrt (7 * c / d * (qX a b c v ^ ((2 : ℝ) / 7) - 1))

theorem cas2tas_conv (v H : ℝ) : cas2tas v H = conv 101325 1.225 (p H) (rho H) v := cas2tas_eq v H
theorem tas2cas_conv (v H : ℝ) : tas2cas v H = conv (p H) (rho H) 101325 1.225 v := by
  rw [tas2cas_eq]; unfold conv qX qA; rw [add_comm]

section
variable {a b c d : ℝ} (ha : 0 < a) (hb : 0 < b) (hc : 0 < c) (hd : 0 < d)
include ha hb

theorem qarg_nonneg (v : ℝ) : 0 ≤ b * v * v / (7 * a) := by
  have : 0 ≤ v * v := mul_self_nonneg v
  rw [mul_assoc]; positivity

theorem one_le_qA (v : ℝ) : 1 ≤ qA a b v := by
  unfold qA
  exact Real.one_le_rpow (by linarith [qarg_nonneg ha hb v]) (by norm_num)

include hc
theorem one_le_qX (v : ℝ) : 1 ≤ qX a b c v := by
  unfold qX
  have h := one_le_qA ha hb v
  have : 0 ≤ a * (qA a b v - 1) / c := by
    apply div_nonneg (mul_nonneg ha.le (by linarith)) hc.le
  linarith

theorem one_le_qX_rpow (v : ℝ) : 1 ≤ qX a b c v ^ ((2 : ℝ) / 7) :=
  Real.one_le_rpow (one_le_qX ha hb hc v) (by norm_num)

omit ha hb hc in
theorem conv_nonneg (v : ℝ) : 0 ≤ conv a b c d v := Real.sqrt_nonneg _

include hd

theorem conv_mul_self (v : ℝ) :
    conv a b c d v * conv a b c d v = 7 * c / d * (qX a b c v ^ ((2 : ℝ) / 7) - 1) := by
  unfold conv
  apply Real.mul_self_sqrt
  have := one_le_qX_rpow ha hb hc v
  apply mul_nonneg (by positivity) (by linarith)

/-- the two conversions are mutually inverse on non-negative speeds -/
theorem conv_conv {v : ℝ} (hv : 0 ≤ v) : conv c d a b (conv a b c d v) = v := by
  have hw := conv_mul_self ha hb hc hd v
  set w := conv a b c d v with hwdef
  have hX1 := one_le_qX ha hb hc v
  -- qA c d w = qX a b c v
  have h1 : 1 + d * w * w / (7 * c) = qX a b c v ^ ((2 : ℝ) / 7) := by
    rw [mul_assoc, hw]; field_simp; ring
  have h2 : qA c d w = qX a b c v := by
    unfold qA; rw [h1, rpow_27_35 (by linarith)]
  -- qX c d a w = qA a b v
  have h3 : qX c d a w = qA a b v := by
    unfold qX; rw [h2]; unfold qX; field_simp; ring
  have h4 : qA a b v ^ ((2 : ℝ) / 7) = 1 + b * v * v / (7 * a) := by
    unfold qA; exact rpow_35_27 (by linarith [qarg_nonneg ha hb v])
  unfold conv
  rw [h3, h4]
  have : 7 * a / b * (1 + b * v * v / (7 * a) - 1) = v * v := by field_simp; ring
  rw [this, Real.sqrt_mul_self hv]

theorem conv_strictMonoOn : StrictMonoOn (conv a b c d) (Set.Ici 0) := by
  intro x hx y hy hxy
  have hx0 : (0 : ℝ) ≤ x := hx
  have h1 : x * x < y * y := mul_self_lt_mul_self hx0 hxy
  have h2 : 1 + b * x * x / (7 * a) < 1 + b * y * y / (7 * a) := by
    have : b * x * x / (7 * a) < b * y * y / (7 * a) := by
      apply div_lt_div_of_pos_right _ (by positivity)
      rw [mul_assoc, mul_assoc]; exact mul_lt_mul_of_pos_left h1 hb
    linarith
  have h3 : qA a b x < qA a b y := by
    unfold qA
    exact Real.rpow_lt_rpow (by linarith [qarg_nonneg ha hb x]) h2 (by norm_num)
  have h4 : qX a b c x < qX a b c y := by
    unfold qX
    have : a * (qA a b x - 1) / c < a * (qA a b y - 1) / c := by
      apply div_lt_div_of_pos_right _ hc
      exact mul_lt_mul_of_pos_left (by linarith) ha
    linarith
  have h5 : qX a b c x ^ ((2 : ℝ) / 7) < qX a b c y ^ ((2 : ℝ) / 7) :=
    Real.rpow_lt_rpow (by linarith [one_le_qX ha hb hc x]) h4 (by norm_num)
  unfold conv
  apply Real.sqrt_lt_sqrt
  · have := one_le_qX_rpow ha hb hc x
    apply mul_nonneg (by positivity) (by linarith)
  · apply mul_lt_mul_of_pos_left (by linarith) (by positivity)

/-- Jensen: with `a ≤ c` the converted speed is at least the incompressible (EAS-type) one -/
theorem conv_lower (hac : a ≤ c) (v : ℝ) : b * v * v / d ≤ conv a b c d v * conv a b c d v := by
  rw [conv_mul_self ha hb hc hd]
  set u := b * v * v / (7 * a) with hu
  have hu0 : 0 ≤ u := qarg_nonneg ha hb v
  have hδ0 : 0 ≤ a / c := (div_pos ha hc).le
  have hδ1 : a / c ≤ 1 := (div_le_one hc).mpr hac
  -- convexity of x ↦ x^3.5
  have hconv := (convexOn_rpow (p := (3.5 : ℝ)) (by norm_num)).2
    (show (1 + u) ∈ Set.Ici (0 : ℝ) by simp only [Set.mem_Ici]; linarith)
    (show (1 : ℝ) ∈ Set.Ici (0 : ℝ) by simp)
    hδ0 (show 0 ≤ 1 - a / c by linarith) (by ring)
  simp only [smul_eq_mul, Real.one_rpow, mul_one] at hconv
  have hX : (1 + a / c * u) ^ (3.5 : ℝ) ≤ qX a b c v := by
    have e1 : a / c * (1 + u) + (1 - a / c) = 1 + a / c * u := by ring
    have e2 : qX a b c v = a / c * (1 + u) ^ (3.5 : ℝ) + (1 - a / c) := by
      unfold qX qA; rw [← hu]; field_simp; ring
    rw [e2, ← e1]; exact hconv
  have hbase : 0 ≤ 1 + a / c * u := by positivity
  have h27 : 1 + a / c * u ≤ qX a b c v ^ ((2 : ℝ) / 7) := by
    calc 1 + a / c * u = ((1 + a / c * u) ^ (3.5 : ℝ)) ^ ((2 : ℝ) / 7) := (rpow_35_27 hbase).symm
      _ ≤ _ := Real.rpow_le_rpow (Real.rpow_nonneg hbase _) hX (by norm_num)
  have e3 : b * v * v / d = 7 * c / d * (a / c * u) := by rw [hu]; field_simp
  rw [e3]
  apply mul_le_mul_of_nonneg_left (by linarith) (by positivity)

/-- with `a ≤ c` the converted speed is at most the incompressible one scaled by `c / a` -/
theorem conv_upper (hac : a ≤ c) (v : ℝ) :
    conv a b c d v * conv a b c d v ≤ c / a * (b * v * v / d) := by
  rw [conv_mul_self ha hb hc hd]
  have hA := one_le_qA ha hb v
  have hX : qX a b c v ≤ qA a b v := by
    unfold qX
    have : a * (qA a b v - 1) / c ≤ qA a b v - 1 := by
      rw [div_le_iff₀ hc]; nlinarith
    linarith
  have h27 : qX a b c v ^ ((2 : ℝ) / 7) ≤ 1 + b * v * v / (7 * a) := by
    calc _ ≤ qA a b v ^ ((2 : ℝ) / 7) :=
          Real.rpow_le_rpow (by linarith [one_le_qX ha hb hc v]) hX (by norm_num)
      _ = _ := by unfold qA; exact rpow_35_27 (by linarith [qarg_nonneg ha hb v])
  have e : c / a * (b * v * v / d) = 7 * c / d * (1 + b * v * v / (7 * a) - 1) := by
    field_simp; ring
  rw [e]
  apply mul_le_mul_of_nonneg_left (by linarith) (by positivity)

end

/-! ### the aero.py conversions -/

private theorem h101325 : (0 : ℝ) < 101325 := by norm_num
private theorem h1225 : (0 : ℝ) < 1.225 := by norm_num

theorem tas2cas_nonneg (v H : ℝ) : 0 ≤ tas2cas v H := by rw [tas2cas_conv]; exact conv_nonneg v
theorem cas2tas_nonneg (v H : ℝ) : 0 ≤ cas2tas v H := by rw [cas2tas_conv]; exact conv_nonneg v

theorem cas2tas_tas2cas {V : ℝ} (hV : 0 ≤ V) (H : ℝ) : cas2tas (tas2cas V H) H = V := by
  rw [tas2cas_conv, cas2tas_conv]
  exact conv_conv (p_pos H) (rho_pos H) h101325 h1225 hV

theorem tas2cas_cas2tas {V : ℝ} (hV : 0 ≤ V) (H : ℝ) : tas2cas (cas2tas V H) H = V := by
  rw [tas2cas_conv, cas2tas_conv]
  exact conv_conv h101325 h1225 (p_pos H) (rho_pos H) hV

theorem eas2tas_tas2eas (V H : ℝ) : eas2tas (tas2eas V H) H = V := by
  rw [eas2tas_eq, tas2eas_eq, mul_assoc, ← Real.sqrt_mul (div_pos (rho_pos H) h1225).le]
  have : rho H / 1.225 * (1.225 / rho H) = 1 := by
    have := (rho_pos H).ne'; field_simp
  rw [this, Real.sqrt_one, mul_one]

theorem tas2eas_eas2tas (V H : ℝ) : tas2eas (eas2tas V H) H = V := by
  rw [eas2tas_eq, tas2eas_eq, mul_assoc, ← Real.sqrt_mul (div_pos h1225 (rho_pos H)).le]
  have : 1.225 / rho H * (rho H / 1.225) = 1 := by
    have := (rho_pos H).ne'; field_simp
  rw [this, Real.sqrt_one, mul_one]

theorem mach2tas_tas2mach (V H : ℝ) : mach2tas (tas2mach V H) H = V := by
  rw [mach2tas_eq, tas2mach_eq]; exact div_mul_cancel₀ V (vsound_pos H).ne'

theorem tas2mach_mach2tas (M H : ℝ) : tas2mach (mach2tas M H) H = M := by
  rw [mach2tas_eq, tas2mach_eq]; exact mul_div_cancel_right₀ M (vsound_pos H).ne'

theorem cas2mach_mach2cas {M : ℝ} (hM : 0 ≤ M) (H : ℝ) : cas2mach (mach2cas M H) H = M := by
  rw [cas2mach_eq, mach2cas_eq, cas2tas_tas2cas _ H, tas2mach_mach2tas]
  rw [mach2tas_eq]; exact mul_nonneg hM (vsound_pos H).le

theorem mach2cas_cas2mach {V : ℝ} (hV : 0 ≤ V) (H : ℝ) : mach2cas (cas2mach V H) H = V := by
  rw [cas2mach_eq, mach2cas_eq, mach2tas_tas2mach, tas2cas_cas2tas hV]

/-! ### strict monotonicity in speed -/

theorem tas2cas_strictMonoOn (H : ℝ) : StrictMonoOn (fun V : ℝ => tas2cas V H) (Set.Ici 0) := by
  simp only [tas2cas_conv]
  exact conv_strictMonoOn (p_pos H) (rho_pos H) h101325 h1225

theorem cas2tas_strictMonoOn (H : ℝ) : StrictMonoOn (fun V : ℝ => cas2tas V H) (Set.Ici 0) := by
  simp only [cas2tas_conv]
  exact conv_strictMonoOn h101325 h1225 (p_pos H) (rho_pos H)

theorem tas2eas_strictMono (H : ℝ) : StrictMono (fun V : ℝ => tas2eas V H) := by
  intro x y hxy
  simp only [tas2eas_eq]
  exact mul_lt_mul_of_pos_right hxy (Real.sqrt_pos.mpr (div_pos (rho_pos H) h1225))

theorem eas2tas_strictMono (H : ℝ) : StrictMono (fun V : ℝ => eas2tas V H) := by
  intro x y hxy
  simp only [eas2tas_eq]
  exact mul_lt_mul_of_pos_right hxy (Real.sqrt_pos.mpr (div_pos h1225 (rho_pos H)))

theorem tas2mach_strictMono (H : ℝ) : StrictMono (fun V : ℝ => tas2mach V H) := by
  intro x y hxy
  simp only [tas2mach_eq]
  exact div_lt_div_of_pos_right hxy (vsound_pos H)

theorem mach2tas_strictMono (H : ℝ) : StrictMono (fun M : ℝ => mach2tas M H) := by
  intro x y hxy
  simp only [mach2tas_eq]
  exact mul_lt_mul_of_pos_right hxy (vsound_pos H)

theorem mach2cas_strictMonoOn (H : ℝ) : StrictMonoOn (fun M : ℝ => mach2cas M H) (Set.Ici 0) := by
  intro x hx y hy hxy
  simp only [mach2cas_eq]
  apply tas2cas_strictMonoOn H
  · show 0 ≤ mach2tas x H
    rw [mach2tas_eq]; exact mul_nonneg hx (vsound_pos H).le
  · show 0 ≤ mach2tas y H
    rw [mach2tas_eq]; exact mul_nonneg hy (vsound_pos H).le
  · exact mach2tas_strictMono H hxy

theorem cas2mach_strictMonoOn (H : ℝ) : StrictMonoOn (fun V : ℝ => cas2mach V H) (Set.Ici 0) := by
  intro x hx y hy hxy
  simp only [cas2mach_eq]
  exact tas2mach_strictMono H (cas2tas_strictMonoOn H hx hy hxy)

/-! ### orderings -/

theorem tas2eas_le_self {V H : ℝ} (hV : 0 ≤ V) (hρ : density H ≤ rho0) : tas2eas V H ≤ V := by
  rw [tas2eas_eq]
  rw [density_eq, rho0_eq] at hρ
  have : Real.sqrt (rho H / 1.225) ≤ 1 := by
    have := Real.sqrt_le_sqrt ((div_le_one h1225).mpr hρ)
    rwa [Real.sqrt_one] at this
  calc V * Real.sqrt (rho H / 1.225) ≤ V * 1 := mul_le_mul_of_nonneg_left this hV
    _ = V := mul_one V

theorem tas2eas_mul_self (V H : ℝ) : tas2eas V H * tas2eas V H = rho H * V * V / 1.225 := by
  rw [tas2eas_eq]
  have := Real.mul_self_sqrt (div_pos (rho_pos H) h1225).le
  calc V * Real.sqrt (rho H / 1.225) * (V * Real.sqrt (rho H / 1.225))
      = V * V * (Real.sqrt (rho H / 1.225) * Real.sqrt (rho H / 1.225)) := by ring
    _ = _ := by rw [this]; ring

/-- CAS ≥ EAS wherever the pressure is at most `p0` -/
theorem tas2eas_le_tas2cas {V H : ℝ} (hV : 0 ≤ V) (hp : pressure H ≤ p0) : tas2eas V H ≤ tas2cas V H := by
  rw [pressure_eq, p0_eq] at hp
  have h := conv_lower (p_pos H) (rho_pos H) h101325 h1225 hp V
  rw [← tas2cas_conv, ← tas2eas_mul_self] at h
  have h0 : 0 ≤ tas2eas V H := by
    rw [tas2eas_eq]; exact mul_nonneg hV (Real.sqrt_nonneg _)
  exact (mul_self_le_mul_self_iff h0 (tas2cas_nonneg V H)).mpr h

/-- CAS ≤ EAS · √(p0/p) wherever the pressure is at most `p0` -/
theorem tas2cas_mul_self_le {V H : ℝ} (hp : pressure H ≤ p0) :
    tas2cas V H * tas2cas V H ≤ 101325 / p H * (tas2eas V H * tas2eas V H) := by
  rw [pressure_eq, p0_eq] at hp
  have h := conv_upper (p_pos H) (rho_pos H) h101325 h1225 hp V
  rwa [← tas2cas_conv, ← tas2eas_mul_self] at h

/-! ### sea level -/

theorem tas2eas_zero (V : ℝ) : tas2eas V 0 = V := by
  rw [tas2eas_eq, rho_zero, div_self h1225.ne', Real.sqrt_one, mul_one]
theorem eas2tas_zero (V : ℝ) : eas2tas V 0 = V := by
  rw [eas2tas_eq, rho_zero, div_self h1225.ne', Real.sqrt_one, mul_one]

theorem self_le_tas2cas_zero {V : ℝ} (hV : 0 ≤ V) : V ≤ tas2cas V 0 := by
  have := tas2eas_le_tas2cas hV pressure_zero_le_p0
  rwa [tas2eas_zero] at this

theorem tas2cas_zero_le {V : ℝ} (hV : 0 ≤ V) : tas2cas V 0 ≤ (1 + 2e-8) * V := by
  have h := tas2cas_mul_self_le (V := V) pressure_zero_le_p0
  rw [tas2eas_zero, p_zero] at h
  apply (mul_self_le_mul_self_iff (tas2cas_nonneg V 0) (by positivity)).mpr
  refine h.trans ?_
  have hVV : 0 ≤ V * V := mul_self_nonneg V
  have : (101325 : ℝ) / (1.225 * 287.05287 * 288.15) ≤ (1 + 2e-8) * (1 + 2e-8) := by
    rw [div_le_iff₀ (by norm_num)]; norm_num
  calc 101325 / (1.225 * 287.05287 * 288.15) * (V * V) ≤ (1 + 2e-8) * (1 + 2e-8) * (V * V) :=
        mul_le_mul_of_nonneg_right this hVV
    _ = _ := by ring

/-- at sea level `tas2cas` is the identity up to the 1.5e-8 relative mismatch between
    `rho0 * R * T0` and `p0` (for every `V ≥ 0`, not only `V ≤ 450`) -/
theorem tas2cas_zero_near {V : ℝ} (hV : 0 ≤ V) : |tas2cas V 0 - V| ≤ 2e-8 * V := by
  rw [abs_le]
  have h1 := self_le_tas2cas_zero hV
  have h2 := tas2cas_zero_le hV
  constructor
  · have : 0 ≤ 2e-8 * V := by positivity
    linarith
  · linarith

end PyModeS.Aero
