/-
  ISA atmosphere over ℝ: positivity, continuity, monotonicity in altitude, sea-level values.
-/
import PyModeS.Proofs.Aero.Real
import Mathlib.Topology.Algebra.Order.LiminfLimsup
import Mathlib.Analysis.SpecialFunctions.Pow.Continuity

namespace PyModeS.Aero
open RealModel

/-! ### positivity -/

theorem T_ge (H : ℝ) : (216.65 : ℝ) ≤ T H := le_max_right _ _
theorem T_pos (H : ℝ) : 0 < T H := lt_of_lt_of_le (by norm_num) (T_ge H)
theorem rho_pos (H : ℝ) : 0 < rho H := by
  unfold rho
  have h1 : 0 < T H / 288.15 := div_pos (T_pos H) (by norm_num)
  have h2 := Real.rpow_pos_of_pos h1 (4.256848030018761 : ℝ)
  have h3 := Real.exp_pos (-(max 0 (H - 11000)) / 6341.552161)
  positivity
theorem p_pos (H : ℝ) : 0 < p H := by
  unfold p
  have := rho_pos H; have := T_pos H
  positivity

theorem temperature_pos (H : ℝ) : 0 < temperature H := T_pos H
theorem density_pos (H : ℝ) : 0 < density H := by rw [density_eq]; exact rho_pos H
theorem pressure_pos (H : ℝ) : 0 < pressure H := by rw [pressure_eq]; exact p_pos H
theorem vsound_pos (H : ℝ) : 0 < vsound H := by
  rw [vsound_eq]
  apply Real.sqrt_pos.mpr
  have := T_pos H
  positivity

/-! ### continuity -/

theorem T_continuous : Continuous T := by
  unfold T
  exact (continuous_const.sub (continuous_const.mul continuous_id)).max continuous_const

theorem rho_continuous : Continuous rho := by
  unfold rho
  refine (continuous_const.mul ?_).mul ?_
  · exact (T_continuous.div_const _).rpow_const (fun _ => Or.inr (by norm_num))
  · exact Real.continuous_exp.comp
      (((continuous_const.max (continuous_id.sub continuous_const)).neg).div_const _)

theorem p_continuous : Continuous p := by
  unfold p
  exact (rho_continuous.mul continuous_const).mul T_continuous

theorem temperature_continuous : Continuous (fun H : ℝ => temperature H) := T_continuous
theorem density_continuous : Continuous (fun H : ℝ => density H) := by
  simpa only [density_eq] using rho_continuous
theorem pressure_continuous : Continuous (fun H : ℝ => pressure H) := by
  simpa only [pressure_eq] using p_continuous
theorem vsound_continuous : Continuous (fun H : ℝ => vsound H) := by
  simp only [vsound_eq]
  exact Real.continuous_sqrt.comp (continuous_const.mul T_continuous)

/-! ### monotonicity in altitude -/

theorem T_antitone : Antitone T := by
  intro a b hab
  unfold T
  exact max_le_max (by linarith) le_rfl

theorem rho_antitone : Antitone rho := by
  intro a b hab
  unfold rho
  have hTb : 0 ≤ T b / 288.15 := (div_pos (T_pos b) (by norm_num)).le
  have h1 : (T b / 288.15) ^ (4.256848030018761 : ℝ) ≤ (T a / 288.15) ^ (4.256848030018761 : ℝ) :=
    Real.rpow_le_rpow hTb (div_le_div_of_nonneg_right (T_antitone hab) (by norm_num)) (by norm_num)
  have h2 : Real.exp (-(max 0 (b - 11000)) / 6341.552161) ≤ Real.exp (-(max 0 (a - 11000)) / 6341.552161) := by
    apply Real.exp_le_exp.mpr
    apply div_le_div_of_nonneg_right _ (by norm_num)
    exact neg_le_neg (max_le_max le_rfl (by linarith))
  have h3 : 0 ≤ (T b / 288.15) ^ (4.256848030018761 : ℝ) := Real.rpow_nonneg hTb _
  have h4 := (Real.exp_pos (-(max 0 (a - 11000)) / 6341.552161)).le
  have h5 := (Real.exp_pos (-(max 0 (b - 11000)) / 6341.552161)).le
  apply mul_le_mul (mul_le_mul_of_nonneg_left h1 (by norm_num)) h2 h5
  exact mul_nonneg (by norm_num) (h3.trans h1)

theorem p_antitone : Antitone p := by
  intro a b hab
  unfold p
  have := rho_antitone hab; have := T_antitone hab
  have := (rho_pos a).le; have := (rho_pos b).le; have := (T_pos b).le
  apply mul_le_mul (mul_le_mul_of_nonneg_right ‹_› (by norm_num)) ‹_› ‹_›
  positivity

theorem temperature_antitone : Antitone (fun H : ℝ => temperature H) := T_antitone
theorem density_antitone : Antitone (fun H : ℝ => density H) := by
  simpa only [density_eq] using rho_antitone
theorem pressure_antitone : Antitone (fun H : ℝ => pressure H) := by
  simpa only [pressure_eq] using p_antitone

/-! ### sea level -/

theorem T_zero : T 0 = 288.15 := by unfold T; norm_num
theorem rho_zero : rho 0 = 1.225 := by
  unfold rho; rw [T_zero, div_self (by norm_num), Real.one_rpow]
  have : -(max (0:ℝ) (0 - 11000)) / 6341.552161 = 0 := by
    rw [max_eq_left (by norm_num)]; norm_num
  rw [this, Real.exp_zero]; norm_num
theorem p_zero : p 0 = 1.225 * 287.05287 * 288.15 := by
  unfold p; rw [T_zero, rho_zero]

theorem temperature_zero : temperature (0 : ℝ) = 288.15 := T_zero
theorem density_zero : density (0 : ℝ) = 1.225 := by rw [density_eq, rho_zero]
theorem density_zero' : density (0 : ℝ) = rho0 := density_zero
theorem pressure_zero : pressure (0 : ℝ) = 1.225 * 287.05287 * 288.15 := by rw [pressure_eq, p_zero]

theorem pressure_zero_le_p0 : pressure (0 : ℝ) ≤ p0 := by
  rw [pressure_zero, p0_eq]; norm_num
theorem pressure_zero_near_p0 : |pressure (0 : ℝ) - p0| ≤ 0.0016 := by
  rw [pressure_zero, p0_eq, abs_le]; constructor <;> norm_num

theorem density_le_rho0 {H : ℝ} (hH : 0 ≤ H) : density H ≤ rho0 := by
  rw [← density_zero']; exact density_antitone hH
theorem pressure_le_p0 {H : ℝ} (hH : 0 ≤ H) : pressure H ≤ p0 :=
  (pressure_antitone hH).trans pressure_zero_le_p0
theorem temperature_le_T0 {H : ℝ} (hH : 0 ≤ H) : temperature H ≤ 288.15 := by
  rw [← temperature_zero]; exact temperature_antitone hH

/-- no jump at the tropopause: both branches of `T` agree at 11000 m -/
theorem T_tropopause : T 11000 = 216.65 := by unfold T; norm_num

end PyModeS.Aero
