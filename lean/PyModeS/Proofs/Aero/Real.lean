/-
  The `ℝ` instance of the aero model (PyModeS/Model/Aero.lean) and its unfolding lemmas.
  `atan2 y x := Complex.arg ⟨x, y⟩` (the argument of the complex number `x + i y`, in `(-π, π]`,
  which is the value C `atan2(y, x)` returns, including `atan2 0 0 = 0`).
-/
import PyModeS.Model.Aero
import Mathlib.Analysis.SpecialFunctions.Pow.Real
import Mathlib.Analysis.SpecialFunctions.Sqrt
import Mathlib.Analysis.SpecialFunctions.Exp
import Mathlib.Analysis.SpecialFunctions.Trigonometric.Basic
import Mathlib.Analysis.SpecialFunctions.Trigonometric.Inverse
import Mathlib.Analysis.SpecialFunctions.Complex.Arg
import Mathlib.Algebra.Order.Floor.Ring
import Mathlib.Tactic.Linarith
import Mathlib.Tactic.Positivity
import Mathlib.Tactic.NormNum
import Mathlib.Tactic.FieldSimp
import Mathlib.Tactic.Ring

namespace PyModeS.Aero

noncomputable instance instAeroOpsReal : AeroOps ℝ where
  sqrt := Real.sqrt
  exp := Real.exp
  pow := fun x y => x ^ y
  sin := Real.sin
  cos := Real.cos
  acos := Real.arccos
  atan2 := fun y x => Complex.arg ⟨x, y⟩
  pi := Real.pi
  mod360 := fun x => x - 360 * ⌊x / 360⌋

namespace RealModel

/-- ISA temperature -/
noncomputable def T (H : ℝ) : ℝ := max (288.15 - 0.0065 * H) 216.65
/-- ISA density -/
noncomputable def rho (H : ℝ) : ℝ :=
  1.225 * (T H / 288.15) ^ (4.256848030018761 : ℝ) * Real.exp (-(max 0 (H - 11000)) / 6341.552161)
/-- ISA pressure -/
noncomputable def p (H : ℝ) : ℝ := rho H * 287.05287 * T H

end RealModel
open RealModel

theorem temperature_eq (H : ℝ) : temperature H = T H := rfl
theorem density_eq (H : ℝ) : density H = rho H := by
  show 1.225 * (T H / 288.15) ^ (4.256848030018761 : ℝ) * Real.exp (-(max 0.0 (H - 11000.0)) / 6341.552161) = _
  unfold rho; norm_num
theorem pressure_eq (H : ℝ) : pressure H = p H := by
  show density H * 287.05287 * T H = _
  rw [density_eq]; rfl
theorem vsound_eq (H : ℝ) : vsound H = Real.sqrt (1.40 * 287.05287 * T H) := rfl
theorem p0_eq : (p0 : ℝ) = 101325 := by unfold p0; norm_num
theorem rho0_eq : (rho0 : ℝ) = 1.225 := rfl

theorem tas2mach_eq (v H : ℝ) : tas2mach v H = v / vsound H := rfl
theorem mach2tas_eq (m H : ℝ) : mach2tas m H = m * vsound H := rfl
theorem eas2tas_eq (v H : ℝ) : eas2tas v H = v * Real.sqrt (1.225 / rho H) := by
  show v * Real.sqrt (1.225 / density H) = _
  rw [density_eq]
theorem tas2eas_eq (v H : ℝ) : tas2eas v H = v * Real.sqrt (rho H / 1.225) := by
  show v * Real.sqrt (density H / 1.225) = _
  rw [density_eq]

theorem cas2tas_eq (v H : ℝ) : cas2tas v H =
    Real.sqrt (7 * p H / rho H *
      ((1 + 101325 * ((1 + 1.225 * v * v / (7 * 101325)) ^ (3.5 : ℝ) - 1) / p H) ^ ((2 : ℝ) / 7) - 1)) := by
  show Real.sqrt (7.0 * pressure H / density H *
      ((1.0 + 101325.0 * ((1.0 + 1.225 * v * v / (7.0 * 101325.0)) ^ (3.5 : ℝ) - 1.0) / pressure H) ^ ((2.0 : ℝ) / 7.0) - 1.0)) = _
  rw [pressure_eq, density_eq]; norm_num

theorem tas2cas_eq (v H : ℝ) : tas2cas v H =
    Real.sqrt (7 * 101325 / 1.225 *
      ((p H * ((1 + rho H * v * v / (7 * p H)) ^ (3.5 : ℝ) - 1) / 101325 + 1) ^ ((2 : ℝ) / 7) - 1)) := by
  show Real.sqrt (7.0 * 101325.0 / 1.225 *
      ((pressure H * ((1.0 + density H * v * v / (7.0 * pressure H)) ^ (3.5 : ℝ) - 1.0) / 101325.0 + 1.0) ^ ((2.0 : ℝ) / 7.0) - 1.0)) = _
  rw [pressure_eq, density_eq]; norm_num

theorem mach2cas_eq (m H : ℝ) : mach2cas m H = tas2cas (mach2tas m H) H := rfl
theorem cas2mach_eq (v H : ℝ) : cas2mach v H = tas2mach (cas2tas v H) H := rfl

theorem radians_eq (x : ℝ) : radians x = x * (Real.pi / 180) := by
  show x * (Real.pi / 180.0) = _
  norm_num
theorem degrees_eq (x : ℝ) : degrees x = x * (180 / Real.pi) := by
  show x * (180.0 / Real.pi) = _
  norm_num

/-- the un-clamped law-of-cosines value -/
noncomputable def cosArc (lat1 lon1 lat2 lon2 : ℝ) : ℝ :=
  Real.sin (radians (90.0 - lat1)) * Real.sin (radians (90.0 - lat2)) * Real.cos (radians lon1 - radians lon2)
    + Real.cos (radians (90.0 - lat1)) * Real.cos (radians (90.0 - lat2))

theorem distance_eq (lat1 lon1 lat2 lon2 H : ℝ) : distance lat1 lon1 lat2 lon2 H =
    Real.arccos (max (-1) (min 1 (cosArc lat1 lon1 lat2 lon2))) * (6371000 + H) := by
  have hr : (rEarth : ℝ) = 6371000 := by unfold rEarth; norm_num
  have h1 : (1.0 : ℝ) = 1 := by norm_num
  show Real.arccos
      (if (if (1.0 : ℝ) < cosArc lat1 lon1 lat2 lon2 then 1.0 else cosArc lat1 lon1 lat2 lon2) < (-1.0 : ℝ)
        then -1.0 else (if (1.0 : ℝ) < cosArc lat1 lon1 lat2 lon2 then 1.0 else cosArc lat1 lon1 lat2 lon2))
      * (rEarth + H) = _
  rw [hr, h1]
  congr 2
  generalize cosArc lat1 lon1 lat2 lon2 = c
  by_cases hc : 1 < c
  · rw [if_pos hc, min_eq_left hc.le, if_neg (by norm_num), max_eq_right (by norm_num)]
  · rw [if_neg hc, min_eq_right (not_lt.mp hc)]
    by_cases hc' : c < -1
    · rw [if_pos hc', max_eq_left hc'.le]
    · rw [if_neg hc', max_eq_right (not_lt.mp hc')]

theorem bearing_eq (lat1 lon1 lat2 lon2 : ℝ) : bearing lat1 lon1 lat2 lon2 =
    (let b := degrees (Complex.arg ⟨Real.cos (radians lat1) * Real.sin (radians lat2)
        - Real.sin (radians lat1) * Real.cos (radians lat2) * Real.cos (radians lon2 - radians lon1),
        Real.sin (radians lon2 - radians lon1) * Real.cos (radians lat2)⟩) + 360
     b - 360 * ⌊b / 360⌋) := by
  show (let b := degrees (Complex.arg ⟨Real.cos (radians lat1) * Real.sin (radians lat2)
        - Real.sin (radians lat1) * Real.cos (radians lat2) * Real.cos (radians lon2 - radians lon1),
        Real.sin (radians lon2 - radians lon1) * Real.cos (radians lat2)⟩) + 360.0
     b - 360 * ⌊b / 360⌋) = _
  norm_num

end PyModeS.Aero
