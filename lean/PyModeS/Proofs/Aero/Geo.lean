/-
  aero.distance / aero.bearing over ℝ: symmetry, range, the haversine identity, and the fact that
  over ℝ the clamp in `distance` never fires.
-/
import PyModeS.Proofs.Aero.Real

namespace PyModeS.Aero

theorem cosArc_comm (lat1 lon1 lat2 lon2 : ℝ) : cosArc lat1 lon1 lat2 lon2 = cosArc lat2 lon2 lat1 lon1 := by
  unfold cosArc
  rw [← Real.cos_neg (radians lon1 - radians lon2), neg_sub]
  ring

theorem distance_comm (lat1 lon1 lat2 lon2 H : ℝ) :
    distance lat1 lon1 lat2 lon2 H = distance lat2 lon2 lat1 lon1 H := by
  rw [distance_eq, distance_eq, cosArc_comm]

/-- the haversine form of the law-of-cosines value (a pure trig identity) -/
theorem haversine_identity (φ1 φ2 θ1 θ2 : ℝ) :
    Real.sin φ1 * Real.sin φ2 * Real.cos (θ1 - θ2) + Real.cos φ1 * Real.cos φ2 =
      1 - 2 * (Real.sin ((φ1 - φ2) / 2) ^ 2 + Real.sin φ1 * Real.sin φ2 * Real.sin ((θ1 - θ2) / 2) ^ 2) := by
  have h1 : Real.cos (θ1 - θ2) = 1 - 2 * Real.sin ((θ1 - θ2) / 2) ^ 2 := by
    have := Real.cos_sq' ((θ1 - θ2) / 2)
    have h2 := Real.cos_two_mul ((θ1 - θ2) / 2)
    rw [mul_div_cancel₀ _ (two_ne_zero)] at h2
    rw [h2]; linarith
  have h2 : Real.cos φ1 * Real.cos φ2 + Real.sin φ1 * Real.sin φ2 = 1 - 2 * Real.sin ((φ1 - φ2) / 2) ^ 2 := by
    rw [← Real.cos_sub]
    have := Real.cos_sq' ((φ1 - φ2) / 2)
    have h2 := Real.cos_two_mul ((φ1 - φ2) / 2)
    rw [mul_div_cancel₀ _ (two_ne_zero)] at h2
    rw [h2]; linarith
  rw [h1]; linarith

theorem cosArc_haversine (lat1 lon1 lat2 lon2 : ℝ) : cosArc lat1 lon1 lat2 lon2 =
    1 - 2 * (Real.sin ((radians (90 - lat1) - radians (90 - lat2)) / 2) ^ 2
      + Real.sin (radians (90 - lat1)) * Real.sin (radians (90 - lat2))
        * Real.sin ((radians lon1 - radians lon2) / 2) ^ 2) := by
  unfold cosArc
  have : (90.0 : ℝ) = 90 := by norm_num
  rw [this]
  exact haversine_identity _ _ _ _

/-- over ℝ the law-of-cosines value is already in `[-1, 1]`: the clamp is only there for rounding -/
theorem cosArc_mem (lat1 lon1 lat2 lon2 : ℝ) :
    -1 ≤ cosArc lat1 lon1 lat2 lon2 ∧ cosArc lat1 lon1 lat2 lon2 ≤ 1 := by
  unfold cosArc
  generalize radians (90.0 - lat1) = φ1
  generalize radians (90.0 - lat2) = φ2
  generalize radians lon1 - radians lon2 = θ
  have a1 := Real.sin_sq_add_cos_sq φ1
  have a2 := Real.sin_sq_add_cos_sq φ2
  have a3 := Real.sin_sq_add_cos_sq θ
  have c1 := Real.cos_le_one θ
  have c2 := Real.neg_one_le_cos θ
  set s1 := Real.sin φ1
  set s2 := Real.sin φ2
  set k1 := Real.cos φ1
  set k2 := Real.cos φ2
  set ct := Real.cos θ
  -- |s1 s2 ct + k1 k2| ≤ |s1 s2| + |k1 k2| ≤ 1
  have hss : |s1 * s2 * ct| ≤ |s1 * s2| := by
    rw [abs_mul]
    have : |ct| ≤ 1 := abs_le.mpr ⟨c2, c1⟩
    calc |s1 * s2| * |ct| ≤ |s1 * s2| * 1 := mul_le_mul_of_nonneg_left this (abs_nonneg _)
      _ = _ := mul_one _
  have hsum : |s1 * s2| + |k1 * k2| ≤ 1 := by
    rw [abs_mul, abs_mul]
    have e1 : |s1| ^ 2 + |k1| ^ 2 = 1 := by rw [sq_abs, sq_abs]; exact a1
    have e2 : |s2| ^ 2 + |k2| ^ 2 = 1 := by rw [sq_abs, sq_abs]; exact a2
    nlinarith [sq_nonneg (|s1| - |s2|), sq_nonneg (|k1| - |k2|)]
  have := abs_add_le (s1 * s2 * ct) (k1 * k2)
  have hfin : |s1 * s2 * ct + k1 * k2| ≤ 1 := by linarith
  exact abs_le.mp hfin

/-- `distance` over ℝ is the great-circle arc times the radius, with no clamping -/
theorem distance_eq_arccos (lat1 lon1 lat2 lon2 H : ℝ) :
    distance lat1 lon1 lat2 lon2 H = Real.arccos (cosArc lat1 lon1 lat2 lon2) * (6371000 + H) := by
  rw [distance_eq]
  obtain ⟨h1, h2⟩ := cosArc_mem lat1 lon1 lat2 lon2
  rw [min_eq_right h2, max_eq_right h1]

theorem distance_nonneg (lat1 lon1 lat2 lon2 : ℝ) {H : ℝ} (hH : -6371000 ≤ H) :
    0 ≤ distance lat1 lon1 lat2 lon2 H := by
  rw [distance_eq_arccos]
  exact mul_nonneg (Real.arccos_nonneg _) (by linarith)

theorem distance_le (lat1 lon1 lat2 lon2 : ℝ) {H : ℝ} (hH : -6371000 ≤ H) :
    distance lat1 lon1 lat2 lon2 H ≤ Real.pi * (6371000 + H) := by
  rw [distance_eq_arccos]
  exact mul_le_mul_of_nonneg_right (Real.arccos_le_pi _) (by linarith)

theorem distance_self (lat lon H : ℝ) : distance lat lon lat lon H = 0 := by
  rw [distance_eq_arccos]
  have : cosArc lat lon lat lon = 1 := by
    unfold cosArc
    rw [sub_self, Real.cos_zero, mul_one]
    have := Real.sin_sq_add_cos_sq (radians (90.0 - lat))
    nlinarith
  rw [this, Real.arccos_one, zero_mul]

/-- `x % 360` lands in `[0, 360)` -/
theorem mod360_mem (x : ℝ) : 0 ≤ x - 360 * (⌊x / 360⌋ : ℝ) ∧ x - 360 * (⌊x / 360⌋ : ℝ) < 360 := by
  have h1 := Int.floor_le (x / 360)
  have h2 := Int.lt_floor_add_one (x / 360)
  have e : x = 360 * (x / 360) := by field_simp
  constructor
  · nlinarith
  · nlinarith

theorem bearing_mem (lat1 lon1 lat2 lon2 : ℝ) :
    0 ≤ bearing lat1 lon1 lat2 lon2 ∧ bearing lat1 lon1 lat2 lon2 < 360 := by
  rw [bearing_eq]
  exact mod360_mem _

/-- the bearing is the `atan2` angle in degrees, shifted by one turn when negative -/
theorem bearing_cases (lat1 lon1 lat2 lon2 : ℝ) :
    let θ := Complex.arg ⟨Real.cos (radians lat1) * Real.sin (radians lat2)
        - Real.sin (radians lat1) * Real.cos (radians lat2) * Real.cos (radians lon2 - radians lon1),
        Real.sin (radians lon2 - radians lon1) * Real.cos (radians lat2)⟩
    bearing lat1 lon1 lat2 lon2 = if 0 ≤ θ then degrees θ else degrees θ + 360 := by
  intro θ
  rw [bearing_eq]
  show degrees θ + 360 - 360 * (⌊(degrees θ + 360) / 360⌋ : ℝ) = _
  have hπ := Real.pi_pos
  have h1 : -Real.pi < θ := Complex.neg_pi_lt_arg _
  have h2 : θ ≤ Real.pi := Complex.arg_le_pi _
  have hd : degrees θ = θ / Real.pi * 180 := by rw [degrees_eq]; field_simp
  have hlo : -180 < degrees θ := by
    rw [hd]; have : -1 < θ / Real.pi := by rw [lt_div_iff₀ hπ]; linarith
    linarith
  have hhi : degrees θ ≤ 180 := by
    rw [hd]; have : θ / Real.pi ≤ 1 := by rw [div_le_one hπ]; exact h2
    linarith
  by_cases h0 : 0 ≤ θ
  · rw [if_pos h0]
    have hd0 : 0 ≤ degrees θ := by rw [hd]; positivity
    have : ⌊(degrees θ + 360) / 360⌋ = 1 := by
      rw [Int.floor_eq_iff]; constructor
      · rw [le_div_iff₀ (by norm_num)]; push_cast; linarith
      · rw [div_lt_iff₀ (by norm_num)]; push_cast; linarith
    rw [this]; push_cast; ring
  · rw [if_neg h0]
    have hd0 : degrees θ < 0 := by
      rw [hd]; have : θ / Real.pi < 0 := div_neg_of_neg_of_pos (not_le.mp h0) hπ
      linarith
    have : ⌊(degrees θ + 360) / 360⌋ = 0 := by
      rw [Int.floor_eq_iff]; constructor
      · rw [le_div_iff₀ (by norm_num)]; push_cast; linarith
      · rw [div_lt_iff₀ (by norm_num)]; push_cast; linarith
    rw [this]; push_cast; ring

end PyModeS.Aero
