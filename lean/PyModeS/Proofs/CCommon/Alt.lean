/-
  c_common.gray2int / gray2alt / altitude / altcode (C `int` arithmetic, integer sentinels)
  versus py_common (unbounded integers, `None`).
-/
import PyModeS.Proofs.CCommon.Basic
namespace PyModeS.CC
open PyModeS PyModeS.CRC

theorem bin2int_lt_of_length_le (b : Bits) (k : Nat) (h : b.length ≤ k) : bin2int b < 2 ^ k :=
  Nat.lt_of_lt_of_le (bin2int_lt b) (Nat.pow_le_pow_right (by decide) h)

/-- the Gray-code value: no 32-bit effect below 32 bits -/
theorem c_gray2int_eq (b : Bits) (h : b.length ≤ 31) : C.gray2int b = (gray2int b : Int) := by
  unfold C.gray2int gray2int
  rw [c_bin2int_eq b (by omega)]
  have h1 := bin2int_lt_of_length_le b 31 h
  have h2 : (2 : Nat) ^ 31 = 2147483648 := by decide
  rw [wrap32_of_range (by omega) (by omega)]
  simp

/-- a decoded Gillham altitude is a multiple of 100 ft, hence never one of the C sentinels -/
theorem gray2alt_ne_sentinel (g : Bits) (a : Int) (h : gray2alt g = some a) : a ≠ -1 ∧ a ≠ -999999 := by
  unfold gray2alt at h
  simp only [] at h
  split at h
  · simp at h
  · simp only [Option.some.injEq] at h
    subst h
    split <;> constructor <;> omega

/-- `gray2alt`: −1 exactly where Python returns `None`, the same number otherwise -/
theorem c_gray2alt_eq (b : Bits) (h : b.length ≤ 39) :
    C.gray2alt b = match gray2alt b with | some a => a | none => -1 := by
  unfold C.gray2alt gray2alt
  have h8 : (slice 0 8 b).length ≤ 31 := by rw [slice_length]; omega
  have h3 : (b.drop 8).length ≤ 31 := by rw [List.length_drop]; omega
  rw [c_gray2int_eq _ h8, c_gray2int_eq _ h3]
  generalize gray2int (slice 0 8 b) = n500
  generalize gray2int (b.drop 8) = n100
  simp only []
  by_cases hc : n100 = 0 ∨ n100 = 5 ∨ n100 = 6
  · have hc' : (n100 : Int) = 0 ∨ (n100 : Int) = 5 ∨ (n100 : Int) = 6 := by omega
    rw [if_pos hc', if_pos hc]
  · have hc' : ¬ ((n100 : Int) = 0 ∨ (n100 : Int) = 5 ∨ (n100 : Int) = 6) := by omega
    rw [if_neg hc', if_neg hc]
    simp only []
    by_cases h7 : n100 = 7
    · have h7' : (n100 : Int) = 7 := by omega
      rw [if_pos h7', if_pos h7]
      by_cases hp : n500 % 2 = 1
      · have hp' : (n500 : Int) % 2 ≠ 0 := by omega
        rw [if_pos hp', if_pos hp]; simp
      · have hp' : ¬ ((n500 : Int) % 2 ≠ 0) := by omega
        rw [if_neg hp', if_neg hp]; simp
    · have h7' : ¬ ((n100 : Int) = 7) := by omega
      rw [if_neg h7', if_neg h7]
      by_cases hp : n500 % 2 = 1
      · have hp' : (n500 : Int) % 2 ≠ 0 := by omega
        rw [if_pos hp', if_pos hp]
      · have hp' : ¬ ((n500 : Int) % 2 ≠ 0) := by omega
        rw [if_neg hp', if_neg hp]

/-- through the sentinel map the C `gray2alt` is the Python one -/
theorem c_gray2alt_sentinel (b : Bits) (h : b.length ≤ 39) : C.altOfSentinel (C.gray2alt b) = gray2alt b := by
  rw [c_gray2alt_eq b h]
  cases hg : gray2alt b with
  | none => simp [C.altOfSentinel]
  | some a =>
    have := gray2alt_ne_sentinel b a hg
    simp [C.altOfSentinel, this.1, this.2]

/-- on a 13-bit string the C altitude is a value (never an exception) -/
theorem c_altitude13 (m0 m1 m2 m3 m4 m5 M m7 Q m9 m10 m11 m12 : Bool) :
    C.altOfSentinel <$> C.altitude [m0, m1, m2, m3, m4, m5, M, m7, Q, m9, m10, m11, m12]
      = altitude13 [m0, m1, m2, m3, m4, m5, M, m7, Q, m9, m10, m11, m12] := by
  unfold C.altitude altitude13
  simp only []
  rw [c_bin2int_eq _ (by simp)]
  by_cases hz : bin2int [m0, m1, m2, m3, m4, m5, M, m7, Q, m9, m10, m11, m12] = 0
  · have hz' : ((bin2int [m0, m1, m2, m3, m4, m5, M, m7, Q, m9, m10, m11, m12] : Nat) : Int) = 0 := by omega
    rw [if_pos hz', if_pos hz]
    simp [C.altOfSentinel]
  · have hz' : ¬ (((bin2int [m0, m1, m2, m3, m4, m5, M, m7, Q, m9, m10, m11, m12] : Nat) : Int) = 0) := by omega
    rw [if_neg hz', if_neg hz]
    cases M with
    | true =>
      simp only [Bool.true_eq_false, if_false, Res.map_val]
      rw [c_bin2int_eq _ (by simp)]
      have h1 := bin2int_lt_of_length_le [m0, m1, m2, m3, m4, m5, m7, Q, m9, m10, m11, m12] 12 (by simp)
      simp only [Int.toNat_natCast, m2ft]
      generalize bin2int [m0, m1, m2, m3, m4, m5, m7, Q, m9, m10, m11, m12] = n at h1 ⊢
      have h2 : n * 328084 / 100000 < 2147483648 := by omega
      rw [wrap32_of_range (by omega) (by omega)]
      have h3 : ¬ (((n * 328084 / 100000 : Nat) : Int) = -999999 ∨ ((n * 328084 / 100000 : Nat) : Int) = -1) := by omega
      simp only [C.altOfSentinel, h3, if_false]
    | false =>
      cases Q with
      | true =>
        simp only [if_true, Bool.true_eq_false, if_false, Res.map_val]
        rw [c_bin2int_eq _ (by simp)]
        have h1 := bin2int_lt_of_length_le [m0, m1, m2, m3, m4, m5, m7, m9, m10, m11, m12] 11 (by simp)
        generalize bin2int [m0, m1, m2, m3, m4, m5, m7, m9, m10, m11, m12] = n at h1 ⊢
        rw [wrap32_of_range (by omega) (by omega)]
        have h3 : ¬ (((n : Int) * 25 - 1000) = -999999 ∨ ((n : Int) * 25 - 1000) = -1) := by omega
        simp only [C.altOfSentinel, h3, if_false]
        simp
      | false =>
        simp only [if_true, Bool.false_eq_true, if_false, Res.map_val]
        rw [c_gray2alt_sentinel _ (by simp)]

/-- altitude code: `RuntimeError` on the same inputs (anything but 13 bits); otherwise the sentinel map
    turns the C integer into the Python result (−999999 ↔ the zero code, −1 ↔ an illegal Gillham
    code, and no decoded altitude equals a sentinel) -/
theorem c_altitude_eq (b : Bits) : C.altOfSentinel <$> C.altitude b = altitude13 b := by
  by_cases h13 : ∃ m0 m1 m2 m3 m4 m5 M m7 Q m9 m10 m11 m12, b = [m0, m1, m2, m3, m4, m5, M, m7, Q, m9, m10, m11, m12]
  · obtain ⟨m0, m1, m2, m3, m4, m5, M, m7, Q, m9, m10, m11, m12, rfl⟩ := h13
    exact c_altitude13 ..
  · have hne : ∀ m0 m1 m2 m3 m4 m5 M m7 Q m9 m10 m11 m12, b = [m0, m1, m2, m3, m4, m5, M, m7, Q, m9, m10, m11, m12] → False :=
      fun m0 m1 m2 m3 m4 m5 M m7 Q m9 m10 m11 m12 hb => h13 ⟨m0, m1, m2, m3, m4, m5, M, m7, Q, m9, m10, m11, m12, hb⟩
    unfold C.altitude altitude13
    split
    · exact (hne _ _ _ _ _ _ _ _ _ _ _ _ _ rfl).elim
    · split
      · exact (hne _ _ _ _ _ _ _ _ _ _ _ _ _ rfl).elim
      · rfl

/-- the failure sets coincide: both raise `RuntimeError` exactly off 13 bits -/
theorem c_altitude_rte_iff (b : Bits) : C.altitude b = .rte ↔ altitude13 b = .rte := by
  have := c_altitude_eq b
  constructor
  · intro h; rw [h] at this; exact this.symm
  · intro h
    rw [h] at this
    cases hc : C.altitude b with
    | val x => rw [hc] at this; exact absurd this (by simp)
    | rte => rfl
    | exc => rw [hc] at this; exact absurd this (by intro h; cases h)

theorem c_altcode_eq_of_ascii (m : Msg) (h : IsAscii m) : C.altOfSentinel <$> C.altcode m = altcode m := by
  unfold C.altcode altcode
  rw [c_df_eq_of_ascii m h, c_hex2bin_eq_of_ascii m h]
  simp only []
  split
  · rfl
  · exact c_altitude_eq _

theorem c_altcode_eq (m : Msg) (h : IsHex m) : C.altOfSentinel <$> C.altcode m = altcode m :=
  c_altcode_eq_of_ascii m (isAscii_of_isHex h)

end PyModeS.CC
