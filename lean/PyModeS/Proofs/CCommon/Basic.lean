/-
  c_common (C semantics) versus py_common: characters, hex2bin, bin2int, hex2int, df, typecode,
  crc, icao, squawk.  Strings are compared on ASCII input (`IsAscii`: every code point < 128,
  where `str.encode()` is one byte per character); hex strings are ASCII.
-/
import PyModeS.Model.CCommon
import PyModeS.Proofs.CRC.HexStr
namespace PyModeS.CC
open PyModeS PyModeS.CRC

/-- every code point is below 128 (so `str.encode()` yields exactly one byte per character) -/
def IsAscii (m : Msg) : Prop := ∀ c ∈ m, c.toNat < 128

theorem isAscii_of_isHex {m : Msg} (h : IsHex m) : IsAscii m := by
  intro c hc
  have := hexChar_toNat_lt c (h c hc)
  omega

theorem isAscii_take {m : Msg} (h : IsAscii m) (k : Nat) : IsAscii (m.take k) :=
  fun c hc => h c (List.mem_of_mem_take hc)
theorem isAscii_drop {m : Msg} (h : IsAscii m) (k : Nat) : IsAscii (m.drop k) :=
  fun c hc => h c (List.mem_of_mem_drop hc)
theorem isAscii_slice {m : Msg} (h : IsAscii m) (a b : Nat) : IsAscii (slice a b m) :=
  isAscii_take (isAscii_drop h a) _

/-! ### char_to_int -/

theorem charToInt_enum : ∀ n, n < 256 → C.charToInt (Char.ofNat n) = hexVal (Char.ofNat n) := by
  decide +kernel

/-- `char_to_int` is `int(c, 16)` on every one-byte character (0 for a non-hex one) -/
theorem charToInt_eq_of_lt (c : Char) (h : c.toNat < 256) : C.charToInt c = hexVal c := by
  have := charToInt_enum c.toNat h
  rwa [Char.ofNat_toNat] at this

theorem charToInt_eq_hexVal (c : Char) (h : (hexVal? c).isSome) : C.charToInt c = hexVal c :=
  charToInt_eq_of_lt c (by have := hexChar_toNat_lt c h; omega)

/-- an ASCII character that is not a hex digit counts as 0 in both modules -/
theorem charToInt_nonhex (c : Char) (h : c.toNat < 128) (hn : hexVal? c = none) :
    C.charToInt c = 0 ∧ hexVal c = 0 := by
  rw [charToInt_eq_of_lt c (by omega)]
  simp [hexVal, hn]

/-- beyond one byte the model's `% 256` (C `unsigned char` conversion of a code point) differs: the
    statement is not true for all characters -/
theorem charToInt_ne_example : C.charToInt (Char.ofNat 0x131) = 1 ∧ hexVal (Char.ofNat 0x131) = 0 := by
  decide

/-! ### hex2bin -/

theorem nibble_bits : ∀ v, v < 16 →
    [(v >>> 3) &&& 1 == 1, (v >>> 2) &&& 1 == 1, (v >>> 1) &&& 1 == 1, v &&& 1 == 1] = natToBits 4 v := by
  decide

theorem c_hex2bin_eq_of_ascii (m : Msg) (h : IsAscii m) : C.hex2bin m = hex2binM m := by
  unfold C.hex2bin hex2binM
  induction m with
  | nil => rfl
  | cons c m ih =>
    simp only [List.flatMap_cons]
    rw [ih (fun x hx => h x (List.mem_cons_of_mem _ hx))]
    have hc := h c (by simp)
    rw [charToInt_eq_of_lt c (by omega), nibble_bits _ (hexVal_lt c)]

theorem c_hex2bin_eq (m : Msg) (h : IsHex m) : C.hex2bin m = hex2binM m :=
  c_hex2bin_eq_of_ascii m (isAscii_of_isHex h)

/-- not for all strings: a character beyond one byte -/
theorem c_hex2bin_ne_example : C.hex2bin [Char.ofNat 0x131] ≠ hex2binM [Char.ofNat 0x131] := by decide

/-! ### 64-bit and 32-bit wrap-around -/

theorem two64 : (2 : Int) ^ 64 = 18446744073709551616 := by decide
theorem two63 : (2 : Int) ^ 63 = 9223372036854775808 := by decide
theorem two32 : (2 : Int) ^ 32 = 4294967296 := by decide
theorem two31 : (2 : Int) ^ 31 = 2147483648 := by decide

theorem wrap64_emod (x : Int) : C.wrap64 x % 18446744073709551616 = x % 18446744073709551616 := by
  unfold C.wrap64
  simp only [two64, two63]
  split <;> omega

theorem wrap64_congr {x y : Int} (h : x % 18446744073709551616 = y % 18446744073709551616) :
    C.wrap64 x = C.wrap64 y := by
  unfold C.wrap64
  simp only [two64, two63, h]

theorem wrap64_of_range {x : Int} (h0 : 0 ≤ x) (h1 : x < 9223372036854775808) : C.wrap64 x = x := by
  unfold C.wrap64
  simp only [two64, two63]
  split <;> omega

theorem wrap32_of_range {x : Int} (h0 : -2147483648 ≤ x) (h1 : x < 2147483648) : C.wrap32 x = x := by
  unfold C.wrap32
  simp only [two32, two31]
  split <;> omega

/-- the value a C `long` holds after assigning the mathematical integer `x` -/
theorem wrap64_step (k a c : Int) : C.wrap64 (k * C.wrap64 a + c) = C.wrap64 (k * a + c) := by
  apply wrap64_congr
  have := wrap64_emod a
  rw [Int.add_emod, Int.mul_emod, this, ← Int.mul_emod, ← Int.add_emod]

/-! ### bin2int, hex2int -/

theorem c_bin2int_snoc (l : Bits) (x : Bool) :
    C.bin2int (l ++ [x]) = C.wrap64 (2 * C.bin2int l + (if x then 1 else 0)) := by
  simp [C.bin2int, List.foldl_append]

/-- in general the C result is the Python integer reduced to a signed 64-bit `long` -/
theorem c_bin2int_wrap (b : Bits) : C.bin2int b = C.wrap64 (bin2int b : Int) := by
  induction b using snoc_induction with
  | nil => decide
  | snoc l x ih =>
    rw [c_bin2int_snoc, ih, wrap64_step, bin2int_append_single]
    congr 1
    cases x <;> simp

/-- no wrap-around below 64 bits (a 63-bit string is still exact) -/
theorem c_bin2int_eq' (b : Bits) (h : b.length ≤ 63) : C.bin2int b = (bin2int b : Int) := by
  rw [c_bin2int_wrap]
  apply wrap64_of_range (by omega)
  have h1 := bin2int_lt b
  have h2 : 2 ^ b.length ≤ 2 ^ 63 := Nat.pow_le_pow_right (by decide) h
  have h3 : (2 : Nat) ^ 63 = 9223372036854775808 := by decide
  omega

theorem c_bin2int_eq (b : Bits) (h : b.length ≤ 62) : C.bin2int b = (bin2int b : Int) :=
  c_bin2int_eq' b (by omega)

/-- at 64 bits the C `long` does wrap: 64 ones give −1 where Python gives 2^64 − 1 -/
theorem c_bin2int_wraps_example :
    C.bin2int (List.replicate 64 true) = -1 ∧ bin2int (List.replicate 64 true) = 18446744073709551615 := by
  decide +kernel

theorem c_hex2int_snoc (l : Msg) (c : Char) :
    C.hex2int (l ++ [c]) = C.wrap64 (16 * C.hex2int l + C.charToInt c) := by
  simp [C.hex2int, List.foldl_append]

theorem c_hex2int_wrap (m : Msg) (h : IsAscii m) : C.hex2int m = C.wrap64 (hexToNatM m : Int) := by
  induction m using snoc_induction with
  | nil => decide
  | snoc l c ih =>
    have hl : IsAscii l := fun x hx => h x (List.mem_append_left _ hx)
    have hc := h c (by simp)
    rw [c_hex2int_snoc, ih hl, wrap64_step, hexToNatM_snoc, charToInt_eq_of_lt c (by omega)]
    congr 1

/-- no wrap-around up to 15 hex digits (60 bits) -/
theorem c_hex2int_eq_of_ascii (m : Msg) (h : IsAscii m) (hl : m.length ≤ 15) :
    C.hex2int m = (hexToNatM m : Int) := by
  rw [c_hex2int_wrap m h]
  apply wrap64_of_range (by omega)
  have h1 := hexToNatM_lt m
  have h2 : 16 ^ m.length ≤ 16 ^ 15 := Nat.pow_le_pow_right (by decide) hl
  have h3 : (16 : Nat) ^ 15 = 1152921504606846976 := by decide
  omega

theorem c_hex2int_eq (m : Msg) (h : IsHex m) (hl : m.length ≤ 15) : C.hex2int m = (hexToNatM m : Int) :=
  c_hex2int_eq_of_ascii m (isAscii_of_isHex h) hl

/-! ### df, typecode -/

theorem c_df_eq_of_ascii (m : Msg) (h : IsAscii m) : C.df m = df m := by
  unfold C.df df
  rw [c_hex2bin_eq_of_ascii _ (isAscii_take h 2)]
  have hl : (slice 0 5 (hex2binM (List.take 2 m))).length ≤ 62 := by
    rw [slice_length]; omega
  rw [c_bin2int_eq _ hl]
  generalize bin2int (slice 0 5 (hex2binM (List.take 2 m))) = n
  simp only []
  split
  · rename_i h1
    have : 24 < n := by omega
    omega
  · rename_i h1
    have : n ≤ 24 := by omega
    omega

theorem c_df_eq (m : Msg) (h : IsHex m) : C.df m = df m := c_df_eq_of_ascii m (isAscii_of_isHex h)

/-- the C type code: −1 for "no type code", otherwise the Python value -/
theorem c_typecode_val (m : Msg) (h : IsAscii m) :
    C.typecode m = match typecode m with | some t => (t : Int) | none => -1 := by
  unfold C.typecode typecode
  rw [c_df_eq_of_ascii m h, c_hex2bin_eq_of_ascii _ (isAscii_slice h 8 10)]
  by_cases hd : df m = 17 ∨ df m = 18
  · have h1 : ¬ (df m ≠ 17 ∧ df m ≠ 18) := by omega
    simp only [h1, hd, if_true, if_false]
    have hl : (slice 0 5 (hex2binM (slice 8 10 m))).length ≤ 5 := by
      rw [slice_length]; omega
    rw [c_bin2int_eq _ (by omega)]
    have h2 := bin2int_lt (slice 0 5 (hex2binM (slice 8 10 m)))
    have h3 : 2 ^ (slice 0 5 (hex2binM (slice 8 10 m))).length ≤ 2 ^ 5 := Nat.pow_le_pow_right (by decide) hl
    apply wrap32_of_range <;> omega
  · have h1 : df m ≠ 17 ∧ df m ≠ 18 := by omega
    rw [if_pos h1, if_neg hd]

theorem c_typecode_eq_of_ascii (m : Msg) (h : IsAscii m) : C.tcOfSentinel (C.typecode m) = typecode m := by
  rw [c_typecode_val m h]
  unfold C.tcOfSentinel
  cases typecode m with
  | none => simp
  | some t =>
    have : ¬ ((t : Int) = -1) := by omega
    simp [this]

theorem c_typecode_eq (m : Msg) (h : IsHex m) : C.tcOfSentinel (C.typecode m) = typecode m :=
  c_typecode_eq_of_ascii m (isAscii_of_isHex h)

theorem c_typecode_none_iff_of_ascii (m : Msg) (h : IsAscii m) : C.typecode m = -1 ↔ typecode m = none := by
  rw [c_typecode_val m h]
  cases typecode m with
  | none => simp
  | some t => simp

theorem c_typecode_none_iff (m : Msg) (h : IsHex m) : C.typecode m = -1 ↔ typecode m = none :=
  c_typecode_none_iff_of_ascii m (isAscii_of_isHex h)

/-! ### crc -/

theorem range_succ_map {β} (f : Nat → β) (k : Nat) :
    (List.range (k + 1)).map f = f 0 :: (List.range k).map (fun i => f (i + 1)) := by
  rw [List.range_succ_eq_map]; simp [List.map_map, Function.comp_def]

/-- `textwrap.wrap(bits, 8)` on whole bytes is the list of the 8-bit slices -/
theorem bytesOfBits_eq_map (k : Nat) : ∀ bits : Bits, bits.length = 8 * k →
    bytesOfBits bits = (List.range k).map (fun i => bin2int (slice (8 * i) (8 * i + 8) bits)) := by
  induction k with
  | zero =>
    intro bits h
    have : bits = [] := List.eq_nil_of_length_eq_zero (by omega)
    subst this
    rw [bytesOfBits]; rfl
  | succ k ih =>
    intro bits h
    cases bits with
    | nil => simp at h
    | cons b bs =>
      rw [bytesOfBits, range_succ_map]
      have hd : ((b :: bs).drop 8).length = 8 * k := by rw [List.length_drop, h]; omega
      rw [ih _ hd]
      refine List.cons_eq_cons.mpr ⟨by simp [slice], ?_⟩
      apply List.map_congr_left
      intro i _
      rw [slice_drop]
      congr 2 <;> omega

theorem hex2binM_zeros6 : hex2binM "000000".toList = List.replicate 24 false := by decide

theorem hex2binM_encode (m : Msg) :
    hex2binM (dropLast 6 m ++ "000000".toList) = dropLast 24 (hex2binM m) ++ List.replicate 24 false := by
  rw [hex2binM_append', hex2binM_zeros6]
  congr 1
  unfold dropLast
  rw [hex2binM_take, hex2binM_length]
  congr 1
  omega

/-- the C byte list: whole bytes of the bit string, each through the C `bin2int` -/
theorem c_bytes_eq (bits : Bits) (h8 : bits.length % 8 = 0) :
    (List.range (bits.length / 8)).map (fun i => (C.bin2int (slice (8 * i) (8 * i + 8) bits)).toNat)
      = bytesOfBits bits := by
  rw [bytesOfBits_eq_map (bits.length / 8) bits (by omega)]
  apply List.map_congr_left
  intro i _
  rw [c_bin2int_eq _ (by rw [slice_length]; omega)]
  simp

/-- crc: same remainder, for every ASCII string with an even number of characters (whole bytes) -/
theorem c_crc_eq_of_ascii (m : Msg) (e : Bool) (h : IsAscii m) (h2 : m.length % 2 = 0) :
    C.crc m e = (crc m e : Int) := by
  unfold C.crc crc crcBitsPy
  rw [c_hex2bin_eq_of_ascii m h]
  cases e with
  | false =>
    simp only [Bool.false_eq_true, if_false]
    rw [c_bytes_eq _ (by rw [hex2binM_length]; omega)]
  | true =>
    simp only [if_true]
    rw [hex2binM_encode]
    rw [c_bytes_eq]
    simp only [List.length_append, List.length_replicate, dropLast, List.length_take, hex2binM_length]
    omega

theorem c_crc_eq (m : Msg) (e : Bool) (h : IsHex m) (h2 : m.length % 2 = 0) (_h6 : 6 ≤ m.length) :
    C.crc m e = (crc m e : Int) := c_crc_eq_of_ascii m e (isAscii_of_isHex h) h2

/-! ### icao -/

theorem c_icao_eq_of_ascii (m : Msg) (h : IsAscii m) (h2 : m.length % 2 = 0) : C.icao m = icao m := by
  unfold C.icao icao
  rw [c_df_eq_of_ascii m h, c_crc_eq_of_ascii m true h h2]
  have ht : IsAscii (takeLast 6 m) := isAscii_drop h _
  have hl : (takeLast 6 m).length ≤ 15 := by simp [takeLast]; omega
  rw [c_hex2int_eq_of_ascii _ ht hl]
  simp

theorem c_icao_eq (m : Msg) (h : IsHex m) (h2 : m.length % 2 = 0) (_h6 : 6 ≤ m.length) :
    C.icao m = icao m := c_icao_eq_of_ascii m (isAscii_of_isHex h) h2

/-! ### squawk, idcode -/

theorem sq3 (a b c : Bool) :
    ((if a then 1 else 0) * 2 + (if b then 1 else 0)) * 2 + (if c then 1 else 0) = bin2int [a, b, c] := by
  cases a <;> cases b <;> cases c <;> rfl

/-- identity code: the same four octal digits, `RuntimeError` unless the string has 13 bits -/
theorem c_squawk_eq (b : Bits) : C.squawk b = squawk b := by
  unfold C.squawk squawk
  split
  · simp only [sq3]
  · rename_i hne
    split
    · rename_i C1 A1 C2 A2 C4 A4 X B1 D1 B2 D2 B4 D4
      exact absurd rfl (hne C1 A1 C2 A2 C4 A4 X B1 D1 B2 D2 B4 D4)
    · rfl

theorem c_idcode_eq_of_ascii (m : Msg) (h : IsAscii m) : C.idcode m = idcode m := by
  unfold C.idcode idcode
  rw [c_df_eq_of_ascii m h, c_hex2bin_eq_of_ascii m h, c_squawk_eq]

theorem c_idcode_eq (m : Msg) (h : IsHex m) : C.idcode m = idcode m :=
  c_idcode_eq_of_ascii m (isAscii_of_isHex h)

end PyModeS.CC
