/-
  C19: an independent check of `clean_signal_recovered` by direct kernel evaluation of the model
  `processBuffer` on one concrete buffer (no use of the theorem): 200 samples at 0.05, the DF17
  frame 8D406B902015A678D4D220AA4BDA modulated at amplitude 0.5 over lows at 0.05, 10 samples at
  0.05; previous noise floor 1e6 (the reader's initial value).

  Kept in its own module because the kernel evaluation takes about 50 s (`Array.push`-based
  `Array.extract` is quadratic under kernel reduction); it builds in parallel with the rest.
-/
import PyModeS.Proofs.Demod.Clean
namespace PyModeS.Demod
open PyModeS

/-- a real DF17 frame -/
def exMsg : Msg := "8D406B902015A678D4D220AA4BDA".toList

/-- 200 samples at 0.05, the frame at amplitude 0.5 with lows at 0.05, 10 samples at 0.05 -/
def exBuf : List Rat :=
  List.replicate 200 (1 / 20) ++ modulate (1 / 2) (fun _ => 1 / 20) (hex2binM exMsg) ++
    List.replicate 10 (1 / 20)

/-- direct evaluation: the frame comes back, the noise floor drops to 0.05, nothing remains -/
theorem exBuf_eval : processBuffer 1000000 exBuf.toArray = .val ([exMsg], 1 / 20, 0) := by
  decide +kernel

/-- the same result from the theorem (with `c = 1/20` read off the evaluation) -/
example : ∃ c, calcNoise exBuf.toArray = .val c ∧
    processBuffer 1000000 exBuf.toArray = .val ([exMsg], min c 1000000, 0) :=
  clean_signal_recovered_c19 1000000 (1 / 2) (fun _ => 1 / 20) (List.replicate 200 (1 / 20))
    (List.replicate 10 (1 / 20)) exMsg (by decide) (by decide +kernel) (by norm_num)
    (fun _ => by norm_num)
    (fun x hx => by rw [List.eq_of_mem_replicate hx]; norm_num)
    (fun x hx => by rw [List.eq_of_mem_replicate hx]; norm_num)
    (by rw [List.length_replicate])

end PyModeS.Demod
