/-
  Invariants of the demodulator's main loop (`demodLoop`): every emitted message passed
  `checkMsg`; the index strictly increases, so the modelled fuel `buf.size + 1` never cuts the
  loop short.
-/
import PyModeS.Model.Demod
namespace PyModeS.Demod
open PyModeS

/-- table obligation: the preamble is 8 µs long (16 samples) -/
theorem rtlPbits_eq : Tables.rtlPbits = 8 := by decide

/-- the output list after one frame attempt -/
def frameOut (out : List Msg) (msgbin : List Bool) : List Msg :=
  if msgbin.isEmpty then out else
    if checkMsg (bin2hexNoPad msgbin) then out ++ [bin2hexNoPad msgbin] else out

theorem demodLoop_zero (buf : Array Rat) (minAmp : Rat) (i : Nat) (out : List Msg) :
    demodLoop buf minAmp 0 i out = .val (out, i) := by
  rw [demodLoop.eq_def]

/-- one turn of the `while` loop, spelled out -/
theorem demodLoop_succ (buf : Array Rat) (minAmp : Rat) (fuel i : Nat) (out : List Msg) :
    demodLoop buf minAmp (fuel + 1) i out =
      if i ≥ buf.size then .val (out, i)
      else if buf.getD i 0 < minAmp then demodLoop buf minAmp fuel (i + 1) out
      else if checkPreamble (buf.extract i (i + Tables.rtlPbits * 2)).toList then
        match (buf.extract (i + Tables.rtlPbits * 2)
            (i + Tables.rtlPbits * 2 + (Tables.rtlFbits + 1) * 2)).toList with
        | [] => .exc
        | x :: xs =>
          demodLoop buf minAmp fuel
            (i + Tables.rtlPbits * 2 +
              (sliceBits (x :: xs) (xs.foldl max x * (1 / 5)) ((Tables.rtlFbits + 1) * 2 / 2) 0 []).2)
            (frameOut out
              (sliceBits (x :: xs) (xs.foldl max x * (1 / 5)) ((Tables.rtlFbits + 1) * 2 / 2) 0 []).1)
      else demodLoop buf minAmp fuel (i + 1) out := by
  rw [demodLoop.eq_def]
  simp only
  split
  · rfl
  · split
    · rfl
    · split
      · split
        · rename_i h; rw [h]
        · rename_i x xs h; rw [h]; rfl
      · rfl

/-- the output list after one frame attempt: either unchanged or one accepted message appended -/
theorem out_step_inv (out : List Msg) (msgbin : List Bool)
    (hinv : ∀ m ∈ out, checkMsg m = true) :
    ∀ m ∈ frameOut out msgbin, checkMsg m = true := by
  intro m hm
  unfold frameOut at hm
  split at hm
  · exact hinv m hm
  · split at hm
    · rename_i hc
      rcases List.mem_append.mp hm with h | h
      · exact hinv m h
      · rw [List.mem_singleton.mp h]; exact hc
    · exact hinv m hm

/-- loop invariant: every message in the output satisfies `checkMsg` -/
theorem demodLoop_checkMsg (buf : Array Rat) (minAmp : Rat) :
    ∀ (fuel i : Nat) (out res : List Msg) (i' : Nat), (∀ m ∈ out, checkMsg m = true) →
      demodLoop buf minAmp fuel i out = .val (res, i') → ∀ m ∈ res, checkMsg m = true := by
  intro fuel
  induction fuel with
  | zero =>
    intro i out res i' hinv h
    rw [demodLoop_zero] at h; simp only [Res.val.injEq, Prod.mk.injEq] at h
    rw [← h.1]; exact hinv
  | succ fuel ih =>
    intro i out res i' hinv h
    rw [demodLoop_succ] at h
    split at h
    · simp only [Res.val.injEq, Prod.mk.injEq] at h
      rw [← h.1]; exact hinv
    · split at h
      · exact ih _ _ _ _ hinv h
      · split at h
        · split at h
          · cases h
          · exact ih _ _ _ _ (out_step_inv out _ hinv) h
        · exact ih _ _ _ _ hinv h

/-- the index never decreases -/
theorem demodLoop_index_ge (buf : Array Rat) (minAmp : Rat) :
    ∀ (fuel i : Nat) (out res : List Msg) (i' : Nat),
      demodLoop buf minAmp fuel i out = .val (res, i') → i ≤ i' := by
  intro fuel
  induction fuel with
  | zero =>
    intro i out res i' h
    rw [demodLoop_zero] at h; simp only [Res.val.injEq, Prod.mk.injEq] at h
    omega
  | succ fuel ih =>
    intro i out res i' h
    rw [demodLoop_succ] at h
    split at h
    · simp only [Res.val.injEq, Prod.mk.injEq] at h
      omega
    · split at h
      · have := ih _ _ _ _ h; omega
      · split at h
        · split at h
          · cases h
          · have := ih _ _ _ _ h; omega
        · have := ih _ _ _ _ h; omega

/-- fuel sufficiency: the index grows by at least one per turn (`+1`, or a jump to
    `frameStart + j ≥ i + 16`), so with `fuel > buf.size - i` the loop ends by its own
    condition `i ≥ buffer_length`, never by running out of fuel -/
theorem demodLoop_terminates (buf : Array Rat) (minAmp : Rat) :
    ∀ (fuel i : Nat) (out res : List Msg) (i' : Nat), buf.size < fuel + i →
      demodLoop buf minAmp fuel i out = .val (res, i') → buf.size ≤ i' := by
  intro fuel
  induction fuel with
  | zero =>
    intro i out res i' hf h
    rw [demodLoop_zero] at h; simp only [Res.val.injEq, Prod.mk.injEq] at h
    omega
  | succ fuel ih =>
    intro i out res i' hf h
    rw [demodLoop_succ] at h
    split at h
    · simp only [Res.val.injEq, Prod.mk.injEq] at h
      omega
    · split at h
      · exact ih _ _ _ _ (by omega) h
      · split at h
        · split at h
          · cases h
          · exact ih _ _ _ _ (by have := rtlPbits_eq; omega) h
        · exact ih _ _ _ _ (by omega) h

/-- more fuel than needed does not change the result -/
theorem demodLoop_fuel_irrelevant (buf : Array Rat) (minAmp : Rat) :
    ∀ (fuel i : Nat) (out : List Msg) (extra : Nat), buf.size < fuel + i →
      demodLoop buf minAmp (fuel + extra) i out = demodLoop buf minAmp fuel i out := by
  intro fuel
  induction fuel with
  | zero =>
    intro i out extra hf
    cases extra with
    | zero => rfl
    | succ e =>
      have : i ≥ buf.size := by omega
      rw [demodLoop_zero, Nat.zero_add, demodLoop_succ]; simp [this]
  | succ fuel ih =>
    intro i out extra hf
    have e : fuel + 1 + extra = (fuel + extra) + 1 := by omega
    rw [e, demodLoop_succ, demodLoop_succ]
    split
    · rfl
    · split
      · exact ih _ _ _ (by omega)
      · split
        · split
          · rfl
          · exact ih _ _ _ (by have := rtlPbits_eq; omega)
        · exact ih _ _ _ (by omega)

end PyModeS.Demod
