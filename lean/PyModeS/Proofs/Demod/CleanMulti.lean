/-
  C19, positive half, general form: a sequence of cleanly modulated frames from DIFFERENT
  transmitters — every transmission has its own pulse amplitude `a_k` and its own low samples
  `lo_k` — separated by quiet gaps, behind at least 200 quiet samples, is recovered exactly and in
  order by `processBuffer` (model of `RtlReader._process_buffer`).

  `Clean.lean` has the single-amplitude statements and all the per-turn lemmas (`quiet_run`,
  `frame_gap_run`, `calcNoise_le`, `bin2hexNoPad_hex2binM_of_checkMsg`) used here.
-/
import PyModeS.Proofs.Demod.Clean
namespace PyModeS.Demod
open PyModeS

/-- one transmission: (pulse amplitude, low samples, frame, the gap behind it) -/
abbrev Tx := Rat × (Nat → Rat) × Msg × List Rat

/-- the samples of a sequence of transmissions -/
def signalG (tx : List Tx) : List Rat :=
  tx.flatMap fun t => modulate t.1 t.2.1 (hex2binM t.2.2.1) ++ t.2.2.2

/-- side conditions (weak form) on a sequence of transmissions `(a, lo, m, gap)`:
    amplitude in `[0.2, 1.8]`; low samples in `[-0.8, a/5)`; `m` upper-case hex accepted by
    `_check_msg`; every gap sample below 0.2; the first `226 - 8·digits` gap samples (what is left
    of the slicer's window) below `a/5`; every gap except the last at least that long -/
def TxOk : List Tx → Prop
  | [] => True
  | (a, lo, m, gap) :: fs =>
    (1 / 5 ≤ a ∧ a ≤ 9 / 5) ∧ (∀ j, -(4 / 5) ≤ lo j ∧ lo j < a / 5) ∧
    (∀ c ∈ m, c ∈ "0123456789ABCDEF".toList) ∧ checkMsg m = true ∧
    (∀ x ∈ gap, x < 1 / 5) ∧ (∀ x ∈ gap.take (226 - 8 * m.length), x < a / 5) ∧
    (fs = [] ∨ 226 - 8 * m.length ≤ gap.length) ∧ TxOk fs

theorem signalG_cons (t : Tx) (fs : List Tx) :
    signalG (t :: fs) = modulate t.1 t.2.1 (hex2binM t.2.2.1) ++ t.2.2.2 ++ signalG fs := by
  simp [signalG]

/-- an accepted upper-case frame, sliced back to its bits, is emitted as itself -/
theorem frameOut_hex2binM (out : List Msg) (m : Msg)
    (hup : ∀ c ∈ m, c ∈ "0123456789ABCDEF".toList) (hok : checkMsg m = true) :
    frameOut out (hex2binM m) = out ++ [m] := by
  have hl := (checkMsg_facts m hok).2
  have hlen : (hex2binM m).length = 4 * m.length := hex2binM_length m
  have hne : hex2binM m ≠ [] := by
    intro h; rw [h] at hlen; simp only [List.length_nil] at hlen; omega
  unfold frameOut
  rw [bin2hexNoPad_hex2binM_of_checkMsg m hup hok]
  simp [hne, hok]

/-- **demodLoop_signalG** — from the first sample of a sequence of clean transmissions (each with
    its own amplitude and lows, each above the amplitude gate) to the end of the buffer: every
    frame is emitted, in order, and the loop ends exactly at the end of the buffer -/
theorem demodLoop_signalG (L : List Rat) (minAmp : Rat) :
    ∀ (tx : List Tx) (fuel i : Nat) (out : List Msg),
      L.drop i = signalG tx → i ≤ L.length → L.length < fuel + i → TxOk tx →
      (∀ t ∈ tx, minAmp ≤ t.1) →
      demodLoop L.toArray minAmp fuel i out = .val (out ++ tx.map (·.2.2.1), L.length) := by
  intro tx
  induction tx with
  | nil =>
    intro fuel i out hdrop hi hfuel _ _
    have : L.length ≤ i := by
      have := congrArg List.length hdrop
      simp [signalG] at this; omega
    rw [demodLoop_end L minAmp fuel i out this]
    simp only [List.map_nil, List.append_nil]
    congr 2; omega
  | cons t fs ih =>
    intro fuel i out hdrop hi hfuel hok hgate
    obtain ⟨a, lo, m, gap⟩ := t
    obtain ⟨ha, hlo, hup, hmsg, hquiet, hgap5, hlong, hfs⟩ := hok
    rw [signalG_cons] at hdrop
    simp only at hdrop
    have hl := (checkMsg_facts m hmsg).2
    have hlen : (hex2binM m).length = 4 * m.length := hex2binM_length m
    have hne : hex2binM m ≠ [] := by
      intro h; rw [h] at hlen; simp only [List.length_nil] at hlen; omega
    have hL := congrArg List.length hdrop
    simp only [List.length_drop, List.length_append, modulate_length] at hL
    obtain ⟨fuel', rfl⟩ : ∃ fuel', fuel = fuel' + gap.length + 1 :=
      ⟨fuel - gap.length - 1, by omega⟩
    have e8 : 226 - 2 * (hex2binM m).length = 226 - 8 * m.length := by omega
    have htl : ∀ x ∈ (gap ++ signalG fs).take (226 - 2 * (hex2binM m).length), x < a / 5 := by
      intro x hx
      rw [e8] at hx
      rcases hlong with h | h
      · subst h
        simp only [signalG, List.flatMap_nil, List.append_nil] at hx
        exact hgap5 x hx
      · rw [List.take_append_of_le_length h] at hx
        exact hgap5 x hx
    rw [frame_gap_run L minAmp a lo (hex2binM m) gap (signalG fs) fuel' i out hdrop
      (hgate (a, lo, m, gap) (by simp)) ha hlo hne (by omega) hquiet htl]
    rw [ih fuel' (i + 16 + 2 * (hex2binM m).length + gap.length) (frameOut out (hex2binM m)) ?_
      (by omega) (by omega) hfs (fun t ht => hgate t (by simp [ht]))]
    · rw [frameOut_hex2binM out m hup hmsg]; simp
    · have e : i + 16 + 2 * (hex2binM m).length + gap.length =
          i + (modulate a lo (hex2binM m) ++ gap).length := by simp; omega
      rw [e, ← List.drop_drop, hdrop]
      exact List.drop_left' rfl

/-- **processBuffer_signalG** — a buffer that starts with at least 200 quiet samples (the first
    200 also `≤ a_k/5` for every transmission, which puts the amplitude gate
    `3.162·min(c, nf0)` below every frame's pulses, whatever the previous noise floor `nf0`) and
    continues with a sequence of clean transmissions: `_process_buffer` returns exactly the
    transmitted frames, in order; the new noise floor is `min(c, nf0)`; nothing remains. -/
theorem processBuffer_signalG (nf0 : Rat) (pre : List Rat) (tx : List Tx)
    (hprelen : 200 ≤ pre.length) (hpre : ∀ x ∈ pre, x < 1 / 5)
    (hpre5 : ∀ t ∈ tx, ∀ x ∈ pre.take 200, x ≤ t.1 / 5)
    (hok : TxOk tx) :
    ∃ c, calcNoise (pre ++ signalG tx).toArray = .val c ∧
      processBuffer nf0 (pre ++ signalG tx).toArray = .val (tx.map (·.2.2.1), min c nf0, 0) := by
  have htake : (pre ++ signalG tx).take 200 = pre.take 200 := List.take_append_of_le_length hprelen
  obtain ⟨c, hc, _⟩ := calcNoise_le (pre ++ signalG tx) (1 / 5) (by simp; omega)
    (by rw [htake]; exact fun x hx => le_of_lt (hpre x (List.mem_of_mem_take hx)))
  refine ⟨c, hc, ?_⟩
  have hpos : ∀ t ∈ tx, 0 < t.1 := by
    intro t ht
    have : ∀ (l : List Tx), TxOk l → ∀ t ∈ l, 0 < t.1 := by
      intro l
      induction l with
      | nil => intro _ t ht; simp at ht
      | cons s l ih =>
        intro h t ht
        obtain ⟨a, lo, m, gap⟩ := s
        rcases List.mem_cons.mp ht with rfl | ht
        · have := h.1.1; simp only; linarith
        · exact ih h.2.2.2.2.2.2.2 t ht
    exact this tx hok t ht
  have hgate : ∀ t ∈ tx, (3162 : Rat) / 1000 * min c nf0 ≤ t.1 := by
    intro t ht
    obtain ⟨c', hc', hc5⟩ := calcNoise_le (pre ++ signalG tx) (t.1 / 5) (by simp; omega)
      (by rw [htake]; exact hpre5 t ht)
    rw [hc] at hc'
    have : c = c' := by simpa using hc'
    subst this
    have : min c nf0 ≤ t.1 / 5 := le_trans (min_le_left _ _) hc5
    linarith [hpos t ht]
  set L := pre ++ signalG tx with hL
  have hwalk := quiet_run L ((3162 : Rat) / 1000 * min c nf0) [] pre.length
    (L.length + 1 - pre.length) 0 (by
      intro k hk
      have h1 : k < L.length := by simp [hL]; omega
      refine ⟨by omega, ?_⟩
      have : L[0 + k]? = some pre[k] := by
        rw [Nat.zero_add, hL, List.getElem?_append_left hk]; simp
      rw [List.getD_eq_getElem?_getD, this]
      exact hpre _ (List.getElem_mem _))
  have hlen : pre.length ≤ L.length := by simp [hL]
  rw [show L.length + 1 - pre.length + pre.length = L.length + 1 by omega, Nat.zero_add] at hwalk
  have hloop := demodLoop_signalG L _ tx (L.length + 1 - pre.length) pre.length []
    (by simp [hL]) hlen (by omega) hok hgate
  unfold processBuffer
  rw [hc]
  simp only [Res.bind_val, List.size_toArray]
  rw [hwalk, hloop]
  simp

/-- **clean_frames_recovered_multi** (weak hypotheses) — same statement as
    `processBuffer_signalG`, the name under which the property file uses it: per-transmission
    amplitude `0.2 ≤ a_k ≤ 1.8`, lows in `[-0.8, a_k/5)`, frame upper-case and accepted by
    `_check_msg`, gap below 0.2 and (first `226 - 8·digits` samples) below `a_k/5`, gap at least
    `226 - 8·digits` long except behind the last frame; lead-in of at least 200 samples below 0.2,
    the first 200 of them `≤ a_k/5` for every `k`. -/
theorem clean_frames_recovered_multi (nf0 : Rat) (pre : List Rat) (tx : List Tx)
    (hprelen : 200 ≤ pre.length) (hpre : ∀ x ∈ pre, x < 1 / 5)
    (hpre5 : ∀ t ∈ tx, ∀ x ∈ pre.take 200, x ≤ t.1 / 5)
    (hok : TxOk tx) :
    ∃ c, calcNoise (pre ++ signalG tx).toArray = .val c ∧
      processBuffer nf0 (pre ++ signalG tx).toArray = .val (tx.map (·.2.2.1), min c nf0, 0) :=
  processBuffer_signalG nf0 pre tx hprelen hpre hpre5 hok

/-- membership form of the side conditions, as the property words them -/
theorem txOk_of_forall : ∀ (tx : List Tx),
    (∀ t ∈ tx, (3 / 10 ≤ t.1 ∧ t.1 ≤ 14 / 10) ∧ (∀ j, 0 ≤ t.2.1 j ∧ t.2.1 j < t.1 / 5) ∧
      (∀ c ∈ t.2.2.1, c ∈ "0123456789ABCDEF".toList) ∧ checkMsg t.2.2.1 = true ∧
      114 ≤ t.2.2.2.length ∧ ∀ x ∈ t.2.2.2, x < t.1 / 5 ∧ x < 1 / 5) → TxOk tx
  | [], _ => trivial
  | (a, lo, m, gap) :: fs, h => by
    obtain ⟨ha, hlo, hup, hmsg, hlong, hgap⟩ := h (a, lo, m, gap) (by simp)
    simp only at ha hlo hup hmsg hlong hgap
    have hl := (checkMsg_facts m hmsg).2
    exact ⟨⟨by linarith [ha.1], by linarith [ha.2]⟩,
      fun j => ⟨by linarith [(hlo j).1], (hlo j).2⟩, hup, hmsg,
      fun x hx => (hgap x hx).2, fun x hx => (hgap x (List.mem_of_mem_take hx)).1,
      Or.inr (by omega), txOk_of_forall fs (fun t ht => h t (by simp [ht]))⟩

/-- **clean_frames_recovered_multi_c19** — the statement of C19 for frames from different
    transmitters: each transmission has a pulse amplitude `a_k` between 0.3 and 1.4, low samples
    in `[0, a_k/5)`, carries an upper-case hex frame accepted by `_check_msg`, and is followed by
    at least 114 noise samples (one frame length, 224, is more than enough) below `a_k/5` and below
    0.2; the lead-in has at least 200 samples, all below 0.2 and below every `a_k/5`.
    `_process_buffer` returns exactly those frames, in order. -/
theorem clean_frames_recovered_multi_c19 (nf0 : Rat) (pre : List Rat) (tx : List Tx)
    (hprelen : 200 ≤ pre.length)
    (hpre : ∀ x ∈ pre, x < 1 / 5 ∧ ∀ t ∈ tx, x < t.1 / 5)
    (htx : ∀ t ∈ tx, (3 / 10 ≤ t.1 ∧ t.1 ≤ 14 / 10) ∧ (∀ j, 0 ≤ t.2.1 j ∧ t.2.1 j < t.1 / 5) ∧
      (∀ c ∈ t.2.2.1, c ∈ "0123456789ABCDEF".toList) ∧ checkMsg t.2.2.1 = true ∧
      114 ≤ t.2.2.2.length ∧ ∀ x ∈ t.2.2.2, x < t.1 / 5 ∧ x < 1 / 5) :
    ∃ c, calcNoise (pre ++ (tx.flatMap fun t =>
        modulate t.1 t.2.1 (hex2binM t.2.2.1) ++ t.2.2.2)).toArray = .val c ∧
      processBuffer nf0 (pre ++ (tx.flatMap fun t =>
        modulate t.1 t.2.1 (hex2binM t.2.2.1) ++ t.2.2.2)).toArray =
        .val (tx.map (·.2.2.1), min c nf0, 0) :=
  clean_frames_recovered_multi nf0 pre tx hprelen (fun x hx => (hpre x hx).1)
    (fun t ht x hx => le_of_lt ((hpre x (List.mem_of_mem_take hx)).2 t ht))
    (txOk_of_forall tx htx)

/-- two transmissions of different strength for the non-vacuity check: a long DF17 frame at
    amplitude 0.5 and a short DF11 frame at amplitude 1, lows at 0.05, 226 samples at 0.05 behind
    each -/
def exTx : List Tx :=
  [(1 / 2, fun _ => 1 / 20, "8D406B902015A678D4D220AA4BDA".toList, List.replicate 226 (1 / 20)),
   (1, fun _ => 1 / 20, "5D484FDEA248F5".toList, List.replicate 226 (1 / 20))]

/-- non-vacuity of `clean_frames_recovered_multi_c19` (hence of `clean_frames_recovered_multi`,
    `processBuffer_signalG`, `demodLoop_signalG`) -/
example : ∃ c, calcNoise (List.replicate 200 (1 / 20) ++ signalG exTx).toArray = .val c ∧
    processBuffer 1000000 (List.replicate 200 (1 / 20) ++ signalG exTx).toArray =
      .val (["8D406B902015A678D4D220AA4BDA".toList, "5D484FDEA248F5".toList], min c 1000000, 0) :=
  clean_frames_recovered_multi_c19 1000000 (List.replicate 200 (1 / 20)) exTx
    (by rw [List.length_replicate])
    (by
      intro x hx
      rw [List.eq_of_mem_replicate hx]
      refine ⟨by norm_num, fun t ht => ?_⟩
      simp only [exTx, List.mem_cons, List.not_mem_nil, or_false] at ht
      rcases ht with rfl | rfl <;> norm_num)
    (by
      intro t ht
      simp only [exTx, List.mem_cons, List.not_mem_nil, or_false] at ht
      rcases ht with rfl | rfl
      · refine ⟨by norm_num, fun _ => by norm_num, by decide, by decide +kernel,
          by rw [List.length_replicate]; omega, fun x hx => ?_⟩
        rw [List.eq_of_mem_replicate hx]; norm_num
      · refine ⟨by norm_num, fun _ => by norm_num, by decide, by decide +kernel,
          by rw [List.length_replicate]; omega, fun x hx => ?_⟩
        rw [List.eq_of_mem_replicate hx]; norm_num)

end PyModeS.Demod
