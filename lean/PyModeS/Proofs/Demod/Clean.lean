/-
  C19, positive half: a cleanly pulse-position-modulated Mode S frame is recovered by the
  sample-buffer processor (`processBuffer`, model of `RtlReader._process_buffer`).

  Signal model: 2 samples per µs; the 16-sample preamble `1010000101000000` (pulse amplitude `a`,
  low samples `lo k`), then 2 samples per bit (1 ↦ pulse,low; 0 ↦ low,pulse).
  Noise hypothesis (what the code really needs): every non-pulse sample is `< a/5` (the slicer's
  threshold `max(frame_pulses) * 0.2`) and `< 1/5` (so that it can never pass the preamble test
  `|x - 1| ≤ 0.8` at preamble position 0).

  Main results: `checkPreamble_modulated`, `sliceBits_modulated`, `quiet_step`/`quiet_run`,
  `frame_step`, `demodLoop_signal`, `processBuffer_signal` (any number of frames, on bits, weakest
  hypotheses), `clean_bits_recovered`, `clean_signal_recovered` (one frame),
  `clean_frames_recovered` (any number of frames, message level) and the `_c19` instances with the
  hypotheses as worded in the property.  An independent kernel evaluation of `processBuffer` on a
  concrete buffer is in `CleanEval.lean`.
-/
import PyModeS.Proofs.Demod.Loop
import PyModeS.Proofs.CRC.HexStr
import Mathlib.Tactic.Linarith
import Mathlib.Tactic.NormNum
import Mathlib.Tactic.Ring
namespace PyModeS.Demod
open PyModeS

/-! ### table obligations -/

theorem rtlPreamble_eq : Tables.rtlPreamble = [1, 0, 1, 0, 0, 0, 0, 1, 0, 1, 0, 0, 0, 0, 0, 0] := by decide
theorem rtlFbits_eq : Tables.rtlFbits = 112 := by decide
theorem rtlThAmpDiff_eq : Tables.rtlThAmpDiff = 4 / 5 := rfl
theorem rtlSamplesPerMicrosec_eq : Tables.rtlSamplesPerMicrosec = 2 := by decide

/-- the preamble pattern is a 0/1 pattern -/
theorem rtlPreamble_01 : ∀ k, k < 16 →
    Tables.rtlPreamble.getD k 0 = 0 ∨ Tables.rtlPreamble.getD k 0 = 1 := by decide
/-- ... that starts with a pulse -/
theorem rtlPreamble_head : Tables.rtlPreamble.getD 0 0 = 1 := by decide

/-! ### the modulator -/

/-- the 16 preamble samples: amplitude `a` where `Tables.rtlPreamble` has 1, the low sample
    `lo k` elsewhere -/
def preambleSamples (a : Rat) (lo : Nat → Rat) : List Rat :=
  (List.range 16).map (fun k => if Tables.rtlPreamble.getD k 0 = 1 then a else lo k)

/-- PPM, 2 samples per bit: 1 ↦ (pulse, low), 0 ↦ (low, pulse); `lo` is indexed by the sample
    offset inside the transmission -/
def ppm (a : Rat) (lo : Nat → Rat) : Nat → Bits → List Rat
  | _, [] => []
  | k, b :: bs => (if b then [a, lo (k + 1)] else [lo k, a]) ++ ppm a lo (k + 2) bs

/-- preamble followed by the PPM data samples -/
def modulate (a : Rat) (lo : Nat → Rat) (bits : Bits) : List Rat :=
  preambleSamples a lo ++ ppm a lo 16 bits

@[simp] theorem preambleSamples_length (a : Rat) (lo : Nat → Rat) : (preambleSamples a lo).length = 16 := by
  simp [preambleSamples]

@[simp] theorem ppm_length (a : Rat) (lo : Nat → Rat) (k : Nat) (bits : Bits) :
    (ppm a lo k bits).length = 2 * bits.length := by
  induction bits generalizing k with
  | nil => rfl
  | cons b bs ih => cases b <;> simp [ppm, ih] <;> omega

@[simp] theorem modulate_length (a : Rat) (lo : Nat → Rat) (bits : Bits) :
    (modulate a lo bits).length = 16 + 2 * bits.length := by
  simp [modulate]

/-- every data sample is a pulse or a low sample -/
theorem ppm_mem (a : Rat) (lo : Nat → Rat) (k : Nat) (bits : Bits) :
    ∀ x ∈ ppm a lo k bits, x = a ∨ ∃ j, x = lo j := by
  induction bits generalizing k with
  | nil => intro x hx; simp [ppm] at hx
  | cons b bs ih =>
    intro x hx
    simp only [ppm, List.mem_append] at hx
    rcases hx with hx | hx
    · cases b
      · simp at hx; rcases hx with hx | hx
        · exact Or.inr ⟨_, hx⟩
        · exact Or.inl hx
      · simp at hx; rcases hx with hx | hx
        · exact Or.inl hx
        · exact Or.inr ⟨_, hx⟩
    · exact ih _ x hx

/-- a non-empty bit string has a pulse -/
theorem ppm_has_pulse (a : Rat) (lo : Nat → Rat) (k : Nat) (bits : Bits) (h : bits ≠ []) :
    a ∈ ppm a lo k bits := by
  cases bits with
  | nil => exact absurd rfl h
  | cons b bs => cases b <;> simp [ppm]

/-! ### rational helpers -/

theorem rabs_le_iff (x c : Rat) : rabs x ≤ c ↔ -c ≤ x ∧ x ≤ c := by
  unfold rabs
  split
  · constructor
    · intro h; constructor <;> linarith
    · intro h; linarith
  · constructor
    · intro h; constructor <;> linarith
    · intro h; linarith

/-! ### (c) the preamble test on a clean preamble -/

/-- **checkPreamble_modulated** — a clean preamble passes `_check_preamble` whenever the pulse
    amplitude is within `[0.2, 1.8]` and the low samples within `[-0.8, 0.8]` -/
theorem checkPreamble_modulated (a : Rat) (lo : Nat → Rat) (ha : 1 / 5 ≤ a ∧ a ≤ 9 / 5)
    (hlo : ∀ k, k < 16 → -(4 / 5) ≤ lo k ∧ lo k ≤ 4 / 5) :
    checkPreamble (preambleSamples a lo) = true := by
  unfold checkPreamble
  simp only [preambleSamples_length, beq_self_eq_true, Bool.true_and, List.all_eq_true,
    List.mem_range, Bool.not_eq_true', decide_eq_false_iff_not, gt_iff_lt, not_lt]
  intro k hk
  have hget : (preambleSamples a lo).getD k 0 =
      if Tables.rtlPreamble.getD k 0 = 1 then a else lo k := by
    simp [preambleSamples, List.getD_eq_getElem?_getD, hk]
  rw [hget, rtlThAmpDiff_eq, rabs_le_iff]
  rcases rtlPreamble_01 k hk with h | h
  · rw [h]; simp only [Nat.zero_ne_one, if_false, Nat.cast_zero, sub_zero]
    exact hlo k hk
  · rw [h]; simp only [if_true, Nat.cast_one]
    constructor <;> linarith [ha.1, ha.2]

/-- non-vacuity: amplitude 0.5 over lows of 0.05 -/
example : checkPreamble (preambleSamples (1 / 2) (fun _ => 1 / 20)) = true :=
  checkPreamble_modulated _ _ (by norm_num) (fun _ _ => by norm_num)

/-- what a quiet sample can never do: pass the preamble test at position 0 -/
theorem checkPreamble_head (p : List Rat) (h : checkPreamble p = true) : 1 / 5 ≤ p.getD 0 0 := by
  unfold checkPreamble at h
  simp only [Bool.and_eq_true, List.all_eq_true, List.mem_range, Bool.not_eq_true',
    decide_eq_false_iff_not, gt_iff_lt, not_lt] at h
  have := h.2 0 (by omega)
  rw [rtlPreamble_head, rtlThAmpDiff_eq, rabs_le_iff] at this
  simp only [Nat.cast_one] at this
  linarith [this.1]

/-! ### (d) the bit slicer on clean PPM samples -/

/-- the slicer, generalised for the induction: from sample offset `j`, where the window `fp`
    continues with the PPM samples of `rest` and then `tl` -/
theorem sliceBits_core (a thr : Rat) (lo : Nat → Rat) (fp tl : List Rat)
    (hthr : thr ≤ a) (hlo : ∀ k, lo k < thr) (htl : ∀ x ∈ tl.take 2, x < thr) :
    ∀ (rest : Bits) (fuel j k : Nat) (acc : List Bool),
      fp.drop j = ppm a lo k rest ++ tl → rest.length < fuel →
      sliceBits fp thr fuel j acc = (acc ++ rest, j + 2 * rest.length) := by
  intro rest
  induction rest with
  | nil =>
    intro fuel j k acc hdrop hfuel
    obtain ⟨f, rfl⟩ : ∃ f, fuel = f + 1 := ⟨fuel - 1, by simp at hfuel; omega⟩
    rw [sliceBits]
    simp only [ppm, List.nil_append] at hdrop
    rw [hdrop]
    simp only [List.append_nil, List.length_nil, Nat.mul_zero, Nat.add_zero]
    split
    · rename_i x y h2
      have hx := htl x (by rw [h2]; simp)
      have hy := htl y (by rw [h2]; simp)
      simp [hx, hy]
    · rfl
  | cons b bs ih =>
    intro fuel j k acc hdrop hfuel
    obtain ⟨f, rfl⟩ : ∃ f, fuel = f + 1 := ⟨fuel - 1, by simp at hfuel; omega⟩
    have hf : f ≠ 0 := by simp at hfuel; omega
    have hdrop2 : fp.drop (j + 2) = ppm a lo (k + 2) bs ++ tl := by
      rw [← List.drop_drop, hdrop]
      cases b <;> simp [ppm]
    have hrec := ih f (j + 2) (k + 2) (acc ++ [b]) hdrop2 (by simp at hfuel; omega)
    rw [sliceBits, hdrop]
    cases b
    · have h1 := hlo k
      simp only [ppm, Bool.false_eq_true, if_false, List.cons_append, List.nil_append,
        List.take_succ_cons, List.take_zero]
      have hn : ¬ (lo k < thr ∧ a < thr) := fun h => by linarith [h.2]
      have hc : decide (lo k ≥ a) = false := by
        simp only [ge_iff_le, decide_eq_false_iff_not, not_le]; linarith
      simp only [hn, if_false, hc, hf]
      rw [hrec]; simp; omega
    · have h1 := hlo (k + 1)
      simp only [ppm, if_true, List.cons_append, List.nil_append,
        List.take_succ_cons, List.take_zero]
      have hn : ¬ (a < thr ∧ lo (k + 1) < thr) := fun h => by linarith [h.1]
      have hc : decide (a ≥ lo (k + 1)) = true := by
        simp only [ge_iff_le, decide_eq_true_eq]; linarith
      simp only [hn, if_false, hc, hf]
      rw [hrec]; simp; omega

/-- **sliceBits_modulated** — on the PPM samples of at most 112 bits (low samples below the
    threshold, pulses at or above it), followed by a tail that is shorter than two samples or
    starts with two samples below the threshold, the slicing loop of `_process_buffer`
    (113 turns at most) returns exactly the bits and stops right behind them -/
theorem sliceBits_modulated (a thr : Rat) (lo : Nat → Rat) (k : Nat) (bits : Bits) (tl : List Rat)
    (hlen : bits.length ≤ 112) (hthr : thr ≤ a) (hlo : ∀ k, lo k < thr)
    (htl : ∀ x ∈ tl.take 2, x < thr) :
    sliceBits (ppm a lo k bits ++ tl) thr 113 0 [] = (bits, 2 * bits.length) := by
  have := sliceBits_core a thr lo (ppm a lo k bits ++ tl) tl hthr hlo htl bits 113 0 k []
    (by simp) (by omega)
  simpa using this

/-- non-vacuity: three bits followed by two quiet samples -/
example : sliceBits (ppm (1 / 2) (fun _ => 1 / 20) 16 [true, false, true] ++ [1 / 20, 1 / 20])
    (1 / 10) 113 0 [] = ([true, false, true], 6) :=
  sliceBits_modulated (1 / 2) (1 / 10) (fun _ => 1 / 20) 16 [true, false, true] [1 / 20, 1 / 20]
    (by decide) (by norm_num) (fun _ => by norm_num)
    (fun x hx => by
      simp only [List.take_succ_cons, List.take_zero, List.mem_cons, List.not_mem_nil, or_false,
        or_self] at hx
      rw [hx]; norm_num)

/-! ### (e) the slicer's threshold -/

theorem foldl_max_ge (xs : List Rat) (x : Rat) : x ≤ xs.foldl max x ∧ ∀ y ∈ xs, y ≤ xs.foldl max x := by
  induction xs generalizing x with
  | nil => simp
  | cons z zs ih =>
    simp only [List.foldl_cons, List.mem_cons, forall_eq_or_imp]
    have h := ih (max x z)
    exact ⟨le_trans (le_max_left _ _) h.1, le_trans (le_max_right _ _) h.1, h.2⟩

theorem foldl_max_le (xs : List Rat) (x a : Rat) (hx : x ≤ a) (hxs : ∀ y ∈ xs, y ≤ a) :
    xs.foldl max x ≤ a := by
  induction xs generalizing x with
  | nil => simpa
  | cons z zs ih =>
    simp only [List.foldl_cons]
    exact ih _ (max_le hx (hxs z (by simp))) (fun y hy => hxs y (by simp [hy]))

/-- `max(l)` of a list whose elements are all `≤ a`, one of them being `a` -/
theorem foldl_max_eq (x : Rat) (xs : List Rat) (a : Rat) (hle : ∀ y ∈ x :: xs, y ≤ a)
    (hmem : a ∈ x :: xs) : xs.foldl max x = a := by
  apply le_antisymm
  · exact foldl_max_le xs x a (hle x (by simp)) (fun y hy => hle y (by simp [hy]))
  · have h := foldl_max_ge xs x
    rcases List.mem_cons.mp hmem with h1 | h1
    · rw [h1]; exact h.1
    · exact h.2 a h1

/-! ### (a) the noise floor and the amplitude gate -/

theorem foldl_add_le (l : List Rat) (t s : Rat) (h : ∀ x ∈ l, x ≤ t) :
    l.foldl (· + ·) s ≤ s + l.length * t := by
  induction l generalizing s with
  | nil => simp
  | cons z zs ih =>
    simp only [List.foldl_cons, List.length_cons, Nat.cast_add, Nat.cast_one]
    have h1 := ih (s + z) (fun x hx => h x (by simp [hx]))
    have h2 := h z (by simp)
    linarith

theorem foldl_min_le (ms : List Rat) (m : Rat) : ms.foldl min m ≤ m := by
  induction ms generalizing m with
  | nil => simp
  | cons z zs ih => exact le_trans (ih _) (min_le_left _ _)

/-- `_calc_noise` succeeds on a buffer of at least 200 samples, and its result (the quietest
    200-sample window mean) is at most any bound on the first 200 samples -/
theorem calcNoise_le (L : List Rat) (t : Rat) (hlen : 200 ≤ L.length)
    (h : ∀ x ∈ L.take 200, x ≤ t) : ∃ c, calcNoise L.toArray = .val c ∧ c ≤ t := by
  unfold calcNoise
  simp only [rtlSamplesPerMicrosec_eq, List.size_toArray]
  obtain ⟨n, hn⟩ : ∃ n, L.length / (2 * 100) = n + 1 := ⟨L.length / 200 - 1, by omega⟩
  rw [hn, List.range_succ_eq_map]
  simp only [List.map_cons]
  refine ⟨_, rfl, le_trans (foldl_min_le _ _) ?_⟩
  simp only [Nat.zero_mul, Nat.zero_add, List.extract_toArray, List.foldl_toArray,
    List.extract_eq_take_drop, List.drop_zero, Nat.sub_zero]
  have h1 := foldl_add_le (L.take (2 * 100)) t 0 h
  have h2 : (L.take (2 * 100)).length = 200 := by simp; omega
  rw [h2] at h1
  rw [div_le_iff₀ (by norm_num)]
  push_cast at h1 ⊢
  linarith

/-! ### (b) quiet samples are walked through one by one -/

/-- the loop stops at the end of the buffer, whatever the fuel -/
theorem demodLoop_end (L : List Rat) (minAmp : Rat) (fuel i : Nat) (out : List Msg)
    (hi : L.length ≤ i) : demodLoop L.toArray minAmp fuel i out = .val (out, i) := by
  cases fuel with
  | zero => exact demodLoop_zero _ _ _ _
  | succ f => rw [demodLoop_succ]; simp [hi]

/-- **quiet_step** — a sample below 0.2 is never the start of a frame: either the amplitude gate
    skips it or the preamble test fails on it (or on a window cut short by the buffer end) -/
theorem quiet_step (L : List Rat) (minAmp : Rat) (fuel i : Nat) (out : List Msg)
    (hi : i < L.length) (hq : L.getD i 0 < 1 / 5) :
    demodLoop L.toArray minAmp (fuel + 1) i out = demodLoop L.toArray minAmp fuel (i + 1) out := by
  rw [demodLoop_succ]
  have h0 : ¬ (i ≥ L.toArray.size) := by simp; omega
  rw [if_neg h0]
  split
  · rfl
  · split
    · rename_i hp
      have := checkPreamble_head _ hp
      rw [rtlPbits_eq] at this
      simp [List.getD_eq_getElem?_getD] at this
      simp [List.getD_eq_getElem?_getD] at hq
      linarith
    · rfl

/-- **quiet_run** — a stretch of `n` quiet samples costs `n` turns and changes nothing else -/
theorem quiet_run (L : List Rat) (minAmp : Rat) (out : List Msg) :
    ∀ (n fuel i : Nat), (∀ k, k < n → i + k < L.length ∧ L.getD (i + k) 0 < 1 / 5) →
      demodLoop L.toArray minAmp (fuel + n) i out = demodLoop L.toArray minAmp fuel (i + n) out := by
  intro n
  induction n with
  | zero => intro fuel i _; rfl
  | succ n ih =>
    intro fuel i h
    have h0 := h 0 (by omega)
    rw [← Nat.add_assoc, quiet_step L minAmp (fuel + n) i out h0.1 h0.2, ih fuel (i + 1)]
    · congr 1; omega
    · intro k hk
      have := h (k + 1) (by omega)
      rw [show i + 1 + k = i + (k + 1) by omega]; exact this

/-! ### (f) one loop turn at the start of a clean frame -/

theorem preambleSamples_head (a : Rat) (lo : Nat → Rat) : (preambleSamples a lo)[0]? = some a := by
  have h := rtlPreamble_head
  rw [List.getD_eq_getElem?_getD] at h
  simp [preambleSamples, h]

/-- **frame_step** — at the first sample of a clean transmission of `bits` (followed by
    `226 - 2·len` samples below the slicer threshold `a/5`), one loop turn recovers exactly `bits`
    and moves to the first sample behind the transmission -/
theorem frame_step (L : List Rat) (minAmp a : Rat) (lo : Nat → Rat) (bits : Bits) (tl : List Rat)
    (fuel i : Nat) (out : List Msg)
    (hdrop : L.drop i = modulate a lo bits ++ tl)
    (hgate : minAmp ≤ a) (ha : 1 / 5 ≤ a ∧ a ≤ 9 / 5)
    (hlo : ∀ k, -(4 / 5) ≤ lo k ∧ lo k < a / 5)
    (hbits : bits ≠ []) (hlen : bits.length ≤ 112)
    (htl : ∀ x ∈ tl.take (226 - 2 * bits.length), x < a / 5) :
    demodLoop L.toArray minAmp (fuel + 1) i out =
      demodLoop L.toArray minAmp fuel (i + 16 + 2 * bits.length) (frameOut out bits) := by
  have ha5 : a / 5 ≤ a := by linarith [ha.1]
  have hi : i < L.length := by
    have := congrArg List.length hdrop
    simp at this; omega
  have hget : L.toArray.getD i 0 = a := by
    have : L[i]? = some a := by
      have h1 : (L.drop i)[0]? = some a := by
        rw [hdrop, modulate, List.append_assoc, List.getElem?_append_left (by simp)]
        exact preambleSamples_head a lo
      simpa using h1
    simp [this]
  have hpre : (L.toArray.extract i (i + Tables.rtlPbits * 2)).toList = preambleSamples a lo := by
    rw [rtlPbits_eq]
    simp only [List.extract_toArray, List.extract_eq_take_drop, Nat.add_sub_cancel_left]
    rw [hdrop, modulate, List.append_assoc]
    exact List.take_left' (by simp)
  have hfp : (L.toArray.extract (i + Tables.rtlPbits * 2)
      (i + Tables.rtlPbits * 2 + (Tables.rtlFbits + 1) * 2)).toList =
      ppm a lo 16 bits ++ tl.take (226 - 2 * bits.length) := by
    rw [rtlPbits_eq, rtlFbits_eq]
    simp only [List.extract_toArray, List.extract_eq_take_drop, Nat.add_sub_cancel_left]
    rw [← List.drop_drop, hdrop, modulate, List.append_assoc, List.drop_left' (by simp),
      List.take_append, List.take_of_length_le (by simp; omega)]
    simp
  rw [demodLoop_succ]
  have h0 : ¬ (i ≥ L.toArray.size) := by simp; omega
  have h1 : ¬ (L.toArray.getD i 0 < minAmp) := by rw [hget]; linarith
  rw [if_neg h0, if_neg h1, hpre,
    checkPreamble_modulated a lo ha (fun k _ => ⟨(hlo k).1, by linarith [(hlo k).2, ha.2]⟩), if_pos rfl,
    hfp]
  obtain ⟨x, xs, hx⟩ : ∃ x xs, ppm a lo 16 bits ++ tl.take (226 - 2 * bits.length) = x :: xs := by
    cases bits with
    | nil => exact absurd rfl hbits
    | cons b bs => cases b <;> simp [ppm]
  rw [hx]
  simp only
  have hthr : xs.foldl max x = a := by
    apply foldl_max_eq
    · intro y hy
      rw [← hx, List.mem_append] at hy
      rcases hy with hy | hy
      · rcases ppm_mem a lo 16 bits y hy with h | ⟨j, h⟩
        · rw [h]
        · rw [h]; linarith [(hlo j).2]
      · linarith [htl y hy]
    · rw [← hx]; exact List.mem_append_left _ (ppm_has_pulse a lo 16 bits hbits)
  have hs := sliceBits_modulated a (a / 5) lo 16 bits (tl.take (226 - 2 * bits.length)) hlen ha5
    (fun k => (hlo k).2)
    (fun y hy => htl y (List.mem_of_mem_take hy))
  rw [hthr, ← hx, rtlFbits_eq, rtlPbits_eq, show a * (1 / 5) = a / 5 by ring,
    show (112 + 1) * 2 / 2 = 113 by rfl, hs]

/-- reading a buffer described from position `i` on as `A ++ B ++ C` inside `B` -/
theorem getD_of_drop (L A B C : List Rat) (i k : Nat) (hdrop : L.drop i = A ++ B ++ C)
    (hk : k < B.length) :
    i + A.length + k < L.length ∧ L.getD (i + A.length + k) 0 = B[k] := by
  have h1 : (L.drop i)[A.length + k]? = some B[k] := by
    rw [hdrop, List.append_assoc, List.getElem?_append_right (by omega),
      List.getElem?_append_left (by omega)]
    simp
  rw [List.getElem?_drop, ← Nat.add_assoc] at h1
  have h2 := (List.getElem?_eq_some_iff.mp h1).1
  exact ⟨h2, by simp [List.getD_eq_getElem?_getD, h1]⟩

/-- **frame_gap_run** — a clean transmission followed by a quiet gap: the frame is sliced in one
    turn, the gap is walked through sample by sample -/
theorem frame_gap_run (L : List Rat) (minAmp a : Rat) (lo : Nat → Rat) (bits : Bits)
    (gap rest : List Rat) (fuel i : Nat) (out : List Msg)
    (hdrop : L.drop i = modulate a lo bits ++ gap ++ rest)
    (hgate : minAmp ≤ a) (ha : 1 / 5 ≤ a ∧ a ≤ 9 / 5)
    (hlo : ∀ k, -(4 / 5) ≤ lo k ∧ lo k < a / 5)
    (hbits : bits ≠ []) (hlen : bits.length ≤ 112)
    (hquiet : ∀ x ∈ gap, x < 1 / 5)
    (htl : ∀ x ∈ (gap ++ rest).take (226 - 2 * bits.length), x < a / 5) :
    demodLoop L.toArray minAmp (fuel + gap.length + 1) i out =
      demodLoop L.toArray minAmp fuel (i + 16 + 2 * bits.length + gap.length) (frameOut out bits) := by
  rw [frame_step L minAmp a lo bits (gap ++ rest) (fuel + gap.length) i out
    (by rw [hdrop, List.append_assoc]) hgate ha hlo hbits hlen htl]
  apply quiet_run
  intro k hk
  have := getD_of_drop L (modulate a lo bits) gap rest i k hdrop hk
  rw [modulate_length, ← Nat.add_assoc] at this
  exact ⟨this.1, by rw [this.2]; exact hquiet _ (List.getElem_mem _)⟩

/-! ### (g) a whole sequence of transmissions -/

/-- a sequence of transmissions `(bits, gap)`: each clean transmission is followed by its gap -/
def signal (a : Rat) (lo : Nat → Rat) : List (Bits × List Rat) → List Rat
  | [] => []
  | (bits, gap) :: fs => modulate a lo bits ++ gap ++ signal a lo fs

/-- side conditions on a sequence of transmissions: 1 to 112 bits each; every gap sample is below
    0.2 and below the slicer threshold `a/5`; every gap except the last one is at least as long
    as what is left of the 226-sample slicing window behind the data (`226 - 2·len`, i.e. 2
    samples behind a long frame, 114 behind a short one) -/
def FramesOk (a : Rat) : List (Bits × List Rat) → Prop
  | [] => True
  | (bits, gap) :: fs =>
    bits ≠ [] ∧ bits.length ≤ 112 ∧ (∀ x ∈ gap, x < a / 5 ∧ x < 1 / 5) ∧
    (fs = [] ∨ 226 - 2 * bits.length ≤ gap.length) ∧ FramesOk a fs

/-- the messages the loop emits for a sequence of sliced bit strings -/
def framesOut (out : List Msg) (frames : List (Bits × List Rat)) : List Msg :=
  frames.foldl (fun o f => frameOut o f.1) out

/-- **demodLoop_signal** — from the first sample of a sequence of clean transmissions to the end
    of the buffer: every transmission is sliced to exactly its bits, in order, and the loop ends
    exactly at the end of the buffer -/
theorem demodLoop_signal (L : List Rat) (minAmp a : Rat) (lo : Nat → Rat)
    (hgate : minAmp ≤ a) (ha : 1 / 5 ≤ a ∧ a ≤ 9 / 5)
    (hlo : ∀ k, -(4 / 5) ≤ lo k ∧ lo k < a / 5) :
    ∀ (frames : List (Bits × List Rat)) (fuel i : Nat) (out : List Msg),
      L.drop i = signal a lo frames → i ≤ L.length → L.length < fuel + i → FramesOk a frames →
      demodLoop L.toArray minAmp fuel i out = .val (framesOut out frames, L.length) := by
  intro frames
  induction frames with
  | nil =>
    intro fuel i out hdrop hi hfuel _
    have : L.length ≤ i := by
      have := congrArg List.length hdrop
      simp [signal] at this; omega
    rw [demodLoop_end L minAmp fuel i out this]
    simp only [framesOut, List.foldl_nil]
    congr 2; omega
  | cons f fs ih =>
    intro fuel i out hdrop hi hfuel hok
    obtain ⟨bits, gap⟩ := f
    obtain ⟨hbits, hlen, hgap, hlong, hfs⟩ := hok
    simp only [signal] at hdrop
    have hL := congrArg List.length hdrop
    simp only [List.length_drop, List.length_append, modulate_length] at hL
    obtain ⟨fuel', rfl⟩ : ∃ fuel', fuel = fuel' + gap.length + 1 :=
      ⟨fuel - gap.length - 1, by omega⟩
    have htl : ∀ x ∈ (gap ++ signal a lo fs).take (226 - 2 * bits.length), x < a / 5 := by
      intro x hx
      rcases hlong with h | h
      · subst h
        simp only [signal, List.append_nil] at hx
        exact (hgap x (List.mem_of_mem_take hx)).1
      · rw [List.take_append_of_le_length h] at hx
        exact (hgap x (List.mem_of_mem_take hx)).1
    rw [frame_gap_run L minAmp a lo bits gap (signal a lo fs) fuel' i out hdrop hgate ha hlo hbits
      hlen (fun x hx => (hgap x hx).2) htl]
    rw [ih fuel' (i + 16 + 2 * bits.length + gap.length) (frameOut out bits) ?_ (by omega) (by omega) hfs]
    · rfl
    · have e : i + 16 + 2 * bits.length + gap.length = i + (modulate a lo bits ++ gap).length := by
        simp; omega
      rw [e, ← List.drop_drop, hdrop]
      exact List.drop_left' rfl

/-- with every sliced bit string acceptable, one message per transmission is emitted -/
theorem framesOut_eq (frames : List (Bits × List Rat)) (out : List Msg)
    (hne : ∀ f ∈ frames, f.1 ≠ [])
    (hmsg : ∀ f ∈ frames, checkMsg (bin2hexNoPad f.1) = true) :
    framesOut out frames = out ++ frames.map (fun f => bin2hexNoPad f.1) := by
  induction frames generalizing out with
  | nil => simp [framesOut]
  | cons f fs ih =>
    have h1 := hne f (by simp)
    have h2 := hmsg f (by simp)
    have := ih (frameOut out f.1) (fun g hg => hne g (by simp [hg])) (fun g hg => hmsg g (by simp [hg]))
    simp only [framesOut, List.foldl_cons] at this ⊢
    rw [this]
    simp [frameOut, h1, h2]

theorem framesOk_ne (a : Rat) : ∀ (frames : List (Bits × List Rat)), FramesOk a frames →
    ∀ f ∈ frames, f.1 ≠ []
  | [], _ => by simp
  | (b, g) :: fs, h => by
    intro f hf
    rcases List.mem_cons.mp hf with rfl | hf
    · exact h.1
    · exact framesOk_ne a fs h.2.2.2.2 f hf

/-- **processBuffer_signal** (on bits, any number of transmissions) — a buffer that starts with
    at least 200 quiet samples (the first 200 also `≤ a/5`, which bounds the noise floor) and
    continues with a sequence of clean transmissions separated by quiet gaps: `_process_buffer`
    returns exactly the transmitted frames, in order, whatever the previous noise floor `nf0`;
    the new noise floor is `min(c, nf0)`, the buffer is consumed entirely. -/
theorem processBuffer_signal (nf0 a : Rat) (lo : Nat → Rat) (pre : List Rat)
    (frames : List (Bits × List Rat))
    (ha : 1 / 5 ≤ a ∧ a ≤ 9 / 5)
    (hlo : ∀ k, -(4 / 5) ≤ lo k ∧ lo k < a / 5)
    (hprelen : 200 ≤ pre.length)
    (hpre5 : ∀ x ∈ pre.take 200, x ≤ a / 5) (hpre : ∀ x ∈ pre, x < 1 / 5)
    (hok : FramesOk a frames)
    (hmsg : ∀ f ∈ frames, checkMsg (bin2hexNoPad f.1) = true) :
    ∃ c, calcNoise (pre ++ signal a lo frames).toArray = .val c ∧
      processBuffer nf0 (pre ++ signal a lo frames).toArray =
        .val (frames.map (fun f => bin2hexNoPad f.1), min c nf0, 0) := by
  obtain ⟨c, hc, hc5⟩ := calcNoise_le (pre ++ signal a lo frames) (a / 5) (by simp; omega)
    (by rw [List.take_append_of_le_length hprelen]; exact hpre5)
  refine ⟨c, hc, ?_⟩
  have hgate : (3162 : Rat) / 1000 * min c nf0 ≤ a := by
    have : min c nf0 ≤ a / 5 := le_trans (min_le_left _ _) hc5
    linarith [ha.1]
  set L := pre ++ signal a lo frames with hL
  have hwalk := quiet_run L ((3162 : Rat) / 1000 * min c nf0) [] pre.length
    (L.length + 1 - pre.length) 0 (by
      intro k hk
      have h1 : k < L.length := by simp [hL]; omega
      refine ⟨by omega, ?_⟩
      have : L[0 + k]? = some pre[k] := by
        rw [Nat.zero_add, hL, List.getElem?_append_left hk]; simp
      rw [List.getD_eq_getElem?_getD, this]
      exact hpre _ (List.getElem_mem _))
  have hlen : pre.length ≤ L.length := by simp [hL]
  rw [show L.length + 1 - pre.length + pre.length = L.length + 1 by omega, Nat.zero_add] at hwalk
  have hloop := demodLoop_signal L _ a lo hgate ha hlo frames (L.length + 1 - pre.length)
    pre.length [] (by simp [hL]) hlen (by omega) hok
  unfold processBuffer
  rw [hc]
  simp only [Res.bind_val, List.size_toArray]
  rw [hwalk, hloop, framesOut_eq frames [] (framesOk_ne a frames hok) hmsg]
  simp

/-! ### (h) bits → hex → bits: `bin2hex` gives back an accepted upper-case frame -/

theorem upper_facts : ∀ c ∈ "0123456789ABCDEF".toList, (hexVal? c).isSome = true ∧ c.toUpper = c := by
  decide

theorem upper_isHex (m : Msg) (hup : ∀ c ∈ m, c ∈ "0123456789ABCDEF".toList) : CRC.IsHex m :=
  fun c hc => (upper_facts c (hup c hc)).1

theorem upper_map (m : Msg) (hup : ∀ c ∈ m, c ∈ "0123456789ABCDEF".toList) : m.map Char.toUpper = m := by
  induction m with
  | nil => rfl
  | cons c cs ih =>
    simp only [List.map_cons]
    rw [(upper_facts c (hup c (by simp))).2, ih (fun x hx => hup x (by simp [hx]))]

/-- `bin2hex(hex2bin(m)) = m` for a non-empty upper-case hex string without a leading zero digit
    (`"{0:X}".format` does not pad) -/
theorem bin2hexNoPad_hex2binM (m : Msg) (hup : ∀ c ∈ m, c ∈ "0123456789ABCDEF".toList)
    (hne : m ≠ []) (h0 : m.head? ≠ some '0') : bin2hexNoPad (hex2binM m) = m := by
  unfold bin2hexNoPad
  rw [← CRC.hexToNatM_eq_bin2int]
  obtain ⟨k, hk⟩ : ∃ k, m.length = k + 1 := ⟨m.length - 1, by
    have : m.length ≠ 0 := fun h => hne (List.length_eq_zero_iff.mp h)
    omega⟩
  have hpad := CRC.pad_toDigits_eq_hexN k (hexToNatM m) (by rw [← hk]; exact CRC.hexToNatM_lt m)
  rw [← hk, ← CRC.map_toUpper_eq_hexN m (upper_isHex m hup), upper_map m hup] at hpad
  generalize List.map Char.toUpper (Nat.toDigits 16 (hexToNatM m)) = D at hpad ⊢
  cases hr : m.length - D.length with
  | zero => rw [hr] at hpad; simpa using hpad
  | succ r =>
    rw [hr, List.replicate_succ] at hpad
    rw [← hpad] at h0
    simp at h0

/-- a frame whose first hex digit is 0 has DF 0 or 1 -/
theorem df_zero_head (rest : Msg) : df ('0' :: rest) ≤ 1 := by
  unfold df
  have h : hex2binM (('0' :: rest).take 2) = [false, false, false, false] ++ hex2binM (rest.take 1) := by
    simp only [List.take_succ_cons, hex2binM, List.flatMap_cons]
    rfl
  rw [h]
  generalize hex2binM (rest.take 1) = X
  rcases X with _ | ⟨b, X⟩
  · decide
  · cases b <;> simp [slice, bin2int]

/-- what `_check_msg` accepts: DF 4/5/11 with 14 digits, DF 17/20/21 with 28 digits -/
theorem checkMsg_facts (m : Msg) (hok : checkMsg m = true) :
    4 ≤ df m ∧ (m.length = 14 ∨ m.length = 28) := by
  unfold checkMsg at hok
  simp only at hok
  split at hok
  · rename_i h; omega
  · split at hok
    · rename_i h; omega
    · split at hok
      · rename_i h; omega
      · cases hok

/-- an accepted upper-case frame survives `hex2bin` followed by `bin2hex` -/
theorem bin2hexNoPad_hex2binM_of_checkMsg (m : Msg) (hup : ∀ c ∈ m, c ∈ "0123456789ABCDEF".toList)
    (hok : checkMsg m = true) : bin2hexNoPad (hex2binM m) = m := by
  obtain ⟨hdf, hl⟩ := checkMsg_facts m hok
  apply bin2hexNoPad_hex2binM m hup
  · intro h; subst h; simp at hl
  · intro h
    cases m with
    | nil => simp at h
    | cons c cs =>
      simp only [List.head?_cons, Option.some.injEq] at h
      subst h
      have := df_zero_head cs
      omega

/-- no bit string that `bin2hex` turns into an accepted frame is empty -/
theorem ne_nil_of_checkMsg (bits : Bits) (hok : checkMsg (bin2hexNoPad bits) = true) : bits ≠ [] := by
  intro h; subst h; revert hok; decide

/-! ### the single-frame statements -/

/-- **clean_bits_recovered** (core, on bits).  Buffer: at least 200 quiet samples, one clean
    transmission of `bits`, quiet samples.  `_process_buffer` returns exactly `bin2hex(bits)`.

    Hypotheses that turned out unnecessary or weaker than planned:
    * the frame length need not be 56 or 112: `bits.length ≤ 112` suffices (non-emptiness follows
      from `hok`);
    * amplitude: `0.2 ≤ a ≤ 1.8` suffices (`_check_preamble` tolerates `|a - 1| ≤ 0.8`);
    * low samples: `-0.8 ≤ lo k` suffices instead of `0 ≤ lo k`;
    * noise before the frame: `x < a/5` is used only for the first 200 samples (it bounds the noise
      floor so that the amplitude gate `3.162 · min(c, nf0) ≤ a` lets the preamble through — for
      every previous noise floor `nf0`, even a non-positive one); noise behind the frame: `x < a/5`
      is used only for the first `226 - 2·len` samples (the rest of the slicer's window).
      See `processBuffer_signal` for the statement with exactly these. -/
theorem clean_bits_recovered (nf0 a : Rat) (lo : Nat → Rat) (pre post : List Rat) (bits : Bits)
    (hlen : bits.length ≤ 112)
    (hok : checkMsg (bin2hexNoPad bits) = true)
    (ha : 1 / 5 ≤ a ∧ a ≤ 9 / 5)
    (hlo : ∀ k, -(4 / 5) ≤ lo k ∧ lo k < a / 5)
    (hpre : ∀ x ∈ pre, x < a / 5 ∧ x < 1 / 5) (hpost : ∀ x ∈ post, x < a / 5 ∧ x < 1 / 5)
    (hprelen : 200 ≤ pre.length) :
    ∃ c, calcNoise (pre ++ modulate a lo bits ++ post).toArray = .val c ∧
      processBuffer nf0 (pre ++ modulate a lo bits ++ post).toArray =
        .val ([bin2hexNoPad bits], min c nf0, 0) := by
  have h := processBuffer_signal nf0 a lo pre [(bits, post)] ha hlo hprelen
    (fun x hx => le_of_lt (hpre x (List.mem_of_mem_take hx)).1) (fun x hx => (hpre x hx).2)
    ⟨ne_nil_of_checkMsg bits hok, hlen, hpost, Or.inl rfl, trivial⟩
    (by simpa using hok)
  simpa [signal, List.append_assoc] using h

/-- **clean_signal_recovered** (message level).  For an upper-case hex frame `m` that
    `_check_msg` accepts (DF 4/5/11 with 14 digits, DF 20/21 with 28 digits, DF 17 with 28 digits
    and zero CRC remainder), modulated cleanly behind at least 200 quiet samples and followed by
    quiet samples, `_process_buffer` returns exactly `[m]` — upper-case, of the right length —
    for every previous noise floor `nf0`; the new noise floor is `min(c, nf0)` and nothing of the
    buffer remains.  (Same weakened hypotheses as `clean_bits_recovered`.) -/
theorem clean_signal_recovered (nf0 a : Rat) (lo : Nat → Rat) (pre post : List Rat) (m : Msg)
    (hup : ∀ c ∈ m, c ∈ "0123456789ABCDEF".toList) (hok : checkMsg m = true)
    (ha : 1 / 5 ≤ a ∧ a ≤ 9 / 5)
    (hlo : ∀ k, -(4 / 5) ≤ lo k ∧ lo k < a / 5)
    (hpre : ∀ x ∈ pre, x < a / 5 ∧ x < 1 / 5) (hpost : ∀ x ∈ post, x < a / 5 ∧ x < 1 / 5)
    (hprelen : 200 ≤ pre.length) :
    ∃ c, calcNoise (pre ++ modulate a lo (hex2binM m) ++ post).toArray = .val c ∧
      processBuffer nf0 (pre ++ modulate a lo (hex2binM m) ++ post).toArray =
        .val ([m], min c nf0, 0) := by
  have hrt := bin2hexNoPad_hex2binM_of_checkMsg m hup hok
  have hl := (checkMsg_facts m hok).2
  have h := clean_bits_recovered nf0 a lo pre post (hex2binM m)
    (by rw [hex2binM_length]; omega) (by rw [hrt]; exact hok) ha hlo hpre hpost hprelen
  rw [hrt] at h
  exact h

/-- the statement of C19 as planned (amplitude between 0.3 and 1.4, non-negative low samples):
    an instance of `clean_signal_recovered` -/
theorem clean_signal_recovered_c19 (nf0 a : Rat) (lo : Nat → Rat) (pre post : List Rat) (m : Msg)
    (hup : ∀ c ∈ m, c ∈ "0123456789ABCDEF".toList) (hok : checkMsg m = true)
    (ha : 3 / 10 ≤ a ∧ a ≤ 14 / 10)
    (hlo : ∀ k, 0 ≤ lo k ∧ lo k < a / 5)
    (hpre : ∀ x ∈ pre, x < a / 5 ∧ x < 1 / 5) (hpost : ∀ x ∈ post, x < a / 5 ∧ x < 1 / 5)
    (hprelen : 200 ≤ pre.length) :
    ∃ c, calcNoise (pre ++ modulate a lo (hex2binM m) ++ post).toArray = .val c ∧
      processBuffer nf0 (pre ++ modulate a lo (hex2binM m) ++ post).toArray =
        .val ([m], min c nf0, 0) :=
  clean_signal_recovered nf0 a lo pre post m hup hok
    ⟨by linarith [ha.1], by linarith [ha.2]⟩
    (fun k => ⟨by linarith [(hlo k).1], (hlo k).2⟩) hpre hpost hprelen

/-- non-vacuity of `clean_signal_recovered_c19` (hence of `clean_signal_recovered` and
    `clean_bits_recovered`): a real DF17 frame at amplitude 0.5 over a 0.05 floor -/
example : ∃ c,
    calcNoise (List.replicate 200 (1 / 20) ++
      modulate (1 / 2) (fun _ => 1 / 20) (hex2binM "8D406B902015A678D4D220AA4BDA".toList) ++
      List.replicate 10 (1 / 20)).toArray = .val c ∧
    processBuffer 1000000 (List.replicate 200 (1 / 20) ++
      modulate (1 / 2) (fun _ => 1 / 20) (hex2binM "8D406B902015A678D4D220AA4BDA".toList) ++
      List.replicate 10 (1 / 20)).toArray =
      .val (["8D406B902015A678D4D220AA4BDA".toList], min c 1000000, 0) :=
  clean_signal_recovered_c19 1000000 (1 / 2) (fun _ => 1 / 20) (List.replicate 200 (1 / 20))
    (List.replicate 10 (1 / 20)) "8D406B902015A678D4D220AA4BDA".toList (by decide)
    (by decide +kernel) (by norm_num) (fun _ => by norm_num)
    (fun x hx => by rw [List.eq_of_mem_replicate hx]; norm_num)
    (fun x hx => by rw [List.eq_of_mem_replicate hx]; norm_num)
    (by rw [List.length_replicate])

/-! ### the multi-frame statement, message level -/

/-- side conditions on a sequence `(frame, gap)` of transmissions: every frame is upper-case hex
    and accepted by `_check_msg`; every gap sample is below 0.2 and below `a/5`; every gap except
    the last is at least `226 - 8·digits` samples long (2 behind a 28-digit frame, 114 behind a
    14-digit one) -/
def MsgFramesOk (a : Rat) : List (Msg × List Rat) → Prop
  | [] => True
  | (m, gap) :: fs =>
    (∀ c ∈ m, c ∈ "0123456789ABCDEF".toList) ∧ checkMsg m = true ∧
    (∀ x ∈ gap, x < a / 5 ∧ x < 1 / 5) ∧ (fs = [] ∨ 226 - 8 * m.length ≤ gap.length) ∧
    MsgFramesOk a fs

/-- the transmissions as bit strings -/
def frameBits (frames : List (Msg × List Rat)) : List (Bits × List Rat) :=
  frames.map (fun f => (hex2binM f.1, f.2))

theorem msgFramesOk_bits (a : Rat) : ∀ (frames : List (Msg × List Rat)), MsgFramesOk a frames →
    FramesOk a (frameBits frames) ∧
    (∀ f ∈ frameBits frames, checkMsg (bin2hexNoPad f.1) = true) ∧
    (frameBits frames).map (fun f => bin2hexNoPad f.1) = frames.map (·.1)
  | [], _ => by simp [frameBits, FramesOk]
  | (m, gap) :: fs, h => by
    obtain ⟨hup, hok, hgap, hlong, hfs⟩ := h
    obtain ⟨ih1, ih2, ih3⟩ := msgFramesOk_bits a fs hfs
    have hrt := bin2hexNoPad_hex2binM_of_checkMsg m hup hok
    have hl := (checkMsg_facts m hok).2
    have hlen : (hex2binM m).length = 4 * m.length := hex2binM_length m
    refine ⟨?_, ?_, ?_⟩
    · show FramesOk a ((hex2binM m, gap) :: frameBits fs)
      refine ⟨?_, ?_, hgap, ?_, ih1⟩
      · intro h; rw [h] at hlen; simp only [List.length_nil] at hlen; omega
      · omega
      · rcases hlong with h | h
        · left; rw [h]; rfl
        · right; rw [hlen]; omega
    · intro f hf
      simp only [frameBits, List.map_cons, List.mem_cons] at hf
      rcases hf with rfl | hf
      · simp only; rw [hrt]; exact hok
      · exact ih2 f hf
    · simp only [frameBits, List.map_cons, hrt, List.cons.injEq, true_and]
      exact ih3

/-- **clean_frames_recovered** — any number of accepted upper-case frames, each modulated cleanly
    and followed by a quiet gap (long enough to cover the slicer's 226-sample window, except
    behind the last frame), behind at least 200 quiet samples: `_process_buffer` returns exactly
    those frames, in order. -/
theorem clean_frames_recovered (nf0 a : Rat) (lo : Nat → Rat) (pre : List Rat)
    (frames : List (Msg × List Rat))
    (ha : 1 / 5 ≤ a ∧ a ≤ 9 / 5)
    (hlo : ∀ k, -(4 / 5) ≤ lo k ∧ lo k < a / 5)
    (hpre : ∀ x ∈ pre, x < a / 5 ∧ x < 1 / 5) (hprelen : 200 ≤ pre.length)
    (hok : MsgFramesOk a frames) :
    ∃ c, calcNoise (pre ++ signal a lo (frameBits frames)).toArray = .val c ∧
      processBuffer nf0 (pre ++ signal a lo (frameBits frames)).toArray =
        .val (frames.map (·.1), min c nf0, 0) := by
  obtain ⟨h1, h2, h3⟩ := msgFramesOk_bits a frames hok
  have h := processBuffer_signal nf0 a lo pre (frameBits frames) ha hlo hprelen
    (fun x hx => le_of_lt (hpre x (List.mem_of_mem_take hx)).1) (fun x hx => (hpre x hx).2) h1 h2
  rw [h3] at h
  exact h

/-- membership form of the side conditions: every gap (the last one too) at least 114 samples
    long (what is left of the 226-sample slicing window behind a short frame; one frame length,
    224 samples, is more than enough) -/
theorem msgFramesOk_of_forall (a : Rat) : ∀ (frames : List (Msg × List Rat)),
    (∀ f ∈ frames, (∀ c ∈ f.1, c ∈ "0123456789ABCDEF".toList) ∧ checkMsg f.1 = true ∧
      114 ≤ f.2.length ∧ ∀ x ∈ f.2, x < a / 5 ∧ x < 1 / 5) → MsgFramesOk a frames
  | [], _ => trivial
  | (m, gap) :: fs, h => by
    obtain ⟨h1, h2, h3, h4⟩ := h (m, gap) (by simp)
    have hl := (checkMsg_facts m h2).2
    exact ⟨h1, h2, h4, Or.inr (by simp only at h3 hl; omega),
      msgFramesOk_of_forall a fs (fun f hf => h f (by simp [hf]))⟩

/-- **clean_frames_recovered_c19** — the statement of C19: valid frames, pulse amplitude between
    0.3 and 1.4, low samples inside a transmission in `[0, a/5)`, noise samples below `a/5` and
    below `1/5` (no lower bound is needed on the noise), every transmission followed by at least 114 samples of noise (one frame
    length, 224 samples, is more than enough; see `clean_frames_recovered` for the exact bound
    `226 - 8·digits`, not needed behind the last frame): the frames come back exactly, in order. -/
theorem clean_frames_recovered_c19 (nf0 a : Rat) (lo : Nat → Rat) (pre : List Rat)
    (frames : List (Msg × List Rat))
    (ha : 3 / 10 ≤ a ∧ a ≤ 14 / 10)
    (hlo : ∀ k, 0 ≤ lo k ∧ lo k < a / 5)
    (hpre : ∀ x ∈ pre, x < a / 5 ∧ x < 1 / 5) (hprelen : 200 ≤ pre.length)
    (hframes : ∀ f ∈ frames, (∀ c ∈ f.1, c ∈ "0123456789ABCDEF".toList) ∧ checkMsg f.1 = true ∧
      114 ≤ f.2.length ∧ ∀ x ∈ f.2, x < a / 5 ∧ x < 1 / 5) :
    ∃ c, calcNoise (pre ++ (frames.flatMap fun f => modulate a lo (hex2binM f.1) ++ f.2)).toArray = .val c ∧
      processBuffer nf0 (pre ++ (frames.flatMap fun f => modulate a lo (hex2binM f.1) ++ f.2)).toArray =
        .val (frames.map (·.1), min c nf0, 0) := by
  have hsig : ∀ fs : List (Msg × List Rat),
      signal a lo (frameBits fs) = fs.flatMap fun f => modulate a lo (hex2binM f.1) ++ f.2 := by
    intro fs
    induction fs with
    | nil => rfl
    | cons f fs ih =>
      obtain ⟨m, gap⟩ := f
      simp only [frameBits, List.map_cons, signal, List.flatMap_cons] at ih ⊢
      rw [ih]
  rw [← hsig]
  exact clean_frames_recovered nf0 a lo pre frames ⟨by linarith [ha.1], by linarith [ha.2]⟩
    (fun k => ⟨by linarith [(hlo k).1], (hlo k).2⟩) hpre hprelen (msgFramesOk_of_forall a frames hframes)

/-- two transmissions for the non-vacuity check: a long DF17 frame and a short DF11 frame, 226
    samples at 0.05 behind each -/
def exFrames : List (Msg × List Rat) :=
  [("8D406B902015A678D4D220AA4BDA".toList, List.replicate 226 (1 / 20)),
   ("5D484FDEA248F5".toList, List.replicate 226 (1 / 20))]

/-- the buffer of the non-vacuity check: 200 samples at 0.05, then the two transmissions at
    amplitude 0.5 over lows at 0.05 -/
def exBuf2 : List Rat :=
  List.replicate 200 (1 / 20) ++
    exFrames.flatMap fun f => modulate (1 / 2) (fun _ => 1 / 20) (hex2binM f.1) ++ f.2

/-- non-vacuity of `clean_frames_recovered_c19` (hence of `clean_frames_recovered` and
    `processBuffer_signal`) -/
example : ∃ c, calcNoise exBuf2.toArray = .val c ∧
    processBuffer 0 exBuf2.toArray =
      .val (["8D406B902015A678D4D220AA4BDA".toList, "5D484FDEA248F5".toList], min c 0, 0) :=
  clean_frames_recovered_c19 0 (1 / 2) (fun _ => 1 / 20) (List.replicate 200 (1 / 20)) exFrames
    (by norm_num) (fun _ => by norm_num)
    (fun x hx => by rw [List.eq_of_mem_replicate hx]; norm_num)
    (by rw [List.length_replicate])
    (by
      intro f hf
      simp only [exFrames, List.mem_cons, List.not_mem_nil, or_false] at hf
      rcases hf with rfl | rfl
      · refine ⟨by decide, by decide +kernel, by rw [List.length_replicate]; omega, fun x hx => ?_⟩
        rw [List.eq_of_mem_replicate hx]; norm_num
      · refine ⟨by decide, by decide +kernel, by rw [List.length_replicate]; omega, fun x hx => ?_⟩
        rw [List.eq_of_mem_replicate hx]; norm_num)

end PyModeS.Demod
