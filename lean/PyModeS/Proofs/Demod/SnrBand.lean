/-
  C19, the open 10–14 dB band, machine-checked on one buffer: the property's literal hypothesis
  ("pulse amplitude between 0.3 and 1.4, at least 10 dB above the noise floor") is NOT enough for
  `_process_buffer`.  Same frame and layout as `CleanEval.exBuf`, but every non-pulse sample is
  0.15 = 0.3 × amplitude (10.46 dB below the pulses, so `3.162 × noise ≤ amplitude` holds): the
  bit slicer's threshold is `0.2 × 0.5 = 0.1`, the trailing noise pairs are not "both below the
  threshold", the slicer reads a 113th bit, and the 29-digit result fails `_check_msg`.
  Nothing is returned.  (Kernel evaluation, ≈ 50 s, hence its own module.)
-/
import PyModeS.Proofs.Demod.Clean
namespace PyModeS.Demod
open PyModeS

/-- 200 samples at 0.15, the DF17 frame 8D406B902015A678D4D220AA4BDA at amplitude 0.5 with lows at
    0.15, 10 samples at 0.15 -/
def noisyBuf : List Rat :=
  List.replicate 200 (3 / 20) ++
    modulate (1 / 2) (fun _ => 3 / 20) (hex2binM "8D406B902015A678D4D220AA4BDA".toList) ++
    List.replicate 10 (3 / 20)

/-- the buffer satisfies the property's wording: amplitude in [0.3, 1.4]; every non-pulse sample
    (0.15) at least 10 dB below the pulse amplitude (factor 3.162 in amplitude); the frame is valid -/
theorem noisyBuf_meets_10dB :
    (3 / 10 : Rat) ≤ 1 / 2 ∧ (1 / 2 : Rat) ≤ 14 / 10 ∧ (3162 / 1000 : Rat) * (3 / 20) ≤ 1 / 2 ∧
    checkMsg "8D406B902015A678D4D220AA4BDA".toList = true ∧
    ¬ ((3 / 20 : Rat) < (1 / 2) / 5) := by decide +kernel

/-- … yet the frame is lost: no message is returned -/
theorem noisyBuf_lost : processBuffer 1000000 noisyBuf.toArray = .val ([], 3 / 20, 0) := by
  decide +kernel

end PyModeS.Demod
