/-
  C04 core: structure of the DO-260B encoder's output and the local (reference) CPR decode.
  DESIGN.md 11.2.
-/
import PyModeS.Proofs.CPR.Floor

namespace PyModeS.CPR
open Spec

/-! ### what the encoder produces -/

/-- the carried latitude is `dlat · (K + YZ/2^17)` for an integer zone index `K` (which includes
    the carry of the `yzFull = 2^17` wrap) and the *transmitted* field `YZ` -/
theorem enc_lat (nl : ℚ → ℕ) (base : ℚ) (i : ℕ) (lat lon : ℚ) :
    ∃ K : ℤ, (cprEncode nl base i lat lon).rlat =
      (cprEncode nl base i lat lon).dlat * ((K : ℚ) + ((cprEncode nl base i lat lon).yz : ℚ) / 131072) := by
  simp only [cprEncode]
  generalize (lat / (base / (60 - (i:ℚ)))).floor = k
  generalize (Spec.two17 * (lat / (base / (60 - (i:ℚ))) - (k:ℚ)) + 1 / 2).floor = Y
  refine ⟨k + Y / 131072, ?_⟩
  rw [field_frac, Spec.two17]; push_cast; ring

theorem enc_dlat (nl : ℚ → ℕ) (base : ℚ) (i : ℕ) (lat lon : ℚ) :
    (cprEncode nl base i lat lon).dlat = base / (60 - (i : ℚ)) := rfl

theorem enc_dlon (nl : ℚ → ℕ) (base : ℚ) (i : ℕ) (lat lon : ℚ) :
    (cprEncode nl base i lat lon).dlon =
      base / ((max (nl (cprEncode nl base i lat lon).rlat - i) 1 : ℕ) : ℚ) := rfl

theorem enc_lon (nl : ℚ → ℕ) (base : ℚ) (i : ℕ) (lat lon : ℚ) :
    ∃ M : ℤ, (cprEncode nl base i lat lon).rlon =
      (cprEncode nl base i lat lon).dlon * ((M : ℚ) + ((cprEncode nl base i lat lon).xz : ℚ) / 131072) := by
  simp only [cprEncode]
  generalize (base / ((max (nl _ - i) 1 : ℕ) : ℚ)) = d
  generalize (lon / d).floor = k
  generalize (Spec.two17 * (lon / d - (k:ℚ)) + 1 / 2).floor = Y
  refine ⟨k + Y / 131072, ?_⟩
  rw [field_frac, Spec.two17]; push_cast; ring

theorem enc_yz_range (nl : ℚ → ℕ) (base : ℚ) (i : ℕ) (lat lon : ℚ) :
    0 ≤ ((cprEncode nl base i lat lon).yz : ℚ) / 131072 ∧
      ((cprEncode nl base i lat lon).yz : ℚ) / 131072 < 1 := field_frac_range _

theorem enc_xz_range (nl : ℚ → ℕ) (base : ℚ) (i : ℕ) (lat lon : ℚ) :
    0 ≤ ((cprEncode nl base i lat lon).xz : ℚ) / 131072 ∧
      ((cprEncode nl base i lat lon).xz : ℚ) / 131072 < 1 := field_frac_range _

theorem enc_yz_lt (nl : ℚ → ℕ) (base : ℚ) (i : ℕ) (lat lon : ℚ) :
    (cprEncode nl base i lat lon).yz < 131072 := by
  have h := (enc_yz_range nl base i lat lon).2
  rw [div_lt_one (by norm_num)] at h
  exact_mod_cast h

theorem enc_xz_lt (nl : ℚ → ℕ) (base : ℚ) (i : ℕ) (lat lon : ℚ) :
    (cprEncode nl base i lat lon).xz < 131072 := by
  have h := (enc_xz_range nl base i lat lon).2
  rw [div_lt_one (by norm_num)] at h
  exact_mod_cast h

theorem enc_dlat_pos (nl : ℚ → ℕ) (base : ℚ) (hb : 0 < base) (i : ℕ) (hi : i = 0 ∨ i = 1)
    (lat lon : ℚ) : 0 < (cprEncode nl base i lat lon).dlat := by
  rw [enc_dlat]
  rcases hi with rfl | rfl
  · apply div_pos hb; norm_num
  · apply div_pos hb; norm_num

theorem enc_dlon_pos (nl : ℚ → ℕ) (base : ℚ) (hb : 0 < base) (i : ℕ) (lat lon : ℚ) :
    0 < (cprEncode nl base i lat lon).dlon := by
  rw [enc_dlon]
  apply div_pos hb
  have : 1 ≤ max (nl (cprEncode nl base i lat lon).rlat - i) 1 := le_max_right _ _
  exact_mod_cast this

/-- the decoder's `ni > 0 ? base/ni : base` is the encoder's `base / max (n - i) 1` -/
theorem dlon_eq (n i : ℕ) (base : ℚ) :
    (if ((n : ℤ) - (i : ℤ)) > 0 then base / (((n : ℤ) - (i : ℤ) : ℤ) : ℚ) else base) =
      base / ((max (n - i) 1 : ℕ) : ℚ) := by
  by_cases h : i < n
  · have h1 : ((n : ℤ) - (i : ℤ)) > 0 := by omega
    have h2 : max (n - i) 1 = n - i := by omega
    rw [if_pos h1, h2, Nat.cast_sub h.le]
    push_cast; rfl
  · have h1 : ¬ ((n : ℤ) - (i : ℤ)) > 0 := by omega
    have h2 : max (n - i) 1 = 1 := by omega
    rw [if_neg h1, h2]; simp

/-! ### the local decoder -/

theorem pwr_lat (nl : ℚ → ℕ) (base : ℚ) (f : CprFrame) (latRef lonRef : ℚ) :
    (positionWithRefCore nl base f latRef lonRef).1 =
      (if f.oe then base / 59 else base / 60) *
        ((⌊1 / 2 + latRef / (if f.oe then base / 59 else base / 60) - (f.lat : ℚ) / 131072⌋ : ℚ)
          + (f.lat : ℚ) / 131072) := rfl

theorem pwr_lon (nl : ℚ → ℕ) (base : ℚ) (f : CprFrame) (latRef lonRef : ℚ) :
    (positionWithRefCore nl base f latRef lonRef).2 =
      (base / ((max (nl (positionWithRefCore nl base f latRef lonRef).1 - (if f.oe then 1 else 0)) 1 : ℕ) : ℚ)) *
        ((⌊1 / 2 + lonRef /
            (base / ((max (nl (positionWithRefCore nl base f latRef lonRef).1 - (if f.oe then 1 else 0)) 1 : ℕ) : ℚ))
              - (f.lon : ℚ) / 131072⌋ : ℚ)
          + (f.lon : ℚ) / 131072) := by
  rw [← dlon_eq]
  rfl

/-- the frame of an encoder output -/
def frameOf (i : ℕ) (e : Enc) : CprFrame := ⟨decide (i = 1), e.yz, e.xz⟩

theorem ref_lat (nl : ℚ → ℕ) (base : ℚ) (hb : 0 < base) (i : ℕ) (hi : i = 0 ∨ i = 1)
    (lat lon latRef lonRef : ℚ)
    (h : |latRef - (cprEncode nl base i lat lon).rlat| < (cprEncode nl base i lat lon).dlat / 2) :
    (positionWithRefCore nl base (frameOf i (cprEncode nl base i lat lon)) latRef lonRef).1
      = (cprEncode nl base i lat lon).rlat := by
  obtain ⟨K, hK⟩ := enc_lat nl base i lat lon
  have hd := enc_dlat_pos nl base hb i hi lat lon
  have hdl : (if (frameOf i (cprEncode nl base i lat lon)).oe then base / 59 else base / 60)
      = (cprEncode nl base i lat lon).dlat := by
    rw [enc_dlat]
    rcases hi with rfl | rfl <;> (simp [frameOf]; try norm_num)
  rw [pwr_lat, hdl]
  rw [hK] at h
  have hfl := local_floor _ hd K _ latRef h
  show _ * ((⌊1 / 2 + latRef / _ - ((cprEncode nl base i lat lon).yz : ℚ) / 131072⌋ : ℚ) + _) = _
  rw [hfl, hK]
  rfl

theorem ref_lon (nl : ℚ → ℕ) (base : ℚ) (hb : 0 < base) (i : ℕ) (hi : i = 0 ∨ i = 1)
    (lat lon latRef lonRef : ℚ) (s : ℤ)
    (h : |latRef - (cprEncode nl base i lat lon).rlat| < (cprEncode nl base i lat lon).dlat / 2)
    (hl : |lonRef - ((cprEncode nl base i lat lon).rlon + (cprEncode nl base i lat lon).dlon * s)|
        < (cprEncode nl base i lat lon).dlon / 2) :
    (positionWithRefCore nl base (frameOf i (cprEncode nl base i lat lon)) latRef lonRef).2
      = (cprEncode nl base i lat lon).rlon + (cprEncode nl base i lat lon).dlon * s := by
  have hlat := ref_lat nl base hb i hi lat lon latRef lonRef h
  obtain ⟨M, hM⟩ := enc_lon nl base i lat lon
  have hd := enc_dlon_pos nl base hb i lat lon
  have hi' : (if (frameOf i (cprEncode nl base i lat lon)).oe then 1 else 0) = i := by
    rcases hi with rfl | rfl <;> simp [frameOf]
  rw [pwr_lon, hlat, hi', ← enc_dlon]
  have h2 : |lonRef - (cprEncode nl base i lat lon).dlon *
      (((M + s : ℤ) : ℚ) + ((cprEncode nl base i lat lon).xz : ℚ) / 131072)|
        < (cprEncode nl base i lat lon).dlon / 2 := by
    have e : (cprEncode nl base i lat lon).dlon *
        (((M + s : ℤ) : ℚ) + ((cprEncode nl base i lat lon).xz : ℚ) / 131072)
        = (cprEncode nl base i lat lon).rlon + (cprEncode nl base i lat lon).dlon * s := by
      rw [hM]; push_cast; ring
    rw [e]; exact hl
  have hfl := local_floor _ hd (M + s) _ lonRef h2
  show _ * ((⌊1 / 2 + lonRef / _ - ((cprEncode nl base i lat lon).xz : ℚ) / 131072⌋ : ℚ) + _) = _
  rw [hfl, hM]
  show _ * (((M + s : ℤ) : ℚ) + ((cprEncode nl base i lat lon).xz : ℚ) / 131072) = _
  push_cast; ring

/-! ### range of the carried latitude -/

/-- the carried latitude is the input latitude rounded to the nearest multiple of `dlat/2^17`
    (ties upwards) -/
theorem enc_rlat_round (nl : ℚ → ℕ) (B : ℚ) (i : ℕ) (lat lon : ℚ) :
    (cprEncode nl B i lat lon).rlat =
      (cprEncode nl B i lat lon).dlat / 131072 *
        ((⌊131072 * (lat / (cprEncode nl B i lat lon).dlat) + 1 / 2⌋ : ℤ) : ℚ) := by
  simp only [cprEncode, Spec.two17, ratFloor_eq]
  generalize (B / (60 - (i:ℚ))) = d
  have : (131072 : ℚ) * (lat / d - (⌊lat / d⌋ : ℚ)) + 1 / 2
      = (131072 * (lat / d) + 1 / 2) + ((-(131072 * ⌊lat / d⌋) : ℤ) : ℚ) := by push_cast; ring
  rw [this, Int.floor_add_intCast]
  push_cast; ring

theorem enc_rlat_bounds (nl : ℚ → ℕ) (i : ℕ) (hi : i = 0 ∨ i = 1) (lat lon : ℚ)
    (h : -90 ≤ lat ∧ lat ≤ 90) :
    -90 ≤ (cprEncode nl 360 i lat lon).rlat ∧ (cprEncode nl 360 i lat lon).rlat ≤ 90 := by
  rw [enc_rlat_round, enc_dlat]
  rcases hi with rfl | rfl
  · have hd : (360 : ℚ) / (60 - ((0 : ℕ) : ℚ)) = 6 := by norm_num
    rw [hd]
    have h1 : ⌊(131072 : ℚ) * (lat / 6) + 1 / 2⌋ < 1966080 + 1 := by
      rw [Int.floor_lt]; push_cast; linarith [h.2]
    have h2 : -1966080 ≤ ⌊(131072 : ℚ) * (lat / 6) + 1 / 2⌋ := by
      rw [Int.le_floor]; push_cast; linarith [h.1]
    generalize ⌊(131072 : ℚ) * (lat / 6) + 1 / 2⌋ = F at h1 h2 ⊢
    have h1' : (F : ℚ) ≤ 1966080 := by exact_mod_cast (by omega : F ≤ 1966080)
    have h2' : (-1966080 : ℚ) ≤ (F : ℚ) := by exact_mod_cast h2
    constructor <;> linarith
  · have hd : (360 : ℚ) / (60 - ((1 : ℕ) : ℚ)) = 360 / 59 := by norm_num
    rw [hd]
    have h1 : ⌊(131072 : ℚ) * (lat / (360 / 59)) + 1 / 2⌋ < 1933312 + 1 := by
      rw [Int.floor_lt]; push_cast; linarith [h.2]
    have h2 : -1933312 ≤ ⌊(131072 : ℚ) * (lat / (360 / 59)) + 1 / 2⌋ := by
      rw [Int.le_floor]; push_cast; linarith [h.1]
    generalize ⌊(131072 : ℚ) * (lat / (360 / 59)) + 1 / 2⌋ = F at h1 h2 ⊢
    have h1' : (F : ℚ) ≤ 1933312 := by exact_mod_cast (by omega : F ≤ 1933312)
    have h2' : (-1933312 : ℚ) ≤ (F : ℚ) := by exact_mod_cast h2
    constructor <;> linarith

end PyModeS.CPR
