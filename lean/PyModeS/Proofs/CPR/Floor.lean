/-
  Floor / field lemmas shared by the CPR decode proofs (C03, C04, C05).
  `pfloor` is Mathlib's `⌊·⌋` on ℚ, `rabs` is `|·|`.
-/
import Mathlib.Data.Rat.Floor
import Mathlib.Tactic.Linarith
import Mathlib.Tactic.FieldSimp
import Mathlib.Tactic.Ring
import Mathlib.Tactic.Positivity
import Mathlib.Tactic.NormNum
import PyModeS.Model.CPR
import PyModeS.Spec.CPR

namespace PyModeS.CPR

theorem pfloor_eq (x : ℚ) : pfloor x = ⌊x⌋ := rfl

theorem ratFloor_eq (x : ℚ) : x.floor = ⌊x⌋ := rfl

theorem rabs_eq_abs (x : ℚ) : rabs x = |x| := by
  unfold rabs
  split_ifs with h
  · exact (abs_of_neg h).symm
  · exact (abs_of_nonneg (not_lt.mp h)).symm

/-- the transmitted 17-bit field `Y % 2^17` as a fraction: `Y/2^17` minus the carry `Y / 2^17` -/
theorem field_frac (Y : ℤ) :
    (((Y % 131072).toNat : ℕ) : ℚ) / 131072 = (Y : ℚ) / 131072 - ((Y / 131072 : ℤ) : ℚ) := by
  have h0 : 0 ≤ Y % 131072 := Int.emod_nonneg _ (by norm_num)
  have h1 : (((Y % 131072).toNat : ℕ) : ℤ) = Y % 131072 := Int.toNat_of_nonneg h0
  have h2 : (((Y % 131072).toNat : ℕ) : ℚ) = ((Y % 131072 : ℤ) : ℚ) := by
    exact_mod_cast h1
  have h3 : Y % 131072 = Y - 131072 * (Y / 131072) := by
    have := Int.emod_add_mul_ediv Y 131072
    linarith
  rw [h2, h3]
  push_cast
  field_simp

/-- the transmitted field as a fraction lies in `[0, 1)` -/
theorem field_frac_range (Y : ℤ) :
    0 ≤ (((Y % 131072).toNat : ℕ) : ℚ) / 131072 ∧ (((Y % 131072).toNat : ℕ) : ℚ) / 131072 < 1 := by
  have h0 : 0 ≤ Y % 131072 := Int.emod_nonneg _ (by norm_num)
  have hlt : Y % 131072 < 131072 := Int.emod_lt_of_pos _ (by norm_num)
  have h1 : (((Y % 131072).toNat : ℕ) : ℤ) = Y % 131072 := Int.toNat_of_nonneg h0
  have h2 : (((Y % 131072).toNat : ℕ) : ℚ) = ((Y % 131072 : ℤ) : ℚ) := by
    exact_mod_cast h1
  rw [h2]
  constructor
  · apply div_nonneg
    · exact_mod_cast h0
    · norm_num
  · rw [div_lt_one (by norm_num)]
    exact_mod_cast hlt

/-- DESIGN 11.2: with zone size `d`, carried coordinate `d (K + c)` and a reference `r` within
    half a zone, the local decoder's zone index is `K`. -/
theorem local_floor (d : ℚ) (hd : 0 < d) (K : ℤ) (c r : ℚ)
    (h : |r - d * ((K : ℚ) + c)| < d / 2) : ⌊1 / 2 + r / d - c⌋ = K := by
  rw [abs_lt] at h
  obtain ⟨hl, hr⟩ := h
  rw [Int.floor_eq_iff]
  have e : r / d = (r - d * ((K : ℚ) + c)) / d + ((K : ℚ) + c) := by
    field_simp; ring
  have b1 : -(1 / 2 : ℚ) < (r - d * ((K : ℚ) + c)) / d := by
    rw [lt_div_iff₀ hd]; linarith
  have b2 : (r - d * ((K : ℚ) + c)) / d < 1 / 2 := by
    rw [div_lt_iff₀ hd]; linarith
  constructor <;> linarith

/-- DESIGN 11.1: `⌊a·c0 − (a+1)·c1 + 1/2⌋` when the two fractions come from close coordinates. -/
theorem global_floor (J : ℤ) (δ : ℚ) (x : ℚ) (hx : x = δ + J) (h : |δ| < 1 / 2) :
    ⌊x + 1 / 2⌋ = J := by
  rw [abs_lt] at h
  rw [Int.floor_eq_iff, hx]
  constructor <;> linarith [h.1, h.2]

end PyModeS.CPR
