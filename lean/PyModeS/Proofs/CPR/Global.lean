/-
  C03 / C05 core: the global (two-frame) CPR decode.  DESIGN.md 11.1.
  Generic in the base `B` (360 airborne, 90 surface); the airborne instance is at the end.
-/
import PyModeS.Proofs.CPR.Local

namespace PyModeS.CPR
open Spec

/-! ### pure arithmetic -/

/-- latitude zone index difference: `j = 60·K1 − 59·K0` when the carried latitudes are closer
    than `B/7080` -/
theorem gJ_eq (B : ℚ) (hB : 0 < B) (K0 K1 : ℤ) (c0 c1 : ℚ)
    (h : |B / 60 * ((K0 : ℚ) + c0) - B / 59 * ((K1 : ℚ) + c1)| < B / 7080) :
    ⌊59 * c0 - 60 * c1 + 1 / 2⌋ = 60 * K1 - 59 * K0 := by
  apply global_floor (60 * K1 - 59 * K0)
    (3540 * (B / 60 * ((K0 : ℚ) + c0) - B / 59 * ((K1 : ℚ) + c1)) / B)
  · push_cast; field_simp; ring
  · rw [abs_lt] at h ⊢
    constructor
    · rw [lt_div_iff₀ hB]; linarith [h.1]
    · rw [div_lt_iff₀ hB]; linarith [h.2]

theorem gJ_mod60 (K0 K1 : ℤ) : (60 * K1 - 59 * K0) % 60 = K0 % 60 := by omega
theorem gJ_mod59 (K0 K1 : ℤ) : (60 * K1 - 59 * K0) % 59 = K1 % 59 := by omega

/-- reducing the zone index modulo the number `q` of zones shifts the coordinate by a multiple
    of the base `B = q·d` -/
theorem zone_mod (d B : ℚ) (q : ℤ) (hq : d * (q : ℚ) = B) (K : ℤ) (c : ℚ) :
    d * (((K % q : ℤ) : ℚ) + c) = d * ((K : ℚ) + c) - B * ((K / q : ℤ) : ℚ) := by
  rw [Int.emod_def]; push_cast; rw [← hq]; ring

/-- longitude zone index difference: `m = n·M1 − (n−1)·M0 + n(n−1)s` when the carried longitudes
    are closer than `B/(2n(n−1))` modulo `B` -/
theorem gM_eq (B : ℚ) (hB : 0 < B) (n : ℕ) (hn : 2 ≤ n) (M0 M1 s : ℤ) (c0 c1 : ℚ)
    (h : |B / (n : ℚ) * ((M0 : ℚ) + c0) - B / ((n : ℚ) - 1) * ((M1 : ℚ) + c1) - B * s|
        < B / 2 / ((n : ℚ) * ((n : ℚ) - 1))) :
    ⌊c0 * ((n : ℚ) - 1) - c1 * n + 1 / 2⌋ = n * M1 - (n - 1) * M0 + n * (n - 1) * s := by
  have hn2 : (2 : ℚ) ≤ n := by exact_mod_cast hn
  have hn0 : (0 : ℚ) < n := by linarith
  have hn1 : (0 : ℚ) < (n : ℚ) - 1 := by linarith
  have hnn : (0 : ℚ) < (n : ℚ) * ((n : ℚ) - 1) := mul_pos hn0 hn1
  apply global_floor (n * M1 - (n - 1) * M0 + n * (n - 1) * s)
    ((n : ℚ) * ((n : ℚ) - 1) *
      (B / (n : ℚ) * ((M0 : ℚ) + c0) - B / ((n : ℚ) - 1) * ((M1 : ℚ) + c1) - B * s) / B)
  · push_cast; field_simp; ring
  · rw [abs_lt] at h ⊢
    obtain ⟨hl, hr⟩ := h
    rw [lt_div_iff₀ hnn] at hr
    have hl' : -(B / 2) < (B / (n : ℚ) * ((M0 : ℚ) + c0) - B / ((n : ℚ) - 1) * ((M1 : ℚ) + c1) - B * s)
        * ((n : ℚ) * ((n : ℚ) - 1)) := by
      have := (div_lt_iff₀ hnn).mp (show -(B / 2) / ((n : ℚ) * ((n : ℚ) - 1)) < _ by
        rw [neg_div]; exact hl)
      exact this
    constructor
    · rw [lt_div_iff₀ hB]; linarith
    · rw [div_lt_iff₀ hB]; linarith

theorem gM_mod_n (n : ℕ) (M0 M1 s : ℤ) :
    ((n : ℤ) * M1 - ((n : ℤ) - 1) * M0 + (n : ℤ) * ((n : ℤ) - 1) * s) % (n : ℤ) = M0 % (n : ℤ) := by
  have : (n : ℤ) * M1 - ((n : ℤ) - 1) * M0 + (n : ℤ) * ((n : ℤ) - 1) * s
      = M0 + (n : ℤ) * (M1 - M0 + ((n : ℤ) - 1) * s) := by ring
  rw [this, Int.add_mul_emod_self_left]

theorem gM_mod_n1 (n : ℕ) (M0 M1 s : ℤ) :
    ((n : ℤ) * M1 - ((n : ℤ) - 1) * M0 + (n : ℤ) * ((n : ℤ) - 1) * s) % ((n : ℤ) - 1)
      = M1 % ((n : ℤ) - 1) := by
  have : (n : ℤ) * M1 - ((n : ℤ) - 1) * M0 + (n : ℤ) * ((n : ℤ) - 1) * s
      = M1 + ((n : ℤ) - 1) * (M1 - M0 + (n : ℤ) * s) := by ring
  rw [this, Int.add_mul_emod_self_left]

end PyModeS.CPR

namespace PyModeS.CPR
open Spec

/-! ### the intermediate values of the global decoders -/

def gJ (y0 y1 : ℕ) : ℤ := ⌊59 * ((y0 : ℚ) / 131072) - 60 * ((y1 : ℚ) / 131072) + 1 / 2⌋
def latEvenRaw (B : ℚ) (y0 y1 : ℕ) : ℚ := B / 60 * (((gJ y0 y1 % 60 : ℤ) : ℚ) + (y0 : ℚ) / 131072)
def latOddRaw (B : ℚ) (y0 y1 : ℕ) : ℚ := B / 59 * (((gJ y0 y1 % 59 : ℤ) : ℚ) + (y1 : ℚ) / 131072)
/-- bds05: `if lat >= 270: lat -= 360` -/
def wrap270 (x : ℚ) : ℚ := if x ≥ 270 then x - 360 else x
/-- bds05: `if lon > 180: lon -= 360` -/
def wrap180 (x : ℚ) : ℚ := if x > 180 then x - 360 else x
def gM (n : ℕ) (x0 x1 : ℕ) : ℤ :=
  ⌊(x0 : ℚ) / 131072 * ((n : ℚ) - 1) - (x1 : ℚ) / 131072 * n + 1 / 2⌋
/-- raw longitude with `ni = max (n - i) 1` zones, from the fraction of field `xs` -/
def lonRaw (B : ℚ) (n i : ℕ) (x0 x1 xs : ℕ) : ℚ :=
  B / ((max (n - i) 1 : ℕ) : ℚ) *
    (((gM n x0 x1 % ((max (n - i) 1 : ℕ) : ℤ) : ℤ) : ℚ) + (xs : ℚ) / 131072)

/-- the decoder's even / odd latitude (after the `≥ 270` wrap) -/
def latEven (f0 f1 : CprFrame) : ℚ := wrap270 (latEvenRaw 360 f0.lat f1.lat)
def latOdd (f0 f1 : CprFrame) : ℚ := wrap270 (latOddRaw 360 f0.lat f1.lat)

/-- `airbornePositionCore` in terms of its intermediate values -/
theorem airborne_eq (nl : ℚ → ℕ) (f0 f1 : CprFrame) (t0 t1 : ℚ)
    (h0 : f0.oe = false) (h1 : f1.oe = true) :
    airbornePositionCore nl f0 f1 t0 t1 =
      if nl (latEven f0 f1) ≠ nl (latOdd f0 f1) then .val none
      else .val (some (
        if t0 > t1 then
          (latEven f0 f1, wrap180 (lonRaw 360 (nl (latEven f0 f1)) 0 f0.lon f1.lon f0.lon))
        else
          (latOdd f0 f1, wrap180 (lonRaw 360 (nl (latOdd f0 f1)) 1 f0.lon f1.lon f1.lon)))) := by
  unfold airbornePositionCore
  simp only [h0, h1, and_self, if_true]
  by_cases ht : t0 > t1
  · simp only [ht, if_true]; rfl
  · simp only [ht, if_false]; rfl

/-! ### latitude -/

theorem enc_lat0 (nl : ℚ → ℕ) (B lat lon : ℚ) :
    ∃ K : ℤ, (cprEncode nl B 0 lat lon).rlat
      = B / 60 * ((K : ℚ) + ((cprEncode nl B 0 lat lon).yz : ℚ) / 131072) := by
  obtain ⟨K, hK⟩ := enc_lat nl B 0 lat lon
  refine ⟨K, ?_⟩
  rw [hK, enc_dlat]; norm_num

theorem enc_lat1 (nl : ℚ → ℕ) (B lat lon : ℚ) :
    ∃ K : ℤ, (cprEncode nl B 1 lat lon).rlat
      = B / 59 * ((K : ℚ) + ((cprEncode nl B 1 lat lon).yz : ℚ) / 131072) := by
  obtain ⟨K, hK⟩ := enc_lat nl B 1 lat lon
  refine ⟨K, ?_⟩
  rw [hK, enc_dlat]; norm_num

/-- DESIGN 11.1 (latitude): the raw candidates are the carried latitudes shifted by whole
    multiples of the base -/
theorem glat_raw (nl : ℚ → ℕ) (B : ℚ) (hB : 0 < B) (lat0 lon0 lat1 lon1 : ℚ)
    (h : |(cprEncode nl B 0 lat0 lon0).rlat - (cprEncode nl B 1 lat1 lon1).rlat| < B / 7080) :
    ∃ K0 K1 : ℤ,
      (cprEncode nl B 0 lat0 lon0).rlat
        = B / 60 * ((K0 : ℚ) + ((cprEncode nl B 0 lat0 lon0).yz : ℚ) / 131072) ∧
      (cprEncode nl B 1 lat1 lon1).rlat
        = B / 59 * ((K1 : ℚ) + ((cprEncode nl B 1 lat1 lon1).yz : ℚ) / 131072) ∧
      latEvenRaw B (cprEncode nl B 0 lat0 lon0).yz (cprEncode nl B 1 lat1 lon1).yz
        = (cprEncode nl B 0 lat0 lon0).rlat - B * ((K0 / 60 : ℤ) : ℚ) ∧
      latOddRaw B (cprEncode nl B 0 lat0 lon0).yz (cprEncode nl B 1 lat1 lon1).yz
        = (cprEncode nl B 1 lat1 lon1).rlat - B * ((K1 / 59 : ℤ) : ℚ) := by
  obtain ⟨K0, h0⟩ := enc_lat0 nl B lat0 lon0
  obtain ⟨K1, h1⟩ := enc_lat1 nl B lat1 lon1
  have hJ : gJ (cprEncode nl B 0 lat0 lon0).yz (cprEncode nl B 1 lat1 lon1).yz = 60 * K1 - 59 * K0 :=
    gJ_eq B hB K0 K1 _ _ (by rw [← h0, ← h1]; exact h)
  refine ⟨K0, K1, h0, h1, ?_, ?_⟩
  · unfold latEvenRaw
    rw [hJ, gJ_mod60, zone_mod (B / 60) B 60 (by push_cast; ring) K0, ← h0]
  · unfold latOddRaw
    rw [hJ, gJ_mod59, zone_mod (B / 59) B 59 (by push_cast; ring) K1, ← h1]

theorem wrap270_id (x : ℚ) (h : x < 270) : wrap270 x = x := by
  unfold wrap270; rw [if_neg (not_le.mpr h)]

theorem wrap270_shift (x : ℚ) (h : -90 ≤ x) : wrap270 (x + 360) = x := by
  unfold wrap270; rw [if_pos (by linarith)]; ring

/-- **global_lat** (airborne): the decoder's `lat_even`, `lat_odd` are the carried latitudes -/
theorem glat_airborne (nl : ℚ → ℕ) (lat0 lon0 lat1 lon1 : ℚ)
    (hr0 : -90 ≤ (cprEncode nl 360 0 lat0 lon0).rlat ∧ (cprEncode nl 360 0 lat0 lon0).rlat ≤ 90)
    (hr1 : -90 ≤ (cprEncode nl 360 1 lat1 lon1).rlat ∧ (cprEncode nl 360 1 lat1 lon1).rlat ≤ 90)
    (h : |(cprEncode nl 360 0 lat0 lon0).rlat - (cprEncode nl 360 1 lat1 lon1).rlat| < 3 / 59) :
    wrap270 (latEvenRaw 360 (cprEncode nl 360 0 lat0 lon0).yz (cprEncode nl 360 1 lat1 lon1).yz)
      = (cprEncode nl 360 0 lat0 lon0).rlat ∧
    wrap270 (latOddRaw 360 (cprEncode nl 360 0 lat0 lon0).yz (cprEncode nl 360 1 lat1 lon1).yz)
      = (cprEncode nl 360 1 lat1 lon1).rlat := by
  obtain ⟨K0, K1, h0, h1, he, ho⟩ := glat_raw nl 360 (by norm_num) lat0 lon0 lat1 lon1
    (by norm_num at h ⊢; exact h)
  obtain ⟨c0l, c0u⟩ := enc_yz_range nl 360 0 lat0 lon0
  obtain ⟨c1l, c1u⟩ := enc_yz_range nl 360 1 lat1 lon1
  rw [he, ho]
  constructor
  · have hlo : (-16 : ℚ) < (K0 : ℚ) := by rw [h0] at hr0; linarith [hr0.1]
    have hhi : (K0 : ℚ) ≤ 15 := by rw [h0] at hr0; linarith [hr0.2]
    have hlo' : -16 < K0 := by exact_mod_cast hlo
    have hhi' : K0 ≤ 15 := by exact_mod_cast hhi
    by_cases hk : 0 ≤ K0
    · have : K0 / 60 = 0 := by omega
      rw [this]; push_cast; rw [mul_zero, sub_zero]
      exact wrap270_id _ (by linarith [hr0.2])
    · have : K0 / 60 = -1 := by omega
      rw [this]; push_cast
      have e : (cprEncode nl 360 0 lat0 lon0).rlat - 360 * (-1 : ℚ)
          = (cprEncode nl 360 0 lat0 lon0).rlat + 360 := by ring
      rw [e]; exact wrap270_shift _ hr0.1
  · have hlo : (-16 : ℚ) < (K1 : ℚ) := by rw [h1] at hr1; linarith [hr1.1]
    have hhi : (K1 : ℚ) ≤ 15 := by rw [h1] at hr1; linarith [hr1.2]
    have hlo' : -16 < K1 := by exact_mod_cast hlo
    have hhi' : K1 ≤ 15 := by exact_mod_cast hhi
    by_cases hk : 0 ≤ K1
    · have : K1 / 59 = 0 := by omega
      rw [this]; push_cast; rw [mul_zero, sub_zero]
      exact wrap270_id _ (by linarith [hr1.2])
    · have : K1 / 59 = -1 := by omega
      rw [this]; push_cast
      have e : (cprEncode nl 360 1 lat1 lon1).rlat - 360 * (-1 : ℚ)
          = (cprEncode nl 360 1 lat1 lon1).rlat + 360 := by ring
      rw [e]; exact wrap270_shift _ hr1.1

end PyModeS.CPR

namespace PyModeS.CPR
open Spec

/-! ### longitude -/

theorem lonRaw_of_mod (B : ℚ) (n i x0 x1 xs : ℕ) (M : ℤ)
    (hmod : gM n x0 x1 % ((max (n - i) 1 : ℕ) : ℤ) = M % ((max (n - i) 1 : ℕ) : ℤ)) :
    lonRaw B n i x0 x1 xs =
      B / ((max (n - i) 1 : ℕ) : ℚ) * ((M : ℚ) + (xs : ℚ) / 131072)
        - B * ((M / ((max (n - i) 1 : ℕ) : ℤ) : ℤ) : ℚ) := by
  unfold lonRaw
  have h1 : (1 : ℚ) ≤ ((max (n - i) 1 : ℕ) : ℚ) := by exact_mod_cast le_max_right _ _
  rw [hmod, zone_mod (B / ((max (n - i) 1 : ℕ) : ℚ)) B _ _ M]
  rw [Int.cast_natCast]
  field_simp

theorem lonRaw_range (B : ℚ) (hB : 0 < B) (n i x0 x1 xs : ℕ)
    (hx : 0 ≤ (xs : ℚ) / 131072 ∧ (xs : ℚ) / 131072 < 1) :
    0 ≤ lonRaw B n i x0 x1 xs ∧ lonRaw B n i x0 x1 xs < B := by
  unfold lonRaw
  have h1 : (1 : ℤ) ≤ ((max (n - i) 1 : ℕ) : ℤ) := by exact_mod_cast le_max_right (n - i) 1
  have hq : (0 : ℚ) < ((max (n - i) 1 : ℕ) : ℚ) := by
    have : (1 : ℚ) ≤ ((max (n - i) 1 : ℕ) : ℚ) := by exact_mod_cast le_max_right (n - i) 1
    linarith
  have m0 : 0 ≤ gM n x0 x1 % ((max (n - i) 1 : ℕ) : ℤ) := Int.emod_nonneg _ (by omega)
  have m1 : gM n x0 x1 % ((max (n - i) 1 : ℕ) : ℤ) < ((max (n - i) 1 : ℕ) : ℤ) :=
    Int.emod_lt_of_pos _ (by omega)
  have m0' : (0 : ℚ) ≤ ((gM n x0 x1 % ((max (n - i) 1 : ℕ) : ℤ) : ℤ) : ℚ) := by exact_mod_cast m0
  have m1' : ((gM n x0 x1 % ((max (n - i) 1 : ℕ) : ℤ) : ℤ) : ℚ) + 1 ≤ ((max (n - i) 1 : ℕ) : ℚ) := by
    have : gM n x0 x1 % ((max (n - i) 1 : ℕ) : ℤ) + 1 ≤ ((max (n - i) 1 : ℕ) : ℤ) := by omega
    exact_mod_cast this
  have hd : 0 < B / ((max (n - i) 1 : ℕ) : ℚ) := div_pos hB hq
  constructor
  · apply mul_nonneg hd.le; linarith [hx.1]
  · rw [div_mul_eq_mul_div, div_lt_iff₀ hq]
    nlinarith [hx.2]

/-- the zone index `m` reduces to the encoders' zone indices modulo the respective numbers of
    zones (trivially when there is a single zone, `n ≤ 1`) -/
theorem gM_mods (B : ℚ) (hB : 0 < B) (n : ℕ) (x0 x1 : ℕ) (M0 M1 : ℤ)
    (hlon : 2 ≤ n → ∃ s : ℤ,
      |B / ((max (n - 0) 1 : ℕ) : ℚ) * ((M0 : ℚ) + (x0 : ℚ) / 131072)
        - B / ((max (n - 1) 1 : ℕ) : ℚ) * ((M1 : ℚ) + (x1 : ℚ) / 131072) - B * s|
        < B / 2 / ((n : ℚ) * ((n : ℚ) - 1))) :
    gM n x0 x1 % ((max (n - 0) 1 : ℕ) : ℤ) = M0 % ((max (n - 0) 1 : ℕ) : ℤ) ∧
    gM n x0 x1 % ((max (n - 1) 1 : ℕ) : ℤ) = M1 % ((max (n - 1) 1 : ℕ) : ℤ) := by
  by_cases hn : 2 ≤ n
  · obtain ⟨s, hs⟩ := hlon hn
    have e0 : max (n - 0) 1 = n := by omega
    have e1 : max (n - 1) 1 = n - 1 := by omega
    have c1 : ((n - 1 : ℕ) : ℤ) = (n : ℤ) - 1 := by omega
    have c1q : ((n - 1 : ℕ) : ℚ) = (n : ℚ) - 1 := by
      rw [Nat.cast_sub (by omega)]; simp
    rw [e0, e1, c1q] at hs
    have hM := gM_eq B hB n hn M0 M1 s _ _ hs
    rw [e0, e1, c1]
    unfold gM
    rw [hM]
    exact ⟨gM_mod_n n M0 M1 s, gM_mod_n1 n M0 M1 s⟩
  · have e0 : max (n - 0) 1 = 1 := by omega
    have e1 : max (n - 1) 1 = 1 := by omega
    rw [e0, e1]
    simp

/-- DESIGN 11.1 (longitude): the raw longitude of either branch is the corresponding carried
    longitude shifted by a whole multiple of the base, and lies in `[0, B)` -/
theorem glon_raw (nl : ℚ → ℕ) (B : ℚ) (hB : 0 < B) (lat0 lon0 lat1 lon1 : ℚ) (n : ℕ)
    (hn0 : nl (cprEncode nl B 0 lat0 lon0).rlat = n) (hn1 : nl (cprEncode nl B 1 lat1 lon1).rlat = n)
    (hlon : 2 ≤ n → ∃ s : ℤ,
      |(cprEncode nl B 0 lat0 lon0).rlon - (cprEncode nl B 1 lat1 lon1).rlon - B * s|
        < B / 2 / ((n : ℚ) * ((n : ℚ) - 1))) :
    (∃ z : ℤ, lonRaw B n 0 (cprEncode nl B 0 lat0 lon0).xz (cprEncode nl B 1 lat1 lon1).xz
        (cprEncode nl B 0 lat0 lon0).xz = (cprEncode nl B 0 lat0 lon0).rlon + B * z) ∧
    (∃ z : ℤ, lonRaw B n 1 (cprEncode nl B 0 lat0 lon0).xz (cprEncode nl B 1 lat1 lon1).xz
        (cprEncode nl B 1 lat1 lon1).xz = (cprEncode nl B 1 lat1 lon1).rlon + B * z) := by
  obtain ⟨M0, h0⟩ := enc_lon nl B 0 lat0 lon0
  obtain ⟨M1, h1⟩ := enc_lon nl B 1 lat1 lon1
  rw [enc_dlon, hn0] at h0
  rw [enc_dlon, hn1] at h1
  have hm := gM_mods B hB n (cprEncode nl B 0 lat0 lon0).xz (cprEncode nl B 1 lat1 lon1).xz M0 M1
    (by rw [← h0, ← h1]; exact hlon)
  constructor
  · refine ⟨-(M0 / ((max (n - 0) 1 : ℕ) : ℤ)), ?_⟩
    rw [lonRaw_of_mod B n 0 _ _ _ M0 hm.1, ← h0]; push_cast; ring
  · refine ⟨-(M1 / ((max (n - 1) 1 : ℕ) : ℤ)), ?_⟩
    rw [lonRaw_of_mod B n 1 _ _ _ M1 hm.2, ← h1]; push_cast; ring

theorem wrap180_spec (x : ℚ) (h : 0 ≤ x ∧ x < 360) :
    (∃ z : ℤ, wrap180 x = x + 360 * z) ∧ -180 < wrap180 x ∧ wrap180 x ≤ 180 := by
  unfold wrap180
  split_ifs with h1
  · exact ⟨⟨-1, by push_cast; ring⟩, by linarith, by linarith [h.2]⟩
  · exact ⟨⟨0, by push_cast; ring⟩, by linarith [h.1], not_lt.mp h1⟩

end PyModeS.CPR
