/-
  C06 core: laws of the staircase `nlStairAux` over an arbitrary table, instantiated on the
  committed table `Spec.nlTable` (table facts by kernel evaluation).
-/
import PyModeS.Proofs.CPR.Floor

namespace PyModeS.CPR

/-! ### generic laws of `nlStairAux` -/

theorem nlStairAux_bounds (x : ℚ) (N : ℕ) (hN : 2 ≤ N) :
    ∀ tbl : List (ℕ × ℕ × ℕ), (∀ r ∈ tbl, 1 ≤ r.1 ∧ r.1 ≤ N) →
      1 ≤ nlStairAux x tbl ∧ nlStairAux x tbl ≤ N
  | [], _ => by
    unfold nlStairAux; split_ifs <;> omega
  | (n, lo, hi) :: rest, h => by
    unfold nlStairAux
    split_ifs
    · exact h (n, lo, hi) (List.mem_cons_self ..)
    · exact nlStairAux_bounds x N hN rest (fun r hr => h r (List.mem_cons_of_mem _ hr))

theorem nlStairAux_le (x : ℚ) (N : ℕ) (hN : 2 ≤ N) :
    ∀ tbl : List (ℕ × ℕ × ℕ), (∀ r ∈ tbl, r.1 ≤ N) → nlStairAux x tbl ≤ N
  | [], _ => by
    unfold nlStairAux; split_ifs <;> omega
  | (n, lo, hi) :: rest, h => by
    unfold nlStairAux
    split_ifs
    · exact h (n, lo, hi) (List.mem_cons_self ..)
    · exact nlStairAux_le x N hN rest (fun r hr => h r (List.mem_cons_of_mem _ hr))

/-- zone numbers descending and at least 2 -/
def descOK : List (ℕ × ℕ × ℕ) → Bool
  | [] => true
  | (n, _, _) :: rest => decide (2 ≤ n) && rest.all (fun r => decide (r.1 ≤ n)) && descOK rest

theorem nlStairAux_antitone (x y : ℚ) (hxy : x ≤ y) :
    ∀ tbl : List (ℕ × ℕ × ℕ), descOK tbl = true → nlStairAux y tbl ≤ nlStairAux x tbl
  | [], _ => by
    unfold nlStairAux
    split_ifs with h1 h2 h2
    · exact le_refl _
    · exact absurd (le_trans hxy h1) h2
    · omega
    · exact le_refl _
  | (n, lo, hi) :: rest, h => by
    simp only [descOK, Bool.and_eq_true, decide_eq_true_eq, List.all_eq_true] at h
    obtain ⟨⟨h2, hall⟩, hrest⟩ := h
    unfold nlStairAux
    by_cases hy : y * 1000000000000 < (lo : ℚ)
    · have hx : x * 1000000000000 < (lo : ℚ) := by
        have : x * 1000000000000 ≤ y * 1000000000000 := by nlinarith
        exact lt_of_le_of_lt this hy
      rw [if_pos hy, if_pos hx]
    · rw [if_neg hy]
      by_cases hx : x * 1000000000000 < (lo : ℚ)
      · rw [if_pos hx]
        exact nlStairAux_le y n h2 rest hall
      · rw [if_neg hx]
        exact nlStairAux_antitone x y hxy rest hrest

/-- rows whose threshold is not above `x` are skipped; with `x ≤ 87` a final row `n = 2` or the
    default both give 2 -/
theorem nlStairAux_two (x : ℚ) (hx : x ≤ 87) :
    ∀ tbl : List (ℕ × ℕ × ℕ), (∀ r ∈ tbl, r.1 = 2 ∨ (r.2.1 : ℚ) ≤ x * 1000000000000) →
      nlStairAux x tbl = 2
  | [], _ => by unfold nlStairAux; rw [if_pos hx]
  | (n, lo, hi) :: rest, h => by
    unfold nlStairAux
    split_ifs with h1
    · rcases h (n, lo, hi) (List.mem_cons_self ..) with h2 | h2
      · exact h2
      · exact absurd h1 (not_lt.mpr h2)
    · exact nlStairAux_two x hx rest (fun r hr => h r (List.mem_cons_of_mem _ hr))

theorem nlStairAux_one (x : ℚ) (hx : 87 < x) :
    ∀ tbl : List (ℕ × ℕ × ℕ), (∀ r ∈ tbl, (r.2.1 : ℚ) ≤ x * 1000000000000) →
      nlStairAux x tbl = 1
  | [], _ => by unfold nlStairAux; rw [if_neg (not_le.mpr hx)]
  | (n, lo, hi) :: rest, h => by
    unfold nlStairAux
    rw [if_neg (not_lt.mpr (h (n, lo, hi) (List.mem_cons_self ..)))]
    exact nlStairAux_one x hx rest (fun r hr => h r (List.mem_cons_of_mem _ hr))

theorem nlStairAux_ge_two (x : ℚ) (hx : x ≤ 87) :
    ∀ tbl : List (ℕ × ℕ × ℕ), (∀ r ∈ tbl, 2 ≤ r.1) → 2 ≤ nlStairAux x tbl
  | [], _ => by unfold nlStairAux; rw [if_pos hx]
  | (n, lo, hi) :: rest, h => by
    unfold nlStairAux
    split_ifs
    · exact h (n, lo, hi) (List.mem_cons_self ..)
    · exact nlStairAux_ge_two x hx rest (fun r hr => h r (List.mem_cons_of_mem _ hr))

/-- between two consecutive thresholds the staircase takes the later row's value -/
theorem nlStairAux_between (x : ℚ) (n lo hi : ℕ) (hlt : x * 1000000000000 < (lo : ℚ)) :
    ∀ pre : List (ℕ × ℕ × ℕ), (∀ r ∈ pre, (r.2.1 : ℚ) ≤ x * 1000000000000) →
      ∀ post, nlStairAux x (pre ++ (n, lo, hi) :: post) = n
  | [], _, post => by
    show nlStairAux x ((n, lo, hi) :: post) = n
    unfold nlStairAux; rw [if_pos hlt]
  | (n', lo', hi') :: rest, h, post => by
    show nlStairAux x ((n', lo', hi') :: (rest ++ (n, lo, hi) :: post)) = n
    unfold nlStairAux
    rw [if_neg (not_lt.mpr (h (n', lo', hi') (List.mem_cons_self ..)))]
    exact nlStairAux_between x n lo hi hlt rest (fun r hr => h r (List.mem_cons_of_mem _ hr)) post

/-! ### facts about the committed table -/

theorem tbl_range : ∀ r ∈ Spec.nlTable, 1 ≤ r.1 ∧ r.1 ≤ 59 := by
  have h : Spec.nlTable.all (fun r => decide (1 ≤ r.1 ∧ r.1 ≤ 59)) = true := by decide +kernel
  intro r hr
  simpa using List.all_eq_true.mp h r hr

theorem tbl_ge_two : ∀ r ∈ Spec.nlTable, 2 ≤ r.1 := by
  have h : Spec.nlTable.all (fun r => decide (2 ≤ r.1)) = true := by decide +kernel
  intro r hr
  simpa using List.all_eq_true.mp h r hr

theorem tbl_desc : descOK Spec.nlTable = true := by decide +kernel

/-- every threshold is at most 87° -/
theorem tbl_lo_le_87 : ∀ r ∈ Spec.nlTable, r.2.1 ≤ 87000000000000 := by
  have h : Spec.nlTable.all (fun r => decide (r.2.1 ≤ 87000000000000)) = true := by decide +kernel
  intro r hr
  simpa using List.all_eq_true.mp h r hr

/-- every row but `n = 2` has its threshold at most θ₃ (lower end 86.535369975121°) -/
theorem tbl_lo_le_theta3 : ∀ r ∈ Spec.nlTable, r.1 = 2 ∨ r.2.1 ≤ 86535369975121 := by
  have h : Spec.nlTable.all (fun r => decide (r.1 = 2 ∨ r.2.1 ≤ 86535369975121)) = true := by
    decide +kernel
  intro r hr
  simpa using List.all_eq_true.mp h r hr

/-- the thresholds are strictly ascending -/
theorem tbl_lo_ascending :
    (List.range 57).all (fun i =>
      match Spec.nlTable[i]?, Spec.nlTable[i + 1]? with
      | some a, some b => decide (a.2.1 < b.2.1)
      | _, _ => false) = true := by decide +kernel

/-! ### the staircase on the committed table -/

theorem nlStair_range (x : ℚ) : 1 ≤ nlStair x ∧ nlStair x ≤ 59 :=
  nlStairAux_bounds x 59 (by norm_num) _ tbl_range

theorem nlStair_antitone (x y : ℚ) (h : x ≤ y) : nlStair y ≤ nlStair x :=
  nlStairAux_antitone x y h _ tbl_desc

/-- below θ₅₉ (lower end 10.470471299968°) the value is 59 -/
theorem nlStair_59 (x : ℚ) (h : x * 1000000000000 < 10470471299968) : nlStair x = 59 := by
  have := nlStairAux_between x 59 10470471299968 10470471299969 (by exact_mod_cast h) []
    (by simp) Spec.nlTable.tail
  exact this

theorem nlStair_two (x : ℚ) (h1 : (86535369975121 : ℚ) ≤ x * 1000000000000) (h2 : x ≤ 87) :
    nlStair x = 2 := by
  apply nlStairAux_two x h2
  intro r hr
  rcases tbl_lo_le_theta3 r hr with h | h
  · exact Or.inl h
  · right
    have : (r.2.1 : ℚ) ≤ 86535369975121 := by exact_mod_cast h
    linarith

theorem nlStair_one (x : ℚ) (h : 87 < x) : nlStair x = 1 := by
  apply nlStairAux_one x h
  intro r hr
  have : (r.2.1 : ℚ) ≤ 87000000000000 := by exact_mod_cast tbl_lo_le_87 r hr
  linarith

theorem nlStair_ge_two (x : ℚ) (h : x ≤ 87) : 2 ≤ nlStair x :=
  nlStairAux_ge_two x h _ tbl_ge_two

theorem nlStair_eq_one_iff (x : ℚ) : nlStair x = 1 ↔ 87 < x := by
  constructor
  · intro h
    by_contra hc
    have := nlStair_ge_two x (not_lt.mp hc)
    omega
  · exact nlStair_one x

theorem tbl_length : Spec.nlTable.length = 58 := by decide +kernel

/-- every threshold up to row `i` is at most the threshold of row `i` -/
theorem tbl_prefix_le :
    (List.range 57).all (fun i =>
      (Spec.nlTable.take (i + 1)).all (fun r =>
        decide (r.2.1 ≤ (Spec.nlTable.getD i (0, 0, 0)).2.1))) = true := by decide +kernel

/-- **the staircase law, row by row**: for consecutive rows `a = (n+1, θ_{n+1}, _)`,
    `b = (n, θ_n, _)` of the table, `θ_{n+1} ≤ x < θ_n` gives `nlStair x = n` -/
theorem nlStair_row (x : ℚ) (i : ℕ) (a b : ℕ × ℕ × ℕ)
    (ha : Spec.nlTable[i]? = some a) (hb : Spec.nlTable[i + 1]? = some b)
    (h1 : (a.2.1 : ℚ) ≤ x * 1000000000000) (h2 : x * 1000000000000 < (b.2.1 : ℚ)) :
    nlStair x = b.1 := by
  obtain ⟨hlen, hb'⟩ := List.getElem?_eq_some_iff.mp hb
  have hi : i < 57 := by have := tbl_length; omega
  have hsplit : Spec.nlTable.take (i + 1) ++ b :: Spec.nlTable.drop (i + 1 + 1) = Spec.nlTable := by
    rw [← hb', ← List.drop_eq_getElem_cons hlen, List.take_append_drop]
  have hpre : ∀ r ∈ Spec.nlTable.take (i + 1), (r.2.1 : ℚ) ≤ x * 1000000000000 := by
    intro r hr
    have h := List.all_eq_true.mp tbl_prefix_le i (List.mem_range.mpr hi)
    have h' := List.all_eq_true.mp h r hr
    have hd : Spec.nlTable.getD i (0, 0, 0) = a := by
      simp [List.getD, ha]
    rw [hd] at h'
    have h'' : r.2.1 ≤ a.2.1 := by simpa using h'
    have : (r.2.1 : ℚ) ≤ (a.2.1 : ℚ) := by exact_mod_cast h''
    linarith
  have := nlStairAux_between x b.1 b.2.1 b.2.2 h2 _ hpre (Spec.nlTable.drop (i + 1 + 1))
  rw [hsplit] at this
  exact this

/-! ### `cprNL` is the staircase of `|lat|` -/

theorem cprNL_eq_stair (lat : ℚ) : cprNL lat = nlStair (rabs lat) := by
  unfold cprNL
  rw [rabs_eq_abs (rabs lat - 87), rabs_eq_abs lat]
  split_ifs with h1 h2 h3
  · symm; apply nlStair_59
    linarith
  · symm; apply nlStair_one
    rcases h2 with h2 | h2
    · exact lt_of_lt_of_le h2 (le_abs_self lat)
    · have := neg_le_abs lat
      linarith
  · symm
    rw [abs_le] at h3
    have h4 : |lat| ≤ 87 := by
      rw [abs_le]
      constructor
      · by_contra hc; exact h2 (Or.inr (not_le.mp hc))
      · by_contra hc; exact h2 (Or.inl (not_le.mp hc))
    apply nlStair_two _ _ h4
    linarith [h3.1]
  · rfl

end PyModeS.CPR
