/-
  C05 core: the surface global decode — hemisphere choice and the choice among the four
  longitude solutions `lon + 90k`.
-/
import PyModeS.Proofs.CPR.Global

namespace PyModeS.CPR
open Spec

/-! ### normalisation to `[-180, 180)` and circular distance, as coded -/

/-- `(x + 180) % 360 - 180` -/
def wrapPM (x : ℚ) : ℚ := rmod360 (x + 180) - 180
/-- `abs((lonRef - l + 180) % 360 - 180)` -/
def circDist (lonRef l : ℚ) : ℚ := rabs (rmod360 (lonRef - l + 180) - 180)
/-- the four candidate longitudes, normalised -/
def lonCands (lon : ℚ) : List ℚ := [lon, lon + 90, lon + 180, lon + 270].map wrapPM
/-- the candidate picked by `min(range(4), key=dls)` -/
def pickLon (lonRef lon : ℚ) : ℚ :=
  (lonCands lon).getD (argminFirst ((lonCands lon).map (circDist lonRef))) 0

/-- hemisphere choice between the northern candidate `x` and `x − 90` -/
def hemi (latRef x : ℚ) : ℚ := if rabs (x - latRef) ≤ rabs (x - 90 - latRef) then x else x - 90

def sLatEven (e o : ℕ × ℕ) (latRef : ℚ) : ℚ := hemi latRef (latEvenRaw 90 e.1 o.1)
def sLatOdd (e o : ℕ × ℕ) (latRef : ℚ) : ℚ := hemi latRef (latOddRaw 90 e.1 o.1)

/-- `surfacePositionCore` in terms of its intermediate values -/
theorem surface_eq (nl : ℚ → ℕ) (e o : ℕ × ℕ) (t0 t1 latRef lonRef : ℚ) :
    surfacePositionCore nl e o t0 t1 latRef lonRef =
      if nl (sLatEven e o latRef) ≠ nl (sLatOdd e o latRef) then none
      else some (
        if t0 > t1 then
          (sLatEven e o latRef, pickLon lonRef (lonRaw 90 (nl (sLatEven e o latRef)) 0 e.2 o.2 e.2))
        else
          (sLatOdd e o latRef, pickLon lonRef (lonRaw 90 (nl (sLatOdd e o latRef)) 1 e.2 o.2 o.2))) := by
  unfold surfacePositionCore
  by_cases ht : t0 > t1
  · simp only [ht, if_true]; rfl
  · simp only [ht, if_false]; rfl

theorem circDist_eq (lonRef l : ℚ) : circDist lonRef l = |wrapPM (lonRef - l)| := by
  unfold circDist wrapPM; rw [rabs_eq_abs]

theorem wrapPM_spec (x : ℚ) :
    wrapPM x = x - 360 * ((⌊(x + 180) / 360⌋ : ℤ) : ℚ) ∧ -180 ≤ wrapPM x ∧ wrapPM x < 180 := by
  have e : wrapPM x = x - 360 * ((⌊(x + 180) / 360⌋ : ℤ) : ℚ) := by
    unfold wrapPM rmod360; rw [ratFloor_eq]; ring
  have h1 := Int.floor_le ((x + 180) / 360)
  have h2 := Int.lt_floor_add_one ((x + 180) / 360)
  rw [le_div_iff₀ (by norm_num)] at h1
  rw [div_lt_iff₀ (by norm_num)] at h2
  refine ⟨e, ?_, ?_⟩ <;> rw [e] <;> linarith

theorem wrapPM_unique (x δ : ℚ) (t : ℤ) (hx : x = δ + 360 * t) (h : -180 ≤ δ ∧ δ < 180) :
    wrapPM x = δ := by
  have hf : ⌊(x + 180) / 360⌋ = t := by
    rw [Int.floor_eq_iff, hx]
    constructor
    · rw [le_div_iff₀ (by norm_num)]; linarith [h.1]
    · rw [div_lt_iff₀ (by norm_num)]; linarith [h.2]
  rw [(wrapPM_spec x).1, hf, hx]; ring

theorem wrapPM_periodic (x : ℚ) (t : ℤ) : wrapPM (x + 360 * t) = wrapPM x := by
  obtain ⟨e, h1, h2⟩ := wrapPM_spec x
  apply wrapPM_unique (x + 360 * t) (wrapPM x) (⌊(x + 180) / 360⌋ + t) _ ⟨h1, h2⟩
  rw [e]; push_cast; ring

/-! ### `argminFirst` on four values -/

set_option linter.unusedSimpArgs false in
theorem argmin4 (a b c d : ℚ) :
    (argminFirst [a, b, c, d] = 0 ∧ a ≤ b ∧ a ≤ c ∧ a ≤ d) ∨
    (argminFirst [a, b, c, d] = 1 ∧ b < a ∧ b ≤ c ∧ b ≤ d) ∨
    (argminFirst [a, b, c, d] = 2 ∧ c < a ∧ c < b ∧ c ≤ d) ∨
    (argminFirst [a, b, c, d] = 3 ∧ d < a ∧ d < b ∧ d < c) := by
  simp only [argminFirst, argminFirst.go]
  split_ifs
  all_goals simp only [Nat.reduceAdd, Nat.reduceEqDiff, false_and, true_and, false_or, or_false,
    zero_ne_one, OfNat.ofNat_ne_zero, OfNat.zero_ne_ofNat, OfNat.ofNat_ne_one, OfNat.one_ne_ofNat]
  all_goals (refine ⟨?_, ?_, ?_⟩ <;> linarith)

/-- the picked candidate is a closest one (and the first such) -/
theorem pickLon_closest (lonRef lon : ℚ) :
    ∃ k, k < 4 ∧ pickLon lonRef lon = (lonCands lon).getD k 0 ∧
      ∀ j, j < 4 → circDist lonRef ((lonCands lon).getD k 0) ≤ circDist lonRef ((lonCands lon).getD j 0) := by
  unfold pickLon lonCands
  simp only [List.map_cons, List.map_nil]
  rcases argmin4 (circDist lonRef (wrapPM lon)) (circDist lonRef (wrapPM (lon + 90)))
      (circDist lonRef (wrapPM (lon + 180))) (circDist lonRef (wrapPM (lon + 270)))
    with ⟨h, h1, h2, h3⟩ | ⟨h, h1, h2, h3⟩ | ⟨h, h1, h2, h3⟩ | ⟨h, h1, h2, h3⟩
  · refine ⟨0, by norm_num, by rw [h], ?_⟩
    intro j hj
    have hj' : j = 0 ∨ j = 1 ∨ j = 2 ∨ j = 3 := by omega
    rcases hj' with rfl | rfl | rfl | rfl <;> (simp; try linarith)
  · refine ⟨1, by norm_num, by rw [h], ?_⟩
    intro j hj
    have hj' : j = 0 ∨ j = 1 ∨ j = 2 ∨ j = 3 := by omega
    rcases hj' with rfl | rfl | rfl | rfl <;> (simp; try linarith)
  · refine ⟨2, by norm_num, by rw [h], ?_⟩
    intro j hj
    have hj' : j = 0 ∨ j = 1 ∨ j = 2 ∨ j = 3 := by omega
    rcases hj' with rfl | rfl | rfl | rfl <;> (simp; try linarith)
  · refine ⟨3, by norm_num, by rw [h], ?_⟩
    intro j hj
    have hj' : j = 0 ∨ j = 1 ∨ j = 2 ∨ j = 3 := by omega
    rcases hj' with rfl | rfl | rfl | rfl <;> (simp; try linarith)

/-! ### the true longitude is picked when the reference is within 45° of it -/

theorem circ_far (δ : ℚ) (hδ : |δ| < 45) (g : ℤ) (hg : g ≠ 0) : 45 < |δ - 90 * g| := by
  rw [abs_lt] at hδ
  rcases lt_or_gt_of_ne hg with h | h
  · have : (g : ℚ) ≤ -1 := by exact_mod_cast (by omega : g ≤ -1)
    exact lt_of_lt_of_le (by linarith) (le_abs_self _)
  · have : (1 : ℚ) ≤ (g : ℚ) := by exact_mod_cast (by omega : 1 ≤ g)
    exact lt_of_lt_of_le (by linarith) (neg_le_abs _)

/-- a candidate `l = y + 90 g`: if `g ≡ 0 (mod 4)` it is the true longitude (normalised) at
    distance `|δ|`, otherwise it is farther than 45° from the reference -/
theorem cand_dist (lonRef y δ : ℚ) (u : ℤ) (hδ : lonRef - y = δ + 360 * u) (hδr : |δ| < 45)
    (l : ℚ) (g : ℤ) (hl : l = y + 90 * g) :
    (g % 4 = 0 → wrapPM l = wrapPM y ∧ circDist lonRef (wrapPM l) = |δ|) ∧
    (g % 4 ≠ 0 → 45 < circDist lonRef (wrapPM l)) := by
  have hδ' := abs_lt.mp hδr
  obtain ⟨el, _, _⟩ := wrapPM_spec l
  constructor
  · intro hg
    have hg4 : g = 4 * (g / 4) := by omega
    have e1 : wrapPM l = wrapPM y := by
      have : l = y + 360 * ((g / 4 : ℤ) : ℚ) := by
        rw [hl]; conv_lhs => rw [hg4]
        push_cast; ring
      rw [this, wrapPM_periodic]
    refine ⟨e1, ?_⟩
    rw [circDist_eq]
    congr 1
    apply wrapPM_unique _ δ (u + ⌊(l + 180) / 360⌋ - g / 4) _ ⟨by linarith, by linarith⟩
    have : (g : ℚ) = 4 * ((g / 4 : ℤ) : ℚ) := by exact_mod_cast hg4
    rw [el, hl]; push_cast
    linarith
  · intro hg
    rw [circDist_eq]
    obtain ⟨ew, _, _⟩ := wrapPM_spec (lonRef - wrapPM l)
    have key : wrapPM (lonRef - wrapPM l)
        = δ - 90 * (((g - 4 * u - 4 * ⌊(l + 180) / 360⌋ + 4 * ⌊(lonRef - wrapPM l + 180) / 360⌋ : ℤ)) : ℚ) := by
      rw [ew, el, hl]; push_cast; linarith
    rw [key]
    apply circ_far δ hδr
    omega

theorem pickLon_true (lonRef y lon : ℚ) (z : ℤ) (hlon : lon = y + 90 * z)
    (hd : circDist lonRef y < 45) : pickLon lonRef lon = wrapPM y := by
  obtain ⟨eδ, _, _⟩ := wrapPM_spec (lonRef - y)
  rw [circDist_eq] at hd
  have hδ : lonRef - y = wrapPM (lonRef - y) + 360 * ((⌊(lonRef - y + 180) / 360⌋ : ℤ) : ℚ) := by
    rw [eδ]; ring
  have c0 := cand_dist lonRef y _ _ hδ hd lon z hlon
  have c1 := cand_dist lonRef y _ _ hδ hd (lon + 90) (z + 1) (by rw [hlon]; push_cast; ring)
  have c2 := cand_dist lonRef y _ _ hδ hd (lon + 180) (z + 2) (by rw [hlon]; push_cast; ring)
  have c3 := cand_dist lonRef y _ _ hδ hd (lon + 270) (z + 3) (by rw [hlon]; push_cast; ring)
  unfold pickLon lonCands
  simp only [List.map_cons, List.map_nil]
  have hz : z % 4 = 0 ∨ (z + 1) % 4 = 0 ∨ (z + 2) % 4 = 0 ∨ (z + 3) % 4 = 0 := by omega
  rcases argmin4 (circDist lonRef (wrapPM lon)) (circDist lonRef (wrapPM (lon + 90)))
      (circDist lonRef (wrapPM (lon + 180))) (circDist lonRef (wrapPM (lon + 270)))
    with ⟨h, h1, h2, h3⟩ | ⟨h, h1, h2, h3⟩ | ⟨h, h1, h2, h3⟩ | ⟨h, h1, h2, h3⟩
  all_goals rw [h]
  all_goals simp only [List.getD_cons_zero, List.getD_cons_succ]
  · rcases hz with hz | hz | hz | hz
    · exact (c0.1 hz).1
    · have := c0.2 (by omega); have := (c1.1 hz).2; linarith
    · have := c0.2 (by omega); have := (c2.1 hz).2; linarith
    · have := c0.2 (by omega); have := (c3.1 hz).2; linarith
  · rcases hz with hz | hz | hz | hz
    · have := c1.2 (by omega); have := (c0.1 hz).2; linarith
    · exact (c1.1 hz).1
    · have := c1.2 (by omega); have := (c2.1 hz).2; linarith
    · have := c1.2 (by omega); have := (c3.1 hz).2; linarith
  · rcases hz with hz | hz | hz | hz
    · have := c2.2 (by omega); have := (c0.1 hz).2; linarith
    · have := c2.2 (by omega); have := (c1.1 hz).2; linarith
    · exact (c2.1 hz).1
    · have := c2.2 (by omega); have := (c3.1 hz).2; linarith
  · rcases hz with hz | hz | hz | hz
    · have := c3.2 (by omega); have := (c0.1 hz).2; linarith
    · have := c3.2 (by omega); have := (c1.1 hz).2; linarith
    · have := c3.2 (by omega); have := (c2.1 hz).2; linarith
    · exact (c3.1 hz).1

end PyModeS.CPR

namespace PyModeS.CPR
open Spec

/-! ### latitude: northern candidates and hemisphere choice -/

/-- **surface_lat**: the northern candidates are the carried latitudes, shifted by 90 for
    southern (negative) ones -/
theorem glat_surface (nl : ℚ → ℕ) (lat0 lon0 lat1 lon1 : ℚ)
    (hr0 : -90 ≤ (cprEncode nl 90 0 lat0 lon0).rlat ∧ (cprEncode nl 90 0 lat0 lon0).rlat < 90)
    (hr1 : -90 ≤ (cprEncode nl 90 1 lat1 lon1).rlat ∧ (cprEncode nl 90 1 lat1 lon1).rlat < 90)
    (h : |(cprEncode nl 90 0 lat0 lon0).rlat - (cprEncode nl 90 1 lat1 lon1).rlat| < 3 / 236) :
    latEvenRaw 90 (cprEncode nl 90 0 lat0 lon0).yz (cprEncode nl 90 1 lat1 lon1).yz
      = (if 0 ≤ (cprEncode nl 90 0 lat0 lon0).rlat then (cprEncode nl 90 0 lat0 lon0).rlat
          else (cprEncode nl 90 0 lat0 lon0).rlat + 90) ∧
    latOddRaw 90 (cprEncode nl 90 0 lat0 lon0).yz (cprEncode nl 90 1 lat1 lon1).yz
      = (if 0 ≤ (cprEncode nl 90 1 lat1 lon1).rlat then (cprEncode nl 90 1 lat1 lon1).rlat
          else (cprEncode nl 90 1 lat1 lon1).rlat + 90) := by
  obtain ⟨K0, K1, h0, h1, he, ho⟩ := glat_raw nl 90 (by norm_num) lat0 lon0 lat1 lon1
    (by norm_num at h ⊢; exact h)
  obtain ⟨c0l, c0u⟩ := enc_yz_range nl 90 0 lat0 lon0
  obtain ⟨c1l, c1u⟩ := enc_yz_range nl 90 1 lat1 lon1
  rw [he, ho]
  constructor
  · have hlo : (-61 : ℚ) < (K0 : ℚ) := by rw [h0] at hr0; linarith [hr0.1]
    have hhi : (K0 : ℚ) < 60 := by rw [h0] at hr0; linarith [hr0.2]
    have hlo' : -61 < K0 := by exact_mod_cast hlo
    have hhi' : K0 < 60 := by exact_mod_cast hhi
    by_cases hk : 0 ≤ K0
    · have hq : K0 / 60 = 0 := by omega
      have hk' : (0 : ℚ) ≤ (K0 : ℚ) := by exact_mod_cast hk
      have hpos : 0 ≤ (cprEncode nl 90 0 lat0 lon0).rlat := by
        rw [h0]; apply mul_nonneg (by norm_num); linarith
      rw [if_pos hpos, hq]; push_cast; ring
    · have hq : K0 / 60 = -1 := by omega
      have hk' : (K0 : ℚ) ≤ -1 := by exact_mod_cast (by omega : K0 ≤ -1)
      have hneg : ¬ 0 ≤ (cprEncode nl 90 0 lat0 lon0).rlat := by
        rw [h0]; intro hc; nlinarith
      rw [if_neg hneg, hq]; push_cast; ring
  · have hlo : (-60 : ℚ) < (K1 : ℚ) := by rw [h1] at hr1; linarith [hr1.1]
    have hhi : (K1 : ℚ) < 59 := by rw [h1] at hr1; linarith [hr1.2]
    have hlo' : -60 < K1 := by exact_mod_cast hlo
    have hhi' : K1 < 59 := by exact_mod_cast hhi
    by_cases hk : 0 ≤ K1
    · have hq : K1 / 59 = 0 := by omega
      have hk' : (0 : ℚ) ≤ (K1 : ℚ) := by exact_mod_cast hk
      have hpos : 0 ≤ (cprEncode nl 90 1 lat1 lon1).rlat := by
        rw [h1]; apply mul_nonneg (by norm_num); linarith
      rw [if_pos hpos, hq]; push_cast; ring
    · have hq : K1 / 59 = -1 := by omega
      have hk' : (K1 : ℚ) ≤ -1 := by exact_mod_cast (by omega : K1 ≤ -1)
      have hneg : ¬ 0 ≤ (cprEncode nl 90 1 lat1 lon1).rlat := by
        rw [h1]; intro hc; nlinarith
      rw [if_neg hneg, hq]; push_cast; ring

theorem hemi_north (latRef x : ℚ) (h : |latRef - x| < 45) : hemi latRef x = x := by
  unfold hemi
  rw [rabs_eq_abs, rabs_eq_abs]
  rw [abs_lt] at h
  have h1 : |x - latRef| < 45 := by rw [abs_lt]; constructor <;> linarith [h.1, h.2]
  have h2 : 45 < |x - 90 - latRef| := lt_of_lt_of_le (by linarith [h.1]) (neg_le_abs _)
  rw [if_pos (by linarith)]

theorem hemi_south (latRef x : ℚ) (h : |latRef - x| < 45) : hemi latRef (x + 90) = x := by
  unfold hemi
  rw [rabs_eq_abs, rabs_eq_abs]
  rw [abs_lt] at h
  have h1 : |x + 90 - 90 - latRef| < 45 := by rw [abs_lt]; constructor <;> linarith [h.1, h.2]
  have h2 : 45 < |x + 90 - latRef| := lt_of_lt_of_le (by linarith [h.2]) (le_abs_self _)
  rw [if_neg (by linarith)]; ring

theorem hemi_pick (latRef x : ℚ) (h : |latRef - x| < 45) :
    hemi latRef (if 0 ≤ x then x else x + 90) = x := by
  split_ifs
  · exact hemi_north latRef x h
  · exact hemi_south latRef x h

end PyModeS.CPR
