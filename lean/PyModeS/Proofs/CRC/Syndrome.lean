/-
  The syndrome table `x^k mod G` for k = 111 … 1 (literal, kernel-checked against `syn`),
  and the Boolean certificate functions with their specifications.
-/
import PyModeS.Proofs.CRC.Detect
namespace PyModeS.CRC
open PyModeS PyModeS.Spec

/-- `[syn 111, syn 110, …, syn 1]` as a literal (kernel evaluation re-evaluates non-literals) -/
def synTable : List Nat :=
[3749354, 1874677, 15841150, 7920575, 12818395, 10367465, 11592432, 5796216, 2898108, 1449054, 724527, 16416019,
 8569997, 12490818, 6245409, 13655060, 6827530, 3413765, 15069574, 7534787, 13010533, 10271030, 5135515, 14210121,
 9670688, 4835344, 2417672, 1208836, 604418, 302209, 16626756, 8313378, 4156689, 14699660, 7349830, 3674915, 14939029,
 9307086, 4653543, 14449399, 9553791, 11999675, 10778329, 11387240, 5693620, 2846810, 1423405, 16066066, 8033033,
 12759936, 6379968, 3189984, 1594992, 797496, 398748, 199374, 99687, 16726199, 8414815, 12568875, 10493585, 11531596,
 5765798, 2882899, 15336621, 9107538, 4553769, 14500880, 7250440, 3625220, 1812610, 906305, 16322596, 8161298, 4080649,
 14735360, 7367680, 3683840, 1841920, 920960, 460480, 230240, 115120, 57560, 28780, 14390, 7195, 16774153, 8388608,
 4194304, 2097152, 1048576, 524288, 262144, 131072, 65536, 32768, 16384, 8192, 4096, 2048, 1024, 512, 256, 128, 64, 32,
 16, 8, 4, 2]

theorem synTable_eq : synTable = (down 111).map syn := by decide +kernel

/-! ### certificate functions -/

def notIn (v : Nat) : List Nat → Bool
  | [] => true
  | x :: l => x != v && notIn v l

def inner (ta : Nat) : List Nat → Bool
  | [] => true
  | tb :: rest => notIn (ta ^^^ tb ^^^ 1) rest && inner ta rest

/-- check the first `n` heads of the list against everything after them -/
def pairsOKn : Nat → List Nat → Bool
  | 0, _ => true
  | _ + 1, [] => true
  | n + 1, ta :: rest => inner ta rest && pairsOKn n rest

/-- no three entries (in list order) xor to 1 -/
def NoTriple (l : List Nat) : Prop := ∀ z y x, List.Sublist [z, y, x] l → z ^^^ y ^^^ 1 ≠ x

theorem notIn_spec {v : Nat} {l : List Nat} (h : notIn v l = true) : ∀ x ∈ l, v ≠ x := by
  induction l with
  | nil => simp
  | cons a l ih =>
    simp only [notIn, Bool.and_eq_true, bne_iff_ne] at h
    intro x hx
    rcases List.mem_cons.mp hx with hx | hx
    · subst hx; exact fun e => h.1 e.symm
    · exact ih h.2 x hx

theorem inner_spec {ta : Nat} {l : List Nat} (h : inner ta l = true) :
    ∀ y x, List.Sublist [y, x] l → ta ^^^ y ^^^ 1 ≠ x := by
  induction l with
  | nil => intro y x hs; cases hs
  | cons tb rest ih =>
    simp only [inner, Bool.and_eq_true] at h
    intro y x hs
    cases hs with
    | cons _ hs => exact ih h.2 y x hs
    | cons_cons _ hs => exact notIn_spec h.1 x (List.singleton_sublist.mp hs)

theorem pairsOKn_spec (n : Nat) : ∀ l : List Nat, pairsOKn n l = true → NoTriple (l.drop n) → NoTriple l := by
  induction n with
  | zero => intro l _ h; simpa using h
  | succ n ih =>
    intro l h hd
    cases l with
    | nil => intro z y x hs; cases hs
    | cons ta rest =>
      simp only [pairsOKn, Bool.and_eq_true] at h
      simp only [List.drop_succ_cons] at hd
      have hrest := ih rest h.2 hd
      intro z y x hs
      cases hs with
      | cons _ hs => exact hrest z y x hs
      | cons_cons _ hs => exact inner_spec h.1 y x hs

theorem noTriple_nil_of_length_le {l : List Nat} (h : l.length ≤ 2) : NoTriple l := by
  intro z y x hs
  have := hs.length_le
  simp at this; omega

end PyModeS.CRC
