/-
  Mathlib bridge: the Horner recursion `Spec.remH` is the remainder `%ₘ` in `(ZMod 2)[X]`
  modulo the monic polynomial of degree 24 whose coefficients are the bits of `Spec.G`.
-/
import Mathlib.Algebra.Polynomial.Div
import Mathlib.Data.ZMod.Basic
import Mathlib.Tactic.Ring
import PyModeS.Proofs.CRC.Horner

open Polynomial
namespace PyModeS.CRC
open PyModeS PyModeS.Spec

/-- a bit as an element of GF(2) -/
def bitZ (b : Bool) : ZMod 2 := if b then 1 else 0

/-- the polynomial whose coefficients are `bits`, highest degree first (Horner form) -/
noncomputable def toPoly (bits : Bits) : (ZMod 2)[X] :=
  bits.foldl (fun p b => p * X + C (bitZ b)) 0

/-- a natural number read as a coefficient vector: bit `i` of `n` is the coefficient of `X^i` -/
noncomputable def natPoly : Nat → (ZMod 2)[X]
  | 0 => 0
  | n + 1 => natPoly ((n + 1) / 2) * X + C (bitZ ((n + 1) % 2 == 1))
decreasing_by omega

/-- the Mode S generator polynomial -/
noncomputable def Gpoly : (ZMod 2)[X] := natPoly G

theorem toPoly_nil : toPoly [] = 0 := rfl
theorem toPoly_snoc (l : Bits) (b : Bool) : toPoly (l ++ [b]) = toPoly l * X + C (bitZ b) := by
  simp [toPoly, List.foldl_append]

theorem natPoly_eq (n : Nat) : natPoly n = natPoly (n / 2) * X + C (bitZ (n % 2 == 1)) := by
  cases n with
  | zero => rw [natPoly]; simp [bitZ]
  | succ n => rw [natPoly]

/-- `natPoly` really reads the binary digits of `n` as coefficients -/
theorem coeff_natPoly (n i : Nat) : (natPoly n).coeff i = bitZ (n.testBit i) := by
  induction i generalizing n with
  | zero =>
    rw [natPoly_eq, Nat.testBit_zero]
    rcases Nat.mod_two_eq_zero_or_one n with h | h <;> simp [h]
  | succ i ih =>
    rw [natPoly_eq, Nat.testBit_succ]
    simp [ih]

theorem bitZ_xor (a b : Bool) : bitZ (a ^^ b) = bitZ a + bitZ b := by
  cases a <;> cases b <;> decide

theorem natPoly_xor (a b : Nat) : natPoly (a ^^^ b) = natPoly a + natPoly b := by
  ext i
  rw [coeff_add, coeff_natPoly, coeff_natPoly, coeff_natPoly, Nat.testBit_xor, bitZ_xor]

theorem natPoly_shift (s : Nat) (b : Bool) :
    natPoly (2 * s + b.toNat) = natPoly s * X + C (bitZ b) := by
  rw [natPoly_eq]
  have h1 : (2 * s + b.toNat) / 2 = s := by have := Bool.toNat_le b; omega
  have h2 : ((2 * s + b.toNat) % 2 == 1) = b := by cases b <;> simp [Bool.toNat]
  rw [h1, h2]

theorem degree_natPoly_lt {s k : Nat} (h : s < 2 ^ k) : (natPoly s).degree < k := by
  rw [degree_lt_iff_coeff_zero]
  intro m hm
  rw [coeff_natPoly, Nat.testBit_lt_two_pow (Nat.lt_of_lt_of_le h (Nat.pow_le_pow_right (by decide) hm))]
  rfl

theorem natPoly_two_pow (k : Nat) : natPoly (2 ^ k) = X ^ k := by
  ext i
  rw [coeff_natPoly, Nat.testBit_two_pow, coeff_X_pow]
  by_cases h : k = i <;> simp [h, bitZ, eq_comm]

theorem Gpoly_eq : Gpoly = X ^ 24 + natPoly 0xFFF409 := by
  have : G = 2 ^ 24 ^^^ 0xFFF409 := by decide
  rw [Gpoly, this, natPoly_xor, natPoly_two_pow]

theorem Gpoly_monic : Gpoly.Monic := by
  rw [Gpoly_eq]
  exact monic_X_pow_add (degree_natPoly_lt (k := 24) (by decide))

theorem Gpoly_degree : Gpoly.degree = 24 := by
  rw [Gpoly_eq]
  have h : (natPoly 0xFFF409).degree < ((X : (ZMod 2)[X]) ^ 24).degree := by
    rw [degree_X_pow]; exact degree_natPoly_lt (k := 24) (by decide)
  rw [degree_add_eq_left_of_degree_lt h, degree_X_pow]; rfl

theorem Gpoly_natDegree : Gpoly.natDegree = 24 := natDegree_eq_of_degree_eq_some Gpoly_degree

theorem natPoly_red (t : Nat) : ∃ c : (ZMod 2)[X], natPoly t = natPoly (red t) + Gpoly * c := by
  unfold red
  split
  · refine ⟨1, ?_⟩
    have : t = (t ^^^ G) ^^^ G := by rw [Nat.xor_assoc, Nat.xor_self, Nat.xor_zero]
    conv => lhs; rw [this]
    rw [natPoly_xor (t ^^^ G) G, mul_one]; rfl
  · exact ⟨0, by simp⟩

theorem toPoly_decomp (bits : Bits) : ∃ q : (ZMod 2)[X], natPoly (remH bits) + Gpoly * q = toPoly bits := by
  induction bits using snoc_induction with
  | nil => exact ⟨0, by simp [toPoly_nil, remH, natPoly]⟩
  | snoc l b ih =>
    obtain ⟨q, hq⟩ := ih
    obtain ⟨c, hc⟩ := natPoly_red (2 * remH l + b.toNat)
    refine ⟨q * X + c, ?_⟩
    rw [toPoly_snoc, ← hq, remH_append]
    simp only [remFrom_cons, remFrom_nil, stepH_eq]
    have := natPoly_shift (remH l) b
    rw [hc] at this
    calc natPoly (red (2 * remH l + b.toNat)) + Gpoly * (q * X + c)
        = (natPoly (red (2 * remH l + b.toNat)) + Gpoly * c) + Gpoly * q * X := by ring
      _ = (natPoly (remH l) * X + C (bitZ b)) + Gpoly * q * X := by rw [this]
      _ = _ := by ring

/-- T9: the Horner/LFSR recursion computes the polynomial remainder modulo G -/
theorem remH_eq_modByMonic (bits : Bits) : natPoly (remH bits) = toPoly bits %ₘ Gpoly := by
  obtain ⟨q, hq⟩ := toPoly_decomp bits
  have hd : (natPoly (remH bits)).degree < Gpoly.degree := by
    rw [Gpoly_degree]; exact degree_natPoly_lt (k := 24) (remH_lt bits)
  exact ((div_modByMonic_unique q _ Gpoly_monic ⟨hq, hd⟩).2).symm

/-- `natPoly` is injective, so the remainder as a number is determined by the polynomial -/
theorem natPoly_injective : Function.Injective natPoly := by
  intro a b h
  apply Nat.eq_of_testBit_eq
  intro i
  have := congrArg (fun p => p.coeff i) h
  simp only [coeff_natPoly] at this
  revert this
  cases a.testBit i <;> cases b.testBit i <;> simp [bitZ]

end PyModeS.CRC
