/-
  All error patterns of weight 1…5 within 112 bits have a non-zero remainder
  (minimum distance of the Mode S code on 112-bit frames is at least 6).
-/
import PyModeS.Proofs.CRC.Cert0
import PyModeS.Proofs.CRC.Cert1
import PyModeS.Proofs.CRC.Cert2
import PyModeS.Proofs.CRC.Cert3
namespace PyModeS.CRC
open PyModeS PyModeS.Spec

theorem synTable_length : synTable.length = 111 := by decide

theorem synTable_noTriple : NoTriple synTable := by
  apply pairsOKn_spec 10 _ (by simpa using cert0)
  apply pairsOKn_spec 13 _ cert1
  rw [List.drop_drop]
  apply pairsOKn_spec 18 _ cert2
  rw [List.drop_drop]
  apply pairsOKn_spec 70 _ cert3
  rw [List.drop_drop]
  apply noTriple_nil_of_length_le
  simp [synTable_length]

theorem synTable_ne_one : notIn 1 synTable = true := by decide +kernel

theorem syn_mem_table {k : Nat} (h1 : 1 ≤ k) (h2 : k ≤ 111) : syn k ∈ synTable := by
  rw [synTable_eq]
  exact List.mem_map.mpr ⟨k, mem_down.mpr ⟨h1, h2⟩, rfl⟩

/-- weight 2: `x^d ≢ 1` for 0 < d < 112 -/
theorem syn_ne_one {k : Nat} (h1 : 1 ≤ k) (h2 : k ≤ 111) : syn k ≠ 1 :=
  fun h => notIn_spec synTable_ne_one _ (syn_mem_table h1 h2) h.symm

/-- weight 4: `x^z + x^y + x^x + 1 ≢ 0` for 0 < x < y < z < 112 -/
theorem syn_triple {z y x : Nat} (hx : 1 ≤ x) (hxy : x < y) (hyz : y < z) (hz : z ≤ 111) :
    syn z ^^^ syn y ^^^ 1 ≠ syn x := by
  apply synTable_noTriple
  rw [synTable_eq]
  have : List.Sublist [z, y, x] (down 111) := by
    apply sublist_down
    · simp; omega
    · intro w hw; simp at hw; omega
  exact this.map syn

theorem remH_ne_zero_of_weight_le5 (e : Bits) (hl : e.length ≤ 112) (h1 : 1 ≤ weight e)
    (h5 : weight e ≤ 5) : remH e ≠ 0 := by
  intro h0
  have hev := even_weight_of_remH_zero h0
  rw [remH_eq_xorSyn] at h0
  have hlen := exps_length e
  have hs := exps_sorted e
  have hb := exps_lt e
  generalize exps e = l at h0 hlen hs hb
  have hw : weight e = 2 ∨ weight e = 4 := by omega
  rcases hw with hw | hw
  · rw [hw] at hlen
    match l, hlen with
    | [c, a], _ =>
      simp only [List.pairwise_cons, List.mem_cons, List.not_mem_nil, or_false, forall_eq] at hs
      have hc := hb c (by simp)
      have e1 : [c, a] = [c - a, 0].map (· + a) := by
        simp only [List.map_cons, List.map_nil, Nat.zero_add, List.cons.injEq, and_true]; omega
      rw [e1, xorSyn_shift_eq_zero_iff] at h0
      simp only [xorSyn, syn_zero, Nat.xor_zero] at h0
      exact syn_ne_one (k := c - a) (by omega) (by omega) (nat_xor_eq_zero h0)
  · rw [hw] at hlen
    match l, hlen with
    | [d, c, b, a], _ =>
      simp only [List.pairwise_cons, List.mem_cons, List.not_mem_nil, or_false, forall_eq_or_imp,
        forall_eq] at hs
      have hd := hb d (by simp)
      have e1 : [d, c, b, a] = [d - a, c - a, b - a, 0].map (· + a) := by
        simp only [List.map_cons, List.map_nil, Nat.zero_add, List.cons.injEq, and_true]; omega
      rw [e1, xorSyn_shift_eq_zero_iff] at h0
      simp only [xorSyn, syn_zero, Nat.xor_zero] at h0
      have h2 : (syn (d - a) ^^^ syn (c - a) ^^^ 1) ^^^ syn (b - a) = 0 := by
        rw [← h0]; ac_rfl
      exact syn_triple (x := b - a) (y := c - a) (z := d - a) (by omega) (by omega) (by omega) (by omega)
        (nat_xor_eq_zero h2)

/-- T8 -/
theorem weight_le5_detected (v e : Bits) (hv : remH v = 0) (hl : v.length ≤ 112)
    (he : e.length = v.length) (h1 : 1 ≤ weight e) (h5 : weight e ≤ 5) :
    remH (xorBits v e) ≠ 0 := by
  rw [remH_xor v e he.symm, hv, Nat.zero_xor]
  exact remH_ne_zero_of_weight_le5 e (by omega) h1 h5

end PyModeS.CRC
