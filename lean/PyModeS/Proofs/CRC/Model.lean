/-
  The message-level functions `crc` and `crcLegacy` of the model, in terms of `Spec.remH`.
-/
import PyModeS.Proofs.CRC.Bytes
import PyModeS.Proofs.Hex
namespace PyModeS.CRC
open PyModeS PyModeS.Spec

/-- obligation on the regenerated table: `crc_legacy`'s array is the 25 coefficient bits of G -/
theorem crcLegacyGen_eq : Tables.crcLegacyGen = gen25 := by decide +kernel

theorem takeLast_append {α} (a b : List α) : takeLast b.length (a ++ b) = b := by
  simp [takeLast]

theorem crcLegacy_bits (bits : Bits) (h : 24 ≤ bits.length) :
    bin2int (takeLast 24 (crcLegacyLoop Tables.crcLegacyGen bits)) = remH bits := by
  rw [crcLegacyGen_eq, crcLegacyLoop_gen25 bits h]
  have := takeLast_append (zeros (bits.length - 24)) (natToBits 24 (remH bits))
  rw [natToBits_length] at this
  rw [this, bin2int_natToBits_of_lt (remH_lt bits)]

/-- the bit string `crc_legacy` divides -/
def legacyInput (m : Msg) (encode : Bool) : Bits :=
  if encode then dropLast 24 (hex2binM m) ++ List.replicate 24 false else hex2binM m

theorem legacyInput_length (m : Msg) (encode : Bool) (h : 24 ≤ (hex2binM m).length) :
    (legacyInput m encode).length = (hex2binM m).length := by
  unfold legacyInput
  cases encode
  · rfl
  · simp [dropLast]; omega

/-- T2 -/
theorem crcLegacy_eq_remH (m : Msg) (encode : Bool) (h : 24 ≤ (hex2binM m).length) :
    crcLegacy m encode = remH (legacyInput m encode) := by
  have := crcLegacy_bits (legacyInput m encode) (by rw [legacyInput_length m encode h]; exact h)
  rw [← this]
  rfl

theorem hex2binM_append (a b : Msg) : hex2binM (a ++ b) = hex2binM a ++ hex2binM b := by
  simp [hex2binM]

theorem hex2binM_zeros6 : hex2binM "000000".toList = List.replicate 24 false := by decide

/-- the bit string `crc` divides -/
theorem crc_input (m : Msg) (encode : Bool) :
    crc m encode = crcBitsPy (if encode then hex2binM (dropLast 6 m) ++ List.replicate 24 false
      else hex2binM m) := by
  unfold crc
  cases encode
  · rfl
  · simp only [if_true]; rw [hex2binM_append, hex2binM_zeros6]

theorem crc_false_eq_remH (m : Msg) (h6 : 6 ≤ m.length) (h2 : m.length % 2 = 0) :
    crc m false = remH (hex2binM m) := by
  rw [crc_input]
  simp only [Bool.false_eq_true, if_false]
  have := hex2binM_length m
  exact crcBitsPy_eq_remH _ (by omega) (by omega)

/-- T5 -/
theorem crc_true_eq_remH (m : Msg) (h6 : 6 ≤ m.length) (h2 : m.length % 2 = 0) :
    crc m true = remH (hex2binM (dropLast 6 m) ++ List.replicate 24 false) := by
  rw [crc_input]
  simp only [if_true]
  have h : (hex2binM (dropLast 6 m) ++ List.replicate 24 false).length = 4 * (m.length - 6) + 24 := by
    rw [List.length_append, hex2binM_length]; simp [dropLast]
  exact crcBitsPy_eq_remH _ (by omega) (by omega)

theorem hex2binM_dropLast (m : Msg) : hex2binM (dropLast 6 m) = dropLast 24 (hex2binM m) := by
  unfold dropLast
  rw [hex2binM_take, hex2binM_length]
  congr 1; omega

/-- the two implementations agree -/
theorem crc_eq_crcLegacy (m : Msg) (encode : Bool) (h6 : 6 ≤ m.length) (h2 : m.length % 2 = 0) :
    crc m encode = crcLegacy m encode := by
  have hl := hex2binM_length m
  rw [crcLegacy_eq_remH m encode (by omega)]
  unfold legacyInput
  cases encode
  · exact crc_false_eq_remH m h6 h2
  · rw [crc_true_eq_remH m h6 h2, hex2binM_dropLast]; rfl

end PyModeS.CRC
