/-
  Parity closure, burst detection, the even-weight property of multiples of G, and the
  decomposition of a remainder into syndromes `x^k mod G`.
-/
import PyModeS.Proofs.CRC.BitLoop
namespace PyModeS.CRC
open PyModeS PyModeS.Spec

theorem nat_xor_eq_zero {a b : Nat} (h : a ^^^ b = 0) : a = b := by
  have : (a ^^^ b) ^^^ b = 0 ^^^ b := by rw [h]
  rwa [Nat.xor_assoc, Nat.xor_self, Nat.xor_zero, Nat.zero_xor] at this

theorem zeros_xorBits (l : Bits) : xorBits (zeros l.length) l = l := by
  induction l with
  | nil => rfl
  | cons a l ih =>
    simp only [zeros, List.length_cons, List.replicate_succ, xorBits] at ih ⊢
    rw [ih]; simp

theorem zeros_xorBits' (k : Nat) (l : Bits) (h : l.length = k) : xorBits (zeros k) l = l := by
  subst h; exact zeros_xorBits l

/-! ### T6 parity closure -/

theorem parity_closure (d : Bits) :
    remH (d ++ natToBits 24 (remH (d ++ zeros 24))) = 0 := by
  have hr := remH_lt (d ++ zeros 24)
  generalize hreq : remH (d ++ zeros 24) = r at hr ⊢
  have e : d ++ natToBits 24 r = xorBits (d ++ zeros 24) (zeros d.length ++ natToBits 24 r) := by
    rw [xorBits_append _ _ _ _ (by simp), xorBits_zeros, zeros_xorBits' 24 _ (by simp)]
  rw [e, remH_xor _ _ (by simp), hreq, remH_zeros_short _ _ (by simp), bin2int_natToBits_of_lt hr,
    Nat.xor_self]

/-! ### T7 burst errors of length ≤ 24 -/

theorem bin2int_eq_zero {l : Bits} (h : bin2int l = 0) : ∀ x ∈ l, x = false := by
  induction l using snoc_induction with
  | nil => simp
  | snoc l c ih =>
    rw [bin2int_append_single] at h
    intro x hx
    rcases List.mem_append.mp hx with hx | hx
    · exact ih (by omega) x hx
    · simp at hx; subst hx; cases x <;> simp at h ⊢

theorem remH_burst_ne_zero (k m : Nat) (b : Bits) (hb : b.length ≤ 24) (ht : true ∈ b) :
    remH (zeros k ++ b ++ zeros m) ≠ 0 := by
  rw [remH_append, remH_zeros_short k b hb]
  apply remFrom_zeros_ne_zero
  intro h0
  have := bin2int_eq_zero h0 true ht
  simp at this

theorem burst_detected (v e b : Bits) (k m : Nat) (hv : remH v = 0)
    (he : e = zeros k ++ b ++ zeros m) (hl : e.length = v.length)
    (hb : b.length ≤ 24) (ht : true ∈ b) : remH (xorBits v e) ≠ 0 := by
  rw [remH_xor v e hl.symm, hv, Nat.zero_xor, he]
  exact remH_burst_ne_zero k m b hb ht

/-! ### parity: G has an even number of terms, so multiples of G have even weight -/

/-- parity of the low `f` bits -/
def parF : Nat → Nat → Bool
  | 0, _ => false
  | f + 1, n => (n % 2 == 1) != parF f (n / 2)

theorem parF_xor (f a b : Nat) : parF f (a ^^^ b) = (parF f a != parF f b) := by
  induction f generalizing a b with
  | zero => rfl
  | succ f ih =>
    simp only [parF, Nat.xor_div_two, ih]
    have := @Nat.xor_mod_two_eq_one a b
    rcases Nat.mod_two_eq_zero_or_one a with ha | ha <;>
      rcases Nat.mod_two_eq_zero_or_one b with hb | hb <;>
      rcases Nat.mod_two_eq_zero_or_one (a ^^^ b) with hc | hc <;>
      simp [ha, hb, hc] at this ⊢

theorem parF_succ_of_lt (f : Nat) : ∀ n, n < 2 ^ f → parF (f + 1) n = parF f n := by
  induction f with
  | zero => intro n h; have : n = 0 := by simpa using h
            subst this; rfl
  | succ f ih =>
    intro n h
    have h2 : n / 2 < 2 ^ f := by rw [Nat.pow_succ] at h; omega
    show ((n % 2 == 1) != parF (f + 1) (n / 2)) = ((n % 2 == 1) != parF f (n / 2))
    rw [ih _ h2]

theorem parF_G : parF 25 G = false := by decide

theorem parF_shift (f s : Nat) (b : Bool) : parF (f + 1) (2 * s + b.toNat) = (b != parF f s) := by
  have h1 : (2 * s + b.toNat) / 2 = s := by cases b <;> simp <;> omega
  have h2 : ((2 * s + b.toNat) % 2 == 1) = b := by cases b <;> simp <;> omega
  simp only [parF, h1, h2]

theorem parF_stepH {s : Nat} (h : s < 2 ^ 24) (b : Bool) :
    parF 24 (stepH s b) = (parF 24 s != b) := by
  rw [← parF_succ_of_lt 24 _ (stepH_lt h b), stepH_eq]
  unfold red
  split
  · rw [parF_xor, parF_G, parF_shift]; cases b <;> cases parF 24 s <;> rfl
  · rw [parF_shift]; cases b <;> cases parF 24 s <;> rfl

/-- xor of all bits -/
def bxor (p : Bool) (e : Bits) : Bool := e.foldl (fun p b => p != b) p

theorem parF_remFrom {s : Nat} (h : s < 2 ^ 24) (e : Bits) :
    parF 24 (remFrom s e) = bxor (parF 24 s) e := by
  induction e generalizing s with
  | nil => rfl
  | cons b e ih =>
    simp only [remFrom_cons, bxor, List.foldl_cons]
    rw [ih (stepH_lt h b), parF_stepH h]; rfl

theorem bxor_weight (p : Bool) (e : Bits) : bxor p e = (p != (weight e % 2 == 1)) := by
  induction e generalizing p with
  | nil => cases p <;> rfl
  | cons b e ih =>
    simp only [bxor, List.foldl_cons]
    have := ih (p != b)
    simp only [bxor] at this
    rw [this]
    cases b
    · simp [weight]
    · have hw : weight (true :: e) = weight e + 1 := by simp [weight]
      rw [hw]
      rcases Nat.mod_two_eq_zero_or_one (weight e) with h | h <;>
        cases p <;> simp [h, Nat.add_mod]

/-- every multiple of G (any length) has even weight -/
theorem even_weight_of_remH_zero {e : Bits} (h : remH e = 0) : weight e % 2 = 0 := by
  have := parF_remFrom (s := 0) (by decide) e
  rw [← remH_eq_remFrom, h, bxor_weight] at this
  rcases Nat.mod_two_eq_zero_or_one (weight e) with h | h
  · exact h
  · rw [h] at this; exact absurd this (by decide)

/-! ### decomposition into syndromes -/

/-- `x^k mod G` -/
def syn (k : Nat) : Nat := remH (true :: zeros k)

/-- exponents of the set bits, decreasing -/
def exps : Bits → List Nat
  | [] => []
  | b :: t => if b then t.length :: exps t else exps t

def xorSyn : List Nat → Nat
  | [] => 0
  | k :: l => syn k ^^^ xorSyn l

theorem remH_false_cons (t : Bits) : remH (false :: t) = remH t := remH_zeros_append 1 t

theorem remH_cons (b : Bool) (t : Bits) :
    remH (b :: t) = (if b then syn t.length else 0) ^^^ remH t := by
  have e : b :: t = xorBits (b :: zeros t.length) (false :: t) := by
    simp only [xorBits, zeros_xorBits]; simp
  rw [e, remH_xor _ _ (by simp), remH_false_cons]
  cases b
  · have : remH (false :: zeros t.length) = 0 := remH_zeros (t.length + 1)
    rw [this]; rfl
  · rfl

theorem remH_eq_xorSyn (e : Bits) : remH e = xorSyn (exps e) := by
  induction e with
  | nil => rfl
  | cons b t ih =>
    rw [remH_cons, ih]
    cases b <;> simp [exps, xorSyn]

theorem exps_length (e : Bits) : (exps e).length = weight e := by
  induction e with
  | nil => rfl
  | cons b t ih => cases b <;> simp [exps, weight] at ih ⊢ <;> exact ih

theorem exps_lt (e : Bits) : ∀ x ∈ exps e, x < e.length := by
  induction e with
  | nil => simp [exps]
  | cons b t ih =>
    intro x hx
    cases b
    · simp only [exps, Bool.false_eq_true, if_false] at hx
      have := ih x hx; simp; omega
    · simp only [exps, if_true, List.mem_cons] at hx
      rcases hx with hx | hx
      · subst hx; simp
      · have := ih x hx; simp; omega

theorem exps_sorted (e : Bits) : (exps e).Pairwise (· > ·) := by
  induction e with
  | nil => simp [exps]
  | cons b t ih =>
    cases b
    · simpa [exps] using ih
    · simp only [exps, if_true, List.pairwise_cons]
      exact ⟨fun x hx => exps_lt t x hx, ih⟩

/-! ### shifting all exponents -/

theorem xorBits_zeros_zeros (j : Nat) : xorBits (zeros j) (zeros j) = zeros j := by
  have := xorBits_zeros (zeros j)
  simpa using this

theorem remFrom_zeros_xor (s t j : Nat) :
    remFrom (s ^^^ t) (zeros j) = remFrom s (zeros j) ^^^ remFrom t (zeros j) := by
  have := remFrom_xor (zeros j) (zeros j) rfl s t
  rwa [xorBits_zeros_zeros] at this

theorem syn_add (k j : Nat) : syn (k + j) = remFrom (syn k) (zeros j) := by
  unfold syn
  rw [← remH_append]
  simp [zeros, List.replicate_append_replicate]

theorem xorSyn_shift (l : List Nat) (j : Nat) :
    xorSyn (l.map (· + j)) = remFrom (xorSyn l) (zeros j) := by
  induction l with
  | nil => exact (remFrom_zero_zeros j).symm
  | cons k l ih =>
    simp only [List.map_cons, xorSyn]
    rw [remFrom_zeros_xor, ih, syn_add]

theorem xorSyn_shift_eq_zero_iff (l : List Nat) (j : Nat) :
    xorSyn (l.map (· + j)) = 0 ↔ xorSyn l = 0 := by
  rw [xorSyn_shift, remFrom_zeros_eq_zero_iff]

theorem syn_zero : syn 0 = 1 := by decide

/-! ### strictly decreasing lists are sublists of `n, n-1, …, 1` -/

def down : Nat → List Nat
  | 0 => []
  | n + 1 => (n + 1) :: down n

theorem mem_down {n x : Nat} : x ∈ down n ↔ 1 ≤ x ∧ x ≤ n := by
  induction n with
  | zero => simp [down]; omega
  | succ n ih => simp only [down, List.mem_cons, ih]; omega

theorem sublist_down (n : Nat) : ∀ l : List Nat, l.Pairwise (· > ·) → (∀ x ∈ l, 1 ≤ x ∧ x ≤ n) →
    List.Sublist l (down n) := by
  induction n with
  | zero =>
    intro l _ hb
    cases l with
    | nil => exact List.Sublist.slnil
    | cons x t => have := hb x (by simp); omega
  | succ n ih =>
    intro l hs hb
    cases l with
    | nil => exact List.nil_sublist _
    | cons x t =>
      rw [List.pairwise_cons] at hs
      by_cases hx : x = n + 1
      · subst hx
        apply List.Sublist.cons_cons _
        apply ih t hs.2
        intro y hy
        have h1 := hb y (List.mem_cons_of_mem _ hy)
        have h2 := hs.1 y hy
        omega
      · apply List.Sublist.cons
        apply ih (x :: t) (List.pairwise_cons.mpr hs)
        intro y hy
        have h1 := hb y hy
        rcases List.mem_cons.mp hy with h | h
        · subst h; have := (hb y (by simp)).2; omega
        · have h2 := hs.1 y h
          have h3 := (hb x (by simp)).2
          omega

end PyModeS.CRC
