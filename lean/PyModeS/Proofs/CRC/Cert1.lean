/- Kernel-checked certificate, part 1: heads 10 … 22 of the syndrome table. -/
import PyModeS.Proofs.CRC.Syndrome
namespace PyModeS.CRC

theorem cert1 : pairsOKn 13 (synTable.drop 10) = true := by decide +kernel

end PyModeS.CRC
