/-
  Hex strings: `hexToNatM = bin2int ∘ hex2binM`, canonical upper-case rendering `hexN`
  (`hex6 = hexN 6`, "%06X"), bits → hex (`hexOfBits`), letter-case insensitivity.
-/
import PyModeS.Proofs.Hex
import PyModeS.Proofs.CRC.Bytes
namespace PyModeS.CRC
open PyModeS

/-- a hex string: every character is one of 0-9 a-f A-F -/
def IsHex (m : Msg) : Prop := ∀ c ∈ m, (hexVal? c).isSome

theorem hexChar_toNat_lt (c : Char) (h : (hexVal? c).isSome) : c.toNat < 103 := by
  unfold hexVal? at h
  have key : ∀ d : Char, c ≤ d → c.toNat ≤ d.toNat := by
    intro d hd
    rw [Char.le_def] at hd
    exact UInt32.le_iff_toNat_le.mp hd
  split at h
  · rename_i h1; have := key '9' h1.2; simp at this; omega
  · split at h
    · rename_i h1; have := key 'f' h1.2; simp at this; omega
    · split at h
      · rename_i h1; have := key 'F' h1.2; simp at this; omega
      · simp at h

theorem hexFacts_enum : ∀ n, n < 103 → (hexVal? (Char.ofNat n)).isSome →
    hexVal (Char.ofNat n) < 16 ∧
    hexVal (Char.ofNat n).toLower = hexVal (Char.ofNat n) ∧
    hexVal (Char.ofNat n).toUpper = hexVal (Char.ofNat n) ∧
    (hexVal? (Char.ofNat n).toLower).isSome ∧ (hexVal? (Char.ofNat n).toUpper).isSome ∧
    (Char.ofNat n).toLower.toUpper = (Char.ofNat n).toUpper ∧
    (Char.ofNat n).toUpper.toUpper = (Char.ofNat n).toUpper ∧
    (Char.ofNat n).toUpper = hexDigitU (hexVal (Char.ofNat n)) := by decide +kernel

theorem hexFacts (c : Char) (h : (hexVal? c).isSome) :
    hexVal c < 16 ∧ hexVal c.toLower = hexVal c ∧ hexVal c.toUpper = hexVal c ∧
    (hexVal? c.toLower).isSome ∧ (hexVal? c.toUpper).isSome ∧
    c.toLower.toUpper = c.toUpper ∧ c.toUpper.toUpper = c.toUpper ∧
    c.toUpper = hexDigitU (hexVal c) := by
  have := hexFacts_enum c.toNat (hexChar_toNat_lt c h)
  rw [Char.ofNat_toNat] at this
  exact this h

/-- also for non-hex characters (the model maps them to 0) -/
theorem hexVal_lt (c : Char) : hexVal c < 16 := by
  cases h : hexVal? c with
  | none => simp [hexVal, h]
  | some v => exact (hexFacts c (by simp [h])).1

theorem hexDigitU_facts : ∀ d, d < 16 → hexVal (hexDigitU d) = d ∧ (hexVal? (hexDigitU d)).isSome ∧
    (Nat.digitChar d).toUpper = hexDigitU d ∧ hexDigitU d ∈ "0123456789ABCDEF".toList := by
  decide +kernel

/-! ### value of a hex string -/

theorem hexToNatM_snoc (l : Msg) (c : Char) : hexToNatM (l ++ [c]) = 16 * hexToNatM l + hexVal c := by
  simp [hexToNatM, List.foldl_append]

theorem hex2binM_append' (a b : Msg) : hex2binM (a ++ b) = hex2binM a ++ hex2binM b := by
  simp [hex2binM]

/-- `int(s, 16) = int(hex2bin(s), 2)` -/
theorem hexToNatM_eq_bin2int (m : Msg) : hexToNatM m = bin2int (hex2binM m) := by
  induction m using snoc_induction with
  | nil => rfl
  | snoc l c ih =>
    rw [hexToNatM_snoc, hex2binM_append', bin2int_append, ih]
    have : hex2binM [c] = natToBits 4 (hexVal c) := by simp [hex2binM]
    rw [this, bin2int_natToBits_of_lt (w := 4) (hexVal_lt c)]
    simp; omega

theorem hexToNatM_lt (m : Msg) : hexToNatM m < 16 ^ m.length := by
  rw [hexToNatM_eq_bin2int]
  have := bin2int_lt (hex2binM m)
  rw [hex2binM_length, Nat.pow_mul] at this
  exact this

/-! ### canonical rendering -/

/-- `k` upper-case hex digits of `n` ("%0kX" for `n < 16^k`) -/
def hexN : Nat → Nat → Msg
  | 0, _ => []
  | k + 1, n => hexN k (n / 16) ++ [hexDigitU (n % 16)]

@[simp] theorem hexN_length (k n : Nat) : (hexN k n).length = k := by
  induction k generalizing n with
  | zero => rfl
  | succ k ih => simp [hexN, ih]

theorem hexN_isHex (k n : Nat) : IsHex (hexN k n) := by
  induction k generalizing n with
  | zero => intro c hc; simp [hexN] at hc
  | succ k ih =>
    intro c hc
    simp only [hexN, List.mem_append, List.mem_singleton] at hc
    rcases hc with hc | hc
    · exact ih _ c hc
    · subst hc; exact (hexDigitU_facts _ (Nat.mod_lt _ (by decide))).2.1

theorem hexN_upper (k n : Nat) : ∀ c ∈ hexN k n, c ∈ "0123456789ABCDEF".toList := by
  induction k generalizing n with
  | zero => intro c hc; simp [hexN] at hc
  | succ k ih =>
    intro c hc
    simp only [hexN, List.mem_append, List.mem_singleton] at hc
    rcases hc with hc | hc
    · exact ih _ c hc
    · subst hc; exact (hexDigitU_facts _ (Nat.mod_lt _ (by decide))).2.2.2

theorem hexToNatM_hexN (k n : Nat) : hexToNatM (hexN k n) = n % 16 ^ k := by
  induction k generalizing n with
  | zero => simp [hexN, hexToNatM, Nat.mod_one]
  | succ k ih =>
    rw [hexN, hexToNatM_snoc, ih, (hexDigitU_facts _ (Nat.mod_lt _ (by decide))).1, Nat.pow_succ,
      Nat.mul_comm (16 ^ k) 16, Nat.mod_mul]
    omega

theorem hexN_zero (k : Nat) : hexN k 0 = List.replicate k '0' := by
  induction k with
  | zero => rfl
  | succ k ih => simp only [hexN, Nat.zero_div, ih, Nat.zero_mod, List.replicate_succ']; rfl

/-- `"%0kX" % n` as the model spells it (`Nat.toDigits`, upper-cased, left-padded with '0') -/
theorem pad_toDigits_eq_hexN (k : Nat) : ∀ n, n < 16 ^ (k + 1) →
    List.replicate (k + 1 - ((Nat.toDigits 16 n).map Char.toUpper).length) '0' ++
      (Nat.toDigits 16 n).map Char.toUpper = hexN (k + 1) n := by
  induction k with
  | zero =>
    intro n hn
    have hn' : n < 16 := by simpa using hn
    rw [Nat.toDigits_of_lt_base hn']
    simp [hexN, (hexDigitU_facts n hn').2.2.1, Nat.mod_eq_of_lt hn']
  | succ k ih =>
    intro n hn
    rw [Nat.toDigits_eq_if (by decide)]
    split
    · rename_i h16
      simp only [List.map_cons, List.map_nil, List.length_singleton, Nat.add_sub_cancel]
      rw [hexN, Nat.div_eq_of_lt h16, Nat.mod_eq_of_lt h16, hexN_zero, (hexDigitU_facts n h16).2.2.1]
    · have hq : n / 16 < 16 ^ (k + 1) := by
        rw [Nat.pow_succ] at hn; omega
      have := ih (n / 16) hq
      rw [hexN, ← this]
      simp only [List.map_append, List.map_cons, List.map_nil, List.length_append, List.length_map,
        List.length_singleton, List.append_assoc, (hexDigitU_facts _ (Nat.mod_lt n (by decide))).2.2.1]
      congr 2
      omega

theorem hex6_eq_hexN {A : Nat} (h : A < 2 ^ 24) : hex6 A = hexN 6 A := by
  unfold hex6
  exact pad_toDigits_eq_hexN 5 A (by simpa using h)

/-- upper-casing a hex string gives the canonical rendering of its value -/
theorem map_toUpper_eq_hexN (l : Msg) (h : IsHex l) : l.map Char.toUpper = hexN l.length (hexToNatM l) := by
  induction l using snoc_induction with
  | nil => rfl
  | snoc l c ih =>
    have hl : IsHex l := fun x hx => h x (List.mem_append_left _ hx)
    have hc := hexFacts c (h c (by simp))
    rw [List.map_append, ih hl, hexToNatM_snoc]
    simp only [List.map_cons, List.map_nil, List.length_append, List.length_singleton, hexN]
    have e1 : (16 * hexToNatM l + hexVal c) / 16 = hexToNatM l := by have := hc.1; omega
    have e2 : (16 * hexToNatM l + hexVal c) % 16 = hexVal c := by have := hc.1; omega
    rw [e1, e2, hc.2.2.2.2.2.2.2]

/-! ### bits → hex -/

theorem natToBits_add (a b v : Nat) : natToBits (a + b) v = natToBits a (v / 2 ^ b) ++ natToBits b v := by
  induction b generalizing v with
  | zero => simp [natToBits_zero]
  | succ b ih =>
    rw [← Nat.add_assoc, natToBits_succ, natToBits_succ, ih, List.append_assoc, Nat.pow_succ,
      Nat.div_div_eq_div_mul, Nat.mul_comm 2]

theorem hex2binM_hexN (k n : Nat) : hex2binM (hexN k n) = natToBits (4 * k) n := by
  induction k generalizing n with
  | zero => rfl
  | succ k ih =>
    rw [hexN, hex2binM_append', ih]
    have : hex2binM [hexDigitU (n % 16)] = natToBits 4 (n % 16) := by
      simp [hex2binM, (hexDigitU_facts _ (Nat.mod_lt n (by decide))).1]
    rw [this]
    have e : 4 * (k + 1) = 4 * k + 4 := by omega
    rw [e, natToBits_add]
    congr 1
    have h1 : ∀ w v, natToBits w (v % 2 ^ w) = natToBits w v := by
      intro w v
      have := natToBits_bin2int (natToBits w v)
      rw [natToBits_length, bin2int_natToBits] at this
      exact this
    exact h1 4 n

/-- the hex string of a bit string (4 bits per upper-case digit) -/
def hexOfBits (b : Bits) : Msg := hexN (b.length / 4) (bin2int b)

theorem hexOfBits_length (b : Bits) : (hexOfBits b).length = b.length / 4 := by simp [hexOfBits]

theorem hex2binM_hexOfBits (b : Bits) (h : b.length % 4 = 0) : hex2binM (hexOfBits b) = b := by
  rw [hexOfBits, hex2binM_hexN]
  have : 4 * (b.length / 4) = b.length := by omega
  rw [this, natToBits_bin2int]

theorem hexOfBits_isHex (b : Bits) : IsHex (hexOfBits b) := hexN_isHex _ _

/-! ### mapping characters without changing their values -/

theorem hex2binM_map (f : Char → Char) (m : Msg) (h : ∀ c ∈ m, hexVal (f c) = hexVal c) :
    hex2binM (m.map f) = hex2binM m := by
  induction m with
  | nil => rfl
  | cons c m ih =>
    simp only [List.map_cons, hex2binM, List.flatMap_cons] at ih ⊢
    rw [h c (by simp), ih (fun x hx => h x (List.mem_cons_of_mem _ hx))]

theorem hexToNatM_map (f : Char → Char) (m : Msg) (h : ∀ c ∈ m, hexVal (f c) = hexVal c) :
    hexToNatM (m.map f) = hexToNatM m := by
  rw [hexToNatM_eq_bin2int, hexToNatM_eq_bin2int, hex2binM_map f m h]

theorem dropLast_map {α β} (f : α → β) (k : Nat) (l : List α) : dropLast k (l.map f) = (dropLast k l).map f := by
  simp [dropLast, List.map_take]

theorem takeLast_map {α β} (f : α → β) (k : Nat) (l : List α) : takeLast k (l.map f) = (takeLast k l).map f := by
  simp [takeLast, List.map_drop]

theorem slice_map {α β} (f : α → β) (a b : Nat) (l : List α) : slice a b (l.map f) = (slice a b l).map f := by
  simp [slice, List.map_take, List.map_drop]

theorem isHex_take {m : Msg} (h : IsHex m) (k : Nat) : IsHex (m.take k) :=
  fun c hc => h c (List.mem_of_mem_take hc)
theorem isHex_drop {m : Msg} (h : IsHex m) (k : Nat) : IsHex (m.drop k) :=
  fun c hc => h c (List.mem_of_mem_drop hc)
theorem isHex_slice {m : Msg} (h : IsHex m) (a b : Nat) : IsHex (slice a b m) :=
  isHex_take (isHex_drop h a) _

end PyModeS.CRC
