/- Kernel-checked certificate, part 3: heads 41 … 110 of the syndrome table. -/
import PyModeS.Proofs.CRC.Syndrome
namespace PyModeS.CRC

theorem cert3 : pairsOKn 70 (synTable.drop 41) = true := by decide +kernel

end PyModeS.CRC
