/-
  The byte-wise divider of `py_common.crc` (`crcLoop Tables.crcG` on `bytesOfBits bits`)
  simulates the bit-serial divider step by step.
-/
import PyModeS.Proofs.CRC.BitLoop
namespace PyModeS.CRC
open PyModeS PyModeS.Spec

/-- obligation on the regenerated table: the literals in the source are these four bytes -/
theorem crcG_eq : Tables.crcG = [255, 250, 4, 128] := by decide

/-- bytes back to bits -/
def bitsOfBytes (mb : List Nat) : Bits := mb.flatMap (natToBits 8)

theorem bitsOfBytes_length (mb : List Nat) : (bitsOfBytes mb).length = 8 * mb.length := by
  induction mb with
  | nil => rfl
  | cons a mb ih => simp only [bitsOfBytes, List.flatMap_cons, List.length_append, natToBits_length,
      List.length_cons] at ih ⊢; omega

theorem bitsOfBytes_append (a b : List Nat) : bitsOfBytes (a ++ b) = bitsOfBytes a ++ bitsOfBytes b := by
  simp [bitsOfBytes]

theorem bitsOfBytes_cons (a : Nat) (b : List Nat) : bitsOfBytes (a :: b) = natToBits 8 a ++ bitsOfBytes b := by
  simp [bitsOfBytes]

/-! ### `bytesOfBits` is inverted by `bitsOfBytes` on whole bytes -/

theorem bytesOfBits_spec (k : Nat) : ∀ bits : Bits, bits.length = 8 * k →
    bitsOfBytes (bytesOfBits bits) = bits ∧ (bytesOfBits bits).length = k ∧
      ∀ x ∈ bytesOfBits bits, x < 256 := by
  induction k with
  | zero =>
    intro bits h
    have : bits = [] := List.eq_nil_of_length_eq_zero (by omega)
    subst this
    rw [bytesOfBits]
    exact ⟨rfl, rfl, by simp⟩
  | succ k ih =>
    intro bits h
    cases bits with
    | nil => simp at h
    | cons b bs =>
      rw [bytesOfBits]
      have hd : ((b :: bs).drop 8).length = 8 * k := by rw [List.length_drop, h]; omega
      have ht : ((b :: bs).take 8).length = 8 := by rw [List.length_take, h]; omega
      obtain ⟨i1, i2, i3⟩ := ih _ hd
      refine ⟨?_, ?_, ?_⟩
      · rw [bitsOfBytes_cons, i1]
        have := natToBits_bin2int ((b :: bs).take 8)
        rw [ht] at this
        rw [this, List.take_append_drop]
      · simp only [List.length_cons, i2]
      · intro x hx
        rcases List.mem_cons.mp hx with hx | hx
        · subst hx
          have := bin2int_lt ((b :: bs).take 8)
          rw [ht] at this; exact this
        · exact i3 x hx

/-! ### xor of bytes is xor of bits -/

theorem natToBits_xor (w a b : Nat) :
    natToBits w (a ^^^ b) = xorBits (natToBits w a) (natToBits w b) := by
  induction w generalizing a b with
  | zero => rfl
  | succ w ih =>
    rw [natToBits_succ, natToBits_succ, natToBits_succ, Nat.xor_div_two, ih,
      xorBits_append _ _ _ _ (by simp)]
    congr 1
    simp only [xorBits, List.cons.injEq, and_true]
    have := @Nat.xor_mod_two_eq_one a b
    rcases Nat.mod_two_eq_zero_or_one a with ha | ha <;>
      rcases Nat.mod_two_eq_zero_or_one b with hb | hb <;>
      rcases Nat.mod_two_eq_zero_or_one (a ^^^ b) with hc | hc <;>
      simp [ha, hb, hc] at this ⊢

/-! ### the four mask bytes -/

def mask0 (ibit : Nat) : Nat := 255 >>> ibit
def mask1 (ibit : Nat) : Nat := 0xFF &&& ((255 <<< (8 - ibit)) ||| (250 >>> ibit))
def mask2 (ibit : Nat) : Nat := 0xFF &&& ((250 <<< (8 - ibit)) ||| (4 >>> ibit))
def mask3 (ibit : Nat) : Nat := 0xFF &&& ((4 <<< (8 - ibit)) ||| (128 >>> ibit))

theorem crcInner_decomp (pre post : List Nat) (a0 a1 a2 a3 : Nat) (ibit : Nat) :
    crcInner Tables.crcG (pre ++ a0 :: a1 :: a2 :: a3 :: post) pre.length ibit =
      if a0 &&& (0x80 >>> ibit) > 0 then
        pre ++ (a0 ^^^ mask0 ibit) :: (a1 ^^^ mask1 ibit) :: (a2 ^^^ mask2 ibit) :: (a3 ^^^ mask3 ibit) :: post
      else pre ++ a0 :: a1 :: a2 :: a3 :: post := by
  unfold crcInner xorAt
  rw [crcG_eq]
  simp [List.getD_eq_getElem?_getD, mask0, mask1, mask2, mask3]

/-- the four mask bytes are the 25 generator bits shifted right by `ibit` inside a 32-bit window -/
theorem masks_spec : ∀ i, i < 8 →
    (natToBits 8 (mask0 i) ++ natToBits 8 (mask1 i) ++ natToBits 8 (mask2 i) ++ natToBits 8 (mask3 i)
      = zeros i ++ gen25 ++ zeros (7 - i)) ∧
      mask0 i < 256 ∧ mask1 i < 256 ∧ mask2 i < 256 ∧ mask3 i < 256 := by
  decide +kernel

/-- `mbytes[ibyte] & (0x80 >> ibit) > 0` tests bit `ibit` (MSB first) of the byte -/
theorem bit_test : ∀ a, a < 256 → ∀ i, i < 8 →
    (decide (a &&& (0x80 >>> i) > 0)) = (natToBits 8 a).getD i false := by
  decide +kernel

/-! ### bit-level view of one step -/

theorem xorAtBits_zero (l g : Bits) : xorAtBits l 0 g = xorAtBits.xorBits' l g := by
  cases l <;> rfl

theorem xorAtBits_eq_xorBits (l : Bits) (i : Nat) (g : Bits) (h : i + g.length ≤ l.length) :
    xorAtBits l i g = xorBits l (zeros i ++ g ++ zeros (l.length - i - g.length)) := by
  induction i generalizing l with
  | zero =>
    rw [xorAtBits_zero, xorBits'_eq l g (by omega)]
    simp
  | succ i ih =>
    cases l with
    | nil => simp at h
    | cons b l =>
      have h' : i + g.length ≤ l.length := by simp at h; omega
      simp only [xorAtBits, zeros, List.replicate_succ, List.cons_append, xorBits, List.length_cons]
      rw [ih l h']
      have : l.length + 1 - (i + 1) - g.length = l.length - i - g.length := by omega
      rw [this]
      simp [zeros]

theorem window_xor (P A Q : Bits) (hA : A.length = 32) (ibit : Nat) (hi : ibit < 8) :
    xorAtBits (P ++ A ++ Q) (P.length + ibit) gen25 =
      P ++ xorBits A (zeros ibit ++ gen25 ++ zeros (7 - ibit)) ++ Q := by
  rw [xorAtBits_eq_xorBits _ _ _ (by simp [gen25_length, hA]; omega)]
  have e : zeros (P.length + ibit) ++ gen25 ++
      zeros ((P ++ A ++ Q).length - (P.length + ibit) - gen25.length) =
      zeros P.length ++ (zeros ibit ++ gen25 ++ zeros (7 - ibit)) ++ zeros Q.length := by
    have : (P ++ A ++ Q).length - (P.length + ibit) - gen25.length = (7 - ibit) + Q.length := by
      simp [gen25_length, hA]; omega
    rw [this]
    simp only [zeros, ← List.replicate_append_replicate, List.append_assoc]
  rw [e, xorBits_append _ _ _ _ (by simp [gen25_length, hA]; omega),
    xorBits_append _ _ _ _ (by simp), xorBits_zeros, xorBits_zeros]

theorem getD_window (P A Q : Bits) (i : Nat) (hi : i < A.length) :
    (P ++ A ++ Q).getD (P.length + i) false = A.getD i false := by
  rw [List.getD_eq_getElem?_getD, List.getD_eq_getElem?_getD, List.append_assoc,
    List.getElem?_append_right (Nat.le_add_right _ _), Nat.add_sub_cancel_left,
    List.getElem?_append_left hi]

/-! ### one inner-loop step: bytes vs bits -/

/-- simulation relation between the byte array and the bit array -/
def Rel (L : Nat) (mb : List Nat) (s : Bits) : Prop :=
  bitsOfBytes mb = s ∧ mb.length = L ∧ ∀ x ∈ mb, x < 256

/-- body of the bit-serial loop -/
def bitStep (s : Bits) (i : Nat) : Bits := if s.getD i false then xorAtBits s i gen25 else s

theorem decomp4 (mb : List Nat) (k : Nat) (h : k + 3 < mb.length) :
    ∃ pre a0 a1 a2 a3 post, mb = pre ++ a0 :: a1 :: a2 :: a3 :: post ∧ pre.length = k := by
  refine ⟨mb.take k, mb[k], mb[k+1], mb[k+2], mb[k+3], mb.drop (k + 4), ?_, ?_⟩
  · have e1 : mb.drop k = mb[k] :: mb.drop (k + 1) := List.drop_eq_getElem_cons (by omega)
    have e2 : mb.drop (k + 1) = mb[k+1] :: mb.drop (k + 2) := List.drop_eq_getElem_cons (by omega)
    have e3 : mb.drop (k + 2) = mb[k+2] :: mb.drop (k + 3) := List.drop_eq_getElem_cons (by omega)
    have e4 : mb.drop (k + 3) = mb[k+3] :: mb.drop (k + 4) := List.drop_eq_getElem_cons (by omega)
    rw [← e4, ← e3, ← e2, ← e1, List.take_append_drop]
  · rw [List.length_take]; omega

theorem sim_step (L : Nat) (mb : List Nat) (s : Bits) (k j : Nat) (hk : k + 3 < L) (hj : j < 8)
    (hR : Rel L mb s) : Rel L (crcInner Tables.crcG mb k j) (bitStep s (8 * k + j)) := by
  obtain ⟨hb, hl, hlt⟩ := hR
  obtain ⟨pre, a0, a1, a2, a3, post, e, hpre⟩ := decomp4 mb k (by omega)
  subst e
  subst hpre
  rw [crcInner_decomp]
  have ha0 : a0 < 256 := hlt a0 (by simp)
  have ha1 : a1 < 256 := hlt a1 (by simp)
  have ha2 : a2 < 256 := hlt a2 (by simp)
  have ha3 : a3 < 256 := hlt a3 (by simp)
  obtain ⟨hm, m0, m1, m2, m3⟩ := masks_spec j hj
  -- the bit array, decomposed
  have hs : s = bitsOfBytes pre ++
      (natToBits 8 a0 ++ natToBits 8 a1 ++ natToBits 8 a2 ++ natToBits 8 a3) ++ bitsOfBytes post := by
    rw [← hb]; simp [bitsOfBytes_append, bitsOfBytes_cons, List.append_assoc]
  have hidx : 8 * pre.length + j = (bitsOfBytes pre).length + j := by rw [bitsOfBytes_length]
  have hbit : s.getD (8 * pre.length + j) false = decide (a0 &&& (0x80 >>> j) > 0) := by
    rw [bit_test a0 ha0 j hj, hs, hidx, getD_window _ _ _ _ (by simp; omega)]
    simp [List.getD_eq_getElem?_getD, List.append_assoc, List.getElem?_append_left, hj]
  unfold bitStep
  rw [hbit]
  by_cases hc : a0 &&& (0x80 >>> j) > 0
  · simp only [hc, if_true, decide_true]
    refine ⟨?_, ?_, ?_⟩
    · rw [hs, hidx, window_xor _ _ _ (by simp) j hj, ← hm]
      simp only [bitsOfBytes_append, bitsOfBytes_cons, natToBits_xor]
      rw [xorBits_append _ _ _ _ (by simp), xorBits_append _ _ _ _ (by simp),
        xorBits_append _ _ _ _ (by simp)]
      simp [List.append_assoc]
    · simpa using hl
    · intro x hx
      simp only [List.mem_append, List.mem_cons] at hx
      rcases hx with hx | hx | hx | hx | hx | hx
      · exact hlt x (by simp [hx])
      · subst hx; exact Nat.xor_lt_two_pow (n := 8) ha0 m0
      · subst hx; exact Nat.xor_lt_two_pow (n := 8) ha1 m1
      · subst hx; exact Nat.xor_lt_two_pow (n := 8) ha2 m2
      · subst hx; exact Nat.xor_lt_two_pow (n := 8) ha3 m3
      · exact hlt x (by simp [hx])
  · simp only [hc, if_false, decide_false, Bool.false_eq_true]
    exact ⟨hb, hl, hlt⟩

/-! ### the loops -/

theorem foldl_sim {α β γ} (R : α → β → Prop) (fa : α → γ → α) (fb : β → γ → β) (l : List γ)
    (h : ∀ x ∈ l, ∀ a b, R a b → R (fa a x) (fb b x)) (a : α) (b : β) (hab : R a b) :
    R (l.foldl fa a) (l.foldl fb b) := by
  induction l generalizing a b with
  | nil => exact hab
  | cons x l ih =>
    simp only [List.foldl_cons]
    exact ih (fun y hy => h y (List.mem_cons_of_mem _ hy)) _ _ (h x (by simp) a b hab)

theorem range_mul8_foldl {β} (f : β → Nat → β) (s : β) (k : Nat) :
    (List.range (8 * (k + 1))).foldl f s =
      (List.range 8).foldl (fun s j => f s (8 * k + j)) ((List.range (8 * k)).foldl f s) := by
  have : 8 * (k + 1) = 8 * k + 8 := by omega
  rw [this, List.range_add, List.foldl_append, List.foldl_map]

theorem outer_sim (L : Nat) (mb0 : List Nat) (s0 : Bits) (hR : Rel L mb0 s0) (k : Nat) (hk : k + 3 ≤ L) :
    Rel L ((List.range k).foldl
        (fun mb ibyte => (List.range 8).foldl (fun mb ibit => crcInner Tables.crcG mb ibyte ibit) mb) mb0)
      ((List.range (8 * k)).foldl bitStep s0) := by
  induction k with
  | zero => exact hR
  | succ k ih =>
    have e : List.range (k + 1) = List.range k ++ [k] := List.range_succ
    rw [e, List.foldl_append, range_mul8_foldl]
    simp only [List.foldl_cons, List.foldl_nil]
    apply foldl_sim (Rel L)
    · intro j hj a b hab
      exact sim_step L a b k j (by omega) (List.mem_range.mp hj) hab
    · exact ih (by omega)

theorem bin2int_append (a b : Bits) : bin2int (a ++ b) = bin2int a * 2 ^ b.length + bin2int b := by
  induction b using snoc_induction with
  | nil => simp [bin2int_nil]
  | snoc b c ih =>
    rw [← List.append_assoc, bin2int_append_single, bin2int_append_single, ih]
    simp only [List.length_append, List.length_singleton, Nat.pow_succ]
    generalize 2 ^ b.length = p
    have : 2 * (bin2int a * p) = bin2int a * (p * 2) := by ac_rfl
    omega

theorem last3_spec (L : Nat) (mb : List Nat) (Z R : Bits) (hL : 3 ≤ L) (hR : Rel L mb (Z ++ R))
    (hlen : R.length = 24) : last3 mb = bin2int R := by
  obtain ⟨hb, hl, hlt⟩ := hR
  obtain ⟨pre, x, rest, e, hpre⟩ : ∃ pre x rest, mb = pre ++ x :: rest ∧ pre.length = L - 3 :=
    ⟨mb.take (L - 3), mb[L - 3], mb.drop (L - 3 + 1),
      by rw [← List.drop_eq_getElem_cons (by omega), List.take_append_drop],
      by rw [List.length_take]; omega⟩
  subst e
  have hr2 : rest.length = 2 := by simp at hl; omega
  obtain ⟨y, z, e⟩ : ∃ y z, rest = [y, z] := by
    match rest, hr2 with
    | [y, z], _ => exact ⟨y, z, rfl⟩
  subst e
  have hx : x < 256 := hlt x (by simp)
  have hy : y < 256 := hlt y (by simp)
  have hz : z < 256 := hlt z (by simp)
  have hR : natToBits 8 x ++ natToBits 8 y ++ natToBits 8 z = R := by
    have : bitsOfBytes pre ++ (natToBits 8 x ++ natToBits 8 y ++ natToBits 8 z) = Z ++ R := by
      rw [← hb]; simp [bitsOfBytes]
    exact (List.append_inj' this (by simp [hlen])).2
  have h1 : (pre ++ [x, y, z]).getD ((pre ++ [x, y, z]).length - 3) 0 = x := by
    simp [List.getD_eq_getElem?_getD]
  have h2 : (pre ++ [x, y, z]).getD ((pre ++ [x, y, z]).length - 2) 0 = y := by
    simp [List.getD_eq_getElem?_getD]
  have h3 : (pre ++ [x, y, z]).getD ((pre ++ [x, y, z]).length - 1) 0 = z := by
    simp [List.getD_eq_getElem?_getD]
  unfold last3
  simp only [h1, h2, h3]
  rw [← hR]
  have hv : ∀ v, v < 256 → bin2int (natToBits 8 v) = v := fun v hv =>
    bin2int_natToBits_of_lt (w := 8) hv
  rw [bin2int_append, bin2int_append, hv x hx, hv y hy, hv z hz]
  rw [Nat.or_assoc, ← Nat.shiftLeft_add_eq_or_of_lt (i := 8) hz,
    ← Nat.shiftLeft_add_eq_or_of_lt (i := 16) (by rw [Nat.shiftLeft_eq]; omega)]
  simp only [Nat.shiftLeft_eq, natToBits_length]
  omega

/-- T1: the byte-wise divider computes the Horner remainder, for any whole number ≥ 3 of bytes -/
theorem crcBitsPy_eq_remH (bits : Bits) (h8 : bits.length % 8 = 0) (h24 : 24 ≤ bits.length) :
    crcBitsPy bits = remH bits := by
  obtain ⟨k, hk⟩ : ∃ k, bits.length = 8 * k := ⟨bits.length / 8, by omega⟩
  obtain ⟨i1, i2, i3⟩ := bytesOfBits_spec k bits hk
  have hR0 : Rel k (bytesOfBits bits) bits := ⟨i1, i2, i3⟩
  have hk3 : 3 ≤ k := by omega
  have hsim := outer_sim k _ _ hR0 (k - 3) (by omega)
  have hbits : (List.range (8 * (k - 3))).foldl bitStep bits = crcLegacyLoop gen25 bits := by
    unfold crcLegacyLoop
    have : 8 * (k - 3) = bits.length - 24 := by omega
    rw [this]; rfl
  rw [hbits, crcLegacyLoop_gen25 bits h24] at hsim
  unfold crcBitsPy crcLoop
  rw [i2]
  rw [last3_spec k _ _ _ hk3 hsim (by simp)]
  exact bin2int_natToBits_of_lt (remH_lt bits)

end PyModeS.CRC
