/-
  CRC-24 / Horner recursion `Spec.remH`: bounds, GF(2)-linearity, leading zeros,
  multiples of the generator, shift injectivity.
-/
import PyModeS.Proofs.Bits
import PyModeS.Spec.CRC
namespace PyModeS.CRC
open PyModeS PyModeS.Spec

/-! ### `2*s + b` bitwise -/

theorem testBit_shift_zero (s : Nat) (b : Bool) : (2 * s + b.toNat).testBit 0 = b := by
  rw [Nat.testBit_zero]; cases b <;> simp <;> omega

theorem testBit_shift_succ (s : Nat) (b : Bool) (i : Nat) :
    (2 * s + b.toNat).testBit (i + 1) = s.testBit i := by
  rw [Nat.testBit_succ]
  have : (2 * s + b.toNat) / 2 = s := by cases b <;> simp <;> omega
  rw [this]

theorem shift_xor (s t : Nat) (a b : Bool) :
    2 * (s ^^^ t) + (a != b).toNat = (2 * s + a.toNat) ^^^ (2 * t + b.toNat) := by
  apply Nat.eq_of_testBit_eq
  intro i
  cases i with
  | zero => rw [Nat.testBit_xor, testBit_shift_zero, testBit_shift_zero, testBit_shift_zero]
  | succ i => rw [Nat.testBit_xor, testBit_shift_succ, testBit_shift_succ, testBit_shift_succ, Nat.testBit_xor]

/-! ### reduction of a 25-bit value -/

/-- conditional subtraction of G -/
def red (t : Nat) : Nat := if t.testBit 24 then t ^^^ G else t

theorem stepH_eq (s : Nat) (b : Bool) : stepH s b = red (2 * s + b.toNat) := rfl

theorem G_testBit_24 : G.testBit 24 = true := by decide
theorem G_lt : G < 2 ^ 25 := by decide

theorem red_xor (t u : Nat) : red (t ^^^ u) = red t ^^^ red u := by
  unfold red
  rw [Nat.testBit_xor]
  cases ht : t.testBit 24 <;> cases hu : u.testBit 24 <;> simp
  · rw [Nat.xor_assoc]
  · rw [Nat.xor_assoc, Nat.xor_comm u G, ← Nat.xor_assoc]
  · rw [Nat.xor_assoc, Nat.xor_comm G (u ^^^ G), Nat.xor_assoc, Nat.xor_self, Nat.xor_zero]

theorem red_lt {t : Nat} (h : t < 2 ^ 25) : red t < 2 ^ 24 := by
  apply Nat.lt_pow_two_of_testBit
  intro i hi
  unfold red
  have hbig : ∀ j, 25 ≤ j → t.testBit j = false ∧ G.testBit j = false := by
    intro j hj
    have h2 : (2:Nat) ^ 25 ≤ 2 ^ j := Nat.pow_le_pow_right (by decide) hj
    exact ⟨Nat.testBit_lt_two_pow (Nat.lt_of_lt_of_le h h2),
           Nat.testBit_lt_two_pow (Nat.lt_of_lt_of_le G_lt h2)⟩
  cases ht : t.testBit 24
  · simp only [Bool.false_eq_true, if_false]
    rcases Nat.eq_or_lt_of_le hi with h24 | h24
    · rw [← h24]; exact ht
    · exact (hbig i h24).1
  · simp only [if_true]
    rw [Nat.testBit_xor]
    rcases Nat.eq_or_lt_of_le hi with h24 | h24
    · rw [← h24, ht, G_testBit_24]; rfl
    · rw [(hbig i h24).1, (hbig i h24).2]; rfl

theorem stepH_lt {s : Nat} (h : s < 2 ^ 24) (b : Bool) : stepH s b < 2 ^ 24 := by
  rw [stepH_eq]; apply red_lt; cases b <;> simp <;> omega

theorem stepH_xor (s t : Nat) (a b : Bool) :
    stepH (s ^^^ t) (a != b) = stepH s a ^^^ stepH t b := by
  rw [stepH_eq, stepH_eq, stepH_eq, shift_xor, red_xor]

/-! ### the fold -/

/-- Horner recursion from an arbitrary state -/
def remFrom (s : Nat) (bits : Bits) : Nat := bits.foldl stepH s

theorem remH_eq_remFrom (bits : Bits) : remH bits = remFrom 0 bits := rfl
@[simp] theorem remFrom_nil (s : Nat) : remFrom s [] = s := rfl
@[simp] theorem remFrom_cons (s : Nat) (b : Bool) (l : Bits) : remFrom s (b :: l) = remFrom (stepH s b) l := rfl
theorem remFrom_append (s : Nat) (a b : Bits) : remFrom s (a ++ b) = remFrom (remFrom s a) b := by
  simp [remFrom, List.foldl_append]
theorem remH_append (a b : Bits) : remH (a ++ b) = remFrom (remH a) b := remFrom_append 0 a b

theorem remFrom_lt {s : Nat} (h : s < 2 ^ 24) (bits : Bits) : remFrom s bits < 2 ^ 24 := by
  induction bits generalizing s with
  | nil => exact h
  | cons b l ih => exact ih (stepH_lt h b)

/-- T3 -/
theorem remH_lt (bits : Bits) : remH bits < 2 ^ 24 := remFrom_lt (by decide) bits

theorem remFrom_xor (a b : Bits) (hl : a.length = b.length) (s t : Nat) :
    remFrom (s ^^^ t) (xorBits a b) = remFrom s a ^^^ remFrom t b := by
  induction a generalizing b s t with
  | nil =>
    cases b with
    | nil => rfl
    | cons _ _ => simp at hl
  | cons x a ih =>
    cases b with
    | nil => simp at hl
    | cons y b =>
      simp only [xorBits, remFrom_cons, stepH_xor]
      exact ih b (by simpa using hl) _ _

/-- T4: GF(2)-linearity of the remainder -/
theorem remH_xor (a b : Bits) (hl : a.length = b.length) :
    remH (xorBits a b) = remH a ^^^ remH b := by
  have := remFrom_xor a b hl 0 0
  simpa [remH_eq_remFrom] using this

/-! ### zeros -/

abbrev zeros (k : Nat) : Bits := List.replicate k false

theorem stepH_zero_false : stepH 0 false = 0 := by decide

theorem remFrom_zero_zeros (k : Nat) : remFrom 0 (zeros k) = 0 := by
  induction k with
  | zero => rfl
  | succ k ih => simp only [zeros, List.replicate_succ, remFrom_cons, stepH_zero_false]; exact ih

theorem remH_zeros (k : Nat) : remH (zeros k) = 0 := remFrom_zero_zeros k

theorem remH_zeros_append (k : Nat) (r : Bits) : remH (zeros k ++ r) = remH r := by
  rw [remH_append, remH_zeros]; rfl

/-- no reduction happens on the first 24 bits -/
theorem remH_short (r : Bits) (h : r.length ≤ 24) : remH r = bin2int r := by
  induction r using snoc_induction with
  | nil => rfl
  | snoc l b ih =>
    have hl : l.length < 24 := by simp at h; omega
    rw [remH_append, ih (by omega), bin2int_append_single]
    simp only [remFrom_cons, remFrom_nil]
    rw [stepH_eq]
    unfold red
    have hlt : 2 * bin2int l + b.toNat < 2 ^ 24 := by
      have h1 := bin2int_lt l
      have h2 : (2:Nat) ^ l.length ≤ 2 ^ 23 := Nat.pow_le_pow_right (by decide) (by omega)
      cases b <;> simp <;> omega
    rw [Nat.testBit_lt_two_pow hlt]; simp

theorem remH_zeros_short (k : Nat) (r : Bits) (h : r.length ≤ 24) :
    remH (zeros k ++ r) = bin2int r := by
  rw [remH_zeros_append, remH_short r h]

/-! ### multiples of the generator -/

/-- the 25 coefficient bits of G -/
def gen25 : Bits := natToBits 25 G

theorem remH_gen25 : remH gen25 = 0 := by decide +kernel

theorem remH_gen_shift (i j : Nat) : remH (zeros i ++ gen25 ++ zeros j) = 0 := by
  rw [List.append_assoc, remH_zeros_append, remH_append, remH_gen25, remFrom_zero_zeros]

/-! ### multiplication by x is injective (G has constant term 1) -/

theorem stepH_false_ne_zero {s : Nat} (hs : s ≠ 0) : stepH s false ≠ 0 := by
  rw [stepH_eq]
  unfold red
  simp only [Bool.toNat_false, Nat.add_zero]
  split
  · intro h
    have h2 : 2 * s = G := by
      have := congrArg (· ^^^ G) h
      simpa [Nat.xor_assoc] using this
    have : G % 2 = 1 := by decide
    omega
  · omega

theorem remFrom_zeros_ne_zero {s : Nat} (hs : s ≠ 0) (k : Nat) : remFrom s (zeros k) ≠ 0 := by
  induction k generalizing s with
  | zero => exact hs
  | succ k ih =>
    simp only [zeros, List.replicate_succ, remFrom_cons]
    exact ih (stepH_false_ne_zero hs)

theorem remFrom_zeros_eq_zero_iff (s k : Nat) : remFrom s (zeros k) = 0 ↔ s = 0 := by
  constructor
  · intro h
    apply Classical.byContradiction
    intro hs
    exact remFrom_zeros_ne_zero hs k h
  · intro h; subst h; exact remFrom_zero_zeros k

end PyModeS.CRC
