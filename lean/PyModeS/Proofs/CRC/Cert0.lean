/- Kernel-checked certificate, part 0: heads 0 … 9 of the syndrome table. -/
import PyModeS.Proofs.CRC.Syndrome
namespace PyModeS.CRC

theorem cert0 : pairsOKn 10 (synTable.drop 0) = true := by decide +kernel

end PyModeS.CRC
