/-
  Address/parity overlay: `remH (d ++ natToBits 24 x) = remH (d ++ zeros 24) ^^^ x`;
  `icao` on AP formats, letter-case insensitivity, `interrogator`.
-/
import PyModeS.Proofs.CRC.Model
import PyModeS.Proofs.CRC.Detect
import PyModeS.Proofs.CRC.HexStr
namespace PyModeS.CRC
open PyModeS PyModeS.Spec

/-- overlaying `x` on the 24 parity positions adds `x` to the remainder -/
theorem remH_append_field (d : Bits) (x : Nat) (hx : x < 2 ^ 24) :
    remH (d ++ natToBits 24 x) = remH (d ++ zeros 24) ^^^ x := by
  have e : d ++ natToBits 24 x = xorBits (d ++ zeros 24) (zeros d.length ++ natToBits 24 x) := by
    rw [xorBits_append _ _ _ _ (by simp), xorBits_zeros, zeros_xorBits' 24 _ (by simp)]
  rw [e, remH_xor _ _ (by simp), remH_zeros_short _ _ (by simp), bin2int_natToBits_of_lt hx]

theorem xor_xor_cancel (p a : Nat) : p ^^^ (p ^^^ a) = a := by
  rw [← Nat.xor_assoc, Nat.xor_self, Nat.zero_xor]

/-- remainder of a frame = parity(data) xor the last 24 bits -/
theorem remH_frame (bits : Bits) (h : 24 ≤ bits.length) :
    remH bits = remH (dropLast 24 bits ++ zeros 24) ^^^ bin2int (takeLast 24 bits) := by
  have hl : (takeLast 24 bits).length = 24 := by simp [takeLast]; omega
  have e : bits = dropLast 24 bits ++ natToBits 24 (bin2int (takeLast 24 bits)) := by
    have := natToBits_bin2int (takeLast 24 bits)
    rw [hl] at this
    rw [this]; exact (List.take_append_drop _ _).symm
  have hlt : bin2int (takeLast 24 bits) < 2 ^ 24 := by
    have := bin2int_lt (takeLast 24 bits); rwa [hl] at this
  conv => lhs; rw [e]
  exact remH_append_field _ _ hlt

/-! ### icao -/

theorem icao_AP_of (m : Msg) (A : Nat) (h6 : 6 ≤ m.length) (h2 : m.length % 2 = 0)
    (hdf : df m = 0 ∨ df m = 4 ∨ df m = 5 ∨ df m = 16 ∨ df m = 20 ∨ df m = 21)
    (hap : hexToNatM (takeLast 6 m) =
      remH (hex2binM (dropLast 6 m) ++ List.replicate 24 false) ^^^ A) :
    icao m = some (hex6 A) := by
  have h1 : ¬ (df m = 11 ∨ df m = 17 ∨ df m = 18) := by omega
  unfold icao
  simp only [h1, if_false, hdf, if_true]
  rw [crc_true_eq_remH m h6 h2, hap, xor_xor_cancel]

theorem slice_0_5_append (d x : Bits) (h : 5 ≤ d.length) : slice 0 5 (d ++ x) = slice 0 5 d := by
  simp [slice, List.take_append_of_le_length h]

theorem dfB_append (d x : Bits) (h : 5 ≤ d.length) : dfB (d ++ x) = dfB d := by
  unfold dfB; rw [slice_0_5_append d x h]

/-- the downlink AP encoder: data bits followed by `parity xor address`, as a hex string -/
def encodeAP (d : Bits) (A : Nat) : Msg :=
  hexOfBits (d ++ natToBits 24 (remH (d ++ List.replicate 24 false) ^^^ A))

theorem hex2binM_encodeAP (d : Bits) (A : Nat) (h4 : d.length % 4 = 0) :
    hex2binM (encodeAP d A) = d ++ natToBits 24 (remH (d ++ List.replicate 24 false) ^^^ A) :=
  hex2binM_hexOfBits _ (by simp; omega)

theorem encodeAP_length (d : Bits) (A : Nat) : (encodeAP d A).length = (d.length + 24) / 4 := by
  simp [encodeAP, hexOfBits_length]

theorem dropLast_append_length {α} (a b : List α) : dropLast b.length (a ++ b) = a := by
  simp [dropLast]

theorem encodeAP_spec (d : Bits) (A : Nat) (hA : A < 2 ^ 24) (h4 : d.length % 4 = 0) :
    hex2binM (dropLast 6 (encodeAP d A)) = d ∧
    hexToNatM (takeLast 6 (encodeAP d A)) =
      remH (hex2binM (dropLast 6 (encodeAP d A)) ++ List.replicate 24 false) ^^^ A := by
  have hb := hex2binM_encodeAP d A h4
  have hP := remH_lt (d ++ List.replicate 24 false)
  obtain ⟨P, hPe⟩ : ∃ P, P = remH (d ++ List.replicate 24 false) := ⟨_, rfl⟩
  rw [← hPe] at hb hP
  have hx : P ^^^ A < 2 ^ 24 := Nat.xor_lt_two_pow hP hA
  have h1 : hex2binM (dropLast 6 (encodeAP d A)) = d := by
    rw [hex2binM_dropLast, hb]
    have := dropLast_append_length d (natToBits 24 (P ^^^ A))
    rwa [natToBits_length] at this
  refine ⟨h1, ?_⟩
  rw [h1, hexToNatM_eq_bin2int]
  have h2 : hex2binM (takeLast 6 (encodeAP d A)) = natToBits 24 (P ^^^ A) := by
    unfold takeLast
    rw [hex2binM_drop, hb]
    have hl := encodeAP_length d A
    have : 4 * ((encodeAP d A).length - 6) = d.length := by rw [hl]; omega
    rw [this]; simp
  rw [h2, ← hPe, bin2int_natToBits_of_lt hx]

theorem icao_encodeAP (d : Bits) (A : Nat) (hA : A < 2 ^ 24) (h8 : d.length % 8 = 0) (hd : 8 ≤ d.length)
    (hdf : dfB d = 0 ∨ dfB d = 4 ∨ dfB d = 5 ∨ dfB d = 16 ∨ dfB d = 20 ∨ dfB d = 21) :
    icao (encodeAP d A) = some (hex6 A) := by
  have hl := encodeAP_length d A
  have hdf' : df (encodeAP d A) = dfB d := by
    rw [df_eq, hex2binM_encodeAP d A (by omega), dfB_append _ _ (by omega)]
  exact icao_AP_of _ A (by omega) (by omega) (by rw [hdf']; exact hdf)
    (encodeAP_spec d A hA (by omega)).2

/-! ### letter case -/

theorem crc_map (f : Char → Char) (m : Msg) (e : Bool) (hf : ∀ c ∈ m, hexVal (f c) = hexVal c) :
    crc (m.map f) e = crc m e := by
  unfold crc
  cases e
  · simp only [Bool.false_eq_true, if_false]; rw [hex2binM_map f m hf]
  · simp only [if_true]
    rw [hex2binM_append', hex2binM_append', dropLast_map,
      hex2binM_map f (dropLast 6 m) (fun c hc => hf c (List.mem_of_mem_take hc))]

theorem df_map (f : Char → Char) (m : Msg) (hf : ∀ c ∈ m, hexVal (f c) = hexVal c) :
    df (m.map f) = df m := by
  unfold df
  rw [← List.map_take, hex2binM_map f (m.take 2) (fun c hc => hf c (List.mem_of_mem_take hc))]

theorem icao_map (f : Char → Char) (m : Msg)
    (hf : ∀ c ∈ m, hexVal (f c) = hexVal c ∧ (f c).toUpper = c.toUpper) :
    icao (m.map f) = icao m := by
  have hv : ∀ c ∈ m, hexVal (f c) = hexVal c := fun c hc => (hf c hc).1
  unfold icao
  simp only [df_map f m hv, crc_map f m true hv]
  rw [takeLast_map, hexToNatM_map f (takeLast 6 m) (fun c hc => hv c (List.mem_of_mem_drop hc)), slice_map,
    List.map_map]
  have : (slice 2 8 m).map (Char.toUpper ∘ f) = (slice 2 8 m).map Char.toUpper := by
    apply List.map_congr_left
    intro c hc
    exact (hf c (List.mem_of_mem_drop (List.mem_of_mem_take hc))).2
  rw [this]

theorem icao_toLower (m : Msg) (h : IsHex m) : icao (m.map Char.toLower) = icao m :=
  icao_map _ m (fun c hc => ⟨(hexFacts c (h c hc)).2.1, (hexFacts c (h c hc)).2.2.2.2.2.1⟩)

theorem icao_toUpper (m : Msg) (h : IsHex m) : icao (m.map Char.toUpper) = icao m :=
  icao_map _ m (fun c hc => ⟨(hexFacts c (h c hc)).2.2.1, (hexFacts c (h c hc)).2.2.2.2.2.2.1⟩)

/-- DF 11/17/18: the upper-cased AA field is the canonical rendering of its value -/
theorem icao_AA_canonical (m : Msg) (h : IsHex m) (h8 : 8 ≤ m.length)
    (hdf : df m = 11 ∨ df m = 17 ∨ df m = 18) :
    icao m = some (hex6 (hexToNatM (slice 2 8 m))) ∧ hexToNatM (slice 2 8 m) < 2 ^ 24 := by
  have hl : (slice 2 8 m).length = 6 := by rw [slice_length_of_le h8]
  have hlt : hexToNatM (slice 2 8 m) < 2 ^ 24 := by
    have := hexToNatM_lt (slice 2 8 m); rw [hl] at this; exact this
  refine ⟨?_, hlt⟩
  unfold icao
  simp only [hdf, if_true]
  rw [hex6_eq_hexN hlt, map_toUpper_eq_hexN _ (isHex_slice h 2 8), hl]

/-! ### interrogator -/

theorem crcBitsPy_code (bits : Bits) (code : Nat) (h8 : bits.length % 8 = 0) (h24 : 24 ≤ bits.length)
    (hap : bin2int (takeLast 24 bits) = remH (dropLast 24 bits ++ List.replicate 24 false) ^^^ code) :
    crcBitsPy bits = code := by
  rw [crcBitsPy_eq_remH bits h8 h24, remH_frame bits h24, hap, xor_xor_cancel]

/-- a frame built as `data ++ (parity xor code)` satisfies the hypothesis of `crcBitsPy_code` -/
theorem frame_field_spec (d : Bits) (code : Nat) (hc : code < 2 ^ 24) :
    let bits := d ++ natToBits 24 (remH (d ++ List.replicate 24 false) ^^^ code)
    dropLast 24 bits = d ∧
    bin2int (takeLast 24 bits) = remH (dropLast 24 bits ++ List.replicate 24 false) ^^^ code := by
  intro bits
  have hx : remH (d ++ List.replicate 24 false) ^^^ code < 2 ^ 24 :=
    Nat.xor_lt_two_pow (remH_lt _) hc
  have h1 : dropLast 24 bits = d := by
    have := dropLast_append_length d (natToBits 24 (remH (d ++ List.replicate 24 false) ^^^ code))
    rwa [natToBits_length] at this
  have h2 : takeLast 24 bits = natToBits 24 (remH (d ++ List.replicate 24 false) ^^^ code) := by
    have := takeLast_append d (natToBits 24 (remH (d ++ List.replicate 24 false) ^^^ code))
    rwa [natToBits_length] at this
  exact ⟨h1, by rw [h1, h2, bin2int_natToBits_of_lt hx]⟩

end PyModeS.CRC
