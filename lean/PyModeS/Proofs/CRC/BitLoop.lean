/-
  The bit-serial in-place long division (`crcLegacyLoop` with the 25 generator bits)
  leaves `zeros (n-24) ++ <24-bit remainder>`.
-/
import PyModeS.Proofs.CRC.Horner
import PyModeS.Model.Common
namespace PyModeS.CRC
open PyModeS PyModeS.Spec

theorem xorBits_zeros (l : Bits) : xorBits l (zeros l.length) = l := by
  induction l with
  | nil => rfl
  | cons a l ih => simp only [zeros, List.length_cons, List.replicate_succ, xorBits] at ih ⊢; rw [ih]; simp

theorem xorBits_length (a b : Bits) (h : a.length = b.length) : (xorBits a b).length = a.length := by
  induction a generalizing b with
  | nil => cases b with
    | nil => rfl
    | cons _ _ => simp at h
  | cons x a ih => cases b with
    | nil => simp at h
    | cons y b => simp only [xorBits, List.length_cons]; rw [ih b (by simpa using h)]

theorem xorBits_append (a b c d : Bits) (h : a.length = b.length) :
    xorBits (a ++ c) (b ++ d) = xorBits a b ++ xorBits c d := by
  induction a generalizing b with
  | nil => cases b with
    | nil => rfl
    | cons _ _ => simp at h
  | cons x a ih => cases b with
    | nil => simp at h
    | cons y b => simp only [List.cons_append, xorBits]; rw [ih b (by simpa using h)]

/-- `xorBits'` (xor into the front, keep length) as a full-length xor -/
theorem xorBits'_eq (l g : Bits) (h : g.length ≤ l.length) :
    xorAtBits.xorBits' l g = xorBits l (g ++ zeros (l.length - g.length)) := by
  induction l generalizing g with
  | nil => cases g with
    | nil => rfl
    | cons _ _ => simp at h
  | cons a l ih =>
    cases g with
    | nil =>
      have := xorBits_zeros (a :: l)
      simp only [List.length_nil, Nat.sub_zero, List.nil_append]
      rw [this]; rfl
    | cons b g =>
      simp only [xorAtBits.xorBits', List.cons_append, xorBits, List.length_cons]
      rw [ih g (by simpa using h)]
      simp

theorem xorAtBits_zeros_append (k : Nat) (l g : Bits) :
    xorAtBits (zeros k ++ l) k g = zeros k ++ xorAtBits.xorBits' l g := by
  induction k with
  | zero => simp [xorAtBits]
  | succ k ih => simp only [zeros, List.replicate_succ, List.cons_append, xorAtBits]; rw [← ih]

theorem gen25_eq : gen25 = true :: (natToBits 24 (G % 2 ^ 24)) := by decide +kernel

theorem gen25_length : gen25.length = 25 := by simp [gen25]

/-- one division step on a window starting with a 1 bit -/
theorem div_step (rest : Bits) (h : 24 ≤ rest.length) :
    ∃ rest', xorAtBits.xorBits' (true :: rest) gen25 = false :: rest' ∧
      rest'.length = rest.length ∧ remH rest' = remH (true :: rest) := by
  have hx := xorBits'_eq (true :: rest) gen25 (by rw [gen25_length]; simp; omega)
  have hr : remH (xorAtBits.xorBits' (true :: rest) gen25) = remH (true :: rest) := by
    rw [hx, remH_xor _ _ (by simp [gen25_length]; omega)]
    have := remH_gen_shift 0 ((true :: rest).length - gen25.length)
    simp only [zeros, List.replicate_zero, List.nil_append] at this
    rw [this, Nat.xor_zero]
  rw [gen25_eq] at hx
  simp only [List.cons_append, xorBits] at hx
  refine ⟨_, hx, ?_, ?_⟩
  · rw [xorBits_length]; simp; omega
  · rw [← hr, gen25_eq, hx]
    exact (remH_zeros_append 1 _).symm

theorem loop_invariant (bits : Bits) (k : Nat) (hk : k + 24 ≤ bits.length) :
    ∃ rest, (List.range k).foldl
        (fun s i => if s.getD i false then xorAtBits s i gen25 else s) bits = zeros k ++ rest ∧
      rest.length = bits.length - k ∧ remH rest = remH bits := by
  induction k with
  | zero => exact ⟨bits, rfl, rfl, rfl⟩
  | succ k ih =>
    obtain ⟨rest, h1, h2, h3⟩ := ih (by omega)
    rw [List.range_succ, List.foldl_append, h1]
    simp only [List.foldl_cons, List.foldl_nil]
    cases rest with
    | nil => simp at h2; omega
    | cons b rest =>
      have hg : (zeros k ++ b :: rest).getD k false = b := by
        simp [List.getD_eq_getElem?_getD]
      rw [hg]
      have hz : ∀ l : Bits, zeros k ++ false :: l = zeros (k + 1) ++ l := by
        intro l
        simp only [zeros, List.replicate_succ']
        simp
      cases b with
      | false =>
        refine ⟨rest, ?_, ?_, ?_⟩
        · simp only [Bool.false_eq_true, if_false]; exact hz rest
        · simp at h2; omega
        · rw [← h3]; exact (remH_zeros_append 1 rest).symm
      | true =>
        simp only [if_true]
        obtain ⟨rest', e1, e2, e3⟩ := div_step rest (by simp at h2; omega)
        refine ⟨rest', ?_, ?_, ?_⟩
        · rw [xorAtBits_zeros_append, e1]; exact hz rest'
        · simp at h2; omega
        · rw [e3, h3]

/-- the bit-serial divider leaves the remainder in the last 24 positions, zeros elsewhere -/
theorem crcLegacyLoop_gen25 (bits : Bits) (h : 24 ≤ bits.length) :
    crcLegacyLoop gen25 bits = zeros (bits.length - 24) ++ natToBits 24 (remH bits) := by
  obtain ⟨rest, h1, h2, h3⟩ := loop_invariant bits (bits.length - 24) (by omega)
  unfold crcLegacyLoop
  rw [h1]
  have hl : rest.length = 24 := by omega
  have : rest = natToBits 24 (remH bits) := by
    rw [← h3, remH_short rest (by omega), ← hl, natToBits_bin2int]
  rw [this]

end PyModeS.CRC
