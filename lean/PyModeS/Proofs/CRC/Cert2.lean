/- Kernel-checked certificate, part 2: heads 23 … 40 of the syndrome table. -/
import PyModeS.Proofs.CRC.Syndrome
namespace PyModeS.CRC

theorem cert2 : pairsOKn 18 (synTable.drop 23) = true := by decide +kernel

end PyModeS.CRC
