import PyModeS.Model.Common
import PyModeS.Spec.Altitude
namespace PyModeS.C07
/-- kernel-checked: model = Annex 10 spec on codes 4096 .. 5119 -/
theorem chunk4 : (List.range' 4096 1024).all
    (fun c => decide (altitude13 (natToBits 13 c) = .val (Spec.alt13 c))) = true := by
  decide +kernel
end PyModeS.C07
