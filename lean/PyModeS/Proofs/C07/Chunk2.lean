import PyModeS.Model.Common
import PyModeS.Spec.Altitude
namespace PyModeS.C07
/-- kernel-checked: model = Annex 10 spec on codes 2048 .. 3071 -/
theorem chunk2 : (List.range' 2048 1024).all
    (fun c => decide (altitude13 (natToBits 13 c) = .val (Spec.alt13 c))) = true := by
  decide +kernel
end PyModeS.C07
