import PyModeS.Spec.Altitude
namespace PyModeS.C07
open Spec
theorem q25_enum : (List.range 2048).all
    (fun n => decide (alt13 (bin2int (ac13OfN25 n)) = some ((n : Int) * 25 - 1000))) = true := by
  decide +kernel
end PyModeS.C07
