import PyModeS.Model.Common
import PyModeS.Spec.Altitude
namespace PyModeS.C07
/-- kernel-checked: model = Annex 10 spec on codes 5120 .. 6143 -/
theorem chunk5 : (List.range' 5120 1024).all
    (fun c => decide (altitude13 (natToBits 13 c) = .val (Spec.alt13 c))) = true := by
  decide +kernel
end PyModeS.C07
