import PyModeS.Proofs.Enum
import PyModeS.Proofs.C07.Chunk0
import PyModeS.Proofs.C07.Chunk1
import PyModeS.Proofs.C07.Chunk2
import PyModeS.Proofs.C07.Chunk3
import PyModeS.Proofs.C07.Chunk4
import PyModeS.Proofs.C07.Chunk5
import PyModeS.Proofs.C07.Chunk6
import PyModeS.Proofs.C07.Chunk7
namespace PyModeS.C07

theorem alt13_all (c : Nat) (h : c < 8192) : altitude13 (natToBits 13 c) = .val (Spec.alt13 c) := by
  have key : ∀ (s : Nat), (List.range' s 1024).all
      (fun c => decide (altitude13 (natToBits 13 c) = .val (Spec.alt13 c))) = true →
      s ≤ c → c < s + 1024 → altitude13 (natToBits 13 c) = .val (Spec.alt13 c) := by
    intro s hs h1 h2
    have := all_range'_imp hs c h1 h2
    simpa using this
  by_cases h0 : c < 1024
  · exact key 0 chunk0 (by omega) (by omega)
  by_cases h1 : c < 2048
  · exact key 1024 chunk1 (by omega) (by omega)
  by_cases h2 : c < 3072
  · exact key 2048 chunk2 (by omega) (by omega)
  by_cases h3 : c < 4096
  · exact key 3072 chunk3 (by omega) (by omega)
  by_cases h4 : c < 5120
  · exact key 4096 chunk4 (by omega) (by omega)
  by_cases h5 : c < 6144
  · exact key 5120 chunk5 (by omega) (by omega)
  by_cases h6 : c < 7168
  · exact key 6144 chunk6 (by omega) (by omega)
  · exact key 7168 chunk7 (by omega) (by omega)

end PyModeS.C07
