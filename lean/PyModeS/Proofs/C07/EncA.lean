import PyModeS.Spec.Altitude
namespace PyModeS.C07
open Spec
/-- Gillham encoder then the spec's altitude: every legal 100-ft altitude -/
theorem gillham_enum : (List.range 1280).all
    (fun k => decide (alt13 (bin2int (ac13OfAlt k)) = some ((k : Int) * 100 - 1200))) = true := by
  decide +kernel
/-- the three illegal 100-ft patterns (C1 C2 C4 = 000, 101, 111) give no altitude -/
theorem illegal_enum : (List.range 256).all
    (fun g => decide (alt13 (bin2int (ac13OfGillham g 0)) = none ∧ alt13 (bin2int (ac13OfGillham g 5)) = none
      ∧ alt13 (bin2int (ac13OfGillham g 7)) = none)) = true := by
  decide +kernel
/-- `kOf` inverts the encoder on legal patterns -/
theorem kOf_enum : (List.range 1280).all
    (fun k => decide (kOf (gillhamFields k).1 (gillhamFields k).2 = k ∧ legalC (gillhamFields k).2 = true)) = true := by
  decide +kernel
end PyModeS.C07
