import PyModeS.Model.Common
import PyModeS.Spec.Altitude
namespace PyModeS.C07
/-- kernel-checked: model = Annex 10 spec on codes 1024 .. 2047 -/
theorem chunk1 : (List.range' 1024 1024).all
    (fun c => decide (altitude13 (natToBits 13 c) = .val (Spec.alt13 c))) = true := by
  decide +kernel
end PyModeS.C07
