import PyModeS.Model.Common
import PyModeS.Spec.Altitude
namespace PyModeS.C07
/-- kernel-checked: model = Annex 10 spec on codes 7168 .. 8191 -/
theorem chunk7 : (List.range' 7168 1024).all
    (fun c => decide (altitude13 (natToBits 13 c) = .val (Spec.alt13 c))) = true := by
  decide +kernel
end PyModeS.C07
