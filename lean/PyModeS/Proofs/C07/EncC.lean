import PyModeS.Spec.Altitude
namespace PyModeS.C07
open Spec
theorem metric_enum : (List.range' 1 4095).all
    (fun n => decide (alt13 (bin2int (ac13OfMetric n)) = some (((n * 328084 / 100000 : Nat) : Int)))) = true := by
  decide +kernel
end PyModeS.C07
