import PyModeS.Model.Common
import PyModeS.Spec.Altitude
namespace PyModeS.C07
/-- kernel-checked: model = Annex 10 spec on codes 0 .. 1023 -/
theorem chunk0 : (List.range' 0 1024).all
    (fun c => decide (altitude13 (natToBits 13 c) = .val (Spec.alt13 c))) = true := by
  decide +kernel
end PyModeS.C07
