/- Lifting kernel-checked enumerations `(List.range' s n).all P = true` to `∀ c`. -/
namespace PyModeS

theorem all_range'_imp {P : Nat → Bool} {s n : Nat} (h : (List.range' s n).all P = true) :
    ∀ c, s ≤ c → c < s + n → P c = true := by
  intro c h1 h2
  rw [List.all_eq_true] at h
  exact h c (List.mem_range'_1.mpr ⟨h1, h2⟩)

theorem all_range_imp {P : Nat → Bool} {n : Nat} (h : (List.range n).all P = true) :
    ∀ c, c < n → P c = true := by
  intro c h1
  rw [List.all_eq_true] at h
  exact h c (List.mem_range.mpr h1)

end PyModeS
