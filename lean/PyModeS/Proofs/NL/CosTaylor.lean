/-
  NL / Part 2a: alternating Taylor bounds for `cos` and `sin` on `x ≥ 0` (any order, no smallness
  condition), proved by induction through derivatives:
    `cosT (2j) x ≤ cos x ≤ cosT (2j+1) x`,  `sinT (2j) x ≤ sin x ≤ sinT (2j+1) x`   (j ≥ 1 / any)
  where `cosT K`, `sinT K` are the sums of the first `K` terms of the series.
-/
import Mathlib.Analysis.Real.Pi.Bounds
import Mathlib.Analysis.SpecialFunctions.Trigonometric.Inverse

namespace PyModeS.NL

open Real

/-- first `K` terms of the cosine series -/
noncomputable def cosT : ℕ → ℝ → ℝ
  | 0, _ => 0
  | K + 1, x => cosT K x + (-1) ^ K * x ^ (2 * K) / ((2 * K).factorial : ℝ)

/-- first `K` terms of the sine series -/
noncomputable def sinT : ℕ → ℝ → ℝ
  | 0, _ => 0
  | K + 1, x => sinT K x + (-1) ^ K * x ^ (2 * K + 1) / ((2 * K + 1).factorial : ℝ)

theorem cosT_succ (K : ℕ) :
    cosT (K + 1) = fun x => cosT K x + (-1) ^ K * x ^ (2 * K) / ((2 * K).factorial : ℝ) := by
  funext x; rfl

theorem sinT_succ (K : ℕ) :
    sinT (K + 1) = fun x => sinT K x + (-1) ^ K * x ^ (2 * K + 1) / ((2 * K + 1).factorial : ℝ) := by
  funext x; rfl

theorem cosT_zero_fun : cosT 0 = fun _ => 0 := by funext x; rfl
theorem sinT_zero_fun : sinT 0 = fun _ => 0 := by funext x; rfl

theorem sinT_at_zero (K : ℕ) : sinT K 0 = 0 := by
  induction K with
  | zero => rfl
  | succ K ih => rw [sinT_succ]; simp [ih]

theorem cosT_at_zero (K : ℕ) : cosT (K + 1) 0 = 1 := by
  induction K with
  | zero => rw [cosT_succ]; simp [cosT]
  | succ K ih => rw [cosT_succ]; simp [ih]

theorem hasDerivAt_sinT (K : ℕ) (x : ℝ) : HasDerivAt (sinT K) (cosT K x) x := by
  induction K with
  | zero => rw [sinT_zero_fun]; exact hasDerivAt_const x 0
  | succ K ih =>
    rw [sinT_succ, cosT_succ]
    have h := ((hasDerivAt_pow (2 * K + 1) x).const_mul ((-1 : ℝ) ^ K)).div_const
      ((2 * K + 1).factorial : ℝ)
    refine (ih.add h).congr_deriv ?_
    have hf : ((2 * K + 1).factorial : ℝ) = ((2 * K + 1 : ℕ) : ℝ) * ((2 * K).factorial : ℝ) := by
      rw [Nat.factorial_succ]; push_cast; ring
    have h0 : ((2 * K).factorial : ℝ) ≠ 0 := by positivity
    have h1 : ((2 * K + 1 : ℕ) : ℝ) ≠ 0 := by positivity
    rw [hf]
    simp only [Nat.add_sub_cancel]
    field_simp

theorem hasDerivAt_cosT (K : ℕ) (x : ℝ) : HasDerivAt (cosT (K + 1)) (-(sinT K x)) x := by
  induction K with
  | zero =>
    rw [cosT_succ, cosT_zero_fun]
    simp only [sinT, neg_zero, Nat.mul_zero, pow_zero]
    exact hasDerivAt_const x _
  | succ K ih =>
    rw [cosT_succ (K + 1), sinT_succ]
    have h := ((hasDerivAt_pow (2 * (K + 1)) x).const_mul ((-1 : ℝ) ^ (K + 1))).div_const
      ((2 * (K + 1)).factorial : ℝ)
    refine (ih.add h).congr_deriv ?_
    have e : 2 * (K + 1) = (2 * K + 1) + 1 := by ring
    have hf : ((2 * (K + 1)).factorial : ℝ) =
        ((2 * K + 1 + 1 : ℕ) : ℝ) * ((2 * K + 1).factorial : ℝ) := by
      rw [e, Nat.factorial_succ]; push_cast; ring
    have h0 : ((2 * K + 1).factorial : ℝ) ≠ 0 := by positivity
    have h1 : ((2 * K + 1 + 1 : ℕ) : ℝ) ≠ 0 := by positivity
    rw [hf]
    have e2 : 2 * (K + 1) - 1 = 2 * K + 1 := by omega
    rw [e2, e]
    rw [pow_succ (-1 : ℝ) K]
    field_simp
    ring

/-- a function vanishing at 0 with non-negative derivative on `[0, ∞)` is non-negative there -/
theorem nonneg_of_hasDerivAt {f f' : ℝ → ℝ} (h0 : f 0 = 0)
    (hd : ∀ x, HasDerivAt f (f' x) x) (hpos : ∀ x, 0 ≤ x → 0 ≤ f' x) :
    ∀ x, 0 ≤ x → 0 ≤ f x := by
  intro x hx
  have hmono : MonotoneOn f (Set.Ici 0) := by
    apply monotoneOn_of_deriv_nonneg (convex_Ici 0)
    · exact (fun y _ => (hd y).continuousAt.continuousWithinAt)
    · exact fun y _ => (hd y).differentiableAt.differentiableWithinAt
    · intro y hy
      rw [interior_Ici] at hy
      rw [(hd y).deriv]
      exact hpos y (le_of_lt hy)
  have := hmono (Set.mem_Ici.mpr (le_refl 0)) (Set.mem_Ici.mpr hx) hx
  rw [h0] at this
  exact this

/-- the signed remainders are non-negative on `x ≥ 0` -/
theorem alt_bounds (K : ℕ) :
    (∀ x : ℝ, 0 ≤ x → 0 ≤ (-1 : ℝ) ^ K * (cosT (K + 1) x - cos x)) ∧
    (∀ x : ℝ, 0 ≤ x → 0 ≤ (-1 : ℝ) ^ K * (sinT (K + 1) x - sin x)) := by
  induction K with
  | zero =>
    have hA : ∀ x : ℝ, 0 ≤ x → 0 ≤ (-1 : ℝ) ^ 0 * (cosT (0 + 1) x - cos x) := by
      intro x _
      have : cosT (0 + 1) x = 1 := by simp [cosT]
      rw [this, pow_zero, one_mul]
      linarith [cos_le_one x]
    refine ⟨hA, ?_⟩
    apply nonneg_of_hasDerivAt (f' := fun x => (-1 : ℝ) ^ 0 * (cosT (0 + 1) x - cos x))
    · simp [sinT_at_zero]
    · intro x
      exact ((hasDerivAt_sinT (0 + 1) x).sub (hasDerivAt_sin x)).const_mul _
    · exact hA
  | succ K ih =>
    obtain ⟨_, hB⟩ := ih
    have hA : ∀ x : ℝ, 0 ≤ x → 0 ≤ (-1 : ℝ) ^ (K + 1) * (cosT (K + 1 + 1) x - cos x) := by
      apply nonneg_of_hasDerivAt (f' := fun x => (-1 : ℝ) ^ K * (sinT (K + 1) x - sin x))
      · rw [cosT_at_zero]; simp
      · intro x
        have h := ((hasDerivAt_cosT (K + 1) x).sub (hasDerivAt_cos x)).const_mul
          ((-1 : ℝ) ^ (K + 1))
        refine h.congr_deriv ?_
        rw [pow_succ]; ring
      · exact hB
    refine ⟨hA, ?_⟩
    apply nonneg_of_hasDerivAt (f' := fun x => (-1 : ℝ) ^ (K + 1) * (cosT (K + 1 + 1) x - cos x))
    · simp [sinT_at_zero]
    · intro x
      exact ((hasDerivAt_sinT (K + 1 + 1) x).sub (hasDerivAt_sin x)).const_mul _
    · exact hA

/-- an even number (≥ 2) of terms is a lower bound of `cos` on `x ≥ 0` -/
theorem cosT_even_le (j : ℕ) (x : ℝ) (hx : 0 ≤ x) : cosT (2 * j + 2) x ≤ cos x := by
  have h := (alt_bounds (2 * j + 1)).1 x hx
  have hodd : (-1 : ℝ) ^ (2 * j + 1) = -1 := Odd.neg_one_pow ⟨j, rfl⟩
  rw [hodd] at h
  linarith

/-- an odd number of terms is an upper bound of `cos` on `x ≥ 0` -/
theorem le_cosT_odd (j : ℕ) (x : ℝ) (hx : 0 ≤ x) : cos x ≤ cosT (2 * j + 1) x := by
  have h := (alt_bounds (2 * j)).1 x hx
  have hev : (-1 : ℝ) ^ (2 * j) = 1 := Even.neg_one_pow ⟨j, by ring⟩
  rw [hev] at h
  linarith

theorem sinT_even_le (j : ℕ) (x : ℝ) (hx : 0 ≤ x) : sinT (2 * j + 2) x ≤ sin x := by
  have h := (alt_bounds (2 * j + 1)).2 x hx
  have hodd : (-1 : ℝ) ^ (2 * j + 1) = -1 := Odd.neg_one_pow ⟨j, rfl⟩
  rw [hodd] at h
  linarith

theorem le_sinT_odd (j : ℕ) (x : ℝ) (hx : 0 ≤ x) : sin x ≤ sinT (2 * j + 1) x := by
  have h := (alt_bounds (2 * j)).2 x hx
  have hev : (-1 : ℝ) ^ (2 * j) = 1 := Even.neg_one_pow ⟨j, by ring⟩
  rw [hev] at h
  linarith

end PyModeS.NL
