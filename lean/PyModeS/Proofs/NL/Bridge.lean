/-
  NL: the three parts joined.  Where a real latitude `y` and a rational latitude `x` lie on the
  same side of every enclosure `[lo, hi]` of the committed table, the exact closed form of
  `py_common.cprNL` at `y` (over ℝ) equals the table staircase `nlStair` at `x`.  In particular
  on (and within 8.069e-9° of) every CPR grid latitude.
-/
import PyModeS.Proofs.NL.Grid
import PyModeS.Proofs.NL.Enclose
import PyModeS.Proofs.NL.ClosedForm

namespace PyModeS.NL

open Real

/-- row `i` of the table has zone number `59 − i` -/
theorem tbl_row_index : ∀ i, i < 58 → ∃ r, Spec.nlTable[i]? = some r ∧ r.1 = 59 - i := by
  have h : (List.range 58).all (fun i =>
      match Spec.nlTable[i]? with
      | some r => r.1 == 59 - i
      | none => false) = true := by decide +kernel
  intro i hi
  have := List.all_eq_true.mp h i (List.mem_range.mpr hi)
  split at this
  · rename_i r hr
    exact ⟨r, hr, by simpa using this⟩
  · exact absurd this (by simp)

/-- the row with zone number `n` -/
theorem tbl_row_of_zone (n : ℕ) (hn : 2 ≤ n) (hn' : n ≤ 59) :
    ∃ r, Spec.nlTable[59 - n]? = some r ∧ r.1 = n ∧ r ∈ Spec.nlTable := by
  obtain ⟨r, hr, h1⟩ := tbl_row_index (59 - n) (by omega)
  exact ⟨r, hr, by omega, List.mem_of_getElem? hr⟩

/-- **closed form = staircase** whenever `|y|` (real) and `x` (rational, `x ≤ 87`) are on the same
    side of every enclosure of θ₃ … θ₅₉ -/
theorem nlClosed_eq_nlStair (y : ℝ) (x : ℚ) (hy0 : 0 < |y|) (hy87 : |y| < 87) (hx87 : x ≤ 87)
    (hsame : ∀ r ∈ Spec.nlTable, 3 ≤ r.1 →
      (|y| * 1000000000000 < (r.2.1 : ℝ) ∧ x * 1000000000000 < (r.2.1 : ℚ)) ∨
      ((r.2.2 : ℝ) < |y| * 1000000000000 ∧ (r.2.2 : ℚ) < x * 1000000000000)) :
    nlClosed y = (nlStair x : ℤ) := by
  obtain ⟨n, hn2, hn59, hcl⟩ := nlClosed_range y hy0 hy87
  obtain ⟨hlt, hle⟩ := (closed_form_eq_staircase y n hn2 hn59 hy0 hy87).mp hcl
  rw [hcl]
  have h1012 : (10 : ℝ) ^ 12 = 1000000000000 := by norm_num
  -- upper side: x below the threshold of row n (n ≥ 3)
  have hup : ∀ r, r ∈ Spec.nlTable → r.1 = n → 3 ≤ n → x * 1000000000000 < (r.2.1 : ℚ) := by
    intro r hr hrn h3
    have henc := (nlTable_encloses_all r hr).2
    rw [hrn, h1012] at henc
    rcases hsame r hr (by omega) with h | h
    · exact h.2
    · exfalso
      have : |y| * 1000000000000 ≤ theta n * 1000000000000 :=
        mul_le_mul_of_nonneg_right hle (by norm_num)
      linarith [h.1]
  -- lower side: x at or above the threshold of row n + 1
  have hlow : ∀ r, r ∈ Spec.nlTable → r.1 = n + 1 → (r.2.1 : ℚ) ≤ x * 1000000000000 := by
    intro r hr hrn
    have henc := nlTable_encloses_all r hr
    rw [hrn, h1012] at henc
    have hlh : (r.2.1 : ℚ) ≤ (r.2.2 : ℚ) := by exact_mod_cast tbl_lo_le_hi r hr
    rcases hsame r hr (by omega) with h | h
    · exfalso
      have : theta (n + 1) * 1000000000000 < |y| * 1000000000000 :=
        mul_lt_mul_of_pos_right hlt (by norm_num)
      linarith [h.1, henc.1]
    · linarith [h.2]
  congr 1
  symm
  by_cases h59 : n = 59
  · -- below θ₅₉
    subst h59
    obtain ⟨r, hr, hr1, hmem⟩ := tbl_row_of_zone 59 (by omega) (by omega)
    have hr0 : r = (59, 10470471299968, 10470471299969) := by
      have : Spec.nlTable[59 - 59]? = some (59, 10470471299968, 10470471299969) := by
        decide +kernel
      rw [this] at hr; exact (Option.some.inj hr).symm
    have := hup r hmem hr1 (by omega)
    rw [hr0] at this
    exact CPR.nlStair_59 x (by exact_mod_cast this)
  · obtain ⟨a, ha, ha1, hamem⟩ := tbl_row_of_zone (n + 1) (by omega) (by omega)
    have hla := hlow a hamem ha1
    by_cases h2 : n = 2
    · subst h2
      have ha0 : a = (3, 86535369975121, 86535369975122) := by
        have : Spec.nlTable[59 - (2 + 1)]? = some (3, 86535369975121, 86535369975122) := by
          decide +kernel
        rw [this] at ha; exact (Option.some.inj ha).symm
      rw [ha0] at hla
      exact CPR.nlStair_two x (by exact_mod_cast hla) hx87
    · obtain ⟨b, hb, hb1, hbmem⟩ := tbl_row_of_zone n hn2 hn59
      have hub := hup b hbmem hb1 (by omega)
      have e1 : 59 - (n + 1) = 58 - n := by omega
      have e2 : 59 - n = (58 - n) + 1 := by omega
      rw [e1] at ha
      rw [e2] at hb
      have := CPR.nlStair_row x (58 - n) a b ha hb hla hub
      rw [this, hb1]

/-- on a CPR grid latitude strictly between 0 and ±87° the exact closed form over ℝ is the table
    staircase (= `cprNL`) -/
theorem nlClosed_on_grid (g : LatGrid) (m : ℤ) (h0 : gridLat g m ≠ 0) (h87 : |gridLat g m| < 87) :
    nlClosed ((gridLat g m : ℚ) : ℝ) = (nlStair |gridLat g m| : ℤ) := by
  have hcast : |((gridLat g m : ℚ) : ℝ)| = ((|gridLat g m| : ℚ) : ℝ) := (Rat.cast_abs _).symm
  apply nlClosed_eq_nlStair
  · rw [hcast]; exact_mod_cast abs_pos.mpr h0
  · rw [hcast]; exact_mod_cast h87
  · exact h87.le
  · intro r hr h3
    have h10 : (10 : ℚ) ^ 12 = 1000000000000 := by norm_num
    rw [hcast]
    rcases grid_avoids_transitions_8069 g m r hr h3 with h | h
    · left
      rw [h10] at h
      have h' : |gridLat g m| * 1000000000000 < (r.2.1 : ℚ) := by linarith
      exact ⟨by exact_mod_cast h', h'⟩
    · right
      rw [h10] at h
      have h' : (r.2.2 : ℚ) < |gridLat g m| * 1000000000000 := by linarith
      exact ⟨by exact_mod_cast h', h'⟩

/-- … and on the whole closed 8.069e-9°-neighbourhood of a grid latitude (real perturbations of
    the argument do not change the exact value) -/
theorem nlClosed_near_grid (g : LatGrid) (m : ℤ) (y : ℝ) (hy0 : 0 < |y|) (hy87 : |y| < 87)
    (hy : |y - ((gridLat g m : ℚ) : ℝ)| ≤ 8069 / 10 ^ 12) :
    nlClosed y = (nlStair |gridLat g m| : ℤ) := by
  have hcast : |((gridLat g m : ℚ) : ℝ)| = ((|gridLat g m| : ℚ) : ℝ) := (Rat.cast_abs _).symm
  have habs : |(|y| - ((|gridLat g m| : ℚ) : ℝ))| ≤ 8069 / 10 ^ 12 := by
    rw [← hcast]; exact le_trans (abs_abs_sub_abs_le_abs_sub _ _) hy
  rw [abs_le] at habs
  obtain ⟨hl, hu⟩ := habs
  have h10 : (10 : ℚ) ^ 12 = 1000000000000 := by norm_num
  have h10r : (8069 : ℝ) / 10 ^ 12 * 1000000000000 = 8069 := by norm_num
  apply nlClosed_eq_nlStair y _ hy0 hy87
  · -- |x| ≤ 87
    rcases grid_avoids_87 g m with h | h | h
    · exact h.le
    · rw [h10] at h; linarith
    · exfalso
      rw [h10] at h
      have h' : ((87000000000000 + 8069 : ℚ) : ℝ) < ((|gridLat g m| * 1000000000000 : ℚ) : ℝ) := by
        exact_mod_cast h
      push_cast at h'
      nlinarith
  · intro r hr h3
    rcases grid_avoids_transitions_8069 g m r hr h3 with h | h
    · left
      rw [h10] at h
      have h' : ((|gridLat g m| * 1000000000000 : ℚ) : ℝ) < (((r.2.1 : ℚ) - 8069 : ℚ) : ℝ) := by
        exact_mod_cast h
      push_cast at h'
      exact ⟨by nlinarith, by linarith⟩
    · right
      rw [h10] at h
      have h' : (((r.2.2 : ℚ) + 8069 : ℚ) : ℝ) < ((|gridLat g m| * 1000000000000 : ℚ) : ℝ) := by
        exact_mod_cast h
      push_cast at h'
      exact ⟨by nlinarith, by linarith⟩

end PyModeS.NL
