/-
  NL / Part 3: the closed form coded in `py_common.cprNL`,
    `⌊ 2π / arccos(1 − (1 − cos(π/(2·15))) / cos²(π/180·|lat|)) ⌋`,
  over the reals, versus the transition latitudes `theta`.

  For `0 < |lat| < 87`:   closed form = n   ⇔   theta (n+1) < |lat| ≤ theta n      (2 ≤ n ≤ 59)
  (note the closed end: AT a transition latitude the exact closed form still gives the larger
  value `n`, whereas the DO-260B table / `nlStair` switch to `n − 1` there.  The transition
  latitudes are not CPR grid points, see `grid_avoids_transitions`.)
-/
import PyModeS.Proofs.NL.ThetaMono

namespace PyModeS.NL

open Real

/-- the closed form of `py_common.cprNL` (after its three short-cuts), over ℝ -/
noncomputable def nlClosed (lat : ℝ) : ℤ :=
  ⌊2 * π / arccos (1 - (1 - cos (π / (2 * 15))) / cos (π / 180 * |lat|) ^ 2)⌋

theorem arccos_le_iff_cos_le {u t : ℝ} (hu : u ∈ Set.Icc (-1 : ℝ) 1) (ht0 : 0 ≤ t) (htpi : t ≤ π) :
    arccos u ≤ t ↔ cos t ≤ u := by
  have hc : cos t ∈ Set.Icc (-1 : ℝ) 1 := ⟨neg_one_le_cos t, cos_le_one t⟩
  have := strictAntiOn_arccos.le_iff_ge hu hc
  rw [arccos_cos ht0 htpi] at this
  exact this

/-- facts about `c = cos(π/180·x)` for `0 < x < 87` -/
theorem cos_lat_facts (x : ℝ) (hx0 : 0 < x) (hx87 : x < 87) :
    0 < π / 180 * x ∧ π / 180 * x < π / 2 ∧ sin (π / 60) < cos (π / 180 * x) := by
  have hpi := pi_pos
  have h1 : 0 < π / 180 * x := by positivity
  have h2 : π / 180 * x < π / 2 - π / 60 := by nlinarith
  refine ⟨h1, by linarith, ?_⟩
  rw [← cos_pi_div_two_sub]
  exact cos_lt_cos_of_nonneg_of_le_pi h1.le (by linarith) h2

/-- the argument of the outer `arccos` lies in `[-1, 1)` -/
theorem arg_range (x : ℝ) (hx0 : 0 < x) (hx87 : x < 87) :
    (1 - (1 - cos (π / 30)) / cos (π / 180 * x) ^ 2) ∈ Set.Icc (-1 : ℝ) 1 ∧
      (1 - (1 - cos (π / 30)) / cos (π / 180 * x) ^ 2) < 1 := by
  obtain ⟨_, _, hc⟩ := cos_lat_facts x hx0 hx87
  have hs := sin_pi60_pos
  have hc0 : 0 < cos (π / 180 * x) := lt_trans hs hc
  have hc2 : 0 < cos (π / 180 * x) ^ 2 := by positivity
  have hq : 0 < (1 - cos (π / 30)) / cos (π / 180 * x) ^ 2 := div_pos A_pos hc2
  have hq2 : (1 - cos (π / 30)) / cos (π / 180 * x) ^ 2 ≤ 2 := by
    rw [div_le_iff₀ hc2, A_eq]
    have : sin (π / 60) ^ 2 ≤ cos (π / 180 * x) ^ 2 := pow_le_pow_left₀ hs.le hc.le 2
    linarith
  exact ⟨⟨by linarith, by linarith⟩, by linarith⟩

/-- the outer `arccos` is at most `2π/k` exactly up to the transition latitude `theta k` -/
theorem arccos_le_iff_le_theta (x : ℝ) (hx0 : 0 < x) (hx87 : x < 87) (k : ℕ) (hk : 2 ≤ k)
    (hk' : k ≤ 60) :
    arccos (1 - (1 - cos (π / 30)) / cos (π / 180 * x) ^ 2) ≤ 2 * π / (k : ℝ) ↔ x ≤ theta k := by
  obtain ⟨hφ0, hφ2, hc⟩ := cos_lat_facts x hx0 hx87
  obtain ⟨hu, _⟩ := arg_range x hx0 hx87
  obtain ⟨ha0, hapi⟩ := angle_range k hk
  have hs := sin_pi60_pos
  have hc0 : 0 < cos (π / 180 * x) := lt_trans hs hc
  have hc2 : 0 < cos (π / 180 * x) ^ 2 := by positivity
  obtain ⟨hr0, hr1⟩ := ratio_range k hk hk'
  have hB : 0 < 1 - cos (2 * π / (k : ℝ)) := lt_of_lt_of_le A_pos (A_le_B k hk hk')
  rw [arccos_le_iff_cos_le hu ha0.le hapi]
  -- cos(2π/k) ≤ 1 − A/c²  ⇔  A/B ≤ c²
  have step1 : cos (2 * π / (k : ℝ)) ≤ 1 - (1 - cos (π / 30)) / cos (π / 180 * x) ^ 2 ↔
      (1 - cos (π / 30)) / (1 - cos (2 * π / (k : ℝ))) ≤ cos (π / 180 * x) ^ 2 := by
    rw [div_le_iff₀ hB]
    constructor
    · intro h
      have : (1 - cos (π / 30)) / cos (π / 180 * x) ^ 2 ≤ 1 - cos (2 * π / (k : ℝ)) := by linarith
      rw [div_le_iff₀ hc2] at this
      linarith
    · intro h
      have : (1 - cos (π / 30)) / cos (π / 180 * x) ^ 2 ≤ 1 - cos (2 * π / (k : ℝ)) := by
        rw [div_le_iff₀ hc2]; linarith
      linarith
  rw [step1, ← sqrt_le_left hc0.le]
  -- √(A/B) ≤ c ⇔ arccos c ≤ arccos √(A/B)
  have hsq : sqrt ((1 - cos (π / 30)) / (1 - cos (2 * π / (k : ℝ)))) ∈ Set.Icc (-1 : ℝ) 1 :=
    ⟨by linarith [sqrt_nonneg ((1 - cos (π / 30)) / (1 - cos (2 * π / (k : ℝ))))],
      sqrt_le_one.mpr hr1⟩
  have hcI : cos (π / 180 * x) ∈ Set.Icc (-1 : ℝ) 1 := ⟨neg_one_le_cos _, cos_le_one _⟩
  rw [← strictAntiOn_arccos.le_iff_ge hcI hsq, arccos_cos hφ0.le (by linarith [pi_pos])]
  unfold theta
  have hpi := pi_pos
  constructor
  · intro h
    have := mul_le_mul_of_nonneg_left h (by positivity : (0 : ℝ) ≤ 180 / π)
    have e : 180 / π * (π / 180 * x) = x := by field_simp
    rwa [e] at this
  · intro h
    have := mul_le_mul_of_nonneg_left h (by positivity : (0 : ℝ) ≤ π / 180)
    have e : π / 180 * (180 / π * arccos (sqrt ((1 - cos (π / 30)) /
        (1 - cos (2 * π / (k : ℝ)))))) = arccos (sqrt ((1 - cos (π / 30)) /
        (1 - cos (2 * π / (k : ℝ))))) := by field_simp
    rwa [e] at this

/-- **closed_form_eq_staircase** (exact real arithmetic): for `0 < |lat| < 87` and `2 ≤ n ≤ 59`
    the closed form is `n` exactly on `theta (n+1) < |lat| ≤ theta n`  (`theta 60 = 0`) -/
theorem closed_form_eq_staircase (lat : ℝ) (n : ℕ) (hn : 2 ≤ n) (hn' : n ≤ 59)
    (h0 : 0 < |lat|) (h87 : |lat| < 87) :
    nlClosed lat = (n : ℤ) ↔ theta (n + 1) < |lat| ∧ |lat| ≤ theta n := by
  have e15 : π / (2 * 15) = π / 30 := by ring
  unfold nlClosed
  rw [e15]
  obtain ⟨_, hu1⟩ := arg_range |lat| h0 h87
  set g := arccos (1 - (1 - cos (π / 30)) / cos (π / 180 * |lat|) ^ 2) with hg
  have hg0 : 0 < g := arccos_pos.mpr hu1
  have k1 := arccos_le_iff_le_theta |lat| h0 h87 n hn (by omega)
  have k2 := arccos_le_iff_le_theta |lat| h0 h87 (n + 1) (by omega) (by omega)
  rw [← hg] at k1 k2
  have hn0 : (0 : ℝ) < (n : ℝ) := by exact_mod_cast (by omega : 0 < n)
  have hn1 : (0 : ℝ) < ((n + 1 : ℕ) : ℝ) := by positivity
  have e1 : (((n : ℤ) : ℝ)) ≤ 2 * π / g ↔ |lat| ≤ theta n := by
    rw [← k1, le_div_iff₀ hg0, le_div_iff₀ hn0]
    push_cast
    constructor <;> intro h <;> linarith
  have e2 : 2 * π / g < (((n : ℤ) : ℝ)) + 1 ↔ theta (n + 1) < |lat| := by
    rw [← not_le (a := |lat|), ← k2, not_le, div_lt_iff₀ hg0, div_lt_iff₀ hn1]
    push_cast
    constructor <;> intro h <;> linarith
  rw [Int.floor_eq_iff, e1, e2]
  exact and_comm

/-- the closed form takes values in `2 … 59` on `0 < |lat| < 87` -/
theorem nlClosed_range (lat : ℝ) (h0 : 0 < |lat|) (h87 : |lat| < 87) :
    ∃ n : ℕ, 2 ≤ n ∧ n ≤ 59 ∧ nlClosed lat = (n : ℤ) := by
  have h2 : |lat| ≤ theta 2 := by rw [theta_two]; exact h87.le
  have h60 : ¬ |lat| ≤ theta 60 := by rw [theta_sixty]; exact not_le.mpr h0
  -- walk up from k = 2 until the first k with theta (k+1) < |lat|
  have key : ∀ d : ℕ, |lat| ≤ theta (2 + d) ∨
      ∃ n : ℕ, 2 ≤ n ∧ n < 2 + d ∧ theta (n + 1) < |lat| ∧ |lat| ≤ theta n := by
    intro d
    induction d with
    | zero => exact Or.inl h2
    | succ d ih =>
      rcases ih with h | ⟨n, hn2, hnd, hlt, hle⟩
      · by_cases hnext : |lat| ≤ theta (2 + (d + 1))
        · exact Or.inl hnext
        · exact Or.inr ⟨2 + d, by omega, by omega, not_le.mp hnext, h⟩
      · exact Or.inr ⟨n, hn2, by omega, hlt, hle⟩
  rcases key 58 with h | ⟨n, hn2, hnd, hlt, hle⟩
  · exact absurd h h60
  · exact ⟨n, hn2, by omega,
      (closed_form_eq_staircase lat n hn2 (by omega) h0 h87).mpr ⟨hlt, hle⟩⟩

end PyModeS.NL
