/-
  NL / Part 1: the four CPR latitude grids never come close to an NL transition latitude.

  A CPR latitude (what an encoder can carry, what a decoder can output) is an integer multiple of
  `Dlat / 2^17` with `Dlat ∈ {6, 360/59, 3/2, 90/59}`.  In units of `10⁻¹²° / (59·2¹⁸)` the grid
  point number `a` is the integer `a · c · 10¹²` with `c = 2·59·Dlat ∈ {708, 720, 177, 180}` and
  an enclosure end `lo` is `lo · 59·2¹⁸`; the certificate is evaluated in ℕ by the kernel and
  lifted to every grid index by monotonicity of `a ↦ a·C`.
-/
import PyModeS.Proofs.CPR.NL

namespace PyModeS.NL

/-- the four latitude grids of CPR -/
inductive LatGrid
  | airEven | airOdd | surfEven | surfOdd
  deriving DecidableEq, Repr

/-- latitude zone size `Dlat` (degrees) -/
def LatGrid.dLat : LatGrid → ℚ
  | .airEven => 6
  | .airOdd => 360 / 59
  | .surfEven => 3 / 2
  | .surfOdd => 90 / 59

/-- `2 · 59 · Dlat` -/
def LatGrid.c : LatGrid → ℕ
  | .airEven => 708
  | .airOdd => 720
  | .surfEven => 177
  | .surfOdd => 180

/-- grid step in units of `10⁻¹²° / (59·2¹⁸)` -/
def LatGrid.C (g : LatGrid) : ℕ := g.c * 1000000000000

/-- common denominator `59 · 2¹⁸` -/
def KK : ℕ := 15466496

/-- the grid latitude number `m`: `m · Dlat / 2¹⁷` -/
def gridLat (g : LatGrid) (m : ℤ) : ℚ := g.dLat * (m : ℚ) / 131072

theorem dLat_eq (g : LatGrid) : g.dLat = (g.c : ℚ) / 118 := by
  cases g <;> norm_num [LatGrid.dLat, LatGrid.c]

/-- `Dlat · (k + y / 2¹⁷)` (zone index `k`, 17-bit field `y`) is the grid latitude number
    `k · 2¹⁷ + y`; conversely every grid index is of this form with `0 ≤ y < 2¹⁷`. -/
theorem gridLat_zone (g : LatGrid) (k y : ℤ) :
    g.dLat * ((k : ℚ) + (y : ℚ) / 131072) = gridLat g (k * 131072 + y) := by
  unfold gridLat; push_cast; ring

theorem gridLat_zone' (g : LatGrid) (m : ℤ) :
    gridLat g m = g.dLat * (((m / 131072 : ℤ) : ℚ) + ((m % 131072 : ℤ) : ℚ) / 131072) ∧
      0 ≤ m % 131072 ∧ m % 131072 < 131072 := by
  refine ⟨?_, Int.emod_nonneg _ (by norm_num), Int.emod_lt_of_pos _ (by norm_num)⟩
  rw [gridLat_zone]
  congr 1
  have := Int.emod_add_mul_ediv m 131072
  linarith

theorem gridLat_neg (g : LatGrid) (m : ℤ) : gridLat g (-m) = -gridLat g m := by
  unfold gridLat; push_cast; ring

theorem dLat_pos (g : LatGrid) : 0 < g.dLat := by
  cases g <;> norm_num [LatGrid.dLat]

/-- `|grid latitude| · 10¹²` as a quotient of naturals -/
theorem abs_gridLat_scaled (g : LatGrid) (m : ℤ) :
    |gridLat g m| * 1000000000000 = ((m.natAbs * g.C : ℕ) : ℚ) / (KK : ℚ) := by
  unfold gridLat
  rw [abs_div, abs_mul, abs_of_pos (dLat_pos g), abs_of_pos (by norm_num : (0 : ℚ) < 131072),
    dLat_eq]
  have h : |(m : ℚ)| = ((m.natAbs : ℕ) : ℚ) := by
    rw [Nat.cast_natAbs, Int.cast_abs]
  rw [h]
  unfold LatGrid.C KK
  push_cast
  ring

/-! ### the Boolean certificate over ℕ -/

/-- row `(n, lo, hi)`: with `m0 = ⌊lo·K / C⌋`, grid point `m0` is more than `margin` below `lo`
    and grid point `m0 + 1` more than `margin` above `hi` -/
def rowOK (margin C K : ℕ) (r : ℕ × ℕ × ℕ) : Bool :=
  let m0 := r.2.1 * K / C
  decide (m0 * C + margin * K < r.2.1 * K) && decide ((r.2.2 + margin) * K < (m0 + 1) * C)

theorem rowOK_sound (margin C K : ℕ) (r : ℕ × ℕ × ℕ) (h : rowOK margin C K r = true) (a : ℕ) :
    a * C + margin * K < r.2.1 * K ∨ (r.2.2 + margin) * K < a * C := by
  simp only [rowOK, Bool.and_eq_true, decide_eq_true_eq] at h
  obtain ⟨h1, h2⟩ := h
  by_cases ha : a ≤ r.2.1 * K / C
  · left
    have := Nat.mul_le_mul_right C ha
    omega
  · right
    have ha' : r.2.1 * K / C + 1 ≤ a := by omega
    have := Nat.mul_le_mul_right C ha'
    omega

/-- a value `T` that the grid may hit exactly: either it is not hit and the two neighbours are
    more than `margin` away, or it is hit and the grid step exceeds `margin` -/
def hitOK (margin C K T : ℕ) : Bool :=
  if (T * K / C) * C = T * K then decide (margin * K < C) else rowOK margin C K (0, T, T)

theorem hitOK_sound (margin C K T : ℕ) (h : hitOK margin C K T = true) (a : ℕ) :
    a * C = T * K ∨ a * C + margin * K < T * K ∨ (T + margin) * K < a * C := by
  unfold hitOK at h
  split_ifs at h with h0
  · simp only [decide_eq_true_eq] at h
    rcases Nat.lt_trichotomy a (T * K / C) with hlt | heq | hgt
    · right; left
      have h1 : a + 1 ≤ T * K / C := hlt
      have h2 := Nat.mul_le_mul_right C h1
      have h3 : (a + 1) * C = a * C + C := by ring
      omega
    · left; rw [heq]; exact h0
    · right; right
      have h1 : T * K / C + 1 ≤ a := hgt
      have h2 := Nat.mul_le_mul_right C h1
      have h3 : (T * K / C + 1) * C = T * K / C * C + C := by ring
      have h4 : (T + margin) * K = T * K + margin * K := by ring
      omega
  · right
    exact rowOK_sound margin C K (0, T, T) h a

/-- rows with `n ≥ 3` (θ₂ = 87 is treated separately: the even grids contain 87) -/
def rows3 : List (ℕ × ℕ × ℕ) := Spec.nlTable.filter (fun r => decide (3 ≤ r.1))

/-- the sharpest integer margin: 8069 units of 10⁻¹²° (closest approach ≈ 8.0699e-9°, at θ₄₂ on
    the surface-odd grid) -/
theorem cert_airEven : rows3.all (rowOK 8069 LatGrid.airEven.C KK) = true := by decide +kernel
theorem cert_airOdd : rows3.all (rowOK 8069 LatGrid.airOdd.C KK) = true := by decide +kernel
theorem cert_surfEven : rows3.all (rowOK 8069 LatGrid.surfEven.C KK) = true := by decide +kernel
theorem cert_surfOdd : rows3.all (rowOK 8069 LatGrid.surfOdd.C KK) = true := by decide +kernel

theorem cert (g : LatGrid) : rows3.all (rowOK 8069 g.C KK) = true := by
  cases g
  · exact cert_airEven
  · exact cert_airOdd
  · exact cert_surfEven
  · exact cert_surfOdd

/-- 8069 is sharp: with 8070 the certificate fails at θ₄₂ on the surface-odd grid -/
theorem cert_sharp : rowOK 8070 LatGrid.surfOdd.C KK (42, 45546267226602, 45546267226603) = false := by
  decide +kernel

theorem cert87 (g : LatGrid) : hitOK 8069 g.C KK 87000000000000 = true := by
  cases g <;> decide +kernel

/-- the last row of the table is `(2, 87·10¹², 87·10¹²)`, all others have `n ≥ 3` -/
theorem tbl_row_cases :
    ∀ r ∈ Spec.nlTable, 3 ≤ r.1 ∨ r = (2, 87000000000000, 87000000000000) := by
  have h : Spec.nlTable.all
      (fun r => decide (3 ≤ r.1) || r == (2, 87000000000000, 87000000000000)) = true := by
    decide +kernel
  intro r hr
  have := List.all_eq_true.mp h r hr
  simpa using this

theorem tbl_lo_le_hi : ∀ r ∈ Spec.nlTable, r.2.1 ≤ r.2.2 := by
  have h : Spec.nlTable.all (fun r => decide (r.2.1 ≤ r.2.2)) = true := by decide +kernel
  intro r hr
  simpa using List.all_eq_true.mp h r hr

/-! ### lifting to ℚ -/

theorem scaled_lt (a C K margin lo : ℕ) (hK : 0 < K) (h : a * C + margin * K < lo * K) :
    ((a * C : ℕ) : ℚ) / (K : ℚ) < (lo : ℚ) - (margin : ℚ) := by
  have hK' : (0 : ℚ) < (K : ℚ) := by exact_mod_cast hK
  rw [div_lt_iff₀ hK']
  have : ((a * C + margin * K : ℕ) : ℚ) < ((lo * K : ℕ) : ℚ) := by exact_mod_cast h
  push_cast at this ⊢
  linarith

theorem scaled_gt (a C K margin hi : ℕ) (hK : 0 < K) (h : (hi + margin) * K < a * C) :
    (hi : ℚ) + (margin : ℚ) < ((a * C : ℕ) : ℚ) / (K : ℚ) := by
  have hK' : (0 : ℚ) < (K : ℚ) := by exact_mod_cast hK
  rw [lt_div_iff₀ hK']
  have : (((hi + margin) * K : ℕ) : ℚ) < ((a * C : ℕ) : ℚ) := by exact_mod_cast h
  push_cast at this ⊢
  linarith

/-- **grid_avoids_transitions, sharp margin**: every latitude of every CPR grid stays more than
    8069·10⁻¹²° away from the enclosure `[lo, hi]·10⁻¹²°` of every transition latitude θ₃ … θ₅₉ -/
theorem grid_avoids_transitions_8069 (g : LatGrid) (m : ℤ) (r : ℕ × ℕ × ℕ)
    (hr : r ∈ Spec.nlTable) (h3 : 3 ≤ r.1) :
    |gridLat g m| * 10 ^ 12 < (r.2.1 : ℚ) - 8069 ∨ (r.2.2 : ℚ) + 8069 < |gridLat g m| * 10 ^ 12 := by
  have hmem : r ∈ rows3 := by
    unfold rows3; rw [List.mem_filter]; exact ⟨hr, by simpa using h3⟩
  have hc := List.all_eq_true.mp (cert g) r hmem
  have h10 : (10 : ℚ) ^ 12 = 1000000000000 := by norm_num
  rw [h10, abs_gridLat_scaled]
  rcases rowOK_sound 8069 g.C KK r hc m.natAbs with h | h
  · left; exact_mod_cast scaled_lt _ _ _ _ _ (by decide) h
  · right; exact_mod_cast scaled_gt _ _ _ _ _ (by decide) h

/-- the grids and 87°: a grid latitude is 87° exactly or more than 8069·10⁻¹²° away -/
theorem grid_avoids_87 (g : LatGrid) (m : ℤ) :
    |gridLat g m| = 87 ∨ |gridLat g m| * 10 ^ 12 < 87000000000000 - 8069 ∨
      87000000000000 + 8069 < |gridLat g m| * 10 ^ 12 := by
  have h10 : (10 : ℚ) ^ 12 = 1000000000000 := by norm_num
  rcases hitOK_sound 8069 g.C KK 87000000000000 (cert87 g) m.natAbs with h | h | h
  · left
    have h1 := abs_gridLat_scaled g m
    have h2 : ((m.natAbs * g.C : ℕ) : ℚ) = ((87000000000000 * KK : ℕ) : ℚ) := by exact_mod_cast h
    rw [h2] at h1
    have hK : ((KK : ℕ) : ℚ) ≠ 0 := by unfold KK; norm_num
    rw [Nat.cast_mul, mul_div_assoc, div_self hK] at h1
    push_cast at h1
    linarith
  · right; left
    rw [h10, abs_gridLat_scaled]
    exact_mod_cast scaled_lt _ _ _ 8069 87000000000000 (by decide) h
  · right; right
    rw [h10, abs_gridLat_scaled]
    exact_mod_cast scaled_gt _ _ _ 8069 87000000000000 (by decide) h

/-! ### stability of the staircase -/

/-- two arguments on the same side of every threshold get the same value -/
theorem nlStairAux_congr (x y : ℚ) (h87 : x ≤ 87 ↔ y ≤ 87) :
    ∀ tbl : List (ℕ × ℕ × ℕ),
      (∀ r ∈ tbl, (x * 1000000000000 < (r.2.1 : ℚ) ↔ y * 1000000000000 < (r.2.1 : ℚ))) →
      nlStairAux x tbl = nlStairAux y tbl
  | [], _ => by
    unfold nlStairAux
    by_cases h : x ≤ 87
    · rw [if_pos h, if_pos (h87.mp h)]
    · rw [if_neg h, if_neg (fun h' => h (h87.mpr h'))]
  | (n, lo, hi) :: rest, h => by
    unfold nlStairAux
    have h0 := h (n, lo, hi) (List.mem_cons_self ..)
    have ih := nlStairAux_congr x y h87 rest (fun r hr => h r (List.mem_cons_of_mem _ hr))
    by_cases hx : x * 1000000000000 < (lo : ℚ)
    · rw [if_pos hx, if_pos (h0.mp hx)]
    · rw [if_neg hx, if_neg (fun h' => hx (h0.mpr h')), ih]

/-- core of the robustness statement: `x ≥ 0`-free formulation on an abstract point `x` that
    avoids every enclosure and 87 by more than `ε·10¹²` -/
theorem nlStair_stable (x y ε : ℚ) (hxy : |x - y| ≤ ε)
    (h87 : x * 1000000000000 < 87000000000000 - ε * 1000000000000 ∨
      87000000000000 + ε * 1000000000000 < x * 1000000000000)
    (hrows : ∀ r ∈ Spec.nlTable, 3 ≤ r.1 →
      x * 1000000000000 < (r.2.1 : ℚ) - ε * 1000000000000 ∨
        (r.2.2 : ℚ) + ε * 1000000000000 < x * 1000000000000) :
    nlStair x = nlStair y := by
  rw [abs_le] at hxy
  obtain ⟨hl, hu⟩ := hxy
  unfold nlStair
  apply nlStairAux_congr
  · rcases h87 with h | h
    · constructor <;> intro _ <;> linarith
    · constructor <;> intro h' <;> exfalso <;> linarith
  · intro r hr
    have hle : (r.2.1 : ℚ) ≤ (r.2.2 : ℚ) := by
      exact_mod_cast tbl_lo_le_hi r hr
    rcases tbl_row_cases r hr with h3 | h2
    · rcases hrows r hr h3 with h | h
      · constructor <;> intro _ <;> linarith
      · constructor <;> intro h' <;> exfalso <;> linarith
    · subst h2
      rcases h87 with h | h
      · constructor <;> intro _ <;> push_cast <;> linarith
      · constructor <;> intro h' <;> exfalso <;> push_cast at h' <;> linarith

end PyModeS.NL
