/-
  NL / Part 2e: every row of the committed table `Spec.nlTable` encloses the DO-260B transition
  latitude: `lo ≤ theta n · 10¹² ≤ hi`.  Rows n = 59 … 3 by the rational certificate `rowCert`
  (exact ℚ arithmetic, checked by the kernel), row n = 2 by `theta 2 = 87`.
-/
import PyModeS.Proofs.NL.ThetaMono
import PyModeS.Spec.NLTable

namespace PyModeS.NL

/-- the 57 rows `n = 59 … 3` all pass the certificate -/
theorem cert_rows : (Spec.nlTable.filter (fun r => decide (3 ≤ r.1))).all rowCert = true := by
  decide +kernel

theorem nlTable_row_cases :
    ∀ r ∈ Spec.nlTable, 3 ≤ r.1 ∨ r = (2, 87000000000000, 87000000000000) := by
  have h : Spec.nlTable.all
      (fun r => decide (3 ≤ r.1) || r == (2, 87000000000000, 87000000000000)) = true := by
    decide +kernel
  intro r hr
  have := List.all_eq_true.mp h r hr
  simpa using this

theorem nlTable_encloses_ge3 : ∀ row ∈ Spec.nlTable, row.1 ≥ 3 →
    (row.2.1 : ℝ) ≤ theta row.1 * 10 ^ 12 ∧ theta row.1 * 10 ^ 12 ≤ (row.2.2 : ℝ) := by
  intro row hrow h3
  apply rowCert_sound
  apply List.all_eq_true.mp cert_rows row
  rw [List.mem_filter]
  exact ⟨hrow, by simpa using h3⟩

/-- all 58 rows, `n = 2` included -/
theorem nlTable_encloses_all : ∀ row ∈ Spec.nlTable,
    (row.2.1 : ℝ) ≤ theta row.1 * 10 ^ 12 ∧ theta row.1 * 10 ^ 12 ≤ (row.2.2 : ℝ) := by
  intro row hrow
  rcases nlTable_row_cases row hrow with h3 | h2
  · exact nlTable_encloses_ge3 row hrow h3
  · subst h2
    simp only [theta_two]
    norm_num

end PyModeS.NL
