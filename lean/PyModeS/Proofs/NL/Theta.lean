/-
  NL / Part 2c: the DO-260B transition latitude
    `theta n = (180/π) · arccos √( (1 − cos(π/30)) / (1 − cos(2π/n)) )`
  and a Boolean certificate in ℚ (`rowCert`) that implies `lo ≤ theta n · 10¹² ≤ hi`.

  Reduction (arccos antitone, cos antitone on [0, π], everything non-negative):
    `L ≤ arccos √(A/B)  ⇐  0 ≤ cos L ∧ A ≤ cos² L · B`       (0 ≤ L ≤ π)
    `arccos √(A/B) ≤ H  ⇐  cos² H · B ≤ A`                    (0 ≤ H ≤ π/2)
  with `A = 1 − cos(π/30)`, `B = 1 − cos(2π/n) > 0`, `L = lo·10⁻¹²·π/180`, `H = hi·10⁻¹²·π/180`,
  the cosines being enclosed by `cosLower` / `cosUpper` at rational multiples of `piLo`, `piHi`.
-/
import PyModeS.Proofs.NL.CosQ

namespace PyModeS.NL

open Real

/-- NL transition latitude θ_n in degrees (DO-260B, NZ = 15) -/
noncomputable def theta (n : ℕ) : ℝ :=
  180 / π * arccos (sqrt ((1 - cos (π / 30)) / (1 - cos (2 * π / (n : ℝ)))))

theorem le_arccos_sqrt (A B L : ℝ) (hB : 0 < B) (hL0 : 0 ≤ L) (hLpi : L ≤ π)
    (hc : 0 ≤ cos L) (h : A ≤ cos L ^ 2 * B) : L ≤ arccos (sqrt (A / B)) := by
  have h1 : sqrt (A / B) ≤ cos L := by
    rw [sqrt_le_iff]
    exact ⟨hc, (div_le_iff₀ hB).mpr h⟩
  have h2 := antitone_arccos h1
  rwa [arccos_cos hL0 hLpi] at h2

theorem arccos_sqrt_le (A B H : ℝ) (hB : 0 < B) (hH0 : 0 ≤ H) (hHpi : H ≤ π)
    (h : cos H ^ 2 * B ≤ A) : arccos (sqrt (A / B)) ≤ H := by
  have h1 : cos H ≤ sqrt (A / B) := by
    have : cos H ^ 2 ≤ A / B := (le_div_iff₀ hB).mpr h
    exact le_trans (le_abs_self _) (abs_le_sqrt this)
  have h2 := antitone_arccos h1
  rwa [arccos_cos hH0 hHpi] at h2

/-- Boolean certificate for one row `(n, lo, hi)`, exact rational arithmetic -/
def rowCert (r : ℕ × ℕ × ℕ) : Bool :=
  let qn : ℚ := 2 / (r.1 : ℚ)
  let qL : ℚ := (r.2.1 : ℚ) / 180000000000000
  let qH : ℚ := (r.2.2 : ℚ) / 180000000000000
  let Aup : ℚ := 1 - cosLower ((1 / 30) * piHi)
  let Alo : ℚ := 1 - cosUpper ((1 / 30) * piLo)
  let Bup : ℚ := 1 - cosLower (qn * piHi)
  let Blo : ℚ := 1 - cosUpper (qn * piLo)
  let cL : ℚ := cosLower (qL * piHi)
  let cH : ℚ := cosUpper (qH * piLo)
  decide (0 < r.1) && decide (qn * piHi ≤ 3) && decide (qL * piHi ≤ 3) && decide (qH ≤ 1 / 2) &&
    decide (0 ≤ cL) && decide (0 < Blo) && decide (Aup ≤ cL * cL * Blo) &&
    decide (cH * cH * Bup ≤ Alo)

theorem rowCert_sound (r : ℕ × ℕ × ℕ) (h : rowCert r = true) :
    (r.2.1 : ℝ) ≤ theta r.1 * 10 ^ 12 ∧ theta r.1 * 10 ^ 12 ≤ (r.2.2 : ℝ) := by
  obtain ⟨n, lo, hi⟩ := r
  simp only [rowCert, Bool.and_eq_true, decide_eq_true_eq] at h
  obtain ⟨⟨⟨⟨⟨⟨⟨hn, hqn3⟩, hqL3⟩, hqH⟩, hcL⟩, hBlo⟩, hlow⟩, hupp⟩ := h
  have hnR : (0 : ℝ) < (n : ℝ) := by exact_mod_cast hn
  -- the constant A
  have hA1 := cosLower_pi_le (1 / 30) (by norm_num) (by unfold piHi; norm_num)
  have hA2 := le_cosUpper_pi (1 / 30) (by norm_num) (by unfold piHi; norm_num)
  have eA : (((1 / 30 : ℚ)) : ℝ) * π = π / 30 := by push_cast; ring
  rw [eA] at hA1 hA2
  -- B
  have hqn0 : (0 : ℚ) ≤ 2 / (n : ℚ) := by positivity
  have hB1 := cosLower_pi_le (2 / (n : ℚ)) hqn0 hqn3
  have hB2 := le_cosUpper_pi (2 / (n : ℚ)) hqn0 hqn3
  have eB : ((2 / (n : ℚ) : ℚ) : ℝ) * π = 2 * π / (n : ℝ) := by push_cast; ring
  rw [eB] at hB1 hB2
  -- L and H
  have hqL0 : (0 : ℚ) ≤ (lo : ℚ) / 180000000000000 := by positivity
  have hqH0 : (0 : ℚ) ≤ (hi : ℚ) / 180000000000000 := by positivity
  have hL1 := cosLower_pi_le ((lo : ℚ) / 180000000000000) hqL0 hqL3
  have hqH3 : (hi : ℚ) / 180000000000000 * piHi ≤ 3 := by
    have : piHi ≤ 4 := by unfold piHi; norm_num
    nlinarith
  have hH2 := le_cosUpper_pi ((hi : ℚ) / 180000000000000) hqH0 hqH3
  set A : ℝ := 1 - cos (π / 30) with hAdef
  set B : ℝ := 1 - cos (2 * π / (n : ℝ)) with hBdef
  set L : ℝ := (((lo : ℚ) / 180000000000000 : ℚ) : ℝ) * π with hLdef
  set H : ℝ := (((hi : ℚ) / 180000000000000 : ℚ) : ℝ) * π with hHdef
  -- casts of the certificate inequalities
  have hcL' : (0 : ℝ) ≤ ((cosLower ((lo : ℚ) / 180000000000000 * piHi) : ℚ) : ℝ) := by
    exact_mod_cast hcL
  have hBlo' : (0 : ℝ) < ((1 - cosUpper (2 / (n : ℚ) * piLo) : ℚ) : ℝ) := by exact_mod_cast hBlo
  have hlow' : ((1 - cosLower (1 / 30 * piHi) : ℚ) : ℝ) ≤
      ((cosLower ((lo : ℚ) / 180000000000000 * piHi) *
        cosLower ((lo : ℚ) / 180000000000000 * piHi) *
        (1 - cosUpper (2 / (n : ℚ) * piLo)) : ℚ) : ℝ) := by exact_mod_cast hlow
  have hupp' : ((cosUpper ((hi : ℚ) / 180000000000000 * piLo) *
        cosUpper ((hi : ℚ) / 180000000000000 * piLo) *
        (1 - cosLower (2 / (n : ℚ) * piHi)) : ℚ) : ℝ) ≤
      ((1 - cosUpper (1 / 30 * piLo) : ℚ) : ℝ) := by exact_mod_cast hupp
  push_cast at hBlo' hlow' hupp'
  have hBpos : 0 < B := by rw [hBdef]; linarith
  have hL0 : 0 ≤ L := mul_nonneg (by exact_mod_cast hqL0) pi_pos.le
  have hH0 : 0 ≤ H := mul_nonneg (by exact_mod_cast hqH0) pi_pos.le
  have hLpi : L ≤ π := by
    have h3 : ((((lo : ℚ) / 180000000000000 * piHi : ℚ)) : ℝ) ≤ 3 := by exact_mod_cast hqL3
    have : L ≤ ((((lo : ℚ) / 180000000000000 * piHi : ℚ)) : ℝ) := by
      rw [hLdef]; push_cast
      exact mul_le_mul_of_nonneg_left (le_of_lt lt_piHi) (by positivity)
    linarith [pi_gt_three]
  have hHpi2 : H ≤ π / 2 := by
    have : ((((hi : ℚ) / 180000000000000 : ℚ)) : ℝ) ≤ ((1 / 2 : ℚ) : ℝ) := by exact_mod_cast hqH
    have e : ((1 / 2 : ℚ) : ℝ) = 1 / 2 := by norm_num
    rw [e] at this
    rw [hHdef]
    have := mul_le_mul_of_nonneg_right this pi_pos.le
    linarith
  have hcosL : 0 ≤ cos L := le_trans hcL' hL1
  have hcosH : 0 ≤ cos H :=
    cos_nonneg_of_neg_pi_div_two_le_of_le (by linarith [pi_pos]) hHpi2
  -- lower enclosure
  have hlower : L ≤ arccos (sqrt (A / B)) := by
    apply le_arccos_sqrt A B L hBpos hL0 hLpi hcosL
    have h1 : ((cosLower ((lo : ℚ) / 180000000000000 * piHi) : ℚ) : ℝ) ^ 2 ≤ cos L ^ 2 :=
      pow_le_pow_left₀ hcL' hL1 2
    have h2 : (1 - ((cosUpper (2 / (n : ℚ) * piLo) : ℚ) : ℝ)) ≤ B := by rw [hBdef]; linarith
    have h3 : A ≤ 1 - ((cosLower (1 / 30 * piHi) : ℚ) : ℝ) := by rw [hAdef]; linarith
    calc A ≤ 1 - ((cosLower (1 / 30 * piHi) : ℚ) : ℝ) := h3
      _ ≤ _ := hlow'
      _ = ((cosLower ((lo : ℚ) / 180000000000000 * piHi) : ℚ) : ℝ) ^ 2 *
            (1 - ((cosUpper (2 / (n : ℚ) * piLo) : ℚ) : ℝ)) := by ring
      _ ≤ cos L ^ 2 * B := mul_le_mul h1 h2 hBlo'.le (sq_nonneg _)
  -- upper enclosure
  have hupper : arccos (sqrt (A / B)) ≤ H := by
    apply arccos_sqrt_le A B H hBpos hH0 (by linarith [pi_pos])
    have h1 : cos H ^ 2 ≤ ((cosUpper ((hi : ℚ) / 180000000000000 * piLo) : ℚ) : ℝ) ^ 2 :=
      pow_le_pow_left₀ hcosH hH2 2
    have h2 : B ≤ (1 - ((cosLower (2 / (n : ℚ) * piHi) : ℚ) : ℝ)) := by rw [hBdef]; linarith
    have h3 : 1 - ((cosUpper (1 / 30 * piLo) : ℚ) : ℝ) ≤ A := by rw [hAdef]; linarith
    calc cos H ^ 2 * B ≤ ((cosUpper ((hi : ℚ) / 180000000000000 * piLo) : ℚ) : ℝ) ^ 2 *
            (1 - ((cosLower (2 / (n : ℚ) * piHi) : ℚ) : ℝ)) :=
          mul_le_mul h1 h2 hBpos.le (sq_nonneg _)
      _ = _ := by ring
      _ ≤ 1 - ((cosUpper (1 / 30 * piLo) : ℚ) : ℝ) := hupp'
      _ ≤ A := h3
  -- back to degrees
  have hθ : theta n = 180 / π * arccos (sqrt (A / B)) := rfl
  have hpi : π ≠ 0 := pi_ne_zero
  have eL : (lo : ℝ) = 180 / π * L * 10 ^ 12 := by
    rw [hLdef]; push_cast; field_simp; ring
  have eH : (hi : ℝ) = 180 / π * H * 10 ^ 12 := by
    rw [hHdef]; push_cast; field_simp; ring
  have hk : (0 : ℝ) ≤ 180 / π := by positivity
  show (lo : ℝ) ≤ theta n * 10 ^ 12 ∧ theta n * 10 ^ 12 ≤ (hi : ℝ)
  rw [hθ, eL, eH]
  constructor
  · exact mul_le_mul_of_nonneg_right (mul_le_mul_of_nonneg_left hlower hk) (by positivity)
  · exact mul_le_mul_of_nonneg_right (mul_le_mul_of_nonneg_left hupper hk) (by positivity)

end PyModeS.NL
