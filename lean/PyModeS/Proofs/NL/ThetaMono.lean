/-
  NL / Part 2d: qualitative facts about `theta`: `theta 2 = 87` exactly, `theta 60 = 0`, and
  `theta` is strictly decreasing on `2 ≤ n ≤ 60`.
-/
import PyModeS.Proofs.NL.Theta

namespace PyModeS.NL

open Real

/-- `A = 1 − cos(π/30) = 2 sin²(π/60)` -/
theorem A_eq : 1 - cos (π / 30) = 2 * sin (π / 60) ^ 2 := by
  rw [sin_sq_eq_half_sub]
  have : 2 * (π / 60) = π / 30 := by ring
  rw [this]; ring

theorem sin_pi60_pos : 0 < sin (π / 60) :=
  sin_pos_of_pos_of_lt_pi (by positivity) (by linarith [pi_pos])

theorem A_pos : 0 < 1 - cos (π / 30) := by
  rw [A_eq]; have := sin_pi60_pos; positivity

/-- for `n ≥ 2` the angle `2π/n` lies in `(0, π]` -/
theorem angle_range (n : ℕ) (hn : 2 ≤ n) : 0 < 2 * π / (n : ℝ) ∧ 2 * π / (n : ℝ) ≤ π := by
  have h2 : (2 : ℝ) ≤ (n : ℝ) := by exact_mod_cast hn
  have hn0 : (0 : ℝ) < (n : ℝ) := by linarith
  refine ⟨by positivity, ?_⟩
  rw [div_le_iff₀ hn0]
  nlinarith [pi_pos]

/-- `m < n` gives `2π/n < 2π/m` -/
theorem angle_lt (m n : ℕ) (hm : 2 ≤ m) (hmn : m < n) :
    2 * π / (n : ℝ) < 2 * π / (m : ℝ) := by
  have h2 : (2 : ℝ) ≤ (m : ℝ) := by exact_mod_cast hm
  have hm0 : (0 : ℝ) < (m : ℝ) := by linarith
  have hlt : (m : ℝ) < (n : ℝ) := by exact_mod_cast hmn
  exact div_lt_div_of_pos_left (by positivity) hm0 hlt

/-- `B_n = 1 − cos(2π/n) ≥ A` for `2 ≤ n ≤ 60` -/
theorem A_le_B (n : ℕ) (hn : 2 ≤ n) (hn' : n ≤ 60) :
    1 - cos (π / 30) ≤ 1 - cos (2 * π / (n : ℝ)) := by
  have h2 : (2 : ℝ) ≤ (n : ℝ) := by exact_mod_cast hn
  have hn0 : (0 : ℝ) < (n : ℝ) := by linarith
  have h60 : (n : ℝ) ≤ 60 := by exact_mod_cast hn'
  have hle : π / 30 ≤ 2 * π / (n : ℝ) := by
    rw [le_div_iff₀ hn0]
    nlinarith [pi_pos]
  have := cos_le_cos_of_nonneg_of_le_pi (by positivity) (angle_range n hn).2 hle
  linarith

theorem B_strictAnti (m n : ℕ) (hm : 2 ≤ m) (hmn : m < n) :
    1 - cos (2 * π / (n : ℝ)) < 1 - cos (2 * π / (m : ℝ)) := by
  have hn : 2 ≤ n := by omega
  have := cos_lt_cos_of_nonneg_of_le_pi (angle_range n hn).1.le (angle_range m hm).2
    (angle_lt m n hm hmn)
  linarith

/-- **θ₂ = 87° exactly** -/
theorem theta_two : theta 2 = 87 := by
  unfold theta
  have h1 : (2 : ℝ) * π / ((2 : ℕ) : ℝ) = π := by push_cast; field_simp
  rw [h1, cos_pi, A_eq]
  have h2 : 2 * sin (π / 60) ^ 2 / (1 - -1) = sin (π / 60) ^ 2 := by ring
  rw [h2, sqrt_sq sin_pi60_pos.le, ← cos_pi_div_two_sub,
    arccos_cos (by linarith [pi_pos]) (by linarith [pi_pos])]
  field_simp
  ring

/-- at `n = 60` the quotient is 1 and the transition latitude degenerates to 0 (the equator) -/
theorem theta_sixty : theta 60 = 0 := by
  unfold theta
  have h1 : (2 : ℝ) * π / ((60 : ℕ) : ℝ) = π / 30 := by push_cast; ring
  rw [h1, div_self (ne_of_gt A_pos), sqrt_one, arccos_one, mul_zero]

/-- the quotient under the root lies in `(0, 1]` for `2 ≤ n ≤ 60` -/
theorem ratio_range (n : ℕ) (hn : 2 ≤ n) (hn' : n ≤ 60) :
    0 < (1 - cos (π / 30)) / (1 - cos (2 * π / (n : ℝ))) ∧
      (1 - cos (π / 30)) / (1 - cos (2 * π / (n : ℝ))) ≤ 1 := by
  have hAB := A_le_B n hn hn'
  have hB : 0 < 1 - cos (2 * π / (n : ℝ)) := lt_of_lt_of_le A_pos hAB
  exact ⟨div_pos A_pos hB, (div_le_one hB).mpr hAB⟩

/-- **θ is strictly decreasing** on `2 ≤ m < n ≤ 60` -/
theorem theta_strictAnti (m n : ℕ) (hm : 2 ≤ m) (hmn : m < n) (hn : n ≤ 60) :
    theta n < theta m := by
  have hn2 : 2 ≤ n := by omega
  have hm60 : m ≤ 60 := by omega
  obtain ⟨hrm0, hrm1⟩ := ratio_range m hm hm60
  obtain ⟨hrn0, hrn1⟩ := ratio_range n hn2 hn
  have hBn : 0 < 1 - cos (2 * π / (n : ℝ)) := lt_of_lt_of_le A_pos (A_le_B n hn2 hn)
  have hlt : (1 - cos (π / 30)) / (1 - cos (2 * π / (m : ℝ))) <
      (1 - cos (π / 30)) / (1 - cos (2 * π / (n : ℝ))) :=
    div_lt_div_of_pos_left A_pos hBn (B_strictAnti m n hm hmn)
  have hs := sqrt_lt_sqrt hrm0.le hlt
  have hsm : sqrt ((1 - cos (π / 30)) / (1 - cos (2 * π / (m : ℝ)))) ∈ Set.Icc (-1 : ℝ) 1 :=
    ⟨by linarith [sqrt_nonneg ((1 - cos (π / 30)) / (1 - cos (2 * π / (m : ℝ))))],
      sqrt_le_one.mpr hrm1 |>.trans (le_refl _)⟩
  have hsn : sqrt ((1 - cos (π / 30)) / (1 - cos (2 * π / (n : ℝ)))) ∈ Set.Icc (-1 : ℝ) 1 :=
    ⟨by linarith [sqrt_nonneg ((1 - cos (π / 30)) / (1 - cos (2 * π / (n : ℝ))))],
      sqrt_le_one.mpr hrn1 |>.trans (le_refl _)⟩
  have ha := strictAntiOn_arccos hsm hsn hs
  unfold theta
  exact mul_lt_mul_of_pos_left ha (by positivity)

end PyModeS.NL
