/-
  NL / Part 2b: verified rational lower / upper bounds for `cos` at rational points and at
  rational multiples of π.
    `cosLower q ≤ cos q ≤ cosUpper q`                       for `0 ≤ q`
    `cosLower (q·piHi) ≤ cos (q·π) ≤ cosUpper (q·piLo)`     for `0 ≤ q`, `q·piHi ≤ 3`
  `cosLower` / `cosUpper` are the Taylor sums with 16 / 17 terms (degree 30 / 32), evaluated by a
  kernel-friendly accumulator loop on core `Rat`.
-/
import PyModeS.Proofs.NL.CosTaylor

namespace PyModeS.NL

open Real

/-- accumulator loop: `fuel` further terms, `k` terms already summed in `s`, `t` the next term -/
def cosLoop (x2 : ℚ) : ℕ → ℕ → ℚ → ℚ → ℚ
  | 0, _, s, _ => s
  | f + 1, k, s, t => cosLoop x2 f (k + 1) (s + t) (-t * x2 / (((2 * k + 1) * (2 * k + 2) : ℕ) : ℚ))

/-- sum of the first `K` terms of the cosine series at `q` -/
def cosQ (K : ℕ) (q : ℚ) : ℚ := cosLoop (q * q) K 0 0 1

theorem cosLoop_cast (x : ℚ) : ∀ (f k : ℕ) (s t : ℚ), ((s : ℚ) : ℝ) = cosT k (x : ℝ) →
    ((t : ℚ) : ℝ) = (-1) ^ k * (x : ℝ) ^ (2 * k) / ((2 * k).factorial : ℝ) →
    ((cosLoop (x * x) f k s t : ℚ) : ℝ) = cosT (k + f) (x : ℝ)
  | 0, k, s, t, hs, _ => by simpa [cosLoop] using hs
  | f + 1, k, s, t, hs, ht => by
    have e : k + (f + 1) = (k + 1) + f := by ring
    rw [cosLoop, e]
    apply cosLoop_cast x f (k + 1)
    · push_cast
      rw [hs, ht]
      rfl
    · push_cast
      rw [ht]
      have e2 : 2 * (k + 1) = (2 * k + 1) + 1 := by ring
      have hf : ((2 * (k + 1)).factorial : ℝ) =
          ((2 * (k : ℝ) + 1) + 1) * ((2 * (k : ℝ) + 1) * ((2 * k).factorial : ℝ)) := by
        rw [e2, Nat.factorial_succ, Nat.factorial_succ]; push_cast; ring
      have h0 : ((2 * k).factorial : ℝ) ≠ 0 := by positivity
      have h1 : (2 * (k : ℝ) + 1) ≠ 0 := by positivity
      have h2 : (2 * (k : ℝ) + 2) ≠ 0 := by positivity
      have h3 : (2 * (k : ℝ) + 1 + 1) ≠ 0 := by positivity
      rw [hf, pow_succ (-1 : ℝ) k, e2, pow_succ, pow_succ]
      field_simp
      ring

theorem cosQ_cast (K : ℕ) (q : ℚ) : ((cosQ K q : ℚ) : ℝ) = cosT K (q : ℝ) := by
  have := cosLoop_cast q K 0 0 1 (by simp [cosT]) (by simp)
  simpa [cosQ] using this

/-- rational lower bound of `cos q`, `q ≥ 0`: 16 terms (degree 30) -/
def cosLower (q : ℚ) : ℚ := cosQ 16 q

/-- rational upper bound of `cos q`, `q ≥ 0`: 17 terms (degree 32) -/
def cosUpper (q : ℚ) : ℚ := cosQ 17 q

theorem cosLower_le (q : ℚ) (hq : 0 ≤ q) : ((cosLower q : ℚ) : ℝ) ≤ cos (q : ℝ) := by
  rw [cosLower, cosQ_cast]
  exact cosT_even_le 7 (q : ℝ) (by exact_mod_cast hq)

theorem le_cosUpper (q : ℚ) (hq : 0 ≤ q) : cos (q : ℝ) ≤ ((cosUpper q : ℚ) : ℝ) := by
  rw [cosUpper, cosQ_cast]
  exact le_cosT_odd 8 (q : ℝ) (by exact_mod_cast hq)

/-- 20-digit enclosure of π (Mathlib `Real.pi_gt_d20`, `Real.pi_lt_d20`) -/
def piLo : ℚ := 314159265358979323846 / 100000000000000000000
def piHi : ℚ := 314159265358979323847 / 100000000000000000000

theorem piLo_lt : ((piLo : ℚ) : ℝ) < π := by
  have := pi_gt_d20
  unfold piLo; push_cast; norm_num at this ⊢; linarith

theorem lt_piHi : π < ((piHi : ℚ) : ℝ) := by
  have := pi_lt_d20
  unfold piHi; push_cast; norm_num at this ⊢; linarith

/-- interval version: `cos (q·π)` from below -/
theorem cosLower_pi_le (q : ℚ) (hq : 0 ≤ q) (h3 : q * piHi ≤ 3) :
    ((cosLower (q * piHi) : ℚ) : ℝ) ≤ cos ((q : ℝ) * π) := by
  have hq' : (0 : ℝ) ≤ (q : ℝ) := by exact_mod_cast hq
  have h0 : 0 ≤ q * piHi := mul_nonneg hq (by unfold piHi; norm_num)
  have h1 := cosLower_le (q * piHi) h0
  have h3' : ((q * piHi : ℚ) : ℝ) ≤ 3 := by exact_mod_cast h3
  have hle : (q : ℝ) * π ≤ ((q * piHi : ℚ) : ℝ) := by
    push_cast; exact mul_le_mul_of_nonneg_left (le_of_lt lt_piHi) hq'
  have h2 : cos ((q * piHi : ℚ) : ℝ) ≤ cos ((q : ℝ) * π) :=
    cos_le_cos_of_nonneg_of_le_pi (mul_nonneg hq' pi_pos.le)
      (le_trans h3' (le_of_lt pi_gt_three)) hle
  linarith

/-- interval version: `cos (q·π)` from above -/
theorem le_cosUpper_pi (q : ℚ) (hq : 0 ≤ q) (h3 : q * piHi ≤ 3) :
    cos ((q : ℝ) * π) ≤ ((cosUpper (q * piLo) : ℚ) : ℝ) := by
  have hq' : (0 : ℝ) ≤ (q : ℝ) := by exact_mod_cast hq
  have h0 : 0 ≤ q * piLo := mul_nonneg hq (by unfold piLo; norm_num)
  have h1 := le_cosUpper (q * piLo) h0
  have h3' : ((q * piHi : ℚ) : ℝ) ≤ 3 := by exact_mod_cast h3
  have hle : ((q * piLo : ℚ) : ℝ) ≤ (q : ℝ) * π := by
    push_cast; exact mul_le_mul_of_nonneg_left (le_of_lt piLo_lt) hq'
  have hle2 : (q : ℝ) * π ≤ ((q * piHi : ℚ) : ℝ) := by
    push_cast; exact mul_le_mul_of_nonneg_left (le_of_lt lt_piHi) hq'
  have h2 : cos ((q : ℝ) * π) ≤ cos ((q * piLo : ℚ) : ℝ) :=
    cos_le_cos_of_nonneg_of_le_pi (by exact_mod_cast h0)
      (le_trans hle2 (le_trans h3' (le_of_lt pi_gt_three))) hle
  linarith

/-! sanity: the two bounds of `cos 1` agree to 1e-30 and bracket 0.5403023058681397… -/
example : cosLower 1 ≤ cosUpper 1 ∧ cosUpper 1 - cosLower 1 < 1 / 10 ^ 30 ∧
    (5403023058681397 : ℚ) / 10 ^ 16 < cosLower 1 ∧ cosUpper 1 < 5403023058681398 / 10 ^ 16 := by
  decide +kernel

end PyModeS.NL
