/-
  Beast framer: the scan restarted on the retained raw suffix continues exactly where the
  whole-stream scan would be (two-chunk lemma for `readBeast`), for ARBITRARY byte content.
-/
import PyModeS.Model.Stream

namespace PyModeS.Stream

/-! ### one-step unfoldings -/

theorem beastScan_nil (msg : List Byte) (out : List (List Byte)) (st : List Byte) :
    beastScan [] msg out st = (out.reverse, st) := by
  simp [beastScan]

theorem beastScan_lone (msg : List Byte) (out : List (List Byte)) (st : List Byte) :
    beastScan [0x1A] msg out st = (out.reverse, st) := by
  simp [beastScan]

theorem beastScan_esc (rest msg : List Byte) (out : List (List Byte)) (st : List Byte) :
    beastScan (0x1A :: 0x1A :: rest) msg out st = beastScan rest (msg ++ [0x1A]) out st := by
  simp [beastScan]

theorem beastScan_div (c : Byte) (rest msg : List Byte) (out : List (List Byte)) (st : List Byte)
    (hc : c ≠ 0x1A) :
    beastScan (0x1A :: c :: rest) msg out st
      = beastScan (c :: rest) [] (if msg.isEmpty then out else msg :: out) (0x1A :: c :: rest) := by
  simp [beastScan, hc]

/-- an ordinary byte followed by at least one more byte -/
theorem beastScan_ord (b : Byte) (y msg : List Byte) (out : List (List Byte)) (st : List Byte)
    (hb : b ≠ 0x1A) (hy : y ≠ []) :
    beastScan (b :: y) msg out st = beastScan y (msg ++ [b]) out st := by
  cases y with
  | nil => exact absurd rfl hy
  | cons c rest => simp [beastScan, hb]

/-- an ordinary byte, whatever follows -/
theorem beastScan_ord' (b : Byte) (y msg : List Byte) (out : List (List Byte)) (st : List Byte)
    (hb : b ≠ 0x1A) :
    beastScan (b :: y) msg out st = beastScan y (msg ++ [b]) out st := by
  cases y with
  | nil => simp [beastScan, hb]
  | cons c rest => simp [beastScan, hb]

/-! ### `out` is a pure accumulator -/

theorem beastScan_acc' (x msg : List Byte) (out o0 : List (List Byte)) (st : List Byte) :
    beastScan x msg (out ++ o0) st
      = (o0.reverse ++ (beastScan x msg out st).1, (beastScan x msg out st).2) := by
  fun_induction beastScan x msg out st with
  | case1 msg out st => simp [beastScan_nil]
  | case2 msg out st => simp [beastScan_lone]
  | case3 b msg out st hb ih =>
    rw [beastScan_ord' b [] msg _ st hb]; exact ih
  | case4 b c rest msg out st h ih =>
    obtain ⟨rfl, rfl⟩ := h
    rw [beastScan_esc]; exact ih
  | case5 c rest msg out st h ih =>
    have hc : c ≠ 0x1A := fun hc => h ⟨rfl, hc⟩
    rw [beastScan_div c rest msg _ _ hc, ← ih]
    by_cases hm : msg.isEmpty <;> simp [hm]
  | case6 b c rest msg out st h hb ih =>
    rw [beastScan_ord' b (c :: rest) msg _ st hb]; exact ih

theorem beastScan_acc (x msg : List Byte) (out : List (List Byte)) (st : List Byte) :
    beastScan x msg out st
      = (out.reverse ++ (beastScan x msg [] st).1, (beastScan x msg [] st).2) := by
  simpa using beastScan_acc' x msg [] out st

/-! ### the restart lemma -/

/-- `Resume st x msg`: scanning the retained suffix `st` from scratch reaches the state
    "remaining bytes `x`, open message `msg`", whatever bytes `e` arrive later. -/
def Resume (st x msg : List Byte) : Prop :=
  ∀ (e : List Byte) (out : List (List Byte)),
    beastScan (st ++ e) [] out (st ++ e) = beastScan (x ++ e) msg out (st ++ e)

theorem Resume.init (x : List Byte) : Resume x x [] := fun _ _ => rfl

/-- Main lemma: the whole-stream scan of `x ++ e` equals the scan of `x`, followed by a fresh scan of
    (retained suffix ++ `e`). -/
theorem beastScan_append (x msg : List Byte) (out : List (List Byte)) (st : List Byte)
    (hres : Resume st x msg) (e : List Byte) :
    beastScan (x ++ e) msg out (st ++ e)
      = ((beastScan x msg out st).1
            ++ (beastScan ((beastScan x msg out st).2 ++ e) [] [] ((beastScan x msg out st).2 ++ e)).1,
         (beastScan ((beastScan x msg out st).2 ++ e) [] [] ((beastScan x msg out st).2 ++ e)).2) := by
  fun_induction beastScan x msg out st with
  | case1 msg out st =>
    have h := hres e []
    simp only [List.nil_append] at h ⊢
    rw [h, beastScan_acc e msg out]
  | case2 msg out st =>
    have h := hres e []
    rw [h, beastScan_acc ([26] ++ e) msg out]
  | case3 b msg out st hb ih =>
    have hstep : ∀ e' out', beastScan ([b] ++ e') msg out' (st ++ e')
        = beastScan ([] ++ e') (msg ++ [b]) out' (st ++ e') := by
      intro e' out'
      exact beastScan_ord' b e' msg out' _ hb
    have hres' : Resume st [] (msg ++ [b]) := fun e' out' => by
      rw [hres e' out', hstep]
    rw [hstep e out]
    exact ih hres'
  | case4 b c rest msg out st h ih =>
    obtain ⟨rfl, rfl⟩ := h
    have hres' : Resume st rest (msg ++ [0x1A]) := fun e' out' => by
      rw [hres e' out']; exact beastScan_esc _ _ _ _
    have := ih hres'
    rw [← this]; exact beastScan_esc _ _ _ _
  | case5 c rest msg out st h ih =>
    have hc : c ≠ 0x1A := fun hc => h ⟨rfl, hc⟩
    have hres' : Resume (0x1A :: c :: rest) (c :: rest) [] := fun e' out' => by
      have := beastScan_div c (rest ++ e') [] out' (0x1A :: c :: rest ++ e') hc
      simpa using this
    have := ih hres'
    rw [← this]
    exact beastScan_div c (rest ++ e) msg out _ hc
  | case6 b c rest msg out st h hb ih =>
    have hres' : Resume st (c :: rest) (msg ++ [b]) := fun e' out' => by
      rw [hres e' out']; exact beastScan_ord' b _ msg out' _ hb
    have := ih hres'
    rw [← this]
    exact beastScan_ord' b _ msg out _ hb

/-- Two-chunk lemma for the Beast reader, arbitrary bytes. -/
theorem readBeast_append (a b : List Byte) :
    readBeast (a ++ b)
      = ((readBeast a).1 ++ (readBeast ((readBeast a).2 ++ b)).1,
         (readBeast ((readBeast a).2 ++ b)).2) := by
  have h := beastScan_append a [] [] a (Resume.init a) b
  simp only [readBeast]
  rw [h]
  simp [List.filterMap_append]

theorem readBeast_nil : readBeast [] = ([], []) := by
  simp [readBeast, beastScan_nil]

end PyModeS.Stream
