/-
  AVR raw framer.  The two-chunk lemma is FALSE for arbitrary bytes (see C16.lean for the
  counter-examples `41;` cut after `4`, and `*41;;` cut between the two `;`).  It holds when every
  `;` closes a message opened by a `*` (`rawWF false stream`); garbage anywhere else is allowed.
-/
import PyModeS.Model.Stream

namespace PyModeS.Stream

/-- `rawWF op s`: in `s`, read with "a message is open" = `op`, every `;` (59) closes an open
    message, i.e. there is a `*` (42) between any two `;` and before the first one. -/
def rawWF : Bool → List Byte → Bool
  | _, [] => true
  | op, b :: rest =>
    if b = 59 then op && rawWF false rest
    else if b = 42 then rawWF true rest
    else rawWF op rest

theorem rawWF_prefix (a b : List Byte) : ∀ op, rawWF op (a ++ b) = true → rawWF op a = true := by
  induction a with
  | nil => intro op _; rfl
  | cons x a ih =>
    intro op h
    simp only [List.cons_append, rawWF] at h ⊢
    by_cases h59 : x = 59
    · simp only [h59, if_true, Bool.and_eq_true] at h ⊢
      exact ⟨h.1, ih _ h.2⟩
    · by_cases h42 : x = 42
      · subst h42
        have : ((42 : Byte) = 59) = False := by simp
        simp only [this, if_false, if_true] at h ⊢
        exact ih _ h
      · simp only [h59, h42, if_false] at h ⊢
        exact ih _ h

/-! ### one-step unfoldings -/

theorem rawScan_nil (cur : List Char) (stop : Bool) (out : List Msg) (st : Option (List Byte)) :
    rawScan [] cur stop out st = (out.reverse, st.getD []) := by
  simp [rawScan]

theorem rawScan_semi (rest : List Byte) (cur : List Char) (stop : Bool) (out : List Msg)
    (st : Option (List Byte)) :
    rawScan (59 :: rest) cur stop out st = rawScan rest cur true (cur :: out) none := by
  simp [rawScan, isHexByte]

theorem rawScan_star (rest : List Byte) (cur : List Char) (stop : Bool) (out : List Msg)
    (st : Option (List Byte)) :
    rawScan (42 :: rest) cur stop out st = rawScan rest [] false out (some (42 :: rest)) := by
  simp [rawScan, isHexByte]

theorem rawScan_other (b : Byte) (rest : List Byte) (cur : List Char) (stop : Bool) (out : List Msg)
    (st : Option (List Byte)) (h59 : b ≠ 59) (h42 : b ≠ 42) :
    rawScan (b :: rest) cur stop out st
      = rawScan rest (if !stop && isHexByte b then cur ++ [Char.ofNat b] else cur) stop out st := by
  simp [rawScan, h59, h42]

/-! ### `out` is a pure accumulator -/

theorem rawScan_acc' (x : List Byte) : ∀ (cur : List Char) (stop : Bool) (out o0 : List Msg)
    (st : Option (List Byte)),
    rawScan x cur stop (out ++ o0) st
      = (o0.reverse ++ (rawScan x cur stop out st).1, (rawScan x cur stop out st).2) := by
  induction x with
  | nil => intro cur stop out o0 st; simp [rawScan_nil]
  | cons b rest ih =>
    intro cur stop out o0 st
    by_cases h59 : b = 59
    · subst h59
      rw [rawScan_semi, rawScan_semi, ← ih]; rfl
    · by_cases h42 : b = 42
      · subst h42
        rw [rawScan_star, rawScan_star, ← ih]
      · rw [rawScan_other b rest cur stop _ st h59 h42, rawScan_other b rest cur stop _ st h59 h42, ← ih]

theorem rawScan_acc (x : List Byte) (cur : List Char) (stop : Bool) (out : List Msg)
    (st : Option (List Byte)) :
    rawScan x cur stop out st
      = (out.reverse ++ (rawScan x cur stop [] st).1, (rawScan x cur stop [] st).2) := by
  simpa using rawScan_acc' x cur stop [] out st

/-! ### with no message open and a well-formed continuation, `cur`/`stop` do not matter -/

theorem rawScan_forget (y : List Byte) : ∀ (cur cur' : List Char) (stop stop' : Bool) (out : List Msg)
    (st : Option (List Byte)), rawWF false y = true →
    rawScan y cur stop out st = rawScan y cur' stop' out st := by
  induction y with
  | nil => intro cur cur' stop stop' out st _; simp [rawScan_nil]
  | cons b rest ih =>
    intro cur cur' stop stop' out st h
    by_cases h59 : b = 59
    · subst h59; simp [rawWF] at h
    · by_cases h42 : b = 42
      · subst h42; rw [rawScan_star, rawScan_star]
      · rw [rawScan_other b rest cur stop out st h59 h42, rawScan_other b rest cur' stop' out st h59 h42]
        apply ih
        simpa [rawWF, h59, h42] using h

/-! ### the restart lemma -/

/-- `RawResume st x cur stop`: if a message is open (`st = some s`), scanning the retained suffix
    `s` from scratch reaches "remaining `x`, text `cur`, flag `stop`", whatever arrives later. -/
def RawResume (st : Option (List Byte)) (x : List Byte) (cur : List Char) (stop : Bool) : Prop :=
  ∀ s, st = some s → ∀ (e : List Byte) (out : List Msg),
    rawScan (s ++ e) [] false out none = rawScan (x ++ e) cur stop out (some (s ++ e))

theorem rawScan_append (e : List Byte) (x : List Byte) :
    ∀ (cur : List Char) (stop : Bool) (out : List Msg) (st : Option (List Byte)),
    rawWF st.isSome (x ++ e) = true → RawResume st x cur stop →
    rawScan (x ++ e) cur stop out (st.map (· ++ e))
      = ((rawScan x cur stop out st).1
            ++ (rawScan ((rawScan x cur stop out st).2 ++ e) [] false [] none).1,
         (rawScan ((rawScan x cur stop out st).2 ++ e) [] false [] none).2) := by
  induction x with
  | nil =>
    intro cur stop out st hwf hres
    cases st with
    | none =>
      simp only [List.nil_append, Option.isSome_none] at hwf
      simp only [List.nil_append, Option.map_none, rawScan_nil, Option.getD_none]
      rw [rawScan_forget e cur [] stop false out none hwf, rawScan_acc e [] false out none]
    | some s =>
      have h := hres s rfl e []
      simp only [List.nil_append] at h
      simp only [List.nil_append, Option.map_some, rawScan_nil, Option.getD_some]
      rw [h, rawScan_acc e cur stop out]
  | cons b rest ih =>
    intro cur stop out st hwf hres
    by_cases h59 : b = 59
    · subst h59
      simp only [List.cons_append, rawScan_semi]
      have hwf' : rawWF (none : Option (List Byte)).isSome (rest ++ e) = true := by
        simp only [List.cons_append, rawWF, if_true, Bool.and_eq_true] at hwf
        exact hwf.2
      have hres' : RawResume none rest cur true := fun s hs => by cases hs
      exact ih cur true (cur :: out) none hwf' hres'
    · by_cases h42 : b = 42
      · subst h42
        simp only [List.cons_append, rawScan_star]
        have hwf' : rawWF (some (42 :: rest)).isSome (rest ++ e) = true := by
          simpa [rawWF] using hwf
        have hres' : RawResume (some (42 :: rest)) rest [] false := fun s hs e' out' => by
          cases hs
          simp only [List.cons_append, rawScan_star]
        exact ih [] false out (some (42 :: rest)) hwf' hres'
      · simp only [List.cons_append]
        rw [rawScan_other b (rest ++ e) cur stop out _ h59 h42, rawScan_other b rest cur stop out st h59 h42]
        have hwf' : rawWF st.isSome (rest ++ e) = true := by
          simpa [rawWF, h59, h42] using hwf
        have hres' : RawResume st rest (if !stop && isHexByte b then cur ++ [Char.ofNat b] else cur) stop :=
          fun s hs e' out' => by
            rw [hres s hs e' out']
            simp only [List.cons_append]
            rw [rawScan_other b (rest ++ e') cur stop out' _ h59 h42]
        exact ih _ stop out st hwf' hres'

/-- Two-chunk lemma for the raw reader, for streams in which every `;` closes a `*`. -/
theorem readRaw_append (a b : List Byte) (hwf : rawWF false (a ++ b) = true) :
    readRaw (a ++ b)
      = ((readRaw a).1 ++ (readRaw ((readRaw a).2 ++ b)).1,
         (readRaw ((readRaw a).2 ++ b)).2) := by
  have h := rawScan_append b a [] false [] none (by simpa using hwf) (fun s hs => by cases hs)
  simpa [readRaw] using h

theorem readRaw_nil : readRaw [] = ([], []) := by
  simp [readRaw, rawScan_nil]

end PyModeS.Stream
