/-
  Generic lifting: a reader satisfying the two-chunk equation (possibly only on streams with a
  prefix-closed property `P`) gives chunk-invariant `feedAll`.
-/
import PyModeS.Model.Stream

namespace PyModeS.Stream

/-- the two-chunk equation for a reader -/
def TwoChunk (read : List Byte → List Msg × List Byte) (a b : List Byte) : Prop :=
  read (a ++ b) = ((read a).1 ++ (read ((read a).2 ++ b)).1, (read ((read a).2 ++ b)).2)

/-- Feeding the chunks `cs` to a client that has already consumed the stream `s0` (so its buffer is
    `(read s0).2` and it has handed on `(read s0).1`) ends in the state of ONE read of `s0 ++ cs.flatten`. -/
theorem feedAll_resume (fmt : Fmt) (P : List Byte → Prop)
    (hP : ∀ a b, P (a ++ b) → P a)
    (h2 : ∀ a b, P (a ++ b) → TwoChunk (readFmt fmt) a b) :
    ∀ (cs : List (List Byte)) (s0 : List Byte), P (s0 ++ cs.flatten) →
      feedAll fmt cs (readFmt fmt s0).2 (readFmt fmt s0).1 = readFmt fmt (s0 ++ cs.flatten) := by
  intro cs
  induction cs with
  | nil => intro s0 _; simp [feedAll]
  | cons c cs ih =>
    intro s0 hp
    have hp' : P ((s0 ++ c) ++ cs.flatten) := by simpa [List.append_assoc] using hp
    have h := h2 s0 c (hP _ _ hp')
    unfold TwoChunk at h
    have e := ih (s0 ++ c) hp'
    rw [h] at e
    simp only [feedAll, List.flatten_cons]
    rw [e, List.append_assoc]

theorem feedAll_of_twoChunk (fmt : Fmt) (P : List Byte → Prop)
    (hP : ∀ a b, P (a ++ b) → P a)
    (h2 : ∀ a b, P (a ++ b) → TwoChunk (readFmt fmt) a b)
    (h0 : readFmt fmt [] = ([], []))
    (cs : List (List Byte)) (hp : P cs.flatten) :
    feedAll fmt cs [] [] = readFmt fmt cs.flatten := by
  have := feedAll_resume fmt P hP h2 cs [] (by simpa using hp)
  simpa [h0] using this

end PyModeS.Stream
