/-
  NetSource.handle_messages: the `for` loop appends the long DF17/18 messages to `adsb` and the long
  DF20/21 messages to `commb`, in order; closed form of one call.
-/
import PyModeS.Model.Stream

namespace PyModeS.Stream

/-- long ADS-B / TIS-B message (what goes to the `adsb` buffer) -/
def isAdsb (m : Msg) : Bool := decide (m.length ≥ 28 ∧ (df m = 17 ∨ df m = 18))
/-- long Comm-B message (what goes to the `commb` buffer) -/
def isCommb (m : Msg) : Bool := decide (m.length ≥ 28 ∧ (df m = 20 ∨ df m = 21))

/-- the body of the `for` loop -/
def nsStep (s : NetSrc) (m : Msg) : NetSrc :=
  if m.length < 28 then s else
  let d := df m
  if d = 17 ∨ d = 18 then { s with adsb := s.adsb ++ [m] }
  else if d = 20 ∨ d = 21 then { s with commb := s.commb ++ [m] }
  else s

theorem nsStep_eq (s : NetSrc) (m : Msg) :
    nsStep s m = ⟨s.adsb ++ [m].filter isAdsb, s.commb ++ [m].filter isCommb⟩ := by
  unfold nsStep isAdsb isCommb
  by_cases hl : m.length < 28
  · have : ¬ m.length ≥ 28 := by omega
    simp [hl, this]
  · have hl' : m.length ≥ 28 := by omega
    by_cases h1 : df m = 17 ∨ df m = 18
    · have h2 : ¬ (df m = 20 ∨ df m = 21) := by omega
      simp [hl, hl', h1, h2]
    · by_cases h2 : df m = 20 ∨ df m = 21
      · simp [hl, hl', h1, h2]
      · simp [hl, hl', h1, h2]

theorem nsFold_eq (msgs : List Msg) : ∀ s : NetSrc,
    msgs.foldl nsStep s = ⟨s.adsb ++ msgs.filter isAdsb, s.commb ++ msgs.filter isCommb⟩ := by
  induction msgs with
  | nil => intro s; simp
  | cons m ms ih =>
    intro s
    rw [List.foldl_cons, ih, nsStep_eq]
    have e : m :: ms = [m] ++ ms := rfl
    rw [e, List.filter_append, List.filter_append]
    simp [List.append_assoc]

/-- closed form of one call of `handle_messages` -/
theorem nsHandle_eq (s : NetSrc) (msgs : List Msg) :
    nsHandle s msgs =
      if (s.adsb ++ msgs.filter isAdsb).length > 1 then
        (⟨[], []⟩, some (s.adsb ++ msgs.filter isAdsb, s.commb ++ msgs.filter isCommb))
      else (⟨s.adsb ++ msgs.filter isAdsb, s.commb ++ msgs.filter isCommb⟩, none) := by
  have h : nsHandle s msgs =
      if (msgs.foldl nsStep s).adsb.length > 1 then
        (⟨[], []⟩, some ((msgs.foldl nsStep s).adsb, (msgs.foldl nsStep s).commb))
      else (msgs.foldl nsStep s, none) := rfl
  rw [h, nsFold_eq]

end PyModeS.Stream
