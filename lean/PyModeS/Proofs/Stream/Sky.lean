/-
  Skysense framer: fuel sufficiency, fuel-free recursion equation, two-chunk lemma (arbitrary bytes).
-/
import PyModeS.Model.Stream

namespace PyModeS.Stream

/-- the message emitted when a frame is recognised at the head of `buf` -/
def skyPayload (buf : List Byte) : Msg :=
  hexOfBytes (if buf.getD 1 0 >>> 7 ≠ 0 then slice 1 15 buf else slice 1 8 buf)

theorem skyLoop_zero (buf : List Byte) (out : List Msg) : skyLoop 0 buf out = (out.reverse, buf) := by
  simp [skyLoop]

theorem skyLoop_succ (fuel : Nat) (buf : List Byte) (out : List Msg) :
    skyLoop (fuel + 1) buf out =
      if buf.length ≤ 24 then (out.reverse, buf)
      else if buf.getD 0 0 = 0x24 ∧ buf.getD 24 0 = 0x24 then
        skyLoop fuel (buf.drop 24) (skyPayload buf :: out)
      else skyLoop fuel (buf.drop 1) out := by
  simp [skyLoop, skyPayload]

/-- any fuel ≥ length gives the same result -/
theorem skyLoop_fuel (f1 : Nat) : ∀ (f2 : Nat) (buf : List Byte) (out : List Msg),
    buf.length ≤ f1 → buf.length ≤ f2 → skyLoop f1 buf out = skyLoop f2 buf out := by
  induction f1 with
  | zero =>
    intro f2 buf out h1 _
    have hb : buf = [] := List.eq_nil_of_length_eq_zero (by omega)
    subst hb
    cases f2 with
    | zero => rfl
    | succ m => simp [skyLoop_zero, skyLoop_succ]
  | succ n ih =>
    intro f2 buf out h1 h2
    cases f2 with
    | zero =>
      have hb : buf = [] := List.eq_nil_of_length_eq_zero (by omega)
      subst hb
      simp [skyLoop_zero, skyLoop_succ]
    | succ m =>
      rw [skyLoop_succ, skyLoop_succ]
      by_cases hl : buf.length ≤ 24
      · simp [hl]
      · simp only [hl, if_false]
        have hd24 : (buf.drop 24).length ≤ n ∧ (buf.drop 24).length ≤ m := by
          simp only [List.length_drop]; omega
        have hd1 : (buf.drop 1).length ≤ n ∧ (buf.drop 1).length ≤ m := by
          simp only [List.length_drop]; omega
        rw [ih m (buf.drop 24) _ hd24.1 hd24.2, ih m (buf.drop 1) _ hd1.1 hd1.2]

/-- fuel-free form of the loop -/
def skyRun (buf : List Byte) (out : List Msg) : List Msg × List Byte := skyLoop buf.length buf out

theorem readSky_eq (buf : List Byte) : readSky buf = skyRun buf [] := rfl

theorem skyRun_short (buf : List Byte) (out : List Msg) (h : buf.length ≤ 24) :
    skyRun buf out = (out.reverse, buf) := by
  unfold skyRun
  cases hn : buf.length with
  | zero => simp [skyLoop_zero]
  | succ n => rw [skyLoop_succ]; simp [h]

theorem skyRun_long (buf : List Byte) (out : List Msg) (h : ¬ buf.length ≤ 24) :
    skyRun buf out =
      if buf.getD 0 0 = 0x24 ∧ buf.getD 24 0 = 0x24 then
        skyRun (buf.drop 24) (skyPayload buf :: out)
      else skyRun (buf.drop 1) out := by
  unfold skyRun
  cases hn : buf.length with
  | zero => omega
  | succ n =>
    rw [skyLoop_succ]
    simp only [h, if_false]
    have h24 : (buf.drop 24).length ≤ n := by simp only [List.length_drop]; omega
    have h1 : (buf.drop 1).length ≤ n := by simp only [List.length_drop]; omega
    rw [skyLoop_fuel n (buf.drop 24).length (buf.drop 24) _ h24 (Nat.le_refl _),
        skyLoop_fuel n (buf.drop 1).length (buf.drop 1) _ h1 (Nat.le_refl _)]

/-- `out` is a pure accumulator -/
theorem skyRun_acc (n : Nat) : ∀ (buf : List Byte) (out : List Msg), buf.length ≤ n →
    skyRun buf out = (out.reverse ++ (skyRun buf []).1, (skyRun buf []).2) := by
  induction n with
  | zero =>
    intro buf out h
    rw [skyRun_short buf out (by omega), skyRun_short buf [] (by omega)]; simp
  | succ n ih =>
    intro buf out h
    by_cases hl : buf.length ≤ 24
    · rw [skyRun_short buf out hl, skyRun_short buf [] hl]; simp
    · rw [skyRun_long buf out hl, skyRun_long buf [] hl]
      have h24 : (buf.drop 24).length ≤ n := by simp only [List.length_drop]; omega
      have h1 : (buf.drop 1).length ≤ n := by simp only [List.length_drop]; omega
      split
      · rw [ih _ (skyPayload buf :: out) h24, ih _ [skyPayload buf] h24]; simp
      · exact ih _ out h1

/-- the loop only looks at bytes 0, 1..14 and 24 of a buffer longer than 24 bytes -/
theorem sky_head_append (x e : List Byte) (h : ¬ x.length ≤ 24) :
    (x ++ e).getD 0 0 = x.getD 0 0 ∧ (x ++ e).getD 24 0 = x.getD 24 0
      ∧ skyPayload (x ++ e) = skyPayload x := by
  have hlen : 24 < x.length := by omega
  have g : ∀ i, i < x.length → (x ++ e).getD i 0 = x.getD i 0 := by
    intro i hi
    simp [List.getD_eq_getElem?_getD, List.getElem?_append_left hi]
  refine ⟨g 0 (by omega), g 24 hlen, ?_⟩
  unfold skyPayload
  rw [g 1 (by omega)]
  have s1 : ∀ k, k ≤ 24 → slice 1 k (x ++ e) = slice 1 k x := by
    intro k hk
    unfold slice
    rw [List.drop_append_of_le_length (by omega), List.take_append_of_le_length]
    simp only [List.length_drop]; omega
  rw [s1 15 (by omega), s1 8 (by omega)]

/-- restart lemma -/
theorem skyRun_append (e : List Byte) (n : Nat) : ∀ (x : List Byte) (out : List Msg), x.length ≤ n →
    skyRun (x ++ e) out
      = ((skyRun x out).1 ++ (skyRun ((skyRun x out).2 ++ e) []).1,
         (skyRun ((skyRun x out).2 ++ e) []).2) := by
  induction n with
  | zero =>
    intro x out h
    rw [skyRun_short x out (by omega)]
    exact skyRun_acc _ _ out (Nat.le_refl _)
  | succ n ih =>
    intro x out h
    by_cases hl : x.length ≤ 24
    · rw [skyRun_short x out hl]
      exact skyRun_acc _ _ out (Nat.le_refl _)
    · have hl' : ¬ (x ++ e).length ≤ 24 := by simp only [List.length_append]; omega
      obtain ⟨g0, g24, gp⟩ := sky_head_append x e hl
      rw [skyRun_long (x ++ e) out hl', skyRun_long x out hl, g0, g24, gp]
      have h24 : (x.drop 24).length ≤ n := by simp only [List.length_drop]; omega
      have h1 : (x.drop 1).length ≤ n := by simp only [List.length_drop]; omega
      rw [List.drop_append_of_le_length (by omega), List.drop_append_of_le_length (by omega)]
      split
      · exact ih _ _ h24
      · exact ih _ _ h1

/-- Two-chunk lemma for the Skysense reader, arbitrary bytes. -/
theorem readSky_append (a b : List Byte) :
    readSky (a ++ b)
      = ((readSky a).1 ++ (readSky ((readSky a).2 ++ b)).1,
         (readSky ((readSky a).2 ++ b)).2) := by
  simp only [readSky_eq]
  exact skyRun_append b a.length a [] (Nat.le_refl _)

theorem readSky_nil : readSky [] = ([], []) := by
  simp [readSky, skyLoop_zero]

end PyModeS.Stream
