/-
  Reading bits and (multi-field) unsigned values back out of a `build` layout.
-/
import PyModeS.Proofs.Infer.Base
namespace PyModeS.Infer
open PyModeS

theorem bin2int_append' (a b : Bits) : bin2int (a ++ b) = bin2int a * 2 ^ b.length + bin2int b := by
  induction b using snoc_induction with
  | nil => simp [bin2int_nil]
  | snoc b c ih =>
    rw [← List.append_assoc, bin2int_append_single, bin2int_append_single, ih]
    simp only [List.length_append, List.length_singleton, Nat.pow_succ]
    generalize 2 ^ b.length = p
    have : 2 * (bin2int a * p) = bin2int a * (p * 2) := by ac_rfl
    omega

theorem build_append (A B : List (Nat × Nat)) : build (A ++ B) = build A ++ build B := by
  induction A with
  | nil => rfl
  | cons f A ih => obtain ⟨w, v⟩ := f; simp [build, ih]

theorem offset_eq (F : List (Nat × Nat)) (i : Nat) : offset F i = (build (F.take i)).length := by
  induction F generalizing i with
  | nil => simp [offset, build]
  | cons f F ih =>
    obtain ⟨w, v⟩ := f
    cases i with
    | zero => simp [offset, build]
    | succ i => simp [offset, build, ih i]

/-- the bits of fields `i .. j-1` of a layout -/
theorem slice_build_range (F : List (Nat × Nat)) (i j : Nat) (hij : i ≤ j) :
    slice (offset F i) (offset F j) (build F) = build ((F.drop i).take (j - i)) := by
  have e1 : F = F.take i ++ ((F.drop i).take (j - i) ++ (F.drop i).drop (j - i)) := by
    rw [List.take_append_drop, List.take_append_drop]
  have e2 : F.take j = F.take i ++ (F.drop i).take (j - i) := by
    have : j = i + (j - i) := by omega
    rw [this, List.take_add]
    congr 2
    omega
  rw [offset_eq F i, offset_eq F j, e2, build_append, List.length_append]
  conv => lhs; arg 3; rw [e1]
  rw [build_append, build_append, ← List.append_assoc]
  exact slice_append_mid _ _ _

theorem fld_build (F : List (Nat × Nat)) (i j : Nat) (hij : i ≤ j) :
    fld (build F) (offset F i) (offset F j) = bin2int (build ((F.drop i).take (j - i))) := by
  unfold fld; rw [slice_build_range F i j hij]

theorem bin2int_build_cons (w v : Nat) (fs : List (Nat × Nat)) :
    bin2int (build ((w, v) :: fs)) = (v % 2 ^ w) * 2 ^ (build fs).length + bin2int (build fs) := by
  simp only [build]
  rw [bin2int_append', bin2int_natToBits]

theorem bin2int_build_nil : bin2int (build []) = 0 := rfl

/-- a bit is the one-bit field at its position -/
theorem bitAt_eq_fld (d : Bits) (i : Nat) : bitAt d i = (fld d i (i + 1) == 1) := by
  unfold bitAt fld slice
  by_cases h : i < d.length
  · have e : List.take (i + 1 - i) (List.drop i d) = [d[i]] := by
      have : i + 1 - i = 1 := by omega
      rw [this, List.drop_eq_getElem_cons h]
      rfl
    rw [e]
    simp only [List.getD, List.getElem?_eq_getElem h, Option.getD_some]
    cases d[i] <;> rfl
  · have e : List.drop i d = [] := List.drop_eq_nil_of_le (by omega)
    rw [e]
    simp [List.getD, List.getElem?_eq_none (by omega : d.length ≤ i), bin2int_nil]

theorem toNat_mod_two (b : Bool) : b.toNat % 2 = b.toNat := by cases b <;> rfl

theorem toNat_eq_one (b : Bool) : (b.toNat == 1) = b := by cases b <;> rfl

/-- the whole string as a field -/
theorem fld_all (d : Bits) (n : Nat) (h : d.length = n) : fld d 0 n = bin2int d := by
  unfold fld slice
  simp [← h]

/-! ### reading a layout with literal widths (the side conditions are closed by `rfl`) -/

/-- a one-bit field holding a Boolean -/
theorem build_bit (F : List (Nat × Nat)) (i o : Nat) (b : Bool) (ho : offset F i = o) (ho' : offset F (i + 1) = o + 1)
    (hf : (F.drop i).take 1 = [(1, b.toNat)]) : bitAt (build F) o = b := by
  rw [bitAt_eq_fld]
  have := fld_build F i (i + 1) (by omega)
  rw [ho, ho', Nat.add_sub_cancel_left, hf, bin2int_build_cons, bin2int_build_nil] at this
  rw [this]
  cases b <;> rfl

/-- a single `w`-bit field -/
theorem build_fld1 (F : List (Nat × Nat)) (i a b w v : Nat) (ho : offset F i = a) (ho' : offset F (i + 1) = b)
    (hf : (F.drop i).take 1 = [(w, v)]) (hv : v < 2 ^ w) : fld (build F) a b = v := by
  have := fld_build F i (i + 1) (by omega)
  rw [ho, ho', Nat.add_sub_cancel_left, hf, bin2int_build_cons, bin2int_build_nil, Nat.mod_eq_of_lt hv] at this
  rw [this]
  simp [build]

/-- a sign bit followed by a `w`-bit magnitude, read as one field -/
theorem build_fld2 (F : List (Nat × Nat)) (i a b w v : Nat) (g : Bool) (ho : offset F i = a)
    (ho' : offset F (i + 2) = b) (hf : (F.drop i).take 2 = [(1, g.toNat), (w, v)]) (hv : v < 2 ^ w) :
    fld (build F) a b = g.toNat * 2 ^ w + v := by
  have := fld_build F i (i + 2) (by omega)
  rw [ho, ho', Nat.add_sub_cancel_left, hf, bin2int_build_cons, bin2int_build_cons, bin2int_build_nil,
    Nat.mod_eq_of_lt hv] at this
  rw [this]
  simp [build, toNat_mod_two]

/-- the MB field of `header ++ payload ++ parity` -/
theorem mbOf_frame (hdr mb par : Bits) (h1 : hdr.length = 32) (h2 : mb.length = 56) :
    mbOf (hdr ++ mb ++ par) = mb := by
  have := slice_append_mid hdr mb par
  rw [h1, h2] at this
  exact this

end PyModeS.Infer
