/-
  Soundness of the Comm-B rules: a payload that violates a status rule or a reserved-bit rule of a
  register does not satisfy that register's `isXX`, hence its label is not among those `infer` joins.
-/
import PyModeS.Proofs.Infer.Main
namespace PyModeS.Infer
open PyModeS

/-! ### fields that are not all zero -/

theorem bin2int_eq_zero_iff (l : Bits) : bin2int l = 0 ↔ ∀ b ∈ l, b = false := by
  induction l using snoc_induction with
  | nil => simp [bin2int_nil]
  | snoc l x ih =>
    rw [bin2int_append_single]
    constructor
    · intro h b hb
      have h1 : bin2int l = 0 := by omega
      have h2 : x.toNat = 0 := by omega
      rcases List.mem_append.mp hb with hb | hb
      · exact ih.mp h1 b hb
      · have : b = x := by simpa using hb
        subst this
        cases b <;> simp_all
    · intro h
      have h1 := ih.mpr (fun b hb => h b (List.mem_append_left _ hb))
      have h2 : x = false := h x (by simp)
      subst h2
      simp [h1]

/-- a field is non-zero exactly when one of its bits is 1 -/
theorem fld_ne_zero_iff (d : Bits) (a b : Nat) : fld d a b ≠ 0 ↔ true ∈ slice a b d := by
  unfold fld
  rw [Ne, bin2int_eq_zero_iff]
  constructor
  · intro h
    apply Classical.byContradiction
    intro hn
    apply h
    intro x hx
    cases x with
    | false => rfl
    | true => exact absurd hx hn
  · intro h hall
    exact absurd (hall true h) (by decide)

/-- … i.e. when some bit at a position `a ≤ i < b` is 1 -/
theorem fld_ne_zero_of_bit (d : Bits) (a b i : Nat) (h1 : a ≤ i) (h2 : i < b) (hb : bitAt d i = true) :
    fld d a b ≠ 0 := by
  rw [fld_ne_zero_iff]
  have hi : i < d.length := by
    apply Classical.byContradiction
    intro hn
    simp [bitAt, List.getD, List.getElem?_eq_none (by omega : d.length ≤ i)] at hb
  have : (slice a b d)[i - a]? = some true := by
    simp only [slice, List.getElem?_take, List.getElem?_drop]
    have e : a + (i - a) = i := by omega
    rw [e, if_pos (by omega)]
    simp only [bitAt, List.getD] at hb
    rw [List.getElem?_eq_getElem hi] at hb ⊢
    simpa using hb
  exact List.mem_of_getElem? this

/-! ### status rules -/

/-- `wrongstatus` flags exactly: status bit 0 and field not all zero -/
theorem wrongP_iff (d : Bits) (sb msb lsb : Nat) :
    wrongP d sb msb lsb = true ↔ (bitAt d (sb - 1) = false ∧ fld d (msb - 1) lsb ≠ 0) := by
  unfold wrongP
  cases bitAt d (sb - 1) <;> simp

theorem statusP_false_of_wrong (d : Bits) (l : List (Nat × Nat × Nat)) (t : Nat × Nat × Nat) (ht : t ∈ l)
    (h0 : bitAt d (t.1 - 1) = false) (h1 : fld d (t.2.1 - 1) t.2.2 ≠ 0) : statusP d l = false := by
  cases hs : statusP d l with
  | false => rfl
  | true =>
    unfold statusP at hs
    rw [List.all_eq_true] at hs
    have := hs t ht
    have hw := (wrongP_iff d t.1 t.2.1 t.2.2).mpr ⟨h0, h1⟩
    simp [hw] at this

theorem statusP_iff (d : Bits) (l : List (Nat × Nat × Nat)) :
    statusP d l = true ↔ ∀ t ∈ l, bitAt d (t.1 - 1) = true ∨ fld d (t.2.1 - 1) t.2.2 = 0 := by
  unfold statusP
  rw [List.all_eq_true]
  constructor
  · intro h t ht
    have := h t ht
    have hw : ¬ (wrongP d t.1 t.2.1 t.2.2 = true) := by simpa using this
    rw [wrongP_iff] at hw
    cases hb : bitAt d (t.1 - 1) with
    | true => exact Or.inl rfl
    | false =>
      right
      apply Classical.byContradiction
      intro hn
      exact hw ⟨hb, hn⟩
  · intro h t ht
    have hw : ¬ (wrongP d t.1 t.2.1 t.2.2 = true) := by
      rw [wrongP_iff]
      intro ⟨h0, h1⟩
      rcases h t ht with h2 | h2
      · rw [h0] at h2; exact absurd h2 (by decide)
      · exact h1 h2
    simpa using hw

/-- each register with status bits requires all its status rules -/
theorem is40P_status (d : Bits) (h : is40P d = true) : statusP d rules40 = true := by
  unfold is40P at h
  cases hs : statusP d rules40 with
  | true => rfl
  | false => simp [hs] at h

theorem is44P_status (d : Bits) (h : is44P d = true) : statusP d rules44 = true := by
  unfold is44P at h
  cases hs : statusP d rules44 with
  | true => rfl
  | false => simp [hs] at h

theorem is45P_status (d : Bits) (h : is45P d = true) : statusP d rules45 = true := by
  unfold is45P at h
  cases hs : statusP d rules45 with
  | true => rfl
  | false => simp [hs] at h

theorem is50P_status (d : Bits) (h : is50P d = true) : statusP d rules50 = true := by
  unfold is50P at h
  cases hs : statusP d rules50 with
  | true => rfl
  | false => simp [hs] at h

theorem is60CoreP_status (d : Bits) (h : is60CoreP d = true) : statusP d rules60 = true := by
  unfold is60CoreP at h
  cases hs : statusP d rules60 with
  | true => rfl
  | false => simp [hs] at h

theorem is60P_core (ias : Rat → Int → Rat) (bits : Bits) (h : is60P ias bits = true) :
    is60CoreP (mbOf bits) = true := by
  unfold is60P at h
  cases hs : is60CoreP (mbOf bits) with
  | true => rfl
  | false => simp [hs] at h

theorem bool_false_of_not {b : Bool} (h : b = true → False) : b = false := by
  cases b with
  | false => rfl
  | true => exact (h rfl).elim

/-! ### reserved-bit rules -/

theorem is10P_reserved (d : Bits) (h : is10P d = true) :
    bin2int d ≠ 0 ∧ slice 0 8 d = natToBits 8 0x10 ∧ fld d 9 14 = 0 := by
  unfold is10P at h
  split at h
  · simp at h
  · rename_i h0
    split at h
    · simp at h
    · rename_i h1
      split at h
      · simp at h
      · rename_i h2
        exact ⟨h0, Classical.not_not.mp h1, Classical.not_not.mp h2⟩

theorem cap17_label_enum : ∀ i, i < 24 → ("BDS" ++ Tables.cap17All.getD i "" = "BDS20" ↔ i = 6) := by decide

/-- the capability list names BDS 2,0 exactly when MB bit 7 is set -/
theorem cap17P_contains_iff (d : Bits) (hd : d.length = 56) : (cap17P d).contains "BDS20" = true ↔ bitAt d 6 = true := by
  unfold cap17P
  rw [List.contains_iff_mem, List.mem_map]
  have hl : (d.take 24).length = 24 := by rw [List.length_take]; omega
  have h6 : (d.take 24).getD 6 false = bitAt d 6 := by
    simp [bitAt, List.getD]
  constructor
  · rintro ⟨i, hi, he⟩
    rw [List.mem_filter, List.mem_range, hl] at hi
    have := (cap17_label_enum i hi.1).mp he
    subst this
    rw [← h6]; exact hi.2
  · intro hb
    refine ⟨6, ?_, by decide⟩
    rw [List.mem_filter, List.mem_range, hl, h6]
    exact ⟨by decide, hb⟩

theorem is17P_iff (d : Bits) (hd : d.length = 56) :
    is17P d = true ↔ (bin2int d ≠ 0 ∧ fld d 24 56 = 0 ∧ bitAt d 6 = true) := by
  unfold is17P
  rw [← cap17P_contains_iff d hd]
  by_cases h0 : bin2int d = 0
  · simp [h0]
  · by_cases h1 : fld d 24 56 = 0
    · simp [h0, h1]
    · simp [h0, h1]

theorem is20P_reserved (d : Bits) (h : is20P d = true) :
    bin2int d ≠ 0 ∧ slice 0 8 d = natToBits 8 0x20 ∧ (fld d 8 56 = 0 ∨ '#' ∉ cs20P d) := by
  unfold is20P at h
  split at h
  · simp at h
  · rename_i h0
    split at h
    · simp at h
    · rename_i h1
      refine ⟨h0, Classical.not_not.mp h1, ?_⟩
      split at h
      · rename_i h2; exact Or.inl h2
      · right
        intro hm
        have : (cs20P d).contains '#' = true := List.contains_iff_mem.mpr hm
        rw [this] at h
        exact absurd h (by decide)

/-- "every character legal": no 6-bit character code of the callsign field maps to '#' -/
theorem cs20P_legal_iff (d : Bits) :
    '#' ∉ cs20P d ↔ ∀ i, i < 8 → Tables.cs20Chars.getD (fld (slice 8 56 d) (6 * i) (6 * i + 6)) '#' ≠ '#' := by
  unfold cs20P chars8P
  rw [List.mem_map]
  constructor
  · intro h i hi he
    exact h ⟨i, List.mem_range.mpr hi, he⟩
  · rintro h ⟨i, hi, he⟩
    exact h i (List.mem_range.mp hi) he

theorem is30P_iff (d : Bits) :
    is30P d = true ↔ (bin2int d ≠ 0 ∧ slice 0 8 d = natToBits 8 0x30 ∧ slice 28 30 d ≠ [true, true] ∧ fld d 15 22 < 48) := by
  unfold is30P
  by_cases h0 : bin2int d = 0
  · simp [h0]
  · by_cases h1 : slice 0 8 d = natToBits 8 0x30
    · by_cases h2 : slice 28 30 d = [true, true]
      · simp [h0, h1, h2]
      · simp [h0, h1, h2]
    · simp [h0, h1]

theorem is40P_iff (d : Bits) :
    is40P d = true ↔ (bin2int d ≠ 0 ∧ statusP d rules40 = true ∧ fld d 39 47 = 0 ∧ fld d 51 53 = 0) := by
  unfold is40P
  by_cases h0 : bin2int d = 0
  · simp [h0]
  · cases hs : statusP d rules40 with
    | false => simp [h0]
    | true =>
      by_cases h2 : fld d 39 47 = 0
      · simp [h0, h2]
      · simp [h0, h2]

end PyModeS.Infer
