/-
  BDS 4,5 (meteorological hazard report): `is45` in integer terms, and an encoder accepted by it.
-/
import PyModeS.Proofs.Infer.Bds60
namespace PyModeS.Infer
open PyModeS

/-- the temperature test of `is45` (skipped when the temperature is exactly 0, otherwise −80 °C ≤ t ≤ 60 °C with
    0.25 °C per unit) on the signed field value `v`: accepted iff −320 ≤ v ≤ 240 -/
theorem temp45_bound (v : Int) :
    ((v : Rat) / 4 ≠ 0 ∧ ((v : Rat) / 4 > 60 ∨ (v : Rat) / 4 < -80)) ↔ ¬ (-320 ≤ v ∧ v ≤ 240) := by
  constructor
  · rintro ⟨_, h | h⟩
    · have a : (240 : Rat) < (v : Rat) := by linarith
      have b : (240 : Int) < v := by exact_mod_cast a
      omega
    · have a : (v : Rat) < -320 := by linarith
      have b : v < (-320 : Int) := by exact_mod_cast a
      omega
  · intro h
    by_cases hc : 240 < v
    · have a : (240 : Rat) < (v : Rat) := by exact_mod_cast hc
      refine ⟨?_, Or.inl (by linarith)⟩
      intro h0
      linarith
    · have hc' : v < -320 := by omega
      have a : (v : Rat) < -320 := by exact_mod_cast hc'
      refine ⟨?_, Or.inr (by linarith)⟩
      intro h0
      linarith

theorem temp45V_eq (d : Bits) : temp45V d = sval d 16 17 26 := by
  unfold temp45V sval
  rfl

/-- BDS 4,5 in integer terms (the temperature is read whatever its status bit says, as `temp45` does) -/
theorem is45P_iff (d : Bits) :
    is45P d = true ↔ (bin2int d ≠ 0 ∧ statusP d rules45 = true ∧ fld d 51 56 = 0 ∧
      -320 ≤ sval d 16 17 26 ∧ sval d 16 17 26 ≤ 240) := by
  unfold is45P temp45P
  simp only [temp45V_eq, temp45_bound]
  by_cases h0 : bin2int d = 0
  · simp [h0]
  · cases hs : statusP d rules45 with
    | false => simp [h0]
    | true =>
      by_cases h2 : fld d 51 56 = 0
      · simp [h0, h2]
      · simp [h0, h2]

/-! ### encoder -/

/-- the BDS 4,5 layout: turbulence, wind shear, microburst, icing, wake vortex (status, 2 bits each), static air
    temperature (status, sign, 9-bit magnitude), average static pressure (status, 11 bits), radio height
    (status, 12 bits), 5 reserved bits -/
def layout45 (s1 : Bool) (turb : Nat) (s2 : Bool) (ws : Nat) (s3 : Bool) (mb : Nat) (s4 : Bool) (ic : Nat)
    (s5 : Bool) (wv : Nat) (s6 gt : Bool) (mt : Nat) (s7 : Bool) (p : Nat) (s8 : Bool) (rh : Nat) :
    List (Nat × Nat) :=
  [(1, s1.toNat), (2, turb), (1, s2.toNat), (2, ws), (1, s3.toNat), (2, mb), (1, s4.toNat), (2, ic),
   (1, s5.toNat), (2, wv), (1, s6.toNat), (1, gt.toNat), (9, mt), (1, s7.toNat), (11, p), (1, s8.toNat),
   (12, rh), (5, 0)]

def mb45 (s1 : Bool) (turb : Nat) (s2 : Bool) (ws : Nat) (s3 : Bool) (mb : Nat) (s4 : Bool) (ic : Nat)
    (s5 : Bool) (wv : Nat) (s6 gt : Bool) (mt : Nat) (s7 : Bool) (p : Nat) (s8 : Bool) (rh : Nat) : Bits :=
  build (layout45 s1 turb s2 ws s3 mb s4 ic s5 wv s6 gt mt s7 p s8 rh)

section
variable (s1 : Bool) (turb : Nat) (s2 : Bool) (ws : Nat) (s3 : Bool) (mb : Nat) (s4 : Bool) (ic : Nat)
    (s5 : Bool) (wv : Nat) (s6 gt : Bool) (mt : Nat) (s7 : Bool) (p : Nat) (s8 : Bool) (rh : Nat)

local notation "F" => layout45 s1 turb s2 ws s3 mb s4 ic s5 wv s6 gt mt s7 p s8 rh
local notation "D" => mb45 s1 turb s2 ws s3 mb s4 ic s5 wv s6 gt mt s7 p s8 rh

theorem mb45_length : (D).length = 56 := by
  unfold mb45; rw [build_length]; simp [layout45]

/-- offsets in this 18-field layout (`rfl` is exponential here, `simp` evaluates them at once) -/
local macro "off45" : tactic => `(tactic| simp [layout45, offset])

/-- completeness on the MB field: in-range values, absent values zero, reserved bits zero (by layout), signed
    temperature field in −320..240 when present, not everything absent -/
theorem is45P_mb45 (h1 : turb < 4) (h2 : ws < 4) (h3 : mb < 4) (h4 : ic < 4) (h5 : wv < 4) (h6 : mt < 512)
    (h7 : p < 2048) (h8 : rh < 4096)
    (z1 : s1 = false → turb = 0) (z2 : s2 = false → ws = 0) (z3 : s3 = false → mb = 0)
    (z4 : s4 = false → ic = 0) (z5 : s5 = false → wv = 0) (z6 : s6 = false → gt = false ∧ mt = 0)
    (z7 : s7 = false → p = 0) (z8 : s8 = false → rh = 0)
    (ht : s6 = true → -320 ≤ s9 gt mt ∧ s9 gt mt ≤ 240)
    (hne : s1 = true ∨ s2 = true ∨ s3 = true ∨ s4 = true ∨ s5 = true ∨ s6 = true ∨ s7 = true ∨ s8 = true) :
    is45P D = true := by
  rw [is45P_iff]
  have b1 : bitAt D 0 = s1 := build_bit F 0 0 s1 (by off45) (by off45) rfl
  have b2 : bitAt D 3 = s2 := build_bit F 2 3 s2 (by off45) (by off45) rfl
  have b3 : bitAt D 6 = s3 := build_bit F 4 6 s3 (by off45) (by off45) rfl
  have b4 : bitAt D 9 = s4 := build_bit F 6 9 s4 (by off45) (by off45) rfl
  have b5 : bitAt D 12 = s5 := build_bit F 8 12 s5 (by off45) (by off45) rfl
  have b6 : bitAt D 15 = s6 := build_bit F 10 15 s6 (by off45) (by off45) rfl
  have bg : bitAt D 16 = gt := build_bit F 11 16 gt (by off45) (by off45) rfl
  have b7 : bitAt D 26 = s7 := build_bit F 13 26 s7 (by off45) (by off45) rfl
  have b8 : bitAt D 38 = s8 := build_bit F 15 38 s8 (by off45) (by off45) rfl
  have f1 : fld D 1 3 = turb := build_fld1 F 1 1 3 2 turb (by off45) (by off45) rfl h1
  have f2 : fld D 4 6 = ws := build_fld1 F 3 4 6 2 ws (by off45) (by off45) rfl h2
  have f3 : fld D 7 9 = mb := build_fld1 F 5 7 9 2 mb (by off45) (by off45) rfl h3
  have f4 : fld D 10 12 = ic := build_fld1 F 7 10 12 2 ic (by off45) (by off45) rfl h4
  have f5 : fld D 13 15 = wv := build_fld1 F 9 13 15 2 wv (by off45) (by off45) rfl h5
  have f6 : fld D 16 26 = gt.toNat * 2 ^ 9 + mt := build_fld2 F 11 16 26 9 mt gt (by off45) (by off45) rfl h6
  have f6m : fld D 17 26 = mt := build_fld1 F 12 17 26 9 mt (by off45) (by off45) rfl h6
  have f7 : fld D 27 38 = p := build_fld1 F 14 27 38 11 p (by off45) (by off45) rfl h7
  have f8 : fld D 39 51 = rh := build_fld1 F 16 39 51 12 rh (by off45) (by off45) rfl h8
  have r1 : fld D 51 56 = 0 := build_fld1 F 17 51 56 5 0 (by off45) (by off45) rfl (by decide)
  have hl := mb45_length s1 turb s2 ws s3 mb s4 ic s5 wv s6 gt mt s7 p s8 rh
  have hsv : sval D 16 17 26 = s9 gt mt := by
    unfold sval s9; rw [bg, f6m]; rfl
  refine ⟨?_, ?_, r1, ?_⟩
  · rw [← fld_all D 56 hl]
    rcases hne with h | h | h | h | h | h | h | h
    · exact fld_ne_zero_of_bit D 0 56 0 (by omega) (by omega) (by rw [b1]; exact h)
    · exact fld_ne_zero_of_bit D 0 56 3 (by omega) (by omega) (by rw [b2]; exact h)
    · exact fld_ne_zero_of_bit D 0 56 6 (by omega) (by omega) (by rw [b3]; exact h)
    · exact fld_ne_zero_of_bit D 0 56 9 (by omega) (by omega) (by rw [b4]; exact h)
    · exact fld_ne_zero_of_bit D 0 56 12 (by omega) (by omega) (by rw [b5]; exact h)
    · exact fld_ne_zero_of_bit D 0 56 15 (by omega) (by omega) (by rw [b6]; exact h)
    · exact fld_ne_zero_of_bit D 0 56 26 (by omega) (by omega) (by rw [b7]; exact h)
    · exact fld_ne_zero_of_bit D 0 56 38 (by omega) (by omega) (by rw [b8]; exact h)
  · rw [statusP_iff]
    intro t ht'
    simp only [rules45, List.mem_cons, List.mem_nil_iff, or_false] at ht'
    rcases ht' with rfl | rfl | rfl | rfl | rfl | rfl | rfl | rfl
    · show bitAt D 0 = true ∨ fld D 1 3 = 0
      rw [b1, f1]
      cases s1 with
      | true => exact Or.inl rfl
      | false => right; exact z1 rfl
    · show bitAt D 3 = true ∨ fld D 4 6 = 0
      rw [b2, f2]
      cases s2 with
      | true => exact Or.inl rfl
      | false => right; exact z2 rfl
    · show bitAt D 6 = true ∨ fld D 7 9 = 0
      rw [b3, f3]
      cases s3 with
      | true => exact Or.inl rfl
      | false => right; exact z3 rfl
    · show bitAt D 9 = true ∨ fld D 10 12 = 0
      rw [b4, f4]
      cases s4 with
      | true => exact Or.inl rfl
      | false => right; exact z4 rfl
    · show bitAt D 12 = true ∨ fld D 13 15 = 0
      rw [b5, f5]
      cases s5 with
      | true => exact Or.inl rfl
      | false => right; exact z5 rfl
    · show bitAt D 15 = true ∨ fld D 16 26 = 0
      rw [b6, f6]
      cases s6 with
      | true => exact Or.inl rfl
      | false => right; obtain ⟨hg, hz⟩ := z6 rfl; subst hg; subst hz; rfl
    · show bitAt D 26 = true ∨ fld D 27 38 = 0
      rw [b7, f7]
      cases s7 with
      | true => exact Or.inl rfl
      | false => right; exact z7 rfl
    · show bitAt D 38 = true ∨ fld D 39 51 = 0
      rw [b8, f8]
      cases s8 with
      | true => exact Or.inl rfl
      | false => right; exact z8 rfl
  · rw [hsv]
    cases hs6 : s6 with
    | true => exact ht hs6
    | false =>
      obtain ⟨hg, hz⟩ := z6 hs6
      subst hg; subst hz
      decide

end

end PyModeS.Infer
