/-
  bds.infer on a 112-bit frame: total, and for Comm-B replies the comma-joined list of the registers
  whose rules hold, in a fixed order that is the sorted order.
-/
import PyModeS.Proofs.Infer.Rules
namespace PyModeS.Infer
open PyModeS

/-- the nine Comm-B rule results, as Booleans -/
def rulesP (ias : Rat → Int → Rat) (bits : Bits) : List (String × Bool × Bool) :=
  let d := mbOf bits
  [("BDS10", is10P d, false), ("BDS17", is17P d, false), ("BDS20", is20P d, false), ("BDS30", is30P d, false),
   ("BDS40", is40P d, false), ("BDS44", is44P d, true), ("BDS45", is45P d, true), ("BDS50", is50P d, false),
   ("BDS60", is60P ias bits, false)]

theorem commbRules_val (ias : Rat → Int → Rat) (bits : Bits) (h : bits.length = 112) :
    commbRules ias bits = .val (rulesP ias bits) := by
  unfold commbRules
  rw [is10_val bits h, is17_val bits h, is20_val bits h, is30_val bits h, is40_val bits h, is50_val bits h,
    is60_val ias bits h, is44_val bits h, is45_val bits h]
  rfl

/-- `[s]` if the rule holds, nothing otherwise -/
def sel (b : Bool) (s : String) : List String := if b then [s] else []

/-- the labels `infer` joins: fixed order, BDS44/BDS45 only with `mrar` -/
def labelsP (ias : Rat → Int → Rat) (bits : Bits) (mrar : Bool) : List String :=
  let d := mbOf bits
  sel (is10P d) "BDS10" ++ sel (is17P d) "BDS17" ++ sel (is20P d) "BDS20" ++ sel (is30P d) "BDS30" ++
  sel (is40P d) "BDS40" ++ sel (is44P d && mrar) "BDS44" ++ sel (is45P d && mrar) "BDS45" ++
  sel (is50P d) "BDS50" ++ sel (is60P ias bits) "BDS60"

/-- `",".join(l)`, `None` for the empty list -/
def joinLabels (l : List String) : Option String := if l.isEmpty then none else some (",".intercalate l)

theorem filter_map_cons {α} (p : α → Bool) (f : α → String) (x : α) (l : List α) :
    ((x :: l).filter p).map f = sel (p x) (f x) ++ (l.filter p).map f := by
  rw [List.filter_cons]; unfold sel; split <;> simp

theorem labels_of_rules (ias : Rat → Int → Rat) (bits : Bits) (mrar : Bool) :
    ((rulesP ias bits).filter (fun r => r.2.1 && (mrar || !r.2.2))).map (·.1) = labelsP ias bits mrar := by
  unfold rulesP labelsP
  simp only [filter_map_cons, List.filter_nil, List.map_nil, Bool.not_false, Bool.or_true, Bool.and_true,
    Bool.not_true, Bool.or_false, List.append_nil, List.append_assoc]

/-- the DF17 shortcut of `infer`: the register named by the type code, if any -/
def adsbOf (bits : Bits) : Option String :=
  if dfB bits = 17 then (match tcB bits with | some tc => inferAdsb tc | none => none) else none

/-- `infer` as a total function of the frame -/
def inferP (ias : Rat → Int → Rat) (bits : Bits) (mrar : Bool) : Option String :=
  if bin2int (mbOf bits) = 0 then some "EMPTY"
  else match adsbOf bits with
    | some l => some l
    | none => joinLabels (labelsP ias bits mrar)

theorem infer_val (ias : Rat → Int → Rat) (bits : Bits) (mrar : Bool) (h : bits.length = 112) :
    infer ias bits mrar = .val (inferP ias bits mrar) := by
  unfold infer inferP adsbOf joinLabels
  rw [allzerosB_val bits h, commbRules_val ias bits h]
  simp only [Res.bind_val, Res.pure_eq, decide_eq_true_eq, labels_of_rules]
  generalize (if dfB bits = 17 then (match tcB bits with | some tc => inferAdsb tc | none => none) else none) = A
  split
  · rfl
  · cases A <;> simp only [ite_val]

/-! ### the fixed order is the sorted order -/

def allLabels : List String := ["BDS10", "BDS17", "BDS20", "BDS30", "BDS40", "BDS44", "BDS45", "BDS50", "BDS60"]

/-- the order in which `infer` lists the registers is strictly increasing for `String.<` -/
theorem labels_sorted : List.Pairwise (· < ·) allLabels := by decide

theorem sel_sublist (b : Bool) (s : String) : (sel b s).Sublist [s] := by
  unfold sel; cases b <;> simp

theorem labelsP_sublist (ias : Rat → Int → Rat) (bits : Bits) (mrar : Bool) :
    (labelsP ias bits mrar).Sublist allLabels := by
  unfold labelsP
  have e : allLabels = ["BDS10"] ++ ["BDS17"] ++ ["BDS20"] ++ ["BDS30"] ++ ["BDS40"] ++ ["BDS44"] ++ ["BDS45"] ++
      ["BDS50"] ++ ["BDS60"] := rfl
  rw [e]
  repeat (first | exact sel_sublist _ _ | apply List.Sublist.append)

/-- whatever the rules say, the joined labels are strictly increasing: Python's `sorted` is the identity on them,
    and no label occurs twice -/
theorem labelsP_sorted (ias : Rat → Int → Rat) (bits : Bits) (mrar : Bool) :
    List.Pairwise (· < ·) (labelsP ias bits mrar) :=
  List.Pairwise.sublist (labelsP_sublist ias bits mrar) labels_sorted

theorem mem_sel {b : Bool} {s x : String} : x ∈ sel b s ↔ (b = true ∧ x = s) := by
  unfold sel; cases b <;> simp

end PyModeS.Infer
