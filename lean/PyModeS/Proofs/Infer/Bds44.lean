/-
  BDS 4,4 (meteorological routine air report): `is44` in integer terms, and an encoder accepted by it.
-/
import PyModeS.Proofs.Infer.Bds60
namespace PyModeS.Infer
open PyModeS

/-- the temperature test of `is44` (both readings of the field, 0.25 °C and 0.125 °C per unit, must not
    both lie above 60 °C or both below −80 °C) on the signed field value `v`: accepted iff −640 ≤ v ≤ 480 -/
theorem temp44_bound (v : Int) :
    (min ((v : Rat) / 4) ((v : Rat) / 8) > 60 ∨ max ((v : Rat) / 4) ((v : Rat) / 8) < -80) ↔
      ¬ (-640 ≤ v ∧ v ≤ 480) := by
  rw [gt_iff_lt, lt_min_iff, max_lt_iff]
  constructor
  · rintro (⟨h1, h2⟩ | ⟨h1, h2⟩)
    · have a : (480 : Rat) < (v : Rat) := by linarith
      have b : (480 : Int) < v := by exact_mod_cast a
      omega
    · have a : (v : Rat) < -640 := by linarith
      have b : v < (-640 : Int) := by exact_mod_cast a
      omega
  · intro h
    by_cases hc : 480 < v
    · left
      have a : (480 : Rat) < (v : Rat) := by exact_mod_cast hc
      constructor <;> linarith
    · right
      have hc' : v < -640 := by omega
      have a : (v : Rat) < -640 := by exact_mod_cast hc'
      constructor <;> linarith

theorem temp44V_eq (d : Bits) : temp44V d = sval d 23 24 34 := by
  unfold temp44V sval
  rfl

/-- BDS 4,4 in integer terms -/
theorem is44P_iff (d : Bits) :
    is44P d = true ↔ (bin2int d ≠ 0 ∧ statusP d rules44 = true ∧ fld d 0 4 ≤ 4 ∧
      (bitAt d 4 = true → fld d 5 14 ≤ 250) ∧ -640 ≤ sval d 23 24 34 ∧ sval d 23 24 34 ≤ 480) := by
  unfold is44P wind44P temp44P
  simp only [temp44V_eq, temp44_bound]
  by_cases h0 : bin2int d = 0
  · simp [h0]
  · cases hs : statusP d rules44 with
    | false => simp [h0]
    | true =>
      cases hw : bitAt d 4 <;> simp [h0]

/-! ### two more readers -/

/-- two adjacent fields of arbitrary widths read as one -/
theorem build_fldPair (F : List (Nat × Nat)) (i a b w1 v1 w2 v2 : Nat) (ho : offset F i = a)
    (ho' : offset F (i + 2) = b) (hf : (F.drop i).take 2 = [(w1, v1), (w2, v2)]) (h1 : v1 < 2 ^ w1)
    (h2 : v2 < 2 ^ w2) : fld (build F) a b = v1 * 2 ^ w2 + v2 := by
  have := fld_build F i (i + 2) (by omega)
  rw [ho, ho', Nat.add_sub_cancel_left, hf, bin2int_build_cons, bin2int_build_cons, bin2int_build_nil,
    Nat.mod_eq_of_lt h1, Nat.mod_eq_of_lt h2] at this
  rw [this]
  simp [build]

/-- a field with a non-zero sub-field is non-zero -/
theorem fld_ne_zero_mono (d : Bits) (a b a' b' : Nat) (h1 : a' ≤ a) (h2 : b ≤ b') (h : fld d a b ≠ 0) :
    fld d a' b' ≠ 0 := by
  rw [fld_ne_zero_iff] at h
  obtain ⟨i, hi⟩ := List.getElem?_of_mem h
  simp only [slice, List.getElem?_take, List.getElem?_drop] at hi
  split at hi
  · rename_i hlt
    apply fld_ne_zero_of_bit d a' b' (a + i) (by omega) (by omega)
    simp [bitAt, List.getD, hi]
  · simp at hi

/-! ### encoder -/

/-- the BDS 4,4 layout: figure-of-merit/source (4 bits), wind (status, 9-bit speed, 9-bit direction), static air
    temperature (sign, 10-bit magnitude; no status bit), average static pressure (status, 11 bits), turbulence
    (status, 2 bits), humidity (status, 6 bits) -/
def layout44 (src : Nat) (sw : Bool) (wspd wdir : Nat) (gt : Bool) (mt : Nat) (sp : Bool) (p : Nat)
    (st : Bool) (turb : Nat) (sh : Bool) (hum : Nat) : List (Nat × Nat) :=
  [(4, src), (1, sw.toNat), (9, wspd), (9, wdir), (1, gt.toNat), (10, mt), (1, sp.toNat), (11, p),
   (1, st.toNat), (2, turb), (1, sh.toNat), (6, hum)]

def mb44 (src : Nat) (sw : Bool) (wspd wdir : Nat) (gt : Bool) (mt : Nat) (sp : Bool) (p : Nat)
    (st : Bool) (turb : Nat) (sh : Bool) (hum : Nat) : Bits :=
  build (layout44 src sw wspd wdir gt mt sp p st turb sh hum)

/-- signed value of a sign bit and a 10-bit magnitude -/
def s10 (g : Bool) (m : Nat) : Int := if g then (m : Int) - 1024 else (m : Int)

section
variable (src : Nat) (sw : Bool) (wspd wdir : Nat) (gt : Bool) (mt : Nat) (sp : Bool) (p : Nat)
    (st : Bool) (turb : Nat) (sh : Bool) (hum : Nat)

local notation "F" => layout44 src sw wspd wdir gt mt sp p st turb sh hum
local notation "D" => mb44 src sw wspd wdir gt mt sp p st turb sh hum

theorem mb44_length : (D).length = 56 := by
  unfold mb44; rw [build_length]; rfl

/-- completeness on the MB field: source ≤ 4, absent values zero, wind speed ≤ 250 kt when present, signed
    temperature field in −640..480, not everything zero -/
theorem is44P_mb44 (hsrc : src ≤ 4) (hws : wspd < 512) (hwd : wdir < 512) (hmt : mt < 1024) (hp : p < 2048)
    (htb : turb < 4) (hhm : hum < 64)
    (z1 : sw = false → wspd = 0 ∧ wdir = 0) (z2 : sp = false → p = 0) (z3 : st = false → turb = 0)
    (z4 : sh = false → hum = 0)
    (hw : sw = true → wspd ≤ 250) (ht : -640 ≤ s10 gt mt ∧ s10 gt mt ≤ 480)
    (hne : src ≠ 0 ∨ sw = true ∨ gt = true ∨ mt ≠ 0 ∨ sp = true ∨ st = true ∨ sh = true) :
    is44P D = true := by
  rw [is44P_iff]
  have b1 : bitAt D 4 = sw := build_bit F 1 4 sw rfl rfl rfl
  have bg : bitAt D 23 = gt := build_bit F 4 23 gt rfl rfl rfl
  have b2 : bitAt D 34 = sp := build_bit F 6 34 sp rfl rfl rfl
  have b3 : bitAt D 46 = st := build_bit F 8 46 st rfl rfl rfl
  have b4 : bitAt D 49 = sh := build_bit F 10 49 sh rfl rfl rfl
  have f0 : fld D 0 4 = src := build_fld1 F 0 0 4 4 src rfl rfl rfl (by omega)
  have f1 : fld D 5 23 = wspd * 2 ^ 9 + wdir := build_fldPair F 2 5 23 9 wspd 9 wdir rfl rfl rfl hws hwd
  have f1s : fld D 5 14 = wspd := build_fld1 F 2 5 14 9 wspd rfl rfl rfl hws
  have fm : fld D 24 34 = mt := build_fld1 F 5 24 34 10 mt rfl rfl rfl hmt
  have f2 : fld D 35 46 = p := build_fld1 F 7 35 46 11 p rfl rfl rfl hp
  have f3 : fld D 47 49 = turb := build_fld1 F 9 47 49 2 turb rfl rfl rfl htb
  have f4 : fld D 50 56 = hum := build_fld1 F 11 50 56 6 hum rfl rfl rfl hhm
  have hl := mb44_length src sw wspd wdir gt mt sp p st turb sh hum
  have hsv : sval D 23 24 34 = s10 gt mt := by
    unfold sval s10; rw [bg, fm]; rfl
  refine ⟨?_, ?_, ?_, ?_, ?_⟩
  · rw [← fld_all D 56 hl]
    rcases hne with h | h | h | h | h | h | h
    · exact fld_ne_zero_mono D 0 4 0 56 (by omega) (by omega) (by rw [f0]; exact h)
    · exact fld_ne_zero_of_bit D 0 56 4 (by omega) (by omega) (by rw [b1]; exact h)
    · exact fld_ne_zero_of_bit D 0 56 23 (by omega) (by omega) (by rw [bg]; exact h)
    · exact fld_ne_zero_mono D 24 34 0 56 (by omega) (by omega) (by rw [fm]; exact h)
    · exact fld_ne_zero_of_bit D 0 56 34 (by omega) (by omega) (by rw [b2]; exact h)
    · exact fld_ne_zero_of_bit D 0 56 46 (by omega) (by omega) (by rw [b3]; exact h)
    · exact fld_ne_zero_of_bit D 0 56 49 (by omega) (by omega) (by rw [b4]; exact h)
  · rw [statusP_iff]
    intro t ht'
    simp only [rules44, List.mem_cons, List.mem_nil_iff, or_false] at ht'
    rcases ht' with rfl | rfl | rfl | rfl
    · show bitAt D 4 = true ∨ fld D 5 23 = 0
      rw [b1, f1]
      cases sw with
      | true => exact Or.inl rfl
      | false => right; obtain ⟨ha, hb⟩ := z1 rfl; subst ha; subst hb; rfl
    · show bitAt D 34 = true ∨ fld D 35 46 = 0
      rw [b2, f2]
      cases sp with
      | true => exact Or.inl rfl
      | false => right; exact z2 rfl
    · show bitAt D 46 = true ∨ fld D 47 49 = 0
      rw [b3, f3]
      cases st with
      | true => exact Or.inl rfl
      | false => right; exact z3 rfl
    · show bitAt D 49 = true ∨ fld D 50 56 = 0
      rw [b4, f4]
      cases sh with
      | true => exact Or.inl rfl
      | false => right; exact z4 rfl
  · rw [f0]; exact hsrc
  · intro h; rw [b1] at h; rw [f1s]; exact hw h
  · rw [hsv]; exact ht

end

end PyModeS.Infer
