/-
  BDS 6,0 (heading and speed report), the part of `is60` before the altitude cross-check
  (`is60Core`): in integer terms, and an encoder accepted by it.
-/
import PyModeS.Proofs.Infer.Bds50
namespace PyModeS.Infer
open PyModeS

theorem mach_bound (n : Nat) : (n : Rat) * ((2048 : Rat) / 1000 / 512) ≤ 1 ↔ n ≤ 250 := by
  constructor
  · intro h
    have a : (n : Rat) ≤ 250 := by linarith
    exact_mod_cast a
  · intro h
    have a : (n : Rat) ≤ 250 := by exact_mod_cast h
    linarith

theorem vr_bound (v : Int) : rabs ((v : Rat) * 32) ≤ 6000 ↔ (-187 ≤ v ∧ v ≤ 187) := by
  rw [rabs_le_iff]
  constructor
  · rintro ⟨h1, h2⟩
    have a1 : (-6000 : Rat) ≤ (v : Rat) * 32 := by linarith
    have a2 : (v : Rat) * 32 ≤ 6000 := by linarith
    have b1 : (-6000 : Int) ≤ v * 32 := by exact_mod_cast a1
    have b2 : v * 32 ≤ 6000 := by exact_mod_cast a2
    omega
  · rintro ⟨h1, h2⟩
    have a1 : (-187 : Rat) ≤ (v : Rat) := by exact_mod_cast h1
    have a2 : (v : Rat) ≤ 187 := by exact_mod_cast h2
    constructor <;> linarith

/-- `is60Core` in integers: not all zero, the five status rules, and for the values that are present
    IAS ≤ 500 kt, Mach ≤ 1 (field ≤ 250), |vertical rate| ≤ 6000 ft/min (signed fields in −187..187) -/
theorem is60CoreP_iff (d : Bits) :
    is60CoreP d = true ↔ (bin2int d ≠ 0 ∧ statusP d rules60 = true ∧
      (bitAt d 12 = true → fld d 13 23 ≤ 500) ∧
      (bitAt d 23 = true → fld d 24 34 ≤ 250) ∧
      (bitAt d 34 = true → -187 ≤ sval d 35 36 45 ∧ sval d 35 36 45 ≤ 187) ∧
      (bitAt d 45 = true → -187 ≤ sval d 46 47 56 ∧ sval d 46 47 56 ≤ 187)) := by
  unfold is60CoreP ias60P mach60P vr60baroP vr60insP sfieldP ufieldP
  by_cases h0 : bin2int d = 0
  · simp [h0]
  · cases hs : statusP d rules60 with
    | false => simp [h0]
    | true =>
      cases hi : bitAt d 12 <;> cases hm : bitAt d 23 <;> cases hb : bitAt d 34 <;> cases hn : bitAt d 45 <;>
        simp [h0, optAbsGt, optGt, mach_bound, vr_bound]

/-! ### encoder -/

/-- the BDS 6,0 layout: magnetic heading (status, sign, 10 bits), IAS (status, 10 bits), Mach (status, 10 bits),
    barometric altitude rate (status, sign, 9 bits), inertial vertical velocity (status, sign, 9 bits) -/
def layout60 (s1 g1 : Bool) (hdg : Nat) (s2 : Bool) (ias : Nat) (s3 : Bool) (mach : Nat)
    (s4 g4 : Bool) (vb : Nat) (s5 g5 : Bool) (vi : Nat) : List (Nat × Nat) :=
  [(1, s1.toNat), (1, g1.toNat), (10, hdg), (1, s2.toNat), (10, ias), (1, s3.toNat), (10, mach),
   (1, s4.toNat), (1, g4.toNat), (9, vb), (1, s5.toNat), (1, g5.toNat), (9, vi)]

def mb60 (s1 g1 : Bool) (hdg : Nat) (s2 : Bool) (ias : Nat) (s3 : Bool) (mach : Nat)
    (s4 g4 : Bool) (vb : Nat) (s5 g5 : Bool) (vi : Nat) : Bits :=
  build (layout60 s1 g1 hdg s2 ias s3 mach s4 g4 vb s5 g5 vi)

/-- signed value of a sign bit and a 9-bit magnitude -/
def s9 (g : Bool) (m : Nat) : Int := if g then (m : Int) - 512 else (m : Int)

theorem sroll_eq_s9 : sroll = s9 := rfl

section
variable (s1 g1 : Bool) (hdg : Nat) (s2 : Bool) (ias : Nat) (s3 : Bool) (mach : Nat)
    (s4 g4 : Bool) (vb : Nat) (s5 g5 : Bool) (vi : Nat)

local notation "F" => layout60 s1 g1 hdg s2 ias s3 mach s4 g4 vb s5 g5 vi
local notation "D" => mb60 s1 g1 hdg s2 ias s3 mach s4 g4 vb s5 g5 vi

theorem mb60_length : (D).length = 56 := by
  unfold mb60; rw [build_length]; rfl

/-- completeness of `is60Core` on the MB field -/
theorem is60CoreP_mb60 (hh : hdg < 1024) (hi : ias < 1024) (hm : mach < 1024) (hvb : vb < 512) (hvi : vi < 512)
    (z1 : s1 = false → g1 = false ∧ hdg = 0) (z2 : s2 = false → ias = 0) (z3 : s3 = false → mach = 0)
    (z4 : s4 = false → g4 = false ∧ vb = 0) (z5 : s5 = false → g5 = false ∧ vi = 0)
    (hias : s2 = true → ias ≤ 500) (hmach : s3 = true → mach ≤ 250)
    (hb : s4 = true → -187 ≤ s9 g4 vb ∧ s9 g4 vb ≤ 187) (hn : s5 = true → -187 ≤ s9 g5 vi ∧ s9 g5 vi ≤ 187)
    (hne : s1 = true ∨ s2 = true ∨ s3 = true ∨ s4 = true ∨ s5 = true) :
    is60CoreP D = true := by
  rw [is60CoreP_iff]
  have b1 : bitAt D 0 = s1 := build_bit F 0 0 s1 rfl rfl rfl
  have b2 : bitAt D 12 = s2 := build_bit F 3 12 s2 rfl rfl rfl
  have b3 : bitAt D 23 = s3 := build_bit F 5 23 s3 rfl rfl rfl
  have b4 : bitAt D 34 = s4 := build_bit F 7 34 s4 rfl rfl rfl
  have b5 : bitAt D 45 = s5 := build_bit F 10 45 s5 rfl rfl rfl
  have g4b : bitAt D 35 = g4 := build_bit F 8 35 g4 rfl rfl rfl
  have g5b : bitAt D 46 = g5 := build_bit F 11 46 g5 rfl rfl rfl
  have f1 : fld D 1 12 = g1.toNat * 2 ^ 10 + hdg := build_fld2 F 1 1 12 10 hdg g1 rfl rfl rfl hh
  have f2 : fld D 13 23 = ias := build_fld1 F 4 13 23 10 ias rfl rfl rfl hi
  have f3 : fld D 24 34 = mach := build_fld1 F 6 24 34 10 mach rfl rfl rfl hm
  have f4 : fld D 35 45 = g4.toNat * 2 ^ 9 + vb := build_fld2 F 8 35 45 9 vb g4 rfl rfl rfl hvb
  have f4m : fld D 36 45 = vb := build_fld1 F 9 36 45 9 vb rfl rfl rfl hvb
  have f5 : fld D 46 56 = g5.toNat * 2 ^ 9 + vi := build_fld2 F 11 46 56 9 vi g5 rfl rfl rfl hvi
  have f5m : fld D 47 56 = vi := build_fld1 F 12 47 56 9 vi rfl rfl rfl hvi
  have hl := mb60_length s1 g1 hdg s2 ias s3 mach s4 g4 vb s5 g5 vi
  refine ⟨?_, ?_, ?_, ?_, ?_, ?_⟩
  · rw [← fld_all D 56 hl]
    rcases hne with h | h | h | h | h
    · exact fld_ne_zero_of_bit D 0 56 0 (by omega) (by omega) (by rw [b1]; exact h)
    · exact fld_ne_zero_of_bit D 0 56 12 (by omega) (by omega) (by rw [b2]; exact h)
    · exact fld_ne_zero_of_bit D 0 56 23 (by omega) (by omega) (by rw [b3]; exact h)
    · exact fld_ne_zero_of_bit D 0 56 34 (by omega) (by omega) (by rw [b4]; exact h)
    · exact fld_ne_zero_of_bit D 0 56 45 (by omega) (by omega) (by rw [b5]; exact h)
  · rw [statusP_iff]
    intro t ht
    simp only [rules60, List.mem_cons, List.mem_nil_iff, or_false] at ht
    rcases ht with rfl | rfl | rfl | rfl | rfl
    · show bitAt D 0 = true ∨ fld D 1 12 = 0
      rw [b1, f1]
      cases s1 with
      | true => exact Or.inl rfl
      | false => right; obtain ⟨hg, hz⟩ := z1 rfl; subst hg; subst hz; rfl
    · show bitAt D 12 = true ∨ fld D 13 23 = 0
      rw [b2, f2]
      cases s2 with
      | true => exact Or.inl rfl
      | false => right; exact z2 rfl
    · show bitAt D 23 = true ∨ fld D 24 34 = 0
      rw [b3, f3]
      cases s3 with
      | true => exact Or.inl rfl
      | false => right; exact z3 rfl
    · show bitAt D 34 = true ∨ fld D 35 45 = 0
      rw [b4, f4]
      cases s4 with
      | true => exact Or.inl rfl
      | false => right; obtain ⟨hg, hz⟩ := z4 rfl; subst hg; subst hz; rfl
    · show bitAt D 45 = true ∨ fld D 46 56 = 0
      rw [b5, f5]
      cases s5 with
      | true => exact Or.inl rfl
      | false => right; obtain ⟨hg, hz⟩ := z5 rfl; subst hg; subst hz; rfl
  · intro h; rw [b2] at h; rw [f2]; exact hias h
  · intro h; rw [b3] at h; rw [f3]; exact hmach h
  · intro h
    rw [b4] at h
    have : sval D 35 36 45 = s9 g4 vb := by
      unfold sval s9; rw [g4b, f4m]; rfl
    rw [this]; exact hb h
  · intro h
    rw [b5] at h
    have : sval D 46 47 56 = s9 g5 vi := by
      unfold sval s9; rw [g5b, f5m]; rfl
    rw [this]; exact hn h

end

end PyModeS.Infer
