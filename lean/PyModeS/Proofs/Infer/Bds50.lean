/-
  BDS 5,0 (track and turn report) done thoroughly: `is50` in integer terms (soundness and
  completeness of the plausibility limits), and an encoder: every plausible choice of the five
  (status, value) pairs, laid out with `build`, is accepted.
-/
import Mathlib.Data.Rat.Floor
import Mathlib.Tactic.Linarith
import Mathlib.Tactic.NormNum
import PyModeS.Proofs.Infer.Sound
import PyModeS.Proofs.Infer.Build
namespace PyModeS.Infer
open PyModeS

theorem rabs_le_iff (x c : Rat) : rabs x ≤ c ↔ (-c ≤ x ∧ x ≤ c) := by
  unfold rabs
  split
  · constructor
    · intro h; constructor <;> linarith
    · intro h; linarith
  · constructor
    · intro h; constructor <;> linarith
    · intro h; linarith

theorem roll_bound (v : Int) : rabs ((v : Rat) * ((45 : Rat) / 256)) ≤ 50 ↔ (-284 ≤ v ∧ v ≤ 284) := by
  rw [rabs_le_iff]
  constructor
  · rintro ⟨h1, h2⟩
    have a1 : (-12800 : Rat) ≤ (v : Rat) * 45 := by linarith
    have a2 : (v : Rat) * 45 ≤ 12800 := by linarith
    have b1 : (-12800 : Int) ≤ v * 45 := by exact_mod_cast a1
    have b2 : v * 45 ≤ 12800 := by exact_mod_cast a2
    omega
  · rintro ⟨h1, h2⟩
    have a1 : (-284 : Rat) ≤ (v : Rat) := by exact_mod_cast h1
    have a2 : (v : Rat) ≤ 284 := by exact_mod_cast h2
    constructor <;> linarith

theorem spd_bound (n : Nat) : (n : Rat) * 2 ≤ 600 ↔ n ≤ 300 := by
  constructor
  · intro h
    have a : (n : Rat) ≤ 300 := by linarith
    exact_mod_cast a
  · intro h
    have a : (n : Rat) ≤ 300 := by exact_mod_cast h
    linarith

theorem diff_bound (g t : Nat) :
    rabs ((t : Rat) * 2 - (g : Rat) * 2) ≤ 200 ↔ (t ≤ g + 100 ∧ g ≤ t + 100) := by
  rw [rabs_le_iff]
  constructor
  · rintro ⟨h1, h2⟩
    have a1 : (g : Rat) ≤ (t : Rat) + 100 := by linarith
    have a2 : (t : Rat) ≤ (g : Rat) + 100 := by linarith
    constructor
    · exact_mod_cast a2
    · exact_mod_cast a1
  · rintro ⟨h1, h2⟩
    have a2 : (t : Rat) ≤ (g : Rat) + 100 := by exact_mod_cast h1
    have a1 : (g : Rat) ≤ (t : Rat) + 100 := by exact_mod_cast h2
    constructor <;> linarith

/-- BDS 5,0 in integer terms: the rule holds exactly when the payload is not all zero, the five status
    rules hold, and the present values are plausible: |roll| ≤ 50° (signed field −284..284),
    GS ≤ 600 kt (field ≤ 300), TAS ≤ 600 kt (field ≤ 300), |TAS − GS| ≤ 200 kt (fields differ by ≤ 100) -/
theorem is50P_iff (d : Bits) :
    is50P d = true ↔ (bin2int d ≠ 0 ∧ statusP d rules50 = true ∧
      (bitAt d 0 = true → -284 ≤ sval d 1 2 11 ∧ sval d 1 2 11 ≤ 284) ∧
      (bitAt d 23 = true → fld d 24 34 ≤ 300) ∧
      (bitAt d 45 = true → fld d 46 56 ≤ 300) ∧
      (bitAt d 23 = true → bitAt d 45 = true →
        fld d 46 56 ≤ fld d 24 34 + 100 ∧ fld d 24 34 ≤ fld d 46 56 + 100)) := by
  unfold is50P roll50P gs50P tas50P sfieldP ufieldP
  by_cases h0 : bin2int d = 0
  · simp [h0]
  · cases hs : statusP d rules50 with
    | false => simp [h0]
    | true =>
      cases hr : bitAt d 0 <;> cases hg : bitAt d 23 <;> cases ht : bitAt d 45 <;>
        simp [h0, optAbsGt, optGt, roll_bound, spd_bound, diff_bound]

/-! ### encoder -/

/-- the BDS 5,0 layout: roll (status, sign, 9 bits), true track (status, sign, 10 bits), ground speed
    (status, 10 bits), track rate (status, sign, 9 bits), true airspeed (status, 10 bits) -/
def layout50 (s1 g1 : Bool) (m1 : Nat) (s2 g2 : Bool) (m2 : Nat) (s3 : Bool) (gs : Nat)
    (s4 g4 : Bool) (m4 : Nat) (s5 : Bool) (tas : Nat) : List (Nat × Nat) :=
  [(1, s1.toNat), (1, g1.toNat), (9, m1), (1, s2.toNat), (1, g2.toNat), (10, m2), (1, s3.toNat), (10, gs),
   (1, s4.toNat), (1, g4.toNat), (9, m4), (1, s5.toNat), (10, tas)]

def mb50 (s1 g1 : Bool) (m1 : Nat) (s2 g2 : Bool) (m2 : Nat) (s3 : Bool) (gs : Nat)
    (s4 g4 : Bool) (m4 : Nat) (s5 : Bool) (tas : Nat) : Bits :=
  build (layout50 s1 g1 m1 s2 g2 m2 s3 gs s4 g4 m4 s5 tas)

section
variable (s1 g1 : Bool) (m1 : Nat) (s2 g2 : Bool) (m2 : Nat) (s3 : Bool) (gs : Nat)
    (s4 g4 : Bool) (m4 : Nat) (s5 : Bool) (tas : Nat)

local notation "F" => layout50 s1 g1 m1 s2 g2 m2 s3 gs s4 g4 m4 s5 tas
local notation "D" => mb50 s1 g1 m1 s2 g2 m2 s3 gs s4 g4 m4 s5 tas

theorem mb50_length : (D).length = 56 := by
  unfold mb50; rw [build_length]; rfl

theorem mb50_bit (i o : Nat) (b : Bool) (ho : offset F i = o) (ho' : offset F (i + 1) = o + 1)
    (hf : List.take 1 (List.drop i F) = [(1, b.toNat)]) : bitAt D o = b := by
  rw [bitAt_eq_fld]
  have := fld_build F i (i + 1) (by omega)
  rw [ho, ho', Nat.add_sub_cancel_left, hf, bin2int_build_cons, bin2int_build_nil] at this
  unfold mb50
  rw [this]
  cases b <;> rfl

theorem mb50_s1 : bitAt D 0 = s1 := mb50_bit _ _ _ _ _ _ _ _ _ _ _ _ _ 0 0 s1 rfl rfl rfl
theorem mb50_g1 : bitAt D 1 = g1 := mb50_bit _ _ _ _ _ _ _ _ _ _ _ _ _ 1 1 g1 rfl rfl rfl
theorem mb50_s2 : bitAt D 11 = s2 := mb50_bit _ _ _ _ _ _ _ _ _ _ _ _ _ 3 11 s2 rfl rfl rfl
theorem mb50_s3 : bitAt D 23 = s3 := mb50_bit _ _ _ _ _ _ _ _ _ _ _ _ _ 6 23 s3 rfl rfl rfl
theorem mb50_s4 : bitAt D 34 = s4 := mb50_bit _ _ _ _ _ _ _ _ _ _ _ _ _ 8 34 s4 rfl rfl rfl
theorem mb50_s5 : bitAt D 45 = s5 := mb50_bit _ _ _ _ _ _ _ _ _ _ _ _ _ 11 45 s5 rfl rfl rfl

/-- a single `w`-bit field -/
theorem mb50_fld1 (i a b w v : Nat) (ho : offset F i = a) (ho' : offset F (i + 1) = b)
    (hf : List.take 1 (List.drop i F) = [(w, v)]) (hv : v < 2 ^ w) : fld D a b = v := by
  have := fld_build F i (i + 1) (by omega)
  rw [ho, ho', Nat.add_sub_cancel_left, hf, bin2int_build_cons, bin2int_build_nil, Nat.mod_eq_of_lt hv] at this
  unfold mb50
  rw [this]
  simp [build]

/-- sign bit followed by a `w`-bit magnitude -/
theorem mb50_fld2 (i a b w v : Nat) (g : Bool) (ho : offset F i = a) (ho' : offset F (i + 2) = b)
    (hf : List.take 2 (List.drop i F) = [(1, g.toNat), (w, v)]) (hv : v < 2 ^ w) : fld D a b = g.toNat * 2 ^ w + v := by
  have := fld_build F i (i + 2) (by omega)
  rw [ho, ho', Nat.add_sub_cancel_left, hf, bin2int_build_cons, bin2int_build_cons, bin2int_build_nil,
    Nat.mod_eq_of_lt hv] at this
  unfold mb50
  rw [this]
  simp [build, toNat_mod_two]

theorem mb50_m1 (h : m1 < 512) : fld D 2 11 = m1 := mb50_fld1 _ _ _ _ _ _ _ _ _ _ _ _ _ 2 2 11 9 m1 rfl rfl rfl h
theorem mb50_roll (h : m1 < 512) : fld D 1 11 = g1.toNat * 512 + m1 :=
  mb50_fld2 _ _ _ _ _ _ _ _ _ _ _ _ _ 1 1 11 9 m1 g1 rfl rfl rfl h
theorem mb50_trk (h : m2 < 1024) : fld D 12 23 = g2.toNat * 1024 + m2 :=
  mb50_fld2 _ _ _ _ _ _ _ _ _ _ _ _ _ 4 12 23 10 m2 g2 rfl rfl rfl h
theorem mb50_gs (h : gs < 1024) : fld D 24 34 = gs := mb50_fld1 _ _ _ _ _ _ _ _ _ _ _ _ _ 7 24 34 10 gs rfl rfl rfl h
theorem mb50_rtrk (h : m4 < 512) : fld D 35 45 = g4.toNat * 512 + m4 :=
  mb50_fld2 _ _ _ _ _ _ _ _ _ _ _ _ _ 9 35 45 9 m4 g4 rfl rfl rfl h
theorem mb50_tas (h : tas < 1024) : fld D 46 56 = tas := mb50_fld1 _ _ _ _ _ _ _ _ _ _ _ _ _ 12 46 56 10 tas rfl rfl rfl h

/-- the signed roll field of an encoded payload -/
def sroll (g1 : Bool) (m1 : Nat) : Int := if g1 then (m1 : Int) - 512 else (m1 : Int)

/-- completeness on the MB field: plausible values, absent values zero, not everything absent -/
theorem is50P_mb50 (hm1 : m1 < 512) (hm2 : m2 < 1024) (hgs : gs < 1024) (hm4 : m4 < 512) (htas : tas < 1024)
    (z1 : s1 = false → g1 = false ∧ m1 = 0) (z2 : s2 = false → g2 = false ∧ m2 = 0)
    (z3 : s3 = false → gs = 0) (z4 : s4 = false → g4 = false ∧ m4 = 0) (z5 : s5 = false → tas = 0)
    (hroll : s1 = true → -284 ≤ sroll g1 m1 ∧ sroll g1 m1 ≤ 284)
    (hgs300 : s3 = true → gs ≤ 300) (htas300 : s5 = true → tas ≤ 300)
    (hdiff : s3 = true → s5 = true → tas ≤ gs + 100 ∧ gs ≤ tas + 100)
    (hne : s1 = true ∨ s2 = true ∨ s3 = true ∨ s4 = true ∨ s5 = true) :
    is50P D = true := by
  rw [is50P_iff]
  have b1 := mb50_s1 s1 g1 m1 s2 g2 m2 s3 gs s4 g4 m4 s5 tas
  have b2 := mb50_s2 s1 g1 m1 s2 g2 m2 s3 gs s4 g4 m4 s5 tas
  have b3 := mb50_s3 s1 g1 m1 s2 g2 m2 s3 gs s4 g4 m4 s5 tas
  have b4 := mb50_s4 s1 g1 m1 s2 g2 m2 s3 gs s4 g4 m4 s5 tas
  have b5 := mb50_s5 s1 g1 m1 s2 g2 m2 s3 gs s4 g4 m4 s5 tas
  have bg := mb50_g1 s1 g1 m1 s2 g2 m2 s3 gs s4 g4 m4 s5 tas
  have f1 := mb50_roll s1 g1 m1 s2 g2 m2 s3 gs s4 g4 m4 s5 tas hm1
  have f1m := mb50_m1 s1 g1 m1 s2 g2 m2 s3 gs s4 g4 m4 s5 tas hm1
  have f2 := mb50_trk s1 g1 m1 s2 g2 m2 s3 gs s4 g4 m4 s5 tas hm2
  have f3 := mb50_gs s1 g1 m1 s2 g2 m2 s3 gs s4 g4 m4 s5 tas hgs
  have f4 := mb50_rtrk s1 g1 m1 s2 g2 m2 s3 gs s4 g4 m4 s5 tas hm4
  have f5 := mb50_tas s1 g1 m1 s2 g2 m2 s3 gs s4 g4 m4 s5 tas htas
  have hl := mb50_length s1 g1 m1 s2 g2 m2 s3 gs s4 g4 m4 s5 tas
  refine ⟨?_, ?_, ?_, ?_, ?_, ?_⟩
  · -- not all zero: some status bit is set
    rw [← fld_all D 56 hl]
    rcases hne with h | h | h | h | h
    · exact fld_ne_zero_of_bit D 0 56 0 (by omega) (by omega) (by rw [b1]; exact h)
    · exact fld_ne_zero_of_bit D 0 56 11 (by omega) (by omega) (by rw [b2]; exact h)
    · exact fld_ne_zero_of_bit D 0 56 23 (by omega) (by omega) (by rw [b3]; exact h)
    · exact fld_ne_zero_of_bit D 0 56 34 (by omega) (by omega) (by rw [b4]; exact h)
    · exact fld_ne_zero_of_bit D 0 56 45 (by omega) (by omega) (by rw [b5]; exact h)
  · -- the five status rules
    rw [statusP_iff]
    intro t ht
    simp only [rules50, List.mem_cons, List.mem_nil_iff, or_false] at ht
    rcases ht with rfl | rfl | rfl | rfl | rfl
    · show bitAt D 0 = true ∨ fld D 1 11 = 0
      rw [b1, f1]
      cases s1 with
      | true => exact Or.inl rfl
      | false => right; obtain ⟨hg, hm⟩ := z1 rfl; subst hg; subst hm; rfl
    · show bitAt D 11 = true ∨ fld D 12 23 = 0
      rw [b2, f2]
      cases s2 with
      | true => exact Or.inl rfl
      | false => right; obtain ⟨hg, hm⟩ := z2 rfl; subst hg; subst hm; rfl
    · show bitAt D 23 = true ∨ fld D 24 34 = 0
      rw [b3, f3]
      cases s3 with
      | true => exact Or.inl rfl
      | false => right; exact z3 rfl
    · show bitAt D 34 = true ∨ fld D 35 45 = 0
      rw [b4, f4]
      cases s4 with
      | true => exact Or.inl rfl
      | false => right; obtain ⟨hg, hm⟩ := z4 rfl; subst hg; subst hm; rfl
    · show bitAt D 45 = true ∨ fld D 46 56 = 0
      rw [b5, f5]
      cases s5 with
      | true => exact Or.inl rfl
      | false => right; exact z5 rfl
  · intro h
    rw [b1] at h
    have : sval D 1 2 11 = sroll g1 m1 := by
      unfold sval sroll
      rw [bg, f1m]
      rfl
    rw [this]
    exact hroll h
  · intro h; rw [b3] at h; rw [f3]; exact hgs300 h
  · intro h; rw [b5] at h; rw [f5]; exact htas300 h
  · intro h3 h5
    rw [b3] at h3; rw [b5] at h5
    rw [f3, f5]
    exact hdiff h3 h5

end

end PyModeS.Infer
