/-
  Each Comm-B format rule `isXX` of bds.infer, on a 112-bit frame, is a value (no exception) and
  equals an explicit Boolean function `isXXP` of the 56-bit MB field.
-/
import PyModeS.Proofs.Infer.Base
namespace PyModeS.Infer
open PyModeS

theorem idxR_getD {α} (l : List α) (i : Nat) (dflt : α) (h : i < l.length) : idxR l i = .val (l.getD i dflt) := by
  simp [idxR, h]

/-! ### BDS 1,0 -/

def is10P (d : Bits) : Bool :=
  if bin2int d = 0 then false
  else if slice 0 8 d ≠ natToBits 8 0x10 then false
  else if fld d 9 14 ≠ 0 then false
  else if bitAt d 14 = true ∧ fld d 16 23 < 5 then false
  else if bitAt d 14 = false ∧ fld d 16 23 > 4 then false
  else true

theorem is10_val (bits : Bits) (h : bits.length = 112) : is10 bits = .val (is10P (mbOf bits)) := by
  have hd := mbOf_length bits h
  unfold is10
  rw [allzerosB_val bits h, dataR_val bits h]
  generalize mbOf bits = d at hd ⊢
  simp (disch := omega) only [Res.bind_val, Res.pure_eq, idxR_val, bin2intR_slice_val, ite_val, decide_eq_true_eq]
  rfl

/-! ### BDS 1,7 -/

theorem cap17All_length : Tables.cap17All.length = 24 := by decide

def cap17P (d : Bits) : List String :=
  ((List.range (d.take 24).length).filter (fun i => (d.take 24).getD i false)).map
    (fun i => "BDS" ++ Tables.cap17All.getD i "")

theorem cap17_val (bits : Bits) (h : bits.length = 112) : cap17 bits = .val (cap17P (mbOf bits)) := by
  have hd := mbOf_length bits h
  unfold cap17
  rw [dataR_val bits h]
  generalize mbOf bits = d at hd ⊢
  simp only [Res.bind_val]
  apply mapM_val
  intro i hi
  have hi' : i < 24 := by
    have := (List.mem_filter.mp hi).1
    rw [List.mem_range, List.length_take] at this
    omega
  rw [idxR_getD Tables.cap17All i "" (by rw [cap17All_length]; exact hi')]
  rfl

def is17P (d : Bits) : Bool :=
  if bin2int d = 0 then false
  else if fld d 24 56 ≠ 0 then false
  else (cap17P d).contains "BDS20"

theorem is17_val (bits : Bits) (h : bits.length = 112) : is17 bits = .val (is17P (mbOf bits)) := by
  have hd := mbOf_length bits h
  unfold is17
  rw [allzerosB_val bits h, dataR_val bits h, cap17_val bits h]
  generalize mbOf bits = d at hd ⊢
  simp (disch := omega) only [Res.bind_val, Res.pure_eq, bin2intR_slice_val, ite_val, decide_eq_true_eq]
  rfl

/-! ### BDS 2,0 -/

theorem cs20Chars_length : Tables.cs20Chars.length = 64 := by decide

def chars8P (chars : List Char) (cs : Bits) : List Char :=
  (List.range 8).map (fun i => chars.getD (fld cs (6 * i) (6 * i + 6)) '#')

theorem chars8_val (chars : List Char) (cs : Bits) (hc : chars.length = 64) (hl : cs.length = 48) :
    chars8 chars cs = .val (chars8P chars cs) := by
  unfold chars8 chars8P
  apply mapM_val
  intro i hi
  have hi' : i < 8 := List.mem_range.mp hi
  rw [bin2intR_slice_val cs _ _ (by omega) (by omega)]
  simp only [Res.bind_val]
  apply idxR_getD
  have := fld_lt cs (6 * i) (6 * i + 6)
  have e : 6 * i + 6 - 6 * i = 6 := by omega
  rw [e] at this
  omega

def cs20P (d : Bits) : List Char := chars8P Tables.cs20Chars (slice 8 56 d)

theorem cs20_val (bits : Bits) (h : bits.length = 112) : cs20 bits = .val (cs20P (mbOf bits)) := by
  have hd := mbOf_length bits h
  unfold cs20
  rw [dataR_val bits h]
  simp only [Res.bind_val]
  exact chars8_val _ _ cs20Chars_length (by rw [slice_length]; omega)

def is20P (d : Bits) : Bool :=
  if bin2int d = 0 then false
  else if slice 0 8 d ≠ natToBits 8 0x20 then false
  else if fld d 8 56 = 0 then true
  else !(cs20P d).contains '#'

theorem is20_val (bits : Bits) (h : bits.length = 112) : is20 bits = .val (is20P (mbOf bits)) := by
  have hd := mbOf_length bits h
  unfold is20
  rw [allzerosB_val bits h, dataR_val bits h, cs20_val bits h]
  generalize mbOf bits = d at hd ⊢
  simp (disch := omega) only [Res.bind_val, Res.pure_eq, bin2intR_slice_val, ite_val, decide_eq_true_eq]
  rfl

/-! ### BDS 3,0 -/

def is30P (d : Bits) : Bool :=
  if bin2int d = 0 then false
  else if slice 0 8 d ≠ natToBits 8 0x30 then false
  else if slice 28 30 d = [true, true] then false
  else decide (fld d 15 22 < 48)

theorem is30_val (bits : Bits) (h : bits.length = 112) : is30 bits = .val (is30P (mbOf bits)) := by
  have hd := mbOf_length bits h
  unfold is30
  rw [allzerosB_val bits h, dataR_val bits h]
  generalize mbOf bits = d at hd ⊢
  simp (disch := omega) only [Res.bind_val, Res.pure_eq, bin2intR_slice_val, ite_val, decide_eq_true_eq]
  rfl

/-! ### BDS 4,0 -/

def rules40 : List (Nat × Nat × Nat) := [(1, 2, 13), (14, 15, 26), (27, 28, 39), (48, 49, 51), (54, 55, 56)]

def is40P (d : Bits) : Bool :=
  if bin2int d = 0 then false
  else if (!statusP d rules40) = true then false
  else if fld d 39 47 ≠ 0 then false
  else decide (fld d 51 53 = 0)

theorem rules_inrange (d : Bits) (hd : d.length = 56) (l : List (Nat × Nat × Nat))
    (hl : l.all (fun t => decide (t.1 - 1 < 56 ∧ t.2.1 - 1 < t.2.2 ∧ t.2.1 - 1 < 56)) = true) :
    ∀ t ∈ l, t.1 - 1 < d.length ∧ t.2.1 - 1 < t.2.2 ∧ t.2.1 - 1 < d.length := by
  intro t ht
  rw [List.all_eq_true] at hl
  have := hl t ht
  rw [hd]
  simpa using this

theorem is40_val (bits : Bits) (h : bits.length = 112) : is40 bits = .val (is40P (mbOf bits)) := by
  have hd := mbOf_length bits h
  unfold is40
  rw [allzerosB_val bits h, dataR_val bits h]
  generalize mbOf bits = d at hd ⊢
  simp only [Res.bind_val]
  rw [statusOk_val d _ (rules_inrange d hd _ (by decide))]
  simp (disch := omega) only [Res.bind_val, Res.pure_eq, bin2intR_slice_val, ite_val, decide_eq_true_eq]
  rfl

/-! ### BDS 4,4 -/

def rules44 : List (Nat × Nat × Nat) := [(5, 6, 23), (35, 36, 46), (47, 48, 49), (50, 51, 56)]

def wind44P (d : Bits) : Option (Nat × Rat) :=
  if bitAt d 4 = false then none else some (fld d 5 14, (fld d 14 23 : Rat) * 180 / 256)

def temp44V (d : Bits) : Int := if bitAt d 23 then (fld d 24 34 : Int) - 1024 else (fld d 24 34 : Int)

def temp44P (d : Bits) : Rat × Rat := ((temp44V d : Rat) / 4, (temp44V d : Rat) / 8)

theorem wind44_val (bits : Bits) (h : bits.length = 112) : wind44 bits = .val (wind44P (mbOf bits)) := by
  have hd := mbOf_length bits h
  unfold wind44
  rw [dataR_val bits h]
  generalize mbOf bits = d at hd ⊢
  simp (disch := omega) only [Res.bind_val, Res.pure_eq, idxR_val, bin2intR_slice_val, ite_val]
  rfl

theorem temp44_val (bits : Bits) (h : bits.length = 112) : temp44 bits = .val (temp44P (mbOf bits)) := by
  have hd := mbOf_length bits h
  unfold temp44
  rw [dataR_val bits h]
  generalize mbOf bits = d at hd ⊢
  simp (disch := omega) only [Res.bind_val, Res.pure_eq, idxR_val, bin2intR_slice_val]
  rfl

def is44P (d : Bits) : Bool :=
  if bin2int d = 0 then false
  else if (!statusP d rules44) = true then false
  else if fld d 0 4 > 4 then false
  else if (match wind44P d with | some (vw, _) => decide (vw > 250) | none => false) = true then false
  else if min (temp44P d).1 (temp44P d).2 > 60 ∨ max (temp44P d).1 (temp44P d).2 < -80 then false
  else true

theorem is44_val (bits : Bits) (h : bits.length = 112) : is44 bits = .val (is44P (mbOf bits)) := by
  have hd := mbOf_length bits h
  unfold is44
  rw [allzerosB_val bits h, dataR_val bits h, wind44_val bits h, temp44_val bits h]
  generalize mbOf bits = d at hd ⊢
  simp only [Res.bind_val]
  rw [statusOk_val d _ (rules_inrange d hd _ (by decide))]
  simp (disch := omega) only [Res.bind_val, Res.pure_eq, bin2intR_slice_val, ite_val, decide_eq_true_eq]
  rfl

/-! ### BDS 4,5 -/

def rules45 : List (Nat × Nat × Nat) :=
  [(1, 2, 3), (4, 5, 6), (7, 8, 9), (10, 11, 12), (13, 14, 15), (16, 17, 26), (27, 28, 38), (39, 40, 51)]

def temp45V (d : Bits) : Int := if bitAt d 16 then (fld d 17 26 : Int) - 512 else (fld d 17 26 : Int)
def temp45P (d : Bits) : Rat := (temp45V d : Rat) / 4

theorem temp45_val (bits : Bits) (h : bits.length = 112) : temp45 bits = .val (temp45P (mbOf bits)) := by
  have hd := mbOf_length bits h
  unfold temp45
  rw [dataR_val bits h]
  generalize mbOf bits = d at hd ⊢
  simp (disch := omega) only [Res.bind_val, Res.pure_eq, idxR_val, bin2intR_slice_val]
  rfl

def is45P (d : Bits) : Bool :=
  if bin2int d = 0 then false
  else if (!statusP d rules45) = true then false
  else if fld d 51 56 ≠ 0 then false
  else if temp45P d ≠ 0 ∧ (temp45P d > 60 ∨ temp45P d < -80) then false
  else true

theorem is45_val (bits : Bits) (h : bits.length = 112) : is45 bits = .val (is45P (mbOf bits)) := by
  have hd := mbOf_length bits h
  unfold is45
  rw [allzerosB_val bits h, dataR_val bits h, temp45_val bits h]
  generalize mbOf bits = d at hd ⊢
  simp only [Res.bind_val]
  rw [statusOk_val d _ (rules_inrange d hd _ (by decide))]
  simp (disch := omega) only [Res.bind_val, Res.pure_eq, bin2intR_slice_val, ite_val, decide_eq_true_eq]
  rfl

/-! ### BDS 5,0 -/

def rules50 : List (Nat × Nat × Nat) := [(1, 2, 11), (12, 13, 23), (24, 25, 34), (35, 36, 45), (46, 47, 56)]

def roll50P (d : Bits) : Option Rat := sfieldP d 0 1 2 11 ((45 : Rat) / 256)
def gs50P (d : Bits) : Option Rat := ufieldP d 23 24 34 2 0
def tas50P (d : Bits) : Option Rat := ufieldP d 45 46 56 2 0

theorem roll50_val (bits : Bits) (h : bits.length = 112) : roll50 bits = .val (roll50P (mbOf bits)) := by
  have hd := mbOf_length bits h
  unfold roll50
  rw [dataR_val bits h]
  exact sfield_val _ _ _ _ _ _ (by omega) (by omega) (by omega) (by omega)

theorem gs50_val (bits : Bits) (h : bits.length = 112) : gs50 bits = .val (gs50P (mbOf bits)) := by
  have hd := mbOf_length bits h
  unfold gs50
  rw [dataR_val bits h]
  exact ufield_val _ _ _ _ _ _ (by omega) (by omega) (by omega)

theorem tas50_val (bits : Bits) (h : bits.length = 112) : tas50 bits = .val (tas50P (mbOf bits)) := by
  have hd := mbOf_length bits h
  unfold tas50
  rw [dataR_val bits h]
  exact ufield_val _ _ _ _ _ _ (by omega) (by omega) (by omega)

def is50P (d : Bits) : Bool :=
  if bin2int d = 0 then false
  else if (!statusP d rules50) = true then false
  else if optAbsGt (roll50P d) 50 = true then false
  else if optGt (gs50P d) 600 = true then false
  else if optGt (tas50P d) 600 = true then false
  else match gs50P d, tas50P d with
    | some g, some t => !decide (rabs (t - g) > 200)
    | _, _ => true

theorem is50_val (bits : Bits) (h : bits.length = 112) : is50 bits = .val (is50P (mbOf bits)) := by
  have hd := mbOf_length bits h
  unfold is50
  rw [allzerosB_val bits h, dataR_val bits h, roll50_val bits h, gs50_val bits h, tas50_val bits h]
  generalize mbOf bits = d at hd ⊢
  simp only [Res.bind_val]
  rw [statusOk_val d _ (rules_inrange d hd _ (by decide))]
  simp only [Res.bind_val, Res.pure_eq, decide_eq_true_eq]
  unfold is50P
  simp only [rules50]
  generalize gs50P d = g
  generalize tas50P d = t
  cases g <;> cases t <;> simp only [ite_val]

/-! ### BDS 6,0 -/

def rules60 : List (Nat × Nat × Nat) := [(1, 2, 12), (13, 14, 23), (24, 25, 34), (35, 36, 45), (46, 47, 56)]

def ias60P (d : Bits) : Option Rat := ufieldP d 12 13 23 1 0
def mach60P (d : Bits) : Option Rat := ufieldP d 23 24 34 ((2048 : Rat) / 1000 / 512) 0
def vr60baroP (d : Bits) : Option Rat := sfieldP d 34 35 36 45 32
def vr60insP (d : Bits) : Option Rat := sfieldP d 45 46 47 56 32

theorem ias60_val (bits : Bits) (h : bits.length = 112) : ias60 bits = .val (ias60P (mbOf bits)) := by
  have hd := mbOf_length bits h
  unfold ias60
  rw [dataR_val bits h]
  exact ufield_val _ _ _ _ _ _ (by omega) (by omega) (by omega)

theorem mach60_val (bits : Bits) (h : bits.length = 112) : mach60 bits = .val (mach60P (mbOf bits)) := by
  have hd := mbOf_length bits h
  unfold mach60
  rw [dataR_val bits h]
  exact ufield_val _ _ _ _ _ _ (by omega) (by omega) (by omega)

theorem vr60baro_val (bits : Bits) (h : bits.length = 112) : vr60baro bits = .val (vr60baroP (mbOf bits)) := by
  have hd := mbOf_length bits h
  unfold vr60baro
  rw [dataR_val bits h]
  exact sfield_val _ _ _ _ _ _ (by omega) (by omega) (by omega) (by omega)

theorem vr60ins_val (bits : Bits) (h : bits.length = 112) : vr60ins bits = .val (vr60insP (mbOf bits)) := by
  have hd := mbOf_length bits h
  unfold vr60ins
  rw [dataR_val bits h]
  exact sfield_val _ _ _ _ _ _ (by omega) (by omega) (by omega) (by omega)

def is60CoreP (d : Bits) : Bool :=
  if bin2int d = 0 then false
  else if (!statusP d rules60) = true then false
  else if optGt (ias60P d) 500 = true then false
  else if optGt (mach60P d) 1 = true then false
  else if optAbsGt (vr60baroP d) 6000 = true then false
  else if optAbsGt (vr60insP d) 6000 = true then false
  else true

theorem is60Core_val (bits : Bits) (h : bits.length = 112) : is60Core bits = .val (is60CoreP (mbOf bits)) := by
  have hd := mbOf_length bits h
  unfold is60Core
  rw [allzerosB_val bits h, dataR_val bits h, ias60_val bits h, mach60_val bits h, vr60baro_val bits h,
    vr60ins_val bits h]
  generalize mbOf bits = d at hd ⊢
  simp only [Res.bind_val]
  rw [statusOk_val d _ (rules_inrange d hd _ (by decide))]
  simp only [Res.bind_val, Res.pure_eq, ite_val, decide_eq_true_eq]
  rfl

/-- the 13-bit altitude code decoder never fails on 13 bits -/
def alt13P (b : Bits) : Option Int := match altitude13 b with | .val a => a | _ => none

theorem altitude13_val (b : Bits) (h : b.length = 13) : altitude13 b = .val (alt13P b) := by
  match b, h with
  | [C1, A1, C2, A2, C4, A4, M, B1, Q, B2, D2, B4, D4], _ =>
    unfold alt13P altitude13
    simp only []
    split
    · rfl
    · split
      · split <;> rfl
      · rfl

/-- the altitude cross-check of is60 as a Boolean -/
def is60AltP (iasOfMach : Rat → Int → Rat) (bits : Bits) : Bool :=
  match mach60P (mbOf bits), ias60P (mbOf bits) with
  | some m, some i =>
    if dfB bits = 20 then
      match alt13P (slice 19 32 bits) with
      | some a => !decide (rabs (i - iasOfMach m a) > 20)
      | none => true
    else true
  | _, _ => true

theorem is60AltCheck_val (ias : Rat → Int → Rat) (bits : Bits) (h : bits.length = 112) :
    is60AltCheck ias bits = .val (is60AltP ias bits) := by
  unfold is60AltCheck is60AltP
  rw [ias60_val bits h, mach60_val bits h, altitude13_val (slice 19 32 bits) (by rw [slice_length]; omega)]
  simp only [Res.bind_val]
  generalize mach60P (mbOf bits) = m
  generalize ias60P (mbOf bits) = i
  generalize alt13P (slice 19 32 bits) = a
  cases m <;> cases i <;> cases a <;> simp only [Res.pure_eq, ite_val]

def is60P (ias : Rat → Int → Rat) (bits : Bits) : Bool :=
  if (!is60CoreP (mbOf bits)) = true then false else is60AltP ias bits

theorem is60_val (ias : Rat → Int → Rat) (bits : Bits) (h : bits.length = 112) :
    is60 ias bits = .val (is60P ias bits) := by
  unfold is60 is60P
  rw [is60Core_val bits h, is60AltCheck_val ias bits h]
  simp only [Res.bind_val, Res.pure_eq, ite_val]

/-! ### BDS 5,3 (not consulted by `infer`, kept for completeness of the rule set) -/

def rules53 : List (Nat × Nat × Nat) := [(1, 3, 12), (13, 14, 23), (24, 25, 33), (34, 35, 46), (47, 49, 56)]

def is53P (d : Bits) : Bool :=
  if bin2int d = 0 then false
  else if (!statusP d rules53) = true then false
  else if optGt (ufieldP d 12 13 23 1 0) 500 = true then false
  else if optGt (ufieldP d 23 24 33 ((8 : Rat) / 1000) 0) 1 = true then false
  else if optGt (ufieldP d 33 34 46 ((1 : Rat) / 2) 0) 500 = true then false
  else if optAbsGt (sfieldP d 46 47 48 56 64) 8000 = true then false
  else true

theorem is53_val (bits : Bits) (h : bits.length = 112) : is53 bits = .val (is53P (mbOf bits)) := by
  have hd := mbOf_length bits h
  unfold is53 ias53 mach53 tas53 vr53
  simp only [allzerosB_val bits h, dataR_val bits h, Res.bind_val]
  generalize mbOf bits = d at hd ⊢
  rw [statusOk_val d _ (rules_inrange d hd _ (by decide))]
  simp (disch := omega) only [Res.bind_val, Res.pure_eq, ufield_val, sfield_val, ite_val, decide_eq_true_eq]
  rfl

end PyModeS.Infer
