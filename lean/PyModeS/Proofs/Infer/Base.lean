/-
  Comm-B format rules on a 112-bit frame: the exception-free reading of the MB field.
  `mbOf bits` is the 56-bit MB field; `bitAt`/`fld` read one bit / an unsigned field of it.
-/
import PyModeS.Proofs.Bits
import PyModeS.Model.Commb
namespace PyModeS.Infer
open PyModeS

/-- the MB field (bits 33-88) of a 112-bit frame -/
def mbOf (bits : Bits) : Bits := slice 32 88 bits

/-- bit `i` (0-based) of a bit string, `false` beyond its end -/
def bitAt (d : Bits) (i : Nat) : Bool := d.getD i false

/-- the unsigned value of `d[a:b]` -/
def fld (d : Bits) (a b : Nat) : Nat := bin2int (slice a b d)

theorem mbOf_length (bits : Bits) (h : bits.length = 112) : (mbOf bits).length = 56 := by
  simp [mbOf, slice, h]

theorem dataR_val (bits : Bits) (h : bits.length = 112) : dataR bits = .val (mbOf bits) := by
  have hl := mbOf_length bits h
  unfold dataR
  simp only [h]
  have : (slice 32 (112 - 24) bits).isEmpty = false := by
    cases hs : slice 32 (112 - 24) bits with
    | nil => simp [mbOf, hs] at hl
    | cons a t => rfl
  simp only [this]
  rfl

theorem allzerosB_val (bits : Bits) (h : bits.length = 112) :
    allzerosB bits = .val (decide (bin2int (mbOf bits) = 0)) := by
  unfold allzerosB
  rw [dataR_val bits h]
  rfl

theorem idxR_val (d : Bits) (i : Nat) (h : i < d.length) : idxR d i = .val (bitAt d i) := by
  simp [idxR, bitAt, h]

theorem bin2intR_slice_val (d : Bits) (a b : Nat) (h1 : a < b) (h2 : a < d.length) :
    bin2intR (slice a b d) = .val (fld d a b) := by
  apply bin2intR_of_length
  rw [slice_length]; omega

/-- push a two-way choice between values under `.val` -/
theorem ite_val {α} (c : Prop) [Decidable c] (a b : α) :
    (if c then Res.val a else Res.val b) = Res.val (if c then a else b) := by
  split <;> rfl

theorem fld_lt (d : Bits) (a b : Nat) : fld d a b < 2 ^ (b - a) := by
  have h := bin2int_lt (slice a b d)
  have h2 : (slice a b d).length ≤ b - a := by rw [slice_length]; omega
  exact Nat.lt_of_lt_of_le h (Nat.pow_le_pow_right (by decide) h2)

/-! ### status rules -/

/-- `wrongstatus(d, sb, msb, lsb)` as a Boolean: status bit 0 but the field is not all zero -/
def wrongP (d : Bits) (sb msb lsb : Nat) : Bool := !bitAt d (sb - 1) && fld d (msb - 1) lsb != 0

theorem wrongstatus_val (d : Bits) (sb msb lsb : Nat) (h1 : sb - 1 < d.length) (h2 : msb - 1 < lsb)
    (h3 : msb - 1 < d.length) : wrongstatus d sb msb lsb = .val (wrongP d sb msb lsb) := by
  unfold wrongstatus
  rw [idxR_val d _ h1, bin2intR_slice_val d _ _ h2 h3]
  rfl

/-- all status rules of a list hold -/
def statusP (d : Bits) (l : List (Nat × Nat × Nat)) : Bool := l.all (fun t => !wrongP d t.1 t.2.1 t.2.2)

theorem statusOk_val (d : Bits) (l : List (Nat × Nat × Nat))
    (h : ∀ t ∈ l, t.1 - 1 < d.length ∧ t.2.1 - 1 < t.2.2 ∧ t.2.1 - 1 < d.length) :
    statusOk d l = .val (statusP d l) := by
  induction l with
  | nil => rfl
  | cons t l ih =>
    obtain ⟨sb, msb, lsb⟩ := t
    have ht := h (sb, msb, lsb) (by simp)
    unfold statusOk
    rw [wrongstatus_val d sb msb lsb ht.1 ht.2.1 ht.2.2, ih (fun t ht => h t (List.mem_cons_of_mem _ ht))]
    simp only [Res.bind_val, statusP, List.all_cons]
    cases wrongP d sb msb lsb <;> simp

/-! ### status-gated fields -/

def ufieldP (d : Bits) (sb a b : Nat) (scale off : Rat) : Option Rat :=
  if bitAt d sb = false then none else some ((fld d a b : Rat) * scale + off)

theorem ufield_val (d : Bits) (sb a b : Nat) (scale off : Rat) (h0 : sb < d.length) (h1 : a < b)
    (h2 : a < d.length) : ufield d sb a b scale off = .val (ufieldP d sb a b scale off) := by
  unfold ufield ufieldP
  rw [idxR_val d _ h0, bin2intR_slice_val d _ _ h1 h2]
  simp only [Res.bind_val]
  split <;> rfl

/-- signed value of a sign bit and a magnitude field of width `b - a` -/
def sval (d : Bits) (sg a b : Nat) : Int :=
  if bitAt d sg then (fld d a b : Int) - (2 ^ (b - a) : Nat) else (fld d a b : Int)

def sfieldP (d : Bits) (sb sg a b : Nat) (scale : Rat) : Option Rat :=
  if bitAt d sb = false then none else some ((sval d sg a b : Rat) * scale)

theorem sfield_val (d : Bits) (sb sg a b : Nat) (scale : Rat) (h0 : sb < d.length) (hs : sg < d.length)
    (h1 : a < b) (h2 : a < d.length) : sfield d sb sg a b scale = .val (sfieldP d sb sg a b scale) := by
  unfold sfield sfieldP sval
  rw [idxR_val d _ h0, idxR_val d _ hs, bin2intR_slice_val d _ _ h1 h2]
  simp only [Res.bind_val]
  split <;> rfl

/-- `Res.mapM` of a function that never fails -/
theorem mapM_val {α β} (f : α → Res β) (g : α → β) (l : List α) (h : ∀ x ∈ l, f x = .val (g x)) :
    Res.mapM f l = .val (l.map g) := by
  induction l with
  | nil => rfl
  | cons a l ih =>
    unfold Res.mapM
    rw [h a (by simp), ih (fun x hx => h x (List.mem_cons_of_mem _ hx))]
    rfl

end PyModeS.Infer
