/-
  BDS 5,3 (air-referenced state vector): `is53` in integer terms.
-/
import PyModeS.Proofs.Infer.Bds60
namespace PyModeS.Infer
open PyModeS

/-- Mach = field × 0.008 ≤ 1 iff field ≤ 125 -/
theorem mach53_bound (n : Nat) : (n : Rat) * ((8 : Rat) / 1000) ≤ 1 ↔ n ≤ 125 := by
  constructor
  · intro h
    have a : (n : Rat) ≤ 125 := by linarith
    exact_mod_cast a
  · intro h
    have a : (n : Rat) ≤ 125 := by exact_mod_cast h
    linarith

/-- TAS = field × 0.5 kt ≤ 500 iff field ≤ 1000 -/
theorem tas53_bound (n : Nat) : (n : Rat) * ((1 : Rat) / 2) ≤ 500 ↔ n ≤ 1000 := by
  constructor
  · intro h
    have a : (n : Rat) ≤ 1000 := by linarith
    exact_mod_cast a
  · intro h
    have a : (n : Rat) ≤ 1000 := by exact_mod_cast h
    linarith

/-- the same in `simp`'s normal form of the scale factor -/
theorem tas53_bound' (n : Nat) : (n : Rat) * 2⁻¹ ≤ 500 ↔ n ≤ 1000 := by
  rw [← tas53_bound n, one_div]

/-- |vertical rate| = |signed field| × 64 ft/min ≤ 8000 iff the signed field is in −125..125 -/
theorem vr53_bound (v : Int) : rabs ((v : Rat) * 64) ≤ 8000 ↔ (-125 ≤ v ∧ v ≤ 125) := by
  rw [rabs_le_iff]
  constructor
  · rintro ⟨h1, h2⟩
    have a1 : (-125 : Rat) ≤ (v : Rat) := by linarith
    have a2 : (v : Rat) ≤ 125 := by linarith
    constructor
    · exact_mod_cast a1
    · exact_mod_cast a2
  · rintro ⟨h1, h2⟩
    have a1 : (-125 : Rat) ≤ (v : Rat) := by exact_mod_cast h1
    have a2 : (v : Rat) ≤ 125 := by exact_mod_cast h2
    constructor <;> linarith

/-- BDS 5,3 in integers: not all zero, the five status rules, and for the values that are present
    IAS ≤ 500 kt, Mach ≤ 1 (field ≤ 125), TAS ≤ 500 kt (field ≤ 1000), |vertical rate| ≤ 8000 ft/min
    (signed field in −125..125) -/
theorem is53P_iff (d : Bits) :
    is53P d = true ↔ (bin2int d ≠ 0 ∧ statusP d rules53 = true ∧
      (bitAt d 12 = true → fld d 13 23 ≤ 500) ∧
      (bitAt d 23 = true → fld d 24 33 ≤ 125) ∧
      (bitAt d 33 = true → fld d 34 46 ≤ 1000) ∧
      (bitAt d 46 = true → -125 ≤ sval d 47 48 56 ∧ sval d 47 48 56 ≤ 125)) := by
  unfold is53P sfieldP ufieldP
  by_cases h0 : bin2int d = 0
  · simp [h0]
  · cases hs : statusP d rules53 with
    | false => simp [h0]
    | true =>
      cases hi : bitAt d 12 <;> cases hm : bitAt d 23 <;> cases ht : bitAt d 33 <;> cases hv : bitAt d 46 <;>
        simp [h0, optAbsGt, optGt, mach53_bound, tas53_bound', vr53_bound]

end PyModeS.Infer
