/-
  BDS 4,0 (selected vertical intention): an encoder accepted by `is40` (the exact rule is `is40P_iff`).
-/
import PyModeS.Proofs.Infer.Sound
import PyModeS.Proofs.Infer.Build
namespace PyModeS.Infer
open PyModeS

/-- the BDS 4,0 layout: MCP/FCU selected altitude (status, 12 bits), FMS selected altitude (status, 12 bits),
    barometric pressure setting (status, 12 bits), 8 reserved bits, MCP/FCU mode (status, 3 mode bits),
    2 reserved bits, target altitude source (status, 2 bits) -/
def layout40 (s1 : Bool) (mcp : Nat) (s2 : Bool) (fms : Nat) (s3 : Bool) (baro : Nat) (s4 : Bool) (modes : Nat)
    (s5 : Bool) (src : Nat) : List (Nat × Nat) :=
  [(1, s1.toNat), (12, mcp), (1, s2.toNat), (12, fms), (1, s3.toNat), (12, baro), (8, 0), (1, s4.toNat), (3, modes),
   (2, 0), (1, s5.toNat), (2, src)]

def mb40 (s1 : Bool) (mcp : Nat) (s2 : Bool) (fms : Nat) (s3 : Bool) (baro : Nat) (s4 : Bool) (modes : Nat)
    (s5 : Bool) (src : Nat) : Bits :=
  build (layout40 s1 mcp s2 fms s3 baro s4 modes s5 src)

section
variable (s1 : Bool) (mcp : Nat) (s2 : Bool) (fms : Nat) (s3 : Bool) (baro : Nat) (s4 : Bool) (modes : Nat)
    (s5 : Bool) (src : Nat)

local notation "F" => layout40 s1 mcp s2 fms s3 baro s4 modes s5 src
local notation "D" => mb40 s1 mcp s2 fms s3 baro s4 modes s5 src

theorem mb40_length : (D).length = 56 := by
  unfold mb40; rw [build_length]; rfl

/-- completeness on the MB field: any in-range values, absent values zero, reserved bits zero (by layout),
    not everything absent -/
theorem is40P_mb40 (h1 : mcp < 4096) (h2 : fms < 4096) (h3 : baro < 4096) (h4 : modes < 8) (h5 : src < 4)
    (z1 : s1 = false → mcp = 0) (z2 : s2 = false → fms = 0) (z3 : s3 = false → baro = 0)
    (z4 : s4 = false → modes = 0) (z5 : s5 = false → src = 0)
    (hne : s1 = true ∨ s2 = true ∨ s3 = true ∨ s4 = true ∨ s5 = true) :
    is40P D = true := by
  rw [is40P_iff]
  have b1 : bitAt D 0 = s1 := build_bit F 0 0 s1 rfl rfl rfl
  have b2 : bitAt D 13 = s2 := build_bit F 2 13 s2 rfl rfl rfl
  have b3 : bitAt D 26 = s3 := build_bit F 4 26 s3 rfl rfl rfl
  have b4 : bitAt D 47 = s4 := build_bit F 7 47 s4 rfl rfl rfl
  have b5 : bitAt D 53 = s5 := build_bit F 10 53 s5 rfl rfl rfl
  have f1 : fld D 1 13 = mcp := build_fld1 F 1 1 13 12 mcp rfl rfl rfl h1
  have f2 : fld D 14 26 = fms := build_fld1 F 3 14 26 12 fms rfl rfl rfl h2
  have f3 : fld D 27 39 = baro := build_fld1 F 5 27 39 12 baro rfl rfl rfl h3
  have r1 : fld D 39 47 = 0 := build_fld1 F 6 39 47 8 0 rfl rfl rfl (by decide)
  have f4 : fld D 48 51 = modes := build_fld1 F 8 48 51 3 modes rfl rfl rfl h4
  have r2 : fld D 51 53 = 0 := build_fld1 F 9 51 53 2 0 rfl rfl rfl (by decide)
  have f5 : fld D 54 56 = src := build_fld1 F 11 54 56 2 src rfl rfl rfl h5
  have hl := mb40_length s1 mcp s2 fms s3 baro s4 modes s5 src
  refine ⟨?_, ?_, r1, r2⟩
  · rw [← fld_all D 56 hl]
    rcases hne with h | h | h | h | h
    · exact fld_ne_zero_of_bit D 0 56 0 (by omega) (by omega) (by rw [b1]; exact h)
    · exact fld_ne_zero_of_bit D 0 56 13 (by omega) (by omega) (by rw [b2]; exact h)
    · exact fld_ne_zero_of_bit D 0 56 26 (by omega) (by omega) (by rw [b3]; exact h)
    · exact fld_ne_zero_of_bit D 0 56 47 (by omega) (by omega) (by rw [b4]; exact h)
    · exact fld_ne_zero_of_bit D 0 56 53 (by omega) (by omega) (by rw [b5]; exact h)
  · rw [statusP_iff]
    intro t ht
    simp only [rules40, List.mem_cons, List.mem_nil_iff, or_false] at ht
    rcases ht with rfl | rfl | rfl | rfl | rfl
    · show bitAt D 0 = true ∨ fld D 1 13 = 0
      rw [b1, f1]
      cases s1 with
      | true => exact Or.inl rfl
      | false => right; exact z1 rfl
    · show bitAt D 13 = true ∨ fld D 14 26 = 0
      rw [b2, f2]
      cases s2 with
      | true => exact Or.inl rfl
      | false => right; exact z2 rfl
    · show bitAt D 26 = true ∨ fld D 27 39 = 0
      rw [b3, f3]
      cases s3 with
      | true => exact Or.inl rfl
      | false => right; exact z3 rfl
    · show bitAt D 47 = true ∨ fld D 48 51 = 0
      rw [b4, f4]
      cases s4 with
      | true => exact Or.inl rfl
      | false => right; exact z4 rfl
    · show bitAt D 53 = true ∨ fld D 54 56 = 0
      rw [b5, f5]
      cases s5 with
      | true => exact Or.inl rfl
      | false => right; exact z5 rfl

end

end PyModeS.Infer
