/-
  The Annex 10 uplink address/parity encoder (`AP = parity(data) xor top24(A·G)`), carry-less
  multiplication on `Nat`, and the shape of `uplinkIcao` on an encoded frame.
-/
import PyModeS.Proofs.CRC.Icao
import PyModeS.Model.Misc
namespace PyModeS.Uplink
open PyModeS PyModeS.Spec PyModeS.CRC

/-- carry-less (GF(2)[x]) multiplication: xor of `b` shifted to every set bit of `a` -/
def clmulW (w a b : Nat) : Nat :=
  (List.range w).foldl (fun acc i => if a.testBit i then acc ^^^ (b <<< i) else acc) 0

def clmul (a b : Nat) : Nat := clmulW (a.log2 + 1) a b

/-- uplink AP field: parity of the data xor the top 24 coefficients of `A(x)·G(x)` -/
def uplinkAP (d : Bits) (A : Nat) : Nat :=
  remH (d ++ List.replicate 24 false) ^^^ (clmul A G >>> 24)

/-- the interrogation as a hex string -/
def uplinkFrame (d : Bits) (A : Nat) : Msg := hexOfBits (d ++ natToBits 24 (uplinkAP d A))

theorem clmulW_succ (w a b : Nat) :
    clmulW (w + 1) a b = if a.testBit w then clmulW w a b ^^^ (b <<< w) else clmulW w a b := by
  unfold clmulW
  rw [List.range_succ, List.foldl_append]
  rfl

theorem clmulW_lt (w a b k : Nat) (hb : b < 2 ^ k) : clmulW w a b < 2 ^ (k + w - 1) := by
  induction w with
  | zero => exact Nat.pow_pos (by decide)
  | succ w ih =>
    rw [clmulW_succ]
    have e : k + (w + 1) - 1 = k + w := by omega
    rw [e]
    have h1 : clmulW w a b < 2 ^ (k + w) :=
      Nat.lt_of_lt_of_le ih (Nat.pow_le_pow_right (by decide) (by omega))
    split
    · apply Nat.xor_lt_two_pow h1
      rw [Nat.shiftLeft_eq, Nat.pow_add]
      exact Nat.mul_lt_mul_of_pos_right hb (Nat.pow_pos (by decide))
    · exact h1

theorem log2_succ_le {a k : Nat} (h : a < 2 ^ k) (hk : 1 ≤ k) : a.log2 + 1 ≤ k := by
  by_cases h0 : a = 0
  · subst h0; rw [Nat.log2_zero]; omega
  · have := (Nat.log2_lt h0).mpr h; omega

/-- `A·G` has degree ≤ 47, so its top part above x^24 fits in 24 bits -/
theorem clmul_G_shift_lt {A : Nat} (hA : A < 2 ^ 24) : clmul A G >>> 24 < 2 ^ 24 := by
  have h1 : clmul A G < 2 ^ (25 + (A.log2 + 1) - 1) := clmulW_lt _ A G 25 (by decide)
  have h2 : A.log2 + 1 ≤ 24 := log2_succ_le hA (by decide)
  have h3 : clmul A G < 2 ^ 48 := Nat.lt_of_lt_of_le h1 (Nat.pow_le_pow_right (by decide) (by omega))
  rw [Nat.shiftRight_eq_div_pow]
  omega

theorem uplinkAP_lt (d : Bits) {A : Nat} (hA : A < 2 ^ 24) : uplinkAP d A < 2 ^ 24 :=
  Nat.xor_lt_two_pow (remH_lt _) (clmul_G_shift_lt hA)

/-! ### `uplinkIcao` on a frame `hex(d ++ field)` -/

theorem hexFrame_spec (d : Bits) (x : Nat) (hx : x < 2 ^ 24) (h4 : d.length % 4 = 0) :
    let m := hexOfBits (d ++ natToBits 24 x)
    m.length * 4 = d.length + 24 ∧ hexToNatM (dropLast 6 m) = bin2int d ∧
      hexToNatM (takeLast 6 m) = x := by
  intro m
  have hb : hex2binM m = d ++ natToBits 24 x := hex2binM_hexOfBits _ (by simp; omega)
  have hl : m.length = (d.length + 24) / 4 := by simp [m, hexOfBits_length]
  refine ⟨by omega, ?_, ?_⟩
  · rw [hexToNatM_eq_bin2int, hex2binM_dropLast, hb]
    have := dropLast_append_length d (natToBits 24 x)
    rw [natToBits_length] at this
    rw [this]
  · rw [hexToNatM_eq_bin2int]
    unfold takeLast
    rw [hex2binM_drop, hb]
    have : 4 * (m.length - 6) = d.length := by omega
    rw [this]
    simp [bin2int_natToBits_of_lt hx]

theorem pgen_eq (L : Nat) (hL : 14 ≤ L) : 0xFFFA0480 <<< ((L - 14) * 4) = G <<< (L * 4 - 49) := by
  have : (0xFFFA0480 : Nat) = G <<< 7 := by decide
  rw [this, ← Nat.shiftLeft_add]
  congr 1; omega

/-- `uplink_icao` on an encoded frame is the loop run on `(int(data), AP, 0)` -/
theorem uplinkIcao_frame (d : Bits) (A : Nat) (hA : A < 2 ^ 24) (h4 : d.length % 4 = 0)
    (hd : 32 ≤ d.length) :
    uplinkIcao (uplinkFrame d A) =
      hex6 ((uplinkLoop (d.length + 24) (G <<< (d.length + 24 - 49)) (d.length + 24)
        (bin2int d, uplinkAP d A, 0)).2.2 >>> 2) := by
  obtain ⟨h1, h2, h3⟩ := hexFrame_spec d (uplinkAP d A) (uplinkAP_lt d hA) h4
  unfold uplinkIcao
  simp only
  have hL : 14 ≤ (uplinkFrame d A).length := by
    have : (uplinkFrame d A).length * 4 = d.length + 24 := h1
    omega
  rw [pgen_eq _ hL]
  have e1 : (uplinkFrame d A).length * 4 = d.length + 24 := h1
  have e2 : hexToNatM (dropLast 6 (uplinkFrame d A)) = bin2int d := h2
  have e3 : hexToNatM (takeLast 6 (uplinkFrame d A)) = uplinkAP d A := h3
  rw [e1, e2, e3]

end PyModeS.Uplink
