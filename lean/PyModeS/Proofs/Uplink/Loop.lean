/-
  `uplinkLoop` is polynomial long division by `G·x^(n-48)` with quotient collection; on an
  encoded frame the last 24 quotient bits are the address (DESIGN §11.4).
-/
import PyModeS.Proofs.CRC.Poly
import PyModeS.Proofs.Uplink.Encoder

open Polynomial
namespace PyModeS.Uplink
open PyModeS PyModeS.Spec PyModeS.CRC

/-! ### more `natPoly` algebra -/

theorem natPoly_zero : natPoly 0 = 0 := by rw [natPoly]

theorem natPoly_one : natPoly 1 = 1 := by
  have := natPoly_shift 0 true
  simpa [natPoly_zero, bitZ] using this

theorem natPoly_two_mul_add (s c : Nat) (hc : c ≤ 1) :
    natPoly (2 * s + c) = natPoly s * X + C (c : ZMod 2) := by
  rcases Nat.le_one_iff_eq_zero_or_eq_one.mp hc with h | h <;> subst h
  · have := natPoly_shift s false; simpa [bitZ] using this
  · have := natPoly_shift s true; simpa [bitZ] using this

theorem natPoly_mul_two_pow (s k : Nat) : natPoly (s * 2 ^ k) = natPoly s * X ^ k := by
  induction k with
  | zero => simp
  | succ k ih =>
    have : s * 2 ^ (k + 1) = 2 * (s * 2 ^ k) + 0 := by rw [Nat.pow_succ]; ring
    rw [this, natPoly_two_mul_add _ 0 (by omega), ih, pow_succ]
    simp [mul_assoc]

theorem natPoly_mul_two_pow_add (s k r : Nat) (hr : r < 2 ^ k) :
    natPoly (s * 2 ^ k + r) = natPoly s * X ^ k + natPoly r := by
  have : s * 2 ^ k + r = (s * 2 ^ k) ^^^ r := by
    rw [← Nat.shiftLeft_eq, Nat.shiftLeft_add_eq_or_of_lt hr]
    apply Nat.eq_of_testBit_eq
    intro i
    rw [Nat.testBit_or, Nat.testBit_xor, Nat.testBit_shiftLeft]
    by_cases hi : k ≤ i
    · rw [Nat.testBit_lt_two_pow (Nat.lt_of_lt_of_le hr (Nat.pow_le_pow_right (by decide) hi))]
      simp
    · simp [hi]
  rw [this, natPoly_xor, natPoly_mul_two_pow]

theorem natPoly_add_self (p : Nat) : natPoly p + natPoly p = 0 := by
  rw [← natPoly_xor, Nat.xor_self, natPoly_zero]

theorem lt_two_pow_of_testBit_false {x i : Nat} (h : x < 2 ^ (i + 1)) (hb : x.testBit i = false) :
    x < 2 ^ i := by
  apply Nat.lt_pow_two_of_testBit
  intro j hj
  rcases Nat.eq_or_lt_of_le hj with e | e
  · rw [← e]; exact hb
  · exact Nat.testBit_lt_two_pow (Nat.lt_of_lt_of_le h (Nat.pow_le_pow_right (by decide) e))

theorem and_two_pow_ne_zero (x i : Nat) : (x &&& 2 ^ i ≠ 0) ↔ x.testBit i = true := by
  constructor
  · intro h
    apply Classical.byContradiction
    intro hb
    apply h
    apply Nat.eq_of_testBit_eq
    intro j
    rw [Nat.testBit_and, Nat.testBit_two_pow, Nat.zero_testBit]
    by_cases hij : i = j
    · subst hij; simp; exact Bool.eq_false_iff.mpr hb
    · simp [hij]
  · intro hb h0
    have : (x &&& 2 ^ i).testBit i = true := by
      rw [Nat.testBit_and, Nat.testBit_two_pow, hb]; simp
    rw [h0, Nat.zero_testBit] at this
    exact absurd this (by decide)

/-! ### carry-less multiplication is polynomial multiplication -/

theorem natPoly_clmulW (w a b : Nat) : natPoly (clmulW w a b) = natPoly (a % 2 ^ w) * natPoly b := by
  induction w with
  | zero => simp [clmulW, Nat.mod_one, natPoly_zero]
  | succ w ih =>
    rw [clmulW_succ, Nat.mod_pow_succ, Nat.add_comm, Nat.mul_comm (2 ^ w),
      natPoly_mul_two_pow_add _ _ _ (Nat.mod_lt _ (Nat.pow_pos (by decide)))]
    rw [Nat.testBit_eq_decide_div_mod_eq]
    rcases Nat.mod_two_eq_zero_or_one (a / 2 ^ w) with h | h
    · simp [h, natPoly_zero, ih]
    · simp only [h, decide_true, if_true, natPoly_one, one_mul]
      rw [natPoly_xor, ih, Nat.shiftLeft_eq, natPoly_mul_two_pow]
      ring

theorem natPoly_clmul (a b : Nat) : natPoly (clmul a b) = natPoly a * natPoly b := by
  rw [clmul, natPoly_clmulW, Nat.mod_eq_of_lt Nat.lt_log2_self]

end PyModeS.Uplink
