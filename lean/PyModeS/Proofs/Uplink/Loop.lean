/-
  `uplinkLoop` is polynomial long division by `G·x^(n-48)` with quotient collection; on an
  encoded frame the last 24 quotient bits are the address (DESIGN §11.4).
-/
import PyModeS.Proofs.CRC.Poly
import Mathlib.Tactic.LinearCombination
import PyModeS.Proofs.Uplink.Encoder

open Polynomial
namespace PyModeS.Uplink
open PyModeS PyModeS.Spec PyModeS.CRC

/-! ### more `natPoly` algebra -/

theorem natPoly_zero : natPoly 0 = 0 := by rw [natPoly]

theorem natPoly_one : natPoly 1 = 1 := by
  have := natPoly_shift 0 true
  simpa [natPoly_zero, bitZ] using this

theorem natPoly_two_mul_add (s c : Nat) (hc : c ≤ 1) :
    natPoly (2 * s + c) = natPoly s * X + C (c : ZMod 2) := by
  rcases Nat.le_one_iff_eq_zero_or_eq_one.mp hc with h | h <;> subst h
  · have := natPoly_shift s false; simpa [bitZ] using this
  · have := natPoly_shift s true; simpa [bitZ] using this

theorem natPoly_mul_two_pow (s k : Nat) : natPoly (s * 2 ^ k) = natPoly s * X ^ k := by
  induction k with
  | zero => simp
  | succ k ih =>
    have : s * 2 ^ (k + 1) = 2 * (s * 2 ^ k) + 0 := by rw [Nat.pow_succ]; ring
    rw [this, natPoly_two_mul_add _ 0 (by omega), ih, pow_succ]
    simp [mul_assoc]

theorem natPoly_mul_two_pow_add (s k r : Nat) (hr : r < 2 ^ k) :
    natPoly (s * 2 ^ k + r) = natPoly s * X ^ k + natPoly r := by
  have : s * 2 ^ k + r = (s * 2 ^ k) ^^^ r := by
    rw [← Nat.shiftLeft_eq, Nat.shiftLeft_add_eq_or_of_lt hr]
    apply Nat.eq_of_testBit_eq
    intro i
    rw [Nat.testBit_or, Nat.testBit_xor, Nat.testBit_shiftLeft]
    by_cases hi : k ≤ i
    · rw [Nat.testBit_lt_two_pow (Nat.lt_of_lt_of_le hr (Nat.pow_le_pow_right (by decide) hi))]
      simp
    · simp [hi]
  rw [this, natPoly_xor, natPoly_mul_two_pow]

theorem natPoly_add_self (p : Nat) : natPoly p + natPoly p = 0 := by
  rw [← natPoly_xor, Nat.xor_self, natPoly_zero]

theorem lt_two_pow_of_testBit_false {x i : Nat} (h : x < 2 ^ (i + 1)) (hb : x.testBit i = false) :
    x < 2 ^ i := by
  apply Nat.lt_pow_two_of_testBit
  intro j hj
  rcases Nat.eq_or_lt_of_le hj with e | e
  · rw [← e]; exact hb
  · exact Nat.testBit_lt_two_pow (Nat.lt_of_lt_of_le h (Nat.pow_le_pow_right (by decide) e))

theorem and_two_pow_ne_zero (x i : Nat) : (x &&& 2 ^ i ≠ 0) ↔ x.testBit i = true := by
  constructor
  · intro h
    apply Classical.byContradiction
    intro hb
    apply h
    apply Nat.eq_of_testBit_eq
    intro j
    rw [Nat.testBit_and, Nat.testBit_two_pow, Nat.zero_testBit]
    by_cases hij : i = j
    · subst hij; simp; exact Bool.eq_false_iff.mpr hb
    · simp [hij]
  · intro hb h0
    have : (x &&& 2 ^ i).testBit i = true := by
      rw [Nat.testBit_and, Nat.testBit_two_pow, hb]; simp
    rw [h0, Nat.zero_testBit] at this
    exact absurd this (by decide)

/-! ### carry-less multiplication is polynomial multiplication -/

theorem natPoly_clmulW (w a b : Nat) : natPoly (clmulW w a b) = natPoly (a % 2 ^ w) * natPoly b := by
  induction w with
  | zero => simp [clmulW, Nat.mod_one, natPoly_zero]
  | succ w ih =>
    rw [clmulW_succ, Nat.mod_pow_succ, Nat.add_comm, Nat.mul_comm (2 ^ w),
      natPoly_mul_two_pow_add _ _ _ (Nat.mod_lt _ (Nat.pow_pos (by decide)))]
    rw [Nat.testBit_eq_decide_div_mod_eq]
    rcases Nat.mod_two_eq_zero_or_one (a / 2 ^ w) with h | h
    · simp [h, natPoly_zero, ih]
    · simp only [h, decide_true, if_true, natPoly_one, one_mul]
      rw [natPoly_xor, ih, Nat.shiftLeft_eq, natPoly_mul_two_pow]
      ring

theorem natPoly_clmul (a b : Nat) : natPoly (clmul a b) = natPoly a * natPoly b := by
  rw [clmul, natPoly_clmulW, Nat.mod_eq_of_lt Nat.lt_log2_self]

/-! ### the loop invariant -/

/-- the dividend consumed after `k` steps: `D`, then the first `k` bits of `PA ‖ 0 0 0 …` -/
def fedN (D PA k : Nat) : Nat := D * 2 ^ k + PA * 2 ^ k / 2 ^ 24

/-- the divisor: the generator aligned at the top of the `(n-24)`-bit register -/
noncomputable def GX (n : Nat) : (ZMod 2)[X] := Gpoly * X ^ (n - 48)

structure Inv (n D PA k : Nat) (st : Nat × Nat × Nat) (qacc : Nat) : Prop where
  pa : st.2.1 = PA <<< k
  lt : st.1 < 2 ^ (n - 24)
  poly : natPoly st.1 + GX n * natPoly qacc = natPoly (fedN D PA k)
  ad0 : k ≤ n - 25 → st.2.2 = 0
  ad1 : n - 25 ≤ k → ∃ C e, 2 * qacc + st.1 / 2 ^ (n - 25) % 2 = C * 2 ^ (k - (n - 25)) + e ∧
          e < 2 ^ (k - (n - 25)) ∧ st.2.2 = 2 * e

theorem fedN_succ (D PA k : Nat) :
    fedN D PA (k + 1) = 2 * fedN D PA k + ((PA <<< k) >>> 23 &&& 1) := by
  unfold fedN
  rw [Nat.and_one_is_mod, Nat.shiftRight_eq_div_pow, Nat.shiftLeft_eq, Nat.pow_succ,
    ← Nat.mul_assoc, ← Nat.mul_assoc]
  generalize PA * 2 ^ k = x
  generalize D * 2 ^ k = y
  omega

theorem step_data (n data : Nat) (hn : 56 ≤ n) (hlt : data < 2 ^ (n - 24)) :
    let data1 := if data &&& 1 <<< (n - 25) ≠ 0 then data ^^^ G <<< (n - 49) else data
    data1 < 2 ^ (n - 25) ∧
      natPoly data = natPoly data1 + C ((data / 2 ^ (n - 25) % 2 : Nat) : ZMod 2) * (Gpoly * X ^ (n - 49)) := by
  intro data1
  have e24 : n - 24 = (n - 25) + 1 := by omega
  have hq : data.testBit (n - 25) = decide (data / 2 ^ (n - 25) % 2 = 1) :=
    Nat.testBit_eq_decide_div_mod_eq
  by_cases hb : data.testBit (n - 25) = true
  · have hc : data &&& 1 <<< (n - 25) ≠ 0 := by rw [Nat.one_shiftLeft]; exact (and_two_pow_ne_zero _ _).mpr hb
    have hd1 : data1 = data ^^^ G <<< (n - 49) := if_pos hc
    have hq1 : data / 2 ^ (n - 25) % 2 = 1 := by rw [hb] at hq; simpa using hq.symm
    have hp : G <<< (n - 49) < 2 ^ (n - 24) := by
      rw [Nat.shiftLeft_eq]
      have : n - 24 = 25 + (n - 49) := by omega
      rw [this, Nat.pow_add]
      exact Nat.mul_lt_mul_of_pos_right G_lt (Nat.pow_pos (by decide))
    have hpb : (G <<< (n - 49)).testBit (n - 25) = true := by
      rw [Nat.testBit_shiftLeft]
      have : n - 25 - (n - 49) = 24 := by omega
      rw [this, G_testBit_24]; simp; omega
    refine ⟨?_, ?_⟩
    · rw [hd1]
      apply lt_two_pow_of_testBit_false
      · rw [← e24]; exact Nat.xor_lt_two_pow hlt hp
      · rw [Nat.testBit_xor, hb, hpb]; rfl
    · have : data = data1 ^^^ G <<< (n - 49) := by
        rw [hd1, Nat.xor_assoc, Nat.xor_self, Nat.xor_zero]
      conv => lhs; rw [this]
      rw [natPoly_xor, hq1, Nat.shiftLeft_eq, natPoly_mul_two_pow]
      simp [Gpoly]
  · have hb' : data.testBit (n - 25) = false := Bool.eq_false_iff.mpr hb
    have hc : ¬ (data &&& 1 <<< (n - 25) ≠ 0) := by
      rw [Nat.one_shiftLeft]; intro h; exact hb ((and_two_pow_ne_zero _ _).mp h)
    have hd1 : data1 = data := if_neg hc
    have hq0 : data / 2 ^ (n - 25) % 2 = 0 := by
      rw [hb'] at hq
      have := Nat.mod_two_eq_zero_or_one (data / 2 ^ (n - 25))
      rcases this with h | h
      · exact h
      · rw [h] at hq; simp at hq
    refine ⟨?_, ?_⟩
    · rw [hd1]; exact lt_two_pow_of_testBit_false (by rw [← e24]; exact hlt) hb'
    · rw [hd1, hq0]; simp

theorem loop_inv (n D PA : Nat) (hn : 56 ≤ n) (hD : D < 2 ^ (n - 24)) (hPA : PA < 2 ^ 24) :
    ∀ k, ∃ qacc, Inv n D PA k (uplinkLoop n (G <<< (n - 49)) k (D, PA, 0)) qacc := by
  intro k
  induction k with
  | zero =>
    refine ⟨0, ⟨rfl, hD, ?_, fun _ => rfl, fun h => by omega⟩⟩
    simp only [uplinkLoop, fedN, natPoly_zero, mul_zero, add_zero, Nat.pow_zero, Nat.mul_one]
    rw [Nat.div_eq_of_lt hPA, Nat.add_zero]
  | succ k ih =>
    obtain ⟨qacc, inv⟩ := ih
    rcases hst : uplinkLoop n (G <<< (n - 49)) k (D, PA, 0) with ⟨data, pa, ad⟩
    rw [hst] at inv
    obtain ⟨ipa, ilt, ipoly, iad0, iad1⟩ := inv
    dsimp only at ipa ilt ipoly iad0 iad1
    obtain ⟨h1lt, h1poly⟩ := step_data n data hn ilt
    rw [uplinkLoop, hst]
    simp only
    generalize hd1 : (if data &&& 1 <<< (n - 25) ≠ 0 then data ^^^ G <<< (n - 49) else data) = data1
      at h1lt h1poly ⊢
    have hbit : (pa >>> 23 &&& 1) ≤ 1 := by rw [Nat.and_one_is_mod]; omega
    generalize hbitdef : pa >>> 23 &&& 1 = bit at hbit ⊢
    have hd2 : data1 <<< 1 + bit = 2 * data1 + bit := by rw [Nat.shiftLeft_eq]; omega
    rw [hd2]
    have e24 : n - 24 = (n - 25) + 1 := by omega
    have hq : data / 2 ^ (n - 25) % 2 ≤ 1 := by omega
    refine ⟨2 * qacc + data / 2 ^ (n - 25) % 2, ⟨?_, ?_, ?_, ?_, ?_⟩⟩
    · show pa <<< 1 = PA <<< (k + 1)
      rw [ipa, ← Nat.shiftLeft_add]
    · show 2 * data1 + bit < 2 ^ (n - 24)
      rw [e24, Nat.pow_succ]; omega
    · show natPoly (2 * data1 + bit) + GX n * natPoly (2 * qacc + data / 2 ^ (n - 25) % 2)
        = natPoly (fedN D PA (k + 1))
      rw [fedN_succ, ← ipa, hbitdef, natPoly_two_mul_add _ _ hbit, natPoly_two_mul_add _ _ hbit,
        natPoly_two_mul_add _ _ hq, ← ipoly, h1poly]
      have hx : (X : (ZMod 2)[X]) ^ (n - 48) = X ^ (n - 49) * X := by
        rw [← pow_succ]; congr 1; omega
      unfold GX
      rw [hx]
      ring
    · intro hk
      have : ¬ (k + 26 > n) := by omega
      simp only [this, if_false]
      exact iad0 (by omega)
    · intro hk
      by_cases hk' : k + 1 = n - 25
      · have : ¬ (k + 26 > n) := by omega
        simp only [this, if_false]
        have had : ad = 0 := iad0 (by omega)
        refine ⟨2 * (2 * qacc + data / 2 ^ (n - 25) % 2) + (2 * data1 + bit) / 2 ^ (n - 25) % 2, 0, ?_, ?_, ?_⟩
        · rw [hk']; simp
        · exact Nat.pow_pos (by decide)
        · exact had
      · have hge : n - 25 ≤ k := by omega
        have : k + 26 > n := by omega
        simp only [this, if_true]
        obtain ⟨C, e, he1, he2, he3⟩ := iad1 hge
        have et : k + 1 - (n - 25) = (k - (n - 25)) + 1 := by omega
        refine ⟨C, 2 * e + (2 * data1 + bit) / 2 ^ (n - 25) % 2, ?_, ?_, ?_⟩
        · rw [he1, et, Nat.pow_succ, ← Nat.mul_assoc]
          generalize C * 2 ^ (k - (n - 25)) = y
          omega
        · rw [et, Nat.pow_succ]
          generalize 2 ^ (k - (n - 25)) = y at he2
          omega
        · rw [he3, Nat.shiftRight_eq_div_pow, Nat.and_one_is_mod, Nat.shiftLeft_eq]
          omega

/-! ### the quotient on an encoded frame -/

theorem toPoly_append_zeros (l : Bits) (k : Nat) :
    toPoly (l ++ List.replicate k false) = toPoly l * X ^ k := by
  induction k with
  | zero => simp
  | succ k ih =>
    rw [List.replicate_succ', ← List.append_assoc, toPoly_snoc, ih, pow_succ]
    simp [bitZ, mul_assoc]

theorem natPoly_bin2int (l : Bits) : natPoly (bin2int l) = toPoly l := by
  induction l using snoc_induction with
  | nil => simp [bin2int_nil, natPoly_zero, toPoly_nil]
  | snoc l b ih => rw [bin2int_append_single, natPoly_shift, toPoly_snoc, ih]

theorem GX_monic (n : Nat) : (GX n).Monic := Gpoly_monic.mul (monic_X_pow _)

theorem GX_degree (n : Nat) (hn : 48 ≤ n) : (GX n).degree = ((n - 24 : Nat) : WithBot Nat) := by
  unfold GX
  rw [Monic.degree_mul (monic_X_pow _), Gpoly_degree, degree_X_pow]
  have : n - 24 = 24 + (n - 48) := by omega
  rw [this]
  rfl

/-- the full quotient collected by the loop ends with the 24 address bits -/
theorem quotient_low24 (n D P A qacc data : Nat) (hn : 56 ≤ n) (hA : A < 2 ^ 24)
    (hdata : data < 2 ^ (n - 24))
    (hP : natPoly P = (natPoly D * X ^ 24) %ₘ Gpoly)
    (hinv : natPoly data + GX n * natPoly qacc
      = natPoly (fedN D (P ^^^ (clmul A G >>> 24)) n)) :
    qacc % 2 ^ 24 = A := by
  have ha' := clmul_G_shift_lt hA
  generalize ha'def : clmul A G >>> 24 = a' at ha' hinv
  have hPlt : P < 2 ^ 24 := by
    apply Nat.lt_pow_two_of_testBit
    intro i hi
    have hdeg : (natPoly P).degree < 24 := by
      rw [hP]
      have := degree_modByMonic_lt (natPoly D * X ^ 24) Gpoly_monic
      rwa [Gpoly_degree] at this
    have := (degree_lt_iff_coeff_zero _ _).mp hdeg i (by exact_mod_cast hi)
    rw [coeff_natPoly] at this
    revert this
    cases P.testBit i <;> simp [bitZ]
  -- the dividend
  have hfed : fedN D (P ^^^ a') n = (D * 2 ^ 24 + (P ^^^ a')) * 2 ^ (n - 24) := by
    unfold fedN
    have e : (2 : Nat) ^ n = 2 ^ (n - 24) * 2 ^ 24 := by rw [← Nat.pow_add]; congr 1; omega
    have e2 : (P ^^^ a') * (2 ^ (n - 24) * 2 ^ 24) / 2 ^ 24 = (P ^^^ a') * 2 ^ (n - 24) := by
      rw [← Nat.mul_assoc]; exact Nat.mul_div_cancel _ (Nat.pow_pos (by decide))
    rw [e, e2]
    ring
  have hPA : P ^^^ a' < 2 ^ 24 := Nat.xor_lt_two_pow hPlt ha'
  have hfedp : natPoly (fedN D (P ^^^ a') n)
      = (natPoly D * X ^ 24 + (natPoly P + natPoly a')) * (X ^ 24 * X ^ (n - 48)) := by
    rw [hfed, natPoly_mul_two_pow, natPoly_mul_two_pow_add _ _ _ hPA, natPoly_xor, ← pow_add]
    congr 2; omega
  -- T = P + G·QD
  have h1 := modByMonic_add_div (natPoly D * X ^ 24) Gpoly
  rw [← hP] at h1
  -- A·G = a'·x^24 + r
  have hr : clmul A G % 2 ^ 24 < 2 ^ 24 := Nat.mod_lt _ (Nat.pow_pos (by decide))
  have h2 : natPoly A * Gpoly = natPoly a' * X ^ 24 + natPoly (clmul A G % 2 ^ 24) := by
    have : clmul A G = a' * 2 ^ 24 + clmul A G % 2 ^ 24 := by
      rw [← ha'def, Nat.shiftRight_eq_div_pow]; exact (Nat.div_add_mod' _ _).symm
    rw [← natPoly_mul_two_pow_add _ _ _ hr, ← this, natPoly_clmul]; rfl
  generalize clmul A G % 2 ^ 24 = r at hr h2
  have hPP := natPoly_add_self P
  have hrr := natPoly_add_self r
  have key : natPoly (r * 2 ^ (n - 48)) + GX n * ((natPoly D * X ^ 24 /ₘ Gpoly) * X ^ 24 + natPoly A)
      = natPoly (fedN D (P ^^^ a') n) := by
    rw [hfedp, natPoly_mul_two_pow]
    unfold GX
    linear_combination (X ^ 24 * X ^ (n - 48)) * h1 - (X ^ 24 * X ^ (n - 48)) * hPP
      + X ^ (n - 48) * h2 + X ^ (n - 48) * hrr
  have hdeg1 : (natPoly data).degree < (GX n).degree := by
    rw [GX_degree n (by omega)]; exact degree_natPoly_lt hdata
  have hdeg2 : (natPoly (r * 2 ^ (n - 48))).degree < (GX n).degree := by
    rw [GX_degree n (by omega)]
    apply degree_natPoly_lt
    have : n - 24 = 24 + (n - 48) := by omega
    rw [this, Nat.pow_add]
    exact Nat.mul_lt_mul_of_pos_right hr (Nat.pow_pos (by decide))
  have u1 := (div_modByMonic_unique _ _ (GX_monic n) ⟨hinv, hdeg1⟩).1
  have u2 := (div_modByMonic_unique _ _ (GX_monic n) ⟨key, hdeg2⟩).1
  have hq : natPoly qacc = (natPoly D * X ^ 24 /ₘ Gpoly) * X ^ 24 + natPoly A := by rw [← u1, u2]
  -- split qacc at bit 24 and compare remainders modulo x^24
  have hsplit : natPoly qacc = natPoly (qacc / 2 ^ 24) * X ^ 24 + natPoly (qacc % 2 ^ 24) := by
    rw [← natPoly_mul_two_pow_add _ _ _ (Nat.mod_lt _ (Nat.pow_pos (by decide))), Nat.div_add_mod']
  have hX : ((X : (ZMod 2)[X]) ^ 24).degree = 24 := degree_X_pow 24
  have v1 := (div_modByMonic_unique (f := natPoly qacc) (natPoly (qacc / 2 ^ 24)) (natPoly (qacc % 2 ^ 24))
    (monic_X_pow 24) ⟨by rw [hsplit]; ring, by
      rw [hX]; exact degree_natPoly_lt (k := 24) (Nat.mod_lt _ (Nat.pow_pos (by decide)))⟩).2
  have v2 := (div_modByMonic_unique (f := natPoly qacc) (natPoly D * X ^ 24 /ₘ Gpoly) (natPoly A)
    (monic_X_pow 24) ⟨by rw [hq]; ring, by rw [hX]; exact degree_natPoly_lt (k := 24) hA⟩).2
  exact natPoly_injective (by rw [← v1, v2])

/-- DESIGN §11.4: on `data ‖ (parity xor top24(A·G))` the loop returns `A` -/
theorem uplinkLoop_address (d : Bits) (A : Nat) (hA : A < 2 ^ 24) (hd : 32 ≤ d.length) :
    (uplinkLoop (d.length + 24) (G <<< (d.length + 24 - 49)) (d.length + 24)
      (bin2int d, uplinkAP d A, 0)).2.2 >>> 2 = A := by
  have hn : 56 ≤ d.length + 24 := by omega
  have hD : bin2int d < 2 ^ (d.length + 24 - 24) := by
    rw [Nat.add_sub_cancel]; exact bin2int_lt d
  obtain ⟨qacc, inv⟩ := loop_inv (d.length + 24) (bin2int d) (uplinkAP d A) hn hD (uplinkAP_lt d hA)
    (d.length + 24)
  rcases hst : uplinkLoop (d.length + 24) (G <<< (d.length + 24 - 49)) (d.length + 24)
    (bin2int d, uplinkAP d A, 0) with ⟨data, pa, ad⟩
  rw [hst] at inv
  obtain ⟨-, ilt, ipoly, -, iad1⟩ := inv
  dsimp only at ilt ipoly iad1 ⊢
  have hP : natPoly (remH (d ++ List.replicate 24 false)) = (natPoly (bin2int d) * X ^ 24) %ₘ Gpoly := by
    rw [remH_eq_modByMonic, toPoly_append_zeros, natPoly_bin2int]
  have hlow := quotient_low24 (d.length + 24) (bin2int d) _ A qacc data hn hA ilt hP ipoly
  obtain ⟨C, e, he1, he2, he3⟩ := iad1 (by omega)
  have e25 : d.length + 24 - (d.length + 24 - 25) = 25 := by omega
  rw [e25] at he1 he2
  rw [he3, Nat.shiftRight_eq_div_pow]
  omega

/-- `uplink_icao` inverts the Annex 10 uplink encoder -/
theorem uplinkIcao_roundtrip (d : Bits) (A : Nat) (hA : A < 2 ^ 24) (h4 : d.length % 4 = 0)
    (hd : 32 ≤ d.length) : uplinkIcao (uplinkFrame d A) = hex6 A := by
  rw [uplinkIcao_frame d A hA h4 hd, uplinkLoop_address d A hA hd]

end PyModeS.Uplink
