/-
  Helper lemmas for the field decoders of `decoder/uplink.py` (`uf`, `bds`, `pr`, `ic`, `lockout`,
  `uplink_fields`): every byte-mask expression of the model is the value of a bit slice of the
  frame (0-based, half-open `slice a b bits`, MSB first).

  Route: the first `n` bits of the frame have a value `w = bin2int (slice 0 n bits) < 2^n`; every
  slice `[a, b)` with `b ≤ n` has value `w / 2^(n-b) % 2^(b-a)` (`slice_val`); every mask / shift
  expression on a byte `x < 256` is a `/`-`%` expression (finite checks over `0..255`); `omega`
  closes the rest.
-/
import PyModeS.Proofs.Bits
import PyModeS.Proofs.Enum
import PyModeS.Model.Misc
namespace PyModeS.Uplink
open PyModeS

/-! ### values of slices -/

theorem bin2int_app (a b : Bits) : bin2int (a ++ b) = bin2int a * 2 ^ b.length + bin2int b := by
  induction b using snoc_induction with
  | nil => simp [bin2int_nil]
  | snoc b c ih =>
    rw [← List.append_assoc, bin2int_append_single, bin2int_append_single, ih]
    simp only [List.length_append, List.length_singleton, Nat.pow_succ]
    generalize 2 ^ b.length = p
    have : 2 * (bin2int a * p) = bin2int a * (p * 2) := by ac_rfl
    omega

/-- a list is its prefix, a slice and the rest -/
theorem split3 {α} (a b : Nat) (l : List α) (hab : a ≤ b) :
    l = l.take a ++ slice a b l ++ l.drop b := by
  have h1 : l.drop a = (l.drop a).take (b - a) ++ (l.drop a).drop (b - a) := (List.take_append_drop _ _).symm
  have h2 : (l.drop a).drop (b - a) = l.drop b := by
    rw [List.drop_drop]; congr 1; omega
  rw [h2] at h1
  unfold slice
  rw [List.append_assoc, ← h1, List.take_append_drop]

/-- the value of the slice `[a, b)` of a bit string, as digits of the value of the whole string -/
theorem bin2int_slice (l : Bits) (a b : Nat) (hab : a ≤ b) (hb : b ≤ l.length) :
    bin2int (slice a b l) = bin2int l / 2 ^ (l.length - b) % 2 ^ (b - a) := by
  have hs := split3 a b l hab
  have hlen : (slice a b l).length = b - a := slice_length_of_le hb
  have hS : bin2int (slice a b l) < 2 ^ (b - a) := by
    have := bin2int_lt (slice a b l); rwa [hlen] at this
  have hD : bin2int (l.drop b) < 2 ^ (l.length - b) := by
    have := bin2int_lt (l.drop b); rwa [List.length_drop] at this
  have hv : bin2int l = (bin2int (l.take a) * 2 ^ (b - a) + bin2int (slice a b l)) * 2 ^ (l.length - b)
      + bin2int (l.drop b) := by
    conv => lhs; rw [hs]
    rw [bin2int_app, bin2int_app, hlen, List.length_drop]
  rw [hv]
  have hp : 0 < 2 ^ (l.length - b) := Nat.two_pow_pos _
  rw [Nat.add_comm, Nat.add_mul_div_right _ _ hp, Nat.div_eq_of_lt hD, Nat.zero_add,
    Nat.add_comm, Nat.add_mul_mod_self_right, Nat.mod_eq_of_lt hS]

theorem slice_of_prefix {α} (a b n : Nat) (l : List α) (hb : b ≤ n) :
    slice a b (slice 0 n l) = slice a b l := by
  simp only [slice, List.drop_zero, Nat.sub_zero, List.drop_take, List.take_take]
  congr 1
  omega

/-- the value of a slice inside the first `n` bits, as digits of the value of those `n` bits -/
theorem slice_val (bits : Bits) (n : Nat) (hn : n ≤ bits.length) (a b : Nat) (hab : a ≤ b) (hb : b ≤ n) :
    bin2int (slice a b bits) = bin2int (slice 0 n bits) / 2 ^ (n - b) % 2 ^ (b - a) := by
  have hl : (slice 0 n bits).length = n := by rw [slice_length_of_le hn]; omega
  rw [← slice_of_prefix a b n bits hb, bin2int_slice _ a b hab (by omega), hl]

theorem prefix_lt (bits : Bits) (n : Nat) : bin2int (slice 0 n bits) < 2 ^ n := by
  have h := bin2int_lt (slice 0 n bits)
  have hl : (slice 0 n bits).length ≤ n := by simp [slice]; omega
  exact Nat.lt_of_lt_of_le h (Nat.pow_le_pow_right (by omega) hl)

/-- a one-bit slice is the bit -/
theorem slice_one (bits : Bits) (i : Nat) (hi : i < bits.length) :
    bin2int (slice i (i + 1) bits) = (bits.getD i false).toNat := by
  have e : slice i (i + 1) bits = [bits[i]] := by
    simp only [slice, Nat.add_sub_cancel_left]
    rw [List.drop_eq_getElem_cons hi, List.take_succ_cons, List.take_zero]
  rw [e]
  simp [bin2int, List.getD, hi]

theorem bit_set_iff (bits : Bits) (i : Nat) (hi : i < bits.length) :
    bin2int (slice i (i + 1) bits) = 1 ↔ bits[i]? = some true := by
  rw [slice_one bits i hi]
  simp only [List.getD, List.getElem?_eq_getElem hi, Option.getD_some, Option.some.injEq]
  cases bits[i] <;> simp

/-! ### masks and shifts of a byte are digits (finite checks over `0 .. 255`) -/

theorem byte_masks :
    (List.range 256).all (fun x =>
      x &&& 0x7 == x % 8 && (x >>> 3) &&& 0x1F == x / 8 && x &&& 0x0F == x % 16 &&
      (x &&& 0x1) <<< 3 == x % 2 * 8 && (x &&& 0xE0) >>> 5 == x / 32 &&
      (x >>> 4) &&& 0xF == x / 16 && (x >>> 2) &&& 0x3F == x / 4 &&
      (x &&& 0x40) >>> 6 == x / 64 % 2 && (x &&& 0x2) >>> 1 == x / 2 % 2 &&
      (x &&& 0x7) <<< 1 == x % 8 * 2 && (x &&& 0x80) >>> 7 == x / 128 &&
      (x >>> 3) &&& 0xF == x / 8 % 16) = true := by
  decide +kernel

theorem or_disjoint :
    (List.range 128).all (fun k => (k / 8 * 8) ||| (k % 8) == k) = true ∧
    (List.range 32).all (fun k => (k / 2 * 2) ||| (k % 2) == k) = true := by
  decide +kernel

section masks
variable {x : Nat} (hx : x < 256)
include hx

private theorem bm :
    (((((((((((x &&& 0x7 = x % 8 ∧ (x >>> 3) &&& 0x1F = x / 8) ∧ x &&& 0x0F = x % 16) ∧
      (x &&& 0x1) <<< 3 = x % 2 * 8) ∧ (x &&& 0xE0) >>> 5 = x / 32) ∧
      (x >>> 4) &&& 0xF = x / 16) ∧ (x >>> 2) &&& 0x3F = x / 4) ∧
      (x &&& 0x40) >>> 6 = x / 64 % 2) ∧ (x &&& 0x2) >>> 1 = x / 2 % 2) ∧
      (x &&& 0x7) <<< 1 = x % 8 * 2) ∧ (x &&& 0x80) >>> 7 = x / 128) ∧
      (x >>> 3) &&& 0xF = x / 8 % 16) := by
  have := all_range_imp byte_masks x hx
  simp only [Bool.and_eq_true, beq_iff_eq] at this
  exact this

theorem and7 : x &&& 0x7 = x % 8 := (bm hx).1.1.1.1.1.1.1.1.1.1.1
theorem shr3_and1F : (x >>> 3) &&& 0x1F = x / 8 := (bm hx).1.1.1.1.1.1.1.1.1.1.2
theorem and0F : x &&& 0x0F = x % 16 := (bm hx).1.1.1.1.1.1.1.1.1.2
theorem and1_shl3 : (x &&& 0x1) <<< 3 = x % 2 * 8 := (bm hx).1.1.1.1.1.1.1.1.2
theorem andE0_shr5 : (x &&& 0xE0) >>> 5 = x / 32 := (bm hx).1.1.1.1.1.1.1.2
theorem shr4_andF : (x >>> 4) &&& 0xF = x / 16 := (bm hx).1.1.1.1.1.1.2
theorem shr2_and3F : (x >>> 2) &&& 0x3F = x / 4 := (bm hx).1.1.1.1.1.2
theorem and40_shr6 : (x &&& 0x40) >>> 6 = x / 64 % 2 := (bm hx).1.1.1.1.2
theorem and2_shr1 : (x &&& 0x2) >>> 1 = x / 2 % 2 := (bm hx).1.1.1.2
theorem and7_shl1 : (x &&& 0x7) <<< 1 = x % 8 * 2 := (bm hx).1.1.2
theorem and80_shr7 : (x &&& 0x80) >>> 7 = x / 128 := (bm hx).1.2
theorem shr3_andF : (x >>> 3) &&& 0xF = x / 8 % 16 := (bm hx).2
end masks

theorem or8 {a c : Nat} (ha : a < 16) (hc : c < 8) : (a * 8) ||| c = a * 8 + c := by
  have := all_range_imp or_disjoint.1 (a * 8 + c) (by omega)
  simp only [beq_iff_eq] at this
  have h1 : (a * 8 + c) / 8 = a := by omega
  have h2 : (a * 8 + c) % 8 = c := by omega
  rwa [h1, h2] at this

theorem or2 {a c : Nat} (ha : a < 16) (hc : c < 2) : (a * 2) ||| c = a * 2 + c := by
  have := all_range_imp or_disjoint.2 (a * 2 + c) (by omega)
  simp only [beq_iff_eq] at this
  have h1 : (a * 2 + c) / 2 = a := by omega
  have h2 : (a * 2 + c) % 2 = c := by omega
  rwa [h1, h2] at this

/-! ### the bytes of the model -/

theorem byteAt_lt (bits : Bits) (i : Nat) : byteAt bits i < 256 := by
  unfold byteAt
  have h := bin2int_lt (slice (8 * i) (8 * i + 8) bits)
  have hl : (slice (8 * i) (8 * i + 8) bits).length ≤ 8 := by simp [slice]; omega
  exact Nat.lt_of_lt_of_le h (Nat.pow_le_pow_right (by omega) hl)

theorem byteAt0 (bits : Bits) : byteAt bits 0 = bin2int (slice 0 8 bits) := rfl
theorem byteAt1 (bits : Bits) : byteAt bits 1 = bin2int (slice 8 16 bits) := rfl
theorem byteAt2 (bits : Bits) : byteAt bits 2 = bin2int (slice 16 24 bits) := rfl
theorem byteAt3 (bits : Bits) : byteAt bits 3 = bin2int (slice 24 32 bits) := rfl

/-! ### each mask expression of `uplink.py` is a bit field (Annex 10 numbering minus one)

  `h16`/`h32`: the frame has at least 16 / 32 bits (56- and 112-bit interrogations do). -/

section fields
variable (bits : Bits)

/-- DI (roll-call) / CL (UF 11): bits 13–15 -/
theorem di_eq_field (h : 16 ≤ bits.length) : byteAt bits 1 &&& 0x7 = bin2int (slice 13 16 bits) := by
  rw [and7 (byteAt_lt _ _), byteAt1, slice_val bits 16 h 8 16 (by omega) (by omega),
    slice_val bits 16 h 13 16 (by omega) (by omega)]
  have := prefix_lt bits 16
  omega

/-- RR: bits 8–12 -/
theorem rr_eq_field (h : 16 ≤ bits.length) :
    (byteAt bits 1 >>> 3) &&& 0x1F = bin2int (slice 8 13 bits) := by
  rw [shr3_and1F (byteAt_lt _ _), byteAt1, slice_val bits 16 h 8 16 (by omega) (by omega),
    slice_val bits 16 h 8 13 (by omega) (by omega)]
  have := prefix_lt bits 16
  omega

/-- IC field of UF 11: bits 9–12 -/
theorem ic11_eq_field (h : 16 ≤ bits.length) :
    (byteAt bits 1 >>> 3) &&& 0xF = bin2int (slice 9 13 bits) := by
  rw [shr3_andF (byteAt_lt _ _), byteAt1, slice_val bits 16 h 8 16 (by omega) (by omega),
    slice_val bits 16 h 9 13 (by omega) (by omega)]
  have := prefix_lt bits 16
  omega

/-- PR of UF 11: bits 5–8 (straddles bytes 0 and 1) -/
theorem pr_eq_field (h : 16 ≤ bits.length) :
    ((byteAt bits 0 &&& 0x7) <<< 1) ||| ((byteAt bits 1 &&& 0x80) >>> 7) = bin2int (slice 5 9 bits) := by
  have h0 := byteAt_lt bits 0
  have h1 := byteAt_lt bits 1
  rw [and7_shl1 h0, and80_shr7 h1, or2 (by omega) (by omega), byteAt0, byteAt1,
    slice_val bits 16 h 0 8 (by omega) (by omega), slice_val bits 16 h 8 16 (by omega) (by omega),
    slice_val bits 16 h 5 9 (by omega) (by omega)]
  have := prefix_lt bits 16
  omega

/-- RRS when DI = 7: bits 20–23 -/
theorem rrs7_eq_field (h : 32 ≤ bits.length) : byteAt bits 2 &&& 0x0F = bin2int (slice 20 24 bits) := by
  rw [and0F (byteAt_lt _ _), byteAt2, slice_val bits 32 h 16 24 (by omega) (by omega),
    slice_val bits 32 h 20 24 (by omega) (by omega)]
  have := prefix_lt bits 32
  omega

/-- RRS when DI = 3: bits 23–26 (straddles bytes 2 and 3) -/
theorem rrs3_eq_field (h : 32 ≤ bits.length) :
    ((byteAt bits 2 &&& 0x1) <<< 3) ||| ((byteAt bits 3 &&& 0xE0) >>> 5) = bin2int (slice 23 27 bits) := by
  have h2 := byteAt_lt bits 2
  have h3 := byteAt_lt bits 3
  rw [and1_shl3 h2, andE0_shr5 h3, or8 (by omega) (by omega), byteAt2, byteAt3,
    slice_val bits 32 h 16 24 (by omega) (by omega), slice_val bits 32 h 24 32 (by omega) (by omega),
    slice_val bits 32 h 23 27 (by omega) (by omega)]
  have := prefix_lt bits 32
  omega

/-- IIS (DI = 0, 1, 7): bits 16–19 -/
theorem iis_eq_field (h : 32 ≤ bits.length) :
    (byteAt bits 2 >>> 4) &&& 0xF = bin2int (slice 16 20 bits) := by
  rw [shr4_andF (byteAt_lt _ _), byteAt2, slice_val bits 32 h 16 24 (by omega) (by omega),
    slice_val bits 32 h 16 20 (by omega) (by omega)]
  have := prefix_lt bits 32
  omega

/-- SIS (DI = 3): bits 16–21 -/
theorem sis_eq_field (h : 32 ≤ bits.length) :
    (byteAt bits 2 >>> 2) &&& 0x3F = bin2int (slice 16 22 bits) := by
  rw [shr2_and3F (byteAt_lt _ _), byteAt2, slice_val bits 32 h 16 24 (by omega) (by omega),
    slice_val bits 32 h 16 22 (by omega) (by omega)]
  have := prefix_lt bits 32
  omega

/-- LOS (DI = 1, 7): bit 25 -/
theorem los_eq_field (h : 32 ≤ bits.length) :
    (byteAt bits 3 &&& 0x40) >>> 6 = bin2int (slice 25 26 bits) := by
  rw [and40_shr6 (byteAt_lt _ _), byteAt3, slice_val bits 32 h 24 32 (by omega) (by omega),
    slice_val bits 32 h 25 26 (by omega) (by omega)]
  have := prefix_lt bits 32
  omega

/-- LSS (DI = 3): bit 22 -/
theorem lss_eq_field (h : 32 ≤ bits.length) :
    (byteAt bits 2 &&& 0x2) >>> 1 = bin2int (slice 22 23 bits) := by
  rw [and2_shr1 (byteAt_lt _ _), byteAt2, slice_val bits 32 h 16 24 (by omega) (by omega),
    slice_val bits 32 h 22 23 (by omega) (by omega)]
  have := prefix_lt bits 32
  omega

theorem los_iff_bit (h : 32 ≤ bits.length) :
    (byteAt bits 3 &&& 0x40) >>> 6 = 1 ↔ bits[25]? = some true := by
  rw [los_eq_field bits h]; exact bit_set_iff bits 25 (by omega)

theorem lss_iff_bit (h : 32 ≤ bits.length) :
    (byteAt bits 2 &&& 0x2) >>> 1 = 1 ↔ bits[22]? = some true := by
  rw [lss_eq_field bits h]; exact bit_set_iff bits 22 (by omega)

theorem los_decide (h : 32 ≤ bits.length) :
    decide ((byteAt bits 3 &&& 0x40) >>> 6 = 1) = bits.getD 25 false := by
  rw [los_eq_field bits h, slice_one bits 25 (by omega)]
  cases bits.getD 25 false <;> simp

theorem lss_decide (h : 32 ≤ bits.length) :
    decide ((byteAt bits 2 &&& 0x2) >>> 1 = 1) = bits.getD 22 false := by
  rw [lss_eq_field bits h, slice_one bits 22 (by omega)]
  cases bits.getD 22 false <;> simp

end fields

/-! ### frames with a built 32-bit header -/

theorem slice_append_left {α} (a b : Nat) (l r : List α) (hb : b ≤ l.length) :
    slice a b (l ++ r) = slice a b l := by
  simp only [slice]
  by_cases ha : a ≤ l.length
  · rw [List.drop_append_of_le_length ha, List.take_append_of_le_length (by simp; omega)]
  · have h1 : b - a = 0 := by omega
    simp [h1]

/-- value of the 32-bit header `UF:5 PC:3 RR:5 DI:3 SD:16` -/
theorem header_val (uf pc rr di sd : Nat) (huf : uf < 32) (hpc : pc < 8) (hrr : rr < 32) (hdi : di < 8)
    (hsd : sd < 65536) :
    bin2int (build [(5, uf), (3, pc), (5, rr), (3, di), (16, sd)]) =
      (((uf * 8 + pc) * 32 + rr) * 8 + di) * 65536 + sd := by
  simp only [build, bin2int_app, List.append_nil, List.length_append, natToBits_length,
    bin2int_natToBits_of_lt (show uf < 2 ^ 5 by omega), bin2int_natToBits_of_lt (show pc < 2 ^ 3 by omega),
    bin2int_natToBits_of_lt (show rr < 2 ^ 5 by omega), bin2int_natToBits_of_lt (show di < 2 ^ 3 by omega),
    bin2int_natToBits_of_lt (show sd < 2 ^ 16 by omega)]
  omega

/-- every slice inside a built prefix, as digits of the value of that prefix -/
theorem build_slice (fs : List (Nat × Nat)) (rest : Bits) (a b : Nat) (hab : a ≤ b)
    (hb : b ≤ (build fs).length) :
    bin2int (slice a b (build fs ++ rest)) =
      bin2int (build fs) / 2 ^ ((build fs).length - b) % 2 ^ (b - a) := by
  rw [slice_append_left a b _ rest hb, bin2int_slice _ a b hab hb]

/-- every slice inside the header of `build [UF, PC, RR, DI, SD] ++ rest` as digits of the fields -/
theorem header_slice (uf pc rr di sd : Nat) (huf : uf < 32) (hpc : pc < 8) (hrr : rr < 32) (hdi : di < 8)
    (hsd : sd < 65536) (rest : Bits) (a b : Nat) (hab : a ≤ b) (hb : b ≤ 32) :
    bin2int (slice a b (build [(5, uf), (3, pc), (5, rr), (3, di), (16, sd)] ++ rest)) =
      ((((uf * 8 + pc) * 32 + rr) * 8 + di) * 65536 + sd) / 2 ^ (32 - b) % 2 ^ (b - a) := by
  have hl : (build [(5, uf), (3, pc), (5, rr), (3, di), (16, sd)]).length = 32 := by
    simp [build_length]
  rw [build_slice _ rest a b hab (by omega), hl, header_val uf pc rr di sd huf hpc hrr hdi hsd]

/-- a bit of the frame, read as a one-bit field -/
theorem getD_eq_decide (bits : Bits) (i : Nat) (hi : i < bits.length) :
    bits.getD i false = decide (bin2int (slice i (i + 1) bits) = 1) := by
  rw [slice_one bits i hi]
  cases bits.getD i false <;> simp

end PyModeS.Uplink
