/- Core lemmas on bit strings: `natToBits`, `bin2int`, `slice`, `build`. -/
import PyModeS.Basic
namespace PyModeS

theorem natToBitsA_eq (w v : Nat) (acc : Bits) : natToBitsA w v acc = natToBitsA w v [] ++ acc := by
  induction w generalizing v acc with
  | zero => simp [natToBitsA]
  | succ w ih =>
    simp only [natToBitsA]
    rw [ih (v / 2) ((v % 2 == 1) :: acc), ih (v / 2) [(v % 2 == 1)]]
    simp

theorem natToBits_zero (v : Nat) : natToBits 0 v = [] := rfl

theorem natToBits_succ (w v : Nat) : natToBits (w + 1) v = natToBits w (v / 2) ++ [v % 2 == 1] := by
  unfold natToBits
  simp only [natToBitsA]
  rw [natToBitsA_eq]

@[simp] theorem natToBits_length (w v : Nat) : (natToBits w v).length = w := by
  induction w generalizing v with
  | zero => rfl
  | succ w ih => rw [natToBits_succ]; simp [ih]

theorem bin2int_append_single (l : Bits) (b : Bool) : bin2int (l ++ [b]) = 2 * bin2int l + b.toNat := by
  simp [bin2int, List.foldl_append]

theorem bin2int_nil : bin2int [] = 0 := rfl

theorem bin2int_natToBits (w v : Nat) : bin2int (natToBits w v) = v % 2 ^ w := by
  induction w generalizing v with
  | zero => simp [natToBits_zero, bin2int_nil, Nat.mod_one]
  | succ w ih =>
    rw [natToBits_succ, bin2int_append_single, ih]
    have h2 : (v % 2 == 1).toNat = v % 2 := by
      rcases Nat.mod_two_eq_zero_or_one v with h | h <;> simp [h]
    rw [h2, Nat.pow_succ, Nat.mul_comm (2 ^ w) 2, Nat.mod_mul]
    omega

theorem bin2int_natToBits_of_lt {w v : Nat} (h : v < 2 ^ w) : bin2int (natToBits w v) = v := by
  rw [bin2int_natToBits, Nat.mod_eq_of_lt h]

theorem snoc_induction {α} {P : List α → Prop} (nil : P [])
    (snoc : ∀ l a, P l → P (l ++ [a])) : ∀ l, P l := by
  intro l
  have : ∀ n, ∀ l : List α, l.length = n → P l := by
    intro n
    induction n with
    | zero =>
      intro l h
      have : l = [] := List.eq_nil_of_length_eq_zero h
      subst this; exact nil
    | succ n ih =>
      intro l h
      have hne : l ≠ [] := by intro h0; simp [h0] at h
      rw [← List.dropLast_concat_getLast hne]
      apply snoc; apply ih; simp [h]
  exact this _ l rfl

theorem bin2int_lt (l : Bits) : bin2int l < 2 ^ l.length := by
  induction l using snoc_induction with
  | nil => simp [bin2int_nil]
  | snoc l b ih =>
    rw [bin2int_append_single]
    simp only [List.length_append, List.length_singleton, Nat.pow_succ]
    cases b <;> simp <;> omega

theorem natToBits_bin2int (l : Bits) : natToBits l.length (bin2int l) = l := by
  induction l using snoc_induction with
  | nil => rfl
  | snoc l b ih =>
    rw [bin2int_append_single]
    simp only [List.length_append, List.length_singleton]
    rw [natToBits_succ]
    have h1 : (2 * bin2int l + b.toNat) / 2 = bin2int l := by cases b <;> simp <;> omega
    have h2 : ((2 * bin2int l + b.toNat) % 2 == 1) = b := by cases b <;> simp <;> omega
    rw [h1, h2, ih]

/-- every bit string is the `natToBits` of its value -/
theorem exists_natToBits (l : Bits) : ∃ v, v < 2 ^ l.length ∧ l = natToBits l.length v :=
  ⟨bin2int l, bin2int_lt l, (natToBits_bin2int l).symm⟩

theorem bin2intR_eq {l : Bits} (h : l ≠ []) : bin2intR l = .val (bin2int l) := by
  unfold bin2intR
  cases l with
  | nil => exact absurd rfl h
  | cons a t => simp

theorem bin2intR_of_length {l : Bits} (h : 0 < l.length) : bin2intR l = .val (bin2int l) :=
  bin2intR_eq (by intro h0; simp [h0] at h)

/-! ### slices -/

@[simp] theorem slice_length {α} (a b : Nat) (l : List α) : (slice a b l).length = min (b - a) (l.length - a) := by
  simp [slice]

theorem slice_length_of_le {α} {a b : Nat} {l : List α} (h : b ≤ l.length) : (slice a b l).length = b - a := by
  simp [slice]; omega

theorem slice_append_mid {α} (pre f post : List α) :
    slice pre.length (pre.length + f.length) (pre ++ f ++ post) = f := by
  simp [slice, List.append_assoc]

theorem slice_drop {α} (a b k : Nat) (l : List α) : slice a b (l.drop k) = slice (k + a) (k + b) l := by
  simp [slice, List.drop_drop]
  congr 1 <;> omega

theorem idxR_eq {α} {l : List α} {i : Nat} (h : i < l.length) : idxR l i = .val l[i] := by
  simp [idxR, h]

/-! ### build / offset -/

theorem build_length (fs : List (Nat × Nat)) : (build fs).length = (fs.map (·.1)).sum := by
  induction fs with
  | nil => rfl
  | cons f fs ih => obtain ⟨w, v⟩ := f; simp [build, ih]

/-- the slice of `build fs` at field `i` is that field's bits -/
theorem slice_build (fs : List (Nat × Nat)) (i : Nat) (h : i < fs.length) :
    slice (offset fs i) (offset fs i + (fs[i]).1) (build fs) = natToBits (fs[i]).1 (fs[i]).2 := by
  induction fs generalizing i with
  | nil => simp at h
  | cons f fs ih =>
    obtain ⟨w, v⟩ := f
    cases i with
    | zero =>
      simp only [offset, build, List.getElem_cons_zero]
      have := slice_append_mid ([] : Bits) (natToBits w v) (build fs)
      simpa using this
    | succ i =>
      simp only [offset, build, List.getElem_cons_succ]
      have hi : i < fs.length := by simpa using h
      have := ih i hi
      simp only [slice] at this ⊢
      rw [List.drop_append]
      simp only [natToBits_length]
      have h1 : List.drop (w + offset fs i) (natToBits w v) = [] := by
        apply List.drop_eq_nil_of_le; simp
      rw [h1]
      simp only [List.nil_append]
      have h2 : w + offset fs i - w = offset fs i := by omega
      rw [h2]
      have h3 : w + offset fs i + fs[i].1 - (w + offset fs i) = offset fs i + fs[i].1 - offset fs i := by omega
      rw [h3]
      exact this

end PyModeS
