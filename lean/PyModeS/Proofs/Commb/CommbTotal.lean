/-
  Totality of every Comm-B function of Model/Commb.lean on 112-bit frames: each returns a value
  (never RuntimeError, never another exception), for any bit content.
-/
import PyModeS.Proofs.Commb.Fields
import PyModeS.Proofs.Commb.AdsbTotal
namespace PyModeS.Tot

/-- table facts the Comm-B text decoders rely on (break when the source tables change) -/
theorem cs20Chars_length : Tables.cs20Chars.length = 64 := by decide
theorem cap17All_length : Tables.cap17All.length = 24 := by decide

/-- rewrite `dataR`/`allzerosB` of a 112-bit frame and every in-range read of the MB field `d` -/
macro "tot_commb" h:ident : tactic =>
  `(tactic| (
      simp only [dataR_112 _ $h:ident, allzerosB_112 _ $h:ident, Res.bind_val]
      have hd := slice_32_88_length $h:ident
      generalize slice 32 88 _ = d at hd ⊢
      simp (disch := omega) only [idxR_val hd, bin2intR_slice_val hd, Res.bind_val, Res.pure_eq]))

theorem ovc10_isVal (bits : Bits) (h : bits.length = 112) : (ovc10 bits).isVal = true := by
  unfold ovc10; tot_commb h; tot_isVal

theorem is10_isVal (bits : Bits) (h : bits.length = 112) : (is10 bits).isVal = true := by
  unfold is10; tot_commb h; tot_isVal

theorem selalt40mcp_isVal (bits : Bits) (h : bits.length = 112) : (selalt40mcp bits).isVal = true := by
  unfold selalt40mcp
  simp only [dataR_112 _ h, Res.bind_val]
  exact ufield_isVal _ (slice_32_88_length h) _ _ _ _ _ (by omega) (by omega) (by omega)

theorem selalt40fms_isVal (bits : Bits) (h : bits.length = 112) : (selalt40fms bits).isVal = true := by
  unfold selalt40fms
  simp only [dataR_112 _ h, Res.bind_val]
  exact ufield_isVal _ (slice_32_88_length h) _ _ _ _ _ (by omega) (by omega) (by omega)

theorem p40baro_isVal (bits : Bits) (h : bits.length = 112) : (p40baro bits).isVal = true := by
  unfold p40baro
  simp only [dataR_112 _ h, Res.bind_val]
  exact ufield_isVal _ (slice_32_88_length h) _ _ _ _ _ (by omega) (by omega) (by omega)

theorem p44_isVal (bits : Bits) (h : bits.length = 112) : (p44 bits).isVal = true := by
  unfold p44
  simp only [dataR_112 _ h, Res.bind_val]
  exact ufield_isVal _ (slice_32_88_length h) _ _ _ _ _ (by omega) (by omega) (by omega)

theorem hum44_isVal (bits : Bits) (h : bits.length = 112) : (hum44 bits).isVal = true := by
  unfold hum44
  simp only [dataR_112 _ h, Res.bind_val]
  exact ufield_isVal _ (slice_32_88_length h) _ _ _ _ _ (by omega) (by omega) (by omega)

theorem turb44_isVal (bits : Bits) (h : bits.length = 112) : (turb44 bits).isVal = true := by
  unfold turb44
  simp only [dataR_112 _ h, Res.bind_val]
  exact ufield_isVal _ (slice_32_88_length h) _ _ _ _ _ (by omega) (by omega) (by omega)

theorem turb45_isVal (bits : Bits) (h : bits.length = 112) : (turb45 bits).isVal = true := by
  unfold turb45
  simp only [dataR_112 _ h, Res.bind_val]
  exact ufield_isVal _ (slice_32_88_length h) _ _ _ _ _ (by omega) (by omega) (by omega)

theorem ws45_isVal (bits : Bits) (h : bits.length = 112) : (ws45 bits).isVal = true := by
  unfold ws45
  simp only [dataR_112 _ h, Res.bind_val]
  exact ufield_isVal _ (slice_32_88_length h) _ _ _ _ _ (by omega) (by omega) (by omega)

theorem mb45_isVal (bits : Bits) (h : bits.length = 112) : (mb45 bits).isVal = true := by
  unfold mb45
  simp only [dataR_112 _ h, Res.bind_val]
  exact ufield_isVal _ (slice_32_88_length h) _ _ _ _ _ (by omega) (by omega) (by omega)

theorem ic45_isVal (bits : Bits) (h : bits.length = 112) : (ic45 bits).isVal = true := by
  unfold ic45
  simp only [dataR_112 _ h, Res.bind_val]
  exact ufield_isVal _ (slice_32_88_length h) _ _ _ _ _ (by omega) (by omega) (by omega)

theorem wv45_isVal (bits : Bits) (h : bits.length = 112) : (wv45 bits).isVal = true := by
  unfold wv45
  simp only [dataR_112 _ h, Res.bind_val]
  exact ufield_isVal _ (slice_32_88_length h) _ _ _ _ _ (by omega) (by omega) (by omega)

theorem p45_isVal (bits : Bits) (h : bits.length = 112) : (p45 bits).isVal = true := by
  unfold p45
  simp only [dataR_112 _ h, Res.bind_val]
  exact ufield_isVal _ (slice_32_88_length h) _ _ _ _ _ (by omega) (by omega) (by omega)

theorem rh45_isVal (bits : Bits) (h : bits.length = 112) : (rh45 bits).isVal = true := by
  unfold rh45
  simp only [dataR_112 _ h, Res.bind_val]
  exact ufield_isVal _ (slice_32_88_length h) _ _ _ _ _ (by omega) (by omega) (by omega)

theorem gs50_isVal (bits : Bits) (h : bits.length = 112) : (gs50 bits).isVal = true := by
  unfold gs50
  simp only [dataR_112 _ h, Res.bind_val]
  exact ufield_isVal _ (slice_32_88_length h) _ _ _ _ _ (by omega) (by omega) (by omega)

theorem tas50_isVal (bits : Bits) (h : bits.length = 112) : (tas50 bits).isVal = true := by
  unfold tas50
  simp only [dataR_112 _ h, Res.bind_val]
  exact ufield_isVal _ (slice_32_88_length h) _ _ _ _ _ (by omega) (by omega) (by omega)

theorem ias53_isVal (bits : Bits) (h : bits.length = 112) : (ias53 bits).isVal = true := by
  unfold ias53
  simp only [dataR_112 _ h, Res.bind_val]
  exact ufield_isVal _ (slice_32_88_length h) _ _ _ _ _ (by omega) (by omega) (by omega)

theorem mach53_isVal (bits : Bits) (h : bits.length = 112) : (mach53 bits).isVal = true := by
  unfold mach53
  simp only [dataR_112 _ h, Res.bind_val]
  exact ufield_isVal _ (slice_32_88_length h) _ _ _ _ _ (by omega) (by omega) (by omega)

theorem tas53_isVal (bits : Bits) (h : bits.length = 112) : (tas53 bits).isVal = true := by
  unfold tas53
  simp only [dataR_112 _ h, Res.bind_val]
  exact ufield_isVal _ (slice_32_88_length h) _ _ _ _ _ (by omega) (by omega) (by omega)

theorem ias60_isVal (bits : Bits) (h : bits.length = 112) : (ias60 bits).isVal = true := by
  unfold ias60
  simp only [dataR_112 _ h, Res.bind_val]
  exact ufield_isVal _ (slice_32_88_length h) _ _ _ _ _ (by omega) (by omega) (by omega)

theorem mach60_isVal (bits : Bits) (h : bits.length = 112) : (mach60 bits).isVal = true := by
  unfold mach60
  simp only [dataR_112 _ h, Res.bind_val]
  exact ufield_isVal _ (slice_32_88_length h) _ _ _ _ _ (by omega) (by omega) (by omega)

theorem roll50_isVal (bits : Bits) (h : bits.length = 112) : (roll50 bits).isVal = true := by
  unfold roll50
  simp only [dataR_112 _ h, Res.bind_val]
  exact sfield_isVal _ (slice_32_88_length h) _ _ _ _ _ (by omega) (by omega) (by omega) (by omega)

theorem rtrk50_isVal (bits : Bits) (h : bits.length = 112) : (rtrk50 bits).isVal = true := by
  unfold rtrk50
  simp only [dataR_112 _ h, Res.bind_val]
  exact sfield_isVal _ (slice_32_88_length h) _ _ _ _ _ (by omega) (by omega) (by omega) (by omega)

theorem vr53_isVal (bits : Bits) (h : bits.length = 112) : (vr53 bits).isVal = true := by
  unfold vr53
  simp only [dataR_112 _ h, Res.bind_val]
  exact sfield_isVal _ (slice_32_88_length h) _ _ _ _ _ (by omega) (by omega) (by omega) (by omega)

theorem vr60baro_isVal (bits : Bits) (h : bits.length = 112) : (vr60baro bits).isVal = true := by
  unfold vr60baro
  simp only [dataR_112 _ h, Res.bind_val]
  exact sfield_isVal _ (slice_32_88_length h) _ _ _ _ _ (by omega) (by omega) (by omega) (by omega)

theorem vr60ins_isVal (bits : Bits) (h : bits.length = 112) : (vr60ins bits).isVal = true := by
  unfold vr60ins
  simp only [dataR_112 _ h, Res.bind_val]
  exact sfield_isVal _ (slice_32_88_length h) _ _ _ _ _ (by omega) (by omega) (by omega) (by omega)

theorem trk50_isVal (bits : Bits) (h : bits.length = 112) : (trk50 bits).isVal = true := by
  unfold trk50
  simp only [dataR_112 _ h, Res.bind_val]
  apply Res.bind_isVal'
  · exact sfield_isVal _ (slice_32_88_length h) _ _ _ _ _ (by omega) (by omega) (by omega) (by omega)
  · intro _; rfl

theorem hdg53_isVal (bits : Bits) (h : bits.length = 112) : (hdg53 bits).isVal = true := by
  unfold hdg53
  simp only [dataR_112 _ h, Res.bind_val]
  apply Res.bind_isVal'
  · exact sfield_isVal _ (slice_32_88_length h) _ _ _ _ _ (by omega) (by omega) (by omega) (by omega)
  · intro _; rfl

theorem hdg60_isVal (bits : Bits) (h : bits.length = 112) : (hdg60 bits).isVal = true := by
  unfold hdg60
  simp only [dataR_112 _ h, Res.bind_val]
  apply Res.bind_isVal'
  · exact sfield_isVal _ (slice_32_88_length h) _ _ _ _ _ (by omega) (by omega) (by omega) (by omega)
  · intro _; rfl

theorem wind44_isVal (bits : Bits) (h : bits.length = 112) : (wind44 bits).isVal = true := by
  unfold wind44; tot_commb h; tot_isVal

theorem temp44_isVal (bits : Bits) (h : bits.length = 112) : (temp44 bits).isVal = true := by
  unfold temp44; tot_commb h; tot_isVal

theorem temp45_isVal (bits : Bits) (h : bits.length = 112) : (temp45 bits).isVal = true := by
  unfold temp45; tot_commb h; tot_isVal

theorem cap17_isVal (bits : Bits) (h : bits.length = 112) : (cap17 bits).isVal = true := by
  unfold cap17
  simp only [dataR_112 _ h, Res.bind_val]
  apply mapM_isVal
  intro i hi
  have hi := (List.mem_filter.mp hi).1
  have hl : (List.take 24 (slice 32 88 bits)).length ≤ 24 := by simp; omega
  have hi : i < 24 := by
    have : i < (List.take 24 (slice 32 88 bits)).length := by simpa using hi
    omega
  rw [idxR_eq (by rw [cap17All_length]; exact hi)]
  rfl

theorem is17_isVal (bits : Bits) (h : bits.length = 112) : (is17 bits).isVal = true := by
  unfold is17
  obtain ⟨c, hc⟩ := Res.isVal_iff.mp (cap17_isVal bits h)
  rw [hc]
  tot_commb h; tot_isVal

theorem cs20_isVal (bits : Bits) (h : bits.length = 112) : (cs20 bits).isVal = true := by
  unfold cs20
  simp only [dataR_112 _ h, Res.bind_val]
  apply chars8_isVal _ cs20Chars_length
  simp [h]

theorem is20_isVal (bits : Bits) (h : bits.length = 112) : (is20 bits).isVal = true := by
  unfold is20
  obtain ⟨c, hc⟩ := Res.isVal_iff.mp (cs20_isVal bits h)
  rw [hc]
  tot_commb h; tot_isVal

theorem is30_isVal (bits : Bits) (h : bits.length = 112) : (is30 bits).isVal = true := by
  unfold is30; tot_commb h; tot_isVal

/-- reduce a `statusOk` call on the 56-bit MB field to a value -/
theorem statusOk_val (d : Bits) (hd : d.length = 56) (l : List (Nat × Nat × Nat)) (hl : rulesInRange l = true) :
    ∃ b, statusOk d l = .val b := Res.isVal_iff.mp (statusOk_isVal d hd l hl)

theorem is40_isVal (bits : Bits) (h : bits.length = 112) : (is40 bits).isVal = true := by
  unfold is40
  obtain ⟨b, hb⟩ := statusOk_val _ (slice_32_88_length h) [(1, 2, 13), (14, 15, 26), (27, 28, 39), (48, 49, 51), (54, 55, 56)] (by decide)
  simp only [dataR_112 _ h, allzerosB_112 _ h, Res.bind_val, hb]
  have hd := slice_32_88_length h
  generalize slice 32 88 bits = d at hd ⊢
  simp (disch := omega) only [bin2intR_slice_val hd, Res.bind_val, Res.pure_eq]
  tot_isVal

theorem is44_isVal (bits : Bits) (h : bits.length = 112) : (is44 bits).isVal = true := by
  unfold is44
  obtain ⟨b, hb⟩ := statusOk_val _ (slice_32_88_length h) [(5, 6, 23), (35, 36, 46), (47, 48, 49), (50, 51, 56)] (by decide)
  obtain ⟨w, hw⟩ := Res.isVal_iff.mp (wind44_isVal bits h)
  obtain ⟨t, ht⟩ := Res.isVal_iff.mp (temp44_isVal bits h)
  rw [hw, ht]
  simp only [dataR_112 _ h, allzerosB_112 _ h, Res.bind_val, hb]
  have hd := slice_32_88_length h
  generalize slice 32 88 bits = d at hd ⊢
  simp (disch := omega) only [bin2intR_slice_val hd, Res.bind_val, Res.pure_eq]
  tot_isVal

theorem is45_isVal (bits : Bits) (h : bits.length = 112) : (is45 bits).isVal = true := by
  unfold is45
  obtain ⟨b, hb⟩ := statusOk_val _ (slice_32_88_length h) [(1, 2, 3), (4, 5, 6), (7, 8, 9), (10, 11, 12), (13, 14, 15), (16, 17, 26),
      (27, 28, 38), (39, 40, 51)] (by decide)
  obtain ⟨t, ht⟩ := Res.isVal_iff.mp (temp45_isVal bits h)
  rw [ht]
  simp only [dataR_112 _ h, allzerosB_112 _ h, Res.bind_val, hb]
  have hd := slice_32_88_length h
  generalize slice 32 88 bits = d at hd ⊢
  simp (disch := omega) only [bin2intR_slice_val hd, Res.bind_val, Res.pure_eq]
  tot_isVal

theorem is50_isVal (bits : Bits) (h : bits.length = 112) : (is50 bits).isVal = true := by
  unfold is50
  obtain ⟨b, hb⟩ := statusOk_val _ (slice_32_88_length h) [(1, 2, 11), (12, 13, 23), (24, 25, 34), (35, 36, 45), (46, 47, 56)] (by decide)
  obtain ⟨r, hr⟩ := Res.isVal_iff.mp (roll50_isVal bits h)
  obtain ⟨g, hg⟩ := Res.isVal_iff.mp (gs50_isVal bits h)
  obtain ⟨t, ht⟩ := Res.isVal_iff.mp (tas50_isVal bits h)
  rw [hr, hg, ht]
  simp only [dataR_112 _ h, allzerosB_112 _ h, Res.bind_val, hb]
  tot_isVal

theorem is53_isVal (bits : Bits) (h : bits.length = 112) : (is53 bits).isVal = true := by
  unfold is53
  obtain ⟨b, hb⟩ := statusOk_val _ (slice_32_88_length h) [(1, 3, 12), (13, 14, 23), (24, 25, 33), (34, 35, 46), (47, 49, 56)] (by decide)
  obtain ⟨i, hi⟩ := Res.isVal_iff.mp (ias53_isVal bits h)
  obtain ⟨m, hm⟩ := Res.isVal_iff.mp (mach53_isVal bits h)
  obtain ⟨t, ht⟩ := Res.isVal_iff.mp (tas53_isVal bits h)
  obtain ⟨v, hv⟩ := Res.isVal_iff.mp (vr53_isVal bits h)
  rw [hi, hm, ht, hv]
  simp only [dataR_112 _ h, allzerosB_112 _ h, Res.bind_val, hb]
  tot_isVal

theorem is60Core_isVal (bits : Bits) (h : bits.length = 112) : (is60Core bits).isVal = true := by
  unfold is60Core
  obtain ⟨b, hb⟩ := statusOk_val _ (slice_32_88_length h) [(1, 2, 12), (13, 14, 23), (24, 25, 34), (35, 36, 45), (46, 47, 56)] (by decide)
  obtain ⟨i, hi⟩ := Res.isVal_iff.mp (ias60_isVal bits h)
  obtain ⟨m, hm⟩ := Res.isVal_iff.mp (mach60_isVal bits h)
  obtain ⟨t, ht⟩ := Res.isVal_iff.mp (vr60baro_isVal bits h)
  obtain ⟨v, hv⟩ := Res.isVal_iff.mp (vr60ins_isVal bits h)
  rw [hi, hm, ht, hv]
  simp only [dataR_112 _ h, allzerosB_112 _ h, Res.bind_val, hb]
  tot_isVal

theorem is60AltCheck_isVal (iasOfMach : Rat → Int → Rat) (bits : Bits) (h : bits.length = 112) :
    (is60AltCheck iasOfMach bits).isVal = true := by
  unfold is60AltCheck
  obtain ⟨i, hi⟩ := Res.isVal_iff.mp (ias60_isVal bits h)
  obtain ⟨m, hm⟩ := Res.isVal_iff.mp (mach60_isVal bits h)
  obtain ⟨a, ha⟩ := Res.isVal_iff.mp (altitude13_isVal (slice 19 32 bits) (by rw [slice_length_of_le (by omega)]))
  rw [hi, hm, ha]
  simp only [Res.bind_val]
  tot_isVal

theorem is60_isVal (iasOfMach : Rat → Int → Rat) (bits : Bits) (h : bits.length = 112) :
    (is60 iasOfMach bits).isVal = true := by
  unfold is60
  obtain ⟨c, hc⟩ := Res.isVal_iff.mp (is60Core_isVal bits h)
  rw [hc]
  simp only [Res.bind_val]
  split
  · rfl
  · exact is60AltCheck_isVal iasOfMach bits h

theorem commbRules_isVal (iasOfMach : Rat → Int → Rat) (bits : Bits) (h : bits.length = 112) :
    (commbRules iasOfMach bits).isVal = true := by
  unfold commbRules
  obtain ⟨_, h10⟩ := Res.isVal_iff.mp (is10_isVal bits h)
  obtain ⟨_, h17⟩ := Res.isVal_iff.mp (is17_isVal bits h)
  obtain ⟨_, h20⟩ := Res.isVal_iff.mp (is20_isVal bits h)
  obtain ⟨_, h30⟩ := Res.isVal_iff.mp (is30_isVal bits h)
  obtain ⟨_, h40⟩ := Res.isVal_iff.mp (is40_isVal bits h)
  obtain ⟨_, h50⟩ := Res.isVal_iff.mp (is50_isVal bits h)
  obtain ⟨_, h60⟩ := Res.isVal_iff.mp (is60_isVal iasOfMach bits h)
  obtain ⟨_, h44⟩ := Res.isVal_iff.mp (is44_isVal bits h)
  obtain ⟨_, h45⟩ := Res.isVal_iff.mp (is45_isVal bits h)
  rw [h10, h17, h20, h30, h40, h50, h60, h44, h45]
  rfl

theorem infer_isVal (iasOfMach : Rat → Int → Rat) (bits : Bits) (mrar : Bool) (h : bits.length = 112) :
    (infer iasOfMach bits mrar).isVal = true := by
  unfold infer
  obtain ⟨r, hr⟩ := Res.isVal_iff.mp (commbRules_isVal iasOfMach bits h)
  rw [hr]
  simp only [allzerosB_112 _ h, Res.bind_val]
  tot_isVal

end PyModeS.Tot
