/-
  Totality toolkit: `Res` values that are never `exc`, guarded results, 112-bit frame facts.
-/
import PyModeS.Proofs.Bits
import PyModeS.Model.Commb
import PyModeS.Model.Misc
namespace PyModeS.Tot

namespace Res
open PyModeS.Res
variable {α β : Type}
@[simp] theorem isVal_val (a : α) : (val a).isVal = true := rfl
@[simp] theorem isVal_rte : (rte : Res α).isVal = false := rfl
@[simp] theorem isVal_exc : (exc : Res α).isVal = false := rfl
theorem isVal_iff {x : Res α} : x.isVal = true ↔ ∃ a, x = val a := by
  cases x <;> simp
theorem ne_exc_of_isVal {x : Res α} (h : x.isVal = true) : x ≠ exc := by
  cases x <;> simp_all
theorem ne_rte_of_isVal {x : Res α} (h : x.isVal = true) : x ≠ rte := by
  cases x <;> simp_all
theorem bind_ne_exc {x : Res α} {f : α → Res β} (hx : x ≠ exc) (hf : ∀ a, x = val a → f a ≠ exc) :
    (x >>= f) ≠ exc := by
  cases x with
  | val a => exact hf a rfl
  | rte => simp
  | exc => exact absurd rfl hx
theorem bind_isVal {x : Res α} {f : α → Res β} (hx : x.isVal = true) (hf : ∀ a, x = val a → (f a).isVal = true) :
    (x >>= f).isVal = true := by
  cases x with
  | val a => exact hf a rfl
  | rte => simp at hx
  | exc => simp at hx
end Res

/-- `x` is a value when `P` holds and `RuntimeError` otherwise (never another exception) -/
def Guarded {α : Type} (P : Prop) (x : Res α) : Prop := (P → x.isVal = true) ∧ (¬P → x = .rte)

namespace Guarded
variable {α : Type} {P : Prop} {x : Res α}
theorem ne_exc (h : Guarded P x) : x ≠ .exc := by
  by_cases hp : P
  · exact Res.ne_exc_of_isVal (h.1 hp)
  · rw [h.2 hp]; simp
theorem rte_iff (h : Guarded P x) : x = .rte ↔ ¬P := by
  constructor
  · intro hr hp; have := h.1 hp; rw [hr] at this; simp at this
  · exact h.2
theorem isVal_iff (h : Guarded P x) : x.isVal = true ↔ P := by
  constructor
  · intro hv; by_cases hp : P
    · exact hp
    · rw [h.2 hp] at hv; simp at hv
  · exact h.1
theorem of_val {a : α} (hp : P) : Guarded P (.val a) := ⟨fun _ => rfl, fun h => absurd hp h⟩
theorem of_rte (hp : ¬P) : Guarded P (.rte : Res α) := ⟨fun h => absurd h hp, fun _ => rfl⟩
theorem of_isVal (hp : P) (hx : x.isVal = true) : Guarded P x := ⟨fun _ => hx, fun h => absurd hp h⟩
end Guarded

/-- "the frame is DF17/18 and its type code satisfies `P`" -/
def TC (bits : Bits) (P : Nat → Prop) : Prop := ∃ tc, tcB bits = some tc ∧ P tc

theorem tcB_lt {bits : Bits} {tc : Nat} (h : tcB bits = some tc) : tc < 32 := by
  unfold tcB at h
  simp only [] at h
  split at h
  · simp only [Option.some.injEq] at h
    rw [← h]
    have := bin2int_lt (slice 32 37 bits)
    have hl : (slice 32 37 bits).length ≤ 5 := by simp; omega
    calc _ < 2 ^ (slice 32 37 bits).length := this
      _ ≤ 2 ^ 5 := Nat.pow_le_pow_right (by omega) hl
  · simp at h

theorem guarded_tc {α : Type} {x : Res α} {bits : Bits} {P : Nat → Prop}
    (hnone : tcB bits = none → x = .rte)
    (hsome : ∀ tc, tcB bits = some tc → tc < 32 → Guarded (P tc) x) : Guarded (TC bits P) x := by
  cases h : tcB bits with
  | none =>
    refine ⟨?_, fun _ => hnone h⟩
    rintro ⟨tc, h1, _⟩
    rw [h] at h1; cases h1
  | some tc =>
    have g := hsome tc h (tcB_lt h)
    constructor
    · rintro ⟨tc', h1, h2⟩
      rw [h] at h1; cases h1; exact g.1 h2
    · intro hn; apply g.2; intro hp; exact hn ⟨tc, h, hp⟩

/-! ### in-range reads of a fixed-length bit string never raise -/

theorem idxR_val {l : Bits} {n : Nat} (hl : l.length = n) (i : Nat) (hi : i < n) :
    idxR l i = .val (l.getD i false) := by
  have : i < l.length := by omega
  simp [idxR, this]

theorem bin2intR_slice_val {l : Bits} {n : Nat} (hl : l.length = n) (a b : Nat) (hab : a < b) (hb : b ≤ n) :
    bin2intR (slice a b l) = .val (bin2int (slice a b l)) := by
  apply bin2intR_of_length
  rw [slice_length_of_le (by omega)]; omega

theorem drop32_length {bits : Bits} (h : bits.length = 112) : (bits.drop 32).length = 80 := by simp [h]

theorem slice_32_88_length {bits : Bits} (h : bits.length = 112) : (slice 32 88 bits).length = 56 := by
  rw [slice_length_of_le (by omega)]

theorem bin2int_slice_lt (a b : Nat) (l : Bits) : bin2int (slice a b l) < 2 ^ (b - a) := by
  have := bin2int_lt (slice a b l)
  have hl : (slice a b l).length ≤ b - a := by simp; omega
  exact Nat.lt_of_lt_of_le this (Nat.pow_le_pow_right (by omega) hl)

theorem mapM_isVal {α β : Type} (f : α → Res β) (l : List α) (h : ∀ a ∈ l, (f a).isVal = true) :
    (Res.mapM f l).isVal = true := by
  induction l with
  | nil => rfl
  | cons a t ih =>
    have ha := h a (by simp)
    have ht := ih (fun b hb => h b (by simp [hb]))
    unfold Res.mapM
    obtain ⟨b, hb⟩ := Res.isVal_iff.mp ha
    obtain ⟨bs, hbs⟩ := Res.isVal_iff.mp ht
    rw [hb, hbs]; rfl

/-- rewrite every in-range `idxR`/`bin2intR (slice ..)` on `bits` (length hypothesis `h`) and on
    `mb = bits.drop 32` into a value -/
macro "tot_reads" h:ident : tactic =>
  `(tactic| simp (disch := omega) only [idxR_val $h:ident, bin2intR_slice_val $h:ident,
      idxR_val (drop32_length $h:ident), bin2intR_slice_val (drop32_length $h:ident),
      Res.bind_val, Res.pure_eq])

theorem Res.isVal_pure {α : Type} (a : α) : (pure a : Res α).isVal = true := rfl

theorem Res.bind_isVal' {α β : Type} {x : Res α} {f : α → Res β} (hx : x.isVal = true)
    (hf : ∀ a, (f a).isVal = true) : (x >>= f).isVal = true := Res.bind_isVal hx (fun a _ => hf a)

/-- structural proof of `(e).isVal = true` for `e` built from values, binds, `if`s and `match`es -/
syntax "tot_isVal" : tactic
macro_rules
  | `(tactic| tot_isVal) => `(tactic| first
      | with_reducible exact Res.isVal_val _
      | with_reducible exact Res.isVal_pure _
      | with_reducible assumption
      | (with_reducible refine Res.bind_isVal' ?_ (fun _ => ?_) <;> tot_isVal)
      | (split <;> tot_isVal))

theorem altitude13_isVal (b : Bits) (h : b.length = 13) : (altitude13 b).isVal = true := by
  match b, h with
  | [_, _, _, _, _, _, _, _, _, _, _, _, _], _ =>
    unfold altitude13
    simp only []
    repeat' split
    all_goals rfl

theorem altitude13_ne_exc (b : Bits) : altitude13 b ≠ .exc := by
  unfold altitude13
  repeat' split
  all_goals simp

theorem squawk_isVal (b : Bits) (h : b.length = 13) : (squawk b).isVal = true := by
  match b, h with
  | [_, _, _, _, _, _, _, _, _, _, _, _, _], _ => rfl

theorem squawk_ne_exc (b : Bits) : squawk b ≠ .exc := by
  unfold squawk
  split <;> simp


end PyModeS.Tot
