/-
  Totality and type guards of the ADS-B decoders (bds05/06/08/09/61/62, adsb.py) on 112-bit frames:
  each is `Guarded doc f`: a value exactly on the documented DF/TC (and subtype), RuntimeError otherwise.
-/
import PyModeS.Proofs.Commb.Total
import PyModeS.Proofs.Enum
namespace PyModeS.Tot

theorem chars8_isVal (chars : List Char) (hc : chars.length = 64) (cs : Bits) (hl : 48 ≤ cs.length) :
    (chars8 chars cs).isVal = true := by
  unfold chars8
  apply mapM_isVal
  intro i hi
  have hi : i < 8 := by simpa using hi
  have : 0 < (slice (6 * i) (6 * i + 6) cs).length := by simp; omega
  rw [bin2intR_of_length this]
  simp only [Res.bind_val]
  have := bin2int_slice_lt (6 * i) (6 * i + 6) cs
  have e : 6 * i + 6 - 6 * i = 6 := by omega
  rw [e] at this
  rw [idxR_eq (by rw [hc]; omega)]
  rfl

theorem movSpeed_isVal_all : (List.range 128).all (fun m => (movSpeed m).isVal) = true := by decide +kernel

theorem movSpeed_isVal (m : Nat) (h : m < 128) : (movSpeed m).isVal = true :=
  all_range_imp movSpeed_isVal_all m h

theorem altitude05_shape (bits : Bits) (h : bits.length = 112) :
    Guarded (TC bits (fun tc => 9 ≤ tc ∧ tc ≤ 18 ∨ 20 ≤ tc ∧ tc ≤ 22)) (altitude05 bits) := by
  apply guarded_tc
  · intro h0; simp [altitude05, h0]
  · intro tc htc _
    unfold altitude05
    tot_reads h
    rw [htc]
    simp only []
    split
    · exact .of_rte (by omega)
    · split
      · apply Guarded.of_isVal (by omega)
        apply Res.bind_isVal
        · apply altitude13_isVal; simp [h]
        · intros; rfl
      · exact .of_val (by omega)

theorem adsbAltitude_shape (bits : Bits) (h : bits.length = 112) :
    Guarded (TC bits (fun tc => 5 ≤ tc ∧ tc ≤ 18 ∨ 20 ≤ tc ∧ tc ≤ 22)) (adsbAltitude bits) := by
  apply guarded_tc
  · intro h0; simp [adsbAltitude, h0]
  · intro tc htc _
    unfold adsbAltitude
    rw [htc]
    simp only []
    split
    · exact .of_rte (by omega)
    · split
      · exact .of_val (by omega)
      · exact .of_isVal (by omega) ((altitude05_shape bits h).1 ⟨tc, htc, by omega⟩)

theorem surfaceVelocity_shape (bits : Bits) (h : bits.length = 112) :
    Guarded (TC bits (fun tc => 5 ≤ tc ∧ tc ≤ 8)) (surfaceVelocity bits) := by
  apply guarded_tc
  · intro h0; simp [surfaceVelocity, h0]
  · intro tc htc _
    unfold surfaceVelocity
    tot_reads h
    rw [htc]
    simp only []
    have hm := movSpeed_isVal _ (bin2int_slice_lt 5 12 (List.drop 32 bits))
    obtain ⟨v, hv⟩ := Res.isVal_iff.mp hm
    split
    · exact .of_rte (by omega)
    · apply Guarded.of_isVal (by omega)
      rw [hv]
      split <;> rfl

theorem category_shape (bits : Bits) (h : bits.length = 112) :
    Guarded (TC bits (fun tc => 1 ≤ tc ∧ tc ≤ 4)) (category bits) := by
  apply guarded_tc
  · intro h0; simp [category, h0]
  · intro tc htc _
    unfold category
    rw [htc]
    simp only []
    split
    · exact .of_rte (by omega)
    · apply Guarded.of_isVal (by omega)
      rw [bin2intR_of_length (by simp [h])]; rfl

theorem callsign_shape (hc : Tables.callsignChars.length = 64) (bits : Bits) (h : bits.length = 112) :
    Guarded (TC bits (fun tc => 1 ≤ tc ∧ tc ≤ 4)) (callsign bits) := by
  apply guarded_tc
  · intro h0; simp [callsign, h0]
  · intro tc htc _
    unfold callsign
    rw [htc]
    simp only []
    split
    · exact .of_rte (by omega)
    · apply Guarded.of_isVal (by omega)
      apply Res.bind_isVal
      · exact chars8_isVal _ hc _ (by simp [h])
      · intros; rfl

theorem airborneVelocity_shape (bits : Bits) (h : bits.length = 112) :
    Guarded (tcB bits = some 19) (airborneVelocity bits) := by
  unfold airborneVelocity
  split
  · exact .of_rte (by assumption)
  · apply Guarded.of_isVal (by simp_all)
    extract_lets mb
    have hmb : mb.length = 80 := drop32_length h
    simp -zeta (disch := omega) only [idxR_val hmb, bin2intR_slice_val hmb, Res.bind_val, Res.pure_eq]
    extract_lets
    rename_i jp1 jp
    have hjp1 : ∀ a, (jp1 a).isVal = true := fun _ => rfl
    have hjp : ∀ a, (jp a).isVal = true := by
      intro a
      simp only [jp]
      repeat' split
      all_goals first | rfl | exact hjp1 _
    repeat' split
    all_goals exact hjp _

/-- guard of the form `if tcB bits ≠ some k then .rte else body` -/
theorem guarded_tc_eq {α : Type} {bits : Bits} {k : Nat} {body : Res α} (hb : body.isVal = true) :
    Guarded (tcB bits = some k) (if tcB bits ≠ some k then .rte else body) := by
  split
  · exact .of_rte (by assumption)
  · exact .of_isVal (by simp_all) hb

theorem altitudeDiff_shape (bits : Bits) (h : bits.length = 112) :
    Guarded (tcB bits = some 19) (altitudeDiff bits) := by
  unfold altitudeDiff
  tot_reads h
  apply guarded_tc_eq
  tot_isVal

theorem slice_drop32 (a b : Nat) (bits : Bits) : slice a b (bits.drop 32) = slice (32 + a) (32 + b) bits :=
  slice_drop a b 32 bits

theorem isEmergency_shape (bits : Bits) (h : bits.length = 112) :
    Guarded (tcB bits = some 28 ∧ bin2int (slice 37 40 bits) ≠ 2) (isEmergency bits) := by
  unfold isEmergency
  tot_reads h
  rw [slice_drop32]
  split
  · exact .of_rte (by simp_all)
  · split
    · exact .of_rte (by simp_all)
    · exact .of_val (by simp_all)

theorem emergencyState_shape (bits : Bits) (h : bits.length = 112) :
    Guarded (tcB bits = some 28 ∧ bin2int (slice 37 40 bits) ≠ 2) (emergencyState bits) := by
  unfold emergencyState
  tot_reads h
  rw [slice_drop32]
  split
  · exact .of_rte (by simp_all)
  · split
    · exact .of_rte (by simp_all)
    · exact .of_val (by simp_all)

theorem emergencySquawk_shape (bits : Bits) (h : bits.length = 112) :
    Guarded (tcB bits = some 28) (emergencySquawk bits) := by
  unfold emergencySquawk
  apply guarded_tc_eq
  apply squawk_isVal
  rw [slice_length_of_le (by omega)]

/-! ### TC 29 (bds62) -/

theorem tc29_eq (bits : Bits) (h : bits.length = 112) :
    tc29 bits = if tcB bits ≠ some 29 then .rte else .val (bits.drop 32, bin2int (slice 37 39 bits)) := by
  unfold tc29
  tot_reads h
  rw [slice_drop32]

/-- V1-style guard (as coded): RuntimeError iff TC ≠ 29 or the 2-bit subtype field is 0 -/
abbrev DocV1 (bits : Bits) : Prop := tcB bits = some 29 ∧ bin2int (slice 37 39 bits) ≠ 0
/-- V0-style guard (as coded): RuntimeError iff TC ≠ 29 or the 2-bit subtype field is 1 -/
abbrev DocV0 (bits : Bits) : Prop := tcB bits = some 29 ∧ bin2int (slice 37 39 bits) ≠ 1

theorem guarded_v1 {α : Type} (bits : Bits) (h : bits.length = 112) (body : Bits → Res α)
    (hb : (body (bits.drop 32)).isVal = true) :
    Guarded (DocV1 bits) (tc29 bits >>= fun p => if p.2 = 0 then .rte else body p.1) := by
  rw [tc29_eq bits h]
  split
  · exact .of_rte (by simp_all [DocV1])
  · simp only [Res.bind_val]
    split
    · exact .of_rte (by simp_all [DocV1])
    · exact .of_isVal (by simp_all [DocV1]) hb

theorem guarded_v0 {α : Type} (bits : Bits) (h : bits.length = 112) (body : Bits → Res α)
    (hb : (body (bits.drop 32)).isVal = true) :
    Guarded (DocV0 bits) (tc29 bits >>= fun p => if p.2 = 1 then .rte else body p.1) := by
  rw [tc29_eq bits h]
  split
  · exact .of_rte (by simp_all [DocV0])
  · simp only [Res.bind_val]
    split
    · exact .of_rte (by simp_all [DocV0])
    · exact .of_isVal (by simp_all [DocV0]) hb

theorem selectedAltitude_shape (bits : Bits) (h : bits.length = 112) :
    Guarded (DocV1 bits) (selectedAltitude bits) := by
  apply guarded_v1 bits h (fun mb => do
    let alt ← bin2intR (slice 9 20 mb)
    if alt = 0 then pure (none, "N/A") else do
    let src ← idxR mb 8
    pure (some ((alt - 1) * 32), if src = false then "MCP/FCU" else "FMS"))
  tot_reads h
  tot_isVal

theorem targetAltitude_shape (bits : Bits) (h : bits.length = 112) :
    Guarded (DocV0 bits) (targetAltitude bits) := by
  apply guarded_v0 bits h (fun mb => do
    let avail ← bin2intR (slice 7 9 mb)
    if avail = 0 then pure (none, "N/A", "") else do
    let src := if avail = 1 then "MCP/FCU" else if avail = 2 then "Holding mode" else "FMS/RNAV"
    let r ← idxR mb 9
    let a ← bin2intR (slice 15 25 mb)
    pure (some (-1000 + (a : Int) * 100), src, if r = false then "FL" else "MSL"))
  tot_reads h
  tot_isVal

theorem verticalMode_shape (bits : Bits) (h : bits.length = 112) :
    Guarded (DocV0 bits) (verticalMode bits) := by
  apply guarded_v0 bits h (fun mb => do
    let v ← bin2intR (slice 13 15 mb)
    pure (if v = 0 then none else some v))
  tot_reads h
  tot_isVal

theorem horizontalMode_shape (bits : Bits) (h : bits.length = 112) :
    Guarded (DocV0 bits) (horizontalMode bits) := by
  apply guarded_v0 bits h (fun mb => do
    let v ← bin2intR (slice 25 27 mb)
    pure (if v = 0 then none else some v))
  tot_reads h
  tot_isVal

theorem selectedHeading_shape (bits : Bits) (h : bits.length = 112) :
    Guarded (DocV1 bits) (selectedHeading bits) := by
  apply guarded_v1 bits h (fun mb => do
    let status ← idxR mb 29
    if status = false then pure none else do
    let sign ← idxR mb 30
    let v ← bin2intR (slice 31 39 mb)
    pure (some (((b2n sign : Nat) : Rat) * 180 + (v : Rat) * ((180 : Rat) / 256))))
  tot_reads h
  tot_isVal

theorem targetAngle_shape (bits : Bits) (h : bits.length = 112) :
    Guarded (DocV0 bits) (targetAngle bits) := by
  apply guarded_v0 bits h (fun mb => do
    let avail ← bin2intR (slice 25 27 mb)
    if avail = 0 then pure (none, "", "N/A") else do
    let angle ← bin2intR (slice 27 36 mb)
    let src := if avail = 1 then "MCP/FCU" else if avail = 2 then "Autopilot mode" else "FMS/RNAV"
    let ty ← idxR mb 36
    pure (some angle, if ty then "Heading" else "Track", src))
  tot_reads h
  tot_isVal

theorem baroPressureSetting_shape (bits : Bits) (h : bits.length = 112) :
    Guarded (DocV1 bits) (baroPressureSetting bits) := by
  apply guarded_v1 bits h (fun mb => do
    let baro ← bin2intR (slice 20 29 mb)
    pure (if baro = 0 then none else some (800 + (((baro : Int) - 1 : Int) : Rat) * 4 / 5)))
  tot_reads h
  tot_isVal

theorem modeFlag_shape (k : Nat) (hk : k < 80) (bits : Bits) (h : bits.length = 112) :
    Guarded (DocV1 bits) (modeFlag k bits) := by
  apply guarded_v1 bits h (fun mb => do
    let status ← idxR mb 46
    if status = false then pure none else do
    let f ← idxR mb k
    pure (some f))
  tot_reads h
  tot_isVal

theorem tcasOperational_shape (bits : Bits) (h : bits.length = 112) :
    Guarded (tcB bits = some 29) (tcasOperational bits) := by
  unfold tcasOperational
  rw [tc29_eq bits h]
  split
  · exact .of_rte (by simp_all)
  · apply Guarded.of_isVal (by simp_all)
    tot_reads h
    tot_isVal

theorem tcasRa_shape (bits : Bits) (h : bits.length = 112) :
    Guarded (DocV0 bits) (tcasRa bits) := by
  apply guarded_v0 bits h (fun mb => idxR mb 52)
  tot_reads h
  tot_isVal

theorem emergencyStatus_shape (bits : Bits) (h : bits.length = 112) :
    Guarded (DocV0 bits) (emergencyStatus bits) := by
  apply guarded_v0 bits h (fun mb => bin2intR (slice 53 56 mb))
  tot_reads h
  tot_isVal

/-! ### adsb.py -/

theorem oeFlag_isVal (bits : Bits) (h : bits.length = 112) : (oeFlag bits).isVal = true := by
  unfold oeFlag
  tot_reads h
  tot_isVal

theorem version_shape (bits : Bits) (h : bits.length = 112) :
    Guarded (tcB bits = some 31) (version bits) := by
  unfold version
  tot_reads h
  apply guarded_tc_eq
  tot_isVal

/-- documented type codes of the position-message quality look-ups -/
abbrev posTC (tc : Nat) : Prop := 5 ≤ tc ∧ tc ≤ 18 ∨ 20 ≤ tc ∧ tc ≤ 22

/-- the regenerated TC → NUCp / NIC tables have an entry for every documented TC, and the
    NIC-supplement sub-tables one for every supplement value the callers can pass -/
theorem tc_tables_total : (List.range 32).all (fun tc =>
    (tc < 5 || tc == 19 || tc > 22) ||
      ((lookupR Tables.tcNUCp tc).isVal &&
       (List.range 2).all (fun nics => (lookupR Tables.tcNICv1 tc >>= fun e => nicOfEntry e nics).isVal) &&
       (lookupR Tables.tcNICv2 tc).isVal)) = true := by decide +kernel

theorem tc_tables_total' (tc : Nat) (hlt : tc < 32) (hd : ¬(tc < 5 ∨ tc = 19 ∨ tc > 22)) :
    (lookupR Tables.tcNUCp tc).isVal = true ∧
    (∀ nics, nics ≤ 1 → (lookupR Tables.tcNICv1 tc >>= fun e => nicOfEntry e nics).isVal = true) ∧
    (lookupR Tables.tcNICv2 tc).isVal = true := by
  have := all_range_imp tc_tables_total tc hlt
  simp only [Bool.or_eq_true, Bool.and_eq_true, decide_eq_true_eq, beq_iff_eq, List.all_eq_true,
    List.mem_range] at this
  rcases this with this | this
  · exact absurd this (by omega)
  · exact ⟨this.1.1, fun n hn => this.1.2 n (by omega), this.2⟩

theorem nucP_shape (bits : Bits) : Guarded (TC bits posTC) (nucP bits) := by
  apply guarded_tc
  · intro h0; simp [nucP, h0]
  · intro tc htc hlt
    unfold nucP
    rw [htc]
    simp only []
    split
    · exact .of_rte (by unfold posTC; omega)
    · rename_i hd
      apply Guarded.of_isVal (by unfold posTC; omega)
      obtain ⟨v, hv⟩ := Res.isVal_iff.mp (tc_tables_total' tc hlt hd).1
      rw [hv]
      rfl

theorem nucV_shape (bits : Bits) (h : bits.length = 112) : Guarded (tcB bits = some 19) (nucV bits) := by
  unfold nucV
  tot_reads h
  apply guarded_tc_eq
  tot_isVal

theorem nicV1_shape (bits : Bits) (nics : Nat) (hn : nics ≤ 1) :
    Guarded (TC bits posTC) (nicV1 bits nics) := by
  apply guarded_tc
  · intro h0; simp [nicV1, h0]
  · intro tc htc hlt
    unfold nicV1
    rw [htc]
    simp only []
    split
    · exact .of_rte (by unfold posTC; omega)
    · rename_i hd
      apply Guarded.of_isVal (by unfold posTC; omega)
      have h2 := (tc_tables_total' tc hlt hd).2.1 nics hn
      cases he : lookupR Tables.tcNICv1 tc with
      | val e =>
        rw [he] at h2
        simp only [Res.bind_val] at h2 ⊢
        obtain ⟨nic, hnic⟩ := Res.isVal_iff.mp h2
        rw [hnic]
        simp only [Res.bind_val]
        tot_isVal
      | rte => rw [he] at h2; simp at h2
      | exc => rw [he] at h2; simp at h2

theorem nicV2_shape (bits : Bits) (nica nicbc : Nat) :
    Guarded (TC bits posTC) (nicV2 bits nica nicbc) := by
  apply guarded_tc
  · intro h0; simp [nicV2, h0]
  · intro tc htc hlt
    unfold nicV2
    rw [htc]
    simp only []
    split
    · exact .of_rte (by unfold posTC; omega)
    · rename_i hd
      apply Guarded.of_isVal (by unfold posTC; omega)
      obtain ⟨e, he⟩ := Res.isVal_iff.mp (tc_tables_total' tc hlt hd).2.2
      rw [he]
      simp only [Res.bind_val]
      tot_isVal

theorem nicS_shape (bits : Bits) (h : bits.length = 112) : Guarded (tcB bits = some 31) (nicS bits) := by
  unfold nicS
  tot_reads h
  apply guarded_tc_eq
  tot_isVal

theorem nicAC_shape (bits : Bits) (h : bits.length = 112) : Guarded (tcB bits = some 31) (nicAC bits) := by
  unfold nicAC
  tot_reads h
  apply guarded_tc_eq
  tot_isVal

theorem nicB_shape (bits : Bits) (h : bits.length = 112) :
    Guarded (TC bits (fun tc => 9 ≤ tc ∧ tc ≤ 18)) (nicB bits) := by
  apply guarded_tc
  · intro h0; simp [nicB, h0]
  · intro tc htc _
    unfold nicB
    tot_reads h
    rw [htc]
    simp only []
    split
    · exact .of_rte (by omega)
    · exact .of_val (by omega)

theorem nacP_shape (bits : Bits) (h : bits.length = 112) :
    Guarded (TC bits (fun tc => tc = 29 ∨ tc = 31)) (nacP bits) := by
  apply guarded_tc
  · intro h0; simp [nacP, h0]
  · intro tc htc _
    unfold nacP
    tot_reads h
    rw [htc]
    split
    · rename_i h1; cases h1
      apply Guarded.of_isVal (by omega); tot_isVal
    · rename_i h1; cases h1
      apply Guarded.of_isVal (by omega); tot_isVal
    · rename_i h1 h2
      apply Guarded.of_rte
      rintro (rfl | rfl)
      · exact h1 rfl
      · exact h2 rfl

theorem nacV_shape (bits : Bits) (h : bits.length = 112) : Guarded (tcB bits = some 19) (nacV bits) := by
  unfold nacV
  tot_reads h
  apply guarded_tc_eq
  tot_isVal

theorem sil_shape (bits : Bits) (h : bits.length = 112) (version : Option Nat) :
    Guarded (TC bits (fun tc => tc = 29 ∨ tc = 31)) (sil bits version) := by
  apply guarded_tc
  · intro h0; simp [sil, h0]
  · intro tc htc _
    unfold sil
    tot_reads h
    rw [htc]
    simp only []
    split
    · exact .of_rte (by omega)
    · apply Guarded.of_isVal (by omega)
      tot_isVal

/-! ### positions -/

theorem cprFields_isVal (bits : Bits) (h : bits.length = 112) : (cprFields bits).isVal = true := by
  unfold cprFields
  tot_reads h
  tot_isVal

theorem surfFields_isVal (bits : Bits) (h : bits.length = 112) : (surfFields bits).isVal = true := by
  unfold surfFields
  tot_reads h
  tot_isVal

theorem positionWithRef_shape (bits : Bits) (h : bits.length = 112) (latRef lonRef : Rat) :
    Guarded (TC bits posTC) (positionWithRef bits latRef lonRef) := by
  apply guarded_tc
  · intro h0; simp [positionWithRef, positionWithRefRoute, h0]
  · intro tc htc _
    unfold positionWithRef positionWithRefRoute
    rw [htc]
    simp only []
    obtain ⟨f, hf⟩ := Res.isVal_iff.mp (cprFields_isVal bits h)
    split
    · apply Guarded.of_isVal (by unfold posTC; omega)
      simp [surfacePositionWithRef, hf]
    · split
      · apply Guarded.of_isVal (by unfold posTC; omega)
        simp [airbornePositionWithRef, hf]
      · exact .of_rte (by unfold posTC; omega)

theorem airbornePositionCore_ne_exc (nl : Rat → Nat) (f0 f1 : CprFrame) (t0 t1 : Rat) :
    airbornePositionCore nl f0 f1 t0 t1 ≠ .exc := by
  unfold airbornePositionCore
  simp only []
  repeat' split
  all_goals simp

theorem position_ne_exc (b0 b1 : Bits) (h0 : b0.length = 112) (h1 : b1.length = 112) (t0 t1 : Rat)
    (ref : Option (Rat × Rat)) : position b0 b1 t0 t1 ref ≠ .exc := by
  unfold position
  obtain ⟨f0, hf0⟩ := Res.isVal_iff.mp (cprFields_isVal b0 h0)
  obtain ⟨f1, hf1⟩ := Res.isVal_iff.mp (cprFields_isVal b1 h1)
  obtain ⟨s0, hs0⟩ := Res.isVal_iff.mp (surfFields_isVal b0 h0)
  obtain ⟨s1, hs1⟩ := Res.isVal_iff.mp (surfFields_isVal b1 h1)
  apply Res.bind_ne_exc
  · unfold positionRoute
    repeat' split
    all_goals simp
  · intro k _
    split
    · simp [surfacePosition, hs0, hs1]
    · simp
    · simp only [airbornePosition, hf0, hf1, Res.bind_val]
      exact airbornePositionCore_ne_exc _ _ _ _ _

/-! ### surv.py / allcall.py (56- and 112-bit frames) -/

theorem survFs_shape (bits : Bits) (h : 32 ≤ bits.length) :
    Guarded (dfB bits = 4 ∨ dfB bits = 5) (survFs bits) := by
  unfold survFs survGuard
  simp only []
  split
  · exact .of_rte (by omega)
  · apply Guarded.of_isVal (by omega)
    rw [bin2intR_of_length (by simp; omega)]; rfl

theorem survDr_shape (bits : Bits) (h : 32 ≤ bits.length) :
    Guarded (dfB bits = 4 ∨ dfB bits = 5) (survDr bits) := by
  unfold survDr survGuard
  simp only []
  split
  · exact .of_rte (by omega)
  · apply Guarded.of_isVal (by omega)
    rw [bin2intR_of_length (by simp; omega)]; rfl

theorem survUm_shape (bits : Bits) (h : 32 ≤ bits.length) :
    Guarded (dfB bits = 4 ∨ dfB bits = 5) (survUm bits) := by
  unfold survUm survGuard
  simp only []
  split
  · exact .of_rte (by omega)
  · apply Guarded.of_isVal (by omega)
    rw [bin2intR_of_length (l := slice 13 17 bits) (by simp; omega),
      bin2intR_of_length (l := slice 17 19 bits) (by simp; omega)]; rfl

theorem survAltitude_shape (bits : Bits) (h : 32 ≤ bits.length) :
    Guarded (dfB bits = 4) (survAltitude bits) := by
  unfold survAltitude survGuard altcodeB
  simp only []
  split
  · exact .of_rte (by omega)
  · split
    · exact .of_rte (by omega)
    · apply Guarded.of_isVal (by omega)
      apply altitude13_isVal
      rw [slice_length_of_le (by omega)]

theorem survIdentity_shape (bits : Bits) (h : 32 ≤ bits.length) :
    Guarded (dfB bits = 5) (survIdentity bits) := by
  unfold survIdentity survGuard idcodeB
  simp only []
  split
  · exact .of_rte (by omega)
  · split
    · exact .of_rte (by omega)
    · apply Guarded.of_isVal (by omega)
      apply squawk_isVal
      rw [slice_length_of_le (by omega)]

theorem interrogator_shape (bits : Bits) : Guarded (dfB bits = 11) (interrogator bits) := by
  unfold interrogator allcallGuard
  simp only []
  split
  · exact .of_rte (by assumption)
  · apply Guarded.of_isVal (by simp_all)
    tot_isVal

theorem capability_shape (bits : Bits) (h : 32 ≤ bits.length) : Guarded (dfB bits = 11) (capability bits) := by
  unfold capability allcallGuard
  split
  · exact .of_rte (by assumption)
  · apply Guarded.of_isVal (by simp_all)
    rw [bin2intR_of_length (by simp; omega)]; rfl

end PyModeS.Tot
