/-
  Comm-B plumbing on a 112-bit frame: the MB field `dataR`, the generic status-gated readers
  `ufield`/`sfield` as total functions of a 56-bit MB field, `wrongstatus`/`statusOk`, and the
  `setSlice` bit-field writer used by the C11 encoder round trip.
-/
import PyModeS.Proofs.Commb.Total
namespace PyModeS.Tot

/-- on a 112-bit frame `hex2bin(data(msg))` is bits 33–88 -/
theorem dataR_112 (bits : Bits) (h : bits.length = 112) : dataR bits = .val (slice 32 88 bits) := by
  unfold dataR
  have : (slice 32 88 bits).length = 56 := slice_32_88_length h
  simp only [h]
  cases hs : slice 32 88 bits with
  | nil => simp [hs] at this
  | cons a t => simp

theorem allzerosB_112 (bits : Bits) (h : bits.length = 112) :
    allzerosB bits = .val (decide (bin2int (slice 32 88 bits) = 0)) := by
  unfold allzerosB
  rw [dataR_112 bits h]
  rfl

theorem ufield_val (d : Bits) (hd : d.length = 56) (sb a b : Nat) (scale off : Rat)
    (hsb : sb < 56) (hab : a < b) (hb : b ≤ 56) :
    ufield d sb a b scale off =
      .val (if d.getD sb false = false then none else some ((bin2int (slice a b d) : Rat) * scale + off)) := by
  unfold ufield
  rw [idxR_val hd sb hsb, bin2intR_slice_val hd a b hab hb]
  simp only [Res.bind_val]
  split <;> rfl

theorem sfield_val (d : Bits) (hd : d.length = 56) (sb sg a b : Nat) (scale : Rat)
    (hsb : sb < 56) (hsg : sg < 56) (hab : a < b) (hb : b ≤ 56) :
    sfield d sb sg a b scale =
      .val (if d.getD sb false = false then none else
        some ((((if d.getD sg false then (bin2int (slice a b d) : Int) - (2 ^ (b - a) : Nat)
                else (bin2int (slice a b d) : Int)) : Int) : Rat) * scale)) := by
  unfold sfield
  rw [idxR_val hd sb hsb, idxR_val hd sg hsg, bin2intR_slice_val hd a b hab hb]
  simp only [Res.bind_val]
  split <;> rfl

theorem ufield_isVal (d : Bits) (hd : d.length = 56) (sb a b : Nat) (scale off : Rat)
    (hsb : sb < 56) (hab : a < b) (hb : b ≤ 56) : (ufield d sb a b scale off).isVal = true := by
  rw [ufield_val d hd sb a b scale off hsb hab hb]; rfl

theorem sfield_isVal (d : Bits) (hd : d.length = 56) (sb sg a b : Nat) (scale : Rat)
    (hsb : sb < 56) (hsg : sg < 56) (hab : a < b) (hb : b ≤ 56) : (sfield d sb sg a b scale).isVal = true := by
  rw [sfield_val d hd sb sg a b scale hsb hsg hab hb]; rfl

/-- a `wrongstatus` rule list whose bit numbers all lie inside the 56-bit MB field -/
def rulesInRange (l : List (Nat × Nat × Nat)) : Bool :=
  l.all (fun r => decide (r.1 - 1 < 56 ∧ r.2.1 - 1 < r.2.2 ∧ r.2.2 ≤ 56))

theorem wrongstatus_isVal (d : Bits) (hd : d.length = 56) (sb msb lsb : Nat)
    (h1 : sb - 1 < 56) (h2 : msb - 1 < lsb) (h3 : lsb ≤ 56) : (wrongstatus d sb msb lsb).isVal = true := by
  unfold wrongstatus
  rw [idxR_val hd _ h1, bin2intR_slice_val hd _ _ h2 h3]
  rfl

theorem statusOk_isVal (d : Bits) (hd : d.length = 56) (l : List (Nat × Nat × Nat)) (hl : rulesInRange l = true) :
    (statusOk d l).isVal = true := by
  induction l with
  | nil => rfl
  | cons r t ih =>
    obtain ⟨sb, msb, lsb⟩ := r
    simp only [rulesInRange, List.all_cons, Bool.and_eq_true, decide_eq_true_eq] at hl
    unfold statusOk
    obtain ⟨w, hw⟩ := Res.isVal_iff.mp (wrongstatus_isVal d hd sb msb lsb hl.1.1 hl.1.2.1 hl.1.2.2)
    rw [hw]
    simp only [Res.bind_val]
    split
    · rfl
    · exact ih hl.2

theorem mapM_val {α β : Type} (f : α → Res β) (g : α → β) (l : List α) (h : ∀ a ∈ l, f a = .val (g a)) :
    Res.mapM f l = .val (l.map g) := by
  induction l with
  | nil => rfl
  | cons a t ih =>
    unfold Res.mapM
    rw [h a (by simp), ih (fun b hb => h b (by simp [hb]))]
    rfl

/-! ### writing a bit field -/

/-- overwrite `f.length` bits of `d` starting at 0-based position `a` -/
def setSlice (d : Bits) (a : Nat) (f : Bits) : Bits := d.take a ++ f ++ d.drop (a + f.length)

theorem setSlice_length (d : Bits) (a : Nat) (f : Bits) (h : a + f.length ≤ d.length) :
    (setSlice d a f).length = d.length := by
  simp [setSlice]; omega

theorem getD_setSlice (d : Bits) (a : Nat) (f : Bits) (h : a + f.length ≤ d.length) (i : Nat) :
    (setSlice d a f).getD i false = if a ≤ i ∧ i < a + f.length then f.getD (i - a) false else d.getD i false := by
  unfold setSlice
  simp only [List.getD_eq_getElem?_getD, List.append_assoc]
  by_cases h1 : i < a
  · rw [List.getElem?_append_left (by simp; omega)]
    simp [h1]
    intro h2; omega
  · rw [List.getElem?_append_right (by simp; omega)]
    have ht : (List.take a d).length = a := by simp; omega
    rw [ht]
    by_cases h2 : i < a + f.length
    · rw [List.getElem?_append_left (by omega)]
      simp [show a ≤ i by omega, h2]
    · rw [List.getElem?_append_right (by omega)]
      simp only [List.getElem?_drop]
      have : ¬(a ≤ i ∧ i < a + f.length) := by omega
      simp only [this, if_false]
      congr 2; omega

/-- a slice that lies inside the written field -/
theorem slice_setSlice_self (d : Bits) (a : Nat) (f : Bits) (h : a + f.length ≤ d.length) :
    slice a (a + f.length) (setSlice d a f) = f := by
  unfold setSlice
  have := slice_append_mid (d.take a) f (d.drop (a + f.length))
  have ht : (List.take a d).length = a := by simp; omega
  rw [ht] at this
  exact this

/-- a slice disjoint from the written field is unchanged -/
theorem slice_setSlice_disjoint (d : Bits) (a : Nat) (f : Bits) (h : a + f.length ≤ d.length) (x y : Nat)
    (hd : y ≤ a ∨ a + f.length ≤ x) : slice x y (setSlice d a f) = slice x y d := by
  apply List.ext_getElem?
  intro i
  simp only [slice, List.getElem?_take, List.getElem?_drop]
  split
  · rename_i hi
    have h1 := getD_setSlice d a f h (x + i)
    have hc : ¬(a ≤ x + i ∧ x + i < a + f.length) := by omega
    simp only [hc, if_false, List.getD_eq_getElem?_getD] at h1
    have l1 : (setSlice d a f).length = d.length := setSlice_length d a f h
    by_cases hx : x + i < d.length
    · rw [List.getElem?_eq_getElem (by omega), List.getElem?_eq_getElem hx] at h1 ⊢
      simpa using h1
    · rw [List.getElem?_eq_none (by omega), List.getElem?_eq_none (by omega)]
  · rfl

end PyModeS.Tot
