/-
  `tell(msg)` never raises on a 112-bit frame: every decoder it calls is called under the DF/TC
  (and TC 29 subtype) condition for which it is a value, and every label dictionary is indexed
  with a key it has.
-/
import PyModeS.Model.Tell
import PyModeS.Proofs.Commb.AdsbTotal
import PyModeS.Proofs.Commb.CommbTotal
namespace PyModeS.Tot

theorem unit_val {x : Res Unit} (h : x.isVal = true) : x = .val () := by
  obtain ⟨u, hu⟩ := Res.isVal_iff.mp h
  rw [hu]

/-- a discarded value: `let _ ← x; y` is `y` when `x` is a value -/
theorem bind_skip {α β : Type} {x : Res α} (y : Res β) (h : x.isVal = true) : (x >>= fun _ => y) = y := by
  obtain ⟨a, ha⟩ := Res.isVal_iff.mp h
  rw [ha]; rfl

theorem dictHas_123 : ∀ v, v < 4 → v ≠ 0 → dictHas [1, 2, 3] v = .val () := by decide
theorem dictHas_8 : ∀ v, v < 8 → dictHas [0, 1, 2, 3, 4, 5, 6, 7] v = .val () := by decide

theorem tellCpr_val (bits : Bits) (h : bits.length = 112) : tellCpr bits = .val () := by
  unfold tellCpr
  rw [bind_skip _ (oeFlag_isVal bits h)]
  tot_reads h

def okType (s : String) : Prop := s = "GS" ∨ s = "TAS" ∨ s = "IAS"

/-- a value whose speed type (when present) is one of the three keys of `tell`'s `types` dictionary -/
def GoodVel (x : Res (Option Velocity)) : Prop := ∃ r, x = .val r ∧ ∀ v, r = some v → okType v.spdType

theorem airborneVelocity_spdType (bits : Bits) (h : bits.length = 112) (htc : tcB bits = some 19) :
    GoodVel (airborneVelocity bits) := by
  unfold airborneVelocity
  rw [if_neg (by simp [htc])]
  extract_lets mb
  have hmb : mb.length = 80 := drop32_length h
  simp -zeta (disch := omega) only [idxR_val hmb, bin2intR_slice_val hmb, Res.bind_val, Res.pure_eq]
  extract_lets
  rename_i jp1 jp
  have hjp1 : ∀ a, GoodVel (jp1 a) := by
    intro a
    refine ⟨_, rfl, ?_⟩
    intro v hv
    simp only [Option.some.injEq] at hv
    subst hv
    simp only []
    unfold okType
    split
    · left; rfl
    · split
      · right; right; rfl
      · right; left; rfl
  have hnone : GoodVel (Res.val none) := ⟨_, rfl, fun v hv => by cases hv⟩
  have hjp : ∀ a, GoodVel (jp a) := by
    intro a
    simp only [jp]
    repeat' split
    all_goals first | exact hnone | exact hjp1 _
  repeat' split
  all_goals exact hjp _

/-! ### TC 29 -/

theorem verticalMode_val (bits : Bits) (h : bits.length = 112) (htc : tcB bits = some 29)
    (hst : bin2int (slice 37 39 bits) ≠ 1) :
    verticalMode bits = .val (if bin2int (slice 13 15 (bits.drop 32)) = 0 then none
      else some (bin2int (slice 13 15 (bits.drop 32)))) := by
  unfold verticalMode
  rw [tc29_eq bits h, if_neg (by simp [htc])]
  simp only [Res.bind_val, if_neg hst]
  tot_reads h

theorem horizontalMode_val (bits : Bits) (h : bits.length = 112) (htc : tcB bits = some 29)
    (hst : bin2int (slice 37 39 bits) ≠ 1) :
    horizontalMode bits = .val (if bin2int (slice 25 27 (bits.drop 32)) = 0 then none
      else some (bin2int (slice 25 27 (bits.drop 32)))) := by
  unfold horizontalMode
  rw [tc29_eq bits h, if_neg (by simp [htc])]
  simp only [Res.bind_val, if_neg hst]
  tot_reads h

theorem emergencyStatus_val (bits : Bits) (h : bits.length = 112) (htc : tcB bits = some 29)
    (hst : bin2int (slice 37 39 bits) ≠ 1) :
    emergencyStatus bits = .val (bin2int (slice 53 56 (bits.drop 32))) := by
  unfold emergencyStatus
  rw [tc29_eq bits h, if_neg (by simp [htc])]
  simp only [Res.bind_val, if_neg hst]
  tot_reads h

theorem tellTc29_val (bits : Bits) (h : bits.length = 112) (htc : tcB bits = some 29) :
    tellTc29 bits = .val () := by
  unfold tellTc29
  simp only []
  rw [bin2intR_slice_val (drop32_length h) 5 7 (by omega) (by omega), slice_drop32]
  simp only [Res.bind_val, Nat.reduceAdd]
  obtain ⟨tcasOp, hop⟩ := Res.isVal_iff.mp ((tcasOperational_shape bits h).1 htc)
  rw [hop]
  simp only [Res.bind_val]
  split
  · rename_i h0
    have hst : bin2int (slice 37 39 bits) ≠ 1 := by omega
    have d0 : DocV0 bits := ⟨htc, hst⟩
    rw [bind_skip _ ((targetAltitude_shape bits h).1 d0), bind_skip _ ((targetAngle_shape bits h).1 d0),
      verticalMode_val bits h htc hst, horizontalMode_val bits h htc hst, emergencyStatus_val bits h htc hst]
    obtain ⟨ra, hra⟩ := Res.isVal_iff.mp ((tcasRa_shape bits h).1 d0)
    rw [hra]
    simp only [Res.bind_val]
    have hv : bin2int (slice 13 15 (bits.drop 32)) < 4 := bin2int_slice_lt 13 15 (bits.drop 32)
    have hh : bin2int (slice 25 27 (bits.drop 32)) < 4 := bin2int_slice_lt 25 27 (bits.drop 32)
    have he : bin2int (slice 53 56 (bits.drop 32)) < 8 := bin2int_slice_lt 53 56 (bits.drop 32)
    generalize bin2int (slice 13 15 (bits.drop 32)) = a at hv ⊢
    generalize bin2int (slice 25 27 (bits.drop 32)) = b at hh ⊢
    generalize bin2int (slice 53 56 (bits.drop 32)) = e at he ⊢
    have k1 : dictHas [0, 1] 1 = .val () := rfl
    have k0 : dictHas [0, 1] 0 = .val () := rfl
    have k8 := dictHas_8 e he
    by_cases ha : a = 0 <;> by_cases hb : b = 0 <;> cases ra <;> cases tcasOp <;>
      simp [ha, hb, k1, k0, k8, dictHas_123 _ hv, dictHas_123 _ hh]
  · rename_i h0
    have d1 : DocV1 bits := ⟨htc, h0⟩
    rw [bind_skip _ ((selectedAltitude_shape bits h).1 d1), bind_skip _ ((baroPressureSetting_shape bits h).1 d1),
      bind_skip _ ((selectedHeading_shape bits h).1 d1), bind_skip _ ((modeFlag_shape 47 (by omega) bits h).1 d1),
      bind_skip _ ((modeFlag_shape 48 (by omega) bits h).1 d1), bind_skip _ ((modeFlag_shape 49 (by omega) bits h).1 d1),
      bind_skip _ ((modeFlag_shape 51 (by omega) bits h).1 d1), bind_skip _ ((modeFlag_shape 53 (by omega) bits h).1 d1)]
    tot_reads h

end PyModeS.Tot
