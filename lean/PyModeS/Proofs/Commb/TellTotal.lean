/-
  `tell(msg)` never raises on a 112-bit frame: every decoder it calls is called under the DF/TC
  (and TC 29 subtype) condition for which it is a value, and every label dictionary is indexed
  with a key it has.
-/
import PyModeS.Model.Tell
import PyModeS.Proofs.Commb.AdsbTotal
import PyModeS.Proofs.Commb.CommbTotal
namespace PyModeS.Tot

theorem unit_val {x : Res Unit} (h : x.isVal = true) : x = .val () := by
  obtain ⟨u, hu⟩ := Res.isVal_iff.mp h
  rw [hu]

/-- a discarded value: `let _ ← x; y` is `y` when `x` is a value -/
theorem bind_skip {α β : Type} {x : Res α} (y : Res β) (h : x.isVal = true) : (x >>= fun _ => y) = y := by
  obtain ⟨a, ha⟩ := Res.isVal_iff.mp h
  rw [ha]; rfl

theorem dictHas_123 : ∀ v, v < 4 → v ≠ 0 → dictHas [1, 2, 3] v = .val () := by decide
theorem dictHas_8 : ∀ v, v < 8 → dictHas [0, 1, 2, 3, 4, 5, 6, 7] v = .val () := by decide

theorem tellCpr_val (bits : Bits) (h : bits.length = 112) : tellCpr bits = .val () := by
  unfold tellCpr
  rw [bind_skip _ (oeFlag_isVal bits h)]
  tot_reads h

def okType (s : String) : Prop := s = "GS" ∨ s = "TAS" ∨ s = "IAS"

/-- a value whose speed type (when present) is one of the three keys of `tell`'s `types` dictionary -/
def GoodVel (x : Res (Option Velocity)) : Prop := ∃ r, x = .val r ∧ ∀ v, r = some v → okType v.spdType

theorem airborneVelocity_spdType (bits : Bits) (h : bits.length = 112) (htc : tcB bits = some 19) :
    GoodVel (airborneVelocity bits) := by
  unfold airborneVelocity
  rw [if_neg (by simp [htc])]
  extract_lets mb
  have hmb : mb.length = 80 := drop32_length h
  simp -zeta (disch := omega) only [idxR_val hmb, bin2intR_slice_val hmb, Res.bind_val, Res.pure_eq]
  extract_lets
  rename_i jp1 jp
  have hjp1 : ∀ a, GoodVel (jp1 a) := by
    intro a
    refine ⟨_, rfl, ?_⟩
    intro v hv
    simp only [Option.some.injEq] at hv
    subst hv
    simp only []
    unfold okType
    split
    · left; rfl
    · split
      · right; right; rfl
      · right; left; rfl
  have hnone : GoodVel (Res.val none) := ⟨_, rfl, fun v hv => by cases hv⟩
  have hjp : ∀ a, GoodVel (jp a) := by
    intro a
    simp only [jp]
    repeat' split
    all_goals first | exact hnone | exact hjp1 _
  repeat' split
  all_goals exact hjp _

/-! ### TC 29 -/

theorem verticalMode_val (bits : Bits) (h : bits.length = 112) (htc : tcB bits = some 29)
    (hst : bin2int (slice 37 39 bits) ≠ 1) :
    verticalMode bits = .val (if bin2int (slice 13 15 (bits.drop 32)) = 0 then none
      else some (bin2int (slice 13 15 (bits.drop 32)))) := by
  unfold verticalMode
  rw [tc29_eq bits h, if_neg (by simp [htc])]
  simp only [Res.bind_val, if_neg hst]
  tot_reads h

theorem horizontalMode_val (bits : Bits) (h : bits.length = 112) (htc : tcB bits = some 29)
    (hst : bin2int (slice 37 39 bits) ≠ 1) :
    horizontalMode bits = .val (if bin2int (slice 25 27 (bits.drop 32)) = 0 then none
      else some (bin2int (slice 25 27 (bits.drop 32)))) := by
  unfold horizontalMode
  rw [tc29_eq bits h, if_neg (by simp [htc])]
  simp only [Res.bind_val, if_neg hst]
  tot_reads h

theorem emergencyStatus_val (bits : Bits) (h : bits.length = 112) (htc : tcB bits = some 29)
    (hst : bin2int (slice 37 39 bits) ≠ 1) :
    emergencyStatus bits = .val (bin2int (slice 53 56 (bits.drop 32))) := by
  unfold emergencyStatus
  rw [tc29_eq bits h, if_neg (by simp [htc])]
  simp only [Res.bind_val, if_neg hst]
  tot_reads h

theorem tellTc29_val (bits : Bits) (h : bits.length = 112) (htc : tcB bits = some 29) :
    tellTc29 bits = .val () := by
  unfold tellTc29
  simp only []
  rw [bin2intR_slice_val (drop32_length h) 5 7 (by omega) (by omega), slice_drop32]
  simp only [Res.bind_val, Nat.reduceAdd]
  obtain ⟨tcasOp, hop⟩ := Res.isVal_iff.mp ((tcasOperational_shape bits h).1 htc)
  rw [hop]
  simp only [Res.bind_val]
  split
  · rename_i h0
    have hst : bin2int (slice 37 39 bits) ≠ 1 := by omega
    have d0 : DocV0 bits := ⟨htc, hst⟩
    rw [bind_skip _ ((targetAltitude_shape bits h).1 d0), bind_skip _ ((targetAngle_shape bits h).1 d0),
      verticalMode_val bits h htc hst, horizontalMode_val bits h htc hst, emergencyStatus_val bits h htc hst]
    obtain ⟨ra, hra⟩ := Res.isVal_iff.mp ((tcasRa_shape bits h).1 d0)
    rw [hra]
    simp only [Res.bind_val]
    have hv : bin2int (slice 13 15 (bits.drop 32)) < 4 := bin2int_slice_lt 13 15 (bits.drop 32)
    have hh : bin2int (slice 25 27 (bits.drop 32)) < 4 := bin2int_slice_lt 25 27 (bits.drop 32)
    have he : bin2int (slice 53 56 (bits.drop 32)) < 8 := bin2int_slice_lt 53 56 (bits.drop 32)
    generalize bin2int (slice 13 15 (bits.drop 32)) = a at hv ⊢
    generalize bin2int (slice 25 27 (bits.drop 32)) = b at hh ⊢
    generalize bin2int (slice 53 56 (bits.drop 32)) = e at he ⊢
    have k1 : dictHas [0, 1] 1 = .val () := rfl
    have k0 : dictHas [0, 1] 0 = .val () := rfl
    have k8 := dictHas_8 e he
    by_cases ha : a = 0 <;> by_cases hb : b = 0 <;> cases ra <;> cases tcasOp <;>
      simp [ha, hb, k1, k0, k8, dictHas_123 _ hv, dictHas_123 _ hh]
  · rename_i h0
    have d1 : DocV1 bits := ⟨htc, h0⟩
    have a1 : (autopilot bits).isVal = true := (modeFlag_shape 47 (by omega) bits h).1 d1
    have a2 : (vnavMode bits).isVal = true := (modeFlag_shape 48 (by omega) bits h).1 d1
    have a3 : (altitudeHoldMode bits).isVal = true := (modeFlag_shape 49 (by omega) bits h).1 d1
    have a4 : (approachMode bits).isVal = true := (modeFlag_shape 51 (by omega) bits h).1 d1
    have a5 : (lnavMode bits).isVal = true := (modeFlag_shape 53 (by omega) bits h).1 d1
    rw [bind_skip _ ((selectedAltitude_shape bits h).1 d1), bind_skip _ ((baroPressureSetting_shape bits h).1 d1),
      bind_skip _ ((selectedHeading_shape bits h).1 d1), bind_skip _ a1, bind_skip _ a2, bind_skip _ a3,
      bind_skip _ a4, bind_skip _ a5]
    tot_reads h

/-! ### ADS-B branch -/

theorem callsignChars_length : Tables.callsignChars.length = 64 := by decide

theorem tellAdsb_val (bits : Bits) (h : bits.length = 112) : tellAdsb bits = .val () := by
  unfold tellAdsb
  cases htc : tcB bits with
  | none => rfl
  | some tc =>
    simp -zeta only []
    extract_lets
    rename_i j5 j4 j3 j2 j1
    have h5 : ∀ r, j5 r = .val () := by
      intro r
      simp only [j5]
      split
      · rename_i h29; subst h29; exact tellTc29_val bits h htc
      · rfl
    have h4 : ∀ r, j4 r = .val () := by
      intro r
      simp only [j4]
      split
      · rw [bind_skip _ ((adsbAltitude_shape bits h).1 ⟨tc, htc, by omega⟩), tellCpr_val bits h]
        simp only [Res.bind_val]; exact h5 ()
      · exact h5 ()
    have h3 : ∀ r, j3 r = .val () := by
      intro r
      simp only [j3]
      split
      · rename_i h19
        subst h19
        obtain ⟨v, hr, hgood⟩ := airborneVelocity_spdType bits h htc
        rw [hr]
        simp only [Res.bind_val]
        cases v with
        | none => exact h4 ()
        | some v =>
          simp only []
          have : (v.spdType == "GS" || v.spdType == "TAS" || v.spdType == "IAS") = true := by
            rcases hgood v rfl with hg | hg | hg <;> rw [hg] <;> rfl
          rw [if_pos this]
          exact h4 ()
      · exact h4 ()
    have h2 : ∀ r, j2 r = .val () := by
      intro r
      simp only [j2]
      split
      · rw [bind_skip _ ((adsbAltitude_shape bits h).1 ⟨tc, htc, by omega⟩), tellCpr_val bits h]
        simp only [Res.bind_val]; exact h3 ()
      · exact h3 ()
    have h1 : ∀ r, j1 r = .val () := by
      intro r
      simp only [j1]
      split
      · rw [tellCpr_val bits h]
        simp only [Res.bind_val]
        rw [bind_skip _ ((surfaceVelocity_shape bits h).1 ⟨tc, htc, by assumption⟩)]
        exact h2 ()
      · exact h2 ()
    split
    · rw [bind_skip _ ((callsign_shape callsignChars_length bits h).1 ⟨tc, htc, by assumption⟩)]
      exact h1 ()
    · exact h1 ()

/-! ### Comm-B branch -/

theorem tellCommb_val (ias : Rat → Int → Rat) (bits : Bits) (h : bits.length = 112) :
    tellCommb ias bits = .val () := by
  unfold tellCommb
  obtain ⟨bds, hb⟩ := Res.isVal_iff.mp (infer_isVal ias bits true h)
  rw [hb]
  simp only [Res.bind_val]
  split
  · rw [bind_skip _ (cs20_isVal bits h)]; rfl
  · rw [bind_skip _ (selalt40mcp_isVal bits h), bind_skip _ (selalt40fms_isVal bits h),
      bind_skip _ (p40baro_isVal bits h)]; rfl
  · rw [bind_skip _ (roll50_isVal bits h), bind_skip _ (trk50_isVal bits h), bind_skip _ (rtrk50_isVal bits h),
      bind_skip _ (gs50_isVal bits h), bind_skip _ (tas50_isVal bits h)]; rfl
  · rw [bind_skip _ (hdg60_isVal bits h), bind_skip _ (ias60_isVal bits h), bind_skip _ (mach60_isVal bits h),
      bind_skip _ (vr60baro_isVal bits h), bind_skip _ (vr60ins_isVal bits h)]; rfl
  · rw [bind_skip _ (wind44_isVal bits h), bind_skip _ (temp44_isVal bits h), bind_skip _ (p44_isVal bits h),
      bind_skip _ (hum44_isVal bits h), bind_skip _ (turb44_isVal bits h)]; rfl
  · rw [bind_skip _ (turb45_isVal bits h), bind_skip _ (ws45_isVal bits h), bind_skip _ (mb45_isVal bits h),
      bind_skip _ (ic45_isVal bits h), bind_skip _ (wv45_isVal bits h), bind_skip _ (temp45_isVal bits h),
      bind_skip _ (p45_isVal bits h), bind_skip _ (rh45_isVal bits h)]; rfl
  · rfl

/-! ### tell -/

theorem altcodeB_isVal_df20 (bits : Bits) (h : bits.length = 112) (hd : dfB bits = 20) :
    (altcodeB bits).isVal = true := by
  unfold altcodeB
  simp only []
  rw [if_neg (by omega)]
  exact altitude13_isVal _ (by rw [slice_length_of_le (by omega)])

theorem idcodeB_isVal_df21 (bits : Bits) (h : bits.length = 112) (hd : dfB bits = 21) :
    (idcodeB bits).isVal = true := by
  unfold idcodeB
  simp only []
  rw [if_neg (by omega)]
  exact squawk_isVal _ (by rw [slice_length_of_le (by omega)])

theorem tell_val (ias : Rat → Int → Rat) (bits : Bits) (h : bits.length = 112) : tell ias bits = .val () := by
  unfold tell
  extract_lets
  rename_i d j3 j2 j1
  have h3 : ∀ r, j3 r = .val () := by
    intro r
    simp only [j3]
    split
    · exact tellCommb_val ias bits h
    · rfl
  have h2 : ∀ r, j2 r = .val () := by
    intro r
    simp only [j2]
    split
    · rw [bind_skip _ (idcodeB_isVal_df21 bits h (by assumption))]; exact h3 ()
    · exact h3 ()
  have h1 : ∀ r, j1 r = .val () := by
    intro r
    simp only [j1]
    split
    · rw [bind_skip _ (altcodeB_isVal_df20 bits h (by assumption))]; exact h2 ()
    · exact h2 ()
  split
  · rw [tellAdsb_val bits h]; exact h1 ()
  · exact h1 ()

end PyModeS.Tot
