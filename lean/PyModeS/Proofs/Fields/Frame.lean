/-
  Frame-level field access: on a frame of known length every `bin2intR (slice a b …)` and every
  `idxR … i` of the ADS-B model succeeds and returns the named slice / bit; the generic
  "TC-guarded single-field" decoder, the common TC 29 prologue, and reading fields back out of `build`.
-/
import PyModeS.Proofs.Bits
import PyModeS.Model.Adsb
namespace PyModeS.Fields

/-! ### reading a field of a frame of known length -/

theorem bin2intR_slice {bits : Bits} {n : Nat} (h : bits.length = n) (a b : Nat) (hab : a < b) (hb : b ≤ n) :
    bin2intR (slice a b bits) = .val (bin2int (slice a b bits)) :=
  bin2intR_of_length (by rw [slice_length_of_le (by omega)]; omega)

theorem bin2intR_slice_drop {bits : Bits} {n : Nat} (h : bits.length = n) (k a b : Nat) (hab : a < b)
    (hb : k + b ≤ n) :
    bin2intR (slice a b (bits.drop k)) = .val (bin2int (slice (k + a) (k + b) bits)) := by
  rw [slice_drop]; exact bin2intR_slice h _ _ (by omega) hb

theorem idxR_drop {bits : Bits} (k i : Nat) (hi : k + i < bits.length) :
    idxR (bits.drop k) i = .val (bits[k + i]'hi) := by
  rw [idxR_eq (by simp; omega)]; simp

/-- the width of a slice bounds its value -/
theorem bin2int_slice_lt (bits : Bits) (a b : Nat) : bin2int (slice a b bits) < 2 ^ (b - a) := by
  have h1 := bin2int_lt (slice a b bits)
  have h2 : (slice a b bits).length ≤ b - a := by simp [slice]; omega
  exact Nat.lt_of_lt_of_le h1 (Nat.pow_le_pow_right (by omega) h2)

/-- a type code is a 5-bit number -/
theorem tcB_lt {bits : Bits} {tc : Nat} (h : tcB bits = some tc) : tc < 32 := by
  unfold tcB at h
  simp only at h
  split at h
  · have := bin2int_slice_lt bits 32 37
    simp only [Option.some.injEq] at h
    omega
  · simp at h

/-! ### TC-guarded single-field decoders -/

/-- "TC must be `t`, then read the unsigned field `[a, b)` of the frame" -/
def guardedField (t a b : Nat) (bits : Bits) : Res Nat :=
  if tcB bits ≠ some t then .rte else bin2intR (slice a b bits)

theorem guardedField_spec {bits : Bits} {n : Nat} (h : bits.length = n) (t a b : Nat) (hab : a < b) (hb : b ≤ n) :
    guardedField t a b bits = if tcB bits = some t then .val (bin2int (slice a b bits)) else .rte := by
  unfold guardedField
  rw [bin2intR_slice h a b hab hb]
  by_cases c : tcB bits = some t <;> simp [c]

/-! ### bds62 (TC 29): common prologue -/

theorem tc29_val {bits : Bits} (h : bits.length = 112) (htc : tcB bits = some 29) :
    tc29 bits = .val (bits.drop 32, bin2int (slice 37 39 bits)) := by
  unfold tc29
  simp only [htc, ne_eq, not_true_eq_false, if_false]
  rw [bin2intR_slice_drop h 32 5 7 (by omega) (by omega)]
  rfl

theorem tc29_rte {bits : Bits} (htc : tcB bits ≠ some 29) : tc29 bits = .rte := by
  unfold tc29; simp [htc]

/-- the 2-bit subtype field of a TC 29 message -/
theorem subtype29_lt (bits : Bits) : bin2int (slice 37 39 bits) < 4 := bin2int_slice_lt bits 37 39

/-! ### reading single bits / fields back out of `build` -/

theorem natToBits_one (b : Bool) : natToBits 1 (b2n b) = [b] := by cases b <;> rfl

/-- a one-bit slice determines the bit -/
theorem getElem_of_slice {l : Bits} {i : Nat} {b : Bool} (hi : i < l.length) (h : slice i (i + 1) l = [b]) :
    l[i] = b := by
  have h2 := congrArg (fun x => x[0]?) h
  simp only [slice, List.getElem?_take, List.getElem?_drop] at h2
  simpa [hi] using h2

/-- DF and TC of a frame that starts with the fields DF (5), CA (3), ICAO (24), TC (5) -/
theorem tcB_of_slices {bits : Bits} {df tc : Nat} (hdf : df = 17 ∨ df = 18) (htc : tc < 32)
    (h0 : slice 0 5 bits = natToBits 5 df) (h1 : slice 32 37 bits = natToBits 5 tc) :
    tcB bits = some tc := by
  unfold tcB dfB
  rw [h0, h1, bin2int_natToBits_of_lt (by omega : df < 2 ^ 5), bin2int_natToBits_of_lt (by omega : tc < 2 ^ 5)]
  rcases hdf with rfl | rfl <;> simp

end PyModeS.Fields
