/- `hex2binM` commutes with slicing: string-level functions of py_common agree with their
   bit-level forms (`df`, `typecode`, `altcode`, `idcode`). -/
import PyModeS.Proofs.Bits
import PyModeS.Model.Misc
namespace PyModeS

theorem flatMap_const_length {α β} (f : α → List β) (c : Nat) (hf : ∀ x, (f x).length = c) (l : List α) :
    (l.flatMap f).length = c * l.length := by
  induction l with
  | nil => simp
  | cons a l ih => simp [List.flatMap_cons, hf, ih, Nat.mul_succ]; omega

theorem flatMap_take_const {α β} (f : α → List β) (c : Nat) (hf : ∀ x, (f x).length = c) (l : List α) (k : Nat) :
    (l.take k).flatMap f = (l.flatMap f).take (c * k) := by
  induction l generalizing k with
  | nil => simp
  | cons a l ih =>
    cases k with
    | zero => simp
    | succ k =>
      simp only [List.take_succ_cons, List.flatMap_cons]
      rw [ih k, List.take_append, hf a]
      have h1 : c * (k + 1) - c = c * k := by rw [Nat.mul_succ]; omega
      rw [h1]
      have h2 : List.take (c * (k + 1)) (f a) = f a := by
        apply List.take_of_length_le; rw [hf a, Nat.mul_succ]; omega
      rw [h2]

theorem flatMap_drop_const {α β} (f : α → List β) (c : Nat) (hf : ∀ x, (f x).length = c) (l : List α) (k : Nat) :
    (l.drop k).flatMap f = (l.flatMap f).drop (c * k) := by
  induction l generalizing k with
  | nil => simp
  | cons a l ih =>
    cases k with
    | zero => simp
    | succ k =>
      simp only [List.drop_succ_cons, List.flatMap_cons]
      rw [ih k, List.drop_append, hf a]
      have h1 : c * (k + 1) - c = c * k := by rw [Nat.mul_succ]; omega
      rw [h1]
      have h2 : List.drop (c * (k + 1)) (f a) = [] := by
        apply List.drop_eq_nil_of_le; rw [hf a, Nat.mul_succ]; omega
      rw [h2]; simp

theorem hex2binM_length (m : Msg) : (hex2binM m).length = 4 * m.length :=
  flatMap_const_length _ 4 (fun _ => natToBits_length 4 _) m

theorem hex2binM_take (m : Msg) (k : Nat) : hex2binM (m.take k) = (hex2binM m).take (4 * k) :=
  flatMap_take_const _ 4 (fun _ => natToBits_length 4 _) m k

theorem hex2binM_drop (m : Msg) (k : Nat) : hex2binM (m.drop k) = (hex2binM m).drop (4 * k) :=
  flatMap_drop_const _ 4 (fun _ => natToBits_length 4 _) m k

theorem hex2binM_slice (m : Msg) (a b : Nat) : hex2binM (slice a b m) = slice (4 * a) (4 * b) (hex2binM m) := by
  unfold slice
  rw [hex2binM_take, hex2binM_drop, Nat.mul_sub]

theorem slice_slice_zero {α} (a b : Nat) (l : List α) (h : a ≤ b) : slice 0 a (l.take b) = slice 0 a l := by
  simp [slice, List.take_take, Nat.min_eq_left h]

/-- py_common.df on the hex string = the DF field of the bit string -/
theorem df_eq (m : Msg) : df m = dfB (hex2binM m) := by
  unfold df dfB
  rw [hex2binM_take]
  rw [slice_slice_zero 5 8 _ (by omega)]

/-- py_common.typecode on the hex string = TC field of the bit string -/
theorem typecode_eq (m : Msg) : typecode m = tcB (hex2binM m) := by
  unfold typecode tcB
  rw [df_eq, hex2binM_slice]
  have : slice 0 5 (slice (4 * 8) (4 * 10) (hex2binM m)) = slice 32 37 (hex2binM m) := by
    simp only [slice, List.drop_zero, List.take_take]
    congr 1
  rw [this]

theorem altcode_eq (m : Msg) : altcode m = altcodeB (hex2binM m) := by
  unfold altcode altcodeB; rw [df_eq]

theorem idcode_eq (m : Msg) : idcode m = idcodeB (hex2binM m) := by
  unfold idcode idcodeB; rw [df_eq]

end PyModeS
