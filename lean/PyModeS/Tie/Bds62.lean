/-
  Tie: generated `bds62.py` (ADS-B TC 29, target state and status) = hand model (`Model/Adsb.lean`)
  on every 28-digit hex frame.  The decoders read the whole frame (`hex2bin(msg)`, `mb = msgbin[32:]`).
  Helper lemmas are `private` (the same ones are in `Tie/Bds61.lean`).
-/
import PyModeS.Tie.Basic
import PyModeS.Generated.Src.bds62
import Mathlib.Tactic.SplitIfs

-- symbolic execution of long generated `do` blocks: generous but finite budget (proof times are seconds)
set_option maxHeartbeats 1000000

set_option linter.unusedSimpArgs false
set_option linter.unusedTactic false
set_option linter.unreachableTactic false
namespace PyModeS.Tie
open PyModeS PyModeS.Py PyModeS.CRC

/-- Python `None` / `True` / `False` -/
def ofOptBool : Option Bool → Val
  | none => .none
  | some b => .bool b

/-- `common.typecode(msg)` in terms of the bit string of the frame -/
private theorem typecode_hex (m : Msg) (h : IsHex m) (hl : 10 ≤ m.length) :
    Gen.py_common.typecode (.str m) = .val (Val.ofOptNat (tcB (hex2binM m))) := by
  rw [typecode_str m h hl, typecode_eq]

/-- `typecode(msg) != k` -/
private theorem pyNe_ofOptNat (o : Option Nat) (k : Nat) :
    pyNe (Val.ofOptNat o) (.num (k : Rat)) = .val (.bool (decide (o ≠ some k))) := by
  rcases o with _ | n
  · simp [pyNe, Val.ofOptNat, Val.beq]
  · simp only [pyNe, Val.ofOptNat, Val.beq]
    by_cases e : n = k
    · simp [e]
    · have : ¬ ((n : Rat) = (k : Rat)) := by exact_mod_cast e
      simp [e, this]

/-- a natural number compared with a numeric literal in `Rat` -/
@[simp] private theorem natCast_eq_lit (n k : Nat) [k.AtLeastTwo] :
    ((n : Rat) = ofNat(k)) ↔ n = ofNat(k) := by
  rw [← Nat.cast_ofNat (R := Rat)]; exact Nat.cast_inj

private theorem frame_length (m : Msg) (hl : m.length = 28) : (hex2binM m).length = 112 := by
  rw [hex2binM_length, hl]

set_option hygiene false in
/-- common opening of an ADS-B decoder that reads the whole frame: the type code test becomes a test on
    `tcB bits`, and both sides read the 112-bit frame `bits` -/
macro "adsb62_open" m:ident h:ident hl:ident k:term : tactic => `(tactic|
  (have hne : $m ≠ [] := by intro e; rw [e] at $hl:ident; simp at $hl:ident
   have hk := pyNe_ofOptNat (tcB (hex2binM $m)) $k
   simp only [Nat.cast_ofNat] at hk
   simp only [typecode_hex $m $h (by omega), Res.bind_val, hk, pyTruth_bool, hex2bin_str $m $h hne,
     pySliceFrom_ofBits]
   have hb := frame_length $m $hl
   generalize hex2binM $m = bits at hb ⊢))

set_option hygiene false in
/-- name the ME field `mb = bits[32:]` (80 bits: ME and parity) and forget the frame -/
macro "adsb62_mb" : tactic => `(tactic|
  (have hd : (List.drop 32 bits).length = 80 := by rw [List.length_drop, hb]
   generalize tcB bits = tc
   generalize List.drop 32 bits = d at hd ⊢))

set_option hygiene false in
macro "adsb62_close" : tactic => `(tactic|
  (by_cases htc : tc = some 29 <;>
    simp [htc, idxR_of_lt, hd, bin2intR_slice_of_lt, Val.ofNat, Val.ofOptRat, Val.ofOptNat, Val.ofOptInt, ofOptBool, b2n]
   all_goals try (split_ifs <;> simp_all [Val.ofOptRat, Val.ofOptNat, Val.ofOptInt, ofOptBool, b2n])
   all_goals try (split_ifs <;> simp_all [Val.ofOptRat, Val.ofOptNat, Val.ofOptInt, ofOptBool, b2n])
   all_goals try push_cast
   all_goals try ring))

theorem emergency_status_tie (m : Msg) (h : IsHex m) (hl : m.length = 28) :
    Gen.bds62.emergency_status (.str m) = (PyModeS.emergencyStatus (hex2binM m) >>= fun n => .val (Val.ofNat n)) := by
  unfold Gen.bds62.emergency_status PyModeS.emergencyStatus PyModeS.tc29
  adsb62_open m h hl 29
  adsb62_mb
  adsb62_close

theorem tcas_ra_tie (m : Msg) (h : IsHex m) (hl : m.length = 28) :
    Gen.bds62.tcas_ra (.str m) = (PyModeS.tcasRa (hex2binM m) >>= fun r => .val (.bool r)) := by
  unfold Gen.bds62.tcas_ra PyModeS.tcasRa PyModeS.tc29
  adsb62_open m h hl 29
  adsb62_mb
  adsb62_close

theorem tcas_operational_tie (m : Msg) (h : IsHex m) (hl : m.length = 28) :
    Gen.bds62.tcas_operational (.str m) = (PyModeS.tcasOperational (hex2binM m) >>= fun r => .val (.bool r)) := by
  unfold Gen.bds62.tcas_operational PyModeS.tcasOperational PyModeS.tc29
  adsb62_open m h hl 29
  adsb62_mb
  adsb62_close

theorem vertical_mode_tie (m : Msg) (h : IsHex m) (hl : m.length = 28) :
    Gen.bds62.vertical_mode (.str m) = (PyModeS.verticalMode (hex2binM m) >>= fun r => .val (Val.ofOptNat r)) := by
  unfold Gen.bds62.vertical_mode PyModeS.verticalMode PyModeS.tc29
  adsb62_open m h hl 29
  adsb62_mb
  adsb62_close

theorem horizontal_mode_tie (m : Msg) (h : IsHex m) (hl : m.length = 28) :
    Gen.bds62.horizontal_mode (.str m) = (PyModeS.horizontalMode (hex2binM m) >>= fun r => .val (Val.ofOptNat r)) := by
  unfold Gen.bds62.horizontal_mode PyModeS.horizontalMode PyModeS.tc29
  adsb62_open m h hl 29
  adsb62_mb
  adsb62_close

theorem autopilot_tie (m : Msg) (h : IsHex m) (hl : m.length = 28) :
    Gen.bds62.autopilot (.str m) = (PyModeS.autopilot (hex2binM m) >>= fun r => .val (ofOptBool r)) := by
  unfold Gen.bds62.autopilot PyModeS.autopilot PyModeS.modeFlag PyModeS.tc29
  adsb62_open m h hl 29
  adsb62_mb
  adsb62_close

theorem vnav_mode_tie (m : Msg) (h : IsHex m) (hl : m.length = 28) :
    Gen.bds62.vnav_mode (.str m) = (PyModeS.vnavMode (hex2binM m) >>= fun r => .val (ofOptBool r)) := by
  unfold Gen.bds62.vnav_mode PyModeS.vnavMode PyModeS.modeFlag PyModeS.tc29
  adsb62_open m h hl 29
  adsb62_mb
  adsb62_close

theorem altitude_hold_mode_tie (m : Msg) (h : IsHex m) (hl : m.length = 28) :
    Gen.bds62.altitude_hold_mode (.str m) = (PyModeS.altitudeHoldMode (hex2binM m) >>= fun r => .val (ofOptBool r)) := by
  unfold Gen.bds62.altitude_hold_mode PyModeS.altitudeHoldMode PyModeS.modeFlag PyModeS.tc29
  adsb62_open m h hl 29
  adsb62_mb
  adsb62_close

theorem approach_mode_tie (m : Msg) (h : IsHex m) (hl : m.length = 28) :
    Gen.bds62.approach_mode (.str m) = (PyModeS.approachMode (hex2binM m) >>= fun r => .val (ofOptBool r)) := by
  unfold Gen.bds62.approach_mode PyModeS.approachMode PyModeS.modeFlag PyModeS.tc29
  adsb62_open m h hl 29
  adsb62_mb
  adsb62_close

theorem lnav_mode_tie (m : Msg) (h : IsHex m) (hl : m.length = 28) :
    Gen.bds62.lnav_mode (.str m) = (PyModeS.lnavMode (hex2binM m) >>= fun r => .val (ofOptBool r)) := by
  unfold Gen.bds62.lnav_mode PyModeS.lnavMode PyModeS.modeFlag PyModeS.tc29
  adsb62_open m h hl 29
  adsb62_mb
  adsb62_close

theorem baro_pressure_setting_tie (m : Msg) (h : IsHex m) (hl : m.length = 28) :
    Gen.bds62.baro_pressure_setting (.str m) = (PyModeS.baroPressureSetting (hex2binM m) >>= fun r => .val (Val.ofOptRat r)) := by
  unfold Gen.bds62.baro_pressure_setting PyModeS.baroPressureSetting PyModeS.tc29
  adsb62_open m h hl 29
  adsb62_mb
  adsb62_close

theorem selected_heading_tie (m : Msg) (h : IsHex m) (hl : m.length = 28) :
    Gen.bds62.selected_heading (.str m) = (PyModeS.selectedHeading (hex2binM m) >>= fun r => .val (Val.ofOptRat r)) := by
  unfold Gen.bds62.selected_heading PyModeS.selectedHeading PyModeS.tc29
  adsb62_open m h hl 29
  adsb62_mb
  adsb62_close

/-- Python returns `(alt | None, source text)` -/
theorem selected_altitude_tie (m : Msg) (h : IsHex m) (hl : m.length = 28) :
    Gen.bds62.selected_altitude (.str m) =
      (PyModeS.selectedAltitude (hex2binM m) >>= fun r => .val (.tuple [Val.ofOptNat r.1, .str r.2.toList])) := by
  unfold Gen.bds62.selected_altitude PyModeS.selectedAltitude PyModeS.tc29
  adsb62_open m h hl 29
  adsb62_mb
  by_cases htc : tc = some 29 <;>
    simp [htc, idxR_of_lt, hd, bin2intR_slice_of_lt, Val.ofNat, Val.ofOptNat]
  split_ifs <;> simp_all [Val.ofOptNat]
  all_goals
    rw [Nat.cast_sub (Nat.pos_of_ne_zero ‹¬ PyModeS.bin2int (slice 9 20 d) = 0›)]
    push_cast
    trivial

/-- Python returns `(alt | None, source text, reference text)` -/
theorem target_altitude_tie (m : Msg) (h : IsHex m) (hl : m.length = 28) :
    Gen.bds62.target_altitude (.str m) =
      (PyModeS.targetAltitude (hex2binM m) >>= fun r =>
        .val (.tuple [Val.ofOptInt r.1, .str r.2.1.toList, .str r.2.2.toList])) := by
  unfold Gen.bds62.target_altitude PyModeS.targetAltitude PyModeS.tc29
  adsb62_open m h hl 29
  adsb62_mb
  adsb62_close

/-- Python returns `(angle | None, angle type text, source text)` -/
theorem target_angle_tie (m : Msg) (h : IsHex m) (hl : m.length = 28) :
    Gen.bds62.target_angle (.str m) =
      (PyModeS.targetAngle (hex2binM m) >>= fun r =>
        .val (.tuple [Val.ofOptNat r.1, .str r.2.1.toList, .str r.2.2.toList])) := by
  unfold Gen.bds62.target_angle PyModeS.targetAngle PyModeS.tc29
  adsb62_open m h hl 29
  adsb62_mb
  adsb62_close

end PyModeS.Tie
