/-
  Tie: generated `bds44.py` = hand model (`Model/Commb.lean`) on every 28-digit hex frame.
-/
import PyModeS.Tie.Basic
import PyModeS.Generated.Src.bds44
import Mathlib.Tactic.SplitIfs

-- symbolic execution of long generated `do` blocks: generous but finite budget (proof times are seconds)
set_option maxHeartbeats 1000000

set_option linter.unusedSimpArgs false
set_option linter.unusedTactic false
set_option linter.unreachableTactic false
set_option linter.unnecessarySeqFocus false
namespace PyModeS.Tie
open PyModeS PyModeS.Py PyModeS.CRC

/-- Python result of `wind44`: `(speed, direction)`, or `(None, None)` when the status bit is 0 -/
def encWind44 : Option (Nat × Rat) → Val
  | none => .tuple [.none, .none]
  | some (s, dir) => .tuple [Val.ofNat s, .num dir]

/-- Python result of `temp44`: `(temp, temp_alternative)` -/
def encTemp44 (t : Rat × Rat) : Val := .tuple [.num t.1, .num t.2]

theorem wind44_tie (m : Msg) (h : IsHex m) (hl : m.length = 28) :
    Gen.bds44.wind44 (.str m) = (PyModeS.wind44 (hex2binM m) >>= fun o => .val (encWind44 o)) := by
  unfold Gen.bds44.wind44 PyModeS.wind44
  commb_open m h hl
  simp [idxR_of_lt, hd, bin2intR_slice_of_lt, Val.ofNat, encWind44, pyNot, Val.truth]
  split_ifs <;> simp_all [encWind44, Val.ofNat]

theorem temp44_tie (m : Msg) (h : IsHex m) (hl : m.length = 28) :
    Gen.bds44.temp44 (.str m) = (PyModeS.temp44 (hex2binM m) >>= fun t => .val (encTemp44 t)) := by
  unfold Gen.bds44.temp44 PyModeS.temp44
  commb_open m h hl
  simp [idxR_of_lt, hd, bin2intR_slice_of_lt, Val.ofNat, encTemp44]
  split_ifs <;> simp_all [encTemp44] <;> (try push_cast) <;> (try constructor) <;> ring_nf

theorem p44_tie (m : Msg) (h : IsHex m) (hl : m.length = 28) :
    Gen.bds44.p44 (.str m) = (PyModeS.p44 (hex2binM m) >>= fun o => .val (Val.ofOptRat o)) := by
  unfold Gen.bds44.p44 PyModeS.p44
  commb_open m h hl
  commb_close

theorem hum44_tie (m : Msg) (h : IsHex m) (hl : m.length = 28) :
    Gen.bds44.hum44 (.str m) = (PyModeS.hum44 (hex2binM m) >>= fun o => .val (Val.ofOptRat o)) := by
  unfold Gen.bds44.hum44 PyModeS.hum44
  commb_open m h hl
  commb_close

theorem turb44_tie (m : Msg) (h : IsHex m) (hl : m.length = 28) :
    Gen.bds44.turb44 (.str m) = (PyModeS.turb44 (hex2binM m) >>= fun o => .val (Val.ofOptRat o)) := by
  unfold Gen.bds44.turb44 PyModeS.turb44
  commb_open m h hl
  commb_close

theorem pyMin2_num (a b : Rat) : pyMin2 (.num a) (.num b) = .val (.num (min a b)) := by
  simp only [pyMin2, num?_num]
  by_cases hlt : b < a
  · simp [hlt, min_eq_right (le_of_lt hlt)]
  · simp [hlt, min_eq_left (not_lt.mp hlt)]

theorem pyMax2_num (a b : Rat) : pyMax2 (.num a) (.num b) = .val (.num (max a b)) := by
  simp only [pyMax2, num?_num]
  by_cases hlt : a < b
  · simp [hlt, max_eq_right (le_of_lt hlt)]
  · simp [hlt, max_eq_left (not_lt.mp hlt)]

theorem is44_tie (m : Msg) (h : IsHex m) (hl : m.length = 28) :
    Gen.bds44.is44 (.str m) = (PyModeS.is44 (hex2binM m) >>= fun b => .val (.bool b)) := by
  unfold Gen.bds44.is44 PyModeS.is44
  simp only [allzeros_str m h hl, allzerosB_hex m hl, wind44_tie m h hl, temp44_tie m h hl]
  simp only [data_str, Res.bind_val, hex2bin_data m h hl, dataR_hex m hl]
  have hd := mb_length m hl
  generalize slice 32 88 (hex2binM m) = d at hd ⊢
  have w1 := ws_lit d 5 6 23 (by decide) (by decide)
  have w2 := ws_lit d 35 36 46 (by decide) (by decide)
  have w3 := ws_lit d 47 48 49 (by decide) (by decide)
  have w4 := ws_lit d 50 51 56 (by decide) (by decide)
  simp only [Nat.cast_ofNat, Nat.cast_one] at w1 w2 w3 w4
  simp only [w1, w2, w3, w4, statusOk]
  by_cases hz : PyModeS.bin2int d = 0
  · simp [hz]
  simp only [hz, decide_false, pyTruth_bool, Bool.false_eq_true, if_false]
  res_bool (PyModeS.wrongstatus d 5 6 23)
  res_bool (PyModeS.wrongstatus d 35 36 46)
  res_bool (PyModeS.wrongstatus d 47 48 49)
  res_bool (PyModeS.wrongstatus d 50 51 56)
  generalize PyModeS.wind44 (hex2binM m) = rw
  generalize PyModeS.temp44 (hex2binM m) = rt
  rcases rw with ((_ | ⟨vw, dw⟩) | _ | _) <;> rcases rt with (⟨t1, t2⟩ | _ | _) <;>
    simp [hd, bin2intR_slice_of_lt, Val.ofNat, encWind44, encTemp44, pyUnpackCheck, pyIdxN, pyMin2_num, pyMax2_num,
      pyIsNot, Val.beq, -lt_inf_iff, -sup_lt_iff] <;>
    (try split_ifs) <;> simp_all [-lt_inf_iff, -sup_lt_iff] <;>
    (rename_i h1 h2
     rcases h2 with h2 | h2
     · have := lt_min_iff.mp h2
       rcases h1 with h1 | h1 <;> linarith [this.1, this.2]
     · exact max_lt_iff.mp h2)

end PyModeS.Tie
