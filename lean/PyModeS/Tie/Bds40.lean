/-
  Tie: generated `bds40.py` = hand model (`Model/Commb.lean`) on every 28-digit hex frame.
-/
import PyModeS.Tie.Basic
import PyModeS.Generated.Src.bds40
import Mathlib.Tactic.SplitIfs

-- symbolic execution of long generated `do` blocks: generous but finite budget (proof times are seconds)
set_option maxHeartbeats 1000000

set_option linter.unusedSimpArgs false
set_option linter.unusedTactic false
set_option linter.unreachableTactic false
namespace PyModeS.Tie
open PyModeS PyModeS.Py PyModeS.CRC

theorem selalt40mcp_tie (m : Msg) (h : IsHex m) (hl : m.length = 28) :
    Gen.bds40.selalt40mcp (.str m) = (PyModeS.selalt40mcp (hex2binM m) >>= fun o => .val (Val.ofOptRat o)) := by
  unfold Gen.bds40.selalt40mcp PyModeS.selalt40mcp
  commb_open m h hl
  commb_close

theorem selalt40fms_tie (m : Msg) (h : IsHex m) (hl : m.length = 28) :
    Gen.bds40.selalt40fms (.str m) = (PyModeS.selalt40fms (hex2binM m) >>= fun o => .val (Val.ofOptRat o)) := by
  unfold Gen.bds40.selalt40fms PyModeS.selalt40fms
  commb_open m h hl
  commb_close

theorem p40baro_tie (m : Msg) (h : IsHex m) (hl : m.length = 28) :
    Gen.bds40.p40baro (.str m) = (PyModeS.p40baro (hex2binM m) >>= fun o => .val (Val.ofOptRat o)) := by
  unfold Gen.bds40.p40baro PyModeS.p40baro
  commb_open m h hl
  commb_close

/-- deprecated wrapper: `alt40mcp(msg)` just calls `selalt40mcp(msg)` -/
theorem alt40mcp_tie (m : Msg) (h : IsHex m) (hl : m.length = 28) :
    Gen.bds40.alt40mcp (.str m) = (PyModeS.selalt40mcp (hex2binM m) >>= fun o => .val (Val.ofOptRat o)) := by
  unfold Gen.bds40.alt40mcp
  rw [selalt40mcp_tie m h hl]

/-- deprecated wrapper: `alt40fms(msg)` just calls `selalt40fms(msg)` -/
theorem alt40fms_tie (m : Msg) (h : IsHex m) (hl : m.length = 28) :
    Gen.bds40.alt40fms (.str m) = (PyModeS.selalt40fms (hex2binM m) >>= fun o => .val (Val.ofOptRat o)) := by
  unfold Gen.bds40.alt40fms
  rw [selalt40fms_tie m h hl]

theorem is40_tie (m : Msg) (h : IsHex m) (hl : m.length = 28) :
    Gen.bds40.is40 (.str m) = (PyModeS.is40 (hex2binM m) >>= fun b => .val (.bool b)) := by
  unfold Gen.bds40.is40 PyModeS.is40
  simp only [allzeros_str m h hl, allzerosB_hex m hl]
  simp only [data_str, Res.bind_val, hex2bin_data m h hl, dataR_hex m hl]
  have hd := mb_length m hl
  generalize slice 32 88 (hex2binM m) = d at hd ⊢
  have w1 := ws_lit d 1 2 13 (by decide) (by decide)
  have w2 := ws_lit d 14 15 26 (by decide) (by decide)
  have w3 := ws_lit d 27 28 39 (by decide) (by decide)
  have w4 := ws_lit d 48 49 51 (by decide) (by decide)
  have w5 := ws_lit d 54 55 56 (by decide) (by decide)
  simp only [Nat.cast_ofNat, Nat.cast_one] at w1 w2 w3 w4 w5
  simp only [w1, w2, w3, w4, w5, statusOk]
  by_cases hz : PyModeS.bin2int d = 0
  · simp [hz]
  simp only [hz, decide_false, pyTruth_bool, Bool.false_eq_true, if_false]
  res_bool (PyModeS.wrongstatus d 1 2 13)
  res_bool (PyModeS.wrongstatus d 14 15 26)
  res_bool (PyModeS.wrongstatus d 27 28 39)
  res_bool (PyModeS.wrongstatus d 48 49 51)
  res_bool (PyModeS.wrongstatus d 54 55 56)
  simp [hd, bin2intR_slice_of_lt, Val.ofNat]
  split_ifs <;> simp_all

end PyModeS.Tie
