/-
  Tie for `RtlReader._process_buffer` (extra/rtlreader.py, property C19): the generated method on the receiver
  dictionary against `demodLoop` / `processBuffer` of Model/Demod.lean.

  Abstraction: the receiver is a dictionary `l` with `signal_buffer` = the list of samples `encRats buf.toList`,
  `noise_floor` = `Val.num nf0`, `debug` = any value; `(noiseFloor, Array Rat)` of the hand model is `(nf0, buf)`.
-/
import PyModeS.Tie.Rtl
import PyModeS.Proofs.Demod.Loop

-- symbolic execution of long generated `do` blocks: generous but finite budget (proof times are seconds)
set_option maxHeartbeats 1000000

set_option linter.style.nameCheck false
set_option linter.unusedSimpArgs false
set_option linter.unusedVariables false
open PyModeS PyModeS.Py PyModeS.CRC PyModeS.Tie PyModeS.Tie.Rtl PyModeS.Tie.CrcTie PyModeS.Demod
namespace PyModeS.Tie.RtlBuf

/-! ### attribute dictionaries with string keys (as in Tie/RawReader.lean) -/

theorem dictFind_cons (k k' v : Val) (l : List (Val × Val)) :
    dictFind ((k', v) :: l) k = if Val.beq k k' then some v else dictFind l k := by
  unfold dictFind
  rw [List.find?_cons]
  by_cases h : Val.beq k k' = true
  · simp [h]
  · simp [h]

theorem setPair_cons (k k' v v' : Val) (l : List (Val × Val)) :
    setPair k v ((k', v') :: l) = if Val.beq k k' then (k', v) :: l else (k', v') :: setPair k v l := rfl

theorem beq_str_str (a b : List Char) : Val.beq (.str a) (.str b) = (a == b) := by simp [Val.beq]

theorem beq_str_iff (a : List Char) (k : Val) : Val.beq (.str a) k = true ↔ k = .str a := by
  cases k with
  | str b => rw [beq_str_str]; simp only [beq_iff_eq, Val.str.injEq]; exact eq_comm
  | none => simp [Val.beq]
  | bool b => simp [Val.beq]
  | num b => simp [Val.beq]
  | tuple b => simp [Val.beq]
  | dict b => simp [Val.beq]

theorem dictFind_setPair_same (a : List Char) (v : Val) (l : List (Val × Val)) :
    dictFind (setPair (.str a) v l) (.str a) = some v := by
  induction l with
  | nil => simp [setPair, dictFind_cons, beq_str_str]
  | cons kv l ih =>
    obtain ⟨k', v'⟩ := kv
    rw [setPair_cons]
    by_cases hb : Val.beq (.str a) k' = true
    · rw [if_pos hb, dictFind_cons, if_pos hb]
    · rw [if_neg hb, dictFind_cons, if_neg hb, ih]

theorem dictFind_setPair_ne (a b : List Char) (h : a ≠ b) (v : Val) (l : List (Val × Val)) :
    dictFind (setPair (.str a) v l) (.str b) = dictFind l (.str b) := by
  induction l with
  | nil => simp [setPair, dictFind_cons, beq_str_str, Ne.symm h]
  | cons kv l ih =>
    obtain ⟨k', v'⟩ := kv
    rw [setPair_cons]
    by_cases hb : Val.beq (.str a) k' = true
    · rw [if_pos hb]
      have hk := (beq_str_iff a k').1 hb
      subst hk
      simp [dictFind_cons, beq_str_str, Ne.symm h]
    · rw [if_neg hb, dictFind_cons, dictFind_cons, ih]

/-! ### encodings -/

/-- `msgbin`: a list of the integers 0 / 1 -/
def encB (bits : List Bool) : Val := .tuple (bits.map fun b => Val.num (if b then 1 else 0))

/-- the returned `[msg, ts]` list; `time.time()` is `0` in the generated model (`Ext.time_time`) -/
def encStamped (l : List Msg) : Val := .tuple (l.map fun m => .tuple [.str m, .num 0])

theorem pyAppend_encStamped (xs : List Msg) (c : Msg) :
    pyAppend (encStamped xs) (.tuple [.str c, .num 0]) = .val (encStamped (xs ++ [c])) := by
  simp [pyAppend, encStamped]

theorem pyAppend_encB (xs : List Bool) (c : Bool) :
    pyAppend (encB xs) (.num (if c then 1 else 0)) = .val (encB (xs ++ [c])) := by
  simp [pyAppend, encB]

theorem pyLen_encB (xs : List Bool) : pyLen (encB xs) = .val (Val.ofNat xs.length) := by
  simp [pyLen, encB]

/-! ### slices of the sample list -/

theorem sliceList_nn {α} (l : List α) (a c : Nat) :
    sliceList l (some (a : Int)) (some (c : Int)) = (l.drop a).take (c - a) := by
  simp only [sliceList, normBound_nonneg, slice]
  rcases Nat.lt_or_ge l.length a with hlt | hge
  · rw [Nat.min_eq_right (Nat.le_of_lt hlt), List.drop_eq_nil_of_le (Nat.le_refl _),
      List.drop_eq_nil_of_le (Nat.le_of_lt hlt)]
    simp
  · rw [Nat.min_eq_left hge]
    rcases Nat.lt_or_ge l.length c with hlt2 | hge2
    · rw [Nat.min_eq_right (Nat.le_of_lt hlt2)]
      rw [List.take_of_length_le (by simp only [List.length_drop]; omega),
        List.take_of_length_le (by simp only [List.length_drop]; omega)]
    · rw [Nat.min_eq_left hge2]

theorem optInt_ofNat (n : Nat) : optInt (some (Val.ofNat n)) = .val (some (n : Int)) := by
  have := int?_ofNat n
  unfold Val.ofNat at this ⊢
  simp only [optInt, this]

/-- `l[a:c]` -/
theorem pySlice_rats (b : List Rat) (a c : Nat) :
    pySlice (encRats b) (some (Val.ofNat a)) (some (Val.ofNat c)) = .val (encRats ((b.drop a).take (c - a))) := by
  simp only [pySlice, optInt_ofNat, bind_val', encRats, sliceList_nn, List.map_take, List.map_drop]

/-- `l[a:]` -/
theorem pySlice_rats_from (b : List Rat) (a : Nat) :
    pySlice (encRats b) (some (Val.ofNat a)) none = .val (encRats (b.drop a)) := by
  have i1 : optInt none = .val none := rfl
  simp only [pySlice, optInt_ofNat, i1, bind_val', encRats, sliceList, normBound_nonneg, List.length_map, slice]
  congr 2
  rw [← List.map_drop]
  rcases Nat.lt_or_ge b.length a with hlt | hge
  · rw [Nat.min_eq_right (Nat.le_of_lt hlt), List.drop_eq_nil_of_le (Nat.le_of_lt hlt)]
    simp
  · rw [Nat.min_eq_left hge, List.take_of_length_le (by simp)]

/-! ### `max(frame_pulses)` -/

theorem argBest_max (qs : List Rat) : ∀ (pre : List Rat) (j : Nat) (b : Rat), pre[j]? = some b →
    ∃ i q, argBest (fun q b => decide (b < q)) (qs.map Val.num) pre.length (some (j, b)) = some (i, q) ∧
      (pre ++ qs)[i]? = some q ∧ q = qs.foldl max b := by
  induction qs with
  | nil =>
    intro pre j b hj
    exact ⟨j, b, rfl, by simpa using hj, rfl⟩
  | cons x qs ih =>
    intro pre j b hj
    have hjl : j < pre.length := by
      rcases Nat.lt_or_ge j pre.length with h | h
      · exact h
      · rw [List.getElem?_eq_none h] at hj; cases hj
    simp only [List.map_cons, argBest, num?_num, List.foldl_cons]
    have hpre : (pre ++ [x]).length = pre.length + 1 := by simp
    by_cases hx : b < x
    · have hmax : max b x = x := max_eq_right (le_of_lt hx)
      obtain ⟨i, q, h1, h2, h3⟩ := ih (pre ++ [x]) pre.length x (by simp)
      refine ⟨i, q, ?_, ?_, ?_⟩
      · rw [hpre] at h1; simpa [hx] using h1
      · simpa using h2
      · rw [hmax]; exact h3
    · have hmax : max b x = b := max_eq_left (not_lt.mp hx)
      obtain ⟨i, q, h1, h2, h3⟩ := ih (pre ++ [x]) j b (by rw [List.getElem?_append_left hjl]; exact hj)
      refine ⟨i, q, ?_, ?_, ?_⟩
      · rw [hpre] at h1; simpa [hx] using h1
      · simpa using h2
      · rw [hmax]; exact h3

theorem pyMaxList_nil : pyMaxList (encRats []) = .exc := rfl

theorem pyMaxList_cons (m : Rat) (ms : List Rat) :
    pyMaxList (encRats (m :: ms)) = .val (.num (ms.foldl max m)) := by
  obtain ⟨i, q, h1, h2, h3⟩ := argBest_max ms [m] 0 m rfl
  simp only [pyMaxList, encRats, List.map_cons, argBest, num?_num]
  simp only [List.length_singleton, Nat.zero_add] at h1
  rw [h1]
  simp only [List.singleton_append] at h2
  have : (Val.num m :: ms.map Val.num)[i]? = some (Val.num q) := by
    rw [← List.map_cons, List.getElem?_map, h2]; rfl
  simp only [this, h3]

/-! ### `pms.bin2hex("".join([str(i) for i in msgbin]))` -/

theorem pyStr_bit (b : Bool) : pyStr (.num (if b then 1 else 0)) = .val (.str [b.toDigit]) := by
  cases b <;> rfl

theorem compList_str (F : Val → Res (Option Val))
    (hF : ∀ b : Bool, F (Val.num (if b then 1 else 0)) = .val (some (.str [b.toDigit]))) (bits : List Bool) :
    compList F (bits.map fun b => Val.num (if b then 1 else 0)) = .val (bits.map fun b => .str [b.toDigit]) := by
  induction bits with
  | nil => rfl
  | cons b bits ih =>
    simp only [List.map_cons, compList, hF, ih]

theorem intercalate_nil_singletons (cs : List Char) : ([] : List Char).intercalate (cs.map fun c => [c]) = cs := by
  induction cs with
  | nil => rfl
  | cons c cs ih =>
    cases cs with
    | nil => rfl
    | cons d cs =>
      simp only [List.map_cons, List.intercalate, List.intersperse] at ih ⊢
      simp only [List.flatten_cons, List.nil_append, List.singleton_append] at ih ⊢
      rw [ih]

theorem mapM_strs (F : Val → Option (List Char)) (hF : ∀ t, F (.str t) = some t) (ss : List (List Char)) :
    (ss.map Val.str).mapM F = some ss := by
  induction ss with
  | nil => rfl
  | cons t ss ih => rw [List.map_cons, List.mapM_cons, hF, ih]; rfl

theorem join_bits (bits : List Bool) :
    pyJoin (Val.str []) (.tuple (bits.map fun b => .str [b.toDigit])) = .val (Val.ofBits bits) := by
  have e : (bits.map fun b => Val.str [b.toDigit]) = ((bits.map Bool.toDigit).map fun c => [c]).map Val.str := by
    simp only [List.map_map]; rfl
  unfold pyJoin
  simp only []
  rw [e, mapM_strs _ (fun t => rfl)]
  simp only [intercalate_nil_singletons, Val.ofBits]

theorem pyComp_bits (bits : List Bool) :
    pyComp (encB bits) (fun x__5 => do
        let r ← pyStr x__5
        Res.val (some r)) = .val (.tuple (bits.map fun b => .str [b.toDigit])) := by
  simp only [pyComp, encB, CrcTie.pyIter_tuple, bind_val', Res.pure_eq]
  rw [compList_str _ (fun b => by simp only [pyStr_bit, bind_val']), bind_val']

theorem bin2hex_ofBits (bits : List Bool) (hne : bits ≠ []) :
    Gen.py_common.bin2hex (Val.ofBits bits) = .val (.str (bin2hexNoPad bits)) := by
  have hpos : 0 < bits.length := List.length_pos_of_ne_nil hne
  unfold Gen.py_common.bin2hex
  simp only [pyInt2_ofBits, bin2intR_of_length hpos, bind_val', pyFmtHexU, int?_ofNat, Res.pure_eq, bin2hexNoPad]
  simp

theorem pair_idx0 (a b : Rat) : pyIdxN (encRats [a, b]) 0 = .val (.num a) := rfl
theorem pair_idx1 (a b : Rat) : pyIdxN (encRats [a, b]) 1 = .val (.num b) := rfl
theorem pair_len (a b : Rat) : decide ([a, b].length < 2) = false := rfl

theorem pyAppend_encB_one (xs : List Bool) : pyAppend (encB xs) (.num 1) = .val (encB (xs ++ [true])) :=
  pyAppend_encB xs true
theorem pyAppend_encB_zero (xs : List Bool) : pyAppend (encB xs) (.num 0) = .val (encB (xs ++ [false])) :=
  pyAppend_encB xs false

theorem hexdig : ∀ d, d < 16 → (hexVal? (Nat.digitChar d).toUpper).isSome = true := by decide

theorem isHex_bin2hexNoPad (bits : List Bool) : IsHex (bin2hexNoPad bits) := by
  unfold bin2hexNoPad
  generalize PyModeS.bin2int bits = n
  induction n using Nat.strong_induction_on with
  | _ n ih =>
    rw [Nat.toDigits_eq_if (by decide)]
    split
    · rename_i h
      intro c hc
      simp only [List.map_cons, List.map_nil, List.mem_singleton] at hc
      subst hc
      exact hexdig n h
    · rename_i h
      intro c hc
      rw [List.map_append, List.mem_append] at hc
      rcases hc with hc | hc
      · exact ih (n / 16) (by omega) c hc
      · simp only [List.map_cons, List.map_nil, List.mem_singleton] at hc
        subst hc
        exact hexdig (n % 16) (Nat.mod_lt _ (by decide))

theorem bin2hexNoPad_ne_nil (bits : List Bool) : bin2hexNoPad bits ≠ [] := by
  unfold bin2hexNoPad
  rw [Nat.toDigits_eq_if (by decide)]
  split <;> simp

/-! ### the bit-slicing loop `for j in range(0, frame_length, 2)` -/

/-- the mutable variables of the inner loop: `msgbin, j, j_2, p2, c` -/
abbrev S5 := Val × Val × Val × Val × Val

/-- a body that breaks / appends a bit as `sliceBits` does makes the loop compute `sliceBits` -/
theorem slice_loop (fp : List Rat) (thr : Rat) (g : Val → S5 → Res (ForInStep S5))
    (hbrk : ∀ (jn : Nat) (st : S5) (acc : List Bool), st.1 = encB acc →
      (∀ a b, (fp.drop jn).take 2 = [a, b] → (a < thr ∧ b < thr)) →
      Post (g (Val.ofNat jn) st) (fun r => ∃ st', r = .done st' ∧ st'.1 = encB acc ∧ st'.2.1 = Val.ofNat jn))
    (hcont : ∀ (jn : Nat) (st : S5) (acc : List Bool) (a b : Rat), st.1 = encB acc →
      (fp.drop jn).take 2 = [a, b] → ¬ (a < thr ∧ b < thr) →
      Post (g (Val.ofNat jn) st) (fun r => ∃ st', r = .yield st' ∧ st'.1 = encB (acc ++ [decide (a ≥ b)]) ∧
        st'.2.1 = Val.ofNat jn)) :
    ∀ (fuel j0 : Nat) (acc : List Bool) (st : S5), st.1 = encB acc →
      Post (forIn ((List.range' j0 (fuel + 1) 2).map Val.ofNat) st g)
        (fun st' => st'.1 = encB (sliceBits fp thr (fuel + 1) j0 acc).1 ∧
          st'.2.1 = Val.ofNat (sliceBits fp thr (fuel + 1) j0 acc).2) := by
  intro fuel
  induction fuel with
  | zero =>
    intro j0 acc st hst
    rw [sliceBits]
    simp only [List.range'_succ, List.range'_zero, List.map_cons, List.map_nil, List.forIn_cons, List.forIn_nil]
    generalize hp : (fp.drop j0).take 2 = p2
    rcases p2 with _ | ⟨a, _ | ⟨b, _ | ⟨c, t⟩⟩⟩
    · refine Post.bind (hbrk j0 st acc hst (by rw [hp]; intro a b h; cases h)) ?_
      rintro _ ⟨st', rfl, h1, h2⟩
      exact Post.val ⟨h1, h2⟩
    · refine Post.bind (hbrk j0 st acc hst (by rw [hp]; intro a b h; cases h)) ?_
      rintro _ ⟨st', rfl, h1, h2⟩
      exact Post.val ⟨h1, h2⟩
    · by_cases hlow : a < thr ∧ b < thr
      · refine Post.bind (hbrk j0 st acc hst (by
          rw [hp]; intro a' b' h; simp only [List.cons.injEq, and_true] at h; rw [← h.1, ← h.2]; exact hlow)) ?_
        rintro _ ⟨st', rfl, h1, h2⟩
        simp only [hlow, and_self, if_true]
        exact Post.val ⟨h1, h2⟩
      · refine Post.bind (hcont j0 st acc a b hst hp hlow) ?_
        rintro _ ⟨st', rfl, h1, h2⟩
        simp only [hlow, if_false, if_true]
        exact Post.val ⟨h1, h2⟩
    · refine Post.bind (hbrk j0 st acc hst (by rw [hp]; intro a b h; simp at h)) ?_
      rintro _ ⟨st', rfl, h1, h2⟩
      exact Post.val ⟨h1, h2⟩
  | succ fuel ih =>
    intro j0 acc st hst
    rw [sliceBits]
    rw [List.range'_succ, List.map_cons, List.forIn_cons]
    generalize hp : (fp.drop j0).take 2 = p2
    rcases p2 with _ | ⟨a, _ | ⟨b, _ | ⟨c, t⟩⟩⟩
    · refine Post.bind (hbrk j0 st acc hst (by rw [hp]; intro a b h; cases h)) ?_
      rintro _ ⟨st', rfl, h1, h2⟩
      exact Post.val ⟨h1, h2⟩
    · refine Post.bind (hbrk j0 st acc hst (by rw [hp]; intro a b h; cases h)) ?_
      rintro _ ⟨st', rfl, h1, h2⟩
      exact Post.val ⟨h1, h2⟩
    · by_cases hlow : a < thr ∧ b < thr
      · refine Post.bind (hbrk j0 st acc hst (by
          rw [hp]; intro a' b' h; simp only [List.cons.injEq, and_true] at h; rw [← h.1, ← h.2]; exact hlow)) ?_
        rintro _ ⟨st', rfl, h1, h2⟩
        simp only [hlow, and_self, if_true]
        exact Post.val ⟨h1, h2⟩
      · refine Post.bind (hcont j0 st acc a b hst hp hlow) ?_
        rintro _ ⟨st', rfl, h1, h2⟩
        simp only [hlow, if_false, Nat.add_eq_zero_iff, Nat.succ_ne_zero, and_false]
        exact ih (j0 + 2) _ st' h1
    · refine Post.bind (hbrk j0 st acc hst (by rw [hp]; intro a b h; simp at h)) ?_
      rintro _ ⟨st', rfl, h1, h2⟩
      exact Post.val ⟨h1, h2⟩

/-! ### the `while i < buffer_length` loop -/

/-- the mutable variables of the loop: `self, frame_start, frame_length, frame_end, frame_pulses, threshold, msgbin,
    j, j_2, p2, c, msghex, messages, i` and the fuel flag -/
abbrev S := Val × Val × Val × Val × Val × Val × Val × Val × Val × Val × Val × Val × Val × Val × Bool

/-- what the loop state is required to hold: `self`, `messages`, `i` and the flag (the scratch variables are
    unconstrained) -/
def Rel (selfR : Val) (st : S) (i : Nat) (out : List Msg) (fl : Bool) : Prop :=
  st.1 = selfR ∧ st.2.2.2.2.2.2.2.2.2.2.2.2.1 = encStamped out ∧ st.2.2.2.2.2.2.2.2.2.2.2.2.2.1 = Val.ofNat i ∧
    st.2.2.2.2.2.2.2.2.2.2.2.2.2.2 = fl

/-- the generated loop ends as `demodLoop` does -/
def Sim (selfR : Val) (r : Res S) (m : Res (List Msg × Nat)) : Prop :=
  match m with
  | .val (out, i) => ∃ st', r = .val st' ∧ Rel selfR st' i out false
  | .rte => r = .rte
  | .exc => r = .exc

theorem demod_loop (buf : Array Rat) (minAmp : Rat) (selfR : Val) (f : Nat → S → Res (ForInStep S))
    (hdone : ∀ x st i out, Rel selfR st i out true → buf.size ≤ i →
      Post (f x st) (fun r => ∃ st', r = .done st' ∧ Rel selfR st' i out false))
    (hskip : ∀ x st i out, Rel selfR st i out true → i < buf.size → buf.getD i 0 < minAmp →
      Post (f x st) (fun r => ∃ st', r = .yield st' ∧ Rel selfR st' (i + 1) out true))
    (hnopre : ∀ x st i out, Rel selfR st i out true → i < buf.size → ¬ buf.getD i 0 < minAmp →
      checkPreamble (buf.extract i (i + Tables.rtlPbits * 2)).toList = false →
      Post (f x st) (fun r => ∃ st', r = .yield st' ∧ Rel selfR st' (i + 1) out true))
    (hexc : ∀ x st i out, Rel selfR st i out true → i < buf.size → ¬ buf.getD i 0 < minAmp →
      checkPreamble (buf.extract i (i + Tables.rtlPbits * 2)).toList = true →
      (buf.extract (i + Tables.rtlPbits * 2) (i + Tables.rtlPbits * 2 + (Tables.rtlFbits + 1) * 2)).toList = [] →
      f x st = .exc)
    (hframe : ∀ x st i out, Rel selfR st i out true → i < buf.size → ¬ buf.getD i 0 < minAmp →
      checkPreamble (buf.extract i (i + Tables.rtlPbits * 2)).toList = true → ∀ y ys,
      (buf.extract (i + Tables.rtlPbits * 2) (i + Tables.rtlPbits * 2 + (Tables.rtlFbits + 1) * 2)).toList = y :: ys →
      Post (f x st) (fun r => ∃ st', r = .yield st' ∧ Rel selfR st'
        (i + Tables.rtlPbits * 2 +
          (sliceBits (y :: ys) (ys.foldl max y * (1 / 5)) ((Tables.rtlFbits + 1) * 2 / 2) 0 []).2)
        (frameOut out (sliceBits (y :: ys) (ys.foldl max y * (1 / 5)) ((Tables.rtlFbits + 1) * 2 / 2) 0 []).1)
        true)) :
    ∀ (n i : Nat) (out : List Msg), buf.size ≤ i + n → ∀ (a r : Nat), n < r → ∀ st, Rel selfR st i out true →
      Sim selfR (forIn (List.range' a r 1) st f) (demodLoop buf minAmp n i out) := by
  intro n
  induction n with
  | zero =>
    intro i out hn a r hr st hrel
    obtain ⟨r', rfl⟩ : ∃ r', r = r' + 1 := ⟨r - 1, by omega⟩
    obtain ⟨_, h1, st', rfl, h2⟩ := hdone a st i out hrel (by omega)
    rw [demodLoop_zero, List.range'_succ, List.forIn_cons, h1, bind_val']
    exact ⟨st', rfl, h2⟩
  | succ n ih =>
    intro i out hn a r hr st hrel
    obtain ⟨r', rfl⟩ : ∃ r', r = r' + 1 := ⟨r - 1, by omega⟩
    rw [List.range'_succ, List.forIn_cons, demodLoop_succ]
    by_cases h1 : i ≥ buf.size
    · obtain ⟨_, e1, st', rfl, e2⟩ := hdone a st i out hrel h1
      rw [if_pos h1, e1, bind_val']
      exact ⟨st', rfl, e2⟩
    · rw [if_neg h1]
      by_cases h2 : buf.getD i 0 < minAmp
      · obtain ⟨_, e1, st', rfl, e2⟩ := hskip a st i out hrel (by omega) h2
        rw [if_pos h2, e1, bind_val']
        exact ih (i + 1) out (by omega) (a + 1) r' (by omega) st' e2
      · rw [if_neg h2]
        by_cases h3 : checkPreamble (buf.extract i (i + Tables.rtlPbits * 2)).toList = true
        · rw [if_pos h3]
          generalize hfp : (buf.extract (i + Tables.rtlPbits * 2)
            (i + Tables.rtlPbits * 2 + (Tables.rtlFbits + 1) * 2)).toList = fp
          cases fp with
          | nil =>
            rw [hexc a st i out hrel (by omega) h2 h3 hfp, bind_exc']
            rfl
          | cons y ys =>
            obtain ⟨_, e1, st', rfl, e2⟩ := hframe a st i out hrel (by omega) h2 h3 y ys hfp
            rw [e1, bind_val']
            exact ih _ _ (by have := rtlPbits_eq; omega) (a + 1) r' (by omega) st' e2
        · have h3' : checkPreamble (buf.extract i (i + Tables.rtlPbits * 2)).toList = false := by
            cases hc : checkPreamble (buf.extract i (i + Tables.rtlPbits * 2)).toList
            · rfl
            · exact absurd hc h3
          obtain ⟨_, e1, st', rfl, e2⟩ := hnopre a st i out hrel (by omega) h2 h3'
          rw [if_neg h3, e1, bind_val']
          exact ih (i + 1) out (by omega) (a + 1) r' (by omega) st' e2

/-- the same in continuation form (so that `f` and `K` are found by unification with the goal) -/
theorem demod_loop_cont (buf : Array Rat) (minAmp : Rat) (selfR : Val) (f : Nat → S → Res (ForInStep S))
    (K : S → Res Val) (Rm : List Msg × Nat → Res Val)
    (hdone : ∀ x st i out, Rel selfR st i out true → buf.size ≤ i →
      Post (f x st) (fun r => ∃ st', r = .done st' ∧ Rel selfR st' i out false))
    (hskip : ∀ x st i out, Rel selfR st i out true → i < buf.size → buf.getD i 0 < minAmp →
      Post (f x st) (fun r => ∃ st', r = .yield st' ∧ Rel selfR st' (i + 1) out true))
    (hnopre : ∀ x st i out, Rel selfR st i out true → i < buf.size → ¬ buf.getD i 0 < minAmp →
      checkPreamble (buf.extract i (i + Tables.rtlPbits * 2)).toList = false →
      Post (f x st) (fun r => ∃ st', r = .yield st' ∧ Rel selfR st' (i + 1) out true))
    (hexc : ∀ x st i out, Rel selfR st i out true → i < buf.size → ¬ buf.getD i 0 < minAmp →
      checkPreamble (buf.extract i (i + Tables.rtlPbits * 2)).toList = true →
      (buf.extract (i + Tables.rtlPbits * 2) (i + Tables.rtlPbits * 2 + (Tables.rtlFbits + 1) * 2)).toList = [] →
      f x st = .exc)
    (hframe : ∀ x st i out, Rel selfR st i out true → i < buf.size → ¬ buf.getD i 0 < minAmp →
      checkPreamble (buf.extract i (i + Tables.rtlPbits * 2)).toList = true → ∀ y ys,
      (buf.extract (i + Tables.rtlPbits * 2) (i + Tables.rtlPbits * 2 + (Tables.rtlFbits + 1) * 2)).toList = y :: ys →
      Post (f x st) (fun r => ∃ st', r = .yield st' ∧ Rel selfR st'
        (i + Tables.rtlPbits * 2 +
          (sliceBits (y :: ys) (ys.foldl max y * (1 / 5)) ((Tables.rtlFbits + 1) * 2 / 2) 0 []).2)
        (frameOut out (sliceBits (y :: ys) (ys.foldl max y * (1 / 5)) ((Tables.rtlFbits + 1) * 2 / 2) 0 []).1)
        true))
    (r : Nat) (hr : buf.size + 1 < r) (st : S) (hrel : Rel selfR st 0 [] true)
    (hK : ∀ st' out i, Rel selfR st' i out false → K st' = Rm (out, i)) :
    (forIn (List.range' 0 r 1) st f >>= K) = (demodLoop buf minAmp (buf.size + 1) 0 [] >>= Rm) := by
  have h := demod_loop buf minAmp selfR f hdone hskip hnopre hexc hframe (buf.size + 1) 0 [] (by omega) 0 r hr st hrel
  unfold Sim at h
  cases hd : demodLoop buf minAmp (buf.size + 1) 0 [] with
  | val p =>
    obtain ⟨out, i⟩ := p
    rw [hd] at h
    obtain ⟨st', e1, e2⟩ := h
    rw [e1, bind_val', bind_val']
    exact hK st' out i e2
  | rte => rw [hd] at h; rw [h]; rfl
  | exc => rw [hd] at h; rw [h]; rfl

/-! ### small facts used to step through the body -/

theorem pyLt_ofNat (a b : Nat) : pyLt (Val.ofNat a) (Val.ofNat b) = .val (.bool (decide (a < b))) := by
  simp [Val.ofNat]

theorem pyGt_ofNat_zero' (b : Nat) : pyGt (Val.ofNat b) (Val.num 0) = .val (.bool (decide (0 < b))) := by
  simp [Val.ofNat]

theorem pyLt_ofNat_two (b : Nat) : pyLt (Val.ofNat b) (Val.num 2) = .val (.bool (decide (b < 2))) := by
  have : ((b : Rat) < 2) ↔ b < 2 := by exact_mod_cast Iff.rfl
  simp [Val.ofNat, this]

theorem pyAdd_ofNat_one (a : Nat) : pyAdd (Val.ofNat a) (Val.num 1) = .val (Val.ofNat (a + 1)) := by
  simp [Val.ofNat]

theorem pyAdd_ofNat_two (a : Nat) : pyAdd (Val.ofNat a) (Val.num 2) = .val (Val.ofNat (a + 2)) := by
  simp [Val.ofNat]

theorem pbits2 : pyMul Gen.rtlreader.pbits (Val.num 2) = .val (Val.ofNat 16) := by
  simp only [Gen.rtlreader.pbits, pyMul_num, Val.ofNat]; norm_num

theorem fbits1 : pyAdd Gen.rtlreader.fbits (Val.num 1) = .val (Val.ofNat 113) := by
  simp only [Gen.rtlreader.fbits, pyAdd_num, Val.ofNat]; norm_num

theorem mul113 : pyMul (Val.ofNat 113) (Val.num 2) = .val (Val.ofNat 226) := by
  simp only [pyMul_num, Val.ofNat]; norm_num

theorem idx2_0 (a b : Val) : pyIdxN (Val.tuple [a, b]) 0 = .val a := rfl
theorem idx2_1 (a b : Val) : pyIdxN (Val.tuple [a, b]) 1 = .val b := rfl

theorem range'_map (s step : Nat) : ∀ n, List.range' s n step = (List.range n).map (fun i => s + step * i)
  | 0 => rfl
  | n + 1 => by rw [List.range'_concat, range'_map s step n, List.range_succ, List.map_append]; rfl

/-- `range(0, 226, 2)` -/
theorem range226 : pyRange3 (Val.num 0) (Val.ofNat 226) (Val.num 2) =
    .val (.tuple ((List.range' 0 113 2).map Val.ofNat)) := by
  have h2 : (Val.num 2).int? = some 2 := by simpa using int?_natLit 2
  simp only [pyRange3, int?_zero, int?_ofNat, h2]
  have : ((((226 : Nat) : Int) - 0 + 2 - 1) / 2).toNat = 113 := by decide
  simp only [this]
  rw [range'_map, List.map_map]
  norm_num
  intro a _
  simp [Val.ofNat, mul_comm]

theorem attr_ne (a b : String) (h : a.toList ≠ b.toList) (v : Val) (l : List (Val × Val)) :
    pyGetAttr (.dict (setPair (attrKey a) v l)) b = pyGetAttr (.dict l) b := by
  simp only [pyGetAttr, attrKey, dictFind_setPair_ne _ _ h]

theorem attr_same (a : String) (v : Val) (l : List (Val × Val)) :
    pyGetAttr (.dict (setPair (attrKey a) v l)) a = .val v := by
  simp only [pyGetAttr, attrKey, dictFind_setPair_same]

theorem pyMin2_num (a b : Rat) : pyMin2 (.num a) (.num b) = .val (.num (min a b)) := by
  simp only [pyMin2, num?_num]
  by_cases h : b < a
  · rw [if_pos h, min_eq_right (le_of_lt h)]
  · rw [if_neg h, min_eq_left (not_lt.mp h)]

end PyModeS.Tie.RtlBuf

namespace PyModeS.Tie
open PyModeS.Tie.RtlBuf

/-- `_process_buffer()` on a receiver `l` whose `signal_buffer` holds the samples `buf`, `noise_floor` the number
    `nf0` and `debug` any value: the noise floor becomes `min(calcNoise buf, nf0)`, the returned `[msg, ts]` list
    is the output of `demodLoop` (every `ts` is the `0` of `Ext.time_time`), and `signal_buffer` is cut at the final
    index.  The buffer must be shorter than the `whileFuel` = 2^20 iterations granted to the generated `while`. -/
theorem RtlReader__process_buffer_tie (l : List (Val × Val)) (buf : Array Rat) (nf0 : Rat) (dbg : Val)
    (hbuf : dictFind l (attrKey "signal_buffer") = some (encRats buf.toList))
    (hnf : dictFind l (attrKey "noise_floor") = some (.num nf0))
    (hdbg : dictFind l (attrKey "debug") = some dbg)
    (hlen : buf.size + 1 < whileFuel) :
    Gen.rtlreader.RtlReader__process_buffer (.dict l) =
      (calcNoise buf >>= fun q =>
        demodLoop buf ((3162 : Rat) / 1000 * min q nf0) (buf.size + 1) 0 [] >>= fun p =>
          .val (.tuple [.dict (setPair (attrKey "signal_buffer") (encRats (buf.toList.drop p.2))
              (setPair (attrKey "noise_floor") (.num (min q nf0)) l)), encStamped p.1])) := by
  unfold Gen.rtlreader.RtlReader__process_buffer
  simp only []
  rw [RtlReader__calc_noise_tie l buf hbuf]
  cases calcNoise buf with
  | rte => rfl
  | exc => rfl
  | val q =>
    have hsb0 : pyGetAttr (.dict l) "signal_buffer" = .val (encRats buf.toList) := by simp only [pyGetAttr, hbuf]
    have hnf0 : pyGetAttr (.dict l) "noise_floor" = .val (.num nf0) := by simp only [pyGetAttr, hnf]
    have hdbg0 : pyGetAttr (.dict l) "debug" = .val dbg := by simp only [pyGetAttr, hdbg]
    have hset : pySetAttr (.dict l) "noise_floor" (.num (min q nf0)) =
        .val (.dict (setPair (attrKey "noise_floor") (.num (min q nf0)) l)) := rfl
    have hsb := (attr_ne "noise_floor" "signal_buffer" (by decide) (.num (min q nf0)) l).trans hsb0
    have hdb := (attr_ne "noise_floor" "debug" (by decide) (.num (min q nf0)) l).trans hdbg0
    have hamp : (1581 : Rat) / 500 * min q nf0 = (3162 : Rat) / 1000 * min q nf0 := by norm_num
    rw [bind_val', bind_val', idx2_1, bind_val', hnf0, bind_val', pyMin2_num, bind_val', hset, bind_val', attr_same,
      bind_val', pyMul_num, bind_val', hsb, bind_val', pyLen_rats, bind_val', hamp, bind_val']
    generalize hself : Val.dict (setPair (attrKey "noise_floor") (.num (min q nf0)) l) = selfR at hsb hdb ⊢
    generalize (3162 : Rat) / 1000 * min q nf0 = minAmp
    simp only [Std.Legacy.Range.forIn_eq_forIn_range', Std.Legacy.Range.size]
    simp only [Nat.sub_zero, Nat.add_sub_cancel, Nat.div_one]
    refine demod_loop_cont buf minAmp selfR _ _ _ ?hdone ?hskip ?hnopre ?hexc ?hframe whileFuel hlen _
      ⟨rfl, rfl, rfl, rfl⟩ ?hK
    case hK =>
      rintro ⟨self0, fs0, fl0, fe0, fp0, th0, mb0, j0, j20, p20, c0, mh0, msgs0, i0, fuel0⟩ out i ⟨h1, h2, h3, h4⟩
      simp only at h1 h2 h3 h4
      subst h1 h2 h3 h4
      simp only [Bool.false_eq_true, if_false]
      rw [hsb, bind_val', pySlice_rats_from, bind_val', ← hself]
      rfl
    case hdone =>
      rintro x ⟨self0, fs0, fl0, fe0, fp0, th0, mb0, j0, j20, p20, c0, mh0, msgs0, i0, fuel0⟩ i out ⟨h1, h2, h3, h4⟩ hle
      simp only at h1 h2 h3 h4
      subst h1 h2 h3 h4
      have hlt : decide (i < buf.toList.length) = false := by
        rw [Array.length_toList]; exact decide_eq_false (by omega)
      simp only [pyLt_ofNat, bind_val', pyTruth_bool, hlt, Bool.not_false, if_true, Res.pure_eq]
      exact Post.val ⟨_, rfl, rfl, rfl, rfl, rfl⟩
    case hskip =>
      rintro x ⟨self0, fs0, fl0, fe0, fp0, th0, mb0, j0, j20, p20, c0, mh0, msgs0, i0, fuel0⟩ i out ⟨h1, h2, h3, h4⟩ hlt hamp
      simp only at h1 h2 h3 h4
      subst h1 h2 h3 h4
      have hlt' : decide (i < buf.toList.length) = true := by
        rw [Array.length_toList]; exact decide_eq_true hlt
      have hget : buf.toList.getD i 0 = buf.getD i 0 := by
        simp [List.getD_eq_getElem?_getD, Array.getD_eq_getD_getElem?]
      simp only [pyLt_ofNat, bind_val', pyTruth_bool, hlt', Bool.not_true, Bool.false_eq_true, if_false, hsb,
        pyIdx_rats _ i (by rw [Array.length_toList]; exact hlt), pyLt_num, hget, decide_eq_true hamp, if_true,
        pyAdd_ofNat_one, Res.pure_eq]
      exact Post.val ⟨_, rfl, rfl, rfl, rfl, rfl⟩
    case hnopre =>
      rintro x ⟨self0, fs0, fl0, fe0, fp0, th0, mb0, j0, j20, p20, c0, mh0, msgs0, i0, fuel0⟩ i out ⟨h1, h2, h3, h4⟩ hlt hamp hpre
      simp only at h1 h2 h3 h4
      subst h1 h2 h3 h4
      have hlt' : decide (i < buf.toList.length) = true := by
        rw [Array.length_toList]; exact decide_eq_true hlt
      have hget : buf.toList.getD i 0 = buf.getD i 0 := by
        simp [List.getD_eq_getElem?_getD, Array.getD_eq_getD_getElem?]
      have hpre' : checkPreamble ((buf.toList.drop i).take (i + 16 - i)) = false := by
        rw [← hpre, Array.toList_extract, List.extract_eq_take_drop]; rfl
      simp only [pyLt_ofNat, bind_val', pyTruth_bool, hlt', Bool.not_true, Bool.false_eq_true, if_false, hsb,
        pyIdx_rats _ i (by rw [Array.length_toList]; exact hlt), pyLt_num, hget, decide_eq_false hamp,
        pbits2, CrcTie.pyAdd_ofNat, pySlice_rats, RtlReader__check_preamble_tie, idx2_1, hpre',
        pyAdd_ofNat_one, Res.pure_eq]
      exact Post.val ⟨_, rfl, rfl, rfl, rfl, rfl⟩
    case hexc =>
      rintro x ⟨self0, fs0, fl0, fe0, fp0, th0, mb0, j0, j20, p20, c0, mh0, msgs0, i0, fuel0⟩ i out ⟨h1, h2, h3, h4⟩ hlt hamp hpre hfp
      simp only at h1 h2 h3 h4
      subst h1 h2 h3 h4
      have hlt' : decide (i < buf.toList.length) = true := by
        rw [Array.length_toList]; exact decide_eq_true hlt
      have hget : buf.toList.getD i 0 = buf.getD i 0 := by
        simp [List.getD_eq_getElem?_getD, Array.getD_eq_getD_getElem?]
      have hpre' : checkPreamble ((buf.toList.drop i).take (i + 16 - i)) = true := by
        rw [← hpre, Array.toList_extract, List.extract_eq_take_drop]; rfl
      have hfp' : (buf.toList.drop (i + 16)).take (i + 16 + 226 - (i + 16)) = [] := by
        rw [← hfp, Array.toList_extract, List.extract_eq_take_drop]; rfl
      simp only [pyLt_ofNat, bind_val', pyTruth_bool, hlt', Bool.not_true, Bool.false_eq_true, if_false, hsb,
        pyIdx_rats _ i (by rw [Array.length_toList]; exact hlt), pyLt_num, hget, decide_eq_false hamp,
        pbits2, CrcTie.pyAdd_ofNat, pySlice_rats, RtlReader__check_preamble_tie, idx2_1, hpre', if_true,
        fbits1, mul113, hfp', pyMaxList_nil, bind_exc']
    case hframe =>
      rintro x ⟨self0, fs0, fl0, fe0, fp0, th0, mb0, j0, j20, p20, c0, mh0, msgs0, i0, fuel0⟩ i out ⟨h1, h2, h3, h4⟩ hlt hamp hpre y ys hfp
      simp only at h1 h2 h3 h4
      subst h1 h2 h3 h4
      have hlt' : decide (i < buf.toList.length) = true := by
        rw [Array.length_toList]; exact decide_eq_true hlt
      have hget : buf.toList.getD i 0 = buf.getD i 0 := by
        simp [List.getD_eq_getElem?_getD, Array.getD_eq_getD_getElem?]
      have hpre' : checkPreamble ((buf.toList.drop i).take (i + 16 - i)) = true := by
        rw [← hpre, Array.toList_extract, List.extract_eq_take_drop]; rfl
      have hfp' : (buf.toList.drop (i + 16)).take (i + 16 + 226 - (i + 16)) = y :: ys := by
        rw [← hfp, Array.toList_extract, List.extract_eq_take_drop]; rfl
      have hP : Tables.rtlPbits * 2 = 16 := rfl
      have hF : (Tables.rtlFbits + 1) * 2 / 2 = 112 + 1 := rfl
      rw [hP, hF]
      simp only [pyLt_ofNat, bind_val', pyTruth_bool, hlt', Bool.not_true, Bool.false_eq_true, if_false, hsb,
        pyIdx_rats _ i (by rw [Array.length_toList]; exact hlt), pyLt_num, hget, decide_eq_false hamp,
        pbits2, CrcTie.pyAdd_ofNat, pySlice_rats, RtlReader__check_preamble_tie, idx2_1, hpre', if_true,
        fbits1, mul113, hfp', pyMaxList_cons, pyMul_num, range226, CrcTie.pyIter_tuple]
      generalize y :: ys = fp
      generalize List.foldl max y ys * (1 / 5) = thr
      refine Post.bind (slice_loop fp thr _ ?hbrk ?hcont 112 0 [] _ rfl) ?rest
      case hbrk =>
        rintro jn ⟨m5, j5, j25, p25, c5⟩ acc hst hcond
        simp only at hst
        subst hst
        simp only [pyAdd_ofNat_two, bind_val', pySlice_rats, Nat.add_sub_cancel_left, pyLen_rats, pyLt_ofNat_two,
          pyTruth_bool]
        have hlen2 : ((fp.drop jn).take 2).length ≤ 2 := by rw [List.length_take]; omega
        generalize hp : (fp.drop jn).take 2 = p2 at hcond hlen2
        rcases p2 with _ | ⟨a, _ | ⟨b, _ | ⟨c, t⟩⟩⟩
        · simp only [List.length_nil, Nat.zero_lt_succ, decide_true, if_true, Res.pure_eq]
          exact Post.val ⟨_, rfl, rfl, rfl⟩
        · simp only [List.length_cons, List.length_nil, Nat.zero_add, Nat.one_lt_ofNat, decide_true, if_true,
            Res.pure_eq]
          exact Post.val ⟨_, rfl, rfl, rfl⟩
        · obtain ⟨ha, hb⟩ := hcond a b rfl
          simp only [pair_len, Bool.false_eq_true, if_false, pair_idx0, pair_idx1, bind_val', pyLt_num,
            pyTruth_bool, decide_eq_true ha, decide_eq_true hb, if_true, Res.pure_eq]
          exact Post.val ⟨_, rfl, rfl, rfl⟩
        · simp only [List.length_cons] at hlen2
          omega
      case hcont =>
        rintro jn ⟨m5, j5, j25, p25, c5⟩ acc a b hst hp hlow
        simp only at hst
        subst hst
        simp only [pyAdd_ofNat_two, bind_val', pySlice_rats, Nat.add_sub_cancel_left, pyLen_rats, pyLt_ofNat_two,
          pyTruth_bool, hp, pair_len, Bool.false_eq_true, if_false, pair_idx0, pair_idx1, pyLt_num, pyGe_num]
        by_cases ha : a < thr
        · have hb : ¬ b < thr := fun hb => hlow ⟨ha, hb⟩
          simp only [decide_eq_true ha, decide_eq_false hb, if_true, bind_val', pyTruth_bool, Bool.false_eq_true,
            if_false]
          by_cases hge : b ≤ a
          · simp only [decide_eq_true hge, if_true, pyAppend_encB_one, bind_val', Res.pure_eq]
            refine Post.val ⟨_, rfl, ?_, rfl⟩
            simp only [ge_iff_le, decide_eq_true hge]
          · have hlt2 : a < b := not_le.mp hge
            simp only [decide_eq_false hge, Bool.false_eq_true, if_false, decide_eq_true hlt2, if_true,
              pyAppend_encB_zero, bind_val', Res.pure_eq]
            refine Post.val ⟨_, rfl, ?_, rfl⟩
            simp only [ge_iff_le, decide_eq_false hge]
        · simp only [decide_eq_false ha, Bool.false_eq_true, if_false, Res.pure_eq, bind_val', pyTruth_bool]
          by_cases hge : b ≤ a
          · simp only [decide_eq_true hge, if_true, pyAppend_encB_one, bind_val', Res.pure_eq]
            refine Post.val ⟨_, rfl, ?_, rfl⟩
            simp only [ge_iff_le, decide_eq_true hge]
          · have hlt2 : a < b := not_le.mp hge
            simp only [decide_eq_false hge, Bool.false_eq_true, if_false, decide_eq_true hlt2, if_true,
              pyAppend_encB_zero, bind_val', Res.pure_eq]
            refine Post.val ⟨_, rfl, ?_, rfl⟩
            simp only [ge_iff_le, decide_eq_false hge]
      case rest =>
        rintro ⟨m5, j5, j25, p25, c5⟩ ⟨hm, hj⟩
        simp only at hm hj
        subst hm hj
        generalize sliceBits fp thr (112 + 1) 0 [] = sb
        obtain ⟨bits, jf⟩ := sb
        simp only [CrcTie.pyAdd_ofNat, bind_val', pyLen_encB, pyGt_ofNat_zero', pyTruth_bool]
        by_cases hne : bits = []
        · subst hne
          simp only [List.length_nil, Nat.lt_irrefl, decide_false, Bool.false_eq_true, if_false, Res.pure_eq]
          exact Post.val ⟨_, rfl, rfl, rfl, rfl, rfl⟩
        · have hpos : 0 < bits.length := List.length_pos_of_ne_nil hne
          have hemp : bits.isEmpty = false := by cases bits <;> simp_all
          have ht : Gen.Ext.time_time = .val (.num 0) := rfl
          simp only [decide_eq_true hpos, if_true, pyComp_bits, join_bits, bin2hex_ofBits bits hne,
            RtlReader__check_msg_tie _ _ (isHex_bin2hexNoPad bits) (bin2hexNoPad_ne_nil bits), idx2_1, bind_val',
            pyTruth_bool, ht, pyAppend_encStamped, hdb,
            RtlReader__debug_msg_tie _ _ (isHex_bin2hexNoPad bits) (bin2hexNoPad_ne_nil bits), idx2_0, Res.pure_eq]
          by_cases hck : checkMsg (bin2hexNoPad bits) = true
          · simp only [hck, if_true]
            by_cases hd : pyTruth dbg = true
            · simp only [hd, if_true]
              refine Post.val ⟨_, rfl, rfl, ?_, rfl, rfl⟩
              simp only [frameOut, hemp, Bool.false_eq_true, if_false, hck, if_true]
            · simp only [hd, if_false]
              refine Post.val ⟨_, rfl, rfl, ?_, rfl, rfl⟩
              simp only [frameOut, hemp, Bool.false_eq_true, if_false, hck, if_true]
          · simp only [hck, if_false]
            by_cases hd : pyTruth dbg = true
            · simp only [hd, if_true]
              refine Post.val ⟨_, rfl, rfl, ?_, rfl, rfl⟩
              simp only [frameOut, hemp, Bool.false_eq_true, if_false, hck]
            · simp only [hd, if_false]
              refine Post.val ⟨_, rfl, rfl, ?_, rfl, rfl⟩
              simp only [frameOut, hemp, Bool.false_eq_true, if_false, hck]

/-- the same against `processBuffer` (the function the C19 theorems are about): its result `(messages, noise floor,
    length of the remaining buffer)` determines the returned list and the new receiver; `signal_buffer[i:]` is the
    last `rest` samples (`rest = 0` by `C19.processBuffer_rest`: the loop always consumes the whole buffer) -/
theorem RtlReader__process_buffer_tie_model (l : List (Val × Val)) (buf : Array Rat) (nf0 : Rat) (dbg : Val)
    (hbuf : dictFind l (attrKey "signal_buffer") = some (encRats buf.toList))
    (hnf : dictFind l (attrKey "noise_floor") = some (.num nf0))
    (hdbg : dictFind l (attrKey "debug") = some dbg)
    (hlen : buf.size + 1 < whileFuel) :
    Gen.rtlreader.RtlReader__process_buffer (.dict l) =
      (processBuffer nf0 buf >>= fun r =>
        .val (.tuple [.dict (setPair (attrKey "signal_buffer") (encRats (takeLast r.2.2 buf.toList))
            (setPair (attrKey "noise_floor") (.num r.2.1) l)), encStamped r.1])) := by
  rw [RtlReader__process_buffer_tie l buf nf0 dbg hbuf hnf hdbg hlen]
  unfold processBuffer
  cases calcNoise buf with
  | rte => rfl
  | exc => rfl
  | val q =>
    simp only [bind_val']
    cases hd : demodLoop buf ((3162 : Rat) / 1000 * min q nf0) (buf.size + 1) 0 [] with
    | rte => rfl
    | exc => rfl
    | val p =>
      obtain ⟨out, i⟩ := p
      have hi : buf.size ≤ i := Demod.demodLoop_terminates buf _ _ _ _ _ _ (by omega) hd
      simp only [bind_val', Res.pure_eq]
      have e1 : buf.toList.drop i = [] := List.drop_eq_nil_of_le (by rw [Array.length_toList]; exact hi)
      have e2 : takeLast (buf.size - i) buf.toList = [] := by
        have : buf.size - i = 0 := by omega
        rw [this, takeLast, Nat.sub_zero, List.drop_length]
      rw [e1, e2]

end PyModeS.Tie
