/-
  Tie: generated `bds45.py` = hand model (`Model/Commb.lean`) on every 28-digit hex frame.
-/
import PyModeS.Tie.Basic
import PyModeS.Generated.Src.bds45
import Mathlib.Tactic.SplitIfs

-- symbolic execution of long generated `do` blocks: generous but finite budget (proof times are seconds)
set_option maxHeartbeats 1000000

set_option linter.unusedSimpArgs false
set_option linter.unusedTactic false
set_option linter.unreachableTactic false
set_option linter.unnecessarySeqFocus false
namespace PyModeS.Tie
open PyModeS PyModeS.Py PyModeS.CRC

theorem turb45_tie (m : Msg) (h : IsHex m) (hl : m.length = 28) :
    Gen.bds45.turb45 (.str m) = (PyModeS.turb45 (hex2binM m) >>= fun o => .val (Val.ofOptRat o)) := by
  unfold Gen.bds45.turb45 PyModeS.turb45
  commb_open m h hl
  commb_close

theorem ws45_tie (m : Msg) (h : IsHex m) (hl : m.length = 28) :
    Gen.bds45.ws45 (.str m) = (PyModeS.ws45 (hex2binM m) >>= fun o => .val (Val.ofOptRat o)) := by
  unfold Gen.bds45.ws45 PyModeS.ws45
  commb_open m h hl
  commb_close

theorem mb45_tie (m : Msg) (h : IsHex m) (hl : m.length = 28) :
    Gen.bds45.mb45 (.str m) = (PyModeS.mb45 (hex2binM m) >>= fun o => .val (Val.ofOptRat o)) := by
  unfold Gen.bds45.mb45 PyModeS.mb45
  commb_open m h hl
  commb_close

theorem ic45_tie (m : Msg) (h : IsHex m) (hl : m.length = 28) :
    Gen.bds45.ic45 (.str m) = (PyModeS.ic45 (hex2binM m) >>= fun o => .val (Val.ofOptRat o)) := by
  unfold Gen.bds45.ic45 PyModeS.ic45
  commb_open m h hl
  commb_close

theorem wv45_tie (m : Msg) (h : IsHex m) (hl : m.length = 28) :
    Gen.bds45.wv45 (.str m) = (PyModeS.wv45 (hex2binM m) >>= fun o => .val (Val.ofOptRat o)) := by
  unfold Gen.bds45.wv45 PyModeS.wv45
  commb_open m h hl
  commb_close

theorem p45_tie (m : Msg) (h : IsHex m) (hl : m.length = 28) :
    Gen.bds45.p45 (.str m) = (PyModeS.p45 (hex2binM m) >>= fun o => .val (Val.ofOptRat o)) := by
  unfold Gen.bds45.p45 PyModeS.p45
  commb_open m h hl
  commb_close

theorem rh45_tie (m : Msg) (h : IsHex m) (hl : m.length = 28) :
    Gen.bds45.rh45 (.str m) = (PyModeS.rh45 (hex2binM m) >>= fun o => .val (Val.ofOptRat o)) := by
  unfold Gen.bds45.rh45 PyModeS.rh45
  commb_open m h hl
  commb_close

/-- `temp45` always returns a number (no status gate in the source) -/
theorem temp45_tie (m : Msg) (h : IsHex m) (hl : m.length = 28) :
    Gen.bds45.temp45 (.str m) = (PyModeS.temp45 (hex2binM m) >>= fun t => .val (.num t)) := by
  unfold Gen.bds45.temp45 PyModeS.temp45
  commb_open m h hl
  commb_close

theorem is45_tie (m : Msg) (h : IsHex m) (hl : m.length = 28) :
    Gen.bds45.is45 (.str m) = (PyModeS.is45 (hex2binM m) >>= fun b => .val (.bool b)) := by
  unfold Gen.bds45.is45 PyModeS.is45
  simp only [allzeros_str m h hl, allzerosB_hex m hl, temp45_tie m h hl]
  simp only [data_str, Res.bind_val, hex2bin_data m h hl, dataR_hex m hl]
  have hd := mb_length m hl
  generalize slice 32 88 (hex2binM m) = d at hd ⊢
  have w1 := ws_lit d 1 2 3 (by decide) (by decide)
  have w2 := ws_lit d 4 5 6 (by decide) (by decide)
  have w3 := ws_lit d 7 8 9 (by decide) (by decide)
  have w4 := ws_lit d 10 11 12 (by decide) (by decide)
  have w5 := ws_lit d 13 14 15 (by decide) (by decide)
  have w6 := ws_lit d 16 17 26 (by decide) (by decide)
  have w7 := ws_lit d 27 28 38 (by decide) (by decide)
  have w8 := ws_lit d 39 40 51 (by decide) (by decide)
  simp only [Nat.cast_ofNat, Nat.cast_one] at w1 w2 w3 w4 w5 w6 w7 w8
  simp only [w1, w2, w3, w4, w5, w6, w7, w8, statusOk]
  by_cases hz : PyModeS.bin2int d = 0
  · simp [hz]
  simp only [hz, decide_false, pyTruth_bool, Bool.false_eq_true, if_false]
  res_bool (PyModeS.wrongstatus d 1 2 3)
  res_bool (PyModeS.wrongstatus d 4 5 6)
  res_bool (PyModeS.wrongstatus d 7 8 9)
  res_bool (PyModeS.wrongstatus d 10 11 12)
  res_bool (PyModeS.wrongstatus d 13 14 15)
  res_bool (PyModeS.wrongstatus d 16 17 26)
  res_bool (PyModeS.wrongstatus d 27 28 38)
  res_bool (PyModeS.wrongstatus d 39 40 51)
  generalize PyModeS.temp45 (hex2binM m) = rt
  rcases rt with (t | _ | _) <;>
    simp [hd, bin2intR_slice_of_lt, Val.ofNat] <;> (try split_ifs) <;> simp_all <;>
    (first | linarith | (rcases ‹_ ∧ _› with ⟨_, h1 | h1⟩ <;> linarith) | skip)

end PyModeS.Tie
