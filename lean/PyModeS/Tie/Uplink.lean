/-
  Tie: generated `decoder/uplink.py` = hand model (`Model/Misc.lean`: `ufB`, `byteAt`, `uplinkPr`, `uplinkLockout`,
  `uplinkIc`, `uplinkBds`, `uplinkFields`, `uplinkIcao`).

  The field decoders read `mbytes = list(map(common.bin2int, wrap(hex2bin(msg), 8)))`; for a hex message of `2 * n`
  digits this is the list of the `n` bytes `byteAt (hex2binM m) i` (`mbytes_tie`).  The ties are stated for every
  hex message of an even number `2 * n` of digits with `n` large enough for the bytes the function indexes
  (`mbytes[3]` needs `4 ≤ n`; on a shorter message Python raises `IndexError` while the total hand model reads 0),
  and `…_frame` corollaries give them for the two Mode S frame lengths (14 and 28 digits).
  Results: `Optional[int]` as `Val.ofOptNat`, `Optional[bool]` as `Val.ofOptBool`, `Optional[str]` as
  `Val.ofOptString`, the dictionary of `uplink_fields` as `Val.ofUplinkFields` (same keys in the same order; a field
  the hand model has as `none` is Python's `""`).
  `uplink_icao` is tied for every hex message of at least 14 digits (below that `(len(msg) - 14) * 4` is a negative
  shift count: `ValueError` in Python, truncated subtraction in the hand model).
-/
import PyModeS.Tie.Common
import PyModeS.Generated.Src.uplink
import PyModeS.Model.Misc

-- symbolic execution of long generated `do` blocks: generous but finite budget (proof times are seconds)
set_option maxHeartbeats 1000000

set_option linter.unusedSimpArgs false
set_option linter.unusedTactic false
set_option linter.unreachableTactic false
set_option linter.style.nameCheck false
namespace PyModeS.Tie
open PyModeS PyModeS.Py PyModeS.CRC

/- helper lemmas and the result encoders live in `PyModeS.Tie.UplinkAux` (other tie files define lemmas of the same
   names); the tie theorems themselves are `PyModeS.Tie.<function>_tie` -/
namespace UplinkAux

/-! ### uplink.uf -/

/-- `uplink.uf(msg)` on a hex string of at least two digits -/
theorem _root_.PyModeS.Tie.uf_tie (m : Msg) (h : IsHex m) (hl : 2 ≤ m.length) :
    Gen.uplink.uf (.str m) = .val (Val.ofNat (ufB (hex2binM m))) := by
  unfold Gen.uplink.uf ufB
  have hne : m.take 2 ≠ [] := by
    intro e; have := congrArg List.length e
    rw [List.length_take, Nat.min_eq_left hl] at this; simp at this
  have h8 : (hex2binM (m.take 2)).length = 8 := by
    rw [hex2binM_length, List.length_take, Nat.min_eq_left hl]
  have hs : 0 < (slice 0 5 (hex2binM (m.take 2))).length := by simp [slice, h8]
  have e : slice 0 5 (hex2binM (m.take 2)) = slice 0 5 (hex2binM m) := by
    rw [hex2binM_take]; exact slice_slice_zero 5 (4 * 2) _ (by decide)
  rw [e] at hs
  simp only [pySlice_N, bind_val', hex2bin_str _ (isHex_take' h 2) hne, pySliceNN_ofBits, bin2int_ofBits,
    bin2intR_of_length hs, pyMin2_ofNat_24, Res.pure_eq, e]

/-! ### the byte list `mbytes = list(map(common.bin2int, wrap(hex2bin(msg), 8)))` -/

/-- the byte list of a bit string of `8 * n` bits -/
def mbytesV (d : Bits) (n : Nat) : Val := .tuple ((List.range n).map fun i => Val.ofNat (byteAt d i))

theorem chunks_nil (n fuel : Nat) : chunks n fuel [] = [] := by
  cases fuel <;> rfl

theorem chunks_cons (n fuel : Nat) (c : Char) (s : List Char) :
    chunks n (fuel + 1) (c :: s) = (c :: s).take n :: chunks n fuel ((c :: s).drop n) := rfl

theorem byteAt_zero (d : Bits) : byteAt d 0 = PyModeS.bin2int (d.take 8) := by
  simp [byteAt, slice]

theorem byteAt_succ (d : Bits) (i : Nat) : byteAt d (i + 1) = byteAt (d.drop 8) i := by
  simp only [byteAt, slice, List.drop_drop]
  have e1 : 8 * (i + 1) = 8 + 8 * i := by omega
  have e2 : 8 + 8 * i + 8 - (8 + 8 * i) = 8 * i + 8 - 8 * i := by omega
  rw [e1, e2]

theorem compList_chunks (n : Nat) : ∀ (d : Bits) (fuel : Nat), d.length = 8 * n → n ≤ fuel →
    compList (fun x => Gen.py_common.bin2int x >>= fun y => Res.val (some y))
      ((chunks 8 fuel (d.map Bool.toDigit)).map Val.str) =
      .val ((List.range n).map fun i => Val.ofNat (byteAt d i)) := by
  induction n with
  | zero =>
    intro d fuel hd _
    have : d = [] := List.eq_nil_of_length_eq_zero (by omega)
    subst this
    simp [chunks_nil, compList]
  | succ n ih =>
    intro d fuel hd hf
    obtain ⟨f, rfl⟩ : ∃ f, fuel = f + 1 := ⟨fuel - 1, by omega⟩
    obtain ⟨b, t, rfl⟩ : ∃ b t, d = b :: t := by
      cases d with
      | nil => simp at hd
      | cons b t => exact ⟨b, t, rfl⟩
    have hdrop : ((b :: t).drop 8).length = 8 * n := by rw [List.length_drop, hd]; omega
    have htake : 0 < ((b :: t).take 8).length := by rw [List.length_take, hd]; omega
    have ih' := ih ((b :: t).drop 8) f hdrop (by omega)
    rw [List.map_cons, chunks_cons, ← List.map_cons, ← List.map_take, ← List.map_drop, List.map_cons, compList, ih']
    have e : Gen.py_common.bin2int (Val.str (((b :: t).take 8).map Bool.toDigit)) =
        .val (Val.ofNat (PyModeS.bin2int ((b :: t).take 8))) := by
      have := bin2int_ofBits ((b :: t).take 8)
      rw [bin2intR_of_length htake, bind_val'] at this
      exact this
    simp only [e, bind_val', Res.pure_eq]
    rw [List.range_succ_eq_map, List.map_cons, List.map_map, byteAt_zero]
    congr 2
    apply List.map_congr_left
    intro i _
    simp only [Function.comp, byteAt_succ]

/-- `wrap(msgbin, 8)`: the pieces of 8 characters -/
def chunksV (d : Bits) : Val :=
  .tuple ((chunks 8 (d.map Bool.toDigit).length (d.map Bool.toDigit)).map .str)

theorem pyWrap8_ofBits (d : Bits) : pyWrap (Val.ofBits d) (Val.ofNat 8) = .val (chunksV d) := by
  show pyWrap (Val.ofBits d) (Val.num 8) = .val (chunksV d)
  have h8 : (Val.num 8).int? = some (Int.ofNat (7 + 1)) := by
    have := int?_natLit 8
    simpa using this
  simp only [pyWrap, Val.ofBits, h8, chunksV]

theorem pyComp_chunksV (d : Bits) (n : Nat) (hd : d.length = 8 * n) :
    pyComp (chunksV d) (fun x => Gen.py_common.bin2int x >>= fun y => Res.val (some y)) = .val (mbytesV d n) := by
  simp only [pyComp, pyIter, bind_val', chunksV]
  rw [compList_chunks n d _ hd (by rw [List.length_map, hd]; omega)]
  simp only [bind_val', Res.pure_eq, mbytesV]

theorem pyList_mbytesV (d : Bits) (n : Nat) : pyList (mbytesV d n) = .val (mbytesV d n) := by
  simp only [pyList, pyIter, mbytesV, bind_val', Res.pure_eq]

/-- the ONE lemma about `mbytes`: for a hex message of `2 * n` digits it is the list of the `n` bytes `byteAt`
    (used below in its three steps `pyWrap8_ofBits`, `pyComp_chunksV`, `pyList_mbytesV`) -/
theorem _root_.PyModeS.Tie.mbytes_tie (m : Msg) (n : Nat) (hl : m.length = 2 * n) :
    (do let msgbin_split ← pyWrap (Val.ofBits (hex2binM m)) (Val.num 8)
        pyList (← pyComp msgbin_split (fun x => Gen.py_common.bin2int x >>= fun y => Res.val (some y)))) =
      .val (mbytesV (hex2binM m) n) := by
  have hlen : (hex2binM m).length = 8 * n := by rw [hex2binM_length, hl]; omega
  rw [show Val.num 8 = Val.ofNat 8 from rfl]
  simp only [pyWrap8_ofBits, bind_val', pyComp_chunksV _ n hlen, pyList_mbytesV]

theorem pyIdxN_mbytes (d : Bits) (n i : Nat) (hi : i < n) :
    pyIdxN (mbytesV d n) i = .val (Val.ofNat (byteAt d i)) := by
  simp [pyIdxN, mbytesV, hi]

/-! ### primitives on `Val.ofNat` (all numeric literals are first turned into `Val.ofNat k`) -/

theorem lit2 : Val.num 2 = Val.ofNat 2 := rfl
theorem lit3 : Val.num 3 = Val.ofNat 3 := rfl
theorem lit4 : Val.num 4 = Val.ofNat 4 := rfl
theorem lit5 : Val.num 5 = Val.ofNat 5 := rfl
theorem lit6 : Val.num 6 = Val.ofNat 6 := rfl
theorem lit7 : Val.num 7 = Val.ofNat 7 := rfl
theorem lit8 : Val.num 8 = Val.ofNat 8 := rfl
theorem lit11 : Val.num 11 = Val.ofNat 11 := rfl
theorem lit14 : Val.num 14 = Val.ofNat 14 := rfl
theorem lit15 : Val.num 15 = Val.ofNat 15 := rfl
theorem lit16 : Val.num 16 = Val.ofNat 16 := rfl
theorem lit20 : Val.num 20 = Val.ofNat 20 := rfl
theorem lit21 : Val.num 21 = Val.ofNat 21 := rfl
theorem lit23 : Val.num 23 = Val.ofNat 23 := rfl
theorem lit25 : Val.num 25 = Val.ofNat 25 := rfl
theorem lit26 : Val.num 26 = Val.ofNat 26 := rfl
theorem lit31 : Val.num 31 = Val.ofNat 31 := rfl
theorem lit32 : Val.num 32 = Val.ofNat 32 := rfl
theorem lit48 : Val.num 48 = Val.ofNat 48 := rfl
theorem lit63 : Val.num 63 = Val.ofNat 63 := rfl
theorem lit64 : Val.num 64 = Val.ofNat 64 := rfl
theorem lit128 : Val.num 128 = Val.ofNat 128 := rfl
theorem lit224 : Val.num 224 = Val.ofNat 224 := rfl

theorem pyBitAnd_ofNat (a b : Nat) : pyBitAnd (Val.ofNat a) (Val.ofNat b) = .val (Val.ofNat (a &&& b)) :=
  bitop_ofNat _ a b
theorem pyBitOr_ofNat (a b : Nat) : pyBitOr (Val.ofNat a) (Val.ofNat b) = .val (Val.ofNat (a ||| b)) :=
  bitop_ofNat _ a b
theorem pyShl_ofNat (a b : Nat) : pyShl (Val.ofNat a) (Val.ofNat b) = .val (Val.ofNat (a <<< b)) :=
  bitop_ofNat _ a b

theorem ofNat_beq2 (a b : Nat) : (Val.ofNat a).beq (Val.ofNat b) = decide (a = b) := ofNat_beq a b
theorem pyEq_ofNat2 (a b : Nat) : pyEq (Val.ofNat a) (Val.ofNat b) = .val (.bool (decide (a = b))) :=
  pyEq_ofNat a b
theorem pyGt_ofNat2 (a b : Nat) : pyGt (Val.ofNat a) (Val.ofNat b) = .val (.bool (decide (b < a))) := by
  simp only [Val.ofNat, pyGt_num, Nat.cast_lt]
theorem pyAdd_ofNat2 (a b : Nat) : pyAdd (Val.ofNat a) (Val.ofNat b) = .val (Val.ofNat (a + b)) := by
  simp only [Val.ofNat, pyAdd_num, Nat.cast_add]
theorem pySub_ofNat2 (a b : Nat) (h : b ≤ a) : pySub (Val.ofNat a) (Val.ofNat b) = .val (Val.ofNat (a - b)) := by
  simp only [Val.ofNat, pySub_num, Nat.cast_sub h]

/-- `UF in {4, 5, 20, 21}` -/
theorem pyIn_rollCall (u : Nat) :
    pyIn (Val.ofNat u) (.tuple [Val.ofNat 4, Val.ofNat 5, Val.ofNat 20, Val.ofNat 21]) =
      .val (.bool (isRollCall u)) := by
  have := pyIn_ofNat u [4, 5, 20, 21]
  simp only [List.map_cons, List.map_nil] at this
  rw [show (Val.tuple [Val.ofNat 4, Val.ofNat 5, Val.ofNat 20, Val.ofNat 21]) =
    Val.tuple [Val.num ((4 : Nat) : Rat), Val.num ((5 : Nat) : Rat), Val.num ((20 : Nat) : Rat),
      Val.num ((21 : Nat) : Rat)] from rfl, this]
  simp only [isRollCall, List.mem_cons, List.not_mem_nil, or_false]

/-- `None` or a number -/
theorem ofOptNat_some (n : Nat) : Val.ofOptNat (some n) = Val.ofNat n := rfl

/-! ### uplink.pr -/

/-- `uplink.pr(msg)` on a hex message of an even number (at least 4) of digits -/
theorem _root_.PyModeS.Tie.pr_tie (m : Msg) (h : IsHex m) (n : Nat) (hl : m.length = 2 * n) (hn : 2 ≤ n) :
    Gen.uplink.pr (.str m) = .val (Val.ofOptNat (uplinkPr (hex2binM m))) := by
  unfold Gen.uplink.pr uplinkPr
  have hne : m ≠ [] := by intro e; simp [e] at hl; omega
  have hlen : (hex2binM m).length = 8 * n := by rw [hex2binM_length, hl]; omega
  simp only [hex2bin_str m h hne, bind_val', pyWrap8_ofBits, pyComp_chunksV _ n hlen, pyList_mbytesV,
    uf_tie m h (by omega), lit2, lit3, lit4, lit5, lit6, lit7, lit8, lit11, lit14, lit15, lit16, lit20, lit21, lit23, lit25, lit26, lit31, lit32, lit48, lit63, lit64, lit128, lit224, num_one_ofNat, num_zero_ofNat, pyEq_ofNat2, pyTruth_bool,
    pyIdxN_mbytes _ n 0 (by omega), pyIdxN_mbytes _ n 1 (by omega), pyBitAnd_ofNat, pyBitOr_ofNat, pyShl_ofNat,
    pyShr_ofNat, Res.pure_eq, decide_eq_true_eq]
  split_ifs <;> rfl

/-! ### uplink.lockout -/

/-- Python `None` / `True` / `False` -/
def Val.ofOptBool : Option Bool → Val
  | none => .none
  | some b => .bool b

/-- `uplink.lockout(msg)` on a hex message of an even number (at least 8) of digits -/
theorem _root_.PyModeS.Tie.lockout_tie (m : Msg) (h : IsHex m) (n : Nat) (hl : m.length = 2 * n) (hn : 4 ≤ n) :
    Gen.uplink.lockout (.str m) = .val (Val.ofOptBool (uplinkLockout (hex2binM m))) := by
  unfold Gen.uplink.lockout uplinkLockout
  have hne : m ≠ [] := by intro e; simp [e] at hl; omega
  have hlen : (hex2binM m).length = 8 * n := by rw [hex2binM_length, hl]; omega
  simp only [hex2bin_str m h hne, bind_val', pyWrap8_ofBits, pyComp_chunksV _ n hlen, pyList_mbytesV,
    uf_tie m h (by omega), lit2, lit3, lit4, lit5, lit6, lit7, lit8, lit20, lit21, lit64, num_one_ofNat,
    num_zero_ofNat, pyEq_ofNat2, pyIn_rollCall, pyTruth_bool,
    pyIdxN_mbytes _ n 1 (by omega), pyIdxN_mbytes _ n 2 (by omega), pyIdxN_mbytes _ n 3 (by omega),
    pyBitAnd_ofNat, pyBitOr_ofNat, pyShl_ofNat, pyShr_ofNat, Res.pure_eq, decide_eq_true_eq]
  generalize byteAt (hex2binM m) 1 = b1
  generalize byteAt (hex2binM m) 2 = b2
  generalize byteAt (hex2binM m) 3 = b3
  generalize ufB (hex2binM m) = u
  split_ifs <;> simp_all [Val.ofOptBool]

/-! ### uplink.ic -/

/-- Python `None` or a string -/
def Val.ofOptString : Option String → Val
  | none => .none
  | some s => .str s.toList

theorem pyStr_str (s : List Char) : pyStr (.str s) = .val (.str s) := rfl

theorem pySub_ofNat_num (a b : Nat) : pySub (Val.ofNat a) (Val.ofNat b) = .val (.num ((a : Rat) - (b : Rat))) := rfl

theorem str_II (x : Nat) : ("II" ++ toString x).toList = ['I', 'I'] ++ (toString x).toList := by
  rw [String.toList_append]; rfl
theorem str_SI (x : Nat) : ("SI" ++ toString x).toList = ['S', 'I'] ++ (toString x).toList := by
  rw [String.toList_append]; rfl

/-- the dictionary `ic_switcher` and its `.get(codeLabel, "")` -/
theorem ic_switcher_get (c f : Nat) :
    pyDictGet (Val.dict
      [(Val.ofNat 0, Val.str (['I', 'I'] ++ (toString f).toList)),
       (Val.ofNat 1, Val.str (['S', 'I'] ++ (toString f).toList)),
       (Val.ofNat 2, Val.str (['S', 'I'] ++ (toString (f + 16)).toList)),
       (Val.ofNat 3, Val.str (['S', 'I'] ++ (toString (f + 32)).toList)),
       (Val.ofNat 4, Val.str (['S', 'I'] ++ (toString (f + 48)).toList))])
      (Val.ofNat c) (Val.str []) = .val (.str (icSwitcher c f).toList) := by
  simp only [pyDictGet, dictFind, List.find?_cons, ofNat_beq2, List.find?_nil]
  match c with
  | 0 => simp only [icSwitcher, str_II]; rfl
  | 1 => simp only [icSwitcher, str_SI]; rfl
  | 2 => simp only [icSwitcher, str_SI]; rfl
  | 3 => simp only [icSwitcher, str_SI]; rfl
  | 4 => simp only [icSwitcher, str_SI]; rfl
  | k + 5 =>
    have e0 : decide (k + 5 = 0) = false := by simp
    have e1 : decide (k + 5 = 1) = false := by simp
    have e2 : decide (k + 5 = 2) = false := by simp
    have e3 : decide (k + 5 = 3) = false := by simp
    have e4 : decide (k + 5 = 4) = false := by simp
    simp only [e0, e1, e2, e3, e4, icSwitcher]
    rfl

/-- `uplink.ic(msg)` on a hex message of an even number (at least 8) of digits -/
theorem _root_.PyModeS.Tie.ic_tie (m : Msg) (h : IsHex m) (n : Nat) (hl : m.length = 2 * n) (hn : 4 ≤ n) :
    Gen.uplink.ic (.str m) = .val (Val.ofOptString (uplinkIc (hex2binM m))) := by
  unfold Gen.uplink.ic uplinkIc
  have hne : m ≠ [] := by intro e; simp [e] at hl; omega
  have hlen : (hex2binM m).length = 8 * n := by rw [hex2binM_length, hl]; omega
  simp only [hex2bin_str m h hne, bind_val', pyWrap8_ofBits, pyComp_chunksV _ n hlen, pyList_mbytesV,
    uf_tie m h (by omega), lit2, lit3, lit4, lit5, lit6, lit7, lit8, lit11, lit15, lit16, lit20, lit21, lit31,
    lit32, lit48, lit63, lit64, num_one_ofNat,
    num_zero_ofNat, pyEq_ofNat2, pyIn_rollCall, pyTruth_bool,
    pyIdxN_mbytes _ n 1 (by omega), pyIdxN_mbytes _ n 2 (by omega), pyIdxN_mbytes _ n 3 (by omega),
    pyBitAnd_ofNat, pyBitOr_ofNat, pyShl_ofNat, pyShr_ofNat, Res.pure_eq, decide_eq_true_eq,
    pyStr_ofNat, pyAdd_str, pyAdd_ofNat2, pyGt_ofNat2, ic_switcher_get, pySub_ofNat_num, str_II, str_SI]
  generalize byteAt (hex2binM m) 1 = b1
  generalize byteAt (hex2binM m) 2 = b2
  generalize byteAt (hex2binM m) 3 = b3
  generalize ufB (hex2binM m) = u
  split_ifs <;> simp_all [Val.ofOptString] <;> split_ifs <;> simp_all [Val.ofOptString]

/-! ### uplink.bds -/

/-- `format(n, "X")` -/
theorem pyFmtHexU0_ofNat (x : Nat) : pyFmtHexU 0 (Val.ofNat x) = .val (.str (hexDigitStr x).toList) := by
  simp only [pyFmtHexU, int?_ofNat, hexDigitStr, String.toList_ofList, Nat.zero_sub, List.replicate_zero,
    List.nil_append]

/-- `uplink.bds(msg)` on a hex message of an even number (at least 8) of digits -/
theorem _root_.PyModeS.Tie.bds_tie (m : Msg) (h : IsHex m) (n : Nat) (hl : m.length = 2 * n) (hn : 4 ≤ n) :
    Gen.uplink.bds (.str m) = .val (Val.ofOptString (uplinkBds (hex2binM m))) := by
  unfold Gen.uplink.bds uplinkBds
  have hne : m ≠ [] := by intro e; simp [e] at hl; omega
  have hlen : (hex2binM m).length = 8 * n := by rw [hex2binM_length, hl]; omega
  simp only [hex2bin_str m h hne, bind_val', pyWrap8_ofBits, pyComp_chunksV _ n hlen, pyList_mbytesV,
    uf_tie m h (by omega), lit2, lit3, lit4, lit5, lit6, lit7, lit8, lit11, lit15, lit16, lit20, lit21, lit31,
    lit224, num_one_ofNat,
    num_zero_ofNat, pyEq_ofNat2, pyIn_rollCall, pyTruth_bool,
    pyIdxN_mbytes _ n 1 (by omega), pyIdxN_mbytes _ n 2 (by omega), pyIdxN_mbytes _ n 3 (by omega),
    pyBitAnd_ofNat, pyBitOr_ofNat, pyShl_ofNat, pyShr_ofNat, Res.pure_eq, decide_eq_true_eq, pyGt_ofNat2]
  generalize byteAt (hex2binM m) 1 = b1
  generalize byteAt (hex2binM m) 2 = b2
  generalize byteAt (hex2binM m) 3 = b3
  generalize ufB (hex2binM m) = u
  by_cases hrr : 15 < (b1 >>> 3) &&& 31
  · have hsub := pySub_ofNat2 ((b1 >>> 3) &&& 31) 16 (by omega)
    simp only [hrr, hsub, if_true, bind_val', pyFmtHexU0_ofNat, pyStr_str, pyAdd_str, gt_iff_lt]
    split_ifs <;> simp_all [Val.ofOptString, String.toList_append]
  · simp only [hrr, if_false, gt_iff_lt]
    split_ifs <;> simp_all [Val.ofOptString]

/-! ### uplink.uplink_fields -/

/-- a field that is `""` when absent and a number otherwise (`DI`, `PR`, `RR`, `RRS`) -/
def Val.ofOptNatE : Option Nat → Val
  | none => .str []
  | some n => Val.ofNat n

/-- the dictionary `uplink_fields` returns, from the hand model's structure (same keys, same order) -/
def Val.ofUplinkFields (f : UplinkFields) : Val :=
  .dict [(.str ['D', 'I'], Val.ofOptNatE f.di), (.str ['I', 'C'], .str f.ic.toList),
    (.str ['L', 'O', 'S'], .bool f.los), (.str ['P', 'R'], Val.ofOptNatE f.pr),
    (.str ['R', 'R'], Val.ofOptNatE f.rr), (.str ['R', 'R', 'S'], Val.ofOptNatE f.rrs),
    (.str ['B', 'D', 'S'], .str f.bds.toList)]

theorem toList_II : "II".toList = ['I', 'I'] := rfl
theorem toList_SI : "SI".toList = ['S', 'I'] := rfl

theorem prop_cases (p : Prop) : p = True ∨ p = False := by
  by_cases h : p <;> simp [h]

theorem pySub16 (rr : Nat) (h : 15 < rr) : pySub (Val.ofNat rr) (Val.ofNat 16) = .val (Val.ofNat (rr - 16)) :=
  pySub_ofNat2 rr 16 (by omega)

set_option hygiene false in
/-- second phase of `uplink_fields_tie`: the conditions are decided (hypotheses `c… : (cond) = True/False` in the
    context), the join points are unfolded along the one path that is taken -/
macro "uf_close" : tactic => `(tactic|
  (simp only [↓reduceIte, *, bind_val', pyFmtHexU0_ofNat, pyStr_str, pyAdd_str, ic_switcher_get, pySub16,
     Val.ofUplinkFields, Val.ofOptNatE, str_II, str_SI, String.toList_append, gt_iff_lt, decide_true, decide_false,
     String.toList_empty, Bool.false_eq_true, eq_self, toList_II, toList_SI]))

/-- `uplink.uplink_fields(msg)` on a hex message of an even number (at least 8) of digits -/
theorem _root_.PyModeS.Tie.uplink_fields_tie (m : Msg) (h : IsHex m) (n : Nat) (hl : m.length = 2 * n) (hn : 4 ≤ n) :
    Gen.uplink.uplink_fields (.str m) = .val (Val.ofUplinkFields (uplinkFields (hex2binM m))) := by
  unfold Gen.uplink.uplink_fields uplinkFields
  have hne : m ≠ [] := by intro e; simp [e] at hl; omega
  have hlen : (hex2binM m).length = 8 * n := by rw [hex2binM_length, hl]; omega
  -- first phase: evaluate the primitives, keeping the join points of the `do` block (`zeta := false`)
  simp (config := {zeta := false}) only [hex2bin_str m h hne, bind_val', pyWrap8_ofBits, pyComp_chunksV _ n hlen,
    pyList_mbytesV,
    uf_tie m h (by omega), lit2, lit3, lit4, lit5, lit6, lit7, lit8, lit11, lit15, lit16, lit20, lit21, lit31,
    lit32, lit48, lit63, lit64, lit128, lit224, num_one_ofNat,
    num_zero_ofNat, pyEq_ofNat2, pyIn_rollCall, pyTruth_bool,
    pyIdxN_mbytes _ n 0 (by omega), pyIdxN_mbytes _ n 1 (by omega), pyIdxN_mbytes _ n 2 (by omega),
    pyIdxN_mbytes _ n 3 (by omega),
    pyBitAnd_ofNat, pyBitOr_ofNat, pyShl_ofNat, pyShr_ofNat, Res.pure_eq, decide_eq_true_eq, pyGt_ofNat2,
    pyStr_ofNat, pyAdd_str, pyAdd_ofNat2, ic_switcher_get]
  generalize byteAt (hex2binM m) 0 = b0
  generalize byteAt (hex2binM m) 1 = b1
  generalize byteAt (hex2binM m) 2 = b2
  generalize byteAt (hex2binM m) 3 = b3
  generalize ufB (hex2binM m) = u
  clear hlen hne hl hn h
  rcases prop_cases (u = 11) with cu | cu
  · have hu : u = 11 := of_eq_true cu
    subst hu
    have cr : isRollCall 11 = false := rfl
    uf_close
  · rcases Bool.eq_false_or_eq_true (isRollCall u) with cr | cr
    · rcases prop_cases (15 < b1 >>> 3 &&& 31) with crr | crr <;>
      rcases prop_cases (b1 &&& 7 = 0) with c0 | c0
      all_goals try (uf_close; done)
      all_goals rcases prop_cases (b1 &&& 7 = 1) with c1 | c1
      all_goals try (rcases prop_cases ((b3 &&& 64) >>> 6 = 1) with cl | cl <;> uf_close; done)
      all_goals rcases prop_cases (b1 &&& 7 = 7) with c7 | c7
      all_goals try (rcases prop_cases ((b3 &&& 64) >>> 6 = 1) with cl | cl <;> uf_close; done)
      all_goals rcases prop_cases (b1 &&& 7 = 3) with c3 | c3
      all_goals try (rcases prop_cases ((b2 &&& 2) >>> 1 = 1) with cl | cl <;> uf_close; done)
      all_goals uf_close
    · uf_close

/-! ### uplink.uplink_icao -/

/-- one iteration of the loop of `uplink_icao` (the body of the hand model's `uplinkLoop`) -/
def icaoStep (n pgen j : Nat) (s : Nat × Nat × Nat) : Nat × Nat × Nat :=
  let (data, pa, ad) := s
  let topbit := 1 <<< (n - 25)
  let data := if data &&& topbit ≠ 0 then data ^^^ pgen else data
  let data := (data <<< 1) + ((pa >>> 23) &&& 1)
  let pa := pa <<< 1
  let ad := if j + 26 > n then (ad + ((data >>> (n - 25)) &&& 1)) <<< 1 else ad
  (data, pa, ad)

theorem uplinkLoop_succ (n pgen k : Nat) (s : Nat × Nat × Nat) :
    uplinkLoop n pgen (k + 1) s = icaoStep n pgen k (uplinkLoop n pgen k s) := rfl

theorem uplinkLoop_eq_foldl (n pgen k : Nat) (s : Nat × Nat × Nat) :
    uplinkLoop n pgen k s = (List.range k).foldl (fun s j => icaoStep n pgen j s) s := by
  induction k with
  | zero => rfl
  | succ k ih => rw [uplinkLoop_succ, ih, List.range_succ, List.foldl_append]; rfl

/-- the loop state `(data, PA, ad)` as Python values -/
def encS (s : Nat × Nat × Nat) : Val × Val × Val := (Val.ofNat s.1, Val.ofNat s.2.1, Val.ofNat s.2.2)

/-- a `for j in …` loop whose body never breaks and acts on the state as `step` does -/
theorem forIn_steps (f : Val → Val × Val × Val × Val → Res (ForInStep (Val × Val × Val × Val)))
    (step : Nat → Nat × Nat × Nat → Nat × Nat × Nat)
    (hf : ∀ j jv s, f (Val.ofNat j) (jv, encS s) = .val (ForInStep.yield (Val.ofNat j, encS (step j s))))
    (l : List Nat) : ∀ (jv : Val) (s : Nat × Nat × Nat),
      ∃ jv', forIn (l.map Val.ofNat) (jv, encS s) f = .val (jv', encS (l.foldl (fun s j => step j s) s)) := by
  induction l with
  | nil => intro jv s; exact ⟨jv, rfl⟩
  | cons a l ih =>
    intro jv s
    obtain ⟨jv', h'⟩ := ih (Val.ofNat a) (step a s)
    refine ⟨jv', ?_⟩
    rw [List.map_cons, List.forIn_cons, hf, bind_val']
    exact h'

theorem pyRange3_01 (N : Nat) :
    pyRange3 (Val.ofNat 0) (Val.ofNat N) (Val.ofNat 1) = .val (.tuple ((List.range N).map Val.ofNat)) := by
  simp only [pyRange3, int?_ofNat]
  have e : ((if ((1 : Nat) : Int) > 0 then (((N : Int) - ((0 : Nat) : Int) + ((1 : Nat) : Int) - 1) / ((1 : Nat) : Int)).toNat
      else ((((0 : Nat) : Int) - (N : Int) + -((1 : Nat) : Int) - 1) / -((1 : Nat) : Int)).toNat)) = N := by
    simp
  simp only [e]
  simp [Val.ofNat]

theorem pyLen_str (m : Msg) : pyLen (.str m) = .val (Val.ofNat m.length) := rfl
theorem pyMul_ofNat2 (a b : Nat) : pyMul (Val.ofNat a) (Val.ofNat b) = .val (Val.ofNat (a * b)) := by
  simp only [Val.ofNat, pyMul_num, Nat.cast_mul]
theorem pyIter_tuple (l : List Val) : pyIter (.tuple l) = .val l := rfl

/-- `msg[:-6]` -/
theorem pySlice_dropLast6 (m : Msg) :
    pySlice (.str m) none (some (Val.num (-6))) = .val (.str (dropLast 6 m)) := by
  have h6 : (Val.num (-6)).int? = some (-((6 : Nat) : Int)) := by simp [Val.int?]
  simp only [pySlice, optInt, h6, bind_val', sliceList, normBound_neg _ 6 (by decide), dropLast, slice,
    List.drop_zero, Nat.sub_zero]

theorem litG : Val.num 4294575232 = Val.ofNat 4294575232 := rfl

theorem isHex_dropLast {m : Msg} (h : IsHex m) (k : Nat) : IsHex (dropLast k m) :=
  fun c hc => h c (List.mem_of_mem_take hc)

/-- `uplink.uplink_icao(msg)` on a hex message of at least 14 digits -/
theorem _root_.PyModeS.Tie.uplink_icao_tie (m : Msg) (h : IsHex m) (hl : 14 ≤ m.length) :
    Gen.uplink.uplink_icao (.str m) = .val (.str (uplinkIcao m)) := by
  unfold Gen.uplink.uplink_icao uplinkIcao
  have hne1 : dropLast 6 m ≠ [] := by
    intro e; have := congrArg List.length e; simp [dropLast] at this; omega
  have hne2 : takeLast 6 m ≠ [] := by
    intro e; have := congrArg List.length e; simp [takeLast] at this; omega
  have s14 := pySub_ofNat2 m.length 14 hl
  have s25 := pySub_ofNat2 (m.length * 4) 25 (by omega)
  have s26 := pySub_ofNat2 (m.length * 4) 26 (by omega)
  simp only [pyLen_str, bind_val', lit2, lit4, lit14, lit23, lit25, lit26, litG, num_one_ofNat, num_zero_ofNat,
    s14, s25, s26, pyMul_ofNat2, pyShl_ofNat, pySlice_dropLast6, pySlice_last6,
    pyInt2_hex _ (isHex_dropLast h 6) hne1, pyInt2_hex _ (isHex_takeLast h 6) hne2, pyRange3_01, pyIter_tuple]
  rw [uplinkLoop_eq_foldl]
  generalize hN : m.length * 4 = N at *
  generalize hG : 4294575232 <<< ((m.length - 14) * 4) = pgen
  generalize hexToNatM (dropLast 6 m) = data0
  generalize hexToNatM (takeLast 6 m) = pa0
  have hN26 : 26 ≤ N := by omega
  generalize hr : (forIn (m := Res) (List.map Val.ofNat (List.range N)) (_ : Val × Val × Val × Val) _) = r
  have key : ∃ jv', r = .val (jv', encS ((List.range N).foldl (fun s j => icaoStep N pgen j s) (data0, pa0, 0))) := by
    rw [← hr]
    refine forIn_steps _ (icaoStep N pgen) ?_ (List.range N) Val.none (data0, pa0, 0)
    intro j jv s
    obtain ⟨data, pa, ad⟩ := s
    simp only [encS, icaoStep, pyBitAnd_ofNat, pyBitXor_ofNat, pyShl_ofNat, pyShr_ofNat, pyAdd_ofNat2, pyGt_ofNat2,
      bind_val', pyTruth_ofNat, pyTruth_bool, Res.pure_eq, decide_eq_true_eq, gt_iff_lt]
    have e : (N - 26 < j) = (N < j + 26) := by
      apply propext; omega
    simp only [e]
    split_ifs <;> rfl
  obtain ⟨jv', rfl⟩ := key
  simp only [bind_val', encS, pyShr_ofNat, pyFmtHexU6_ofNat]

/-! ### the two frame lengths of Mode S (56 and 112 bits) -/

theorem _root_.PyModeS.Tie.pr_tie_frame (m : Msg) (h : IsHex m) (hl : m.length = 14 ∨ m.length = 28) :
    Gen.uplink.pr (.str m) = .val (Val.ofOptNat (uplinkPr (hex2binM m))) := by
  rcases hl with hl | hl
  · exact pr_tie m h 7 (by omega) (by omega)
  · exact pr_tie m h 14 (by omega) (by omega)

theorem _root_.PyModeS.Tie.lockout_tie_frame (m : Msg) (h : IsHex m) (hl : m.length = 14 ∨ m.length = 28) :
    Gen.uplink.lockout (.str m) = .val (Val.ofOptBool (uplinkLockout (hex2binM m))) := by
  rcases hl with hl | hl
  · exact lockout_tie m h 7 (by omega) (by omega)
  · exact lockout_tie m h 14 (by omega) (by omega)

theorem _root_.PyModeS.Tie.ic_tie_frame (m : Msg) (h : IsHex m) (hl : m.length = 14 ∨ m.length = 28) :
    Gen.uplink.ic (.str m) = .val (Val.ofOptString (uplinkIc (hex2binM m))) := by
  rcases hl with hl | hl
  · exact ic_tie m h 7 (by omega) (by omega)
  · exact ic_tie m h 14 (by omega) (by omega)

theorem _root_.PyModeS.Tie.bds_tie_frame (m : Msg) (h : IsHex m) (hl : m.length = 14 ∨ m.length = 28) :
    Gen.uplink.bds (.str m) = .val (Val.ofOptString (uplinkBds (hex2binM m))) := by
  rcases hl with hl | hl
  · exact bds_tie m h 7 (by omega) (by omega)
  · exact bds_tie m h 14 (by omega) (by omega)

theorem _root_.PyModeS.Tie.uplink_fields_tie_frame (m : Msg) (h : IsHex m) (hl : m.length = 14 ∨ m.length = 28) :
    Gen.uplink.uplink_fields (.str m) = .val (Val.ofUplinkFields (uplinkFields (hex2binM m))) := by
  rcases hl with hl | hl
  · exact uplink_fields_tie m h 7 (by omega) (by omega)
  · exact uplink_fields_tie m h 14 (by omega) (by omega)

end UplinkAux
end PyModeS.Tie
