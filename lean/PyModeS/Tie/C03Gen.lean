/-
  C03 / C04 / C05 transported to the source-generated definitions of bds05.py / bds06.py / adsb.py: the CPR theorems
  (global airborne decode, decode with a reference position, global surface decode) stated about
  `Gen.bds05.airborne_position`, `Gen.bds05.airborne_position_with_ref`, `Gen.bds06.surface_position`,
  `Gen.bds06.surface_position_with_ref` and the dispatchers `Gen.adsb.position` / `Gen.adsb.position_with_ref` (the Lean
  text py2lean.py produced from the current Python source, NL function `common.cprNL`).  Each statement composes a tie
  theorem (`Tie/Cpr.lean`, `Tie/CprGlobal.lean`, `Tie/Adsb.lean`) with a theorem of `Properties/C03.lean`, `C04.lean`,
  `C05.lean`.  Frames are hex strings `m`; the hypotheses name the three CPR fields of `hex2binM m` (`cprF`, `cprYZ`,
  `cprXZ` below: ME bit 22, ME bits 23–39, ME bits 40–56).  The last section applies the generated decoders to the hex
  digits of frames built from the DO-260B encoder `Spec.cprEncode`.
-/
import PyModeS.Properties.C03
import PyModeS.Properties.C04
import PyModeS.Properties.C05
import PyModeS.Proofs.Fields.Frame
import PyModeS.Tie.Cpr
import PyModeS.Tie.CprGlobal
import PyModeS.Tie.Adsb

-- symbolic execution of long generated `do` blocks: generous but finite budget (proof times are seconds)
set_option maxHeartbeats 1000000
namespace PyModeS.C03Gen
open PyModeS PyModeS.Py PyModeS.CRC PyModeS.Spec

/-! ### the CPR fields of a frame -/

/-- ME bit 22 (frame bit 54): the CPR format, `false` = even, `true` = odd -/
def cprF (bits : Bits) : Bool := bits.getD 53 false
/-- ME bits 23–39: the 17-bit encoded latitude YZ -/
def cprYZ (bits : Bits) : Nat := bin2int (slice 54 71 bits)
/-- ME bits 40–56: the 17-bit encoded longitude XZ -/
def cprXZ (bits : Bits) : Nat := bin2int (slice 71 88 bits)

theorem bits_len (m : Msg) (hl : 22 ≤ m.length) : 88 ≤ (hex2binM m).length := by
  rw [hex2binM_length]; omega

theorem ne_nil {m : Msg} (hl : 22 ≤ m.length) : m ≠ [] := by
  intro e; rw [e] at hl; simp at hl

theorem cprFields_eq (bits : Bits) (h : 88 ≤ bits.length) :
    cprFields bits = .val ⟨cprF bits, cprYZ bits, cprXZ bits⟩ := by
  unfold cprFields
  dsimp only
  rw [Fields.idxR_drop 32 21 (by omega), Fields.bin2intR_slice_drop rfl 32 22 39 (by omega) (by omega),
    Fields.bin2intR_slice_drop rfl 32 39 56 (by omega) (by omega)]
  simp only [Res.bind_val, Res.pure_eq, cprF, cprYZ, cprXZ, Nat.reduceAdd, List.getD_eq_getElem?_getD,
    List.getElem?_eq_getElem (show 53 < bits.length by omega), Option.getD_some]

theorem surfFields_eq (bits : Bits) (h : 88 ≤ bits.length) : surfFields bits = .val (cprYZ bits, cprXZ bits) := by
  unfold surfFields
  rw [Fields.bin2intR_slice rfl 54 71 (by omega) (by omega), Fields.bin2intR_slice rfl 71 88 (by omega) (by omega)]
  rfl

/-! ### the four generated decoders in terms of the fields -/

theorem gen_airborne (m0 m1 : Msg) (h0 : IsHex m0) (h1 : IsHex m1) (hl0 : 22 ≤ m0.length) (hl1 : 22 ≤ m1.length)
    (t0 t1 : Rat) :
    Gen.bds05.airborne_position (.str m0) (.str m1) (.num t0) (.num t1) =
      (airbornePositionCore cprNL ⟨cprF (hex2binM m0), cprYZ (hex2binM m0), cprXZ (hex2binM m0)⟩
        ⟨cprF (hex2binM m1), cprYZ (hex2binM m1), cprXZ (hex2binM m1)⟩ t0 t1 >>=
          fun o => .val (Tie.CprGlobal.encOptPos o)) := by
  rw [Tie.airborne_position_tie m0 m1 h0 h1 hl0 hl1 t0 t1]
  unfold airbornePosition
  rw [cprFields_eq _ (bits_len m0 hl0), cprFields_eq _ (bits_len m1 hl1)]
  rfl

theorem gen_surface (m0 m1 : Msg) (h0 : IsHex m0) (h1 : IsHex m1) (hl0 : 22 ≤ m0.length) (hl1 : 22 ≤ m1.length)
    (t0 t1 la lo : Rat) :
    Gen.bds06.surface_position (.str m0) (.str m1) (.num t0) (.num t1) (.num la) (.num lo) =
      .val (Tie.CprGlobal.encOptPos (surfacePositionCore cprNL (cprYZ (hex2binM m0), cprXZ (hex2binM m0))
        (cprYZ (hex2binM m1), cprXZ (hex2binM m1)) t0 t1 la lo)) := by
  rw [Tie.surface_position_tie m0 m1 h0 h1 (ne_nil hl0) (ne_nil hl1) t0 t1 la lo]
  unfold surfacePosition
  rw [surfFields_eq _ (bits_len m0 hl0), surfFields_eq _ (bits_len m1 hl1)]
  rfl

theorem gen_airborne_ref (m : Msg) (h : IsHex m) (hl : 22 ≤ m.length) (la lo : Rat) :
    Gen.bds05.airborne_position_with_ref (.str m) (.num la) (.num lo) =
      .val (.tuple [.num (positionWithRefCore cprNL 360
          ⟨cprF (hex2binM m), cprYZ (hex2binM m), cprXZ (hex2binM m)⟩ la lo).1,
        .num (positionWithRefCore cprNL 360 ⟨cprF (hex2binM m), cprYZ (hex2binM m), cprXZ (hex2binM m)⟩ la lo).2]) := by
  rw [Tie.airborne_position_with_ref_tie m h (ne_nil hl) la lo]
  unfold airbornePositionWithRef
  rw [cprFields_eq _ (bits_len m hl)]
  rfl

theorem gen_surface_ref (m : Msg) (h : IsHex m) (hl : 22 ≤ m.length) (la lo : Rat) :
    Gen.bds06.surface_position_with_ref (.str m) (.num la) (.num lo) =
      .val (.tuple [.num (positionWithRefCore cprNL 90
          ⟨cprF (hex2binM m), cprYZ (hex2binM m), cprXZ (hex2binM m)⟩ la lo).1,
        .num (positionWithRefCore cprNL 90 ⟨cprF (hex2binM m), cprYZ (hex2binM m), cprXZ (hex2binM m)⟩ la lo).2]) := by
  rw [Tie.surface_position_with_ref_tie m h (ne_nil hl) la lo]
  unfold surfacePositionWithRef
  rw [cprFields_eq _ (bits_len m hl)]
  rfl

/-- `None` read through the encoding of the tie -/
theorem optpos_none_iff (x : Res (Option (Rat × Rat))) :
    (x >>= fun o => (.val (Tie.CprGlobal.encOptPos o) : Res Val)) = .val .none ↔ x = .val none := by
  rcases x with ((_ | ⟨a, b⟩) | _ | _)
  · simp [Tie.CprGlobal.encOptPos]
  · simp [Tie.CprGlobal.encOptPos]
  · simp
  · simp

/-! ## C03 — airborne global decode (`bds05.airborne_position`) -/

/-- two frames of the same CPR format are rejected by the generated decoder with RuntimeError -/
theorem same_parity_runtimeError_tie (m0 m1 : Msg) (h0 : IsHex m0) (h1 : IsHex m1) (hl0 : 22 ≤ m0.length)
    (hl1 : 22 ≤ m1.length) (t0 t1 : Rat) (hp : cprF (hex2binM m0) = cprF (hex2binM m1)) :
    Gen.bds05.airborne_position (.str m0) (.str m1) (.num t0) (.num t1) = .rte := by
  rw [gen_airborne m0 m1 h0 h1 hl0 hl1, C03.same_parity_runtimeError cprNL _ _ t0 t1 hp]
  rfl

/-- passing (odd, even) instead of (even, odd), times swapped accordingly, gives the same result -/
theorem arg_order_irrelevant_tie (m0 m1 : Msg) (h0 : IsHex m0) (h1 : IsHex m1) (hl0 : 22 ≤ m0.length)
    (hl1 : 22 ≤ m1.length) (t0 t1 : Rat) (hf0 : cprF (hex2binM m0) = false) (hf1 : cprF (hex2binM m1) = true) :
    Gen.bds05.airborne_position (.str m1) (.str m0) (.num t1) (.num t0) =
      Gen.bds05.airborne_position (.str m0) (.str m1) (.num t0) (.num t1) := by
  rw [gen_airborne m0 m1 h0 h1 hl0 hl1, gen_airborne m1 m0 h1 h0 hl1 hl0,
    C03.arg_order_irrelevant cprNL ⟨cprF (hex2binM m0), cprYZ (hex2binM m0), cprXZ (hex2binM m0)⟩
      ⟨cprF (hex2binM m1), cprYZ (hex2binM m1), cprXZ (hex2binM m1)⟩ t0 t1 hf0 hf1]

/-- the generated decoder on an (even, odd) pair in terms of its intermediate values: `None` when the two candidate
    latitudes lie in different NL zones, otherwise the candidate of the newer frame and its wrapped longitude -/
theorem airborne_position_unfold_tie (m0 m1 : Msg) (h0 : IsHex m0) (h1 : IsHex m1) (hl0 : 22 ≤ m0.length)
    (hl1 : 22 ≤ m1.length) (t0 t1 : Rat) (hf0 : cprF (hex2binM m0) = false) (hf1 : cprF (hex2binM m1) = true) :
    Gen.bds05.airborne_position (.str m0) (.str m1) (.num t0) (.num t1) =
      (let f0 : CprFrame := ⟨false, cprYZ (hex2binM m0), cprXZ (hex2binM m0)⟩
       let f1 : CprFrame := ⟨true, cprYZ (hex2binM m1), cprXZ (hex2binM m1)⟩
       if cprNL (CPR.latEven f0 f1) ≠ cprNL (CPR.latOdd f0 f1) then .val .none
       else if t0 > t1 then
         .val (.tuple [.num (CPR.latEven f0 f1),
           .num (CPR.wrap180 (CPR.lonRaw 360 (cprNL (CPR.latEven f0 f1)) 0 f0.lon f1.lon f0.lon))])
       else
         .val (.tuple [.num (CPR.latOdd f0 f1),
           .num (CPR.wrap180 (CPR.lonRaw 360 (cprNL (CPR.latOdd f0 f1)) 1 f0.lon f1.lon f1.lon))])) := by
  rw [gen_airborne m0 m1 h0 h1 hl0 hl1, hf0, hf1, C03.decode_unfold cprNL _ _ t0 t1 rfl rfl]
  dsimp only
  split_ifs <;> rfl

/-- **none_iff_NL_differs.** Even and odd frame carrying the fields of two DO-260B encodings whose carried latitudes
    differ by less than 3/59°: the generated decoder returns `None` exactly when the two carried latitudes lie in
    different NL zones. -/
theorem none_iff_NL_differs_tie (m0 m1 : Msg) (h0 : IsHex m0) (h1 : IsHex m1) (hl0 : 22 ≤ m0.length)
    (hl1 : 22 ≤ m1.length) (lat0 lon0 lat1 lon1 t0 t1 : ℚ) (e0 e1 : Spec.Enc)
    (he0 : e0 = Spec.cprEncode cprNL 360 0 lat0 lon0) (he1 : e1 = Spec.cprEncode cprNL 360 1 lat1 lon1)
    (hf0 : cprF (hex2binM m0) = false) (hy0 : cprYZ (hex2binM m0) = e0.yz) (hx0 : cprXZ (hex2binM m0) = e0.xz)
    (hf1 : cprF (hex2binM m1) = true) (hy1 : cprYZ (hex2binM m1) = e1.yz) (hx1 : cprXZ (hex2binM m1) = e1.xz)
    (hr0 : -90 ≤ e0.rlat ∧ e0.rlat ≤ 90) (hr1 : -90 ≤ e1.rlat ∧ e1.rlat ≤ 90)
    (hclose : |e0.rlat - e1.rlat| < 3 / 59) :
    Gen.bds05.airborne_position (.str m0) (.str m1) (.num t0) (.num t1) = .val .none
      ↔ cprNL e0.rlat ≠ cprNL e1.rlat := by
  rw [gen_airborne m0 m1 h0 h1 hl0 hl1, hf0, hy0, hx0, hf1, hy1, hx1, optpos_none_iff]
  exact C03.none_iff_NL_differs cprNL lat0 lon0 lat1 lon1 t0 t1 e0 e1 he0 he1 hr0 hr1 hclose

/-- **global_decode.** Under the hypotheses of `none_iff_NL_differs_tie`, if both carried latitudes have the same
    `n = cprNL rlat` and — when `n ≥ 2` — the carried longitudes differ, modulo 360, by less than `180/(n(n−1))`, the
    generated decoder returns the position carried by the *newer* frame: the latitude exactly, the longitude as its
    representative modulo 360 in `(-180, 180]`. -/
theorem global_decode_tie (m0 m1 : Msg) (h0 : IsHex m0) (h1 : IsHex m1) (hl0 : 22 ≤ m0.length)
    (hl1 : 22 ≤ m1.length) (lat0 lon0 lat1 lon1 t0 t1 : ℚ) (e0 e1 : Spec.Enc)
    (he0 : e0 = Spec.cprEncode cprNL 360 0 lat0 lon0) (he1 : e1 = Spec.cprEncode cprNL 360 1 lat1 lon1)
    (hf0 : cprF (hex2binM m0) = false) (hy0 : cprYZ (hex2binM m0) = e0.yz) (hx0 : cprXZ (hex2binM m0) = e0.xz)
    (hf1 : cprF (hex2binM m1) = true) (hy1 : cprYZ (hex2binM m1) = e1.yz) (hx1 : cprXZ (hex2binM m1) = e1.xz)
    (hr0 : -90 ≤ e0.rlat ∧ e0.rlat ≤ 90) (hr1 : -90 ≤ e1.rlat ∧ e1.rlat ≤ 90)
    (hclose : |e0.rlat - e1.rlat| < 3 / 59)
    (hnl : cprNL e0.rlat = cprNL e1.rlat)
    (hlon : 2 ≤ cprNL e0.rlat → ∃ s : ℤ,
      |e0.rlon - e1.rlon - 360 * s| < 180 / ((cprNL e0.rlat : ℚ) * ((cprNL e0.rlat : ℚ) - 1))) :
    ∃ lon : ℚ,
      Gen.bds05.airborne_position (.str m0) (.str m1) (.num t0) (.num t1)
        = .val (.tuple [.num (if t0 > t1 then e0.rlat else e1.rlat), .num lon]) ∧
      (∃ z : ℤ, lon = (if t0 > t1 then e0.rlon else e1.rlon) + 360 * z) ∧
      -180 < lon ∧ lon ≤ 180 := by
  obtain ⟨lon, hdec, hz, hlo, hhi⟩ := C03.global_decode cprNL lat0 lon0 lat1 lon1 t0 t1 e0 e1 he0 he1 hr0 hr1
    hclose hnl hlon
  refine ⟨lon, ?_, hz, hlo, hhi⟩
  rw [gen_airborne m0 m1 h0 h1 hl0 hl1, hf0, hy0, hx0, hf1, hy1, hx1, hdec]
  rfl

/-! ## C04 — decode with a reference position (`bds05.airborne_position_with_ref`,
  `bds06.surface_position_with_ref`, `adsb.position_with_ref`) -/

/-- the generated `adsb.position_with_ref` routes by type code: the generated surface decoder for TC 5–8, the generated
    airborne decoder for TC 9–18 and 20–22, RuntimeError otherwise; the reference is handed on unchanged -/
theorem position_with_ref_routing_tie (m : Msg) (h : IsHex m) (hl : 10 ≤ m.length) (la lo : Val) (tc : Nat)
    (htc : tcB (hex2binM m) = some tc) :
    Gen.adsb.position_with_ref (.str m) la lo =
      if 5 ≤ tc ∧ tc ≤ 8 then Gen.bds06.surface_position_with_ref (.str m) la lo
      else if (9 ≤ tc ∧ tc ≤ 18) ∨ (20 ≤ tc ∧ tc ≤ 22) then Gen.bds05.airborne_position_with_ref (.str m) la lo
      else .rte := by
  rw [Tie.position_with_ref_tie m h hl la lo, C04.tc_routing _ tc htc]
  split_ifs <;> rfl

/-- … and RuntimeError on a frame without a type code (DF other than 17/18) -/
theorem position_with_ref_no_tc_tie (m : Msg) (h : IsHex m) (hl : 10 ≤ m.length) (la lo : Val)
    (htc : tcB (hex2binM m) = none) :
    Gen.adsb.position_with_ref (.str m) la lo = .rte := by
  rw [Tie.position_with_ref_tie m h hl la lo]
  unfold positionWithRefRoute
  rw [htc]
  rfl

/-- **ref_decode (airborne).** The frame carries the fields of the DO-260B encoding `e` of some position (format `i`);
    a reference latitude closer than half a latitude zone to the carried latitude and a reference longitude closer than
    half a longitude zone to the carried longitude shifted by `s` zones make the generated decoder return exactly the
    carried latitude and that shifted longitude. -/
theorem airborne_ref_decode_tie (m : Msg) (h : IsHex m) (hl : 22 ≤ m.length) (i : ℕ) (hi : i = 0 ∨ i = 1)
    (lat lon latRef lonRef : ℚ) (e : Spec.Enc) (he : e = Spec.cprEncode cprNL 360 i lat lon)
    (hf : cprF (hex2binM m) = decide (i = 1)) (hy : cprYZ (hex2binM m) = e.yz) (hx : cprXZ (hex2binM m) = e.xz)
    (s : ℤ) (hlat : |latRef - e.rlat| < e.dlat / 2) (hlon : |lonRef - (e.rlon + e.dlon * s)| < e.dlon / 2) :
    Gen.bds05.airborne_position_with_ref (.str m) (.num latRef) (.num lonRef) =
      .val (.tuple [.num e.rlat, .num (e.rlon + e.dlon * s)]) := by
  rw [gen_airborne_ref m h hl, hf, hy, hx,
    C04.ref_decode cprNL 360 (by norm_num) i hi lat lon latRef lonRef e he s hlat hlon]

/-- **ref_decode (surface)**: the same for the generated `surface_position_with_ref` (zones of `90°`) -/
theorem surface_ref_decode_tie (m : Msg) (h : IsHex m) (hl : 22 ≤ m.length) (i : ℕ) (hi : i = 0 ∨ i = 1)
    (lat lon latRef lonRef : ℚ) (e : Spec.Enc) (he : e = Spec.cprEncode cprNL 90 i lat lon)
    (hf : cprF (hex2binM m) = decide (i = 1)) (hy : cprYZ (hex2binM m) = e.yz) (hx : cprXZ (hex2binM m) = e.xz)
    (s : ℤ) (hlat : |latRef - e.rlat| < e.dlat / 2) (hlon : |lonRef - (e.rlon + e.dlon * s)| < e.dlon / 2) :
    Gen.bds06.surface_position_with_ref (.str m) (.num latRef) (.num lonRef) =
      .val (.tuple [.num e.rlat, .num (e.rlon + e.dlon * s)]) := by
  rw [gen_surface_ref m h hl, hf, hy, hx,
    C04.ref_decode cprNL 90 (by norm_num) i hi lat lon latRef lonRef e he s hlat hlon]

/-- **ref_lon_mod360 (airborne).** The longitude is recovered modulo 360: the reference picks the sheet `t`. -/
theorem airborne_ref_mod360_tie (m : Msg) (h : IsHex m) (hl : 22 ≤ m.length) (i : ℕ) (hi : i = 0 ∨ i = 1)
    (lat lon latRef lonRef : ℚ) (e : Spec.Enc) (he : e = Spec.cprEncode cprNL 360 i lat lon)
    (hf : cprF (hex2binM m) = decide (i = 1)) (hy : cprYZ (hex2binM m) = e.yz) (hx : cprXZ (hex2binM m) = e.xz)
    (t : ℤ) (hlat : |latRef - e.rlat| < e.dlat / 2) (hlon : |lonRef - e.rlon - 360 * t| < e.dlon / 2) :
    Gen.bds05.airborne_position_with_ref (.str m) (.num latRef) (.num lonRef) =
      .val (.tuple [.num e.rlat, .num (e.rlon + 360 * t)]) := by
  rw [gen_airborne_ref m h hl, hf, hy, hx, C04.ref_lat cprNL 360 (by norm_num) i hi lat lon latRef lonRef e he hlat,
    C04.ref_lon_mod360 cprNL i hi lat lon latRef lonRef e he t hlat hlon]

/-- **ref_lon_surface_mod360.** Surface frames: the same, the 360-degree sheet being `4 t` surface sheets. -/
theorem surface_ref_mod360_tie (m : Msg) (h : IsHex m) (hl : 22 ≤ m.length) (i : ℕ) (hi : i = 0 ∨ i = 1)
    (lat lon latRef lonRef : ℚ) (e : Spec.Enc) (he : e = Spec.cprEncode cprNL 90 i lat lon)
    (hf : cprF (hex2binM m) = decide (i = 1)) (hy : cprYZ (hex2binM m) = e.yz) (hx : cprXZ (hex2binM m) = e.xz)
    (t : ℤ) (hlat : |latRef - e.rlat| < e.dlat / 2) (hlon : |lonRef - e.rlon - 360 * t| < e.dlon / 2) :
    Gen.bds06.surface_position_with_ref (.str m) (.num latRef) (.num lonRef) =
      .val (.tuple [.num e.rlat, .num (e.rlon + 360 * t)]) := by
  rw [gen_surface_ref m h hl, hf, hy, hx, C04.ref_lat cprNL 90 (by norm_num) i hi lat lon latRef lonRef e he hlat,
    C04.ref_lon_surface_mod360 cprNL i hi lat lon latRef lonRef e he t hlat hlon]

/-- **ref_stable (airborne).** The result of the generated decoder does not depend on the reference as long as it stays
    inside the open box of half a zone around the (shifted) carried position. -/
theorem airborne_ref_stable_tie (m : Msg) (h : IsHex m) (hl : 22 ≤ m.length) (i : ℕ) (hi : i = 0 ∨ i = 1)
    (lat lon latRef lonRef latRef' lonRef' : ℚ) (e : Spec.Enc) (he : e = Spec.cprEncode cprNL 360 i lat lon)
    (hf : cprF (hex2binM m) = decide (i = 1)) (hy : cprYZ (hex2binM m) = e.yz) (hx : cprXZ (hex2binM m) = e.xz)
    (s : ℤ) (hlat : |latRef - e.rlat| < e.dlat / 2) (hlon : |lonRef - (e.rlon + e.dlon * s)| < e.dlon / 2)
    (hlat' : |latRef' - e.rlat| < e.dlat / 2) (hlon' : |lonRef' - (e.rlon + e.dlon * s)| < e.dlon / 2) :
    Gen.bds05.airborne_position_with_ref (.str m) (.num latRef) (.num lonRef) =
      Gen.bds05.airborne_position_with_ref (.str m) (.num latRef') (.num lonRef') := by
  rw [airborne_ref_decode_tie m h hl i hi lat lon latRef lonRef e he hf hy hx s hlat hlon,
    airborne_ref_decode_tie m h hl i hi lat lon latRef' lonRef' e he hf hy hx s hlat' hlon']

/-- **ref_stable (surface).** -/
theorem surface_ref_stable_tie (m : Msg) (h : IsHex m) (hl : 22 ≤ m.length) (i : ℕ) (hi : i = 0 ∨ i = 1)
    (lat lon latRef lonRef latRef' lonRef' : ℚ) (e : Spec.Enc) (he : e = Spec.cprEncode cprNL 90 i lat lon)
    (hf : cprF (hex2binM m) = decide (i = 1)) (hy : cprYZ (hex2binM m) = e.yz) (hx : cprXZ (hex2binM m) = e.xz)
    (s : ℤ) (hlat : |latRef - e.rlat| < e.dlat / 2) (hlon : |lonRef - (e.rlon + e.dlon * s)| < e.dlon / 2)
    (hlat' : |latRef' - e.rlat| < e.dlat / 2) (hlon' : |lonRef' - (e.rlon + e.dlon * s)| < e.dlon / 2) :
    Gen.bds06.surface_position_with_ref (.str m) (.num latRef) (.num lonRef) =
      Gen.bds06.surface_position_with_ref (.str m) (.num latRef') (.num lonRef') := by
  rw [surface_ref_decode_tie m h hl i hi lat lon latRef lonRef e he hf hy hx s hlat hlon,
    surface_ref_decode_tie m h hl i hi lat lon latRef' lonRef' e he hf hy hx s hlat' hlon']

/-- **`adsb.position_with_ref`, all position type codes at once.** The frame has type code `tc` (5–8 surface, zones of
    90°; 9–18 / 20–22 airborne, zones of 360°) and carries the fields of the encoding `e` for that zone size: the
    generated dispatcher returns the carried latitude and the shifted carried longitude. -/
theorem adsb_position_with_ref_decode_tie (m : Msg) (h : IsHex m) (hl : 22 ≤ m.length) (tc : Nat)
    (htc : tcB (hex2binM m) = some tc)
    (hpos : (5 ≤ tc ∧ tc ≤ 8) ∨ (9 ≤ tc ∧ tc ≤ 18) ∨ (20 ≤ tc ∧ tc ≤ 22))
    (i : ℕ) (hi : i = 0 ∨ i = 1) (lat lon latRef lonRef : ℚ) (e : Spec.Enc)
    (he : e = Spec.cprEncode cprNL (if 5 ≤ tc ∧ tc ≤ 8 then 90 else 360) i lat lon)
    (hf : cprF (hex2binM m) = decide (i = 1)) (hy : cprYZ (hex2binM m) = e.yz) (hx : cprXZ (hex2binM m) = e.xz)
    (s : ℤ) (hlat : |latRef - e.rlat| < e.dlat / 2) (hlon : |lonRef - (e.rlon + e.dlon * s)| < e.dlon / 2) :
    Gen.adsb.position_with_ref (.str m) (.num latRef) (.num lonRef) =
      .val (.tuple [.num e.rlat, .num (e.rlon + e.dlon * s)]) := by
  rw [position_with_ref_routing_tie m h (by omega) _ _ tc htc]
  by_cases hs : 5 ≤ tc ∧ tc ≤ 8
  · rw [if_pos hs] at he
    rw [if_pos hs]
    exact surface_ref_decode_tie m h hl i hi lat lon latRef lonRef e he hf hy hx s hlat hlon
  · rw [if_neg hs] at he
    have ha : (9 ≤ tc ∧ tc ≤ 18) ∨ (20 ≤ tc ∧ tc ≤ 22) := by omega
    rw [if_neg hs, if_pos ha]
    exact airborne_ref_decode_tie m h hl i hi lat lon latRef lonRef e he hf hy hx s hlat hlon

/-! ## C05 — surface global decode (`bds06.surface_position`) and the dispatcher `adsb.position` -/

/-- without a receiver location (`lat_ref` or `lon_ref` is `None`) the generated `adsb.position` refuses a surface pair
    with RuntimeError -/
theorem surface_requires_ref_tie (m0 m1 : Msg) (h0 : IsHex m0) (h1 : IsHex m1) (hl0 : 10 ≤ m0.length)
    (hl1 : 10 ≤ m1.length) (tc0 tc1 : Nat) (htc0 : tcB (hex2binM m0) = some tc0) (htc1 : tcB (hex2binM m1) = some tc1)
    (s0 : 5 ≤ tc0 ∧ tc0 ≤ 8) (s1 : 5 ≤ tc1 ∧ tc1 ≤ 8) (t0 t1 la lo : Val) (hno : la = .none ∨ lo = .none) :
    Gen.adsb.position (.str m0) (.str m1) t0 t1 la lo = .rte := by
  rw [Tie.position_tie m0 m1 h0 h1 hl0 hl1]
  have hr : Tie.Adsb.haveRef la lo = false := by
    rcases hno with rfl | rfl
    · rfl
    · simp [Tie.Adsb.haveRef, Val.beq]
  rw [hr]
  unfold positionRoute
  simp [htc0, htc1, s0, s1]

/-- two surface frames (TC 5–8) and a receiver location: `adsb.position` is the generated `surface_position` -/
theorem position_surface_tie (m0 m1 : Msg) (h0 : IsHex m0) (h1 : IsHex m1) (hl0 : 10 ≤ m0.length)
    (hl1 : 10 ≤ m1.length) (tc0 tc1 : Nat) (htc0 : tcB (hex2binM m0) = some tc0) (htc1 : tcB (hex2binM m1) = some tc1)
    (s0 : 5 ≤ tc0 ∧ tc0 ≤ 8) (s1 : 5 ≤ tc1 ∧ tc1 ≤ 8) (t0 t1 : Val) (la lo : Rat) :
    Gen.adsb.position (.str m0) (.str m1) t0 t1 (.num la) (.num lo) =
      Gen.bds06.surface_position (.str m0) (.str m1) t0 t1 (.num la) (.num lo) := by
  rw [Tie.position_tie m0 m1 h0 h1 hl0 hl1]
  have hr : Tie.Adsb.haveRef (.num la) (.num lo) = true := rfl
  rw [hr]
  unfold positionRoute
  simp [htc0, htc1, s0, s1]

/-- two airborne frames (both TC 9–18 or both TC 20–22): `adsb.position` is the generated `airborne_position`, the
    reference being ignored -/
theorem position_airborne_tie (m0 m1 : Msg) (h0 : IsHex m0) (h1 : IsHex m1) (hl0 : 10 ≤ m0.length)
    (hl1 : 10 ≤ m1.length) (tc0 tc1 : Nat) (htc0 : tcB (hex2binM m0) = some tc0) (htc1 : tcB (hex2binM m1) = some tc1)
    (ha : (9 ≤ tc0 ∧ tc0 ≤ 18 ∧ 9 ≤ tc1 ∧ tc1 ≤ 18) ∨ (20 ≤ tc0 ∧ tc0 ≤ 22 ∧ 20 ≤ tc1 ∧ tc1 ≤ 22))
    (t0 t1 la lo : Val) :
    Gen.adsb.position (.str m0) (.str m1) t0 t1 la lo = Gen.bds05.airborne_position (.str m0) (.str m1) t0 t1 := by
  rw [Tie.position_tie m0 m1 h0 h1 hl0 hl1]
  unfold positionRoute
  rw [htc0, htc1]
  have hs : ¬ (5 ≤ tc0 ∧ tc0 ≤ 8 ∧ 5 ≤ tc1 ∧ tc1 ≤ 8) := by omega
  by_cases h9 : 9 ≤ tc0 ∧ tc0 ≤ 18 ∧ 9 ≤ tc1 ∧ tc1 ≤ 18
  · simp only [if_neg hs, if_pos h9]; rfl
  · have h20 : 20 ≤ tc0 ∧ tc0 ≤ 22 ∧ 20 ≤ tc1 ∧ tc1 ≤ 22 := by omega
    simp only [if_neg hs, if_neg h9, if_pos h20]; rfl

/-- the generated surface decoder in terms of its intermediate values (`msg0` taken as the even, `msg1` as the odd
    frame, as coded): `None` when the chosen latitudes lie in different NL zones, otherwise the chosen latitude of the
    newer frame and the candidate longitude closest to the reference -/
theorem surface_position_unfold_tie (m0 m1 : Msg) (h0 : IsHex m0) (h1 : IsHex m1) (hl0 : 22 ≤ m0.length)
    (hl1 : 22 ≤ m1.length) (t0 t1 latRef lonRef : ℚ) :
    Gen.bds06.surface_position (.str m0) (.str m1) (.num t0) (.num t1) (.num latRef) (.num lonRef) =
      (let e : ℕ × ℕ := (cprYZ (hex2binM m0), cprXZ (hex2binM m0))
       let o : ℕ × ℕ := (cprYZ (hex2binM m1), cprXZ (hex2binM m1))
       if cprNL (CPR.sLatEven e o latRef) ≠ cprNL (CPR.sLatOdd e o latRef) then .val .none
       else if t0 > t1 then
         .val (.tuple [.num (CPR.sLatEven e o latRef),
           .num (CPR.pickLon lonRef (CPR.lonRaw 90 (cprNL (CPR.sLatEven e o latRef)) 0 e.2 o.2 e.2))])
       else
         .val (.tuple [.num (CPR.sLatOdd e o latRef),
           .num (CPR.pickLon lonRef (CPR.lonRaw 90 (cprNL (CPR.sLatOdd e o latRef)) 1 e.2 o.2 o.2))])) := by
  rw [gen_surface m0 m1 h0 h1 hl0 hl1, C05.decode_unfold]
  dsimp only
  split_ifs <;> rfl

/-- **surface None.** Two surface frames carrying the fields of two base-90 encodings whose carried latitudes differ by
    less than 0.75/59°, receiver latitude within 45° of both: the generated decoder returns `None` exactly when the two
    carried latitudes lie in different NL zones. -/
theorem surface_none_iff_NL_differs_tie (m0 m1 : Msg) (h0 : IsHex m0) (h1 : IsHex m1) (hl0 : 22 ≤ m0.length)
    (hl1 : 22 ≤ m1.length) (lat0 lon0 lat1 lon1 t0 t1 latRef lonRef : ℚ) (e0 e1 : Spec.Enc)
    (he0 : e0 = Spec.cprEncode cprNL 90 0 lat0 lon0) (he1 : e1 = Spec.cprEncode cprNL 90 1 lat1 lon1)
    (hy0 : cprYZ (hex2binM m0) = e0.yz) (hx0 : cprXZ (hex2binM m0) = e0.xz)
    (hy1 : cprYZ (hex2binM m1) = e1.yz) (hx1 : cprXZ (hex2binM m1) = e1.xz)
    (hr0 : -90 ≤ e0.rlat ∧ e0.rlat < 90) (hr1 : -90 ≤ e1.rlat ∧ e1.rlat < 90)
    (hclose : |e0.rlat - e1.rlat| < 3 / 4 / 59)
    (href0 : |latRef - e0.rlat| < 45) (href1 : |latRef - e1.rlat| < 45) :
    Gen.bds06.surface_position (.str m0) (.str m1) (.num t0) (.num t1) (.num latRef) (.num lonRef) = .val .none
      ↔ cprNL e0.rlat ≠ cprNL e1.rlat := by
  obtain ⟨hE, hO⟩ := C05.hemisphere_choice cprNL lat0 lon0 lat1 lon1 latRef e0 e1 he0 he1 hr0 hr1 hclose href0 href1
  rw [gen_surface m0 m1 h0 h1 hl0 hl1, hy0, hx0, hy1, hx1, C05.decode_unfold, hE, hO]
  by_cases hn : cprNL e0.rlat = cprNL e1.rlat
  · simp [hn, Tie.CprGlobal.encOptPos]
  · simp [hn, Tie.CprGlobal.encOptPos]

/-- **hemisphere_choice / lon_quadrant_choice.** Under the same hypotheses and equal NL zones the latitude returned by
    the generated decoder is the latitude carried by the newer frame (the southern candidate `x − 90` is taken when the
    receiver is in the south), and the returned longitude is one of the four candidates `lon + 90k` normalised to
    `[-180, 180)`, none of which is closer to the receiver longitude in circular distance. -/
theorem surface_hemisphere_quadrant_tie (m0 m1 : Msg) (h0 : IsHex m0) (h1 : IsHex m1) (hl0 : 22 ≤ m0.length)
    (hl1 : 22 ≤ m1.length) (lat0 lon0 lat1 lon1 t0 t1 latRef lonRef : ℚ) (e0 e1 : Spec.Enc)
    (he0 : e0 = Spec.cprEncode cprNL 90 0 lat0 lon0) (he1 : e1 = Spec.cprEncode cprNL 90 1 lat1 lon1)
    (hy0 : cprYZ (hex2binM m0) = e0.yz) (hx0 : cprXZ (hex2binM m0) = e0.xz)
    (hy1 : cprYZ (hex2binM m1) = e1.yz) (hx1 : cprXZ (hex2binM m1) = e1.xz)
    (hr0 : -90 ≤ e0.rlat ∧ e0.rlat < 90) (hr1 : -90 ≤ e1.rlat ∧ e1.rlat < 90)
    (hclose : |e0.rlat - e1.rlat| < 3 / 4 / 59)
    (href0 : |latRef - e0.rlat| < 45) (href1 : |latRef - e1.rlat| < 45)
    (hnl : cprNL e0.rlat = cprNL e1.rlat) (lonR : ℚ)
    (hlonR : lonR = if t0 > t1 then CPR.lonRaw 90 (cprNL e0.rlat) 0 e0.xz e1.xz e0.xz
      else CPR.lonRaw 90 (cprNL e1.rlat) 1 e0.xz e1.xz e1.xz) :
    ∃ k, k < 4 ∧
      Gen.bds06.surface_position (.str m0) (.str m1) (.num t0) (.num t1) (.num latRef) (.num lonRef) =
        .val (.tuple [.num (if t0 > t1 then e0.rlat else e1.rlat), .num ((CPR.lonCands lonR).getD k 0)]) ∧
      ∀ j, j < 4 → CPR.circDist lonRef ((CPR.lonCands lonR).getD k 0)
        ≤ CPR.circDist lonRef ((CPR.lonCands lonR).getD j 0) := by
  obtain ⟨hE, hO⟩ := C05.hemisphere_choice cprNL lat0 lon0 lat1 lon1 latRef e0 e1 he0 he1 hr0 hr1 hclose href0 href1
  obtain ⟨k, hk, hp, hmin⟩ := C05.lon_quadrant_choice lonRef lonR
  refine ⟨k, hk, ?_, hmin⟩
  rw [gen_surface m0 m1 h0 h1 hl0 hl1, hy0, hx0, hy1, hx1, C05.decode_unfold, hE, hO, if_neg (not_not.mpr hnl), ← hp,
    hlonR]
  by_cases ht : t0 > t1
  · simp only [ht, if_true]; rfl
  · simp only [ht, if_false]; rfl

/-- **surface_decode.** Carried latitudes closer than 0.75/59°, receiver latitude within 45° of both, same
    `n = cprNL rlat`, carried longitudes (when `n ≥ 2`) closer than `45/(n(n−1))` modulo 90, and receiver longitude within
    45° (circular) of the newer frame's carried longitude: the generated decoder returns the newer frame's carried
    position, longitude normalised to `[-180, 180)`. -/
theorem surface_decode_tie (m0 m1 : Msg) (h0 : IsHex m0) (h1 : IsHex m1) (hl0 : 22 ≤ m0.length)
    (hl1 : 22 ≤ m1.length) (lat0 lon0 lat1 lon1 t0 t1 latRef lonRef : ℚ) (e0 e1 : Spec.Enc)
    (he0 : e0 = Spec.cprEncode cprNL 90 0 lat0 lon0) (he1 : e1 = Spec.cprEncode cprNL 90 1 lat1 lon1)
    (hy0 : cprYZ (hex2binM m0) = e0.yz) (hx0 : cprXZ (hex2binM m0) = e0.xz)
    (hy1 : cprYZ (hex2binM m1) = e1.yz) (hx1 : cprXZ (hex2binM m1) = e1.xz)
    (hr0 : -90 ≤ e0.rlat ∧ e0.rlat < 90) (hr1 : -90 ≤ e1.rlat ∧ e1.rlat < 90)
    (hclose : |e0.rlat - e1.rlat| < 3 / 4 / 59)
    (href0 : |latRef - e0.rlat| < 45) (href1 : |latRef - e1.rlat| < 45)
    (hnl : cprNL e0.rlat = cprNL e1.rlat)
    (hlon : 2 ≤ cprNL e0.rlat → ∃ s : ℤ,
      |e0.rlon - e1.rlon - 90 * s| < 45 / ((cprNL e0.rlat : ℚ) * ((cprNL e0.rlat : ℚ) - 1)))
    (hlonRef : CPR.circDist lonRef (if t0 > t1 then e0.rlon else e1.rlon) < 45) :
    Gen.bds06.surface_position (.str m0) (.str m1) (.num t0) (.num t1) (.num latRef) (.num lonRef) =
      .val (.tuple [.num (if t0 > t1 then e0.rlat else e1.rlat),
        .num (CPR.wrapPM (if t0 > t1 then e0.rlon else e1.rlon))]) := by
  rw [gen_surface m0 m1 h0 h1 hl0 hl1, hy0, hx0, hy1, hx1,
    C05.surface_decode cprNL lat0 lon0 lat1 lon1 t0 t1 latRef lonRef e0 e1 he0 he1 hr0 hr1 hclose href0 href1 hnl
      hlon hlonRef]
  rfl

/-! ## encoder round trips: the generated decoders applied to the hex digits of encoded frames -/

/-- a 112-bit DF 17/18 position frame: 53 bits `hdr` (DF, CA, ICAO, TC, surveillance status / movement, altitude /
    track, time bit) | CPR format | YZ (17) | XZ (17) | parity (24) -/
def cprFrame (hdr : Bits) (oe : Bool) (yz xz parity : Nat) : Bits :=
  hdr ++ [oe] ++ natToBits 17 yz ++ natToBits 17 xz ++ natToBits 24 parity

theorem cprFrame_length (hdr : Bits) (hh : hdr.length = 53) (oe : Bool) (yz xz parity : Nat) :
    (cprFrame hdr oe yz xz parity).length = 112 := by
  simp [cprFrame, hh]

theorem cprFrame_F (hdr : Bits) (hh : hdr.length = 53) (oe : Bool) (yz xz parity : Nat) :
    cprF (cprFrame hdr oe yz xz parity) = oe := by
  have e : cprFrame hdr oe yz xz parity =
      hdr ++ ([oe] ++ natToBits 17 yz ++ natToBits 17 xz ++ natToBits 24 parity) := by
    simp [cprFrame, List.append_assoc]
  unfold cprF
  rw [e, List.getD_eq_getElem?_getD, List.getElem?_append_right (by omega), hh]
  rfl

theorem cprFrame_YZ (hdr : Bits) (hh : hdr.length = 53) (oe : Bool) (yz xz parity : Nat) (hy : yz < 131072) :
    cprYZ (cprFrame hdr oe yz xz parity) = yz := by
  have e : cprFrame hdr oe yz xz parity =
      (hdr ++ [oe]) ++ natToBits 17 yz ++ (natToBits 17 xz ++ natToBits 24 parity) := by
    simp [cprFrame, List.append_assoc]
  have := slice_append_mid (hdr ++ [oe]) (natToBits 17 yz) (natToBits 17 xz ++ natToBits 24 parity)
  simp only [List.length_append, hh, List.length_cons, List.length_nil, natToBits_length, Nat.reduceAdd] at this
  unfold cprYZ
  rw [e, this, bin2int_natToBits_of_lt (by omega : yz < 2 ^ 17)]

theorem cprFrame_XZ (hdr : Bits) (hh : hdr.length = 53) (oe : Bool) (yz xz parity : Nat) (hx : xz < 131072) :
    cprXZ (cprFrame hdr oe yz xz parity) = xz := by
  have := slice_append_mid (hdr ++ [oe] ++ natToBits 17 yz) (natToBits 17 xz) (natToBits 24 parity)
  simp only [List.length_append, hh, List.length_cons, List.length_nil, natToBits_length, Nat.reduceAdd] at this
  unfold cprXZ cprFrame
  rw [this, bin2int_natToBits_of_lt (by omega : xz < 2 ^ 17)]

/-- the hex string of an encoded frame and what the decoders read from it -/
theorem cprFrame_hex (hdr : Bits) (hh : hdr.length = 53) (oe : Bool) (yz xz parity : Nat) (hy : yz < 131072)
    (hx : xz < 131072) :
    IsHex (hexOfBits (cprFrame hdr oe yz xz parity)) ∧ (hexOfBits (cprFrame hdr oe yz xz parity)).length = 28 ∧
    cprF (hex2binM (hexOfBits (cprFrame hdr oe yz xz parity))) = oe ∧
    cprYZ (hex2binM (hexOfBits (cprFrame hdr oe yz xz parity))) = yz ∧
    cprXZ (hex2binM (hexOfBits (cprFrame hdr oe yz xz parity))) = xz := by
  have hlen := cprFrame_length hdr hh oe yz xz parity
  have hback := hex2binM_hexOfBits (cprFrame hdr oe yz xz parity) (by rw [hlen])
  refine ⟨hexOfBits_isHex _, by rw [hexOfBits_length, hlen], ?_, ?_, ?_⟩
  · rw [hback]; exact cprFrame_F hdr hh oe yz xz parity
  · rw [hback]; exact cprFrame_YZ hdr hh oe yz xz parity hy
  · rw [hback]; exact cprFrame_XZ hdr hh oe yz xz parity hx

/-- **Airborne global round trip.** Two positions with latitudes in `[-90, 90]`, encoded per DO-260B as an even and an
    odd airborne frame (arbitrary 53 leading bits and parity), written as 28 hex digits each.  If the carried latitudes
    differ by less than 3/59°, lie in the same NL zone and the carried longitudes are closer than half the even/odd zone
    offset, the generated `airborne_position` returns the position carried by the newer frame (longitude modulo 360 in
    `(-180, 180]`); if the NL zones differ it returns `None`. -/
theorem airborne_global_roundtrip_tie (hdr0 hdr1 : Bits) (hh0 : hdr0.length = 53) (hh1 : hdr1.length = 53)
    (p0 p1 : Nat) (lat0 lon0 lat1 lon1 t0 t1 : ℚ) (e0 e1 : Spec.Enc)
    (he0 : e0 = Spec.cprEncode cprNL 360 0 lat0 lon0) (he1 : e1 = Spec.cprEncode cprNL 360 1 lat1 lon1)
    (hlat0 : -90 ≤ lat0 ∧ lat0 ≤ 90) (hlat1 : -90 ≤ lat1 ∧ lat1 ≤ 90)
    (hclose : |e0.rlat - e1.rlat| < 3 / 59) :
    (cprNL e0.rlat ≠ cprNL e1.rlat →
      Gen.bds05.airborne_position (.str (hexOfBits (cprFrame hdr0 false e0.yz e0.xz p0)))
        (.str (hexOfBits (cprFrame hdr1 true e1.yz e1.xz p1))) (.num t0) (.num t1) = .val .none) ∧
    (cprNL e0.rlat = cprNL e1.rlat →
      (2 ≤ cprNL e0.rlat → ∃ s : ℤ,
        |e0.rlon - e1.rlon - 360 * s| < 180 / ((cprNL e0.rlat : ℚ) * ((cprNL e0.rlat : ℚ) - 1))) →
      ∃ lon : ℚ,
        Gen.bds05.airborne_position (.str (hexOfBits (cprFrame hdr0 false e0.yz e0.xz p0)))
          (.str (hexOfBits (cprFrame hdr1 true e1.yz e1.xz p1))) (.num t0) (.num t1)
          = .val (.tuple [.num (if t0 > t1 then e0.rlat else e1.rlat), .num lon]) ∧
        (∃ z : ℤ, lon = (if t0 > t1 then e0.rlon else e1.rlon) + 360 * z) ∧ -180 < lon ∧ lon ≤ 180) := by
  have hy0 : e0.yz < 131072 := by rw [he0]; exact CPR.enc_yz_lt _ _ _ _ _
  have hx0 : e0.xz < 131072 := by rw [he0]; exact CPR.enc_xz_lt _ _ _ _ _
  have hy1 : e1.yz < 131072 := by rw [he1]; exact CPR.enc_yz_lt _ _ _ _ _
  have hx1 : e1.xz < 131072 := by rw [he1]; exact CPR.enc_xz_lt _ _ _ _ _
  obtain ⟨a0, b0, f0, y0, x0⟩ := cprFrame_hex hdr0 hh0 false e0.yz e0.xz p0 hy0 hx0
  obtain ⟨a1, b1, f1, y1, x1⟩ := cprFrame_hex hdr1 hh1 true e1.yz e1.xz p1 hy1 hx1
  have hr0 : -90 ≤ e0.rlat ∧ e0.rlat ≤ 90 := by
    rw [he0]; exact C03.rlat_in_range cprNL 0 (Or.inl rfl) lat0 lon0 hlat0
  have hr1 : -90 ≤ e1.rlat ∧ e1.rlat ≤ 90 := by
    rw [he1]; exact C03.rlat_in_range cprNL 1 (Or.inr rfl) lat1 lon1 hlat1
  constructor
  · intro hne
    exact (none_iff_NL_differs_tie _ _ a0 a1 (by omega) (by omega) lat0 lon0 lat1 lon1 t0 t1 e0 e1 he0 he1 f0 y0 x0
      f1 y1 x1 hr0 hr1 hclose).mpr hne
  · intro hnl hlon
    exact global_decode_tie _ _ a0 a1 (by omega) (by omega) lat0 lon0 lat1 lon1 t0 t1 e0 e1 he0 he1 f0 y0 x0
      f1 y1 x1 hr0 hr1 hclose hnl hlon

/-- **Local round trip (airborne and surface).** Any position, encoded per DO-260B (`i` = 0 even / 1 odd) into a frame
    with arbitrary leading bits and parity and written as 28 hex digits: with a reference closer than half a zone to the
    carried position (longitude shifted by `s` zones) the generated `airborne_position_with_ref` (360° encoding) and
    `surface_position_with_ref` (90° encoding) return exactly the carried latitude and the shifted carried longitude. -/
theorem local_roundtrip_tie (hdr : Bits) (hh : hdr.length = 53) (p : Nat) (i : ℕ) (hi : i = 0 ∨ i = 1)
    (lat lon latRef lonRef : ℚ) (s : ℤ) :
    (∀ e : Spec.Enc, e = Spec.cprEncode cprNL 360 i lat lon →
      |latRef - e.rlat| < e.dlat / 2 → |lonRef - (e.rlon + e.dlon * s)| < e.dlon / 2 →
      Gen.bds05.airborne_position_with_ref (.str (hexOfBits (cprFrame hdr (decide (i = 1)) e.yz e.xz p)))
        (.num latRef) (.num lonRef) = .val (.tuple [.num e.rlat, .num (e.rlon + e.dlon * s)])) ∧
    (∀ e : Spec.Enc, e = Spec.cprEncode cprNL 90 i lat lon →
      |latRef - e.rlat| < e.dlat / 2 → |lonRef - (e.rlon + e.dlon * s)| < e.dlon / 2 →
      Gen.bds06.surface_position_with_ref (.str (hexOfBits (cprFrame hdr (decide (i = 1)) e.yz e.xz p)))
        (.num latRef) (.num lonRef) = .val (.tuple [.num e.rlat, .num (e.rlon + e.dlon * s)])) := by
  constructor
  · intro e he hlat hlon
    have hy : e.yz < 131072 := by rw [he]; exact CPR.enc_yz_lt _ _ _ _ _
    have hx : e.xz < 131072 := by rw [he]; exact CPR.enc_xz_lt _ _ _ _ _
    obtain ⟨a, b, f, y, x⟩ := cprFrame_hex hdr hh (decide (i = 1)) e.yz e.xz p hy hx
    exact airborne_ref_decode_tie _ a (by omega) i hi lat lon latRef lonRef e he f y x s hlat hlon
  · intro e he hlat hlon
    have hy : e.yz < 131072 := by rw [he]; exact CPR.enc_yz_lt _ _ _ _ _
    have hx : e.xz < 131072 := by rw [he]; exact CPR.enc_xz_lt _ _ _ _ _
    obtain ⟨a, b, f, y, x⟩ := cprFrame_hex hdr hh (decide (i = 1)) e.yz e.xz p hy hx
    exact surface_ref_decode_tie _ a (by omega) i hi lat lon latRef lonRef e he f y x s hlat hlon

/-- **Surface global round trip.** Two positions encoded per DO-260B (base 90) as an even and an odd surface frame
    (arbitrary leading bits — the format bit included, which `surface_position` does not read — and parity), written as
    28 hex digits each.  Under the hypotheses of `surface_decode_tie` on the carried positions and the receiver location
    the generated `surface_position` returns the position carried by the newer frame, longitude in `[-180, 180)`. -/
theorem surface_global_roundtrip_tie (hdr0 hdr1 : Bits) (hh0 : hdr0.length = 53) (hh1 : hdr1.length = 53)
    (oe0 oe1 : Bool) (p0 p1 : Nat) (lat0 lon0 lat1 lon1 t0 t1 latRef lonRef : ℚ) (e0 e1 : Spec.Enc)
    (he0 : e0 = Spec.cprEncode cprNL 90 0 lat0 lon0) (he1 : e1 = Spec.cprEncode cprNL 90 1 lat1 lon1)
    (hr0 : -90 ≤ e0.rlat ∧ e0.rlat < 90) (hr1 : -90 ≤ e1.rlat ∧ e1.rlat < 90)
    (hclose : |e0.rlat - e1.rlat| < 3 / 4 / 59)
    (href0 : |latRef - e0.rlat| < 45) (href1 : |latRef - e1.rlat| < 45)
    (hnl : cprNL e0.rlat = cprNL e1.rlat)
    (hlon : 2 ≤ cprNL e0.rlat → ∃ s : ℤ,
      |e0.rlon - e1.rlon - 90 * s| < 45 / ((cprNL e0.rlat : ℚ) * ((cprNL e0.rlat : ℚ) - 1)))
    (hlonRef : CPR.circDist lonRef (if t0 > t1 then e0.rlon else e1.rlon) < 45) :
    Gen.bds06.surface_position (.str (hexOfBits (cprFrame hdr0 oe0 e0.yz e0.xz p0)))
        (.str (hexOfBits (cprFrame hdr1 oe1 e1.yz e1.xz p1))) (.num t0) (.num t1) (.num latRef) (.num lonRef) =
      .val (.tuple [.num (if t0 > t1 then e0.rlat else e1.rlat),
        .num (CPR.wrapPM (if t0 > t1 then e0.rlon else e1.rlon))]) := by
  have hy0 : e0.yz < 131072 := by rw [he0]; exact CPR.enc_yz_lt _ _ _ _ _
  have hx0 : e0.xz < 131072 := by rw [he0]; exact CPR.enc_xz_lt _ _ _ _ _
  have hy1 : e1.yz < 131072 := by rw [he1]; exact CPR.enc_yz_lt _ _ _ _ _
  have hx1 : e1.xz < 131072 := by rw [he1]; exact CPR.enc_xz_lt _ _ _ _ _
  obtain ⟨a0, b0, _, y0, x0⟩ := cprFrame_hex hdr0 hh0 oe0 e0.yz e0.xz p0 hy0 hx0
  obtain ⟨a1, b1, _, y1, x1⟩ := cprFrame_hex hdr1 hh1 oe1 e1.yz e1.xz p1 hy1 hx1
  exact surface_decode_tie _ _ a0 a1 (by omega) (by omega) lat0 lon0 lat1 lon1 t0 t1 latRef lonRef e0 e1 he0 he1
    y0 x0 y1 x1 hr0 hr1 hclose href0 href1 hnl hlon hlonRef

/-- non-vacuity: the even frame of the pyModeS test pair (`8D40621D58C382D690C8AC2863A7`) is a 28-digit hex string
    carrying the fields of the encoding of (52.2572, 3.91937) used in the example of `Properties/C03.lean` -/
example :
    let m := "8D40621D58C382D690C8AC2863A7".toList
    let e0 := Spec.cprEncode cprNL 360 0 (522572 / 10000) (391937 / 100000)
    m.length = 28 ∧ cprF (hex2binM m) = false ∧ cprYZ (hex2binM m) = e0.yz ∧ cprXZ (hex2binM m) = e0.xz := by
  decide +kernel

end PyModeS.C03Gen
