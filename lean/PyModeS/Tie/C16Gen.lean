/-
  C16 transported to the source-generated definitions of extra/tcpclient.py and streamer/source.py.

  The client loop of `TcpClient.run` on the generated side is `genFeed`: for each chunk, `self.buffer.extend(received)`
  (`pyGetAttr` / `pyExtend` / `pySetAttr`), then the reader method, then `if not messages: continue` / hand the
  messages on.  Proved here, by composing the reader ties with `Properties/C16.lean`:

  * `beast_chunk_invariant_tie`, `skysense_chunk_invariant_tie`: feeding ANY chunking of ANY byte stream (bytes < 256,
    fewer than `whileFuel` = 2^20 of them) to the generated Beast / Skysense reader hands on the same messages and
    leaves the same receiver as ONE call of the generated reader on the whole stream (Skysense: including the time
    stamps; `skysense_chunk_invariant_texts_tie` is the projection on the message texts, through
    `C16.feed_chunk_invariant_skysense`).
  * `raw_chunk_invariant_tie`: the same for the generated AVR raw reader under `rawWF false cs.flatten` (no bound on
    the bytes or the length is needed); the two receivers agree except for the scratch attribute `current_msg`,
    which every call resets before reading it.  `raw_chunk_invariant_general_false_tie`: without the hypothesis the
    statement is false for the generated reader too.
  * `netsource_conservation_tie`: over any sequence of calls of the generated `NetSource.handle_messages`, what was put
    on the pipe followed by what is still in the local buffers is exactly the long DF17/18 (resp. DF20/21) messages of
    the input, in order, each once; at most one ADS-B message is pending (`rtlsdrsource_conservation_tie`: the
    duplicated code of `RtlSdrSource`; `netsource_call_tie`: closed form of one call).
  * `beast_frames_feed_tie`, `raw_frames_feed_tie`: on a well-formed stream, however chunked, the generated client
    loop hands on exactly the frames' messages.
-/
import PyModeS.Properties.C16
import PyModeS.Tie.RawReader
import PyModeS.Tie.SkyReader
import PyModeS.Tie.BeastReader
import PyModeS.Tie.Source

-- symbolic execution of long generated `do` blocks: generous but finite budget (proof times are seconds)
set_option maxHeartbeats 1000000

set_option linter.unusedVariables false
set_option linter.unusedSimpArgs false
namespace PyModeS.C16Gen
open PyModeS PyModeS.Py PyModeS.CRC PyModeS.Stream PyModeS.Tie

/-! ## 0. The client loop on the generated side -/

/-- a chunk / `self.buffer`: a list of byte values -/
def bytesVal (l : List Byte) : Val := .tuple (l.map Val.ofNat)

/-- what `run` hands to `handle_messages` after `if not messages: continue` (`None` and `[]`: nothing) -/
def msgsOf : Val → List Val
  | .tuple xs => xs
  | _ => []

/-- the pair `[self', result]` a generated method returns -/
def unpack2 : Val → Res (Val × Val)
  | .tuple [a, b] => .val (a, b)
  | _ => .exc

/-- `TcpClient.run` restricted to one reader `method`: for each chunk `self.buffer.extend(received)`, then
    `messages = self.read_…_buffer()`; all messages handed on are collected (after `out`) -/
def genFeedFrom (method : Val → Res Val) : Val → List (List Byte) → List Val → Res (Val × List Val)
  | self, [], out => .val (self, out)
  | self, c :: cs, out =>
    pyGetAttr self "buffer" >>= fun buf =>
    pyExtend buf (bytesVal c) >>= fun buf' =>
    pySetAttr self "buffer" buf' >>= fun self1 =>
    method self1 >>= fun r =>
    unpack2 r >>= fun p =>
    genFeedFrom method p.1 cs (out ++ msgsOf p.2)

/-- the client loop: final receiver and all messages handed on, in order -/
def genFeed (method : Val → Res Val) (self : Val) (chunks : List (List Byte)) : Res (Val × List Val) :=
  genFeedFrom method self chunks []

/-- a `[msg, ts]` item with the `0` of `Ext.time_time` -/
def stamp0 (m : Msg) : Val := .tuple [.str m, .num 0]

/-- the message text of a `[msg, ts]` item -/
def textOf : Val → Val
  | .tuple (t :: _) => t
  | _ => .none

theorem textOf_stamp0 (m : Msg) : textOf (stamp0 m) = .str m := rfl

/-- the receiver `l` with `self.buffer = b` -/
def withBuf (l : List (Val × Val)) (b : List Byte) : Val := .dict (setPair (attrKey "buffer") (bytesVal b) l)

theorem pyExtend_bytes (b c : List Byte) : pyExtend (bytesVal b) (bytesVal c) = .val (bytesVal (b ++ c)) := by
  simp [pyExtend, pyIter, bytesVal]

theorem withBuf_get (l : List (Val × Val)) (b : List Byte) : pyGetAttr (withBuf l b) "buffer" = .val (bytesVal b) := by
  simp only [pyGetAttr, withBuf, attrKey, Raw.dictFind_setPair_same]

theorem withBuf_set (l : List (Val × Val)) (b : List Byte) (v : Val) :
    pySetAttr (withBuf l b) "buffer" v = .val (.dict (setPair (attrKey "buffer") v l)) := by
  simp only [pySetAttr, withBuf, attrKey, Raw.setPair_setPair]

theorem withBuf_find (l : List (Val × Val)) (b : List Byte) :
    dictFind (setPair (attrKey "buffer") (bytesVal b) l) (attrKey "buffer") = some (bytesVal b) := by
  simp only [attrKey, Raw.dictFind_setPair_same]

theorem withBuf_of_find (l : List (Val × Val)) (b : List Byte)
    (h : dictFind l (attrKey "buffer") = some (bytesVal b)) : Val.dict l = withBuf l b := by
  unfold withBuf; rw [attrKey] at h ⊢; rw [Beast.setPair_of_find _ _ _ h]

/-! ### the model of the loop over an abstract reader, and the generic simulation -/

/-- `feedAll` over any reader, without accumulator -/
def feedV {α} (read : List Byte → List α × List Byte) : List (List Byte) → List Byte → List α × List Byte
  | [], b => ([], b)
  | c :: cs, b => ((read (b ++ c)).1 ++ (feedV read cs (read (b ++ c)).2).1, (feedV read cs (read (b ++ c)).2).2)

/-- chunk invariance of `feedV` from the two-chunk equation (as `Stream.feedAll_resume`) -/
theorem feedV_resume {α} (read : List Byte → List α × List Byte) (P : List Byte → Prop)
    (hP : ∀ a b, P (a ++ b) → P a)
    (h2 : ∀ a b, P (a ++ b) →
      read (a ++ b) = ((read a).1 ++ (read ((read a).2 ++ b)).1, (read ((read a).2 ++ b)).2)) :
    ∀ (cs : List (List Byte)) (s0 : List Byte), P (s0 ++ cs.flatten) →
      ((read s0).1 ++ (feedV read cs (read s0).2).1, (feedV read cs (read s0).2).2) = read (s0 ++ cs.flatten) := by
  intro cs
  induction cs with
  | nil => intro s0 _; simp [feedV]
  | cons c cs ih =>
    intro s0 hp
    have hp' : P ((s0 ++ c) ++ cs.flatten) := by simpa [List.append_assoc] using hp
    have h := h2 s0 c (hP _ _ hp')
    have e := ih (s0 ++ c) hp'
    rw [h] at e
    simp only [feedV, List.flatten_cons]
    rw [← List.append_assoc s0, ← e, List.append_assoc]

theorem feedV_of_twoChunk {α} (read : List Byte → List α × List Byte) (P : List Byte → Prop)
    (hP : ∀ a b, P (a ++ b) → P a)
    (h2 : ∀ a b, P (a ++ b) →
      read (a ++ b) = ((read a).1 ++ (read ((read a).2 ++ b)).1, (read ((read a).2 ++ b)).2))
    (h0 : read [] = ([], [])) (cs : List (List Byte)) (hp : P cs.flatten) :
    feedV read cs [] = read cs.flatten := by
  have := feedV_resume read P hP h2 cs [] (by simpa using hp)
  simpa [h0] using this

theorem feedAll_acc (fmt : Fmt) : ∀ (cs : List (List Byte)) (b : List Byte) (out : List Msg),
    feedAll fmt cs b out = (out ++ (feedAll fmt cs b []).1, (feedAll fmt cs b []).2) := by
  intro cs
  induction cs with
  | nil => intro b out; simp [feedAll]
  | cons c cs ih =>
    intro b out
    simp only [feedAll]
    rw [ih _ (out ++ _), ih _ ([] ++ _)]
    simp

/-- `feedV` over a reader that maps the messages of `readFmt fmt` is `feedAll fmt`, mapped -/
theorem feedV_map {α} (fmt : Fmt) (g : Msg → α) : ∀ (cs : List (List Byte)) (b : List Byte),
    feedV (fun x => ((readFmt fmt x).1.map g, (readFmt fmt x).2)) cs b
      = ((feedAll fmt cs b []).1.map g, (feedAll fmt cs b []).2) := by
  intro cs
  induction cs with
  | nil => intro b; simp [feedV, feedAll]
  | cons c cs ih =>
    intro b
    simp only [feedV, feedAll]
    rw [ih, feedAll_acc fmt cs _ ([] ++ _)]
    simp

/-- Simulation: if the receivers related to a buffer content by `Inv` support `self.buffer` get / set, and a call of
    `method` on a receiver holding `b` (allowed by `Ok`) returns a receiver holding `(read b).2` and hands on
    `(read b).1`, then `genFeedFrom` computes `feedV read`. -/
theorem genFeedFrom_spec (method : Val → Res Val) (read : List Byte → List Val × List Byte)
    (Inv : Val → List Byte → Prop) (Ok : List Byte → Prop)
    (hget : ∀ s b, Inv s b → pyGetAttr s "buffer" = .val (bytesVal b))
    (hset : ∀ s b b', Inv s b → ∃ s', pySetAttr s "buffer" (bytesVal b') = .val s' ∧ Inv s' b')
    (hcall : ∀ s b, Inv s b → Ok b →
      ∃ s' res, method s = .val (.tuple [s', res]) ∧ Inv s' (read b).2 ∧ msgsOf res = (read b).1)
    (hpre : ∀ b e, Ok (b ++ e) → Ok b)
    (hnext : ∀ b e, Ok (b ++ e) → Ok ((read b).2 ++ e)) :
    ∀ (cs : List (List Byte)) (s : Val) (b : List Byte) (out : List Val), Inv s b → Ok (b ++ cs.flatten) →
      ∃ s', genFeedFrom method s cs out = .val (s', out ++ (feedV read cs b).1) ∧ Inv s' (feedV read cs b).2 := by
  intro cs
  induction cs with
  | nil =>
    intro s b out hinv _
    exact ⟨s, by simp [genFeedFrom, feedV], hinv⟩
  | cons c cs ih =>
    intro s b out hinv hok
    have hok' : Ok ((b ++ c) ++ cs.flatten) := by simpa [List.append_assoc] using hok
    obtain ⟨s1, h1, i1⟩ := hset s b (b ++ c) hinv
    obtain ⟨s2, res, h2, i2, hm⟩ := hcall s1 (b ++ c) i1 (hpre _ _ hok')
    obtain ⟨s3, h3, i3⟩ := ih s2 (read (b ++ c)).2 (out ++ msgsOf res) i2 (hnext _ _ hok')
    refine ⟨s3, ?_, i3⟩
    have hu : unpack2 (.tuple [s2, res]) = .val (s2, res) := rfl
    rw [genFeedFrom, hget s b hinv, bind_val', pyExtend_bytes, bind_val', h1, bind_val', h2, bind_val', hu, bind_val']
    simp only []
    rw [h3, hm]
    simp only [feedV, List.append_assoc]

/-- the `Ok` of the two readers with a `while` loop: byte values, and fewer bytes than the loop is granted turns -/
def Small (b : List Byte) : Prop := (∀ x ∈ b, x < 256) ∧ b.length < whileFuel

theorem Small_pre (b e : List Byte) (h : Small (b ++ e)) : Small b :=
  ⟨fun x hx => h.1 x (List.mem_append_left _ hx), by have := h.2; rw [List.length_append] at this; omega⟩

theorem Small_next (b b' e : List Byte) (hs : b' <:+ b) (h : Small (b ++ e)) : Small (b' ++ e) := by
  refine ⟨fun x hx => ?_, ?_⟩
  · rcases List.mem_append.mp hx with hx | hx
    · exact h.1 x (List.mem_append_left _ (hs.subset hx))
    · exact h.1 x (List.mem_append_right _ hx)
  · have := h.2
    have := hs.length_le
    rw [List.length_append] at *
    omega

theorem Small_of_chunks (cs : List (List Byte)) (hb : ∀ c ∈ cs, ∀ x ∈ c, x < 256)
    (hlen : cs.flatten.length < whileFuel) : Small cs.flatten := by
  refine ⟨fun x hx => ?_, hlen⟩
  obtain ⟨c, hc, hxc⟩ := List.mem_flatten.mp hx
  exact hb c hc x hxc

/-! ## 1. Beast -/

theorem beastScan_suffix (buf : List Byte) (x msg : List Byte) (out : List (List Byte)) (st : List Byte)
    (hx : x <:+ buf) (hst : st <:+ buf) : (beastScan x msg out st).2 <:+ buf := by
  fun_induction beastScan x msg out st with
  | case1 msg out st => exact hst
  | case2 msg out st => exact hst
  | case3 b msg out st hb ih => exact ih (List.nil_suffix) hst
  | case4 b c rest msg out st h ih =>
    exact ih ((List.suffix_cons _ _).trans ((List.suffix_cons _ _).trans hx)) hst
  | case5 c rest msg out st h ih =>
    exact ih ((List.suffix_cons _ _).trans hx) hx
  | case6 b c rest msg out st h hb ih =>
    exact ih ((List.suffix_cons _ _).trans hx) hst

theorem readBeast_suffix (b : List Byte) : (readBeast b).2 <:+ b := by
  simp only [readBeast]
  exact beastScan_suffix b b [] [] b (List.suffix_refl _) (List.suffix_refl _)

/-- the Beast reader on the `Val` level: `[msg, 0]` items -/
def readBeastV (b : List Byte) : List Val × List Byte := ((readBeast b).1.map stamp0, (readBeast b).2)

/-- one call of the generated `read_beast_buffer` on the receiver `l` with `self.buffer = b` -/
theorem beast_call (l : List (Val × Val)) (b : List Byte) (hs : Small b) :
    Gen.tcpclient.TcpClient_read_beast_buffer (withBuf l b) =
      .val (.tuple [withBuf l (readBeast b).2, .tuple ((readBeast b).1.map stamp0)]) := by
  have h := TcpClient_read_beast_buffer_tie (setPair (attrKey "buffer") (bytesVal b) l) b (withBuf_find l b) hs.1 hs.2
  rw [withBuf, h]
  simp only [attrKey, Raw.setPair_setPair]
  rfl

theorem beast_feed (l : List (Val × Val)) (cs : List (List Byte)) (b : List Byte) (out : List Val)
    (hs : Small (b ++ cs.flatten)) :
    genFeedFrom Gen.tcpclient.TcpClient_read_beast_buffer (withBuf l b) cs out =
      .val (withBuf l (feedV readBeastV cs b).2, out ++ (feedV readBeastV cs b).1) := by
  obtain ⟨s', h, hi⟩ := genFeedFrom_spec Gen.tcpclient.TcpClient_read_beast_buffer readBeastV
    (fun s b => s = withBuf l b) Small
    (fun s b hi => by rw [hi, withBuf_get])
    (fun s b b' hi => ⟨withBuf l b', by rw [hi, withBuf_set]; rfl, rfl⟩)
    (fun s b hi hs => ⟨withBuf l (readBeast b).2, .tuple ((readBeast b).1.map stamp0),
      by rw [hi, beast_call l b hs], rfl, rfl⟩)
    Small_pre (fun b e h => Small_next b _ e (readBeast_suffix b) h) cs (withBuf l b) b out rfl hs
  rw [h, hi]

/-- **Chunk invariance, generated Beast reader, arbitrary byte content.**  `l` is any receiver whose `buffer` is
    empty (as `TcpClient.__init__` leaves it), `cs` any chunking of any stream of fewer than 2^20 bytes.  The client
    loop over the chunks hands on the same `[msg, ts]` items and ends with the same receiver as ONE call of the
    generated `read_beast_buffer` on the receiver holding the whole stream; the items are the messages of the
    specification reader `readBeast` on the whole stream and the retained buffer is its retained buffer. -/
theorem beast_chunk_invariant_tie (l : List (Val × Val)) (hbuf : dictFind l (attrKey "buffer") = some (bytesVal []))
    (cs : List (List Byte)) (hb : ∀ c ∈ cs, ∀ x ∈ c, x < 256) (hlen : cs.flatten.length < whileFuel) :
    ∃ (self' : Val) (msgs : List Val),
      genFeed Gen.tcpclient.TcpClient_read_beast_buffer (.dict l) cs = .val (self', msgs) ∧
      Gen.tcpclient.TcpClient_read_beast_buffer (.dict (setPair (attrKey "buffer") (bytesVal cs.flatten) l)) =
        .val (.tuple [self', .tuple msgs]) ∧
      self' = .dict (setPair (attrKey "buffer") (bytesVal (readBeast cs.flatten).2) l) ∧
      msgs = (readBeast cs.flatten).1.map stamp0 := by
  have hs := Small_of_chunks cs hb hlen
  have hfeed : feedV readBeastV cs [] = readBeastV cs.flatten := by
    have h1 := feedV_map .beast stamp0 cs []
    have h2 := C16.feed_chunk_invariant_beast cs
    unfold readBeastV
    change feedV (fun x => ((readFmt .beast x).1.map stamp0, (readFmt .beast x).2)) cs [] = _
    rw [h1, h2]
    rfl
  refine ⟨withBuf l (readBeast cs.flatten).2, (readBeast cs.flatten).1.map stamp0, ?_, ?_, rfl, rfl⟩
  · rw [genFeed, withBuf_of_find l [] hbuf, beast_feed l cs [] [] (by simpa using hs), hfeed]
    rfl
  · exact beast_call l cs.flatten hs

/-! ## 2. Skysense -/

/-! ### the framer over any item function (the hand model emits the text, the source `[text, ts]`) -/

def skyG {α} (g : List Byte → α) : Nat → List Byte → List α → List α × List Byte
  | 0, buf, out => (out.reverse, buf)
  | fuel + 1, buf, out =>
    if buf.length ≤ 24 then (out.reverse, buf)
    else if buf.getD 0 0 = 0x24 ∧ buf.getD 24 0 = 0x24 then skyG g fuel (buf.drop 24) (g buf :: out)
    else skyG g fuel (buf.drop 1) out

theorem skyG_zero {α} (g : List Byte → α) (buf : List Byte) (out : List α) : skyG g 0 buf out = (out.reverse, buf) := rfl

theorem skyG_succ {α} (g : List Byte → α) (fuel : Nat) (buf : List Byte) (out : List α) :
    skyG g (fuel + 1) buf out =
      if buf.length ≤ 24 then (out.reverse, buf)
      else if buf.getD 0 0 = 0x24 ∧ buf.getD 24 0 = 0x24 then skyG g fuel (buf.drop 24) (g buf :: out)
      else skyG g fuel (buf.drop 1) out := rfl

theorem skyG_fuel {α} (g : List Byte → α) (f1 : Nat) : ∀ (f2 : Nat) (buf : List Byte) (out : List α),
    buf.length ≤ f1 → buf.length ≤ f2 → skyG g f1 buf out = skyG g f2 buf out := by
  induction f1 with
  | zero =>
    intro f2 buf out h1 _
    have hb : buf = [] := List.eq_nil_of_length_eq_zero (by omega)
    subst hb
    cases f2 with
    | zero => rfl
    | succ m => simp [skyG_zero, skyG_succ]
  | succ n ih =>
    intro f2 buf out h1 h2
    cases f2 with
    | zero =>
      have hb : buf = [] := List.eq_nil_of_length_eq_zero (by omega)
      subst hb
      simp [skyG_zero, skyG_succ]
    | succ m =>
      rw [skyG_succ, skyG_succ]
      by_cases hl : buf.length ≤ 24
      · simp [hl]
      · simp only [hl, if_false]
        have hd24 : (buf.drop 24).length ≤ n ∧ (buf.drop 24).length ≤ m := by
          simp only [List.length_drop]; omega
        have hd1 : (buf.drop 1).length ≤ n ∧ (buf.drop 1).length ≤ m := by
          simp only [List.length_drop]; omega
        rw [ih m (buf.drop 24) _ hd24.1 hd24.2, ih m (buf.drop 1) _ hd1.1 hd1.2]

/-- fuel-free form -/
def skyRunG {α} (g : List Byte → α) (buf : List Byte) (out : List α) : List α × List Byte :=
  skyG g buf.length buf out

theorem skyRunG_short {α} (g : List Byte → α) (buf : List Byte) (out : List α) (h : buf.length ≤ 24) :
    skyRunG g buf out = (out.reverse, buf) := by
  unfold skyRunG
  cases hn : buf.length with
  | zero => simp [skyG_zero]
  | succ n => rw [skyG_succ]; simp [h]

theorem skyRunG_long {α} (g : List Byte → α) (buf : List Byte) (out : List α) (h : ¬ buf.length ≤ 24) :
    skyRunG g buf out =
      if buf.getD 0 0 = 0x24 ∧ buf.getD 24 0 = 0x24 then skyRunG g (buf.drop 24) (g buf :: out)
      else skyRunG g (buf.drop 1) out := by
  unfold skyRunG
  cases hn : buf.length with
  | zero => omega
  | succ n =>
    rw [skyG_succ]
    simp only [h, if_false]
    have h24 : (buf.drop 24).length ≤ n := by simp only [List.length_drop]; omega
    have h1 : (buf.drop 1).length ≤ n := by simp only [List.length_drop]; omega
    rw [skyG_fuel g n (buf.drop 24).length (buf.drop 24) _ h24 (Nat.le_refl _),
        skyG_fuel g n (buf.drop 1).length (buf.drop 1) _ h1 (Nat.le_refl _)]

theorem skyRunG_acc {α} (g : List Byte → α) (n : Nat) : ∀ (buf : List Byte) (out : List α), buf.length ≤ n →
    skyRunG g buf out = (out.reverse ++ (skyRunG g buf []).1, (skyRunG g buf []).2) := by
  induction n with
  | zero =>
    intro buf out h
    rw [skyRunG_short g buf out (by omega), skyRunG_short g buf [] (by omega)]; simp
  | succ n ih =>
    intro buf out h
    by_cases hl : buf.length ≤ 24
    · rw [skyRunG_short g buf out hl, skyRunG_short g buf [] hl]; simp
    · rw [skyRunG_long g buf out hl, skyRunG_long g buf [] hl]
      have h24 : (buf.drop 24).length ≤ n := by simp only [List.length_drop]; omega
      have h1 : (buf.drop 1).length ≤ n := by simp only [List.length_drop]; omega
      split
      · rw [ih _ (g buf :: out) h24, ih _ [g buf] h24]; simp
      · exact ih _ out h1

theorem getD_append_left (x e : List Byte) (i : Nat) (hi : i < x.length) : (x ++ e).getD i 0 = x.getD i 0 := by
  simp [List.getD_eq_getElem?_getD, List.getElem?_append_left hi]

theorem slice_append_left (x e : List Byte) (a k : Nat) (hk : k ≤ x.length) : slice a k (x ++ e) = slice a k x := by
  unfold slice
  by_cases ha : a ≤ k
  · rw [List.drop_append_of_le_length (by omega), List.take_append_of_le_length]
    simp only [List.length_drop]; omega
  · have : k - a = 0 := by omega
    rw [this]; simp

/-- restart lemma, for an item function that looks only at the first 24 bytes -/
theorem skyRunG_append {α} (g : List Byte → α) (hg : ∀ x e, ¬ x.length ≤ 24 → g (x ++ e) = g x)
    (e : List Byte) (n : Nat) : ∀ (x : List Byte) (out : List α), x.length ≤ n →
    skyRunG g (x ++ e) out
      = ((skyRunG g x out).1 ++ (skyRunG g ((skyRunG g x out).2 ++ e) []).1,
         (skyRunG g ((skyRunG g x out).2 ++ e) []).2) := by
  induction n with
  | zero =>
    intro x out h
    rw [skyRunG_short g x out (by omega)]
    exact skyRunG_acc g _ _ out (Nat.le_refl _)
  | succ n ih =>
    intro x out h
    by_cases hl : x.length ≤ 24
    · rw [skyRunG_short g x out hl]
      exact skyRunG_acc g _ _ out (Nat.le_refl _)
    · have hl' : ¬ (x ++ e).length ≤ 24 := by simp only [List.length_append]; omega
      rw [skyRunG_long g (x ++ e) out hl', skyRunG_long g x out hl, getD_append_left x e 0 (by omega),
        getD_append_left x e 24 (by omega), hg x e hl]
      have h24 : (x.drop 24).length ≤ n := by simp only [List.length_drop]; omega
      have h1 : (x.drop 1).length ≤ n := by simp only [List.length_drop]; omega
      rw [List.drop_append_of_le_length (by omega), List.drop_append_of_le_length (by omega)]
      split
      · exact ih _ _ h24
      · exact ih _ _ h1

theorem skyG_suffix {α} (g : List Byte → α) (n : Nat) : ∀ (buf : List Byte) (out : List α),
    (skyG g n buf out).2 <:+ buf := by
  induction n with
  | zero => intro buf out; exact List.suffix_refl _
  | succ n ih =>
    intro buf out
    rw [skyG_succ]
    split
    · exact List.suffix_refl _
    · split
      · exact (ih _ _).trans (List.drop_suffix _ _)
      · exact (ih _ _).trans (List.drop_suffix _ _)

/-! ### the source's reader: `[text, ts]` items -/

/-- the item the source appends for a frame at the head of `buf` -/
def skyItem (buf : List Byte) : Msg × Rat := (hexOfBytes (Sky.skyPayload buf), Sky.skyTs buf)

theorem skyLoopT_eq (n : Nat) : ∀ (buf : List Byte) (out : List (Msg × Rat)),
    Sky.skyLoopT n buf out = skyG skyItem n buf out := by
  induction n with
  | zero => intro buf out; rfl
  | succ n ih =>
    intro buf out
    rw [Sky.skyLoopT, skyG_succ, ih, ih]
    rfl

theorem readSkyT_eq (buf : List Byte) : Sky.readSkyT buf = skyRunG skyItem buf [] := skyLoopT_eq _ _ _

theorem skyItem_local (x e : List Byte) (h : ¬ x.length ≤ 24) : skyItem (x ++ e) = skyItem x := by
  unfold skyItem Sky.skyPayload Sky.skyTs
  rw [getD_append_left x e 1 (by omega), slice_append_left x e 1 15 (by omega), slice_append_left x e 1 8 (by omega),
    slice_append_left x e 15 21 (by omega)]

/-- Two-chunk lemma for the Skysense reader WITH time stamps, arbitrary bytes. -/
theorem readSkyT_append (a b : List Byte) :
    Sky.readSkyT (a ++ b)
      = ((Sky.readSkyT a).1 ++ (Sky.readSkyT ((Sky.readSkyT a).2 ++ b)).1,
         (Sky.readSkyT ((Sky.readSkyT a).2 ++ b)).2) := by
  simp only [readSkyT_eq]
  exact skyRunG_append skyItem skyItem_local b a.length a [] (Nat.le_refl _)

theorem readSkyT_suffix (b : List Byte) : (Sky.readSkyT b).2 <:+ b := by
  rw [readSkyT_eq]; exact skyG_suffix _ _ _ _

theorem readSkyT_short (b : List Byte) (h : b.length ≤ 24) : Sky.readSkyT b = ([], b) := by
  rw [readSkyT_eq, skyRunG_short _ _ _ h]; rfl

/-- a `[msg, ts]` item of the Skysense reader -/
def stampT (p : Msg × Rat) : Val := .tuple [.str p.1, .num p.2]

theorem textOf_stampT (p : Msg × Rat) : textOf (stampT p) = .str p.1 := rfl

/-- the Skysense reader on the `Val` level -/
def readSkyV (b : List Byte) : List Val × List Byte := ((Sky.readSkyT b).1.map stampT, (Sky.readSkyT b).2)

theorem readSkyV_append (a b : List Byte) :
    readSkyV (a ++ b) = ((readSkyV a).1 ++ (readSkyV ((readSkyV a).2 ++ b)).1, (readSkyV ((readSkyV a).2 ++ b)).2) := by
  unfold readSkyV
  rw [readSkyT_append a b]
  simp

/-- the message texts of `readSkyV` are the messages of the hand model's `readSky` -/
theorem readSkyV_texts (b : List Byte) :
    (readSkyV b).1.map textOf = (readSky b).1.map Val.str ∧ (readSkyV b).2 = (readSky b).2 := by
  unfold readSkyV
  rw [Sky.readSkyT_fst b]
  simp only [List.map_map]
  exact ⟨List.map_congr_left (fun p _ => rfl), trivial⟩

/-- one call of the generated `read_skysense_buffer` on the receiver `l` with `self.buffer = b`: `None` when at most
    24 bytes wait, the `[msg, ts]` list otherwise -/
theorem sky_call (l : List (Val × Val)) (b : List Byte) (hs : Small b) :
    ∃ res, Gen.tcpclient.TcpClient_read_skysense_buffer (withBuf l b) =
      .val (.tuple [withBuf l (readSkyV b).2, res]) ∧ msgsOf res = (readSkyV b).1 ∧
      (res = .none ∨ res = .tuple (readSkyV b).1) := by
  have h := TcpClient_read_skysense_buffer_tie (setPair (attrKey "buffer") (bytesVal b) l) b (withBuf_find l b)
    hs.1 hs.2
  have h2 : (readSky b).2 = (readSkyV b).2 := (readSkyV_texts b).2.symm
  refine ⟨if b.length ≤ 24 then .none else Sky.encTS (Sky.readSkyT b).1, ?_, ?_, ?_⟩
  · rw [withBuf, h]
    simp only [attrKey, Raw.setPair_setPair, h2]
    rfl
  · by_cases h24 : b.length ≤ 24
    · rw [if_pos h24]
      unfold readSkyV
      rw [readSkyT_short b h24]
      rfl
    · rw [if_neg h24]; rfl
  · by_cases h24 : b.length ≤ 24
    · rw [if_pos h24]; exact Or.inl rfl
    · rw [if_neg h24]; exact Or.inr rfl

theorem sky_feed (l : List (Val × Val)) (cs : List (List Byte)) (b : List Byte) (out : List Val)
    (hs : Small (b ++ cs.flatten)) :
    genFeedFrom Gen.tcpclient.TcpClient_read_skysense_buffer (withBuf l b) cs out =
      .val (withBuf l (feedV readSkyV cs b).2, out ++ (feedV readSkyV cs b).1) := by
  obtain ⟨s', h, hi⟩ := genFeedFrom_spec Gen.tcpclient.TcpClient_read_skysense_buffer readSkyV
    (fun s b => s = withBuf l b) Small
    (fun s b hi => by rw [hi, withBuf_get])
    (fun s b b' hi => ⟨withBuf l b', by rw [hi, withBuf_set]; rfl, rfl⟩)
    (fun s b hi hs => by
      obtain ⟨res, h1, h2, _⟩ := sky_call l b hs
      exact ⟨withBuf l (readSkyV b).2, res, by rw [hi, h1], rfl, h2⟩)
    Small_pre (fun b e h => Small_next b _ e (readSkyT_suffix b) h) cs (withBuf l b) b out rfl hs
  rw [h, hi]

/-- **Chunk invariance, generated Skysense reader, arbitrary byte content, time stamps included.**  `l` is any
    receiver whose `buffer` is empty, `cs` any chunking of any stream of fewer than 2^20 bytes.  The client loop over
    the chunks hands on the same `[msg, ts]` items (`msgsOf r`: `None` and `[]` both mean "nothing", as in
    `if not messages: continue`) and ends with the same receiver as ONE call of the generated `read_skysense_buffer`
    on the receiver holding the whole stream. -/
theorem skysense_chunk_invariant_tie (l : List (Val × Val))
    (hbuf : dictFind l (attrKey "buffer") = some (bytesVal []))
    (cs : List (List Byte)) (hb : ∀ c ∈ cs, ∀ x ∈ c, x < 256) (hlen : cs.flatten.length < whileFuel) :
    ∃ (self' r : Val),
      genFeed Gen.tcpclient.TcpClient_read_skysense_buffer (.dict l) cs = .val (self', msgsOf r) ∧
      Gen.tcpclient.TcpClient_read_skysense_buffer (.dict (setPair (attrKey "buffer") (bytesVal cs.flatten) l)) =
        .val (.tuple [self', r]) ∧
      self' = .dict (setPair (attrKey "buffer") (bytesVal (readSky cs.flatten).2) l) ∧
      (msgsOf r).map textOf = (readSky cs.flatten).1.map Val.str := by
  have hs := Small_of_chunks cs hb hlen
  have hfeed : feedV readSkyV cs [] = readSkyV cs.flatten :=
    feedV_of_twoChunk readSkyV (fun _ => True) (fun _ _ _ => trivial) (fun a b _ => readSkyV_append a b)
      (by unfold readSkyV; rw [readSkyT_short [] (by simp)]; rfl) cs trivial
  obtain ⟨res, h1, h2, _⟩ := sky_call l cs.flatten hs
  obtain ⟨ht1, ht2⟩ := readSkyV_texts cs.flatten
  refine ⟨withBuf l (readSkyV cs.flatten).2, res, ?_, h1, by rw [ht2]; rfl, by rw [h2, ht1]⟩
  rw [genFeed, withBuf_of_find l [] hbuf, sky_feed l cs [] [] (by simpa using hs), hfeed, h2]
  rfl

/-- The projection on the message texts, through the property theorem `C16.feed_chunk_invariant_skysense`: the texts
    handed on over all reads and the final `self.buffer` are those of the hand model's client loop `feedAll`, hence
    (chunk invariance of the hand model) those of one `readSky` of the whole stream. -/
theorem skysense_chunk_invariant_texts_tie (l : List (Val × Val))
    (hbuf : dictFind l (attrKey "buffer") = some (bytesVal []))
    (cs : List (List Byte)) (hb : ∀ c ∈ cs, ∀ x ∈ c, x < 256) (hlen : cs.flatten.length < whileFuel) :
    ∃ (self' : Val) (msgs : List Val),
      genFeed Gen.tcpclient.TcpClient_read_skysense_buffer (.dict l) cs = .val (self', msgs) ∧
      pyGetAttr self' "buffer" = .val (bytesVal (feedAll .skysense cs [] []).2) ∧
      msgs.map textOf = (feedAll .skysense cs [] []).1.map Val.str ∧
      feedAll .skysense cs [] [] = readFmt .skysense cs.flatten := by
  obtain ⟨self', r, h1, _, h3, h4⟩ := skysense_chunk_invariant_tie l hbuf cs hb hlen
  have hci := C16.feed_chunk_invariant_skysense cs
  refine ⟨self', msgsOf r, h1, ?_, ?_, hci⟩
  · rw [h3, hci]; exact withBuf_get l _
  · rw [h4, hci]; rfl

/-! ## 3. AVR raw -/

/-- `setPair` on a key that is present does not depend on an earlier `setPair` on the same key, even below a
    `setPair` on another key -/
theorem setPair_swap (a b : List Char) (hab : a ≠ b) (v v' w : Val) : ∀ (L : List (Val × Val)) (x : Val),
    dictFind L (.str a) = some x →
    setPair (.str a) v (setPair (.str b) w (setPair (.str a) v' L)) = setPair (.str a) v (setPair (.str b) w L) := by
  intro L
  induction L with
  | nil => intro x h; simp [dictFind] at h
  | cons kv L ih =>
    intro x h
    obtain ⟨k', x'⟩ := kv
    by_cases ha : Val.beq (.str a) k' = true
    · have hk := (Raw.beq_str_iff a k').1 ha
      subst hk
      have hb : ¬ Val.beq (.str b) (.str a) = true := by
        rw [Raw.beq_str_str]; simp [Ne.symm hab]
      simp [Raw.setPair_cons, ha, hb]
    · rw [Raw.dictFind_cons, if_neg ha] at h
      by_cases hb : Val.beq (.str b) k' = true
      · simp [Raw.setPair_cons, ha, hb, Raw.setPair_setPair]
      · simp [Raw.setPair_cons, ha, hb, ih x h]

/-- the receivers that agree with `l` except for `buffer` (which holds `b`) and, possibly, the scratch attribute
    `current_msg` (reset at the start of every `read_raw_buffer`) -/
def RawRecv (l : List (Val × Val)) (s : Val) (b : List Byte) : Prop :=
  ∃ l', (l' = l ∨ ∃ c, l' = setPair (attrKey "current_msg") (.str c) l) ∧ s = withBuf l' b

/-- what `RawRecv` says, attribute by attribute -/
theorem RawRecv_attrs (l : List (Val × Val)) (s : Val) (b : List Byte) (h : RawRecv l s b) :
    pyGetAttr s "buffer" = .val (bytesVal b) ∧
    ∀ name : String, name.toList ≠ "buffer".toList → name.toList ≠ "current_msg".toList →
      pyGetAttr s name = pyGetAttr (.dict l) name := by
  obtain ⟨l', hl', rfl⟩ := h
  refine ⟨withBuf_get l' b, fun name h1 h2 => ?_⟩
  simp only [withBuf, pyGetAttr, attrKey, Raw.dictFind_setPair_ne _ _ (Ne.symm h1)]
  rcases hl' with rfl | ⟨c, rfl⟩
  · rfl
  · simp only [attrKey, Raw.dictFind_setPair_ne _ _ (Ne.symm h2)]

/-- the raw reader on the `Val` level: `[msg, 0]` items -/
def readRawV (b : List Byte) : List Val × List Byte := ((readRaw b).1.map stamp0, (readRaw b).2)

/-- one call of the generated `read_raw_buffer` on a receiver `l'` (in which `buffer` exists) with `self.buffer = b`
    (no hypothesis on the bytes): besides `buffer`, only `current_msg` is written -/
theorem raw_call (l' : List (Val × Val)) (x : Val) (hx : dictFind l' (attrKey "buffer") = some x) (b : List Byte) :
    Gen.tcpclient.TcpClient_read_raw_buffer (withBuf l' b) =
      .val (.tuple [withBuf (setPair (attrKey "current_msg") (.str (Raw.rsScan 0 b Raw.rsInit).cur) l') (readRaw b).2,
        .tuple ((readRaw b).1.map stamp0)]) := by
  have h := TcpClient_read_raw_buffer_tie (setPair (attrKey "buffer") (bytesVal b) l') b (withBuf_find l' b)
  rw [withBuf, h]
  rw [attrKey] at hx
  have hne : "buffer".toList ≠ "current_msg".toList := by decide
  simp only [attrKey, withBuf]
  rw [setPair_swap _ _ hne _ _ _ l' x hx]
  rfl

theorem raw_feed (l : List (Val × Val)) (x : Val) (hx : dictFind l (attrKey "buffer") = some x)
    (cs : List (List Byte)) (s : Val) (b : List Byte) (out : List Val) (hs : RawRecv l s b) :
    ∃ s', genFeedFrom Gen.tcpclient.TcpClient_read_raw_buffer s cs out =
      .val (s', out ++ (feedV readRawV cs b).1) ∧ RawRecv l s' (feedV readRawV cs b).2 := by
  have hne : "current_msg".toList ≠ "buffer".toList := by decide
  refine genFeedFrom_spec Gen.tcpclient.TcpClient_read_raw_buffer readRawV (RawRecv l) (fun _ => True)
    (fun s b hi => (RawRecv_attrs l s b hi).1)
    (fun s b b' hi => ?_) (fun s b hi _ => ?_) (fun _ _ _ => trivial) (fun _ _ _ => trivial) cs s b out hs trivial
  · obtain ⟨l', hl', rfl⟩ := hi
    exact ⟨withBuf l' b', by rw [withBuf_set]; rfl, l', hl', rfl⟩
  · obtain ⟨l', hl', rfl⟩ := hi
    have hx' : dictFind l' (attrKey "buffer") = some x := by
      rcases hl' with rfl | ⟨c, rfl⟩
      · exact hx
      · rw [attrKey] at hx ⊢
        simp only [attrKey, Raw.dictFind_setPair_ne _ _ hne, hx]
    refine ⟨_, _, raw_call l' x hx' b, ⟨_, Or.inr ⟨(Raw.rsScan 0 b Raw.rsInit).cur, ?_⟩, rfl⟩, rfl⟩
    rcases hl' with rfl | ⟨c, rfl⟩
    · rfl
    · simp only [attrKey, Raw.setPair_setPair]

theorem feedV_raw (cs : List (List Byte)) (b : List Byte) :
    feedV readRawV cs b = ((feedAll .raw cs b []).1.map stamp0, (feedAll .raw cs b []).2) :=
  feedV_map .raw stamp0 cs b

/-- **Chunk invariance, generated AVR raw reader**, for every stream in which each `;` closes a `*` (`rawWF false`:
    arbitrary garbage otherwise, arbitrary chunking, no bound on byte values or length).  `l` is any receiver whose
    `buffer` is empty.  The client loop over the chunks hands on the same `[msg, ts]` items as ONE call of the
    generated `read_raw_buffer` on the receiver holding the whole stream, and the two final receivers both hold the
    retained buffer of the specification reader and agree with `l` on every attribute other than `buffer` and the
    scratch attribute `current_msg` (`RawRecv`, `RawRecv_attrs`). -/
theorem raw_chunk_invariant_tie (l : List (Val × Val)) (hbuf : dictFind l (attrKey "buffer") = some (bytesVal []))
    (cs : List (List Byte)) (hwf : rawWF false cs.flatten = true) :
    ∃ (self1 self2 : Val) (msgs : List Val),
      genFeed Gen.tcpclient.TcpClient_read_raw_buffer (.dict l) cs = .val (self1, msgs) ∧
      Gen.tcpclient.TcpClient_read_raw_buffer (.dict (setPair (attrKey "buffer") (bytesVal cs.flatten) l)) =
        .val (.tuple [self2, .tuple msgs]) ∧
      RawRecv l self1 (readRaw cs.flatten).2 ∧ RawRecv l self2 (readRaw cs.flatten).2 ∧
      msgs = (readRaw cs.flatten).1.map stamp0 := by
  have h0 : RawRecv l (.dict l) [] := ⟨l, Or.inl rfl, withBuf_of_find l [] hbuf⟩
  obtain ⟨s1, h1, i1⟩ := raw_feed l _ hbuf cs (.dict l) [] [] h0
  have hci : feedAll .raw cs [] [] = readRaw cs.flatten := C16.feed_chunk_invariant_raw cs hwf
  rw [feedV_raw, hci] at h1 i1
  refine ⟨s1, _, (readRaw cs.flatten).1.map stamp0, by rw [genFeed, h1]; rfl, raw_call l _ hbuf cs.flatten, i1,
    ⟨_, Or.inr ⟨_, rfl⟩, rfl⟩, rfl⟩

/-- The general statement (no hypothesis on the stream) is FALSE for the generated reader as well: the stream `41;`
    delivered as `4`, `1;` hands on `"1"`, one call on `41;` hands on `"41"` (`C16.raw_counterexample_1`). -/
theorem raw_chunk_invariant_general_false_tie (l : List (Val × Val))
    (hbuf : dictFind l (attrKey "buffer") = some (bytesVal [])) :
    ∃ (self1 self2 : Val),
      genFeed Gen.tcpclient.TcpClient_read_raw_buffer (.dict l) [[52], [49, 59]] = .val (self1, [stamp0 ['1']]) ∧
      Gen.tcpclient.TcpClient_read_raw_buffer (.dict (setPair (attrKey "buffer") (bytesVal [52, 49, 59]) l)) =
        .val (.tuple [self2, .tuple [stamp0 ['4', '1']]]) := by
  have h0 : RawRecv l (.dict l) [] := ⟨l, Or.inl rfl, withBuf_of_find l [] hbuf⟩
  obtain ⟨s1, h1, _⟩ := raw_feed l _ hbuf [[52], [49, 59]] (.dict l) [] [] h0
  have hc := C16.raw_counterexample_1
  rw [feedV_raw, hc.2] at h1
  have h2 := raw_call l _ hbuf [52, 49, 59]
  rw [show readRaw [52, 49, 59] = readFmt .raw [52, 49, 59] from rfl, hc.1] at h2
  exact ⟨s1, _, by rw [genFeed, h1]; rfl, h2⟩

/-! ## 4. NetSource -/

/-- successive calls `self.handle_messages(messages)` of a generated method -/
def genCalls (method : Val → Val → Res Val) : Val → List Val → Res Val
  | self, [] => .val self
  | self, c :: cs => method self c >>= fun r => unpack2 r >>= fun p => genCalls method p.1 cs

/-- the `messages` argument: a list of `[msg, t]` items -/
def encCall (c : List (Msg × Val)) : Val := .tuple (c.map Source.encPair)

/-- the attributes `rest` after the recorded calls `raw_pipe_in.send(a)` for `a` in `args`, in order -/
def emitAll (rest : List (Val × Val)) (args : List Val) : List (Val × Val) :=
  args.foldl (fun r a => Source.emitTo r "raw_pipe_in.send" a) rest

/-- `emitAll` appends exactly these events to the event list `__out__` -/
theorem outOf_emitAll (args : List Val) : ∀ rest : List (Val × Val),
    Source.outOf (emitAll rest args) =
      Source.outOf rest ++ args.map (fun a => .tuple [attrKey "raw_pipe_in.send", a]) := by
  induction args with
  | nil => intro rest; simp [emitAll]
  | cons a args ih =>
    intro rest
    have : emitAll rest (a :: args) = emitAll (Source.emitTo rest "raw_pipe_in.send" a) args := rfl
    rw [this, ih, Source.outOf_emitTo]
    simp

/-- the items under `key` in the dictionary passed to one `raw_pipe_in.send({...})` -/
def sentIn (key : String) (args : Val) : List Val :=
  match args with
  | .tuple [.dict d] => (match dictFind d (.str key.toList) with
    | some (.tuple xs) => xs
    | _ => [])
  | _ => []

theorem sentIn_adsb (a c : List Msg) (ta tc : List Val) :
    sentIn "adsb_msg" (Source.sendArgs a ta c tc) = a.map Val.str := by
  simp [sentIn, Source.sendArgs, Source.encMsgs, Raw.dictFind_cons, Val.beq]

theorem sentIn_commb (a c : List Msg) (ta tc : List Val) :
    sentIn "commb_msg" (Source.sendArgs a ta c tc) = c.map Val.str := by
  simp [sentIn, Source.sendArgs, Source.encMsgs, Raw.dictFind_cons, Val.beq]

/-- the guard `self.stop_flag.value is True` evaluates to `False` -/
def StopClear (rest : List (Val × Val)) : Prop :=
  (pyGetAttr (.dict rest) "stop_flag" >>= fun f => pyGetAttr f "value" >>= fun v => pyIs v (.bool true)) =
    .val (.bool false)

theorem StopClear_emitTo (rest : List (Val × Val)) (label : String) (a : Val) (h : StopClear rest) :
    StopClear (Source.emitTo rest label a) := by
  have hne : "__out__".toList ≠ "stop_flag".toList := by decide
  unfold StopClear at h ⊢
  have : pyGetAttr (.dict (Source.emitTo rest label a)) "stop_flag" = pyGetAttr (.dict rest) "stop_flag" := by
    simp only [pyGetAttr, Source.emitTo, attrKey, Raw.dictFind_setPair_ne _ _ hne]
  rw [this]; exact h

/-- what a tie theorem of a `handle_messages` says -/
def HandleTie (method : Val → Val → Res Val) : Prop :=
  ∀ (s : NetSrc) (tsA tsC : List Val) (rest : List (Val × Val)) (msgs : List (Msg × Val)),
    StopClear rest → (∀ p ∈ msgs, 28 ≤ p.1.length → IsHex p.1) →
    method (Source.reprNs s tsA tsC rest) (encCall msgs) =
      .val (.tuple [
        (match (nsHandle s (msgs.map Prod.fst)).2 with
          | none => Source.reprNs (nsHandle s (msgs.map Prod.fst)).1 (Source.nsTs s tsA tsC msgs).1
              (Source.nsTs s tsA tsC msgs).2 rest
          | some (a, c) => Source.reprNs ⟨[], []⟩ [] []
              (Source.emitTo rest "raw_pipe_in.send"
                (Source.sendArgs a (Source.nsTs s tsA tsC msgs).1 c (Source.nsTs s tsA tsC msgs).2))),
        .none])

theorem NetSource_handleTie : HandleTie Gen.source.NetSource_handle_messages :=
  fun s tsA tsC rest msgs hstop hhex => NetSource_handle_messages_tie s tsA tsC rest msgs hstop hhex

theorem RtlSdrSource_handleTie : HandleTie Gen.source.RtlSdrSource_handle_messages :=
  fun s tsA tsC rest msgs hstop hhex => RtlSdrSource_handle_messages_tie s tsA tsC rest msgs hstop hhex

/-- the generated calls simulate `C16.nsRun`; every batch the hand model sends is one recorded
    `raw_pipe_in.send` carrying exactly that batch -/
theorem genCalls_spec (method : Val → Val → Res Val) (htie : HandleTie method) (calls : List (List (Msg × Val))) :
    ∀ (s : NetSrc) (tsA tsC : List Val) (rest : List (Val × Val)), StopClear rest →
      (∀ c ∈ calls, ∀ p ∈ c, 28 ≤ p.1.length → IsHex p.1) →
      ∃ (tsA' tsC' args : List Val),
        genCalls method (Source.reprNs s tsA tsC rest) (calls.map encCall) =
          .val (Source.reprNs (C16.nsRun s (calls.map fun c => c.map Prod.fst)).1 tsA' tsC' (emitAll rest args)) ∧
        args.flatMap (sentIn "adsb_msg") =
          (C16.sentAdsb (C16.nsRun s (calls.map fun c => c.map Prod.fst)).2).map Val.str ∧
        args.flatMap (sentIn "commb_msg") =
          (C16.sentCommb (C16.nsRun s (calls.map fun c => c.map Prod.fst)).2).map Val.str := by
  induction calls with
  | nil =>
    intro s tsA tsC rest _ _
    exact ⟨tsA, tsC, [], rfl, rfl, rfl⟩
  | cons c cs ih =>
    intro s tsA tsC rest hstop hhex
    have hhex' : ∀ c' ∈ cs, ∀ p ∈ c', 28 ≤ p.1.length → IsHex p.1 :=
      fun c' hc' => hhex c' (List.mem_cons_of_mem _ hc')
    have hcall := htie s tsA tsC rest c hstop (hhex c List.mem_cons_self)
    have hn := C16.netsource_call s (c.map Prod.fst)
    simp only [List.map_cons, genCalls, C16.nsRun]
    rw [hcall, bind_val']
    have hu : ∀ a b : Val, unpack2 (.tuple [a, b]) = .val (a, b) := fun _ _ => rfl
    rw [hu, bind_val']
    simp only []
    by_cases hl : (s.adsb ++ (c.map Prod.fst).filter isAdsb).length ≥ 2
    · rw [if_pos hl] at hn
      rw [hn]
      simp only []
      obtain ⟨tsA', tsC', args, h1, h2, h3⟩ := ih ⟨[], []⟩ [] [] _ (StopClear_emitTo rest _ _ hstop) hhex'
      refine ⟨tsA', tsC', _ :: args, h1, ?_, ?_⟩
      · rw [List.flatMap_cons, h2, sentIn_adsb]
        simp [C16.sentAdsb]
      · rw [List.flatMap_cons, h3, sentIn_commb]
        simp [C16.sentCommb]
    · rw [if_neg hl] at hn
      rw [hn]
      simp only []
      obtain ⟨tsA', tsC', args, h1, h2, h3⟩ := ih _ _ _ rest hstop hhex'
      refine ⟨tsA', tsC', args, h1, ?_, ?_⟩
      · rw [h2]; simp [C16.sentAdsb]
      · rw [h3]; simp [C16.sentCommb]

/-- conservation for any `handle_messages` with a tie theorem -/
theorem conservation_of_handleTie (method : Val → Val → Res Val) (htie : HandleTie method)
    (rest : List (Val × Val)) (hstop : StopClear rest) (calls : List (List (Msg × Val)))
    (hhex : ∀ c ∈ calls, ∀ p ∈ c, 28 ≤ p.1.length → IsHex p.1) :
    ∃ (pending : NetSrc) (tsA' tsC' args : List Val),
      genCalls method (Source.reprNs ⟨[], []⟩ [] [] rest) (calls.map encCall) =
        .val (Source.reprNs pending tsA' tsC' (emitAll rest args)) ∧
      args.flatMap (sentIn "adsb_msg") ++ pending.adsb.map Val.str =
        ((calls.map fun c => c.map Prod.fst).flatten.filter
          (fun m => decide (m.length ≥ 28 ∧ (df m = 17 ∨ df m = 18)))).map Val.str ∧
      args.flatMap (sentIn "commb_msg") ++ pending.commb.map Val.str =
        ((calls.map fun c => c.map Prod.fst).flatten.filter
          (fun m => decide (m.length ≥ 28 ∧ (df m = 20 ∨ df m = 21)))).map Val.str ∧
      pending.adsb.length ≤ 1 := by
  obtain ⟨tsA', tsC', args, h1, h2, h3⟩ := genCalls_spec method htie calls ⟨[], []⟩ [] [] rest hstop hhex
  obtain ⟨c1, c2⟩ := C16.netsource_conservation (calls.map fun c => c.map Prod.fst)
  refine ⟨_, tsA', tsC', args, h1, ?_, ?_, C16.netsource_pending_le_one _ ⟨[], []⟩ (by simp)⟩
  · rw [h2, ← List.map_append, c1]
  · rw [h3, ← List.map_append, c2]

/-- **NetSource conservation, generated `NetSource.handle_messages`.**  The receiver starts with empty local buffers
    (any other attributes `rest`; the stop flag is clear), and is called successively with any lists of `[msg, t]`
    items (`msg` a hex string whenever it has 28 characters or more).  Then the run succeeds; the only effects are
    recorded `raw_pipe_in.send({...})` events (`emitAll`, `outOf_emitAll`); the `adsb_msg` entries of all events
    followed by the final `local_buffer_adsb_msg` are exactly the long DF17/18 messages of the input, in order, each
    once; the same for `commb_msg` and DF20/21; at most one ADS-B message is left pending. -/
theorem netsource_conservation_tie (rest : List (Val × Val)) (hstop : StopClear rest)
    (calls : List (List (Msg × Val))) (hhex : ∀ c ∈ calls, ∀ p ∈ c, 28 ≤ p.1.length → IsHex p.1) :
    ∃ (pending : NetSrc) (tsA' tsC' args : List Val),
      genCalls Gen.source.NetSource_handle_messages (Source.reprNs ⟨[], []⟩ [] [] rest) (calls.map encCall) =
        .val (Source.reprNs pending tsA' tsC' (emitAll rest args)) ∧
      args.flatMap (sentIn "adsb_msg") ++ pending.adsb.map Val.str =
        ((calls.map fun c => c.map Prod.fst).flatten.filter
          (fun m => decide (m.length ≥ 28 ∧ (df m = 17 ∨ df m = 18)))).map Val.str ∧
      args.flatMap (sentIn "commb_msg") ++ pending.commb.map Val.str =
        ((calls.map fun c => c.map Prod.fst).flatten.filter
          (fun m => decide (m.length ≥ 28 ∧ (df m = 20 ∨ df m = 21)))).map Val.str ∧
      pending.adsb.length ≤ 1 :=
  conservation_of_handleTie _ NetSource_handleTie rest hstop calls hhex

/-- the same for the duplicated code of `RtlSdrSource.handle_messages` -/
theorem rtlsdrsource_conservation_tie (rest : List (Val × Val)) (hstop : StopClear rest)
    (calls : List (List (Msg × Val))) (hhex : ∀ c ∈ calls, ∀ p ∈ c, 28 ≤ p.1.length → IsHex p.1) :
    ∃ (pending : NetSrc) (tsA' tsC' args : List Val),
      genCalls Gen.source.RtlSdrSource_handle_messages (Source.reprNs ⟨[], []⟩ [] [] rest) (calls.map encCall) =
        .val (Source.reprNs pending tsA' tsC' (emitAll rest args)) ∧
      args.flatMap (sentIn "adsb_msg") ++ pending.adsb.map Val.str =
        ((calls.map fun c => c.map Prod.fst).flatten.filter
          (fun m => decide (m.length ≥ 28 ∧ (df m = 17 ∨ df m = 18)))).map Val.str ∧
      args.flatMap (sentIn "commb_msg") ++ pending.commb.map Val.str =
        ((calls.map fun c => c.map Prod.fst).flatten.filter
          (fun m => decide (m.length ≥ 28 ∧ (df m = 20 ∨ df m = 21)))).map Val.str ∧
      pending.adsb.length ≤ 1 :=
  conservation_of_handleTie _ RtlSdrSource_handleTie rest hstop calls hhex

/-- one call of the generated method sends iff at least two ADS-B messages wait after it (`C16.netsource_sends_iff`):
    then exactly one event is recorded and the buffers are emptied, otherwise nothing is recorded -/
theorem netsource_call_tie (s : NetSrc) (tsA tsC : List Val) (rest : List (Val × Val)) (msgs : List (Msg × Val))
    (hstop : StopClear rest) (hhex : ∀ p ∈ msgs, 28 ≤ p.1.length → IsHex p.1) :
    Gen.source.NetSource_handle_messages (Source.reprNs s tsA tsC rest) (encCall msgs) =
      .val (.tuple [
        (if (s.adsb ++ (msgs.map Prod.fst).filter isAdsb).length ≥ 2 then
          Source.reprNs ⟨[], []⟩ [] [] (Source.emitTo rest "raw_pipe_in.send"
            (Source.sendArgs (s.adsb ++ (msgs.map Prod.fst).filter isAdsb) (Source.nsTs s tsA tsC msgs).1
              (s.commb ++ (msgs.map Prod.fst).filter isCommb) (Source.nsTs s tsA tsC msgs).2))
        else Source.reprNs ⟨s.adsb ++ (msgs.map Prod.fst).filter isAdsb, s.commb ++ (msgs.map Prod.fst).filter isCommb⟩
          (Source.nsTs s tsA tsC msgs).1 (Source.nsTs s tsA tsC msgs).2 rest),
        .none]) := by
  rw [NetSource_handleTie s tsA tsC rest msgs hstop hhex, C16.netsource_call]
  by_cases hl : (s.adsb ++ (msgs.map Prod.fst).filter isAdsb).length ≥ 2
  · rw [if_pos hl, if_pos hl]
  · rw [if_neg hl, if_neg hl]

/-! ## 5. Well-formed streams (semantic corollaries) -/

/-- **Generated Beast reader on a well-formed stream, however it is chunked**: the stream is the serialisation
    (`C16.beastFrame`: divider, body with every `0x1A` doubled) of `frames` followed by the start `1A t` of the next
    frame; the client loop hands on exactly the messages extracted from the frames, in order, each once, and retains
    the incomplete frame start. -/
theorem beast_frames_feed_tie (l : List (Val × Val)) (hbuf : dictFind l (attrKey "buffer") = some (bytesVal []))
    (frames : List (List Byte)) (t : Byte) (hframes : ∀ body ∈ frames, C16.BeastBody body) (ht : t ≠ 0x1A)
    (cs : List (List Byte)) (hcs : cs.flatten = frames.flatMap C16.beastFrame ++ [0x1A, t])
    (hb : ∀ c ∈ cs, ∀ x ∈ c, x < 256) (hlen : cs.flatten.length < whileFuel) :
    genFeed Gen.tcpclient.TcpClient_read_beast_buffer (.dict l) cs =
      .val (.dict (setPair (attrKey "buffer") (bytesVal [0x1A, t]) l),
        (frames.filterMap beastExtract).map stamp0) := by
  obtain ⟨self', msgs, h1, _, h3, h4⟩ := beast_chunk_invariant_tie l hbuf cs hb hlen
  have h := C16.beast_frames_feed frames t hframes ht cs hcs
  rw [C16.feed_chunk_invariant_beast] at h
  have h' : readBeast cs.flatten = (frames.filterMap beastExtract, [0x1A, t]) := h
  rw [h1, h3, h4, h']

/-- **Generated AVR raw reader on a well-formed stream, however it is chunked**: `*hex;sep` sequences give the hex
    strings, in order, each once, and nothing is retained. -/
theorem raw_frames_feed_tie (l : List (Val × Val)) (hbuf : dictFind l (attrKey "buffer") = some (bytesVal []))
    (frames : List (List Byte × List Byte)) (hf : ∀ f ∈ frames, C16.RawFrameOK f)
    (cs : List (List Byte)) (hcs : cs.flatten = frames.flatMap C16.rawFrame) :
    ∃ self', genFeed Gen.tcpclient.TcpClient_read_raw_buffer (.dict l) cs =
        .val (self', (frames.map fun f => f.1.map Char.ofNat).map stamp0) ∧
      RawRecv l self' [] := by
  have hwf : rawWF false cs.flatten = true := by rw [hcs]; exact C16.raw_frames_wf frames hf
  obtain ⟨self1, _, msgs, h1, _, h3, _, h5⟩ := raw_chunk_invariant_tie l hbuf cs hwf
  have h := C16.raw_frames_read frames hf
  have h' : readRaw cs.flatten = (frames.map (fun f => f.1.map Char.ofNat), []) := by rw [hcs]; exact h
  rw [h'] at h3 h5
  exact ⟨self1, by rw [h1, h5], h3⟩

end PyModeS.C16Gen
