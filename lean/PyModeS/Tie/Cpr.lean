/-
  Tie: generated `bds05.airborne_position_with_ref` / `bds06.surface_position_with_ref` = hand model (`Model/CPR.lean`).
-/
import PyModeS.Tie.Basic
import PyModeS.Tie.Common
import PyModeS.Generated.Src.bds05
import PyModeS.Generated.Src.bds06
import Mathlib.Tactic.SplitIfs
import Mathlib.Tactic.NormNum

-- symbolic execution of long generated `do` blocks: generous but finite budget (proof times are seconds)
set_option maxHeartbeats 1000000

set_option linter.unusedSimpArgs false
set_option linter.unusedTactic false
set_option linter.unreachableTactic false
namespace PyModeS.Tie
open PyModeS PyModeS.Py PyModeS.CRC

theorem common_floor_num (q : Rat) : Gen.Ext.common_floor (.num q) = .val (.num ((q.floor : Int) : Rat)) := by
  simp only [Gen.Ext.common_floor, num?_num, Val.ofInt]

theorem common_cprNL_num (q : Rat) : Gen.Ext.common_cprNL (.num q) = .val (.num ((cprNL q : Nat) : Rat)) := by
  simp only [Gen.Ext.common_cprNL, num?_num, Val.ofNat]

/-- the decoding proper of `airborne_position_with_ref` (`base = 360`) / `surface_position_with_ref` (`base = 90`)
    once the three CPR fields are read -/
theorem with_ref_tail (base : Rat) (hb : base ≠ 0) (a b : Nat) (oe : Bool) (la lo : Rat) :
    (do let i ← pyInt1 (Val.str [oe.toDigit])
        let d_lat ← (do if pyTruth i then pyDiv (Val.num base) (Val.num 59) else pyDiv (Val.num base) (Val.num 60))
        let __do_lift ← pyDiv (Val.num la) d_lat
        let __do_lift ← pyAdd (Val.num (1 / 2)) __do_lift
        let __do_lift ← pySub __do_lift (Val.num ((a : Rat) / 131072))
        let j ← Gen.Ext.common_floor __do_lift
        let __do_lift ← pyAdd j (Val.num ((a : Rat) / 131072))
        let lat ← pyMul d_lat __do_lift
        let __do_lift ← Gen.Ext.common_cprNL lat
        let ni ← pySub __do_lift i
        let __do_lift ← pyGt ni (Val.num 0)
        have __do_jp : Unit → Val → Res Val := fun __r d_lon => do
          let __do_lift ← pyDiv (Val.num lo) d_lon
          let __do_lift ← pyAdd (Val.num (1 / 2)) __do_lift
          let __do_lift ← pySub __do_lift (Val.num ((b : Rat) / 131072))
          let m ← Gen.Ext.common_floor __do_lift
          let __do_lift ← pyAdd m (Val.num ((b : Rat) / 131072))
          let lon ← pyMul d_lon __do_lift
          pure (Val.tuple [lat, lon])
        if pyTruth __do_lift = true then do
            let d_lon ← pyDiv (Val.num base) ni
            __do_jp () d_lon
          else
            have d_lon := Val.num base;
            __do_jp () d_lon) =
      .val (.tuple [.num (positionWithRefCore cprNL base ⟨oe, a, b⟩ la lo).1,
        .num (positionWithRefCore cprNL base ⟨oe, a, b⟩ la lo).2]) := by
  have h59 : base / 59 ≠ 0 := div_ne_zero hb (by norm_num)
  have h60 : base / 60 ≠ 0 := div_ne_zero hb (by norm_num)
  have n59 : (59 : Rat) ≠ 0 := by norm_num
  have n60 : (60 : Rat) ≠ 0 := by norm_num
  unfold positionWithRefCore pfloor two17
  simp only [pyInt1_digit, bind_val', pyTruth_num01]
  cases oe
  · simp only [Bool.false_eq_true, if_false, if_true, pyDiv_num _ _ n60, pyDiv_num _ _ h60,
      pyAdd_num, pySub_num, pyMul_num, common_floor_num, common_cprNL_num, pyGt_num, pyTruth_bool, bind_val']
    generalize cprNL (base / 60 * (((1 / 2 + la / (base / 60) - (a : Rat) / 131072).floor : Rat) + (a : Rat) / 131072)) = n
    by_cases hpos : (0 : Rat) < (n : Rat) - 0
    · have hne : (n : Rat) - 0 ≠ 0 := ne_of_gt hpos
      have hm : ((n : Int) - ((0 : Nat) : Int) > 0) := by
        have : ((0 : Int) : Rat) < (((n : Int) - ((0 : Nat) : Int) : Int) : Rat) := by push_cast; exact hpos
        exact_mod_cast this
      have hc : ((((n : Int) - ((0 : Nat) : Int) : Int)) : Rat) = (n : Rat) - 0 := by push_cast; rfl
      simp only [hpos, decide_true, if_true, pyDiv_num _ _ hne, pyDiv_num _ _ (div_ne_zero hb hne), bind_val',
        pyAdd_num, pySub_num, pyMul_num, common_floor_num, Res.pure_eq, hm, hc]
    · have hm : ¬ ((n : Int) - ((0 : Nat) : Int) > 0) := by
        intro hm
        apply hpos
        have : ((0 : Int) : Rat) < (((n : Int) - ((0 : Nat) : Int) : Int) : Rat) := by exact_mod_cast hm
        push_cast at this; exact this
      simp only [hpos, decide_false, Bool.false_eq_true, if_false, pyDiv_num _ _ hb, bind_val',
        pyAdd_num, pySub_num, pyMul_num, common_floor_num, Res.pure_eq, hm]
  · simp only [Bool.false_eq_true, if_false, if_true, pyDiv_num _ _ n59, pyDiv_num _ _ h59,
      pyAdd_num, pySub_num, pyMul_num, common_floor_num, common_cprNL_num, pyGt_num, pyTruth_bool, bind_val']
    generalize cprNL (base / 59 * (((1 / 2 + la / (base / 59) - (a : Rat) / 131072).floor : Rat) + (a : Rat) / 131072)) = n
    by_cases hpos : (0 : Rat) < (n : Rat) - 1
    · have hne : (n : Rat) - 1 ≠ 0 := ne_of_gt hpos
      have hm : ((n : Int) - ((1 : Nat) : Int) > 0) := by
        have : ((0 : Int) : Rat) < (((n : Int) - ((1 : Nat) : Int) : Int) : Rat) := by push_cast; exact hpos
        exact_mod_cast this
      have hc : ((((n : Int) - ((1 : Nat) : Int) : Int)) : Rat) = (n : Rat) - 1 := by push_cast; rfl
      simp only [hpos, decide_true, if_true, pyDiv_num _ _ hne, pyDiv_num _ _ (div_ne_zero hb hne), bind_val',
        pyAdd_num, pySub_num, pyMul_num, common_floor_num, Res.pure_eq, hm, hc]
    · have hm : ¬ ((n : Int) - ((1 : Nat) : Int) > 0) := by
        intro hm
        apply hpos
        have : ((0 : Int) : Rat) < (((n : Int) - ((1 : Nat) : Int) : Int) : Rat) := by exact_mod_cast hm
        push_cast at this; exact this
      simp only [hpos, decide_false, Bool.false_eq_true, if_false, pyDiv_num _ _ hb, bind_val',
        pyAdd_num, pySub_num, pyMul_num, common_floor_num, Res.pure_eq, hm]

/-- both `*_position_with_ref` functions after `mb = hex2bin(msg)[32:]` -/
theorem with_ref_main (base : Rat) (hb : base ≠ 0) (mb : Bits) (la lo : Rat) :
    (do let __do_lift ← pySliceNN (Val.ofBits mb) 22 39
        let __do_lift ← Gen.py_common.bin2int __do_lift
        let cprlat ← pyDiv __do_lift (Val.num 131072)
        let __do_lift ← pySliceNN (Val.ofBits mb) 39 56
        let __do_lift ← Gen.py_common.bin2int __do_lift
        let cprlon ← pyDiv __do_lift (Val.num 131072)
        let __do_lift ← pyIdxN (Val.ofBits mb) 21
        let i ← pyInt1 __do_lift
        let d_lat ← (do if pyTruth i then pyDiv (Val.num base) (Val.num 59) else pyDiv (Val.num base) (Val.num 60))
        let __do_lift ← pyDiv (Val.num la) d_lat
        let __do_lift ← pyAdd (Val.num (1 / 2)) __do_lift
        let __do_lift ← pySub __do_lift cprlat
        let j ← Gen.Ext.common_floor __do_lift
        let __do_lift ← pyAdd j cprlat
        let lat ← pyMul d_lat __do_lift
        let __do_lift ← Gen.Ext.common_cprNL lat
        let ni ← pySub __do_lift i
        let __do_lift ← pyGt ni (Val.num 0)
        have __do_jp : Unit → Val → Res Val := fun __r d_lon => do
          let __do_lift ← pyDiv (Val.num lo) d_lon
          let __do_lift ← pyAdd (Val.num (1 / 2)) __do_lift
          let __do_lift ← pySub __do_lift cprlon
          let m ← Gen.Ext.common_floor __do_lift
          let __do_lift ← pyAdd m cprlon
          let lon ← pyMul d_lon __do_lift
          pure (Val.tuple [lat, lon])
        if pyTruth __do_lift = true then do
            let d_lon ← pyDiv (Val.num base) ni
            __do_jp () d_lon
          else
            have d_lon := Val.num base;
            __do_jp () d_lon) =
      (do let oe ← idxR mb 21
          let a ← bin2intR (slice 22 39 mb)
          let b ← bin2intR (slice 39 56 mb)
          Res.val (Val.tuple [.num (positionWithRefCore cprNL base ⟨oe, a, b⟩ la lo).1,
            .num (positionWithRefCore cprNL base ⟨oe, a, b⟩ la lo).2])) := by
  have hdiv : ∀ n : Nat, pyDiv (Val.ofNat n) (Val.num 131072) = .val (.num ((n : Rat) / 131072)) := by
    intro n
    simp only [Val.ofNat]
    exact pyDiv_num _ _ (by norm_num)
  have hb1 : ∀ l : Bits, bin2intR l ≠ .rte := by
    intro l; unfold bin2intR; split <;> simp
  have hi1 : idxR mb 21 ≠ .rte := by
    unfold idxR; split <;> simp
  rw [pySliceNN_ofBits, bind_val', bin2int_ofBits, bind_assoc]
  have ha := hb1 (slice 22 39 mb)
  generalize bin2intR (slice 22 39 mb) = ra at ha
  rcases ra with (a | _ | _)
  swap
  · exact absurd rfl ha
  swap
  · generalize idxR mb 21 = ro at hi1
    rcases ro with (_ | _ | _)
    · rfl
    · exact absurd rfl hi1
    · rfl
  rw [bind_val', bind_val', hdiv, bind_val', pySliceNN_ofBits, bind_val', bin2int_ofBits, bind_assoc]
  have hb2 := hb1 (slice 39 56 mb)
  generalize bin2intR (slice 39 56 mb) = rb at hb2
  rcases rb with (b | _ | _)
  swap
  · exact absurd rfl hb2
  swap
  · generalize idxR mb 21 = ro at hi1
    rcases ro with (_ | _ | _)
    · rfl
    · exact absurd rfl hi1
    · rfl
  rw [bind_val', bind_val', hdiv, bind_val', pyIdxN_ofBits, bind_assoc]
  generalize idxR mb 21 = ro
  rcases ro with (oe | _ | _)
  swap
  · rfl
  swap
  · rfl
  rw [bind_val', bind_val', bind_val', bind_val']
  exact with_ref_tail base hb a b oe la lo

theorem with_ref_model (base : Rat) (bits : Bits) (la lo : Rat) :
    (do let oe ← idxR (bits.drop 32) 21
        let a ← bin2intR (slice 22 39 (bits.drop 32))
        let b ← bin2intR (slice 39 56 (bits.drop 32))
        Res.val (Val.tuple [.num (positionWithRefCore cprNL base ⟨oe, a, b⟩ la lo).1,
          .num (positionWithRefCore cprNL base ⟨oe, a, b⟩ la lo).2])) =
      (do let p ← (do let f ← cprFields bits
                      pure (positionWithRefCore cprNL base f la lo))
          Res.val (Val.tuple [Val.num p.1, Val.num p.2])) := by
  unfold cprFields
  dsimp only
  rcases idxR (bits.drop 32) 21 with (oe | _ | _)
  · rcases bin2intR (slice 22 39 (bits.drop 32)) with (a | _ | _)
    · rcases bin2intR (slice 39 56 (bits.drop 32)) with (b | _ | _) <;> rfl
    · rfl
    · rfl
  · rfl
  · rfl

/-- `bds05.airborne_position_with_ref(msg, lat_ref, lon_ref)` on any non-empty hex string, references any two numbers -/
theorem airborne_position_with_ref_tie (m : Msg) (h : IsHex m) (hne : m ≠ []) (la lo : Rat) :
    Gen.bds05.airborne_position_with_ref (.str m) (.num la) (.num lo) =
      (airbornePositionWithRef (hex2binM m) la lo >>= fun p => .val (.tuple [.num p.1, .num p.2])) := by
  unfold Gen.bds05.airborne_position_with_ref airbornePositionWithRef
  rw [hex2bin_str m h hne, bind_val', pySliceFrom_ofBits, bind_val']
  rw [with_ref_main 360 (by norm_num)]
  exact with_ref_model 360 _ la lo

/-- `bds06.surface_position_with_ref(msg, lat_ref, lon_ref)` on any non-empty hex string, references any two numbers -/
theorem surface_position_with_ref_tie (m : Msg) (h : IsHex m) (hne : m ≠ []) (la lo : Rat) :
    Gen.bds06.surface_position_with_ref (.str m) (.num la) (.num lo) =
      (surfacePositionWithRef (hex2binM m) la lo >>= fun p => .val (.tuple [.num p.1, .num p.2])) := by
  unfold Gen.bds06.surface_position_with_ref surfacePositionWithRef
  rw [hex2bin_str m h hne, bind_val', pySliceFrom_ofBits, bind_val']
  rw [with_ref_main 90 (by norm_num)]
  exact with_ref_model 90 _ la lo

end PyModeS.Tie
