/-
  Tie: generated `bds20.py` = hand model (`Model/Commb.lean`) on every 28-digit hex frame.
-/
import PyModeS.Tie.Basic
import PyModeS.Generated.Src.bds20
import Mathlib.Tactic.SplitIfs

-- symbolic execution of long generated `do` blocks: generous but finite budget (proof times are seconds)
set_option maxHeartbeats 1000000

set_option linter.unusedSimpArgs false
set_option linter.unusedTactic false
set_option linter.unreachableTactic false
namespace PyModeS.Tie
open PyModeS PyModeS.Py PyModeS.CRC

/-- `s[n]` for a string and a non-negative integer value -/
private theorem pyIdx_str_nat (cs : List Char) (n : Nat) :
    Py.pyIdx (.str cs) (Val.ofNat n) = (idxR cs n >>= fun c => .val (.str [c])) := by
  have : ¬ ((n : Int) < 0) := by omega
  simp only [Py.pyIdx, int?_ofNat, idxList, this, if_false, Int.toNat_natCast, idxR]
  cases cs[n]? <;> rfl

private theorem slice_slice' {α} (a b c e : Nat) (l : List α) (h : c + b ≤ e) :
    slice a b (slice c e l) = slice (c + a) (c + b) l := by
  simp only [slice, List.drop_take, List.drop_drop, List.take_take]
  congr 1
  omega

private theorem pyAdd_str (x y : List Char) : pyAdd (.str x) (.str y) = .val (.str (x ++ y)) := rfl

/-- the literal in the source is the table the hand model uses -/
private theorem chars_lit :
    "#ABCDEFGHIJKLMNOPQRSTUVWXYZ#####_###############0123456789######".toList = Tables.cs20Chars := rfl

private theorem step (tbl : List Char) (d : Bits) (acc : List Char) (a b : Nat) (k : Val → Res Val) :
    (do let x ← pySliceNN (Val.ofBits d) a b
        let n ← Gen.py_common.bin2int x
        let c ← Py.pyIdx (Val.str tbl) n
        let cs ← pyAdd (Val.str acc) c
        k cs) =
    (do let n ← bin2intR (slice a b d)
        let c ← idxR tbl n
        k (Val.str (acc ++ [c]))) := by
  simp only [pySliceNN_ofBits, Res.bind_val, bin2int_ofBits]
  rcases bin2intR (slice a b d) with (n | _ | _)
  · simp only [Res.bind_val, pyIdx_str_nat]
    rcases idxR tbl n with (c | _ | _) <;> rfl
  · rfl
  · rfl

private theorem step_last (tbl : List Char) (d : Bits) (acc : List Char) (a b : Nat) :
    (do let x ← pySliceNN (Val.ofBits d) a b
        let n ← Gen.py_common.bin2int x
        let c ← Py.pyIdx (Val.str tbl) n
        pyAdd (Val.str acc) c) =
    (do let n ← bin2intR (slice a b d)
        let c ← idxR tbl n
        Res.val (Val.str (acc ++ [c]))) := by
  simp only [pySliceNN_ofBits, Res.bind_val, bin2int_ofBits]
  rcases bin2intR (slice a b d) with (n | _ | _)
  · simp only [Res.bind_val, pyIdx_str_nat]
    rcases idxR tbl n with (c | _ | _) <;> rfl
  · rfl
  · rfl

private theorem mapM_cons {α β} (f : α → Res β) (a : α) (as : List α) :
    Res.mapM f (a :: as) = (do let b ← f a; let bs ← Res.mapM f as; Res.val (b :: bs)) := by
  simp only [Res.mapM]
  rcases f a with (b | _ | _)
  · rcases Res.mapM f as with (bs | _ | _) <;> rfl
  · rfl
  · rfl

/-- the eight table look-ups of `cs20` / `callsign`, for any table -/
private theorem cs_core (tbl : List Char) (d : Bits) :
    (do let cs ← pyAdd (Val.str []) (← Py.pyIdx (Val.str tbl) (← Gen.py_common.bin2int (← pySliceNN (Val.ofBits d) 8 14)))
        let cs ← pyAdd cs (← Py.pyIdx (Val.str tbl) (← Gen.py_common.bin2int (← pySliceNN (Val.ofBits d) 14 20)))
        let cs ← pyAdd cs (← Py.pyIdx (Val.str tbl) (← Gen.py_common.bin2int (← pySliceNN (Val.ofBits d) 20 26)))
        let cs ← pyAdd cs (← Py.pyIdx (Val.str tbl) (← Gen.py_common.bin2int (← pySliceNN (Val.ofBits d) 26 32)))
        let cs ← pyAdd cs (← Py.pyIdx (Val.str tbl) (← Gen.py_common.bin2int (← pySliceNN (Val.ofBits d) 32 38)))
        let cs ← pyAdd cs (← Py.pyIdx (Val.str tbl) (← Gen.py_common.bin2int (← pySliceNN (Val.ofBits d) 38 44)))
        let cs ← pyAdd cs (← Py.pyIdx (Val.str tbl) (← Gen.py_common.bin2int (← pySliceNN (Val.ofBits d) 44 50)))
        let cs ← pyAdd cs (← Py.pyIdx (Val.str tbl) (← Gen.py_common.bin2int (← pySliceNN (Val.ofBits d) 50 56)))
        (pure cs : Res Val)) =
    (chars8 tbl (slice 8 56 d) >>= fun cs => .val (.str cs)) := by
  unfold chars8
  have hr : List.range 8 = [0, 1, 2, 3, 4, 5, 6, 7] := by decide
  have hn : ∀ f : Nat → Res Char, Res.mapM f [] = .val [] := fun _ => rfl
  simp only [step, step_last, hr, mapM_cons, hn, bind_assoc, Res.bind_val]
  rw [slice_slice' _ _ 8 56 d (by decide), slice_slice' _ _ 8 56 d (by decide), slice_slice' _ _ 8 56 d (by decide),
    slice_slice' _ _ 8 56 d (by decide), slice_slice' _ _ 8 56 d (by decide), slice_slice' _ _ 8 56 d (by decide),
    slice_slice' _ _ 8 56 d (by decide), slice_slice' _ _ 8 56 d (by decide)]
  rfl

theorem cs20_tie (m : Msg) (h : IsHex m) (hl : m.length = 28) :
    Gen.bds20.cs20 (.str m) = (PyModeS.cs20 (hex2binM m) >>= fun cs => .val (.str cs)) := by
  unfold Gen.bds20.cs20 PyModeS.cs20
  rw [← chars_lit]
  generalize "#ABCDEFGHIJKLMNOPQRSTUVWXYZ#####_###############0123456789######".toList = tbl
  dsimp only
  -- (`simp only [Res.bind_val, …]` is extremely slow on this 32-step block; plain rewriting is instant)
  rw [data_str, Res.bind_val, hex2bin_data m h hl, Res.bind_val, dataR_hex m hl, Res.bind_val]
  exact cs_core tbl _

private theorem toDigit_inj : Function.Injective Bool.toDigit := by
  intro a b; cases a <;> cases b <;> decide

private theorem beq_bits (a b : Bits) : Val.beq (Val.ofBits a) (Val.ofBits b) = decide (a = b) := by
  simp only [Val.ofBits, Val.beq]
  by_cases hab : a = b
  · simp [hab]
  · have : a.map Bool.toDigit ≠ b.map Bool.toDigit := fun e => hab (List.map_injective_iff.mpr toDigit_inj e)
    simp [hab, this]

private theorem pyNe_bits (a b : Bits) : pyNe (Val.ofBits a) (Val.ofBits b) = .val (.bool (decide (a ≠ b))) := by
  simp [pyNe, beq_bits]

private theorem lit20 : Val.str ['0', '0', '1', '0', '0', '0', '0', '0'] = Val.ofBits (natToBits 8 0x20) := rfl

/-- `"#" in s` -/
private theorem isInfix_single (c : Char) (s : List Char) : isInfix [c] s = s.contains c := by
  induction s with
  | nil => rfl
  | cons x xs ih =>
    simp only [isInfix, ih, List.isPrefixOf, List.contains_cons]
    cases xs <;> simp [List.isPrefixOf, eq_comm]

private theorem pyIn_hash (s : List Char) : pyIn (.str ['#']) (.str s) = .val (.bool (s.contains '#')) := by
  simp only [pyIn, isInfix_single]

theorem is20_tie (m : Msg) (h : IsHex m) (hl : m.length = 28) :
    Gen.bds20.is20 (.str m) = (PyModeS.is20 (hex2binM m) >>= fun b => .val (.bool b)) := by
  unfold Gen.bds20.is20 PyModeS.is20
  simp only [allzeros_str m h hl, allzerosB_hex m hl, cs20_tie m h hl]
  simp only [data_str, Res.bind_val, hex2bin_data m h hl, dataR_hex m hl]
  have hd := mb_length m hl
  generalize PyModeS.cs20 (hex2binM m) = rc
  generalize slice 32 88 (hex2binM m) = d at hd ⊢
  by_cases hz : PyModeS.bin2int d = 0
  · simp [hz]
  simp only [hz, decide_false, pyTruth_bool, Bool.false_eq_true, if_false, pySliceNN_ofBits, Res.bind_val,
    lit20, pyNe_bits]
  by_cases hp : slice 0 8 d = natToBits 8 32
  · simp [hp, hd, bin2intR_slice_of_lt, Val.ofNat]
    by_cases hv : PyModeS.bin2int (slice 8 56 d) = 0
    · simp [hv]
    · simp [hv]
      rcases rc with (cs | _ | _)
      · by_cases hc : '#' ∈ cs <;> simp [pyIn_hash, hc]
      · rfl
      · rfl
  · simp [hp]

end PyModeS.Tie
