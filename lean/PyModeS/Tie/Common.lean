/-
  Tie: the remaining functions of generated `py_common.py` = hand model (`Model/Common.lean`):
  gray2int, gray2alt, hex2int, altitude, altcode, squawk, idcode, icao.
-/
import PyModeS.Tie.Basic
import PyModeS.Proofs.Hex
import PyModeS.Proofs.CRC.Icao
import Mathlib.Tactic.SplitIfs

-- symbolic execution of long generated `do` blocks: generous but finite budget (proof times are seconds)
set_option maxHeartbeats 1000000

set_option linter.unusedSimpArgs false
set_option linter.unusedTactic false
set_option linter.unreachableTactic false
set_option linter.style.nameCheck false
namespace PyModeS.Tie
open PyModeS PyModeS.Py PyModeS.CRC

/-! ### helper lemmas on the primitives -/

theorem num_lit_ofNat (n : Nat) [n.AtLeastTwo] : Val.num (OfNat.ofNat n) = Val.ofNat n := rfl

theorem num_one_ofNat : Val.num 1 = Val.ofNat 1 := by simp [Val.ofNat]
theorem num_zero_ofNat : Val.num 0 = Val.ofNat 0 := by simp [Val.ofNat]

theorem bitop_ofNat (f : Nat → Nat → Nat) (a b : Nat) :
    bitop f (Val.ofNat a) (Val.ofNat b) = .val (Val.ofNat (f a b)) := by
  simp only [bitop, int?_ofNat]

theorem pyBitXor_ofNat (a b : Nat) : pyBitXor (Val.ofNat a) (Val.ofNat b) = .val (Val.ofNat (a ^^^ b)) :=
  bitop_ofNat _ a b
theorem pyShr_ofNat (a b : Nat) : pyShr (Val.ofNat a) (Val.ofNat b) = .val (Val.ofNat (a >>> b)) :=
  bitop_ofNat _ a b

/-- `Res.bind_val` with a proof that is not `rfl`: `simp` then records an explicit rewriting step instead of
    leaving the kernel to re-evaluate the whole program by definitional unfolding -/
theorem bind_val' {α β} (a : α) (f : α → Res β) : (Res.val a >>= f) = f a := by
  rw [Res.bind_val]
theorem bind_rte' {α β} (f : α → Res β) : ((Res.rte : Res α) >>= f) = Res.rte := by
  rw [Res.bind_rte]
theorem bind_exc' {α β} (f : α → Res β) : ((Res.exc : Res α) >>= f) = Res.exc := by
  rw [Res.bind_exc]

/-! ### gray2int -/

/-- `common.gray2int(binstr)` on a non-empty bit string -/
theorem gray2int_tie (b : Bits) (hb : 0 < b.length) :
    Gen.py_common.gray2int (Val.ofBits b) = .val (Val.ofNat (PyModeS.gray2int b)) := by
  unfold Gen.py_common.gray2int PyModeS.gray2int
  have e8 : Val.num 8 = Val.ofNat 8 := by simp [Val.ofNat]
  have e4 : Val.num 4 = Val.ofNat 4 := by simp [Val.ofNat]
  have e2 : Val.num 2 = Val.ofNat 2 := by simp [Val.ofNat]
  simp only [bin2int_ofBits, bin2intR_of_length hb, Res.bind_val, e8, e4, e2, num_one_ofNat, pyShr_ofNat,
    pyBitXor_ofNat, Res.pure_eq]

/-- on the empty string `int('', 2)` raises `ValueError` (the hand model is total and gives 0) -/
theorem gray2int_nil : Gen.py_common.gray2int (Val.ofBits []) = .exc := by
  unfold Gen.py_common.gray2int
  simp [bin2int_ofBits, bin2intR]

/-! ### hex2int -/

theorem hex2int_tie (m : Msg) (h : IsHex m) (hne : m ≠ []) :
    Gen.py_common.hex2int (.str m) = .val (Val.ofNat (hexToNatM m)) := by
  unfold Gen.py_common.hex2int
  simp only [pyInt2_hex m h hne, Res.bind_val, Res.pure_eq]

/-! ### gray2alt -/

theorem ofNat_beq (n k : Nat) : (Val.ofNat n).beq (Val.num (k : Rat)) = decide (n = k) := by
  simp only [Val.ofNat, Val.beq]
  by_cases h : n = k
  · simp [h]
  · have : ¬ ((n : Rat) = (k : Rat)) := by exact_mod_cast h
    simp [h, this]

theorem pyEq_ofNat (n k : Nat) : pyEq (Val.ofNat n) (Val.num (k : Rat)) = .val (.bool (decide (n = k))) := by
  simp only [pyEq, ofNat_beq]

theorem pyMod_ofNat_two (n : Nat) : pyMod (Val.ofNat n) (Val.num 2) = .val (Val.ofNat (n % 2)) := by
  have hf : Rat.floor ((n : Rat) / 2) = ((n / 2 : Nat) : Int) := by
    have : Rat.floor ((n : Rat) / 2) = ⌊((n : Rat) / ((2 : Nat) : Rat))⌋ := by norm_num; rfl
    rw [this, Rat.floor_natCast_div_natCast]; rfl
  simp only [pyMod, num?_ofNat, num?_num, Val.ofNat, hf]
  rw [if_neg (by norm_num)]
  have := Nat.div_add_mod n 2
  have h2 : ((2 * (n / 2) + n % 2 : Nat) : Rat) = (n : Rat) := by rw [this]
  rw [Nat.cast_add, Nat.cast_mul] at h2
  congr 2
  rw [Int.cast_natCast]
  linarith

theorem pyTruth_ofNat (n : Nat) : pyTruth (Val.ofNat n) = decide (n ≠ 0) := by
  by_cases h : n = 0
  · simp [h, pyTruth, Val.truth, Val.ofNat]
  · have : ¬ ((n : Rat) = 0) := by exact_mod_cast h
    simp [pyTruth, Val.truth, Val.ofNat, h, this]

/-- `common.gray2alt(binstr)`; Python raises `ValueError` unless both Gray fields are non-empty -/
theorem gray2alt_tie (b : Bits) (hb : 8 < b.length) :
    Gen.py_common.gray2alt (Val.ofBits b) = .val (Val.ofOptInt (PyModeS.gray2alt b)) := by
  unfold Gen.py_common.gray2alt PyModeS.gray2alt
  have h1 : 0 < (b.take 8).length := by simp; omega
  have h2 : 0 < (b.drop 8).length := by simp; omega
  have hs : slice 0 8 b = b.take 8 := by simp [slice]
  simp only [pySliceTo_ofBits, pySliceFrom_ofBits, Res.bind_val, gray2int_tie _ h1, gray2int_tie _ h2, hs]
  generalize PyModeS.gray2int (b.take 8) = n500
  generalize PyModeS.gray2int (b.drop 8) = n100
  have e0 := ofNat_beq n100 0
  have e5 := ofNat_beq n100 5
  have e6 := ofNat_beq n100 6
  have e7 := pyEq_ofNat n100 7
  simp only [Nat.cast_ofNat, Nat.cast_zero] at e0 e5 e6 e7
  simp only [pyIn, List.any_cons, List.any_nil, e0, e5, e6, e7, Res.bind_val, pyTruth_bool, Bool.or_false,
    pyMod_ofNat_two, pyTruth_ofNat]
  by_cases c0 : n100 = 0
  · simp [c0, Val.ofOptInt]
  by_cases c5 : n100 = 5
  · simp [c5, Val.ofOptInt]
  by_cases c6 : n100 = 6
  · simp [c6, Val.ofOptInt]
  have hm : n500 % 2 = 0 ∨ n500 % 2 = 1 := by omega
  by_cases c7 : n100 = 7 <;> rcases hm with hm | hm <;>
    simp [c0, c5, c6, c7, hm, Val.ofOptInt, Val.ofNat] <;> (try push_cast) <;> (try ring)

/-! ### altitude -/

theorem pyCharsSubset_ofBits (b : Bits) : pyCharsSubset (Val.ofBits b) (.str ['0', '1']) = .val (.bool true) := by
  simp only [pyCharsSubset, Val.ofBits]
  congr 2
  rw [List.all_eq_true]
  intro c hc
  rw [List.mem_map] at hc
  obtain ⟨x, _, rfl⟩ := hc
  cases x <;> decide

/-- `binstr[k]` as a one-bit string -/
theorem pyIdxN_ofBits1 (d : Bits) (k : Nat) :
    pyIdxN (Val.ofBits d) k = (idxR d k >>= fun b => .val (Val.ofBits [b])) := pyIdxN_ofBits d k

theorem pyAdd_ofBits (x y : Bits) : pyAdd (Val.ofBits x) (Val.ofBits y) = .val (Val.ofBits (x ++ y)) := by
  simp [pyAdd, Val.ofBits]

theorem pyEq_bit_zero (x : Bool) : pyEq (Val.ofBits [x]) (.str ['0']) = .val (.bool (!x)) := pyEq_digit_zero x
theorem pyEq_bit_one (x : Bool) : pyEq (Val.ofBits [x]) (.str ['1']) = .val (.bool x) := pyEq_digit_one x

theorem pyLen_ne_13 (b : Bits) : pyNe (Val.ofNat b.length) (Val.num 13) = .val (.bool (decide (b.length ≠ 13))) := by
  have := ofNat_beq b.length 13
  simp only [Nat.cast_ofNat] at this
  simp [pyNe, this]

/-- the argument check shared by `altitude` and `squawk` -/
theorem guard13 (b : Bits) :
    (do let b__1 ← (do pyNe (← pyLen (Val.ofBits b)) (Val.num 13)); if pyTruth b__1 then pure b__1 else (do pyNot (← pyCharsSubset (Val.ofBits b) (Val.str ['0', '1'])))) =
      .val (.bool (decide (b.length ≠ 13))) := by
  simp only [ofBits_length, Res.bind_val, pyLen_ne_13, pyTruth_bool, pyCharsSubset_ofBits, pyNot_bool, Res.pure_eq]
  by_cases hb : b.length = 13 <;> simp [hb]

theorem altitude13_ne (b : Bits) (hb : b.length ≠ 13) : altitude13 b = .rte := by
  rcases b with _ | ⟨a0, _ | ⟨a1, _ | ⟨a2, _ | ⟨a3, _ | ⟨a4, _ | ⟨a5, _ | ⟨a6, _ | ⟨a7, _ | ⟨a8, _ | ⟨a9,
    _ | ⟨a10, _ | ⟨a11, _ | ⟨a12, _ | ⟨a13, t⟩⟩⟩⟩⟩⟩⟩⟩⟩⟩⟩⟩⟩⟩ <;> first | rfl | exact absurd rfl hb

/-- `int(N * 3.28084)` -/
theorem pyInt1_m2ft (n : Nat) :
    pyInt1 (.num ((n : Rat) * ((82021 : Rat) / 25000))) = .val (.num ((m2ft n : Int) : Rat)) := by
  have hq : (n : Rat) * ((82021 : Rat) / 25000) = ((n * 328084 : Nat) : Rat) / ((100000 : Nat) : Rat) := by
    push_cast; ring
  have h0 : ¬ ((n : Rat) * ((82021 : Rat) / 25000) < 0) := by
    have : (0 : Rat) ≤ (n : Rat) := by exact_mod_cast Nat.zero_le n
    have : (0 : Rat) ≤ (n : Rat) * ((82021 : Rat) / 25000) := mul_nonneg this (by norm_num)
    exact not_lt.mpr this
  have hf : Rat.floor ((n : Rat) * ((82021 : Rat) / 25000)) = ((n * 328084 / 100000 : Nat) : Int) := by
    rw [hq]
    have : ∀ q : Rat, Rat.floor q = ⌊q⌋ := fun _ => rfl
    rw [this, Rat.floor_natCast_div_natCast, ← Int.natCast_div]
  simp only [pyInt1, h0, if_false, hf, m2ft]

/-- `common.altitude(binstr)` on any bit string (`RuntimeError` unless it has 13 bits) -/
theorem altitude_tie (b : Bits) :
    Gen.py_common.altitude (Val.ofBits b) = (altitude13 b >>= fun o => .val (Val.ofOptInt o)) := by
  unfold Gen.py_common.altitude
  rw [guard13]
  by_cases hb : b.length = 13
  swap
  · have hd : decide (b.length ≠ 13) = true := by simp [hb]
    rw [altitude13_ne b hb, hd]
    simp only [pyTruth_bool, if_true, bind_val', bind_rte']
  have hd : decide (b.length ≠ 13) = false := by simp [hb]
  rw [hd]
  simp only [pyTruth_bool, Bool.false_eq_true, if_false, Res.pure_eq, bind_val']
  obtain ⟨C1, A1, C2, A2, C4, A4, M, B1, Q, B2, D2, B4, D4, rfl⟩ :
      ∃ C1 A1 C2 A2 C4 A4 M B1 Q B2 D2 B4 D4, b = [C1, A1, C2, A2, C4, A4, M, B1, Q, B2, D2, B4, D4] := by
    rcases b with _ | ⟨a0, _ | ⟨a1, _ | ⟨a2, _ | ⟨a3, _ | ⟨a4, _ | ⟨a5, _ | ⟨a6, _ | ⟨a7, _ | ⟨a8, _ | ⟨a9,
      _ | ⟨a10, _ | ⟨a11, _ | ⟨a12, _ | ⟨a13, t⟩⟩⟩⟩⟩⟩⟩⟩⟩⟩⟩⟩⟩⟩ <;> simp at hb
    exact ⟨a0, a1, a2, a3, a4, a5, a6, a7, a8, a9, a10, a11, a12, rfl⟩
  have hidx : ∀ k (hk : k < 13), idxR [C1, A1, C2, A2, C4, A4, M, B1, Q, B2, D2, B4, D4] k =
      .val ([C1, A1, C2, A2, C4, A4, M, B1, Q, B2, D2, B4, D4][k]'(by simpa using hk)) :=
    fun k hk => idxR_of_lt _ k (by simpa using hk)
  simp only [pyIdxN_ofBits1, hidx, Nat.reduceLT, List.getElem_cons_succ, List.getElem_cons_zero, bind_val',
    pyEq_bit_zero, pyEq_bit_one, pyTruth_bool, pySliceTo_ofBits, pySliceFrom_ofBits, pyAdd_ofBits, bin2int_ofBits,
    List.take_succ_cons, List.take_zero, List.drop_succ_cons, List.drop_zero, List.cons_append, List.nil_append,
    List.append_nil]
  have hcons : ∀ (x : Bool) (l : Bits), bin2intR (x :: l) = .val (PyModeS.bin2int (x :: l)) := fun _ _ => rfl
  have hmul : ∀ (n : Nat) (q : Rat), pyMul (Val.ofNat n) (.num q) = .val (.num ((n : Rat) * q)) := fun _ _ => rfl
  have hz := pyEq_ofNat (PyModeS.bin2int [C1, A1, C2, A2, C4, A4, M, B1, Q, B2, D2, B4, D4]) 0
  simp only [Nat.cast_zero] at hz
  have hg := gray2alt_tie [D2, D4, A1, A2, A4, B1, B2, B4, C1, C2, C4] (by simp)
  simp only [hcons, bind_val', hz, hmul, pyInt1_m2ft, pySub_num, pyTruth_bool, hg]
  unfold altitude13
  simp only []
  by_cases h0 : PyModeS.bin2int [C1, A1, C2, A2, C4, A4, M, B1, Q, B2, D2, B4, D4] = 0
  · have hM : M = false := by
      cases M
      · rfl
      · exfalso
        simp only [PyModeS.bin2int, List.foldl_cons, List.foldl_nil, Bool.toNat_true] at h0
        omega
    subst hM
    simp [h0, Val.ofOptInt]
  · cases M <;> cases Q <;> simp [h0, Val.ofOptInt]

/-! ### altcode -/

/-- `d in (k1, k2, …)` for a natural number against a tuple of literals -/
theorem pyIn_ofNat (d : Nat) (ks : List Nat) :
    pyIn (Val.ofNat d) (.tuple (ks.map fun (k : Nat) => Val.num (k : Rat))) = .val (.bool (decide (d ∈ ks))) := by
  simp only [pyIn]
  congr 2
  induction ks with
  | nil => simp
  | cons k ks ih =>
    rw [List.map_cons, List.any_cons, ih, ofNat_beq]
    simp only [List.mem_cons, Bool.decide_or]

theorem pyNotIn_ofNat (d : Nat) (ks : List Nat) :
    pyNotIn (Val.ofNat d) (.tuple (ks.map fun (k : Nat) => Val.num (k : Rat))) = .val (.bool (!decide (d ∈ ks))) := by
  simp only [pyNotIn, pyIn_ofNat, Res.bind_val, pyNot_bool]

/-- `common.altcode(msg)` on any hex string of at least two digits -/
theorem altcode_tie (m : Msg) (h : IsHex m) (hl : 2 ≤ m.length) :
    Gen.py_common.altcode (.str m) = (PyModeS.altcode m >>= fun o => .val (Val.ofOptInt o)) := by
  unfold Gen.py_common.altcode PyModeS.altcode
  have hne : m ≠ [] := by intro e; simp [e] at hl
  have hin := pyNotIn_ofNat (PyModeS.df m) [0, 4, 16, 20]
  simp only [List.map_cons, List.map_nil, Nat.cast_ofNat, Nat.cast_zero] at hin
  simp only [df_str m h hl, Res.bind_val, hin, pyTruth_bool, hex2bin_str m h hne, pySliceNN_ofBits, altitude_tie]
  by_cases hd : PyModeS.df m ∈ [0, 4, 16, 20]
  · have hd' := hd
    simp only [List.mem_cons, List.not_mem_nil, or_false] at hd'
    have : ¬ (PyModeS.df m ≠ 0 ∧ PyModeS.df m ≠ 4 ∧ PyModeS.df m ≠ 16 ∧ PyModeS.df m ≠ 20) := by omega
    simp only [hd, decide_true, Bool.not_true, Bool.false_eq_true, if_false, this, Res.bind_val, Res.pure_eq]
  · have hd' := hd
    simp only [List.mem_cons, List.not_mem_nil, or_false] at hd'
    have : (PyModeS.df m ≠ 0 ∧ PyModeS.df m ≠ 4 ∧ PyModeS.df m ≠ 16 ∧ PyModeS.df m ≠ 20) := by omega
    simp only [hd, decide_false, Bool.not_false, if_true]
    rw [if_pos this]
    rfl

/-! ### squawk, idcode -/

/-- Encoding of the hand model's digit list as the Python result: the concatenation of `str(d)` for the
    digits (`str(byte1) + str(byte2) + str(byte3) + str(byte4)`); every digit of a squawk is below 8, so this
    is a 4-character string. -/
def Val.ofDigits (l : List Nat) : Val := .str (l.flatMap fun d => (toString d).toList)

theorem pyStr_ofNat (n : Nat) : pyStr (Val.ofNat n) = .val (.str (toString n).toList) := by
  simp only [pyStr, Val.ofNat, int?_ofNat]
  have : (Val.num (n : Rat)).int? = some (n : Int) := int?_ofNat n
  rw [this]
  rfl

theorem pyAdd_str (x y : List Char) : pyAdd (.str x) (.str y) = .val (.str (x ++ y)) := by
  simp only [pyAdd]

theorem squawk_ne (b : Bits) (hb : b.length ≠ 13) : PyModeS.squawk b = .rte := by
  rcases b with _ | ⟨a0, _ | ⟨a1, _ | ⟨a2, _ | ⟨a3, _ | ⟨a4, _ | ⟨a5, _ | ⟨a6, _ | ⟨a7, _ | ⟨a8, _ | ⟨a9,
    _ | ⟨a10, _ | ⟨a11, _ | ⟨a12, _ | ⟨a13, t⟩⟩⟩⟩⟩⟩⟩⟩⟩⟩⟩⟩⟩⟩ <;> first | rfl | exact absurd rfl hb

/-- `common.squawk(binstr)` on any bit string (`RuntimeError` unless it has 13 bits) -/
theorem squawk_tie (b : Bits) :
    Gen.py_common.squawk (Val.ofBits b) = (PyModeS.squawk b >>= fun l => .val (Val.ofDigits l)) := by
  unfold Gen.py_common.squawk
  rw [guard13]
  by_cases hb : b.length = 13
  swap
  · have hd : decide (b.length ≠ 13) = true := by simp [hb]
    rw [squawk_ne b hb, hd]
    simp only [pyTruth_bool, if_true, bind_val', bind_rte']
  have hd : decide (b.length ≠ 13) = false := by simp [hb]
  rw [hd]
  simp only [pyTruth_bool, Bool.false_eq_true, if_false, Res.pure_eq, bind_val']
  obtain ⟨C1, A1, C2, A2, C4, A4, M, B1, Q, B2, D2, B4, D4, rfl⟩ :
      ∃ C1 A1 C2 A2 C4 A4 M B1 Q B2 D2 B4 D4, b = [C1, A1, C2, A2, C4, A4, M, B1, Q, B2, D2, B4, D4] := by
    rcases b with _ | ⟨a0, _ | ⟨a1, _ | ⟨a2, _ | ⟨a3, _ | ⟨a4, _ | ⟨a5, _ | ⟨a6, _ | ⟨a7, _ | ⟨a8, _ | ⟨a9,
      _ | ⟨a10, _ | ⟨a11, _ | ⟨a12, _ | ⟨a13, t⟩⟩⟩⟩⟩⟩⟩⟩⟩⟩⟩⟩⟩⟩ <;> simp at hb
    exact ⟨a0, a1, a2, a3, a4, a5, a6, a7, a8, a9, a10, a11, a12, rfl⟩
  have hidx : ∀ k (hk : k < 13), idxR [C1, A1, C2, A2, C4, A4, M, B1, Q, B2, D2, B4, D4] k =
      .val ([C1, A1, C2, A2, C4, A4, M, B1, Q, B2, D2, B4, D4][k]'(by simpa using hk)) :=
    fun k hk => idxR_of_lt _ k (by simpa using hk)
  simp only [pyIdxN_ofBits1, hidx, Nat.reduceLT, List.getElem_cons_succ, List.getElem_cons_zero, bind_val']
  have hcons : ∀ (x : Bool) (l : Bits), bin2intR (x :: l) = .val (PyModeS.bin2int (x :: l)) := fun _ _ => rfl
  simp only [bind_val', pyAdd_ofBits, pyInt2_ofBits, List.cons_append, List.nil_append, hcons, pyStr_ofNat]
  have hsq : PyModeS.squawk [C1, A1, C2, A2, C4, A4, M, B1, Q, B2, D2, B4, D4] =
      .val [PyModeS.bin2int [A4, A2, A1], PyModeS.bin2int [B4, B2, B1], PyModeS.bin2int [C4, C2, C1],
        PyModeS.bin2int [D4, D2, Q]] := rfl
  rw [hsq]
  simp only [bind_val', Val.ofDigits, List.flatMap_cons, List.flatMap_nil, List.append_nil]
  generalize (toString (PyModeS.bin2int [A4, A2, A1])).toList = s1
  generalize (toString (PyModeS.bin2int [B4, B2, B1])).toList = s2
  generalize (toString (PyModeS.bin2int [C4, C2, C1])).toList = s3
  generalize (toString (PyModeS.bin2int [D4, D2, Q])).toList = s4
  simp only [pyAdd_str, bind_val', List.append_assoc]

theorem toString_digit (d : Nat) (h : d < 8) : (toString d).toList = [Nat.digitChar d] := by
  interval_cases d <;> rfl

/-- the string that encodes a squawk has exactly one character per octal digit -/
theorem ofDigits_squawk (b : Bits) (l : List Nat) (h : PyModeS.squawk b = .val l) :
    l.length = 4 ∧ (∀ d ∈ l, d < 8) ∧ Val.ofDigits l = .str (l.map Nat.digitChar) := by
  by_cases hb : b.length = 13
  swap
  · rw [squawk_ne b hb] at h; cases h
  obtain ⟨C1, A1, C2, A2, C4, A4, M, B1, Q, B2, D2, B4, D4, rfl⟩ :
      ∃ C1 A1 C2 A2 C4 A4 M B1 Q B2 D2 B4 D4, b = [C1, A1, C2, A2, C4, A4, M, B1, Q, B2, D2, B4, D4] := by
    rcases b with _ | ⟨a0, _ | ⟨a1, _ | ⟨a2, _ | ⟨a3, _ | ⟨a4, _ | ⟨a5, _ | ⟨a6, _ | ⟨a7, _ | ⟨a8, _ | ⟨a9,
      _ | ⟨a10, _ | ⟨a11, _ | ⟨a12, _ | ⟨a13, t⟩⟩⟩⟩⟩⟩⟩⟩⟩⟩⟩⟩⟩⟩ <;> simp at hb
    exact ⟨a0, a1, a2, a3, a4, a5, a6, a7, a8, a9, a10, a11, a12, rfl⟩
  have hsq : PyModeS.squawk [C1, A1, C2, A2, C4, A4, M, B1, Q, B2, D2, B4, D4] =
      .val [PyModeS.bin2int [A4, A2, A1], PyModeS.bin2int [B4, B2, B1], PyModeS.bin2int [C4, C2, C1],
        PyModeS.bin2int [D4, D2, Q]] := rfl
  rw [hsq] at h
  injection h with h
  subst h
  have h3 : ∀ x y z : Bool, PyModeS.bin2int [x, y, z] < 8 := fun x y z => bin2int_lt [x, y, z]
  refine ⟨rfl, ?_, ?_⟩
  · intro d hd
    simp only [List.mem_cons, List.not_mem_nil, or_false] at hd
    rcases hd with rfl | rfl | rfl | rfl <;> exact h3 _ _ _
  · simp only [Val.ofDigits, List.flatMap_cons, List.flatMap_nil, toString_digit _ (h3 _ _ _), List.map_cons,
      List.map_nil, List.cons_append, List.nil_append]

/-- `common.idcode(msg)` on any hex string of at least two digits -/
theorem idcode_tie (m : Msg) (h : IsHex m) (hl : 2 ≤ m.length) :
    Gen.py_common.idcode (.str m) = (PyModeS.idcode m >>= fun l => .val (Val.ofDigits l)) := by
  unfold Gen.py_common.idcode PyModeS.idcode
  have hne : m ≠ [] := by intro e; simp [e] at hl
  have hin := pyNotIn_ofNat (PyModeS.df m) [5, 21]
  simp only [List.map_cons, List.map_nil, Nat.cast_ofNat] at hin
  simp only [df_str m h hl, Res.bind_val, hin, pyTruth_bool, hex2bin_str m h hne, pySliceNN_ofBits, squawk_tie]
  by_cases hd : PyModeS.df m ∈ [5, 21]
  · have hd' := hd
    simp only [List.mem_cons, List.not_mem_nil, or_false] at hd'
    have : ¬ (PyModeS.df m ≠ 5 ∧ PyModeS.df m ≠ 21) := by omega
    simp only [hd, decide_true, Bool.not_true, Bool.false_eq_true, if_false, this, Res.bind_val, Res.pure_eq]
  · have hd' := hd
    simp only [List.mem_cons, List.not_mem_nil, or_false] at hd'
    have : (PyModeS.df m ≠ 5 ∧ PyModeS.df m ≠ 21) := by omega
    simp only [hd, decide_false, Bool.not_false, if_true]
    rw [if_pos this]
    rfl

/-! ### icao -/

/-- `None` or a string -/
def Val.ofOptStr : Option Msg → Val
  | none => .none
  | some s => .str s

theorem pyFmtHexU6_ofNat (x : Nat) : pyFmtHexU 6 (Val.ofNat x) = .val (.str (hex6 x)) := by
  simp only [pyFmtHexU, int?_ofNat]
  rfl

/-- `msg[-6:]` -/
theorem pySlice_last6 (m : Msg) : pySlice (.str m) (some (Val.num (-6))) none = .val (.str (takeLast 6 m)) := by
  have h6 : (Val.num (-6)).int? = some (-((6 : Nat) : Int)) := by simp [Val.int?]
  simp only [pySlice, optInt, h6, bind_val', sliceList, normBound_neg _ 6 (by decide), takeLast, slice]
  congr 2
  apply List.take_of_length_le
  simp only [List.length_drop]
  omega

theorem isHex_takeLast {m : Msg} (h : IsHex m) (k : Nat) : IsHex (takeLast k m) :=
  fun c hc => h c (List.mem_of_mem_drop hc)

/-- `common.icao(msg)` on a hex string of at least six digits: `None` or the 6-character address, given the tie of
    `crc` (proved in Tie/Crc.lean, which imports this file; `icao_tie` itself is in Tie/Icao.lean) -/
theorem icao_tie_of_crc (m : Msg) (h : IsHex m) (hl : 6 ≤ m.length)
    (hcrc : Gen.py_common.crc (.str m) (.bool true) = .val (Val.ofNat (PyModeS.crc m true))) :
    Gen.py_common.icao (.str m) = .val (Val.ofOptStr (PyModeS.icao m)) := by
  unfold Gen.py_common.icao PyModeS.icao
  have hin1 := pyIn_ofNat (PyModeS.df m) [11, 17, 18]
  have hin2 := pyIn_ofNat (PyModeS.df m) [0, 4, 5, 16, 20, 21]
  simp only [List.map_cons, List.map_nil, Nat.cast_ofNat, Nat.cast_zero] at hin1 hin2
  have hne : takeLast 6 m ≠ [] := by
    intro e; have := congrArg List.length e; simp [takeLast] at this; omega
  have hsl : pySliceNN (Val.str m) 2 8 = .val (.str (slice 2 8 m)) := rfl
  have hup : ∀ s : Msg, pyUpper (.str s) = .val (.str (s.map Char.toUpper)) := fun _ => rfl
  simp only [df_str m h (by omega), bind_val', hin1, hin2, pyTruth_bool, decide_eq_true_eq, hsl, hup,
    hcrc, pySlice_last6, pyInt2_hex _ (isHex_takeLast h 6) hne, pyBitXor_ofNat, pyFmtHexU6_ofNat,
    Res.pure_eq, List.mem_cons, List.not_mem_nil, or_false]
  split_ifs <;> rfl

end PyModeS.Tie
