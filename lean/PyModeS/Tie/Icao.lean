/-
  `common.icao` with the generated `crc` underneath (no external): Tie/Common.lean's DF dispatch and formatting lemma
  composed with `crc_tie`.
-/
import PyModeS.Tie.Common
import PyModeS.Tie.Crc

-- symbolic execution of long generated `do` blocks: generous but finite budget (proof times are seconds)
set_option maxHeartbeats 1000000
namespace PyModeS.Tie
open PyModeS PyModeS.Py PyModeS.CRC

/-- `common.icao(msg)` on a hex string of at least six digits: `None` or the 6-character address -/
theorem icao_tie (m : Msg) (h : IsHex m) (hl : 6 ≤ m.length) :
    Gen.py_common.icao (.str m) = .val (Val.ofOptStr (PyModeS.icao m)) :=
  icao_tie_of_crc m h hl (crc_tie m h hl true)

/-- `common.crc(msg)` (decode mode) in the vocabulary of the interrogator-code model -/
theorem crc_false_bits (m : Msg) (h : IsHex m) (hl : 6 ≤ m.length) :
    Gen.py_common.crc (.str m) (.bool false) = .val (Val.ofNat (crcBitsPy (hex2binM m))) := by
  rw [crc_tie m h hl false]; rfl

end PyModeS.Tie
