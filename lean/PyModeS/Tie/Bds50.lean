/-
  Tie: generated `bds50.py` = hand model (`Model/Commb.lean`) on every 28-digit hex frame.
-/
import PyModeS.Tie.Basic
import PyModeS.Generated.Src.bds50
import Mathlib.Tactic.SplitIfs

set_option linter.unusedSimpArgs false
set_option linter.unusedTactic false
set_option linter.unreachableTactic false
namespace PyModeS.Tie
open PyModeS PyModeS.Py PyModeS.CRC

set_option hygiene false in
/-- common opening of a Comm-B field decoder: both sides read the MB field `d` of 56 bits -/
macro "commb_open" m:ident h:ident hl:ident : tactic => `(tactic|
  (simp only [data_str, Res.bind_val, hex2bin_data $m $h $hl, dataR_hex $m $hl]
   have hd := mb_length $m $hl
   generalize slice 32 88 (hex2binM $m) = d at hd ⊢))

set_option hygiene false in
/-- evaluate both sides on the symbolic 56-bit field and finish by case analysis and field arithmetic -/
macro "commb_close" : tactic => `(tactic|
  (simp [sfield, ufield, wrap360, idxR_of_lt, hd, bin2intR_slice_of_lt, Val.ofNat, Val.ofOptRat]
   try (split_ifs <;> simp_all [Val.ofOptRat] <;> (try push_cast) <;> (try ring_nf) <;> (try linarith))
   all_goals (try (split_ifs <;> (try ring_nf at *) <;> (try linarith)))))

/-- case analysis on an opaque `Res Bool` subterm occurring on both sides (`wrongstatus …`):
    closes the finished branches, leaves the one that continues -/
macro "res_bool" t:term : tactic => `(tactic|
  (generalize $t = r
   rcases r with ((_ | _) | _ | _)
   all_goals try (simp only [Res.bind_val, Res.bind_rte, Res.bind_exc, Res.pure_eq, pyTruth_bool, Bool.not_true,
     Bool.not_false, Bool.false_eq_true, if_true, if_false])))

/-- case analysis on an opaque `Res (Option Rat)` subterm occurring on both sides (a field decoder) -/
macro "res_opt" t:term : tactic => `(tactic|
  (generalize $t = r
   rcases r with ((_ | _) | _ | _)
   all_goals try (simp only [Res.bind_val, Res.bind_rte, Res.bind_exc, Res.pure_eq, Val.ofOptRat, optAbsGt, optGt,
     pyIsNot_none_num, pyIsNot_none_none, pyTruth_bool, pyAbs_num, pyGt_num, pySub_num, Bool.false_eq_true,
     if_true, if_false, rabs, gt_iff_lt])))

theorem roll50_tie (m : Msg) (h : IsHex m) (hl : m.length = 28) :
    Gen.bds50.roll50 (.str m) = (PyModeS.roll50 (hex2binM m) >>= fun o => .val (Val.ofOptRat o)) := by
  unfold Gen.bds50.roll50 PyModeS.roll50
  commb_open m h hl
  commb_close

theorem gs50_tie (m : Msg) (h : IsHex m) (hl : m.length = 28) :
    Gen.bds50.gs50 (.str m) = (PyModeS.gs50 (hex2binM m) >>= fun o => .val (Val.ofOptRat o)) := by
  unfold Gen.bds50.gs50 PyModeS.gs50
  commb_open m h hl
  commb_close

theorem tas50_tie (m : Msg) (h : IsHex m) (hl : m.length = 28) :
    Gen.bds50.tas50 (.str m) = (PyModeS.tas50 (hex2binM m) >>= fun o => .val (Val.ofOptRat o)) := by
  unfold Gen.bds50.tas50 PyModeS.tas50
  commb_open m h hl
  commb_close

theorem rtrk50_tie (m : Msg) (h : IsHex m) (hl : m.length = 28) :
    Gen.bds50.rtrk50 (.str m) = (PyModeS.rtrk50 (hex2binM m) >>= fun o => .val (Val.ofOptRat o)) := by
  unfold Gen.bds50.rtrk50 PyModeS.rtrk50
  commb_open m h hl
  commb_close

theorem trk50_tie (m : Msg) (h : IsHex m) (hl : m.length = 28) :
    Gen.bds50.trk50 (.str m) = (PyModeS.trk50 (hex2binM m) >>= fun o => .val (Val.ofOptRat o)) := by
  unfold Gen.bds50.trk50 PyModeS.trk50
  commb_open m h hl
  commb_close


theorem allzerosB_hex (m : Msg) (hl : m.length = 28) :
    allzerosB (hex2binM m) = .val (decide (PyModeS.bin2int (slice 32 88 (hex2binM m)) = 0)) := by
  simp [allzerosB, dataR_hex m hl]

/-- the five `wrongstatus` literals of a register, in the `Val.num` form the generated code uses -/
theorem ws_lit (d : Bits) (sb msb lsb : Nat) (h1 : 1 ≤ sb) (h2 : 1 ≤ msb) :
    Gen.py_common.wrongstatus (Val.ofBits d) (.num (sb : Rat)) (.num (msb : Rat)) (.num (lsb : Rat)) =
      (PyModeS.wrongstatus d sb msb lsb >>= fun b => .val (.bool b)) :=
  wrongstatus_ofBits d sb msb lsb h1 h2

theorem is50_tie (m : Msg) (h : IsHex m) (hl : m.length = 28) :
    Gen.bds50.is50 (.str m) = (PyModeS.is50 (hex2binM m) >>= fun b => .val (.bool b)) := by
  unfold Gen.bds50.is50 PyModeS.is50
  simp only [allzeros_str m h hl, allzerosB_hex m hl, roll50_tie m h hl, gs50_tie m h hl, tas50_tie m h hl]
  simp only [data_str, Res.bind_val, hex2bin_data m h hl, dataR_hex m hl]
  generalize slice 32 88 (hex2binM m) = d
  have w1 := ws_lit d 1 2 11 (by decide) (by decide)
  have w2 := ws_lit d 12 13 23 (by decide) (by decide)
  have w3 := ws_lit d 24 25 34 (by decide) (by decide)
  have w4 := ws_lit d 35 36 45 (by decide) (by decide)
  have w5 := ws_lit d 46 47 56 (by decide) (by decide)
  simp only [Nat.cast_ofNat, Nat.cast_one] at w1 w2 w3 w4 w5
  simp only [w1, w2, w3, w4, w5, statusOk]
  by_cases hz : PyModeS.bin2int d = 0
  · simp [hz]
  simp only [hz, decide_false, pyTruth_bool, Bool.false_eq_true, if_false]
  res_bool (PyModeS.wrongstatus d 1 2 11)
  res_bool (PyModeS.wrongstatus d 12 13 23)
  res_bool (PyModeS.wrongstatus d 24 25 34)
  res_bool (PyModeS.wrongstatus d 35 36 45)
  res_bool (PyModeS.wrongstatus d 46 47 56)
  generalize PyModeS.roll50 (hex2binM m) = rr
  generalize PyModeS.gs50 (hex2binM m) = rg
  generalize PyModeS.tas50 (hex2binM m) = rt
  rcases rr with ((_ | qr) | _ | _) <;> rcases rg with ((_ | qg) | _ | _) <;> rcases rt with ((_ | qt) | _ | _) <;>
    simp [Val.ofOptRat, optAbsGt, optGt, rabs] <;> (try split_ifs) <;> simp_all

end PyModeS.Tie
