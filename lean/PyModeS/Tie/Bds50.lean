/-
  Tie: generated `bds50.py` = hand model (`Model/Commb.lean`) on every 28-digit hex frame.
-/
import PyModeS.Tie.Basic
import PyModeS.Generated.Src.bds50
import Mathlib.Tactic.SplitIfs

-- symbolic execution of long generated `do` blocks: generous but finite budget (proof times are seconds)
set_option maxHeartbeats 1000000

set_option linter.unusedSimpArgs false
set_option linter.unusedTactic false
set_option linter.unreachableTactic false
namespace PyModeS.Tie
open PyModeS PyModeS.Py PyModeS.CRC

theorem roll50_tie (m : Msg) (h : IsHex m) (hl : m.length = 28) :
    Gen.bds50.roll50 (.str m) = (PyModeS.roll50 (hex2binM m) >>= fun o => .val (Val.ofOptRat o)) := by
  unfold Gen.bds50.roll50 PyModeS.roll50
  commb_open m h hl
  commb_close

theorem gs50_tie (m : Msg) (h : IsHex m) (hl : m.length = 28) :
    Gen.bds50.gs50 (.str m) = (PyModeS.gs50 (hex2binM m) >>= fun o => .val (Val.ofOptRat o)) := by
  unfold Gen.bds50.gs50 PyModeS.gs50
  commb_open m h hl
  commb_close

theorem tas50_tie (m : Msg) (h : IsHex m) (hl : m.length = 28) :
    Gen.bds50.tas50 (.str m) = (PyModeS.tas50 (hex2binM m) >>= fun o => .val (Val.ofOptRat o)) := by
  unfold Gen.bds50.tas50 PyModeS.tas50
  commb_open m h hl
  commb_close

theorem rtrk50_tie (m : Msg) (h : IsHex m) (hl : m.length = 28) :
    Gen.bds50.rtrk50 (.str m) = (PyModeS.rtrk50 (hex2binM m) >>= fun o => .val (Val.ofOptRat o)) := by
  unfold Gen.bds50.rtrk50 PyModeS.rtrk50
  commb_open m h hl
  commb_close

theorem trk50_tie (m : Msg) (h : IsHex m) (hl : m.length = 28) :
    Gen.bds50.trk50 (.str m) = (PyModeS.trk50 (hex2binM m) >>= fun o => .val (Val.ofOptRat o)) := by
  unfold Gen.bds50.trk50 PyModeS.trk50
  commb_open m h hl
  commb_close


theorem is50_tie (m : Msg) (h : IsHex m) (hl : m.length = 28) :
    Gen.bds50.is50 (.str m) = (PyModeS.is50 (hex2binM m) >>= fun b => .val (.bool b)) := by
  unfold Gen.bds50.is50 PyModeS.is50
  simp only [allzeros_str m h hl, allzerosB_hex m hl, roll50_tie m h hl, gs50_tie m h hl, tas50_tie m h hl]
  simp only [data_str, Res.bind_val, hex2bin_data m h hl, dataR_hex m hl]
  generalize slice 32 88 (hex2binM m) = d
  have w1 := ws_lit d 1 2 11 (by decide) (by decide)
  have w2 := ws_lit d 12 13 23 (by decide) (by decide)
  have w3 := ws_lit d 24 25 34 (by decide) (by decide)
  have w4 := ws_lit d 35 36 45 (by decide) (by decide)
  have w5 := ws_lit d 46 47 56 (by decide) (by decide)
  simp only [Nat.cast_ofNat, Nat.cast_one] at w1 w2 w3 w4 w5
  simp only [w1, w2, w3, w4, w5, statusOk]
  by_cases hz : PyModeS.bin2int d = 0
  · simp [hz]
  simp only [hz, decide_false, pyTruth_bool, Bool.false_eq_true, if_false]
  res_bool (PyModeS.wrongstatus d 1 2 11)
  res_bool (PyModeS.wrongstatus d 12 13 23)
  res_bool (PyModeS.wrongstatus d 24 25 34)
  res_bool (PyModeS.wrongstatus d 35 36 45)
  res_bool (PyModeS.wrongstatus d 46 47 56)
  generalize PyModeS.roll50 (hex2binM m) = rr
  generalize PyModeS.gs50 (hex2binM m) = rg
  generalize PyModeS.tas50 (hex2binM m) = rt
  rcases rr with ((_ | qr) | _ | _) <;> rcases rg with ((_ | qg) | _ | _) <;> rcases rt with ((_ | qt) | _ | _) <;>
    simp [Val.ofOptRat, optAbsGt, optGt, rabs] <;> (try split_ifs) <;> simp_all

end PyModeS.Tie
