/-
  Tie: generated `bds.infer` (`decoder/bds/__init__.py`) = hand model `PyModeS.infer` (`Model/Commb.lean`) on every
  28-digit hex frame, for the float-conversion instance `extIas` of `Tie/Is60.lean`.

  The string-list part `",".join(sorted(allbds[mask]))` is proved for an arbitrary label list that is strictly
  increasing (so that `sorted` is the identity on every masked sub-list) and instantiated for the two fixed lists.
-/
import PyModeS.Tie.Basic
import PyModeS.Tie.Common
import PyModeS.Tie.Bds10
import PyModeS.Tie.Bds17
import PyModeS.Tie.Bds20
import PyModeS.Tie.Bds40
import PyModeS.Tie.Bds44
import PyModeS.Tie.Bds45
import PyModeS.Tie.Bds50
import PyModeS.Tie.Is60
import PyModeS.Generated.Src.bds
import Mathlib.Tactic.SplitIfs

-- symbolic execution of long generated `do` blocks: generous but finite budget (proof times are seconds)
set_option maxHeartbeats 1000000

set_option linter.unusedSimpArgs false
set_option linter.unusedTactic false
set_option linter.unreachableTactic false
set_option linter.style.nameCheck false
namespace PyModeS.Tie
open PyModeS PyModeS.Py PyModeS.CRC

/-- `None` or a string of the hand model (the result of `infer`) -/
def Val.ofOptLabel : Option String → Val
  | none => .none
  | some s => .str s.toList

/-! ### `allbds[mask]`, `sorted`, `",".join` on lists of strings -/

/-- the items of `l` whose mask entry is set (`numpy` boolean-mask selection) -/
def sel {α} : List α → List Bool → List α
  | x :: xs, b :: bs => if b then x :: sel xs bs else sel xs bs
  | _, _ => []

theorem sel_cons {α} (x : α) (xs : List α) (b : Bool) (bs : List Bool) :
    sel (x :: xs) (b :: bs) = (if b then [x] else []) ++ sel xs bs := by
  cases b <;> rfl

theorem sel_nil {α} : sel ([] : List α) [] = [] := rfl

theorem sel_sublist {α} (l : List α) (bs : List Bool) : (sel l bs).Sublist l := by
  induction l generalizing bs with
  | nil => cases bs <;> exact List.Sublist.refl _
  | cons x xs ih =>
    cases bs with
    | nil => exact List.nil_sublist _
    | cons b bs =>
      cases b
      · exact (ih bs).cons _
      · exact (ih bs).cons_cons _

theorem sel_map {α β} (f : α → β) (l : List α) (bs : List Bool) : (sel l bs).map f = sel (l.map f) bs := by
  induction l generalizing bs with
  | nil => cases bs <;> rfl
  | cons x xs ih =>
    cases bs with
    | nil => rfl
    | cons b bs => cases b <;> simp [sel, ih]

private theorem filterMap_mask {α} (f : α → Val) (ls : List α) (bs : List Bool) :
    List.filterMap (fun p : Val × Val => if p.2.truth = true then some p.1 else none)
      ((ls.map f).zip (bs.map Val.bool)) = (sel ls bs).map f := by
  induction ls generalizing bs with
  | nil => cases bs <;> rfl
  | cons x xs ih =>
    cases bs with
    | nil => rfl
    | cons b bs =>
      have t0 : (Val.bool false).truth = false := rfl
      have t1 : (Val.bool true).truth = true := rfl
      cases b
      · simp only [List.map_cons, List.zip_cons_cons, List.filterMap_cons, t0, Bool.false_eq_true, if_false,
          sel, ih]
      · simp only [List.map_cons, List.zip_cons_cons, List.filterMap_cons, t1, if_true, sel, ih]

/-- `allbds[mask]` for a list of strings and a list of booleans of the same length -/
theorem pyIdx_mask (ls : List String) (bs : List Bool) (h : bs.length = ls.length) :
    Py.pyIdx (Val.ofStrs ls) (.tuple (bs.map Val.bool)) = .val (Val.ofStrs (sel ls bs)) := by
  simp only [Py.pyIdx, Val.ofStrs, List.length_map, h, filterMap_mask]
  rw [if_pos ⟨trivial, by simp [List.all_map]⟩]

private theorem mapM_str (f : Val → Option (List Char)) (hf : ∀ s, f (.str s) = some s) (ss : List (List Char)) :
    (ss.map Val.str).mapM f = some ss := by
  induction ss with
  | nil => rfl
  | cons s ss ih => simp [List.mapM_cons, ih, hf]

/-- `sorted(l)` for a list of strings -/
theorem pySorted_strs (ss : List (List Char)) :
    pySorted (.tuple (ss.map Val.str)) = .val (.tuple ((ss.foldr insertSorted []).map Val.str)) := by
  simp only [pySorted]
  rw [mapM_str _ (fun _ => rfl)]

/-- `sep.join(l)` for a list of strings -/
theorem pyJoin_strs (sep : List Char) (ss : List (List Char)) :
    pyJoin (.str sep) (.tuple (ss.map Val.str)) = .val (.str (sep.intercalate ss)) := by
  simp only [pyJoin]
  rw [mapM_str _ (fun _ => rfl)]

private theorem pyLen_str (s : List Char) : pyLen (.str s) = .val (Val.ofNat s.length) := rfl

private theorem ofStrs_eq (l : List String) : Val.ofStrs l = .tuple ((l.map String.toList).map Val.str) := by
  simp [Val.ofStrs, List.map_map]

/-- the order of `sorted` on two strings: `x` strictly before `y` -/
def strictlyBefore (x y : List Char) : Prop := ¬ (strLt y x ∨ y = x)

instance (x y : List Char) : Decidable (strictlyBefore x y) := by unfold strictlyBefore; infer_instance

/-- insertion sort leaves a strictly increasing list alone -/
theorem sorted_of_pairwise (ss : List (List Char)) (h : ss.Pairwise strictlyBefore) :
    ss.foldr insertSorted [] = ss := by
  induction ss with
  | nil => rfl
  | cons x xs ih =>
    rw [List.foldr_cons, ih (List.Pairwise.of_cons h)]
    cases xs with
    | nil => rfl
    | cons y ys =>
      have hxy : strictlyBefore x y := List.rel_of_pairwise_cons h (by simp)
      unfold strictlyBefore at hxy
      simp only [insertSorted, hxy, if_false]

theorem intercalate_length_zero (sep : List Char) (ss : List (List Char)) (hne : ∀ s ∈ ss, s ≠ []) :
    (sep.intercalate ss).length = 0 ↔ ss = [] := by
  cases ss with
  | nil => simp [List.intercalate]
  | cons s rest =>
    have hs : s ≠ [] := hne s (by simp)
    constructor
    · intro hlen
      exfalso
      have : sep.intercalate (s :: rest) = [] := List.length_eq_zero_iff.mp hlen
      cases rest with
      | nil => simp [List.intercalate, hs] at this
      | cons r rest => simp [List.intercalate, List.intersperse, hs] at this
    · intro e; cases e

/-- `",".join(sorted(allbds[mask]))` followed by the `len(bds) == 0` test, for any strictly increasing list of
    non-empty labels: `None`, or the selected labels joined by commas -/
theorem join_sorted_mask (ls : List String) (bs : List Bool) (h : bs.length = ls.length)
    (hs : (ls.map String.toList).Pairwise strictlyBefore) (hne : ∀ s ∈ ls.map String.toList, s ≠ []) :
    (do let bds ← pyJoin (Val.str [',']) (← pySorted (← Py.pyIdx (Val.ofStrs ls) (.tuple (bs.map Val.bool))))
        if pyTruth (← pyEq (← pyLen bds) (Val.num 0)) then return Val.none else return bds) =
      .val (Val.ofOptLabel (if (sel ls bs).isEmpty then none else some (",".intercalate (sel ls bs)))) := by
  have hsub : ((sel ls bs).map String.toList).Sublist (ls.map String.toList) := (sel_sublist ls bs).map _
  have hsorted := sorted_of_pairwise _ (hs.sublist hsub)
  have hne' : ∀ s ∈ (sel ls bs).map String.toList, s ≠ [] := fun s hs' => hne s (hsub.subset hs')
  have hlen := intercalate_length_zero [','] _ hne'
  rw [pyIdx_mask ls bs h]
  simp only [bind_val']
  rw [ofStrs_eq, pySorted_strs, hsorted]
  simp only [bind_val', pyJoin_strs, pyLen_str]
  have hz := pyEq_ofNat ([','].intercalate ((sel ls bs).map String.toList)).length 0
  simp only [Nat.cast_zero] at hz
  simp only [hz, bind_val', pyTruth_bool, Res.pure_eq]
  by_cases hemp : sel ls bs = []
  · simp [hemp, Val.ofOptLabel]
  · have h1 : ¬ (([','].intercalate ((sel ls bs).map String.toList)).length = 0) := by
      rw [hlen]; simpa using hemp
    have h2 : (sel ls bs).isEmpty = false := by
      cases hq : sel ls bs with
      | nil => exact absurd hq hemp
      | cons _ _ => rfl
    simp only [h1, decide_false, Bool.false_eq_true, if_false, h2, Val.ofOptLabel, String.toList_intercalate]
    rfl

/-- the selection of the hand model (`filter` on the rule triples) as a mask selection -/
theorem rules_sel (mrar : Bool) (rs : List (String × Bool × Bool)) :
    (rs.filter (fun r => r.2.1 && (mrar || !r.2.2))).map (·.1) =
      sel (rs.map (·.1)) (rs.map (fun r => r.2.1 && (mrar || !r.2.2))) := by
  induction rs with
  | nil => rfl
  | cons r rs ih =>
    rw [List.map_cons, List.map_cons, sel_cons, List.filter_cons]
    cases hc : (r.2.1 && (mrar || !r.2.2)) <;> simp [ih]

def labels9 : List String := ["BDS10", "BDS17", "BDS20", "BDS30", "BDS40", "BDS44", "BDS45", "BDS50", "BDS60"]
def labels7 : List String := ["BDS10", "BDS17", "BDS20", "BDS30", "BDS40", "BDS50", "BDS60"]

theorem labels9_sorted : (labels9.map String.toList).Pairwise strictlyBefore := by decide
theorem labels7_sorted : (labels7.map String.toList).Pairwise strictlyBefore := by decide
theorem labels9_ne : ∀ s ∈ labels9.map String.toList, s ≠ [] := by decide
theorem labels7_ne : ∀ s ∈ labels7.map String.toList, s ≠ [] := by decide

theorem labels9_lit :
    Val.tuple [Val.str ['B', 'D', 'S', '1', '0'], Val.str ['B', 'D', 'S', '1', '7'], Val.str ['B', 'D', 'S', '2', '0'],
      Val.str ['B', 'D', 'S', '3', '0'], Val.str ['B', 'D', 'S', '4', '0'], Val.str ['B', 'D', 'S', '4', '4'],
      Val.str ['B', 'D', 'S', '4', '5'], Val.str ['B', 'D', 'S', '5', '0'], Val.str ['B', 'D', 'S', '6', '0']] =
      Val.ofStrs labels9 := rfl

theorem labels7_lit :
    Val.tuple [Val.str ['B', 'D', 'S', '1', '0'], Val.str ['B', 'D', 'S', '1', '7'], Val.str ['B', 'D', 'S', '2', '0'],
      Val.str ['B', 'D', 'S', '3', '0'], Val.str ['B', 'D', 'S', '4', '0'], Val.str ['B', 'D', 'S', '5', '0'],
      Val.str ['B', 'D', 'S', '6', '0']] = Val.ofStrs labels7 := rfl

private theorem pyList_ofStrs (l : List String) : pyList (Val.ofStrs l) = .val (Val.ofStrs l) := rfl

/-- the Comm-B part of `infer`: the nine rules are evaluated (in the order of the source), then the labels of the
    satisfied ones are selected, sorted and joined -/
theorem infer_rules_tie (mrar : Bool) (r10 r17 r20 r30 r40 r50 r60 r44 r45 : Res Bool) :
    (do
      let IS10 ← (r10 >>= fun b => Res.val (Val.bool b))
      let IS17 ← (r17 >>= fun b => Res.val (Val.bool b))
      let IS20 ← (r20 >>= fun b => Res.val (Val.bool b))
      let IS30 ← (r30 >>= fun b => Res.val (Val.bool b))
      let IS40 ← (r40 >>= fun b => Res.val (Val.bool b))
      let IS50 ← (r50 >>= fun b => Res.val (Val.bool b))
      let IS60 ← (r60 >>= fun b => Res.val (Val.bool b))
      let IS44 ← (r44 >>= fun b => Res.val (Val.bool b))
      let IS45 ← (r45 >>= fun b => Res.val (Val.bool b))
      if pyTruth (Val.bool mrar) = true then do
        let allbds ← pyList (Val.tuple [Val.str ['B', 'D', 'S', '1', '0'], Val.str ['B', 'D', 'S', '1', '7'],
          Val.str ['B', 'D', 'S', '2', '0'], Val.str ['B', 'D', 'S', '3', '0'], Val.str ['B', 'D', 'S', '4', '0'],
          Val.str ['B', 'D', 'S', '4', '4'], Val.str ['B', 'D', 'S', '4', '5'], Val.str ['B', 'D', 'S', '5', '0'],
          Val.str ['B', 'D', 'S', '6', '0']])
        let sel ← Py.pyIdx allbds (Val.tuple [IS10, IS17, IS20, IS30, IS40, IS44, IS45, IS50, IS60])
        let srt ← pySorted sel
        let bds ← pyJoin (Val.str [',']) srt
        let n ← pyLen bds
        let c ← pyEq n (Val.num 0)
        if pyTruth c = true then Res.val Val.none else Res.val bds
      else do
        let allbds ← pyList (Val.tuple [Val.str ['B', 'D', 'S', '1', '0'], Val.str ['B', 'D', 'S', '1', '7'],
          Val.str ['B', 'D', 'S', '2', '0'], Val.str ['B', 'D', 'S', '3', '0'], Val.str ['B', 'D', 'S', '4', '0'],
          Val.str ['B', 'D', 'S', '5', '0'], Val.str ['B', 'D', 'S', '6', '0']])
        let sel ← Py.pyIdx allbds (Val.tuple [IS10, IS17, IS20, IS30, IS40, IS50, IS60])
        let srt ← pySorted sel
        let bds ← pyJoin (Val.str [',']) srt
        let n ← pyLen bds
        let c ← pyEq n (Val.num 0)
        if pyTruth c = true then Res.val Val.none else Res.val bds) =
    ((do
      let rules ← (do
        let i10 ← r10
        let i17 ← r17
        let i20 ← r20
        let i30 ← r30
        let i40 ← r40
        let i50 ← r50
        let i60 ← r60
        let i44 ← r44
        let i45 ← r45
        Res.val [("BDS10", i10, false), ("BDS17", i17, false), ("BDS20", i20, false), ("BDS30", i30, false),
          ("BDS40", i40, false), ("BDS44", i44, true), ("BDS45", i45, true), ("BDS50", i50, false),
          ("BDS60", i60, false)])
      if (List.map (fun x => x.1) (List.filter (fun r => r.2.1 && (mrar || !r.2.2)) rules)).isEmpty = true then
        Res.val none
      else
        Res.val (some (",".intercalate
          (List.map (fun x => x.1) (List.filter (fun r => r.2.1 && (mrar || !r.2.2)) rules))))) >>=
      fun o => Res.val (Val.ofOptLabel o)) := by
  rcases r10 with (b10 | _ | _)
  rotate_left
  · rfl
  · rfl
  rcases r17 with (b17 | _ | _)
  rotate_left
  · rfl
  · rfl
  rcases r20 with (b20 | _ | _)
  rotate_left
  · rfl
  · rfl
  rcases r30 with (b30 | _ | _)
  rotate_left
  · rfl
  · rfl
  rcases r40 with (b40 | _ | _)
  rotate_left
  · rfl
  · rfl
  rcases r50 with (b50 | _ | _)
  rotate_left
  · rfl
  · rfl
  rcases r60 with (b60 | _ | _)
  rotate_left
  · rfl
  · rfl
  rcases r44 with (b44 | _ | _)
  rotate_left
  · rfl
  · rfl
  rcases r45 with (b45 | _ | _)
  rotate_left
  · rfl
  · rfl
  simp only [bind_val', rules_sel, labels9_lit, labels7_lit, pyTruth_bool, pyList_ofStrs]
  simp only [List.map_cons, List.map_nil]
  have if_bind : ∀ (c : Bool) (x y : Option String),
      ((if c = true then Res.val x else Res.val y) >>= fun o => Res.val (Val.ofOptLabel o)) =
        Res.val (Val.ofOptLabel (if c = true then x else y)) := by
    intro c x y; cases c <;> rfl
  rw [if_bind]
  cases mrar
  · have key := join_sorted_mask labels7 [b10, b17, b20, b30, b40, b50, b60] rfl labels7_sorted labels7_ne
    simp only [List.map_cons, List.map_nil, Res.pure_eq] at key
    have hsel : sel ["BDS10", "BDS17", "BDS20", "BDS30", "BDS40", "BDS44", "BDS45", "BDS50", "BDS60"]
        [b10 && (false || !false), b17 && (false || !false), b20 && (false || !false), b30 && (false || !false),
          b40 && (false || !false), b44 && (false || !true), b45 && (false || !true), b50 && (false || !false),
          b60 && (false || !false)] = sel labels7 [b10, b17, b20, b30, b40, b50, b60] := by
      simp [sel_cons, sel_nil, labels7]
    simp only [Bool.false_eq_true, if_false]
    rw [hsel]
    exact key
  · have key := join_sorted_mask labels9 [b10, b17, b20, b30, b40, b44, b45, b50, b60] rfl labels9_sorted labels9_ne
    simp only [List.map_cons, List.map_nil, Res.pure_eq] at key
    have hsel : sel ["BDS10", "BDS17", "BDS20", "BDS30", "BDS40", "BDS44", "BDS45", "BDS50", "BDS60"]
        [b10 && (true || !false), b17 && (true || !false), b20 && (true || !false), b30 && (true || !false),
          b40 && (true || !false), b44 && (true || !true), b45 && (true || !true), b50 && (true || !false),
          b60 && (true || !false)] = sel labels9 [b10, b17, b20, b30, b40, b44, b45, b50, b60] := by
      simp [labels9]
    simp only [if_true]
    rw [hsel]
    exact key

/-- `a <= tc <= b` (a chained comparison of the source) -/
private theorem chained (a b tc : Nat) :
    (pyLe (.num (a : Rat)) (.num (tc : Rat)) >>= fun c =>
      if pyTruth c = true then pyLe (.num (tc : Rat)) (.num (b : Rat)) else Res.val c) =
      .val (.bool (decide (a ≤ tc ∧ tc ≤ b))) := by
  simp only [pyLe_num, bind_val', pyTruth_bool, Nat.cast_le]
  by_cases h1 : a ≤ tc <;> by_cases h2 : tc ≤ b <;> simp [h1, h2]

theorem infer_tie (m : Msg) (h : IsHex m) (hl : m.length = 28) (mrar : Bool) :
    Gen.bds.infer (.str m) (.bool mrar) =
      (PyModeS.infer extIas (hex2binM m) mrar >>= fun o => .val (Val.ofOptLabel o)) := by
  unfold Gen.bds.infer PyModeS.infer PyModeS.commbRules
  simp only [df_str m h (by omega), allzeros_str m h hl, allzerosB_hex m hl, typecode_str m h (by omega),
    is10_tie m h hl, is17_tie m h hl, is20_tie m h hl, is30_tie m h hl, is40_tie m h hl, is50_tie m h hl,
    is60_tie m h hl, is44_tie m h hl, is45_tie m h hl]
  simp only [Res.pure_eq, bind_val', pyTruth_bool]
  rw [← df_eq, ← typecode_eq]
  have htc : PyModeS.df m = 17 → ∃ tc, PyModeS.typecode m = some tc := by
    intro e
    simp [PyModeS.typecode, e]
  have hdf := pyEq_ofNat (PyModeS.df m) 17
  simp only [Nat.cast_ofNat] at hdf
  generalize PyModeS.typecode m = tco at htc ⊢
  generalize PyModeS.df m = dfv at htc hdf ⊢
  by_cases hz : PyModeS.bin2int (slice 32 88 (hex2binM m)) = 0
  · simp only [hz, decide_true, if_true, bind_val', Val.ofOptLabel]
    rfl
  simp only [hz, decide_false, Bool.false_eq_true, if_false, hdf, bind_val', pyTruth_bool, decide_eq_true_eq]
  by_cases hd : dfv = 17
  swap
  · simp only [hd, if_false]
    exact infer_rules_tie mrar _ _ _ _ _ _ _ _ _
  obtain ⟨tc, rfl⟩ := htc hd
  have c1 := chained 1 4 tc
  have c2 := chained 5 8 tc
  have c3 := chained 9 18 tc
  have c4 := chained 20 22 tc
  have e19 := pyEq_ofNat tc 19
  have e28 := pyEq_ofNat tc 28
  have e29 := pyEq_ofNat tc 29
  have e31 := pyEq_ofNat tc 31
  simp only [Nat.cast_ofNat, Nat.cast_one, Val.ofNat] at c1 c2 c3 c4 e19 e28 e29 e31
  simp only [hd, if_true, Val.ofOptNat, pyIs_none_num, bind_val', pyTruth_bool, Bool.false_eq_true, if_false,
    c1, c2, c3, c4, e19, e28, e29, e31, decide_eq_true_eq, inferAdsb]
  by_cases k0 : 1 ≤ tc ∧ tc ≤ 4
  · simp only [k0, if_true, bind_val', Val.ofOptLabel]
    rfl
  simp only [k0, if_false]
  by_cases k1 : 5 ≤ tc ∧ tc ≤ 8
  · simp only [k1, if_true, bind_val', Val.ofOptLabel]
    rfl
  simp only [k1, if_false]
  by_cases k2 : 9 ≤ tc ∧ tc ≤ 18
  · simp only [k2, if_true, bind_val', Val.ofOptLabel]
    rfl
  simp only [k2, if_false]
  by_cases k3 : tc = 19
  · simp only [k3, if_true, bind_val', Val.ofOptLabel]
    rfl
  simp only [k3, if_false]
  by_cases k4 : 20 ≤ tc ∧ tc ≤ 22
  · simp only [k4, if_true, bind_val', Val.ofOptLabel]
    rfl
  simp only [k4, if_false]
  by_cases k5 : tc = 28
  · simp only [k5, if_true, bind_val', Val.ofOptLabel]
    rfl
  simp only [k5, if_false]
  by_cases k6 : tc = 29
  · simp only [k6, if_true, bind_val', Val.ofOptLabel]
    rfl
  simp only [k6, if_false]
  by_cases k7 : tc = 31
  · simp only [k7, if_true, bind_val', Val.ofOptLabel]
    rfl
  simp only [k7, if_false]
  exact infer_rules_tie mrar _ _ _ _ _ _ _ _ _

end PyModeS.Tie
