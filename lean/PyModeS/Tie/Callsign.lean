/-
  Tie: generated `bds08.callsign` = hand model `PyModeS.callsign` (`Model/Adsb.lean`).
-/
import PyModeS.Tie.Basic
import PyModeS.Tie.Common
import PyModeS.Generated.Src.bds08
import Mathlib.Tactic.SplitIfs

-- symbolic execution of long generated `do` blocks: generous but finite budget (proof times are seconds)
set_option maxHeartbeats 1000000

set_option linter.unusedSimpArgs false
set_option linter.unusedTactic false
set_option linter.unreachableTactic false
namespace PyModeS.Tie
open PyModeS PyModeS.Py PyModeS.CRC

/-- `s[n]` for a string and a non-negative integer value -/
private theorem pyIdx_str_nat (cs : List Char) (n : Nat) :
    Py.pyIdx (.str cs) (Val.ofNat n) = (idxR cs n >>= fun c => .val (.str [c])) := by
  have : ¬ ((n : Int) < 0) := by omega
  simp only [Py.pyIdx, int?_ofNat, idxList, this, if_false, Int.toNat_natCast, idxR]
  cases cs[n]? <;> rfl

private theorem slice_slice' {α} (a b c e : Nat) (l : List α) (h : c + b ≤ e) :
    slice a b (slice c e l) = slice (c + a) (c + b) l := by
  simp only [slice, List.drop_take, List.drop_drop, List.take_take]
  congr 1
  omega

/-- the literal in the source is the table the hand model uses -/
private theorem chars_lit :
    "#ABCDEFGHIJKLMNOPQRSTUVWXYZ#####_###############0123456789######".toList = Tables.callsignChars := rfl

private theorem step (tbl : List Char) (d : Bits) (acc : List Char) (a b : Nat) (k : Val → Res Val) :
    (do let x ← pySliceNN (Val.ofBits d) a b
        let n ← Gen.py_common.bin2int x
        let c ← Py.pyIdx (Val.str tbl) n
        let cs ← pyAdd (Val.str acc) c
        k cs) =
    (do let n ← bin2intR (slice a b d)
        let c ← idxR tbl n
        k (Val.str (acc ++ [c]))) := by
  simp only [pySliceNN_ofBits, Res.bind_val, bin2int_ofBits]
  rcases bin2intR (slice a b d) with (n | _ | _)
  · simp only [Res.bind_val, pyIdx_str_nat]
    rcases idxR tbl n with (c | _ | _) <;> rfl
  · rfl
  · rfl

private theorem mapM_cons' {α β} (f : α → Res β) (a : α) (as : List α) :
    Res.mapM f (a :: as) = (do let b ← f a; let bs ← Res.mapM f as; Res.val (b :: bs)) := by
  simp only [Res.mapM]
  rcases f a with (b | _ | _)
  · rcases Res.mapM f as with (bs | _ | _) <;> rfl
  · rfl
  · rfl

private theorem flatMap_remove' (x : Char) (l : List Char) :
    l.flatMap (fun c => if c = x then [] else [c]) = l.filter (fun c => decide (c ≠ x)) := by
  induction l with
  | nil => rfl
  | cons a l ih =>
    simp only [List.flatMap_cons, ih, List.filter_cons]
    by_cases hx : a = x <;> simp [hx]

private theorem pyReplace_remove' (s : List Char) (x : Char) :
    pyReplace (.str s) (.str [x]) (.str []) = .val (.str (s.filter (fun c => decide (c ≠ x)))) := by
  simp only [pyReplace, flatMap_remove']

/-- the eight table look-ups of `callsign` followed by `.replace("#", "")`, for any table -/
private theorem cs_core (tbl : List Char) (d : Bits) :
    (do let cs ← pyAdd (Val.str []) (← Py.pyIdx (Val.str tbl) (← Gen.py_common.bin2int (← pySliceNN (Val.ofBits d) 0 6)))
        let cs ← pyAdd cs (← Py.pyIdx (Val.str tbl) (← Gen.py_common.bin2int (← pySliceNN (Val.ofBits d) 6 12)))
        let cs ← pyAdd cs (← Py.pyIdx (Val.str tbl) (← Gen.py_common.bin2int (← pySliceNN (Val.ofBits d) 12 18)))
        let cs ← pyAdd cs (← Py.pyIdx (Val.str tbl) (← Gen.py_common.bin2int (← pySliceNN (Val.ofBits d) 18 24)))
        let cs ← pyAdd cs (← Py.pyIdx (Val.str tbl) (← Gen.py_common.bin2int (← pySliceNN (Val.ofBits d) 24 30)))
        let cs ← pyAdd cs (← Py.pyIdx (Val.str tbl) (← Gen.py_common.bin2int (← pySliceNN (Val.ofBits d) 30 36)))
        let cs ← pyAdd cs (← Py.pyIdx (Val.str tbl) (← Gen.py_common.bin2int (← pySliceNN (Val.ofBits d) 36 42)))
        let cs ← pyAdd cs (← Py.pyIdx (Val.str tbl) (← Gen.py_common.bin2int (← pySliceNN (Val.ofBits d) 42 48)))
        let cs ← pyReplace cs (Val.str ['#']) (Val.str [])
        (pure cs : Res Val)) =
    (chars8 tbl d >>= fun cs => .val (.str (cs.filter (fun c => decide (c ≠ '#'))))) := by
  unfold chars8
  have hr : List.range 8 = [0, 1, 2, 3, 4, 5, 6, 7] := by decide
  have hn : ∀ f : Nat → Res Char, Res.mapM f [] = .val [] := fun _ => rfl
  simp only [step, hr, mapM_cons', hn, bind_assoc, Res.bind_val, pyReplace_remove', Res.pure_eq]
  rfl

/-- the type-code guard `tc is None or tc < 1 or tc > 4` once the type code is known -/
theorem callsign_guard_tc (tc : Nat) :
    (do let b__1 ← pyIs (Val.ofOptNat (some tc)) Val.none
        if pyTruth b__1 then pure b__1 else (do
          let b__2 ← pyLt (Val.ofOptNat (some tc)) (Val.num 1)
          if pyTruth b__2 then pure b__2 else pyGt (Val.ofOptNat (some tc)) (Val.num 4))) =
      .val (.bool (decide (tc < 1 ∨ tc > 4))) := by
  simp only [Val.ofOptNat, Val.ofNat, pyIs_none_num, bind_val', pyTruth_bool, Bool.false_eq_true, if_false,
    pyLt_num, pyGt_num, Res.pure_eq]
  by_cases h1 : tc < 1
  · have : (tc : Rat) < 1 := by exact_mod_cast h1
    simp [h1, this]
  · have h1' : ¬ ((tc : Rat) < 1) := by exact_mod_cast h1
    by_cases h4 : tc > 4
    · have : (4 : Rat) < (tc : Rat) := by exact_mod_cast h4
      simp [h1, h1', h4, this]
    · have : ¬ ((4 : Rat) < (tc : Rat)) := by exact_mod_cast h4
      simp [h1, h1', h4, this]

theorem callsign_tie (m : Msg) (h : IsHex m) (hl : 10 ≤ m.length) :
    Gen.bds08.callsign (.str m) = (PyModeS.callsign (hex2binM m) >>= fun s => .val (.str s)) := by
  unfold Gen.bds08.callsign PyModeS.callsign
  rw [← chars_lit]
  generalize "#ABCDEFGHIJKLMNOPQRSTUVWXYZ#####_###############0123456789######".toList = tbl
  have hne : m ≠ [] := by intro e; rw [e] at hl; simp at hl
  rw [typecode_str m h hl, typecode_eq, bind_val']
  generalize tcB (hex2binM m) = o
  rcases o with _ | tc
  · rfl
  · rw [callsign_guard_tc, bind_val']
    by_cases hg : tc < 1 ∨ tc > 4
    · simp only [hg, decide_true, pyTruth_bool, if_true, bind_rte']
    · simp only [hg, decide_false, pyTruth_bool, Bool.false_eq_true, if_false]
      rw [hex2bin_str m h hne, bind_val', pySliceNN_ofBits, bind_val']
      rw [cs_core tbl _, bind_assoc]
      rfl

end PyModeS.Tie
