/-
  Tie for `TcpClient.read_raw_buffer` (extra/tcpclient.py, property C16): the generated method on the receiver
  dictionary against `readRaw` / `rawScan` of Model/Stream.lean.
-/
import PyModeS.Tie.Basic
import PyModeS.Tie.Common
import PyModeS.Generated.Src.tcpclient
import PyModeS.Model.Stream

-- symbolic execution of long generated `do` blocks: generous but finite budget (proof times are seconds)
set_option maxHeartbeats 1000000

set_option linter.style.nameCheck false
set_option linter.unusedSimpArgs false
set_option linter.unusedVariables false
open PyModeS PyModeS.Py PyModeS.CRC PyModeS.Tie
namespace PyModeS.Tie.Raw

/-! ### attribute dictionaries with string keys -/

theorem dictFind_cons (k k' v : Val) (l : List (Val × Val)) :
    dictFind ((k', v) :: l) k = if Val.beq k k' then some v else dictFind l k := by
  unfold dictFind
  rw [List.find?_cons]
  by_cases h : Val.beq k k' = true
  · simp [h]
  · simp [h]

theorem setPair_cons (k k' v v' : Val) (l : List (Val × Val)) :
    setPair k v ((k', v') :: l) = if Val.beq k k' then (k', v) :: l else (k', v') :: setPair k v l := rfl

theorem beq_str_str (a b : List Char) : Val.beq (.str a) (.str b) = (a == b) := by simp [Val.beq]

theorem beq_str_iff (a : List Char) (k : Val) : Val.beq (.str a) k = true ↔ k = .str a := by
  cases k with
  | str b => rw [beq_str_str]; simp only [beq_iff_eq, Val.str.injEq]; exact eq_comm
  | none => simp [Val.beq]
  | bool b => simp [Val.beq]
  | num b => simp [Val.beq]
  | tuple b => simp [Val.beq]
  | dict b => simp [Val.beq]

theorem dictFind_setPair_same (a : List Char) (v : Val) (l : List (Val × Val)) :
    dictFind (setPair (.str a) v l) (.str a) = some v := by
  induction l with
  | nil => simp [setPair, dictFind_cons, beq_str_str]
  | cons kv l ih =>
    obtain ⟨k', v'⟩ := kv
    rw [setPair_cons]
    by_cases hb : Val.beq (.str a) k' = true
    · rw [if_pos hb, dictFind_cons, if_pos hb]
    · rw [if_neg hb, dictFind_cons, if_neg hb, ih]

theorem dictFind_setPair_ne (a b : List Char) (h : a ≠ b) (v : Val) (l : List (Val × Val)) :
    dictFind (setPair (.str a) v l) (.str b) = dictFind l (.str b) := by
  induction l with
  | nil => simp [setPair, dictFind_cons, beq_str_str, Ne.symm h]
  | cons kv l ih =>
    obtain ⟨k', v'⟩ := kv
    rw [setPair_cons]
    by_cases hb : Val.beq (.str a) k' = true
    · rw [if_pos hb]
      have hk := (beq_str_iff a k').1 hb
      subst hk
      simp [dictFind_cons, beq_str_str, Ne.symm h]
    · rw [if_neg hb, dictFind_cons, dictFind_cons, ih]

theorem setPair_setPair (a : List Char) (v v' : Val) (l : List (Val × Val)) :
    setPair (.str a) v' (setPair (.str a) v l) = setPair (.str a) v' l := by
  induction l with
  | nil => simp [setPair, beq_str_str]
  | cons kv l ih =>
    obtain ⟨k', v''⟩ := kv
    by_cases hb : Val.beq (.str a) k' = true
    · simp [setPair_cons, hb]
    · simp [setPair_cons, hb, ih]


/-! ### the loop of `read_raw_buffer` with indices (as in the source) instead of buffer suffixes -/

/-- all mutable variables of the loop: `i`, `b`, `ts` (values), `self.current_msg`, `msg_stop`, `messages` (newest
    first, as `out` of `rawScan`) and `msg_start` -/
structure RS where
  i : Val
  b : Val
  ts : Val
  cur : List Char
  stop : Bool
  out : List Msg
  ms : Option Nat

/-- one iteration on item `(k, b)` of `enumerate(self.buffer)` -/
def rsStep (k : Nat) (b : Byte) (st : RS) : RS :=
  let stop1 := if b = 59 then true else st.stop
  let out1 := if b = 59 then st.cur :: st.out else st.out
  let ms1 := if b = 59 then none else st.ms
  let stop2 := if b = 42 then false else stop1
  let cur2 := if b = 42 then [] else st.cur
  let ms2 := if b = 42 then some k else ms1
  let cur3 := if !stop2 && isHexByte b then cur2 ++ [Char.ofNat b] else cur2
  ⟨Val.ofNat k, Val.ofNat b, if b = 59 then .num 0 else st.ts, cur3, stop2, out1, ms2⟩

def rsScan : Nat → List Byte → RS → RS
  | _, [], st => st
  | k, b :: rest, st => rsScan (k + 1) rest (rsStep k b st)

def rsInit : RS := ⟨.none, .none, .none, [], false, [], none⟩

/-- `rawScan` of the hand model keeps `self.buffer[msg_start:]` where the source keeps `msg_start` -/
theorem rawScan_eq_rsScan (buf pre rem : List Byte) (hb : buf = pre ++ rem) (st : RS) :
    rawScan rem st.cur st.stop st.out (st.ms.map (fun k => buf.drop k)) =
      ((rsScan pre.length rem st).out.reverse, ((rsScan pre.length rem st).ms.map (fun k => buf.drop k)).getD []) := by
  induction rem generalizing pre st with
  | nil => rfl
  | cons b rem ih =>
    have hb' : buf = (pre ++ [b]) ++ rem := by simp [hb]
    have hd : buf.drop pre.length = b :: rem := by simp [hb]
    have := ih (pre ++ [b]) hb' (rsStep pre.length b st)
    rw [List.length_append, List.length_singleton] at this
    rw [rsScan, ← this]
    rw [rawScan]
    unfold rsStep
    by_cases h59 : b = 59 <;> by_cases h42 : b = 42 <;> simp [h59, h42, hd]


/-! ### encodings -/

/-- `self.buffer`: a list of byte values -/
def encBytes (l : List Byte) : Val := .tuple (l.map Val.ofNat)

/-- the returned `[msg, ts]` list; `time.time()` is `0` in the generated model (`Ext.time_time`) -/
def encStamped (l : List Msg) : Val := .tuple (l.map fun m => .tuple [.str m, .num 0])

/-- the receiver `l` with `self.current_msg = cur` -/
def selfOf (l : List (Val × Val)) (cur : List Char) : Val :=
  .dict (setPair (attrKey "current_msg") (.str cur) l)

def encRS (l : List (Val × Val)) (st : RS) : Val × Val × Val × Val × Val × Val × Val :=
  (selfOf l st.cur, st.i, st.b, st.ts, encStamped st.out.reverse, .bool st.stop, Val.ofOptNat st.ms)

theorem get_cur (l : List (Val × Val)) (cur : List Char) :
    pyGetAttr (selfOf l cur) "current_msg" = .val (.str cur) := by
  simp only [pyGetAttr, selfOf, attrKey, dictFind_setPair_same]

theorem set_cur (l : List (Val × Val)) (cur cur' : List Char) :
    pySetAttr (selfOf l cur) "current_msg" (.str cur') = .val (selfOf l cur') := by
  simp only [pySetAttr, selfOf, attrKey, setPair_setPair]

theorem get_buf (l : List (Val × Val)) (cur : List Char) :
    pyGetAttr (selfOf l cur) "buffer" = pyGetAttr (.dict l) "buffer" := by
  have hne : "current_msg".toList ≠ "buffer".toList := by decide
  simp only [pyGetAttr, selfOf, attrKey, dictFind_setPair_ne _ _ hne]

/-- loop invariant: a body that simulates `rsStep` on every item makes the whole loop simulate `rsScan` -/
theorem loop_inv (l : List (Val × Val))
    (f : Val → Val × Val × Val × Val × Val × Val × Val → Res (ForInStep (Val × Val × Val × Val × Val × Val × Val)))
    (hstep : ∀ k b st, f (.tuple [Val.ofNat k, Val.ofNat b]) (encRS l st) = .val (.yield (encRS l (rsStep k b st))))
    (rem : List Byte) (k : Nat) (st : RS) :
    forIn (enumFrom k (rem.map Val.ofNat)) (encRS l st) f = Res.val (encRS l (rsScan k rem st)) := by
  induction rem generalizing k st with
  | nil => rfl
  | cons b rem ih =>
    rw [List.map_cons, enumFrom, List.forIn_cons, hstep, bind_val']
    simp only []
    rw [ih, rsScan]

theorem pyLe_lit_ofNat (k n : Nat) : pyLe (.num (k : Rat)) (Val.ofNat n) = .val (.bool (decide (k ≤ n))) := by
  simp [pyLe, cmpNum, Val.ofNat]
theorem pyLe_ofNat_lit (n k : Nat) : pyLe (Val.ofNat n) (.num (k : Rat)) = .val (.bool (decide (n ≤ k))) := by
  simp [pyLe, cmpNum, Val.ofNat]
theorem le48 (n : Nat) : pyLe (.num 48) (Val.ofNat n) = .val (.bool (decide (48 ≤ n))) := pyLe_lit_ofNat 48 n
theorem le65 (n : Nat) : pyLe (.num 65) (Val.ofNat n) = .val (.bool (decide (65 ≤ n))) := pyLe_lit_ofNat 65 n
theorem le97 (n : Nat) : pyLe (.num 97) (Val.ofNat n) = .val (.bool (decide (97 ≤ n))) := pyLe_lit_ofNat 97 n
theorem le57 (n : Nat) : pyLe (Val.ofNat n) (.num 57) = .val (.bool (decide (n ≤ 57))) := pyLe_ofNat_lit n 57
theorem le70 (n : Nat) : pyLe (Val.ofNat n) (.num 70) = .val (.bool (decide (n ≤ 70))) := pyLe_ofNat_lit n 70
theorem le102 (n : Nat) : pyLe (Val.ofNat n) (.num 102) = .val (.bool (decide (n ≤ 102))) := pyLe_ofNat_lit n 102
theorem eq59 (n : Nat) : pyEq (Val.ofNat n) (.num 59) = .val (.bool (decide (n = 59))) := pyEq_ofNat n 59
theorem eq42 (n : Nat) : pyEq (Val.ofNat n) (.num 42) = .val (.bool (decide (n = 42))) := pyEq_ofNat n 42

theorem pyChr_ofNat (n : Nat) : pyChr (Val.ofNat n) = .val (.str [Char.ofNat n]) := by
  simp [pyChr, int?_ofNat]

theorem pyAppend_encStamped (xs : List Msg) (c : Msg) :
    pyAppend (encStamped xs) (.tuple [.str c, .num 0]) = .val (encStamped (xs ++ [c])) := by
  simp [pyAppend, encStamped]

theorem isHexByte_eq (b : Nat) : isHexByte b = ((decide (48 ≤ b) && decide (b ≤ 57)) ||
    (decide (65 ≤ b) && decide (b ≤ 70)) || (decide (97 ≤ b) && decide (b ≤ 102))) := by
  simp [isHexByte, Bool.decide_or, Bool.decide_and, Bool.or_assoc]

/-- `self.buffer[msg_start:]` -/
theorem pySlice_from (buf : List Byte) (k : Nat) :
    pySlice (encBytes buf) (some (Val.ofNat k)) none = .val (encBytes (buf.drop k)) := by
  have i0 : optInt (some (Val.ofNat k)) = .val (some (k : Int)) := by
    have := int?_ofNat k
    unfold Val.ofNat at this ⊢
    simp only [optInt, this]
  have i1 : optInt none = .val none := rfl
  simp only [pySlice, i0, i1, bind_val', encBytes, sliceList, normBound_nonneg, List.length_map, slice]
  congr 2
  rw [← List.map_drop]
  rcases Nat.lt_or_ge buf.length k with hlt | hge
  · rw [Nat.min_eq_right (Nat.le_of_lt hlt), List.drop_eq_nil_of_le (Nat.le_of_lt hlt)]
    simp
  · rw [Nat.min_eq_left hge, List.take_of_length_le (by simp)]

end PyModeS.Tie.Raw
namespace PyModeS.Tie
open PyModeS.Tie.Raw

/-- `read_raw_buffer()` on any receiver `l` whose `buffer` attribute holds the bytes `buf` (`current_msg` may be absent:
    it is created by the first assignment): the returned `[msg, ts]` list is `(readRaw buf).1` (every `ts` is the `0`
    of `Ext.time_time`), `self.buffer` becomes `(readRaw buf).2`, and `self.current_msg` (which the hand model keeps
    only inside `rawScan`) is left at the characters collected last, `(rsScan 0 buf rsInit).cur`. No hypothesis on the
    byte values is needed. -/
theorem TcpClient_read_raw_buffer_tie (l : List (Val × Val)) (buf : List Byte)
    (hbuf : dictFind l (attrKey "buffer") = some (encBytes buf)) :
    Gen.tcpclient.TcpClient_read_raw_buffer (.dict l) =
      .val (.tuple [.dict (setPair (attrKey "buffer") (encBytes (readRaw buf).2)
          (setPair (attrKey "current_msg") (.str (rsScan 0 buf rsInit).cur) l)),
        encStamped (readRaw buf).1]) := by
  unfold Gen.tcpclient.TcpClient_read_raw_buffer
  have h0 : pySetAttr (.dict l) "current_msg" (.str []) = .val (selfOf l []) := rfl
  have hb : pyGetAttr (.dict l) "buffer" = .val (encBytes buf) := by simp only [pyGetAttr, hbuf]
  have he : pyEnumerate (encBytes buf) = .val (.tuple (enumFrom 0 (buf.map Val.ofNat))) := rfl
  have hit : ∀ x, pyIter (.tuple x) = .val x := fun _ => rfl
  simp only []
  rw [h0, bind_val', get_buf, hb, bind_val', he, bind_val', hit, bind_val']
  have hinit : (selfOf l [], Val.none, Val.none, Val.none, Val.tuple [], Val.bool false, Val.none) =
      encRS l rsInit := rfl
  rw [hinit, loop_inv l _ ?step, bind_val']
  case step =>
    intro k b st
    obtain ⟨i0, b0, t0, cur, stop, out, ms⟩ := st
    have hu : pyUnpackCheck (.tuple [Val.ofNat k, Val.ofNat b]) 2 = .val () := rfl
    have h0 : pyIdxN (.tuple [Val.ofNat k, Val.ofNat b]) 0 = .val (Val.ofNat k) := rfl
    have h1 : pyIdxN (.tuple [Val.ofNat k, Val.ofNat b]) 1 = .val (Val.ofNat b) := rfl
    have ht : Gen.Ext.time_time = .val (.num 0) := rfl
    simp only [encRS, hu, h0, h1, ht, bind_val', eq59, eq42, le48, le57, le65, le70, le97, le102, get_cur, set_cur,
      pyChr_ofNat, pyAdd_str, pyTruth_bool, pyNot_bool, Res.pure_eq]
    simp only [pyAppend_encStamped, bind_val', rsStep, isHexByte_eq]
    generalize decide (48 ≤ b) = p1
    generalize decide (b ≤ 57) = p2
    generalize decide (65 ≤ b) = p3
    generalize decide (b ≤ 70) = p4
    generalize decide (97 ≤ b) = p5
    generalize decide (b ≤ 102) = p6
    by_cases h59 : b = 59
    · have h42 : ¬ b = 42 := by omega
      simp only [eq_true h59, eq_false h42, decide_true, decide_false, if_true, if_false, Bool.false_eq_true,
        List.reverse_cons]
      cases p1 <;> cases p2 <;> cases p3 <;> cases p4 <;> cases p5 <;> cases p6 <;> rfl
    · by_cases h42 : b = 42
      · simp only [eq_false h59, eq_true h42, decide_true, decide_false, if_true, if_false, Bool.false_eq_true]
        cases p1 <;> cases p2 <;> cases p3 <;> cases p4 <;> cases p5 <;> cases p6 <;> rfl
      · simp only [eq_false h59, eq_false h42, decide_true, decide_false, if_true, if_false, Bool.false_eq_true]
        cases stop <;> cases p1 <;> cases p2 <;> cases p3 <;> cases p4 <;> cases p5 <;> cases p6 <;> rfl
  have hr : readRaw buf = ((rsScan 0 buf rsInit).out.reverse,
      ((rsScan 0 buf rsInit).ms.map (fun k => buf.drop k)).getD []) :=
    rawScan_eq_rsScan buf [] buf rfl rsInit
  rw [hr]
  generalize rsScan 0 buf rsInit = R
  obtain ⟨i1, b1, t1, cur, stop, out, ms⟩ := R
  simp only [encRS]
  cases ms with
  | none =>
    have e1 : pyIs (Val.ofOptNat none) Val.none = .val (.bool true) := rfl
    rw [e1, bind_val']
    rfl
  | some k =>
    have e1 : pyIs (Val.ofOptNat (some k)) Val.none = .val (.bool false) := by
      simp [pyIs, Val.ofOptNat, Val.beq]
    have e2 : Val.ofOptNat (some k) = Val.ofNat k := rfl
    rw [e1, bind_val']
    simp only [pyTruth_bool, Bool.false_eq_true, if_false]
    rw [get_buf, hb, bind_val', e2, pySlice_from, bind_val']
    rfl

end PyModeS.Tie
