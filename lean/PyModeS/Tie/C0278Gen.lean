/-
  C02 / C07 / C08 transported to the source-generated definitions of py_common.py: the statements below are about
  `Gen.py_common.*`, i.e. about the Lean text py2lean.py produced from the current Python source; each is a tie theorem
  (`Tie/Common.lean`) composed with a theorem of `Properties/C02.lean`, `C07.lean`, `C08.lean`.
-/
import PyModeS.Properties.C02
import PyModeS.Properties.C07
import PyModeS.Properties.C08
import PyModeS.Tie.Common
import PyModeS.Tie.Icao

-- symbolic execution of long generated `do` blocks: generous but finite budget (proof times are seconds)
set_option maxHeartbeats 1000000
namespace PyModeS.CGen
open PyModeS PyModeS.Py PyModeS.CRC PyModeS.Spec

/-- C07: the generated `altitude` decodes every 13-bit string to the Annex 10 altitude (all 8192 codes) -/
theorem altitude_annex10_tie (b : Bits) (h : b.length = 13) :
    Gen.py_common.altitude (Val.ofBits b) = .val (Val.ofOptInt (alt13 (PyModeS.bin2int b))) := by
  rw [Tie.altitude_tie, C07.altitude13_spec b h]; rfl

/-- C07: any other length is rejected with RuntimeError -/
theorem altitude_bad_length_tie (b : Bits) (h : b.length ≠ 13) :
    Gen.py_common.altitude (Val.ofBits b) = .rte := by
  rw [Tie.altitude_tie, C07.altitude13_bad_length b h]; rfl

/-- C08: any string that is not 13 bits long is rejected by the generated `squawk` -/
theorem squawk_bad_length_tie (b : Bits) (h : b.length ≠ 13) :
    Gen.py_common.squawk (Val.ofBits b) = .rte := by
  rw [Tie.squawk_tie, C08.squawk_bad_length b h]; rfl

/-- C02: the generated `icao` returns the upper-cased AA field for DF11/17/18 -/
theorem icao_AA_tie (m : Msg) (h : IsHex m) (hl : 6 ≤ m.length)
    (hdf : PyModeS.df m = 11 ∨ PyModeS.df m = 17 ∨ PyModeS.df m = 18) :
    Gen.py_common.icao (.str m) = .val (.str ((slice 2 8 m).map Char.toUpper)) := by
  rw [Tie.icao_tie m h hl, C02.icao_AA m hdf]; rfl

/-- C02: `None` for every format other than 0/4/5/11/16/17/18/20/21 -/
theorem icao_none_tie (m : Msg) (h : IsHex m) (hl : 6 ≤ m.length)
    (hdf : PyModeS.df m ≠ 11 ∧ PyModeS.df m ≠ 17 ∧ PyModeS.df m ≠ 18 ∧ PyModeS.df m ≠ 0 ∧ PyModeS.df m ≠ 4 ∧
      PyModeS.df m ≠ 5 ∧ PyModeS.df m ≠ 16 ∧ PyModeS.df m ≠ 20 ∧ PyModeS.df m ≠ 21) :
    Gen.py_common.icao (.str m) = .val .none := by
  rw [Tie.icao_tie m h hl, C02.icao_none_otherwise m hdf]; rfl

/-- C02, the headline: a frame whose last 24 bits are the parity of its data XOR the address `A` (any payload `d` of whole
    bytes, DF 0/4/5/16/20/21, any 24-bit `A`), passed to the *generated* `icao`, yields the six upper-case hex digits of `A` -/
theorem icao_AP_encoder_tie (d : Bits) (A : Nat) (hA : A < 2 ^ 24) (h8 : d.length % 8 = 0) (hd : 8 ≤ d.length)
    (hdf : dfB d = 0 ∨ dfB d = 4 ∨ dfB d = 5 ∨ dfB d = 16 ∨ dfB d = 20 ∨ dfB d = 21) :
    Gen.py_common.icao (.str (CRC.encodeAP d A)) = .val (.str (hex6 A)) := by
  have hhex : IsHex (CRC.encodeAP d A) := CRC.hexOfBits_isHex _
  have hlen : 6 ≤ (CRC.encodeAP d A).length := by rw [CRC.encodeAP_length]; omega
  rw [Tie.icao_tie _ hhex hlen, C02.icao_AP_encoder d A hA h8 hd hdf]; rfl

end PyModeS.CGen
