/-
  Tie: generated `bds17.py` (`cap17`, `is17`) = hand model (`Model/Commb.lean`) on every 28-digit hex frame.
  The two list comprehensions over `enumerate(d[:24])` are evaluated for an arbitrary bit string / table.
-/
import PyModeS.Tie.Basic
import PyModeS.Tie.Common
import PyModeS.Generated.Src.bds17
import Mathlib.Tactic.SplitIfs

-- symbolic execution of long generated `do` blocks: generous but finite budget (proof times are seconds)
set_option maxHeartbeats 1000000

set_option linter.unusedSimpArgs false
set_option linter.unusedTactic false
set_option linter.unreachableTactic false
set_option linter.style.nameCheck false
namespace PyModeS.Tie
open PyModeS PyModeS.Py PyModeS.CRC

/-- a list of strings of the hand model as the Python list of `str` -/
def Val.ofStrs (l : List String) : Val := .tuple (l.map fun s => Val.str s.toList)

/-- positions (counted from `k`) of the set bits -/
def onesFrom (k : Nat) : Bits → List Nat
  | [] => []
  | x :: xs => if x then k :: onesFrom (k + 1) xs else onesFrom (k + 1) xs

theorem filter_range_onesFrom (b : Bits) (k : Nat) :
    ((List.range b.length).filter (fun i => b.getD i false)).map (· + k) = onesFrom k b := by
  induction b generalizing k with
  | nil => rfl
  | cons x xs ih =>
    rw [List.length_cons, List.range_succ_eq_map, List.filter_cons, List.filter_map]
    have hf : ((fun i => (x :: xs).getD i false) ∘ Nat.succ) = fun i => xs.getD i false := by
      funext i; simp
    rw [hf]
    have hm : List.map (· + k) (List.map Nat.succ (List.filter (fun i => xs.getD i false) (List.range xs.length))) =
        List.map (· + (k + 1)) (List.filter (fun i => xs.getD i false) (List.range xs.length)) := by
      rw [List.map_map]
      apply List.map_congr_left
      intro i _
      simp only [Function.comp, Nat.succ_eq_add_one]
      omega
    cases x
    · simp only [List.getD_cons_zero, Bool.false_eq_true, if_false, onesFrom]
      rw [hm, ih]
    · simp only [List.getD_cons_zero, if_true, onesFrom, List.map_cons, Nat.zero_add]
      rw [hm, ih]

theorem onesFrom_zero (b : Bits) :
    onesFrom 0 b = (List.range b.length).filter (fun i => b.getD i false) := by
  rw [← filter_range_onesFrom]
  simp

/-- `[i for i, v in enumerate(bits) if v == "1"]` for any comprehension body that behaves as the source's -/
theorem comp_enum (f : Val → Res (Option Val))
    (hf : ∀ (i : Nat) (x : Bool), f (.tuple [Val.ofNat i, .str [x.toDigit]]) =
      .val (if x then some (Val.ofNat i) else none))
    (b : Bits) (k : Nat) :
    compList f (enumFrom k (b.map fun x => Val.str [x.toDigit])) = .val ((onesFrom k b).map Val.ofNat) := by
  induction b generalizing k with
  | nil => rfl
  | cons x xs ih =>
    simp only [List.map_cons, enumFrom, compList, hf, ih, onesFrom]
    cases x <;> rfl

/-- `t[i]` for a tuple and a non-negative integer value -/
private theorem pyIdx_tuple_nat (l : List Val) (n : Nat) :
    Py.pyIdx (.tuple l) (Val.ofNat n) = (idxR l n >>= fun c => .val c) := by
  have : ¬ ((n : Int) < 0) := by omega
  have hi : (Val.num (n : Rat)).int? = some (n : Int) := int?_ofNat n
  simp only [Py.pyIdx, Val.ofNat, hi, idxList, this, if_false, Int.toNat_natCast, idxR]
  cases l[n]? <;> rfl

private theorem mapM_cons' {α β} (f : α → Res β) (a : α) (as : List α) :
    Res.mapM f (a :: as) = (do let b ← f a; let bs ← Res.mapM f as; Res.val (b :: bs)) := by
  simp only [Res.mapM]
  rcases f a with (b | _ | _)
  · rcases Res.mapM f as with (bs | _ | _) <;> rfl
  · rfl
  · rfl

/-- `["BDS" + tbl[i] for i in idx]` for any table of strings and any comprehension body that behaves as the source's -/
theorem comp_lookup (tbl : List String) (g : Val → Res (Option Val))
    (hg : ∀ i : Nat, g (Val.ofNat i) = (idxR tbl i >>= fun s => .val (some (Val.str ("BDS" ++ s).toList))))
    (idx : List Nat) :
    compList g (idx.map Val.ofNat) =
      (Res.mapM (fun i => do let s ← idxR tbl i; pure ("BDS" ++ s)) idx >>= fun l =>
        .val (l.map fun s => Val.str s.toList)) := by
  induction idx with
  | nil => rfl
  | cons i idx ih =>
    rw [List.map_cons, mapM_cons']
    simp only [compList, hg, ih]
    rcases idxR tbl i with (s | _ | _)
    · simp only [bind_val', Res.pure_eq]
      rcases Res.mapM (fun i => do let s ← idxR tbl i; pure ("BDS" ++ s)) idx with (l | _ | _) <;> rfl
    · rfl
    · rfl

theorem pyEnumerate_ofBits (b : Bits) :
    pyEnumerate (Val.ofBits b) = .val (.tuple (enumFrom 0 (b.map fun x => Val.str [x.toDigit]))) := by
  simp only [pyEnumerate, pyIter, Val.ofBits, List.map_map, bind_val', Res.pure_eq, Function.comp_def]

theorem pyComp_tuple (l : List Val) (f : Val → Res (Option Val)) :
    pyComp (.tuple l) f = (compList f l >>= fun r => .val (.tuple r)) := by
  simp only [pyComp, pyIter, bind_val', Res.pure_eq]

/-- the tuple literal of the source is the table of the hand model -/
private theorem allbds_lit :
    (Val.tuple [(Val.str ['0', '5']), (Val.str ['0', '6']), (Val.str ['0', '7']), (Val.str ['0', '8']), (Val.str ['0', '9']), (Val.str ['0', 'A']), (Val.str ['2', '0']), (Val.str ['2', '1']), (Val.str ['4', '0']), (Val.str ['4', '1']), (Val.str ['4', '2']), (Val.str ['4', '3']), (Val.str ['4', '4']), (Val.str ['4', '5']), (Val.str ['4', '8']), (Val.str ['5', '0']), (Val.str ['5', '1']), (Val.str ['5', '2']), (Val.str ['5', '3']), (Val.str ['5', '4']), (Val.str ['5', '5']), (Val.str ['5', '6']), (Val.str ['5', 'F']), (Val.str ['6', '0'])]) =
      Val.tuple (Tables.cap17All.map fun s => Val.str s.toList) := rfl

/-- `bds17.cap17(msg)`: the list of `"BDSxy"` strings -/
theorem cap17_tie (m : Msg) (h : IsHex m) (hl : m.length = 28) :
    Gen.bds17.cap17 (.str m) = (PyModeS.cap17 (hex2binM m) >>= fun l => .val (Val.ofStrs l)) := by
  unfold Gen.bds17.cap17 PyModeS.cap17
  rw [allbds_lit]
  generalize Tables.cap17All = tbl
  simp only [data_str, bind_val', hex2bin_data m h hl, dataR_hex m hl]
  generalize slice 32 88 (hex2binM m) = d
  simp only [pySliceTo_ofBits, bind_val', pyEnumerate_ofBits, pyComp_tuple, Res.pure_eq]
  have e1 := comp_enum (fun x__1 => do
        pyUnpackCheck x__1 2
        let i ← pyIdxN x__1 0
        let v ← pyIdxN x__1 1
        if !(pyTruth (← pyEq v (Val.str ['1']))) then return none
        return some i) (by intro i x; cases x <;> rfl) (d.take 24) 0
  simp only [Res.pure_eq] at e1
  rw [e1]
  simp only [bind_val']
  have e2 := comp_lookup tbl (fun x__2 => do
        return some (← pyAdd (Val.str ['B', 'D', 'S']) (← Py.pyIdx (Val.tuple (tbl.map fun s => Val.str s.toList)) x__2)))
    (by
      intro i
      simp only [pyIdx_tuple_nat, idxR, List.getElem?_map]
      cases tbl[i]? with
      | none => rfl
      | some s =>
        simp only [Option.map_some, bind_val', Res.pure_eq, String.toList_append]
        rfl)
    (onesFrom 0 (d.take 24))
  simp only [Res.pure_eq] at e2
  rw [pyComp_tuple, e2, onesFrom_zero]
  generalize Res.mapM (fun i => do let s ← idxR tbl i; pure ("BDS" ++ s))
    (List.filter (fun i => (List.take 24 d).getD i false) (List.range (List.take 24 d).length)) = r
  rcases r with (l | _ | _) <;> rfl

private theorem str_beq_toList (s t : String) : (Val.str s.toList).beq (Val.str t.toList) = (s == t) := by
  simp only [Val.beq]
  by_cases hst : s = t
  · subst hst; simp
  · have : ¬ (s.toList = t.toList) := fun e => hst (String.toList_inj.mp e)
    simp [hst, this]

/-- `x not in caps` for a list of strings -/
theorem pyNotIn_ofStrs (x : String) (l : List String) :
    pyNotIn (.str x.toList) (Val.ofStrs l) = .val (.bool (!l.contains x)) := by
  simp only [pyNotIn, pyIn, Val.ofStrs, bind_val', pyNot, Val.truth]
  congr 3
  induction l with
  | nil => rfl
  | cons s l ih =>
    rw [List.map_cons, List.any_cons, ih, str_beq_toList, List.contains_cons]

private theorem bds20_lit : ['B', 'D', 'S', '2', '0'] = "BDS20".toList := rfl

/-- `bds17.is17(msg)` -/
theorem is17_tie (m : Msg) (h : IsHex m) (hl : m.length = 28) :
    Gen.bds17.is17 (.str m) = (PyModeS.is17 (hex2binM m) >>= fun b => .val (.bool b)) := by
  unfold Gen.bds17.is17 PyModeS.is17
  rw [allzeros_str m h hl, allzerosB_hex m hl, cap17_tie m h hl]
  simp only [data_str, bind_val', hex2bin_data m h hl, dataR_hex m hl]
  have hd := mb_length m hl
  generalize PyModeS.cap17 (hex2binM m) = rc
  generalize slice 32 88 (hex2binM m) = d at hd ⊢
  by_cases hz : PyModeS.bin2int d = 0
  · simp [hz]
  simp only [hz, decide_false, pyTruth_bool, Bool.false_eq_true, if_false, pySliceNN_ofBits, bind_val', bin2int_ofBits]
  rw [bin2intR_slice_of_lt d 24 56 (by decide) (by omega)]
  simp only [bind_val']
  have hne : pyNe (Val.ofNat (PyModeS.bin2int (slice 24 56 d))) (Val.num 0) =
      .val (.bool (!decide (PyModeS.bin2int (slice 24 56 d) = 0))) := by
    have := ofNat_beq (PyModeS.bin2int (slice 24 56 d)) 0
    simp only [Nat.cast_zero] at this
    simp only [pyNe, this]
  rw [hne]
  by_cases hr : PyModeS.bin2int (slice 24 56 d) = 0
  · simp only [hr, decide_true, Bool.not_true, bind_val', pyTruth_bool, Bool.false_eq_true, if_false, ne_eq,
      not_true_eq_false]
    rcases rc with (l | _ | _)
    · simp only [bind_val', bds20_lit, pyNotIn_ofStrs, pyTruth_bool, Res.pure_eq]
      cases l.contains "BDS20" <;> rfl
    · rfl
    · rfl
  · simp [hr]

end PyModeS.Tie
