/- every tie module (generated definition = hand-written model); built by MANIFEST.setup_cmd -/
import PyModeS.Tie.Basic
import PyModeS.Tie.Common
import PyModeS.Tie.Surv
import PyModeS.Tie.Bds05
import PyModeS.Tie.Bds08
import PyModeS.Tie.Bds10
import PyModeS.Tie.Bds20
import PyModeS.Tie.Bds40
import PyModeS.Tie.Bds44
import PyModeS.Tie.Bds45
import PyModeS.Tie.Bds50
import PyModeS.Tie.Bds53
import PyModeS.Tie.Bds60
import PyModeS.Tie.Bds61
import PyModeS.Tie.Bds62
import PyModeS.Tie.C11Gen
import PyModeS.Tie.C12Gen
