/-
  Tie: generated `decoder/adsb.py` (quality indicators and dispatchers) = hand model (`Model/Adsb.lean`).

  * bit picks with a type-code guard: `oe_flag`, `version`, `nic_s`, `nic_a_c`, `nic_b` (any hex frame of >= 10 digits);
  * table look-ups `nuc_p`, `nuc_v`, `nac_p`, `nac_v`, `sil`, `nic_v1`, `nic_v2`: the generated `Val.dict` tables of
    `Generated/Src/uncertainty.lean` against `Tables.*`, by evaluation on the finite key sets (type code < 32, field
    value < 2^width, `NICs` in {0, 1, >= 2} / {0, 1, 2, 3, >= 4});
  * dispatchers `altitude`, `position_with_ref`, `velocity`, `position`: routing by type code relative to the decoders
    of bds05 / bds06 / bds09, which stay opaque (`*_tie`), and, given the ties of those decoders as hypotheses,
    equality with `adsbAltitude` / `positionWithRef` / `position` (`*_tie_of_callee(s)`);
  * `speed_heading` relative to `Gen.adsb.velocity` (no hand-model counterpart); `df`, `icao`, `typecode` re-exports.

  Theorems whose plain name would clash with `Tie/Common.lean` carry the prefix `adsb_`.
-/
import PyModeS.Tie.Basic
import PyModeS.Tie.Common
import PyModeS.Tie.Icao
import PyModeS.Generated.Src.adsb
import PyModeS.Proofs.Fields.Frame
import Mathlib.Tactic.SplitIfs

-- symbolic execution of long generated `do` blocks: generous but finite budget (proof times are seconds)
set_option maxHeartbeats 1000000

set_option linter.unusedSimpArgs false
set_option linter.unusedTactic false
set_option linter.unreachableTactic false
set_option linter.style.nameCheck false
namespace PyModeS.Tie
open PyModeS PyModeS.Py PyModeS.CRC

/- helper lemmas and encoders live in `PyModeS.Tie.Adsb`; the tie theorems in `PyModeS.Tie` -/
namespace Adsb
end Adsb
open Adsb

namespace Adsb

/-- `common.typecode(msg)` in terms of the bit string of the frame -/
theorem typecode_hex (m : Msg) (h : IsHex m) (hl : 10 ≤ m.length) :
    Gen.adsb.typecode (.str m) = .val (Val.ofOptNat (tcB (hex2binM m))) := by
  unfold Gen.adsb.typecode
  rw [typecode_str m h hl, typecode_eq]

theorem ne_nil {m : Msg} (hl : 10 ≤ m.length) : m ≠ [] := by
  intro e; rw [e] at hl; simp at hl

/-- `typecode(msg) != k` -/
theorem pyNe_ofOptNat (o : Option Nat) (k : Nat) :
    pyNe (Val.ofOptNat o) (.num (k : Rat)) = .val (.bool (decide (o ≠ some k))) := by
  rcases o with _ | n
  · simp [pyNe, Val.ofOptNat, Val.beq]
  · simp only [pyNe, Val.ofOptNat, Val.beq]
    by_cases e : n = k
    · simp [e]
    · have : ¬ ((n : Rat) = (k : Rat)) := by exact_mod_cast e
      simp [e, this]

theorem ofNat_b2n (b : Bool) : Val.num (if b = true then 1 else 0) = Val.ofNat (b2n b) := by
  cases b <;> simp [Val.ofNat, b2n]

/-- `int(msgbin[k])` -/
theorem int_bit (d : Bits) (k : Nat) :
    (pyIdxN (Val.ofBits d) k >>= pyInt1) = (idxR d k >>= fun b => .val (Val.ofNat (b2n b))) := by
  rw [pyIdxN_ofBits]
  rcases idxR d k with (b | _ | _)
  · simp only [bind_val', pyInt1_digit, ofNat_b2n]
  · rfl
  · rfl

end Adsb

theorem oe_flag_tie (m : Msg) (h : IsHex m) (hne : m ≠ []) :
    Gen.adsb.oe_flag (.str m) = (PyModeS.oeFlag (hex2binM m) >>= fun n => .val (Val.ofNat n)) := by
  unfold Gen.adsb.oe_flag PyModeS.oeFlag
  rw [hex2bin_str m h hne, bind_val']
  have := int_bit (hex2binM m) 53
  generalize hex2binM m = d at this ⊢
  rcases hr : idxR d 53 with (b | _ | _) <;> rw [hr] at this <;> simp_all

namespace Adsb

/-- `typecode(msg) != k` for a literal `k` -/
theorem pyNe_lit (o : Option Nat) (k : Nat) [k.AtLeastTwo] :
    pyNe (Val.ofOptNat o) (.num ofNat(k)) = .val (.bool (decide (o ≠ some ofNat(k)))) := by
  have hk := pyNe_ofOptNat o (OfNat.ofNat k)
  simp only [Nat.cast_ofNat] at hk
  exact hk

end Adsb

theorem version_tie (m : Msg) (h : IsHex m) (hl : 10 ≤ m.length) :
    Gen.adsb.version (.str m) = (PyModeS.version (hex2binM m) >>= fun n => .val (Val.ofNat n)) := by
  unfold Gen.adsb.version PyModeS.version
  rw [typecode_hex m h hl, bind_val', pyNe_lit, bind_val', hex2bin_str m h (ne_nil hl)]
  by_cases e : tcB (hex2binM m) = some 31
  · simp only [e, pyTruth_bool, ne_eq, not_true_eq_false, decide_false, Bool.false_eq_true, if_false, bind_val',
      pySliceNN_ofBits, bin2int_ofBits]
  · simp only [e, pyTruth_bool, ne_eq, not_false_eq_true, decide_true, if_true, bind_rte']

theorem nic_s_tie (m : Msg) (h : IsHex m) (hl : 10 ≤ m.length) :
    Gen.adsb.nic_s (.str m) = (PyModeS.nicS (hex2binM m) >>= fun n => .val (Val.ofNat n)) := by
  unfold Gen.adsb.nic_s PyModeS.nicS
  rw [typecode_hex m h hl, bind_val', pyNe_lit, bind_val', hex2bin_str m h (ne_nil hl)]
  by_cases e : tcB (hex2binM m) = some 31
  · simp only [e, pyTruth_bool, ne_eq, not_true_eq_false, decide_false, Bool.false_eq_true, if_false, bind_val',
      pyIdxN_ofBits]
    generalize idxR (hex2binM m) 75 = r
    rcases r with (b | _ | _) <;> simp [ofNat_b2n]
  · simp only [e, pyTruth_bool, ne_eq, not_false_eq_true, decide_true, if_true, bind_rte']

/-- Python returns the pair `(NICa, NICc)` -/
theorem nic_a_c_tie (m : Msg) (h : IsHex m) (hl : 10 ≤ m.length) :
    Gen.adsb.nic_a_c (.str m) =
      (PyModeS.nicAC (hex2binM m) >>= fun p => .val (.tuple [Val.ofNat p.1, Val.ofNat p.2])) := by
  unfold Gen.adsb.nic_a_c PyModeS.nicAC
  rw [typecode_hex m h hl, bind_val', pyNe_lit, bind_val', hex2bin_str m h (ne_nil hl)]
  by_cases e : tcB (hex2binM m) = some 31
  · simp only [e, pyTruth_bool, ne_eq, not_true_eq_false, decide_false, Bool.false_eq_true, if_false, bind_val',
      pyIdxN_ofBits]
    generalize idxR (hex2binM m) 75 = r
    generalize idxR (hex2binM m) 51 = r'
    rcases r with (b | _ | _) <;> rcases r' with (b' | _ | _) <;> simp [ofNat_b2n]
  · simp only [e, pyTruth_bool, ne_eq, not_false_eq_true, decide_true, if_true, bind_rte']

/-! ### comparisons of a type code with a literal -/

namespace Adsb

theorem lt_lit (n k : Nat) [k.AtLeastTwo] :
    pyLt (.num (n : Rat)) (.num (ofNat(k))) = .val (.bool (decide (n < ofNat(k)))) := by
  simp [pyLt_num]
theorem le_lit (n k : Nat) [k.AtLeastTwo] :
    pyLe (.num (n : Rat)) (.num (ofNat(k))) = .val (.bool (decide (n ≤ ofNat(k)))) := by
  simp [pyLe_num]
theorem lit_le (n k : Nat) [k.AtLeastTwo] :
    pyLe (.num (ofNat(k))) (.num (n : Rat)) = .val (.bool (decide (ofNat(k) ≤ n))) := by
  simp [pyLe_num]
theorem gt_lit (n k : Nat) [k.AtLeastTwo] :
    pyGt (.num (n : Rat)) (.num (ofNat(k))) = .val (.bool (decide (ofNat(k) < n))) := by
  simp [pyGt_num]
theorem ge_lit (n k : Nat) [k.AtLeastTwo] :
    pyGe (.num (n : Rat)) (.num (ofNat(k))) = .val (.bool (decide (ofNat(k) ≤ n))) := by
  simp [pyGe_num]
theorem eq_lit (n k : Nat) [k.AtLeastTwo] :
    pyEq (.num (n : Rat)) (.num (ofNat(k))) = .val (.bool (decide (n = ofNat(k)))) := by
  have := pyEq_ofNat n (ofNat(k))
  simp only [Nat.cast_ofNat] at this
  exact this

/-- `tc is None or tc < 5 or tc == 19 or tc > 22` -/
def posBad : Option Nat → Bool
  | none => true
  | some tc => decide (tc < 5 ∨ tc = 19 ∨ tc > 22)

theorem guard_pos (o : Option Nat) :
    (do let b__1 ← pyIs (Val.ofOptNat o) Val.none; if pyTruth b__1 then pure b__1 else (do let b__2 ← pyLt (Val.ofOptNat o) (Val.num 5); if pyTruth b__2 then pure b__2 else (do let b__3 ← pyEq (Val.ofOptNat o) (Val.num 19); if pyTruth b__3 then pure b__3 else pyGt (Val.ofOptNat o) (Val.num 22)))) =
      .val (.bool (posBad o)) := by
  rcases o with _ | tc
  · rfl
  · simp only [Val.ofOptNat, pyIs_none_num, bind_val', pyTruth_bool, Bool.false_eq_true, if_false, lt_lit, eq_lit, gt_lit,
      posBad, Res.pure_eq]
    by_cases h1 : tc < 5
    · simp [h1]
    by_cases h2 : tc = 19
    · simp [h2]
    by_cases h3 : 22 < tc <;> simp [h1, h2, h3]

/-- `tc is None or tc < 9 or tc > 18` -/
def nicbBad : Option Nat → Bool
  | none => true
  | some tc => decide (tc < 9 ∨ tc > 18)

theorem guard_nicb (o : Option Nat) :
    (do let b__1 ← pyIs (Val.ofOptNat o) Val.none; if pyTruth b__1 then pure b__1 else (do let b__2 ← pyLt (Val.ofOptNat o) (Val.num 9); if pyTruth b__2 then pure b__2 else pyGt (Val.ofOptNat o) (Val.num 18))) =
      .val (.bool (nicbBad o)) := by
  rcases o with _ | tc
  · rfl
  · simp only [Val.ofOptNat, pyIs_none_num, bind_val', pyTruth_bool, Bool.false_eq_true, if_false, lt_lit, gt_lit,
      nicbBad, Res.pure_eq]
    by_cases h1 : tc < 9
    · simp [h1]
    by_cases h3 : 18 < tc <;> simp [h1, h3]

end Adsb

theorem nic_b_tie (m : Msg) (h : IsHex m) (hl : 10 ≤ m.length) :
    Gen.adsb.nic_b (.str m) = (PyModeS.nicB (hex2binM m) >>= fun n => .val (Val.ofNat n)) := by
  unfold Gen.adsb.nic_b PyModeS.nicB
  rw [typecode_hex m h hl, bind_val', guard_nicb, bind_val', hex2bin_str m h (ne_nil hl)]
  generalize tcB (hex2binM m) = o
  rcases o with _ | tc
  · rfl
  · simp only [nicbBad, pyTruth_bool, decide_eq_true_eq]
    by_cases e : tc < 9 ∨ tc > 18
    · simp only [e, if_true, bind_rte']
    · simp only [e, if_false, bind_val', pyIdxN_ofBits]
      generalize idxR (hex2binM m) 39 = r
      rcases r with (b | _ | _) <;> simp [ofNat_b2n]

/-! ### table look-ups -/

namespace Adsb

theorem bin2intR_val_lt {d : Bits} {a b v : Nat} (h : bin2intR (slice a b d) = .val v) : v < 2 ^ (b - a) := by
  unfold bin2intR at h
  split at h
  · cases h
  · injection h with h
    subst h
    have h1 := bin2int_lt (slice a b d)
    have h2 : (slice a b d).length ≤ b - a := by simp [slice]
    exact Nat.lt_of_lt_of_le h1 (Nat.pow_le_pow_right (by omega) h2)

/-- encoding of `(value, a, b)` as Python returns it -/
def enc3 (p : Nat × Option Rat × Option Rat) : Val :=
  .tuple [Val.ofNat p.1, Val.ofOptRat p.2.1, Val.ofOptRat p.2.2]

end Adsb

/-- Python returns `(NUCv, HVE, VVE)` -/
theorem nuc_v_tie (m : Msg) (h : IsHex m) (hl : 10 ≤ m.length) :
    Gen.adsb.nuc_v (.str m) = (PyModeS.nucV (hex2binM m) >>= fun p => .val (enc3 p)) := by
  unfold Gen.adsb.nuc_v PyModeS.nucV
  rw [typecode_hex m h hl, bind_val', pyNe_lit, bind_val', hex2bin_str m h (ne_nil hl)]
  by_cases e : tcB (hex2binM m) = some 19
  · simp only [e, pyTruth_bool, ne_eq, not_true_eq_false, decide_false, Bool.false_eq_true, if_false, bind_val',
      pySliceNN_ofBits, bin2int_ofBits]
    rcases hr : bin2intR (slice 42 45 (hex2binM m)) with (v | _ | _)
    · have hv := bin2intR_val_lt hr
      simp only [bind_val']
      clear hr
      interval_cases v <;> rfl
    · rfl
    · rfl
  · simp only [e, pyTruth_bool, ne_eq, not_false_eq_true, decide_true, if_true, bind_rte']

/-- Python returns `(NACv, HFOMr, VFOMr)` -/
theorem nac_v_tie (m : Msg) (h : IsHex m) (hl : 10 ≤ m.length) :
    Gen.adsb.nac_v (.str m) = (PyModeS.nacV (hex2binM m) >>= fun p => .val (enc3 p)) := by
  unfold Gen.adsb.nac_v PyModeS.nacV
  rw [typecode_hex m h hl, bind_val', pyNe_lit, bind_val', hex2bin_str m h (ne_nil hl)]
  by_cases e : tcB (hex2binM m) = some 19
  · simp only [e, pyTruth_bool, ne_eq, not_true_eq_false, decide_false, Bool.false_eq_true, if_false, bind_val',
      pySliceNN_ofBits, bin2int_ofBits]
    rcases hr : bin2intR (slice 42 45 (hex2binM m)) with (v | _ | _)
    · have hv := bin2intR_val_lt hr
      simp only [bind_val']
      clear hr
      interval_cases v <;> rfl
    · rfl
    · rfl
  · simp only [e, pyTruth_bool, ne_eq, not_false_eq_true, decide_true, if_true, bind_rte']

namespace Adsb

/-- `tc not in [29, 31]` -/
theorem notIn_29_31 (o : Option Nat) :
    pyNotIn (Val.ofOptNat o) (.tuple [.num 29, .num 31]) = .val (.bool (decide (o ≠ some 29 ∧ o ≠ some 31))) := by
  rcases o with _ | n
  · rfl
  · have := pyNotIn_ofNat n [29, 31]
    simp only [List.map_cons, List.map_nil, Nat.cast_ofNat] at this
    simp only [Val.ofOptNat]
    rw [show Val.num (n : Rat) = Val.ofNat n from rfl, this]
    simp

end Adsb

/-- Python returns `(NACp, EPU, VEPU)` -/
theorem nac_p_tie (m : Msg) (h : IsHex m) (hl : 10 ≤ m.length) :
    Gen.adsb.nac_p (.str m) = (PyModeS.nacP (hex2binM m) >>= fun p => .val (enc3 p)) := by
  unfold Gen.adsb.nac_p PyModeS.nacP
  rw [typecode_hex m h hl, bind_val', notIn_29_31, bind_val', hex2bin_str m h (ne_nil hl)]
  by_cases e : tcB (hex2binM m) = some 29
  · simp only [e, Val.ofOptNat, bind_val', pySliceNN_ofBits, bin2int_ofBits]
    rcases hr : bin2intR (slice 71 75 (hex2binM m)) with (v | _ | _)
    · have hv := bin2intR_val_lt hr
      clear hr
      interval_cases v <;> rfl
    · rfl
    · rfl
  by_cases e' : tcB (hex2binM m) = some 31
  · simp only [e', Val.ofOptNat, bind_val', pySliceNN_ofBits, bin2int_ofBits]
    rcases hr : bin2intR (slice 76 80 (hex2binM m)) with (v | _ | _)
    · have hv := bin2intR_val_lt hr
      clear hr
      interval_cases v <;> rfl
    · rfl
    · rfl
  · have hg : decide (tcB (hex2binM m) ≠ some 29 ∧ tcB (hex2binM m) ≠ some 31) = true := by simp [e, e']
    rw [hg]
    simp only [pyTruth_bool, if_true, bind_rte']

namespace Adsb

/-- `version == 2` for `version` an integer or `None` -/
theorem pyEq_optlit (o : Option Nat) (k : Nat) [k.AtLeastTwo] :
    pyEq (Val.ofOptNat o) (.num ofNat(k)) = .val (.bool (decide (o = some ofNat(k)))) := by
  rcases o with _ | n
  · simp [pyEq, Val.ofOptNat, Val.beq]
  · simp only [Val.ofOptNat, eq_lit, Option.some.injEq]

theorem ofOptNat_some (n : Nat) : Val.ofOptNat (some n) = .num (n : Rat) := rfl

/-- encoding of `(PE_RCu, PE_VPL, base)` as Python returns it -/
def encSil (p : Option Rat × Option Rat × String) : Val :=
  .tuple [Val.ofOptRat p.1, Val.ofOptRat p.2.1, .str p.2.2.toList]

end Adsb

/-- Python returns `(PE_RCu, PE_VPL, base)`; `version` is an integer or `None` -/
theorem sil_tie (m : Msg) (h : IsHex m) (hl : 10 ≤ m.length) (version : Option Nat) :
    Gen.adsb.sil (.str m) (Val.ofOptNat version) =
      (PyModeS.sil (hex2binM m) version >>= fun p => .val (encSil p)) := by
  unfold Gen.adsb.sil PyModeS.sil
  rw [typecode_hex m h hl, bind_val', notIn_29_31, bind_val', hex2bin_str m h (ne_nil hl)]
  have hver : pyEq (Val.ofOptNat version) (Val.num 2) = .val (.bool (decide (version = some 2))) := pyEq_optlit version 2
  by_cases e : tcB (hex2binM m) = some 29
  · simp only [e, hver, ofOptNat_some, bind_val', pySliceNN_ofBits, bin2int_ofBits, pyIdxN_ofBits]
    rcases hr : bin2intR (slice 76 78 (hex2binM m)) with (v | _ | _)
    · have hv := bin2intR_val_lt hr
      clear hr
      by_cases hv2 : version = some 2
      · simp only [hv2]
        rcases idxR (hex2binM m) 39 with (b | _ | _)
        · cases b <;> interval_cases v <;> rfl
        · interval_cases v <;> rfl
        · interval_cases v <;> rfl
      · simp only [hv2]
        interval_cases v <;> rfl
    · rfl
    · rfl
  by_cases e' : tcB (hex2binM m) = some 31
  · simp only [e', hver, ofOptNat_some, bind_val', pySliceNN_ofBits, bin2int_ofBits, pyIdxN_ofBits]
    rcases hr : bin2intR (slice 82 84 (hex2binM m)) with (v | _ | _)
    · have hv := bin2intR_val_lt hr
      clear hr
      by_cases hv2 : version = some 2
      · simp only [hv2]
        rcases idxR (hex2binM m) 86 with (b | _ | _)
        · cases b <;> interval_cases v <;> rfl
        · interval_cases v <;> rfl
        · interval_cases v <;> rfl
      · simp only [hv2]
        interval_cases v <;> rfl
    · rfl
    · rfl
  · have hg : decide (tcB (hex2binM m) ≠ some 29 ∧ tcB (hex2binM m) ≠ some 31) = true := by simp [e, e']
    rw [hg]
    simp only [pyTruth_bool, if_true, bind_rte']
    generalize tcB (hex2binM m) = o at e e'
    rcases o with _ | tc
    · rfl
    · have h1 : tc ≠ 29 := fun c => e (by rw [c])
      have h2 : tc ≠ 31 := fun c => e' (by rw [c])
      simp only [h1, h2, ne_eq, not_false_eq_true, and_self, if_true, bind_rte']

namespace Adsb

/-- encoding of `(NUCp, HPL, RCu, RCv)` as Python returns it -/
def enc4 (p : Nat × Option Rat × Option Rat × Option Rat) : Val :=
  .tuple [Val.ofNat p.1, Val.ofOptRat p.2.1, Val.ofOptRat p.2.2.1, Val.ofOptRat p.2.2.2]

end Adsb

/-- Python returns `(NUCp, HPL, RCu, RCv)` -/
theorem nuc_p_tie (m : Msg) (h : IsHex m) (hl : 10 ≤ m.length) :
    Gen.adsb.nuc_p (.str m) = (PyModeS.nucP (hex2binM m) >>= fun p => .val (enc4 p)) := by
  unfold Gen.adsb.nuc_p PyModeS.nucP
  rw [typecode_hex m h hl, bind_val', guard_pos, bind_val']
  have hlt : ∀ tc, tcB (hex2binM m) = some tc → tc < 32 := fun tc e => Fields.tcB_lt e
  generalize tcB (hex2binM m) = o at hlt
  rcases o with _ | tc
  · rfl
  · have := hlt tc rfl
    clear hlt
    interval_cases tc <;> rfl

/-- Python returns `(NIC, Rc, VPL)`; `NICs` is a non-negative integer -/
theorem nic_v1_tie (m : Msg) (h : IsHex m) (hl : 10 ≤ m.length) (nics : Nat) :
    Gen.adsb.nic_v1 (.str m) (Val.ofNat nics) = (PyModeS.nicV1 (hex2binM m) nics >>= fun p => .val (enc3 p)) := by
  unfold Gen.adsb.nic_v1 PyModeS.nicV1
  rw [typecode_hex m h hl, bind_val', guard_pos, bind_val']
  have hlt : ∀ tc, tcB (hex2binM m) = some tc → tc < 32 := fun tc e => Fields.tcB_lt e
  generalize tcB (hex2binM m) = o at hlt
  rcases o with _ | tc
  · rfl
  · have := hlt tc rfl
    clear hlt
    rcases nics with _ | _ | n
    · interval_cases tc <;> rfl
    · interval_cases tc <;> rfl
    · interval_cases tc <;> rfl

namespace Adsb

theorem pyMul_ofNat_two (a : Nat) : pyMul (Val.ofNat a) (Val.num 2) = .val (Val.ofNat (a * 2)) := by
  simp [Val.ofNat, pyMul_num]

theorem pyAdd_ofNat (a b : Nat) : pyAdd (Val.ofNat a) (Val.ofNat b) = .val (Val.ofNat (a + b)) := by
  simp [Val.ofNat, pyAdd_num]

/-- encoding of `(NIC, Rc)`, or `(None, None)` when a look-up inside the `try` failed -/
def encNic2 : Option (Nat × Option Rat) → Val
  | none => .tuple [.none, .none]
  | some p => .tuple [Val.ofNat p.1, Val.ofOptRat p.2]

end Adsb

/-- Python returns `(NIC, Rc)` or `(None, None)`; `NICa`, `NICbc` are non-negative integers -/
theorem nic_v2_tie (m : Msg) (h : IsHex m) (hl : 10 ≤ m.length) (nica nicbc : Nat) :
    Gen.adsb.nic_v2 (.str m) (Val.ofNat nica) (Val.ofNat nicbc) =
      (PyModeS.nicV2 (hex2binM m) nica nicbc >>= fun p => .val (encNic2 p)) := by
  unfold Gen.adsb.nic_v2 PyModeS.nicV2
  rw [typecode_hex m h hl, bind_val', guard_pos, bind_val']
  simp only [pyMul_ofNat_two, pyAdd_ofNat, bind_val']
  have hlt : ∀ tc, tcB (hex2binM m) = some tc → tc < 32 := fun tc e => Fields.tcB_lt e
  generalize tcB (hex2binM m) = o at hlt
  generalize nica * 2 + nicbc = nics
  rcases o with _ | tc
  · rfl
  · have := hlt tc rfl
    clear hlt
    rcases nics with _ | _ | _ | _ | n
    · interval_cases tc <;> rfl
    · interval_cases tc <;> rfl
    · interval_cases tc <;> rfl
    · interval_cases tc <;> rfl
    · interval_cases tc <;> rfl

/-! ### dispatchers: the routing by type code; the decoders of `bds05` / `bds06` / `bds09` that are called stay opaque -/

/-- `adsb.altitude` relative to `bds05.altitude`: the routing is that of `adsbAltitude` -/
theorem adsb_altitude_tie (m : Msg) (h : IsHex m) (hl : 10 ≤ m.length) :
    Gen.adsb.altitude (.str m) =
      (match tcB (hex2binM m) with
       | none => .rte
       | some tc =>
         if tc < 5 ∨ tc = 19 ∨ tc > 22 then .rte
         else if tc ≥ 5 ∧ tc ≤ 8 then .val (.num 0)
         else Gen.bds05.altitude (.str m)) := by
  unfold Gen.adsb.altitude
  rw [typecode_hex m h hl, bind_val', guard_pos, bind_val']
  have hlt : ∀ tc, tcB (hex2binM m) = some tc → tc < 32 := fun tc e => Fields.tcB_lt e
  generalize tcB (hex2binM m) = o at hlt
  generalize Gen.bds05.altitude (.str m) = A
  rcases o with _ | tc
  · rfl
  · have := hlt tc rfl
    clear hlt
    rcases A with (a | _ | _) <;> interval_cases tc <;> rfl

/-- `adsb.altitude` = `adsbAltitude`, given the tie of the callee `bds05.altitude` (`bds05_altitude_tie`) -/
theorem adsb_altitude_tie_of_callee (m : Msg) (h : IsHex m) (hl : 10 ≤ m.length)
    (h05 : Gen.bds05.altitude (.str m) = (altitude05 (hex2binM m) >>= fun o => .val (Val.ofOptRat o))) :
    Gen.adsb.altitude (.str m) = (adsbAltitude (hex2binM m) >>= fun o => .val (Val.ofOptRat o)) := by
  rw [adsb_altitude_tie m h hl, h05]
  unfold adsbAltitude
  rcases tcB (hex2binM m) with _ | tc
  · rfl
  · simp only []
    split_ifs <;> rfl

namespace Adsb

/-- `a <= tc <= b` (chained comparison), in the form `simp only [bind_val', Res.pure_eq]` leaves it -/
theorem range_guard (n a b : Nat) [a.AtLeastTwo] [b.AtLeastTwo] :
    (pyLe (Val.num ofNat(a)) (Val.num (n : Rat)) >>= fun c =>
        if pyTruth c = true then pyLe (Val.num (n : Rat)) (Val.num ofNat(b)) else Res.val c) =
      .val (.bool (decide (ofNat(a) ≤ n ∧ n ≤ ofNat(b)))) := by
  simp only [lit_le, le_lit, bind_val', pyTruth_bool]
  by_cases h1 : ofNat(a) ≤ n <;> simp [h1]

theorem bind_pure' {α} (x : Res α) : (x >>= fun r => pure r) = x := by
  rcases x with (a | _ | _) <;> rfl

end Adsb

/-- `adsb.position_with_ref` relative to the two decoders it calls: the routing is `positionWithRefRoute`.
    `la`, `lo` are passed through unchanged. -/
theorem position_with_ref_tie (m : Msg) (h : IsHex m) (hl : 10 ≤ m.length) (la lo : Val) :
    Gen.adsb.position_with_ref (.str m) la lo =
      (positionWithRefRoute (hex2binM m) >>= fun k =>
        match k with
        | .surface => Gen.bds06.surface_position_with_ref (.str m) la lo
        | .airborne => Gen.bds05.airborne_position_with_ref (.str m) la lo) := by
  unfold Gen.adsb.position_with_ref positionWithRefRoute
  rw [typecode_hex m h hl, bind_val']
  generalize tcB (hex2binM m) = o
  generalize Gen.bds06.surface_position_with_ref (.str m) la lo = A
  generalize Gen.bds05.airborne_position_with_ref (.str m) la lo = B
  rcases o with _ | tc
  · rfl
  · simp only [ofOptNat_some, pyIs_none_num, bind_val', pyTruth_bool, Bool.false_eq_true, if_false, Res.pure_eq,
      range_guard, bind_pure']
    by_cases s : 5 ≤ tc ∧ tc ≤ 8
    · simp [s]
    by_cases a1 : 9 ≤ tc ∧ tc ≤ 18
    · simp [s, a1]
    by_cases a2 : 20 ≤ tc ∧ tc ≤ 22 <;> simp [s, a1, a2]

namespace Adsb

/-- a position `(lat, lon)` as Python returns it -/
def encPos (p : Rat × Rat) : Val := .tuple [.num p.1, .num p.2]

end Adsb

/-- `adsb.position_with_ref` = `positionWithRef`, given the ties of the two decoders it calls -/
theorem position_with_ref_tie_of_callees (m : Msg) (h : IsHex m) (hl : 10 ≤ m.length) (la lo : Rat)
    (hs : Gen.bds06.surface_position_with_ref (.str m) (.num la) (.num lo) =
      (surfacePositionWithRef (hex2binM m) la lo >>= fun p => .val (encPos p)))
    (ha : Gen.bds05.airborne_position_with_ref (.str m) (.num la) (.num lo) =
      (airbornePositionWithRef (hex2binM m) la lo >>= fun p => .val (encPos p))) :
    Gen.adsb.position_with_ref (.str m) (.num la) (.num lo) =
      (positionWithRef (hex2binM m) la lo >>= fun p => .val (encPos p)) := by
  rw [position_with_ref_tie m h hl, hs, ha]
  unfold positionWithRef
  rcases positionWithRefRoute (hex2binM m) with (k | _ | _)
  · cases k <;> rfl
  · rfl
  · rfl

/-- `adsb.velocity` relative to the two decoders it calls: the routing is `velocityRoute`.
    `source` is passed through unchanged. -/
theorem velocity_tie (m : Msg) (h : IsHex m) (hl : 10 ≤ m.length) (source : Val) :
    Gen.adsb.velocity (.str m) source =
      (velocityRoute (hex2binM m) >>= fun k =>
        match k with
        | .surface => Gen.bds06.surface_velocity (.str m) source
        | .airborne => Gen.bds09.airborne_velocity (.str m) source) := by
  unfold Gen.adsb.velocity velocityRoute
  rw [typecode_hex m h hl, bind_val']
  generalize tcB (hex2binM m) = o
  generalize Gen.bds06.surface_velocity (.str m) source = A
  generalize Gen.bds09.airborne_velocity (.str m) source = B
  rcases o with _ | tc
  · rfl
  · simp only [ofOptNat_some, pyIs_none_num, bind_val', pyTruth_bool, Bool.false_eq_true, if_false, Res.pure_eq,
      range_guard, eq_lit, bind_pure']
    by_cases s : 5 ≤ tc ∧ tc ≤ 8
    · simp [s]
    by_cases a1 : tc = 19 <;> simp [s, a1]

namespace Adsb

theorem pyIs_none (v : Val) : pyIs v .none = .val (.bool (v.beq .none)) := rfl
theorem num_beq_none (q : Rat) : (Val.num q).beq .none = false := rfl

/-- both reference coordinates are given (`not (lat_ref is None or lon_ref is None)`) -/
def haveRef (la lo : Val) : Bool := !(Val.beq la .none || Val.beq lo .none)

end Adsb

/-- `adsb.position` relative to the two decoders it calls: the routing is `positionRoute`.
    The times and the reference position are passed through unchanged. -/
theorem position_tie (m0 m1 : Msg) (h0 : IsHex m0) (h1 : IsHex m1) (hl0 : 10 ≤ m0.length) (hl1 : 10 ≤ m1.length)
    (t0 t1 la lo : Val) :
    Gen.adsb.position (.str m0) (.str m1) t0 t1 la lo =
      (positionRoute (hex2binM m0) (hex2binM m1) (haveRef la lo) >>= fun k =>
        match k with
        | .surface => Gen.bds06.surface_position (.str m0) (.str m1) t0 t1 la lo
        | .airborne => Gen.bds05.airborne_position (.str m0) (.str m1) t0 t1) := by
  unfold Gen.adsb.position positionRoute
  rw [typecode_hex m0 h0 hl0, bind_val', typecode_hex m1 h1 hl1, bind_val']
  generalize tcB (hex2binM m0) = o0
  generalize tcB (hex2binM m1) = o1
  generalize Gen.bds06.surface_position (.str m0) (.str m1) t0 t1 la lo = A
  generalize Gen.bds05.airborne_position (.str m0) (.str m1) t0 t1 = B
  rcases o0 with _ | tc0 <;> rcases o1 with _ | tc1
  · rfl
  · rfl
  · rfl
  · simp only [ofOptNat_some, pyIs_none_num, bind_val', pyTruth_bool, Bool.false_eq_true, if_false, Res.pure_eq,
      range_guard, bind_pure', pyIs_none, num_beq_none, haveRef]
    by_cases s0 : 5 ≤ tc0 ∧ tc0 ≤ 8 <;> by_cases s1 : 5 ≤ tc1 ∧ tc1 ≤ 8
    · by_cases hp : la.beq .none = true <;> by_cases hq : lo.beq .none = true <;> simp [s0, s1, hp, hq]
    all_goals
      by_cases a0 : 9 ≤ tc0 ∧ tc0 ≤ 18 <;> by_cases a1 : 9 ≤ tc1 ∧ tc1 ≤ 18 <;>
      by_cases b0 : 20 ≤ tc0 ∧ tc0 ≤ 22 <;> by_cases b1 : 20 ≤ tc1 ∧ tc1 ≤ 22 <;>
      first
        | (exfalso; omega)
        | simp [s0, s1, a0, a1, b0, b1]

namespace Adsb

/-- `None` or a position `(lat, lon)` -/
def encOptPos : Option (Rat × Rat) → Val
  | none => .none
  | some p => encPos p

theorem positionRoute_noRef (b0 b1 : Bits) : positionRoute b0 b1 false ≠ .val .surface := by
  unfold positionRoute
  rcases tcB b0 with _ | tc0 <;> rcases tcB b1 with _ | tc1 <;> try (intro e; cases e)
  simp only []
  split_ifs <;> intro e <;> first | contradiction | cases e

end Adsb

/-- `adsb.position` = `position`, given the ties of the two decoders it calls.  The optional reference position of
    the model is passed as two numbers or as `None, None`. -/
theorem position_tie_of_callees (m0 m1 : Msg) (h0 : IsHex m0) (h1 : IsHex m1) (hl0 : 10 ≤ m0.length)
    (hl1 : 10 ≤ m1.length) (t0 t1 : Rat) (ref : Option (Rat × Rat))
    (hs : ∀ la lo, ref = some (la, lo) →
      Gen.bds06.surface_position (.str m0) (.str m1) (.num t0) (.num t1) (.num la) (.num lo) =
        (surfacePosition (hex2binM m0) (hex2binM m1) t0 t1 la lo >>= fun o => .val (encOptPos o)))
    (ha : Gen.bds05.airborne_position (.str m0) (.str m1) (.num t0) (.num t1) =
      (airbornePosition (hex2binM m0) (hex2binM m1) t0 t1 >>= fun o => .val (encOptPos o))) :
    Gen.adsb.position (.str m0) (.str m1) (.num t0) (.num t1)
        (match ref with | none => Val.none | some r => .num r.1) (match ref with | none => Val.none | some r => .num r.2) =
      (PyModeS.position (hex2binM m0) (hex2binM m1) t0 t1 ref >>= fun o => .val (encOptPos o)) := by
  rw [position_tie m0 m1 h0 h1 hl0 hl1, ha]
  unfold PyModeS.position
  rcases ref with _ | ⟨la, lo⟩
  · have hr : haveRef Val.none Val.none = false := rfl
    simp only [hr, Option.isSome_none]
    have := positionRoute_noRef (hex2binM m0) (hex2binM m1)
    rcases hk : positionRoute (hex2binM m0) (hex2binM m1) false with (k | _ | _)
    · cases k
      · exact absurd hk this
      · rfl
    · rfl
    · rfl
  · have hr : haveRef (Val.num la) (Val.num lo) = true := rfl
    simp only [hr, Option.isSome_some, hs la lo rfl]
    rcases positionRoute (hex2binM m0) (hex2binM m1) true with (k | _ | _)
    · cases k <;> rfl
    · rfl
    · rfl

/-! ### `speed_heading`: the first two members of what `velocity(msg)` returns (no hand-model counterpart;
    stated relative to `Gen.adsb.velocity`) -/

theorem speed_heading_tie (msg spd trk rocd tag : Val)
    (hv : Gen.adsb.velocity msg (.bool false) = .val (.tuple [spd, trk, rocd, tag])) :
    Gen.adsb.speed_heading msg = .val (.tuple [spd, trk]) := by
  unfold Gen.adsb.speed_heading
  rw [hv]
  rfl

theorem speed_heading_none (msg : Val) (hv : Gen.adsb.velocity msg (.bool false) = .val .none) :
    Gen.adsb.speed_heading msg = .val .none := by
  unfold Gen.adsb.speed_heading
  rw [hv]
  rfl

theorem speed_heading_rte (msg : Val) (hv : Gen.adsb.velocity msg (.bool false) = .rte) :
    Gen.adsb.speed_heading msg = .rte := by
  unfold Gen.adsb.speed_heading
  rw [hv]
  rfl

theorem speed_heading_exc (msg : Val) (hv : Gen.adsb.velocity msg (.bool false) = .exc) :
    Gen.adsb.speed_heading msg = .exc := by
  unfold Gen.adsb.speed_heading
  rw [hv]
  rfl

/-! ### the re-exported `df`, `icao`, `typecode` -/

theorem adsb_df_tie (m : Msg) (h : IsHex m) (hl : 2 ≤ m.length) :
    Gen.adsb.df (.str m) = .val (Val.ofNat (PyModeS.df m)) := by
  unfold Gen.adsb.df
  rw [df_str m h hl]

theorem adsb_icao_tie (m : Msg) (h : IsHex m) (hl : 6 ≤ m.length) :
    Gen.adsb.icao (.str m) = .val (Val.ofOptStr (PyModeS.icao m)) := by
  unfold Gen.adsb.icao
  rw [icao_tie m h hl]

theorem adsb_typecode_tie (m : Msg) (h : IsHex m) (hl : 10 ≤ m.length) :
    Gen.adsb.typecode (.str m) = .val (Val.ofOptNat (PyModeS.typecode m)) := by
  unfold Gen.adsb.typecode
  rw [typecode_str m h hl]


end PyModeS.Tie
