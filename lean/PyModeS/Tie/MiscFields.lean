/-
  Ties for generated functions that had none yet.

  1. `py_common.fs`, `py_common.dr`, `py_common.um` (the un-guarded FS / DR / UM readers of `py_common.py`; the
     `surv` module versions, which add a DF check, are in `Tie/Surv.lean` and `Tie/C08Gen.lean`).  The hand model
     (`fsField`, `drField`, `umFields` of `Model/Common.lean`) keeps the numbers only; the text the Python function
     returns next to the number is given by `fsLabel`, `drLabel`, `umLabel` below, transcribed from the Python text.
     NOTE the difference to `surv.fs` / `surv.dr`: in `py_common` the label of a value without text is `None`
     (`surv`: the empty string).
  2. `Decode.get_aircraft`.
  3. The default `handle_messages` of `RtlReader` and `TcpClient`.
  4. `TcpClient.read_beast_buffer_rssi_piaware` against a small functional model defined here (`readBeastRssi`:
     the framing `beastScan` of `Model/Stream.lean`, then per frame the signal level and the checks of
     `beastExtract`), with chunk invariance in the style of `Tie/C16Gen.lean`.
-/
import PyModeS.Tie.Common
import PyModeS.Tie.Surv
import PyModeS.Generated.Src.decode
import PyModeS.Generated.Src.rtlreader
import PyModeS.Generated.Src.tcpclient
import PyModeS.Tie.C16Gen

set_option maxHeartbeats 1000000

set_option linter.unusedSimpArgs false
set_option linter.unusedTactic false
set_option linter.unreachableTactic false
set_option linter.unusedVariables false
set_option linter.style.nameCheck false
namespace PyModeS.Tie
open PyModeS PyModeS.Py PyModeS.CRC

/-! ## 1. `py_common.fs`, `py_common.dr`, `py_common.um` -/

/-- the text `py_common.fs` returns next to the FS value (`None` for 6 and 7) -/
def fsLabel (n : Nat) : Val :=
  if n = 0 then .str "no alert, no SPI, aircraft is airborne".toList
  else if n = 1 then .str "no alert, no SPI, aircraft is on-ground".toList
  else if n = 2 then .str "alert, no SPI, aircraft is airborne".toList
  else if n = 3 then .str "alert, no SPI, aircraft is on-ground".toList
  else if n = 4 then .str "alert, SPI, aircraft is airborne or on-ground".toList
  else if n = 5 then .str "no alert, SPI, aircraft is airborne or on-ground".toList
  else .none

/-- the text `py_common.dr` returns next to the DR value (`None` for 2, 3, 6 … 15) -/
def drLabel (n : Nat) : Val :=
  if n = 0 then .str "no downlink request".toList
  else if n = 1 then .str "request to send Comm-B message".toList
  else if n = 4 then .str "Comm-B broadcast 1 available".toList
  else if n = 5 then .str "Comm-B broadcast 2 available".toList
  else if 16 ≤ n then .str ("ELM downlink segments available: ".toList ++ (toString (n - 15)).toList)
  else .none

/-- the text `py_common.um` returns next to IIS and IDS (`None` for IDS = 0) -/
def umLabel (ids : Nat) : Val :=
  if ids = 1 then .str "Comm-B interrogator identifier code".toList
  else if ids = 2 then .str "Comm-C interrogator identifier code".toList
  else if ids = 3 then .str "Comm-D interrogator identifier code".toList
  else .none

/-- `py_common.fs(msg)`: the pair (FS, text), FS = bits 6–8 -/
theorem py_common_fs_tie (m : Msg) (h : IsHex m) (hl : 2 ≤ m.length) :
    Gen.py_common.fs (.str m) =
      .val (.tuple [Val.ofNat (fsField (hex2binM m)), fsLabel (fsField (hex2binM m))]) := by
  unfold Gen.py_common.fs fsField
  have hne : m ≠ [] := by intro e; simp [e] at hl
  have hs : 0 < (slice 5 8 (hex2binM m)).length := by rw [slice_length, hex2binM_length]; omega
  obtain ⟨e0, e1, e2, e3, e4, e5, -, -⟩ := pyEq_ofNat_lits (PyModeS.bin2int (slice 5 8 (hex2binM m)))
  simp only [hex2bin_str m h hne, bind_val', pySliceNN_ofBits, bin2int_ofBits, bin2intR_of_length hs, e0, e1, e2, e3,
    e4, e5, pyTruth_bool, decide_eq_true_eq, Res.pure_eq, fsLabel]
  split_ifs <;> rfl

/-- `py_common.dr(msg)`: the pair (DR, text), DR = bits 9–13 -/
theorem py_common_dr_tie (m : Msg) (h : IsHex m) (hl : 3 ≤ m.length) :
    Gen.py_common.dr (.str m) =
      .val (.tuple [Val.ofNat (drField (hex2binM m)), drLabel (drField (hex2binM m))]) := by
  unfold Gen.py_common.dr drField
  have hne : m ≠ [] := by intro e; simp [e] at hl
  have hs : 0 < (slice 8 13 (hex2binM m)).length := by rw [slice_length, hex2binM_length]; omega
  simp only [hex2bin_str m h hne, bind_val', pySliceNN_ofBits, bin2int_ofBits, bin2intR_of_length hs]
  generalize PyModeS.bin2int (slice 8 13 (hex2binM m)) = n
  obtain ⟨e0, e1, -, -, e4, e5, -, -⟩ := pyEq_ofNat_lits n
  have hge : pyGe (Val.ofNat n) (Val.num 16) = .val (.bool (decide (16 ≤ n))) := by
    simp only [Val.ofNat, pyGe_num]
    congr 2
    have : ((16 : Rat) ≤ (n : Rat)) ↔ 16 ≤ n := by exact_mod_cast Iff.rfl
    exact decide_eq_decide.mpr this
  simp only [bind_val', e0, e1, e4, e5, hge, pyTruth_bool, decide_eq_true_eq, Res.pure_eq, drLabel]
  by_cases c0 : n = 0
  · simp only [c0, if_true] <;> rfl
  by_cases c1 : n = 1
  · simp only [c1, if_true]; rfl
  by_cases c4 : n = 4
  · simp only [c4, if_true]; rfl
  by_cases c5 : n = 5
  · simp only [c5, if_true]; rfl
  by_cases c16 : 16 ≤ n
  · have hsub : pySub (Val.ofNat n) (Val.num 15) = .val (Val.ofNat (n - 15)) := by
      have : 15 ≤ n := by omega
      simp [Val.ofNat, Nat.cast_sub this]
    simp only [c0, c1, c4, c5, c16, if_true, if_false, bind_val', pyFormat1, hsub, pyStr_ofNat, Tie.pyAdd_str,
      List.append_nil] <;> rfl
  · simp only [c0, c1, c4, c5, c16, if_false] <;> rfl

/-- `py_common.um(msg)`: the triple (IIS, IDS, text), IIS = bits 14–17, IDS = bits 18–19 -/
theorem py_common_um_tie (m : Msg) (h : IsHex m) (hl : 5 ≤ m.length) :
    Gen.py_common.um (.str m) =
      .val (.tuple [Val.ofNat (umFields (hex2binM m)).1, Val.ofNat (umFields (hex2binM m)).2,
        umLabel (umFields (hex2binM m)).2]) := by
  unfold Gen.py_common.um umFields
  have hne : m ≠ [] := by intro e; simp [e] at hl
  have hs1 : 0 < (slice 13 17 (hex2binM m)).length := by rw [slice_length, hex2binM_length]; omega
  have hs2 : 0 < (slice 17 19 (hex2binM m)).length := by rw [slice_length, hex2binM_length]; omega
  simp only [hex2bin_str m h hne, bind_val', pySliceNN_ofBits, bin2int_ofBits, bin2intR_of_length hs1,
    bin2intR_of_length hs2]
  generalize PyModeS.bin2int (slice 13 17 (hex2binM m)) = iis
  generalize PyModeS.bin2int (slice 17 19 (hex2binM m)) = ids
  obtain ⟨e0, e1, e2, e3, -, -, -, -⟩ := pyEq_ofNat_lits ids
  simp only [bind_val', e0, e1, e2, e3, pyTruth_bool, decide_eq_true_eq, Res.pure_eq, umLabel]
  split_ifs <;> first | omega | rfl

/-! ## 2. `Decode.get_aircraft` -/

/-- `get_aircraft()` on any receiver: the attribute `acs`, the receiver unchanged (`AttributeError` is `exc`) -/
theorem Decode_get_aircraft_eq (self : Val) :
    Gen.decode.Decode_get_aircraft self = (pyGetAttr self "acs" >>= fun acs => .val (.tuple [self, acs])) := rfl

/-- `get_aircraft()` on a receiver with the aircraft table `acs`: returns `acs`; the receiver is unchanged -/
theorem Decode_get_aircraft_tie (attrs : List (Val × Val)) (acs : Val)
    (h : dictFind attrs (attrKey "acs") = some acs) :
    Gen.decode.Decode_get_aircraft (.dict attrs) = .val (.tuple [.dict attrs, acs]) := by
  rw [Decode_get_aircraft_eq]
  simp only [pyGetAttr, h, bind_val']

/-- without the attribute `acs`: `AttributeError` -/
theorem Decode_get_aircraft_missing (attrs : List (Val × Val))
    (h : dictFind attrs (attrKey "acs") = none) :
    Gen.decode.Decode_get_aircraft (.dict attrs) = .exc := by
  rw [Decode_get_aircraft_eq]
  simp only [pyGetAttr, h]
  rfl

/-! ## 3. the default `handle_messages` of `RtlReader` and `TcpClient`

  Python: `for msg, t in messages: pass` (`RtlReader`) and `for msg, t in messages: print(...)` (`TcpClient`; the
  `print` is not part of the generated model).  So the call does nothing to the receiver and returns `None`,
  provided `messages` can be iterated and every item unpacks into two. -/

/-- items `msg, t = item` accepts: a two-element list / tuple (or a two-character string) -/
def isPair : Val → Bool
  | .tuple [_, _] => true
  | .str [_, _] => true
  | _ => false

/-- the default `handle_messages`: `self` unchanged and `None`, or the exception of the iteration / unpacking -/
def handleDefault (self messages : Val) : Res Val :=
  pyIter messages >>= fun items => if items.all isPair then .val (.tuple [self, .none]) else .exc

theorem isPair_step (it : Val) :
    (isPair it = true → ∃ a b, pyUnpackCheck it 2 = .val () ∧ pyIdxN it 0 = .val a ∧ pyIdxN it 1 = .val b) ∧
    (isPair it = false → pyUnpackCheck it 2 = .exc) := by
  cases it with
  | tuple l =>
    rcases l with _ | ⟨a, _ | ⟨b, _ | ⟨c, l⟩⟩⟩
    · exact ⟨fun h => by simp [isPair] at h, fun _ => rfl⟩
    · exact ⟨fun h => by simp [isPair] at h, fun _ => rfl⟩
    · exact ⟨fun _ => ⟨a, b, rfl, rfl, rfl⟩, fun h => by simp [isPair] at h⟩
    · refine ⟨fun h => by simp [isPair] at h, fun _ => ?_⟩
      simp [pyUnpackCheck]
  | str l =>
    rcases l with _ | ⟨a, _ | ⟨b, _ | ⟨c, l⟩⟩⟩
    · exact ⟨fun h => by simp [isPair] at h, fun _ => rfl⟩
    · exact ⟨fun h => by simp [isPair] at h, fun _ => rfl⟩
    · exact ⟨fun _ => ⟨_, _, rfl, rfl, rfl⟩, fun h => by simp [isPair] at h⟩
    · refine ⟨fun h => by simp [isPair] at h, fun _ => ?_⟩
      simp [pyUnpackCheck]
  | none => exact ⟨fun h => by simp [isPair] at h, fun _ => rfl⟩
  | bool b => exact ⟨fun h => by simp [isPair] at h, fun _ => rfl⟩
  | num q => exact ⟨fun h => by simp [isPair] at h, fun _ => rfl⟩
  | dict d => exact ⟨fun h => by simp [isPair] at h, fun _ => rfl⟩

/-- a loop whose body succeeds exactly on pairs -/
theorem pairLoop {σ} (f : Val → σ → Res (ForInStep σ))
    (hok : ∀ it st, isPair it = true → ∃ st', f it st = .val (.yield st'))
    (hbad : ∀ it st, isPair it = false → f it st = .exc) :
    ∀ (items : List Val) (st : σ),
      (items.all isPair = true → ∃ st', forIn items st f = Res.val st') ∧
      (items.all isPair = false → forIn items st f = Res.exc) := by
  intro items
  induction items with
  | nil => intro st; exact ⟨fun _ => ⟨st, rfl⟩, fun h => by simp at h⟩
  | cons it items ih =>
    intro st
    rw [List.forIn_cons, List.all_cons]
    cases hp : isPair it with
    | true =>
      obtain ⟨st1, e1⟩ := hok it st hp
      rw [e1, bind_val']
      simpa using ih st1
    | false =>
      rw [hbad it st hp]
      exact ⟨fun h => by simp at h, fun _ => rfl⟩

/-- the body of both generated loops -/
def handleBody (it__1 : Val) (__s : Val × Val) : Res (ForInStep (Val × Val)) := do
  pyUnpackCheck it__1 2
  let msg ← pyIdxN it__1 0
  let t ← pyIdxN it__1 1
  pure (ForInStep.yield (msg, t))

theorem handle_body_ok (it : Val) (st : Val × Val) (h : isPair it = true) :
    ∃ st', handleBody it st = .val (.yield st') := by
  obtain ⟨a, b, e0, e1, e2⟩ := (isPair_step it).1 h
  exact ⟨(a, b), by simp only [handleBody, e0, e1, e2, bind_val', Res.pure_eq]⟩

theorem handle_body_bad (it : Val) (st : Val × Val) (h : isPair it = false) : handleBody it st = .exc := by
  simp only [handleBody, (isPair_step it).2 h]
  rfl

theorem pairLoop_finish {σ} (f : Val → σ → Res (ForInStep σ))
    (hok : ∀ it st, isPair it = true → ∃ st', f it st = .val (.yield st'))
    (hbad : ∀ it st, isPair it = false → f it st = .exc) (items : List Val) (st : σ) (R : Val) :
    (forIn items st f >>= fun _ => (pure R : Res Val)) = if items.all isPair = true then Res.val R else Res.exc := by
  cases hall : items.all isPair with
  | true =>
    obtain ⟨st', e⟩ := (pairLoop f hok hbad items st).1 hall
    rw [e, bind_val', if_pos rfl]
    rfl
  | false =>
    rw [(pairLoop f hok hbad items st).2 hall, if_neg (by simp)]
    rfl

/-- `RtlReader.handle_messages(messages)` on any receiver and any argument -/
theorem RtlReader_handle_messages_tie (self messages : Val) :
    Gen.rtlreader.RtlReader_handle_messages self messages = handleDefault self messages := by
  unfold Gen.rtlreader.RtlReader_handle_messages handleDefault
  generalize pyIter messages = r
  rcases r with (items | _ | _)
  swap; · rfl
  swap; · rfl
  rw [bind_val', bind_val']
  exact pairLoop_finish _ handle_body_ok handle_body_bad items _ _

/-- `TcpClient.handle_messages(messages)` on any receiver and any argument (the `print` of the Python body is not
    modelled) -/
theorem TcpClient_handle_messages_tie (self messages : Val) :
    Gen.tcpclient.TcpClient_handle_messages self messages = handleDefault self messages := by
  unfold Gen.tcpclient.TcpClient_handle_messages handleDefault
  generalize pyIter messages = r
  rcases r with (items | _ | _)
  swap; · rfl
  swap; · rfl
  rw [bind_val', bind_val']
  exact pairLoop_finish _ handle_body_ok handle_body_bad items _ _

/-- on a list of `[msg, t]` items: nothing happens -/
theorem handleDefault_pairs (self : Val) (msgs : List (Val × Val)) :
    handleDefault self (.tuple (msgs.map fun p => .tuple [p.1, p.2])) = .val (.tuple [self, .none]) := by
  have hit : pyIter (.tuple (msgs.map fun p => Val.tuple [p.1, p.2])) = .val (msgs.map fun p => Val.tuple [p.1, p.2]) :=
    rfl
  have hall : (msgs.map fun p => Val.tuple [p.1, p.2]).all isPair = true := by
    simp [List.all_map, isPair]
  rw [handleDefault, hit, bind_val', if_pos hall]

end PyModeS.Tie

/-! ## 4. `TcpClient.read_beast_buffer_rssi_piaware`

  The framing loop is the one of `read_beast_buffer` (`beastScan` of `Model/Stream.lean`); the extraction loop
  additionally turns the signal-level byte `mm[7]` of every frame whose text has 14 or 28 digits into
  `10 * log10((mm[7] / 255) ** 2)` — BEFORE the DF / length filter, so a frame that is then filtered out still
  has its signal level computed, and a signal byte `0` makes `math.log10` raise (`rssiDb_zero`): the whole call
  fails.  `log10` is the external `Ext.math_log10` (double precision, opaque here); the model below calls the same
  external on the exact rational `(raw / 255) ^ 2` — which is what the generated code does (`pyDiv`, `pyPow` are
  exact on `Val.num`), whereas Python rounds `raw / 255` and its square to doubles before `log10`.

  * `TcpClient_read_beast_buffer_rssi_piaware_tie`: the generated method = `readBeastRssi` (failures included).
  * `readBeastRssi_val`: whenever the call returns, texts and retained buffer are those of `readBeast`.
  * `readBeastRssi_append`, `feedR_flatten`: two-chunk lemma / chunk invariance of the model reader.
  * `TcpClient_read_beast_buffer_rssi_piaware_chunk_invariant_tie`: chunk invariance of the generated reader. -/

namespace PyModeS.Tie.BeastRssi
open PyModeS PyModeS.Py PyModeS.CRC PyModeS.Tie PyModeS.Tie.Beast

/-- `10 * math.log10((raw / 255) ** 2)` -/
def rssiDb (raw : Byte) : Res Val :=
  Gen.Ext.math_log10 (.num (((raw : Rat) / 255) ^ 2)) >>= fun x => pyMul (.num 10) x

/-- signal byte 0: `ValueError: math domain error` -/
theorem rssiDb_zero : rssiDb 0 = .exc := by
  simp [rssiDb, Gen.Ext.math_log10, Py.Val.num?]

/-- the hex text of an un-escaped Beast frame, before the length / DF checks -/
def beastText (mm : List Byte) : Option Msg :=
  match mm with
  | [] => none
  | t :: _ =>
    if t = 50 then some (hexOfBytes (slice 8 15 mm))
    else if t = 51 then some (hexOfBytes (slice 8 22 mm)) else none

/-- the checks on a candidate text `m` of the frame `mm`: the signal level is computed as soon as the text has 14 or 28
    digits, before the DF / length filter `chk` (`Tie/BeastReader.lean`: the checks of `beastExtract`) -/
def rssiChk (mm : List Byte) (m : Msg) : Res (Option (Msg × Val)) :=
  if m.length ≠ 14 ∧ m.length ≠ 28 then .val none
  else rssiDb (mm.getD 7 0) >>= fun r => .val ((chk m).map fun m => (m, r))

/-- one frame: `none` = skipped -/
def beastExtractRssi (mm : List Byte) : Res (Option (Msg × Val)) :=
  match beastText mm with
  | none => .val none
  | some m => rssiChk mm m

theorem beastExtractRssi_cons (t : Byte) (rest : List Byte) :
    beastExtractRssi (t :: rest) =
      if t = 50 then rssiChk (t :: rest) (hexOfBytes (slice 8 15 (t :: rest)))
      else if t = 51 then rssiChk (t :: rest) (hexOfBytes (slice 8 22 (t :: rest))) else .val none := by
  unfold beastExtractRssi beastText
  by_cases h50 : t = 50
  · simp [h50]
  · by_cases h51 : t = 51
    · simp [h51]
    · simp [h50, h51]

/-- all frames in order; the first failure is the result -/
def extractAll : List (List Byte) → Res (List (Msg × Val))
  | [] => .val []
  | fr :: frs => beastExtractRssi fr >>= fun o => extractAll frs >>= fun l => .val (o.toList ++ l)

/-- `read_beast_buffer_rssi_piaware`: ([msg, rssi] items, new `self.buffer`) -/
def readBeastRssi (buf : List Byte) : Res (List (Msg × Val) × List Byte) :=
  extractAll (beastScan buf [] [] buf).1 >>= fun l => .val (l, (beastScan buf [] [] buf).2)

/-- `[msg, dbfs_rssi, ts]` items (`ts` is the `0` of `Ext.time_time`) -/
def encR (l : List (Msg × Val)) : Val := .tuple (l.map fun p => .tuple [.str p.1, p.2, .num 0])


/-! ### the extraction loop -/

abbrev S3 := Val × Val × Val × Val × Val × Val × Val × Val × Val × Val

/-- one iteration against `beastExtractRssi`: the same failure, or `messages` extended by the item -/
def StepRel (r : Res (Option (Msg × Val))) (x : Res (ForInStep S3)) (msgs : List (Msg × Val)) : Prop :=
  match r with
  | .val o => ∃ st', x = .val (.yield st') ∧ st'.2.2.2.2.2.2.2.2.2 = encR (msgs ++ o.toList)
  | .rte => x = .rte
  | .exc => x = .exc

theorem loop3 (f : Val → S3 → Res (ForInStep S3))
    (hstep : ∀ frame : List Byte, frame ≠ [] → (∀ b ∈ frame, b < 256) → ∀ (st : S3) (msgs : List (Msg × Val)),
      st.2.2.2.2.2.2.2.2.2 = encR msgs → StepRel (beastExtractRssi frame) (f (encBytes frame) st) msgs)
    (K : S3 → Res Val) (R : List (Msg × Val) → Res Val)
    (hK : ∀ (st' : S3) (l : List (Msg × Val)), st'.2.2.2.2.2.2.2.2.2 = encR l → K st' = R l) :
    ∀ (frames : List (List Byte)), (∀ fr ∈ frames, fr ≠ [] ∧ ∀ b ∈ fr, b < 256) →
      ∀ (st : S3) (msgs : List (Msg × Val)), st.2.2.2.2.2.2.2.2.2 = encR msgs →
      (forIn (frames.map encBytes) st f >>= K) = (extractAll frames >>= fun l => R (msgs ++ l)) := by
  intro frames
  induction frames with
  | nil =>
    intro _ st msgs h
    rw [extractAll, bind_val', List.append_nil, ← hK st msgs h]
    rfl
  | cons fr frames ih =>
    intro hfr st msgs h
    have hs := hstep fr (hfr fr (by simp)).1 (hfr fr (by simp)).2 st msgs h
    rw [List.map_cons, List.forIn_cons, extractAll]
    generalize beastExtractRssi fr = r at hs
    rcases r with (o | _ | _)
    · obtain ⟨st1, e1, e2⟩ := hs
      rw [e1, bind_val', bind_val']
      simp only []
      rw [ih (fun x hx => hfr x (List.mem_cons_of_mem _ hx)) st1 _ e2]
      generalize extractAll frames = r2
      rcases r2 with (l2 | _ | _)
      · simp only [bind_val', List.append_assoc]
      · rfl
      · rfl
    · rw [show f (encBytes fr) st = .rte from hs]; rfl
    · rw [show f (encBytes fr) st = .exc from hs]; rfl

theorem appR (msgs : List (Msg × Val)) (m : Msg) (r : Val) :
    pyAppend (encR msgs) (.tuple [.str m, r, .num 0]) = .val (encR (msgs ++ [(m, r)])) := by
  simp [pyAppend, encR]

theorem div255 (n : Nat) : pyDiv (Val.ofNat n) (.num 255) = .val (.num ((n : Rat) / 255)) := by
  simp [pyDiv, Val.ofNat, Py.Val.num?]

theorem pow2 (q : Rat) : pyPow (.num q) (.num 2) = .val (.num (q ^ 2)) := by
  have : (Val.num 2).int? = some (Int.ofNat 2) := int?_ofNat 2
  simp only [pyPow, Py.Val.num?, this]

set_option hygiene false in
/-- the signal level and the length / DF checks of the extraction loop on a candidate message `m` (`hx : IsHex m`,
    `h7' : m.length ∈ [14, 28] → 7 < (t :: rest).length`) against `rssiChk (t :: rest) m` -/
macro "rssi_check" : tactic => `(tactic|
  (by_cases hl : m.length ∈ [14, 28]
   · have hl2 : 2 ≤ m.length := by
       simp only [List.mem_cons, List.not_mem_nil, or_false] at hl; omega
     have hnl : ¬ (m.length ≠ 14 ∧ m.length ≠ 28) := by
       simp only [List.mem_cons, List.not_mem_nil, or_false] at hl; omega
     simp only [hl, decide_true, Bool.not_true, Bool.false_eq_true, if_false, df_str m hx hl2, bind_val',
       pyIdxN_bytes (t :: rest) 7 (h7' hl), div255, pow2, rssiChk, hnl, rssiDb]
     generalize Gen.Ext.math_log10 _ = r1
     rcases r1 with (x | _ | _)
     rotate_left
     · exact rfl
     · exact rfl
     simp only [bind_val']
     generalize pyMul (Val.num 10) x = r2
     rcases r2 with (db | _ | _)
     rotate_left
     · exact rfl
     · exact rfl
     simp only [bind_val', inShort, inLong, ne14, ne28, pyTruth_bool, Res.pure_eq, appR, List.mem_cons,
       List.not_mem_nil, or_false]
     simp only [List.mem_cons, List.not_mem_nil, or_false] at hl
     unfold chk
     by_cases hs : (PyModeS.df m = 0 ∨ PyModeS.df m = 4 ∨ PyModeS.df m = 5 ∨ PyModeS.df m = 11) <;>
     by_cases hL : (PyModeS.df m = 16 ∨ PyModeS.df m = 17 ∨ PyModeS.df m = 18 ∨ PyModeS.df m = 19 ∨
       PyModeS.df m = 20 ∨ PyModeS.df m = 21 ∨ PyModeS.df m = 24) <;>
     by_cases h14 : m.length = 14 <;> by_cases h28 : m.length = 28 <;>
     first
       | (exfalso; omega)
       | (simp only [hs, hL, h14, h28, decide_true, decide_false, Bool.not_true, Bool.not_false, if_true, if_false,
            Bool.false_eq_true, bind_val', pyTruth_bool, ne_eq, not_true_eq_false, not_false_eq_true, and_true,
            and_false, and_self, true_and, false_and, Nat.reduceEqDiff, Option.map, StepRel, Option.toList,
            List.append_nil]
          exact ⟨_, rfl, rfl⟩)
   · have hnl : m.length ≠ 14 ∧ m.length ≠ 28 := by
       simp only [List.mem_cons, List.not_mem_nil, or_false] at hl; omega
     simp only [hl, decide_false, Bool.not_false, if_true, Res.pure_eq, rssiChk, hnl, ne_eq, not_false_eq_true,
       and_self, StepRel, Option.toList, List.append_nil]
     exact ⟨_, rfl, rfl⟩))

end PyModeS.Tie.BeastRssi
namespace PyModeS.Tie
open PyModeS PyModeS.Py PyModeS.CRC PyModeS.Tie.Beast PyModeS.Tie.BeastRssi

theorem TcpClient_read_beast_buffer_rssi_piaware_tie (l : List (Val × Val)) (buf : List Byte)
    (hbuf : dictFind l (attrKey "buffer") = some (encBytes buf))
    (hb : ∀ b ∈ buf, b < 256) (hlen : buf.length < whileFuel) :
    Gen.tcpclient.TcpClient_read_beast_buffer_rssi_piaware (.dict l) =
      (readBeastRssi buf >>= fun p =>
        .val (.tuple [.dict (setPair (attrKey "buffer") (encBytes p.2) l), encR p.1])) := by
  have hg : pyGetAttr (.dict l) "buffer" = .val (encBytes buf) := by simp only [pyGetAttr, hbuf]
  unfold Gen.tcpclient.TcpClient_read_beast_buffer_rssi_piaware
  simp only [Std.Legacy.Range.forIn_eq_forIn_range', Std.Legacy.Range.size, Nat.sub_zero, Nat.add_sub_cancel,
    Nat.div_one]
  have hinit : ((Val.tuple [], Val.tuple [], Val.num 0, Val.num 0, true) : S1) = encS ⟨[], [], 0, 0⟩ true := by
    simp only [encS, num_zero_ofNat]; rfl
  rw [hinit, loop1 buf _ ?step buf.length ⟨[], [], 0, 0⟩ 0 whileFuel hlen ?hnone, bind_val']
  case hnone =>
    exact (beastScan_eq_bIter buf buf.length ⟨[], [], 0, 0⟩ (by simp) (by simp)).2
  case step =>
    intro x s
    have e2626 : Val.tuple [Val.num 26, Val.num 26] = encBytes [26, 26] := rfl
    simp only [encS, hg, bind_val', len_bytes, pyLt_ofNat2, pyTruth_bool, add2, add1, pySlice_bytes, e2626, pyEq_bytes,
      app26, Res.pure_eq, pyEq_ofNat2, eq26, gt0, appMlat]
    by_cases hlt : s.i < buf.length
    swap
    · rw [bStep_done buf s hlt]
      simp only [hlt, decide_false, Bool.not_false, if_true]
    have h1 : 1 ≤ buf.length := by omega
    simp only [hlt, decide_true, Bool.not_true, Bool.false_eq_true, if_false, pySub_one _ h1, bind_val', pyEq_ofNat2,
      pyIdx_bytes buf s.i hlt, eq26, pyTruth_bool, appByte]
    by_cases hsl : slice s.i (s.i + 2) buf = [26, 26]
    · rw [bStep_esc buf s hlt hsl]
      simp only [hsl, decide_true, if_true]
    simp only [hsl, decide_false, Bool.false_eq_true, if_false]
    by_cases hl : s.i = buf.length - 1 ∧ buf.getD s.i 0 = 26
    · rw [bStep_last buf s hlt hsl hl]
      simp only [hl.1, hl.2, decide_true, if_true, bind_val', pyTruth_bool]
      simp only [← hl.1, hl.2, decide_true, if_true]
    by_cases hdiv : buf.getD s.i 0 = 26
    · have hi : ¬ s.i = buf.length - 1 := fun h => hl ⟨h, hdiv⟩
      rw [bStep_div buf s hlt hsl hl hdiv]
      simp only [hi, hdiv, decide_true, decide_false, if_true, Bool.false_eq_true, if_false, bind_val', pyTruth_bool]
      by_cases hm : 0 < s.msg.length
      · simp only [hm, decide_true, if_true, List.reverse_cons]
        rfl
      · have : s.msg = [] := by
          cases hmm : s.msg with
          | nil => rfl
          | cons a m => rw [hmm] at hm; simp at hm
        rw [this]
        simp
    · rw [bStep_byte buf s hlt hsl hl hdiv]
      by_cases hi : s.i = buf.length - 1
      · simp only [hi, hdiv, decide_true, decide_false, if_true, Bool.false_eq_true, if_false, bind_val', pyTruth_bool]
        simp only [← hi, hdiv, decide_false, Bool.false_eq_true, if_false]
      · simp only [hi, hdiv, decide_true, decide_false, if_true, Bool.false_eq_true, if_false, bind_val', pyTruth_bool]
  have hB := beastScan_eq_bIter buf buf.length ⟨[], [], 0, 0⟩ (by simp) (by simp)
  have hgood : Good (bIter buf buf.length ⟨[], [], 0, 0⟩) :=
    bIter_good buf hb _ _ ⟨fun _ h => by simp at h, fun _ h => by simp at h⟩
  have hread : readBeastRssi buf =
      (extractAll (bIter buf buf.length ⟨[], [], 0, 0⟩).out.reverse >>= fun l =>
        .val (l, buf.drop (bIter buf buf.length ⟨[], [], 0, 0⟩).start)) := by
    have := hB.1
    simp only [List.drop_zero] at this
    simp only [readBeastRssi, this]
  rw [hread]
  generalize bIter buf buf.length ⟨[], [], 0, 0⟩ = B at hgood
  have hit : pyIter (encMlat B.out.reverse) = .val (B.out.reverse.map encBytes) := rfl
  simp only [encS, Bool.false_eq_true, if_false, hg, bind_val', pySlice_bytes_from]
  have hset : ∀ v, pySetAttr (Val.dict l) "buffer" v = .val (.dict (setPair (attrKey "buffer") v l)) := fun _ => rfl
  rw [hset, bind_val', hit, bind_val']
  have hR : (extractAll B.out.reverse >>= fun l => (.val (l, buf.drop B.start) : Res (List (Msg × Val) × List Byte)))
      >>= (fun p => (.val (.tuple [.dict (setPair (attrKey "buffer") (encBytes p.2) l), encR p.1]) : Res Val)) =
      (extractAll B.out.reverse >>= fun l' =>
        (fun l'' => (.val (.tuple [.dict (setPair (attrKey "buffer") (encBytes (buf.drop B.start)) l), encR l'']) : Res Val))
          ([] ++ l')) := by
    generalize extractAll B.out.reverse = r
    rcases r with (x | _ | _) <;> rfl
  rw [hR]
  refine loop3 _ ?step2 _
    (fun l'' => (.val (.tuple [.dict (setPair (attrKey "buffer") (encBytes (buf.drop B.start)) l), encR l'']) : Res Val))
    ?hK B.out.reverse ?hfr _ [] ?h0
  case h0 => rfl
  case hfr =>
    intro fr hfr
    exact hgood.1 fr (List.mem_reverse.1 hfr)
  case hK =>
    intro st' l h
    simp only [h, Res.pure_eq]
  case step2 =>
    intro frame hne hlt st msgs hst
    obtain ⟨mm0, ts0, mt0, df0, rr0, ra0, sl0, db0, msg0, messages0⟩ := st
    simp only at hst
    subst hst
    obtain ⟨t, rest, rfl⟩ : ∃ t rest, frame = t :: rest := by
      cases frame with
      | nil => exact absurd rfl hne
      | cons t rest => exact ⟨t, rest, rfl⟩
    have htime : Gen.Ext.time_time = .val (.num 0) := rfl
    have hlen : ∀ m : Msg, pyLen (.str m) = .val (Val.ofNat m.length) := fun _ => rfl
    have hfmt : ∀ (p : List Byte), (∀ b ∈ p, b < 256) → ∀ b ∈ p,
        (fun x__5 => do
          let __do_lift ← pyFmtHexU 2 x__5
          pure (some __do_lift) : Val → Res (Option Val)) (Val.ofNat b) = .val (some (.str (hex2 b))) := by
      intro p hp b hbp
      simp only [fmt2 b (hp b hbp), bind_val', Res.pure_eq]
    have hsl : ∀ a c, ∀ b ∈ slice a c (t :: rest), b < 256 := by
      intro a c b hbm
      exact hlt b (List.mem_of_mem_drop (List.mem_of_mem_take hbm))
    have h7 : ∀ c, (hexOfBytes (slice 8 c (t :: rest))).length ∈ [14, 28] → 7 < (t :: rest).length := by
      intro c hc
      rw [hexOfBytes_length, slice_length] at hc
      simp only [List.mem_cons, List.not_mem_nil, or_false] at hc
      omega
    rw [beastExtractRssi_cons]
    simp only [htime, bind_val', pyIdxN_bytes (t :: rest) 0 (by simp), List.getD_cons_zero, eq50, eq51, pyTruth_bool,
      pySliceNN_bytes]
    by_cases h50 : t = 50
    · simp only [h50, decide_true, if_true]
      rw [← h50, pyComp_hex _ (slice 8 15 (t :: rest)) (hfmt _ (hsl 8 15))]
      simp only [bind_val', pyJoin_hex]
      have hx := isHex_hexOfBytes (slice 8 15 (t :: rest))
      have h7' := h7 15
      generalize hexOfBytes (slice 8 15 (t :: rest)) = m at hx h7'
      simp only [hlen, notin1428, bind_val', pyTruth_bool]
      rssi_check
    · by_cases h51 : t = 51
      · simp only [h50, h51, decide_true, decide_false, Bool.false_eq_true, if_true, if_false, Nat.reduceEqDiff]
        rw [← h51, pyComp_hex _ (slice 8 22 (t :: rest)) (hfmt _ (hsl 8 22))]
        simp only [bind_val', pyJoin_hex]
        have hx := isHex_hexOfBytes (slice 8 22 (t :: rest))
        have h7' := h7 22
        generalize hexOfBytes (slice 8 22 (t :: rest)) = m at hx h7'
        simp only [hlen, notin1428, bind_val', pyTruth_bool]
        rssi_check
      · simp only [h50, h51, decide_false, Bool.false_eq_true, if_false, Res.pure_eq, StepRel, Option.toList,
          List.append_nil]
        exact ⟨_, rfl, rfl⟩

end PyModeS.Tie

/-! ### the RSSI reader against the plain Beast reader, and chunk invariance -/

namespace PyModeS.Tie.BeastRssi
open PyModeS PyModeS.Py PyModeS.CRC PyModeS.Tie PyModeS.Tie.Beast PyModeS.C16Gen

theorem rssiChk_val (mm : List Byte) (m : Msg) (o : Option (Msg × Val)) (h : rssiChk mm m = .val o) :
    o.map Prod.fst = chk m := by
  unfold rssiChk at h
  by_cases hl : m.length ≠ 14 ∧ m.length ≠ 28
  · rw [if_pos hl] at h
    cases h
    simp [chk, hl]
  · rw [if_neg hl] at h
    generalize rssiDb (mm.getD 7 0) = r at h
    rcases r with (x | _ | _)
    · rw [bind_val'] at h
      cases h
      cases chk m <;> rfl
    · cases h
    · cases h

/-- when the signal level of a frame can be computed, the message is the one of `beastExtract` -/
theorem beastExtractRssi_val (mm : List Byte) (o : Option (Msg × Val)) (h : beastExtractRssi mm = .val o) :
    o.map Prod.fst = beastExtract mm := by
  cases mm with
  | nil => cases h; rfl
  | cons t rest =>
    rw [beastExtractRssi_cons] at h
    rw [beastExtract_cons]
    by_cases h50 : t = 50
    · rw [if_pos h50] at h ⊢; exact rssiChk_val _ _ _ h
    · rw [if_neg h50] at h ⊢
      by_cases h51 : t = 51
      · rw [if_pos h51] at h ⊢; exact rssiChk_val _ _ _ h
      · rw [if_neg h51] at h ⊢; cases h; rfl

theorem extractAll_val : ∀ (frames : List (List Byte)) (l : List (Msg × Val)), extractAll frames = .val l →
    l.map Prod.fst = frames.filterMap beastExtract
  | [], l, h => by cases h; rfl
  | fr :: frs, l, h => by
    rw [extractAll] at h
    rcases hr : beastExtractRssi fr with (o | _ | _)
    · rw [hr, bind_val'] at h
      rcases hr2 : extractAll frs with (l2 | _ | _)
      · rw [hr2, bind_val'] at h
        cases h
        rw [List.map_append, extractAll_val frs l2 hr2, List.filterMap_cons, ← beastExtractRssi_val fr o hr]
        cases o <;> rfl
      · rw [hr2] at h; cases h
      · rw [hr2] at h; cases h
    · rw [hr] at h; cases h
    · rw [hr] at h; cases h

/-- **The RSSI reader frames like the plain reader.**  Whenever the call returns, its message texts are those of
    `readBeast` and the retained buffer is the same. -/
theorem readBeastRssi_val (buf : List Byte) (p : List (Msg × Val) × List Byte) (h : readBeastRssi buf = .val p) :
    p.1.map Prod.fst = (readBeast buf).1 ∧ p.2 = (readBeast buf).2 := by
  unfold readBeastRssi at h
  rcases hr : extractAll (beastScan buf [] [] buf).1 with (l | _ | _)
  · rw [hr, bind_val'] at h
    cases h
    exact ⟨extractAll_val _ _ hr, rfl⟩
  · rw [hr] at h; cases h
  · rw [hr] at h; cases h

/-- the signal level never fails with `RuntimeError` (only with the exception of `log10`) -/
theorem rssiDb_ne_rte (b : Byte) : rssiDb b ≠ .rte := by
  unfold rssiDb Gen.Ext.math_log10 Gen.Ext.float1
  simp only [Py.Val.num?]
  split_ifs
  · intro h; cases h
  · intro h; cases h
  · rw [bind_val']
    intro h
    simp [pyMul, arith, Py.Val.num?] at h

theorem rssiChk_ne_rte (mm : List Byte) (m : Msg) : rssiChk mm m ≠ .rte := by
  unfold rssiChk
  split_ifs
  · intro h; cases h
  · have := rssiDb_ne_rte (mm.getD 7 0)
    generalize rssiDb (mm.getD 7 0) = r at this
    rcases r with (x | _ | _)
    · intro h; cases h
    · exact absurd rfl this
    · intro h; cases h

/-- a frame whose text has 14 or 28 digits and whose signal byte is `0`: the call fails, whatever the DF -/
theorem rssiChk_zero (mm : List Byte) (m : Msg) (h0 : mm.getD 7 0 = 0) (hl : m.length = 14 ∨ m.length = 28) :
    rssiChk mm m = .exc := by
  unfold rssiChk
  rw [if_neg (by omega), h0, rssiDb_zero]
  rfl

theorem beastExtractRssi_ne_rte (mm : List Byte) : beastExtractRssi mm ≠ .rte := by
  unfold beastExtractRssi
  cases beastText mm with
  | none => intro h; cases h
  | some m => exact rssiChk_ne_rte mm m

theorem extractAll_ne_rte : ∀ frames : List (List Byte), extractAll frames ≠ .rte
  | [] => by intro h; cases h
  | fr :: frs => by
    rw [extractAll]
    have h1 := beastExtractRssi_ne_rte fr
    have h2 := extractAll_ne_rte frs
    generalize beastExtractRssi fr = r1 at h1
    rcases r1 with (o | _ | _)
    · rw [bind_val']
      generalize extractAll frs = r2 at h2
      rcases r2 with (l | _ | _)
      · intro h; cases h
      · exact absurd rfl h2
      · intro h; cases h
    · exact absurd rfl h1
    · intro h; cases h

/-- the reader never raises `RuntimeError` -/
theorem readBeastRssi_ne_rte (buf : List Byte) : readBeastRssi buf ≠ .rte := by
  unfold readBeastRssi
  have := extractAll_ne_rte (beastScan buf [] [] buf).1
  generalize extractAll (beastScan buf [] [] buf).1 = r at this
  rcases r with (l | _ | _)
  · intro h; cases h
  · exact absurd rfl this
  · intro h; cases h

theorem extractAll_append : ∀ (a b : List (List Byte)),
    extractAll (a ++ b) = (extractAll a >>= fun l1 => extractAll b >>= fun l2 => .val (l1 ++ l2))
  | [], b => by
    rw [List.nil_append, extractAll, bind_val']
    rcases extractAll b with (l | _ | _) <;> rfl
  | fr :: a, b => by
    rw [List.cons_append, extractAll, extractAll, extractAll_append a b]
    rcases beastExtractRssi fr with (o | _ | _)
    · simp only [bind_val']
      rcases extractAll a with (l1 | _ | _)
      · simp only [bind_val']
        rcases extractAll b with (l2 | _ | _)
        · simp only [bind_val', List.append_assoc]
        · rfl
        · rfl
      · rfl
      · rfl
    · rfl
    · rfl

theorem readBeastRssi_nil : readBeastRssi [] = .val ([], []) := by
  simp [readBeastRssi, PyModeS.Stream.beastScan_nil, extractAll]

/-- two-chunk lemma for the RSSI reader, arbitrary bytes, failures included -/
theorem readBeastRssi_append (a b : List Byte) :
    readBeastRssi (a ++ b) =
      (readBeastRssi a >>= fun p => readBeastRssi (p.2 ++ b) >>= fun q => .val (p.1 ++ q.1, q.2)) := by
  have h := PyModeS.Stream.beastScan_append a [] [] a (PyModeS.Stream.Resume.init a) b
  unfold readBeastRssi
  rw [h]
  simp only [extractAll_append]
  generalize (beastScan a [] [] a).2 = st
  rcases extractAll (beastScan a [] [] a).1 with (l1 | _ | _)
  · simp only [bind_val']
    rcases extractAll (beastScan (st ++ b) [] [] (st ++ b)).1 with (l2 | _ | _)
    · simp only [bind_val']
    · rfl
    · rfl
  · rfl
  · rfl

theorem readBeastRssi_snd (buf : List Byte) (p : List (Msg × Val) × List Byte) (h : readBeastRssi buf = .val p) :
    p.2 <:+ buf := by
  rw [(readBeastRssi_val buf p h).2]
  exact readBeast_suffix buf

/-- the client loop on the model side: read after every chunk; the first failure ends it -/
def feedR : List (List Byte) → List Byte → Res (List (Msg × Val) × List Byte)
  | [], b => .val ([], b)
  | c :: cs, b => readBeastRssi (b ++ c) >>= fun p => feedR cs p.2 >>= fun q => .val (p.1 ++ q.1, q.2)

theorem feedR_resume : ∀ (cs : List (List Byte)) (s0 : List Byte),
    (readBeastRssi s0 >>= fun p => feedR cs p.2 >>= fun q => .val (p.1 ++ q.1, q.2)) =
      readBeastRssi (s0 ++ cs.flatten)
  | [], s0 => by
    simp only [feedR, bind_val', List.flatten_nil, List.append_nil]
    rcases readBeastRssi s0 with (p | _ | _) <;> rfl
  | c :: cs, s0 => by
    have e := feedR_resume cs (s0 ++ c)
    rw [readBeastRssi_append s0 c] at e
    rw [List.flatten_cons, ← List.append_assoc, ← e]
    simp only [feedR]
    rcases readBeastRssi s0 with (p | _ | _)
    · simp only [bind_val']
      rcases readBeastRssi (p.2 ++ c) with (p' | _ | _)
      · simp only [bind_val']
        rcases feedR cs p'.2 with (q | _ | _)
        · simp only [bind_val', List.append_assoc]
        · rfl
        · rfl
      · rfl
      · rfl
    · rfl
    · rfl

/-- **Chunk invariance of the model reader**, arbitrary bytes, failures included -/
theorem feedR_flatten (cs : List (List Byte)) : feedR cs [] = readBeastRssi cs.flatten := by
  have := feedR_resume cs []
  rw [readBeastRssi_nil, bind_val'] at this
  simp only [List.nil_append] at this
  rw [← this]
  rcases feedR cs [] with (q | _ | _) <;> rfl

/-- the `[msg, dbfs_rssi, ts]` items -/
def itemsR (l : List (Msg × Val)) : List Val := l.map fun p => .tuple [.str p.1, p.2, .num 0]

/-- one call of the generated reader on the receiver `l` with `self.buffer = b` -/
theorem rssi_call (l : List (Val × Val)) (b : List Byte) (hs : Small b) :
    Gen.tcpclient.TcpClient_read_beast_buffer_rssi_piaware (withBuf l b) =
      (readBeastRssi b >>= fun p => .val (.tuple [withBuf l p.2, .tuple (itemsR p.1)])) := by
  have h := TcpClient_read_beast_buffer_rssi_piaware_tie (setPair (attrKey "buffer") (bytesVal b) l) b
    (withBuf_find l b) hs.1 hs.2
  rw [withBuf, h]
  simp only [attrKey, Raw.setPair_setPair]
  rfl

theorem rssi_feed (l : List (Val × Val)) : ∀ (cs : List (List Byte)) (b : List Byte) (out : List Val),
    Small (b ++ cs.flatten) →
    genFeedFrom Gen.tcpclient.TcpClient_read_beast_buffer_rssi_piaware (withBuf l b) cs out =
      (feedR cs b >>= fun q => .val (withBuf l q.2, out ++ itemsR q.1))
  | [], b, out, _ => by simp [genFeedFrom, feedR, itemsR]
  | c :: cs, b, out, hs => by
    have hs' : Small ((b ++ c) ++ cs.flatten) := by simpa [List.append_assoc] using hs
    have hset : Val.dict (setPair (attrKey "buffer") (bytesVal (b ++ c)) l) = withBuf l (b ++ c) := rfl
    rw [genFeedFrom, withBuf_get, bind_val', pyExtend_bytes, bind_val', withBuf_set, bind_val', hset,
      rssi_call l (b ++ c) (Small_pre _ _ hs'), feedR]
    rcases hr : readBeastRssi (b ++ c) with (p | _ | _)
    · have hu : ∀ a r, unpack2 (.tuple [a, r]) = .val (a, r) := fun _ _ => rfl
      simp only [bind_val', hu]
      have hm : msgsOf (.tuple (itemsR p.1)) = itemsR p.1 := rfl
      rw [hm, rssi_feed l cs p.2 _ (Small_next _ _ _ (readBeastRssi_snd _ _ hr) hs')]
      rcases feedR cs p.2 with (q | _ | _)
      · simp only [bind_val', itemsR, List.map_append, List.append_assoc]
      · rfl
      · rfl
    · rfl
    · rfl

end PyModeS.Tie.BeastRssi
namespace PyModeS.Tie
open PyModeS PyModeS.Py PyModeS.CRC PyModeS.Tie.Beast PyModeS.Tie.BeastRssi PyModeS.C16Gen

/-- **Chunk invariance, generated RSSI Beast reader, arbitrary byte content, failures included.**  `l` is any
    receiver whose `buffer` is empty, `cs` any chunking of any stream of fewer than 2^20 bytes.  The client loop over
    the chunks (`genFeed`: `self.buffer.extend(chunk)`, then the reader) gives the same result as ONE call of the
    generated reader on the receiver holding the whole stream: the same `[msg, dbfs_rssi, ts]` items and final
    receiver, or the same failure (a signal byte `0` on a frame with 14 / 28 digits, see `rssiDb_zero`).  Both are
    the model reader `readBeastRssi` on the whole stream. -/
theorem TcpClient_read_beast_buffer_rssi_piaware_chunk_invariant_tie (l : List (Val × Val))
    (hbuf : dictFind l (attrKey "buffer") = some (bytesVal []))
    (cs : List (List Byte)) (hb : ∀ c ∈ cs, ∀ x ∈ c, x < 256) (hlen : cs.flatten.length < whileFuel) :
    genFeed Gen.tcpclient.TcpClient_read_beast_buffer_rssi_piaware (.dict l) cs =
      (readBeastRssi cs.flatten >>= fun p =>
        .val (.dict (setPair (attrKey "buffer") (bytesVal p.2) l), itemsR p.1)) ∧
    (Gen.tcpclient.TcpClient_read_beast_buffer_rssi_piaware
        (.dict (setPair (attrKey "buffer") (bytesVal cs.flatten) l)) >>= fun r =>
      unpack2 r >>= fun p => .val (p.1, msgsOf p.2)) =
      genFeed Gen.tcpclient.TcpClient_read_beast_buffer_rssi_piaware (.dict l) cs := by
  have hs := Small_of_chunks cs hb hlen
  have h1 : genFeed Gen.tcpclient.TcpClient_read_beast_buffer_rssi_piaware (.dict l) cs =
      (readBeastRssi cs.flatten >>= fun p =>
        .val (.dict (setPair (attrKey "buffer") (bytesVal p.2) l), itemsR p.1)) := by
    rw [genFeed, withBuf_of_find l [] hbuf, rssi_feed l cs [] [] (by simpa using hs), feedR_flatten]
    rcases readBeastRssi cs.flatten with (p | _ | _)
    · simp only [bind_val', List.nil_append]; rfl
    · rfl
    · rfl
  refine ⟨h1, ?_⟩
  rw [h1]
  have := rssi_call l cs.flatten hs
  rw [withBuf] at this
  rw [this]
  rcases readBeastRssi cs.flatten with (p | _ | _)
  · simp only [bind_val']; rfl
  · rfl
  · rfl

end PyModeS.Tie

