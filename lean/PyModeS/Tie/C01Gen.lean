/-
  C01 transported to the source-generated definition of `py_common.crc` (the Lean text py2lean.py produced from the
  current Python source, loops included): it computes the polynomial remainder modulo the Mode S generator, ignores
  the parity field when encoding, and never accepts a corrupted frame with a burst ≤ 24 bits or 1–5 flipped bits.
  Each statement composes `Tie.crc_tie` (generated = hand model) with a theorem of `Properties/C01.lean`.
-/
import PyModeS.Properties.C01
import PyModeS.Tie.Crc

-- symbolic execution of long generated `do` blocks: generous but finite budget (proof times are seconds)
set_option maxHeartbeats 1000000
namespace PyModeS.C01Gen
open PyModeS PyModeS.Py PyModeS.CRC

/-- the generated `crc(msg)` is the remainder of the frame polynomial modulo 0x1FFF409 (any even length ≥ 6 hex digits) -/
theorem crc_eq_remainder_tie (m : Msg) (h : IsHex m) (h6 : 6 ≤ m.length) (h2 : m.length % 2 = 0) :
    Gen.py_common.crc (.str m) (.bool false) = .val (Val.ofNat (Spec.remH (hex2binM m))) := by
  rw [Tie.crc_tie m h h6 false, C01.crc_eq_remainder_msg m h6 h2]

/-- the generated `crc(msg, encode=True)` depends on the data bits only: it is the remainder of data ++ 24 zeros -/
theorem crc_encode_ignores_parity_tie (m : Msg) (h : IsHex m) (h6 : 6 ≤ m.length) (h2 : m.length % 2 = 0) :
    Gen.py_common.crc (.str m) (.bool true) =
      .val (Val.ofNat (Spec.remH (hex2binM (dropLast 6 m) ++ List.replicate 24 false))) := by
  rw [Tie.crc_tie m h h6 true, C01.crc_encode_ignores_parity m h6 h2]

/-- a frame whose generated checksum is 0, corrupted by an error burst of at most 24 bits, has a non-zero generated checksum -/
theorem burst_detected_tie (m m' : Msg) (h : IsHex m) (h' : IsHex m') (h6 : 6 ≤ m.length) (h2 : m.length % 2 = 0)
    (hlen : m'.length = m.length)
    (hv : Gen.py_common.crc (.str m) (.bool false) = .val (Val.ofNat 0))
    (b : Bits) (k n : Nat) (hb : b.length ≤ 24) (ht : true ∈ b)
    (he : hex2binM m' = xorBits (hex2binM m) (List.replicate k false ++ b ++ List.replicate n false))
    (hl : (List.replicate k false ++ b ++ List.replicate n false).length = (hex2binM m).length) :
    Gen.py_common.crc (.str m') (.bool false) ≠ .val (Val.ofNat 0) := by
  rw [crc_eq_remainder_tie m h h6 h2] at hv
  have hv0 : Spec.remH (hex2binM m) = 0 := by
    have := Res.val.inj hv
    simpa [Val.ofNat] using this
  rw [crc_eq_remainder_tie m' h' (by omega) (by omega), he]
  intro hc
  have : Spec.remH (xorBits (hex2binM m) (List.replicate k false ++ b ++ List.replicate n false)) = 0 := by
    have := Res.val.inj hc
    simpa [Val.ofNat] using this
  exact C01.burst_detected (hex2binM m) _ b k n hv0 rfl hl hb ht this

/-- … and so has one with 1 to 5 flipped bits (frames of at most 112 bits) -/
theorem weight_le5_detected_tie (m m' : Msg) (h : IsHex m) (h' : IsHex m') (h6 : 6 ≤ m.length) (h2 : m.length % 2 = 0)
    (h28 : m.length ≤ 28) (hlen : m'.length = m.length)
    (hv : Gen.py_common.crc (.str m) (.bool false) = .val (Val.ofNat 0))
    (e : Bits) (he : hex2binM m' = xorBits (hex2binM m) e) (hl : e.length = (hex2binM m).length)
    (h1 : 1 ≤ Spec.weight e) (h5 : Spec.weight e ≤ 5) :
    Gen.py_common.crc (.str m') (.bool false) ≠ .val (Val.ofNat 0) := by
  rw [crc_eq_remainder_tie m h h6 h2] at hv
  have hv0 : Spec.remH (hex2binM m) = 0 := by
    have := Res.val.inj hv
    simpa [Val.ofNat] using this
  rw [crc_eq_remainder_tie m' h' (by omega) (by omega), he]
  intro hc
  have : Spec.remH (xorBits (hex2binM m) e) = 0 := by
    have := Res.val.inj hc
    simpa [Val.ofNat] using this
  have hlen112 : (hex2binM m).length ≤ 112 := by rw [hex2binM_length]; omega
  exact C01.weight_le5_detected (hex2binM m) e hv0 hlen112 hl h1 h5 this

end PyModeS.C01Gen
