/-
  Tie for `TcpClient.read_beast_buffer` (extra/tcpclient.py, property C16): the generated method (a `while` loop with
  fuel that splits `self.buffer` into un-escaped frames, then a `for` loop that extracts the messages) against
  `readBeast` / `beastScan` / `beastExtract` of Model/Stream.lean.
-/
import PyModeS.Tie.Basic
import PyModeS.Tie.Common
import PyModeS.Generated.Src.tcpclient
import PyModeS.Model.Stream

-- symbolic execution of long generated `do` blocks: generous but finite budget (proof times are seconds)
set_option maxHeartbeats 1000000

set_option linter.style.nameCheck false
set_option linter.unusedSimpArgs false
set_option linter.unusedVariables false
open PyModeS PyModeS.Py PyModeS.CRC PyModeS.Tie
namespace PyModeS.Tie.Beast

/-! ### attribute dictionaries with string keys -/


theorem dictFind_cons (k k' v : Val) (l : List (Val × Val)) :
    dictFind ((k', v) :: l) k = if Val.beq k k' then some v else dictFind l k := by
  unfold dictFind
  rw [List.find?_cons]
  by_cases h : Val.beq k k' = true
  · simp [h]
  · simp [h]

theorem setPair_cons (k k' v v' : Val) (l : List (Val × Val)) :
    setPair k v ((k', v') :: l) = if Val.beq k k' then (k', v) :: l else (k', v') :: setPair k v l := rfl

theorem beq_str_str (a b : List Char) : Val.beq (.str a) (.str b) = (a == b) := by simp [Val.beq]

theorem beq_str_iff (a : List Char) (k : Val) : Val.beq (.str a) k = true ↔ k = .str a := by
  cases k with
  | str b => rw [beq_str_str]; simp only [beq_iff_eq, Val.str.injEq]; exact eq_comm
  | none => simp [Val.beq]
  | bool b => simp [Val.beq]
  | num b => simp [Val.beq]
  | tuple b => simp [Val.beq]
  | dict b => simp [Val.beq]

theorem dictFind_setPair_same (a : List Char) (v : Val) (l : List (Val × Val)) :
    dictFind (setPair (.str a) v l) (.str a) = some v := by
  induction l with
  | nil => simp [setPair, dictFind_cons, beq_str_str]
  | cons kv l ih =>
    obtain ⟨k', v'⟩ := kv
    rw [setPair_cons]
    by_cases hb : Val.beq (.str a) k' = true
    · rw [if_pos hb, dictFind_cons, if_pos hb]
    · rw [if_neg hb, dictFind_cons, if_neg hb, ih]

theorem dictFind_setPair_ne (a b : List Char) (h : a ≠ b) (v : Val) (l : List (Val × Val)) :
    dictFind (setPair (.str a) v l) (.str b) = dictFind l (.str b) := by
  induction l with
  | nil => simp [setPair, dictFind_cons, beq_str_str, Ne.symm h]
  | cons kv l ih =>
    obtain ⟨k', v'⟩ := kv
    rw [setPair_cons]
    by_cases hb : Val.beq (.str a) k' = true
    · rw [if_pos hb]
      have hk := (beq_str_iff a k').1 hb
      subst hk
      simp [dictFind_cons, beq_str_str, Ne.symm h]
    · rw [if_neg hb, dictFind_cons, dictFind_cons, ih]

theorem setPair_setPair (a : List Char) (v v' : Val) (l : List (Val × Val)) :
    setPair (.str a) v' (setPair (.str a) v l) = setPair (.str a) v' l := by
  induction l with
  | nil => simp [setPair, beq_str_str]
  | cons kv l ih =>
    obtain ⟨k', v''⟩ := kv
    by_cases hb : Val.beq (.str a) k' = true
    · simp [setPair_cons, hb]
    · simp [setPair_cons, hb, ih]



theorem setPair_of_find (a : List Char) (v : Val) (l : List (Val × Val)) (h : dictFind l (.str a) = some v) :
    setPair (.str a) v l = l := by
  induction l with
  | nil => simp [dictFind] at h
  | cons kv l ih =>
    obtain ⟨k', v'⟩ := kv
    rw [dictFind_cons] at h
    rw [setPair_cons]
    by_cases hb : Val.beq (.str a) k' = true
    · rw [if_pos hb] at h ⊢
      cases h; rfl
    · rw [if_neg hb] at h ⊢
      rw [ih h]

/-! ### bytes -/

def encBytes (l : List Byte) : Val := .tuple (l.map Val.ofNat)

/-- the receiver `l` with `self.buffer = buf` -/
def selfB (l : List (Val × Val)) (buf : List Byte) : Val :=
  .dict (setPair (attrKey "buffer") (encBytes buf) l)

theorem get_buf (l : List (Val × Val)) (buf : List Byte) :
    pyGetAttr (selfB l buf) "buffer" = .val (encBytes buf) := by
  simp only [pyGetAttr, selfB, attrKey, dictFind_setPair_same]

theorem set_buf (l : List (Val × Val)) (buf buf' : List Byte) :
    pySetAttr (selfB l buf) "buffer" (encBytes buf') = .val (selfB l buf') := by
  simp only [pySetAttr, selfB, attrKey, setPair_setPair]

theorem len_bytes (buf : List Byte) : pyLen (encBytes buf) = .val (Val.ofNat buf.length) := by
  simp [pyLen, encBytes]

theorem pyIdx_bytes (buf : List Byte) (k : Nat) (h : k < buf.length) :
    Py.pyIdx (encBytes buf) (Val.ofNat k) = .val (Val.ofNat (buf.getD k 0)) := by
  have hk : ¬ ((k : Int) < 0) := by omega
  have e : Val.ofNat k = .num (k : Rat) := rfl
  have hi : (Val.num (k : Rat)).int? = some (k : Int) := int?_ofNat k
  rw [e]
  simp only [Py.pyIdx, encBytes, hi, idxList, hk, if_false, Int.toNat_natCast]
  simp [h]

theorem pyIdxN_bytes (buf : List Byte) (k : Nat) (h : k < buf.length) :
    pyIdxN (encBytes buf) k = .val (Val.ofNat (buf.getD k 0)) := by
  simp [pyIdxN, encBytes, h]

theorem optInt_ofNat (n : Nat) : optInt (some (Val.ofNat n)) = .val (some (n : Int)) := by
  have := int?_ofNat n
  unfold Val.ofNat at this ⊢
  simp only [optInt, this]

theorem pySlice_bytes (buf : List Byte) (a b : Nat) :
    pySlice (encBytes buf) (some (Val.ofNat a)) (some (Val.ofNat b)) = .val (encBytes (slice a b buf)) := by
  simp only [pySlice, optInt_ofNat, bind_val', encBytes, sliceList, normBound_nonneg, List.length_map]
  simp only [slice, List.map_take, List.map_drop]
  congr 2
  rcases Nat.lt_or_ge buf.length a with hlt | hge
  · rw [Nat.min_eq_right (Nat.le_of_lt hlt), List.drop_eq_nil_of_le (by simp), List.drop_eq_nil_of_le (by simp; omega)]
    simp
  · rw [Nat.min_eq_left hge]
    rcases Nat.lt_or_ge buf.length b with hlt2 | hge2
    · rw [Nat.min_eq_right (Nat.le_of_lt hlt2)]
      rw [List.take_of_length_le (by simp only [List.length_drop, List.length_map]; omega),
        List.take_of_length_le (by simp only [List.length_drop, List.length_map]; omega)]
    · rw [Nat.min_eq_left hge2]

theorem pySlice_bytes_from (buf : List Byte) (k : Nat) :
    pySlice (encBytes buf) (some (Val.ofNat k)) none = .val (encBytes (buf.drop k)) := by
  have i1 : optInt none = .val none := rfl
  simp only [pySlice, optInt_ofNat, i1, bind_val', encBytes, sliceList, normBound_nonneg, List.length_map, slice]
  congr 2
  rw [← List.map_drop]
  rcases Nat.lt_or_ge buf.length k with hlt | hge
  · rw [Nat.min_eq_right (Nat.le_of_lt hlt), List.drop_eq_nil_of_le (Nat.le_of_lt hlt)]
    simp
  · rw [Nat.min_eq_left hge, List.take_of_length_le (by simp)]

theorem pySliceN_bytes (buf : List Byte) (k : Nat) : pySliceN_ (encBytes buf) k = .val (encBytes (buf.drop k)) := by
  simp [pySliceN_, encBytes, List.map_drop]

/-! ### numbers -/

theorem pyAdd_ofNat (a k : Nat) : pyAdd (Val.ofNat a) (.num (k : Rat)) = .val (Val.ofNat (a + k)) := by
  simp [pyAdd, arith, Val.ofNat]
theorem bitop_lit (f : Nat → Nat → Nat) (a k : Nat) :
    bitop f (Val.ofNat a) (.num (k : Rat)) = .val (Val.ofNat (f a k)) := bitop_ofNat f a k

theorem add1 (a : Nat) : pyAdd (Val.ofNat a) (.num 1) = .val (Val.ofNat (a + 1)) := by simpa using pyAdd_ofNat a 1
theorem add3 (a : Nat) : pyAdd (Val.ofNat a) (.num 3) = .val (Val.ofNat (a + 3)) := pyAdd_ofNat a 3
theorem add6 (a : Nat) : pyAdd (Val.ofNat a) (.num 6) = .val (Val.ofNat (a + 6)) := pyAdd_ofNat a 6
theorem add7 (a : Nat) : pyAdd (Val.ofNat a) (.num 7) = .val (Val.ofNat (a + 7)) := pyAdd_ofNat a 7
theorem add14 (a : Nat) : pyAdd (Val.ofNat a) (.num 14) = .val (Val.ofNat (a + 14)) := pyAdd_ofNat a 14
theorem add24 (a : Nat) : pyAdd (Val.ofNat a) (.num 24) = .val (Val.ofNat (a + 24)) := pyAdd_ofNat a 24
theorem shr7 (a : Nat) : pyShr (Val.ofNat a) (.num 7) = .val (Val.ofNat (a >>> 7)) := bitop_lit _ a 7
theorem shr6 (a : Nat) : pyShr (Val.ofNat a) (.num 6) = .val (Val.ofNat (a >>> 6)) := bitop_lit _ a 6
theorem shl10 (a : Nat) : pyShl (Val.ofNat a) (.num 10) = .val (Val.ofNat (a <<< 10)) := bitop_lit _ a 10
theorem shl2 (a : Nat) : pyShl (Val.ofNat a) (.num 2) = .val (Val.ofNat (a <<< 2)) := bitop_lit _ a 2
theorem shl24 (a : Nat) : pyShl (Val.ofNat a) (.num 24) = .val (Val.ofNat (a <<< 24)) := bitop_lit _ a 24
theorem shl16 (a : Nat) : pyShl (Val.ofNat a) (.num 16) = .val (Val.ofNat (a <<< 16)) := bitop_lit _ a 16
theorem shl8 (a : Nat) : pyShl (Val.ofNat a) (.num 8) = .val (Val.ofNat (a <<< 8)) := bitop_lit _ a 8
theorem and127 (a : Nat) : pyBitAnd (Val.ofNat a) (.num 127) = .val (Val.ofNat (a &&& 127)) := bitop_lit _ a 127
theorem and63 (a : Nat) : pyBitAnd (Val.ofNat a) (.num 63) = .val (Val.ofNat (a &&& 63)) := bitop_lit _ a 63
theorem bitor (a b : Nat) : pyBitOr (Val.ofNat a) (Val.ofNat b) = .val (Val.ofNat (a ||| b)) := bitop_ofNat _ a b
theorem eq36 (n : Nat) : pyEq (Val.ofNat n) (.num 36) = .val (.bool (decide (n = 36))) := pyEq_ofNat n 36
theorem gt24 (n : Nat) : pyGt (Val.ofNat n) (.num 24) = .val (.bool (decide (24 < n))) := by
  have : pyGt (Val.ofNat n) (.num ((24 : Nat) : Rat)) = .val (.bool (decide (24 < n))) := by
    simp [pyGt, cmpNum, Val.ofNat]
  exact this
theorem le24 (n : Nat) : pyLe (Val.ofNat n) (.num 24) = .val (.bool (decide (n ≤ 24))) := by
  have : pyLe (Val.ofNat n) (.num ((24 : Nat) : Rat)) = .val (.bool (decide (n ≤ 24))) := by
    simp [pyLe, cmpNum, Val.ofNat]
  exact this
theorem pyMul_ofNat_num (n : Nat) (q : Rat) : pyMul (Val.ofNat n) (.num q) = .val (.num ((n : Rat) * q)) := rfl
theorem pyAdd_ofNat_num (n : Nat) (q : Rat) : pyAdd (Val.ofNat n) (.num q) = .val (.num ((n : Rat) + q)) := rfl


/-! ### `"".join("%02X" % j for j in payload)` -/

theorem fmt2 (b : Nat) (h : b < 256) : pyFmtHexU 2 (Val.ofNat b) = .val (.str (hex2 b)) := by
  have := pad_toDigits_eq_hexN 1 b (by simpa using h)
  simp only [pyFmtHexU, int?_ofNat]
  show Res.val (Val.str _) = _
  rw [this]
  rfl

theorem compList_hex (f : Val → Res (Option Val)) (p : List Byte)
    (hf : ∀ b ∈ p, f (Val.ofNat b) = .val (some (.str (hex2 b)))) :
    compList f (p.map Val.ofNat) = .val (p.map fun b => .str (hex2 b)) := by
  induction p with
  | nil => rfl
  | cons b p ih =>
    simp only [List.map_cons, compList, hf b (by simp), ih (fun c hc => hf c (List.mem_cons_of_mem _ hc))]

theorem pyComp_hex (f : Val → Res (Option Val)) (p : List Byte)
    (hf : ∀ b ∈ p, f (Val.ofNat b) = .val (some (.str (hex2 b)))) :
    pyComp (encBytes p) f = .val (.tuple (p.map fun b => .str (hex2 b))) := by
  have hit : pyIter (encBytes p) = .val (p.map Val.ofNat) := rfl
  simp only [pyComp, hit, bind_val', compList_hex f p hf, Res.pure_eq]

theorem mapM_str (g : Val → Option (List Char)) (hg : ∀ t, g (.str t) = some t) (ss : List (List Char)) :
    (ss.map Val.str).mapM g = some ss := by
  induction ss with
  | nil => rfl
  | cons a ss ih => simp [List.mapM_cons, hg, ih]

theorem flatten_intersperse_nil : ∀ ss : List (List Char), (List.intersperse [] ss).flatten = ss.flatten
  | [] => rfl
  | [a] => rfl
  | a :: b :: rest => by
    have ih := flatten_intersperse_nil (b :: rest)
    simp only [List.intersperse, List.flatten_cons, List.nil_append] at ih ⊢
    rw [ih]

theorem pyJoin_hex (p : List Byte) :
    pyJoin (.str []) (.tuple (p.map fun b => .str (hex2 b))) = .val (.str (hexOfBytes p)) := by
  have e : (p.map fun b => Val.str (hex2 b)) = (p.map hex2).map Val.str := by rw [List.map_map]; rfl
  rw [e]
  simp only [pyJoin]
  rw [mapM_str _ (fun t => rfl)]
  simp only [List.intercalate, flatten_intersperse_nil, hexOfBytes, List.flatMap]


/-! ### the `while` loop of `read_beast_buffer` on indices, as in the source -/

/-- `messages_mlat` (newest first), `msg`, `i`, `start` -/
structure BS where
  out : List (List Byte)
  msg : List Byte
  i : Nat
  start : Nat

/-- one iteration; `none`: the loop ends (condition false, or `break`) -/
def bStep (buf : List Byte) (s : BS) : Option BS :=
  if ¬ s.i < buf.length then none
  else if slice s.i (s.i + 2) buf = [26, 26] then some ⟨s.out, s.msg ++ [26], s.i + 2, s.start⟩
  else if s.i = buf.length - 1 ∧ buf.getD s.i 0 = 26 then none
  else if buf.getD s.i 0 = 26 then some ⟨if 0 < s.msg.length then s.msg :: s.out else s.out, [], s.i + 1, s.i⟩
  else some ⟨s.out, s.msg ++ [buf.getD s.i 0], s.i + 1, s.start⟩

def bIter (buf : List Byte) : Nat → BS → BS
  | 0, s => s
  | n + 1, s => match bStep buf s with
    | none => s
    | some s' => bIter buf n s'

theorem drop_eq_cons_getD (buf : List Byte) (i : Nat) (h : i < buf.length) :
    buf.drop i = buf.getD i 0 :: buf.drop (i + 1) := by
  rw [List.drop_eq_getElem_cons h]
  simp [h]

theorem bStep_done (buf : List Byte) (s : BS) (h : ¬ s.i < buf.length) : bStep buf s = none := by
  unfold bStep; rw [if_pos h]
theorem bStep_esc (buf : List Byte) (s : BS) (h : s.i < buf.length) (hsl : slice s.i (s.i + 2) buf = [26, 26]) :
    bStep buf s = some ⟨s.out, s.msg ++ [26], s.i + 2, s.start⟩ := by
  unfold bStep; rw [if_neg (not_not_intro h), if_pos hsl]
theorem bStep_last (buf : List Byte) (s : BS) (h : s.i < buf.length) (hsl : ¬ slice s.i (s.i + 2) buf = [26, 26])
    (hl : s.i = buf.length - 1 ∧ buf.getD s.i 0 = 26) : bStep buf s = none := by
  unfold bStep; rw [if_neg (not_not_intro h), if_neg hsl, if_pos hl]
theorem bStep_div (buf : List Byte) (s : BS) (h : s.i < buf.length) (hsl : ¬ slice s.i (s.i + 2) buf = [26, 26])
    (hl : ¬ (s.i = buf.length - 1 ∧ buf.getD s.i 0 = 26)) (hd : buf.getD s.i 0 = 26) :
    bStep buf s = some ⟨if 0 < s.msg.length then s.msg :: s.out else s.out, [], s.i + 1, s.i⟩ := by
  unfold bStep; rw [if_neg (not_not_intro h), if_neg hsl, if_neg hl, if_pos hd]
theorem bStep_byte (buf : List Byte) (s : BS) (h : s.i < buf.length) (hsl : ¬ slice s.i (s.i + 2) buf = [26, 26])
    (hl : ¬ (s.i = buf.length - 1 ∧ buf.getD s.i 0 = 26)) (hd : ¬ buf.getD s.i 0 = 26) :
    bStep buf s = some ⟨s.out, s.msg ++ [buf.getD s.i 0], s.i + 1, s.start⟩ := by
  unfold bStep; rw [if_neg (not_not_intro h), if_neg hsl, if_neg hl, if_neg hd]

theorem bIter_none (buf : List Byte) (n : Nat) (s : BS) (h : bStep buf s = none) : bIter buf (n + 1) s = s := by
  rw [bIter, h]
theorem bIter_some (buf : List Byte) (n : Nat) (s s' : BS) (h : bStep buf s = some s') :
    bIter buf (n + 1) s = bIter buf n s' := by
  rw [bIter, h]

/-- `beastScan` of the hand model (on suffixes of the buffer) is the iteration of `bStep` (on indices) -/
theorem beastScan_eq_bIter (buf : List Byte) :
    ∀ (n : Nat) (s : BS), buf.length ≤ s.i + n → s.i ≤ buf.length →
      beastScan (buf.drop s.i) s.msg s.out (buf.drop s.start) =
        ((bIter buf n s).out.reverse, buf.drop (bIter buf n s).start) ∧
      bStep buf (bIter buf n s) = none := by
  intro n
  induction n using Nat.strong_induction_on with
  | _ n ih =>
    intro s hn hi
    rcases Nat.lt_or_ge s.i buf.length with hlt | hge
    swap
    · -- the buffer is used up
      have hnil : buf.drop s.i = [] := List.drop_eq_nil_of_le hge
      have hst := bStep_done buf s (Nat.not_lt.2 hge)
      have hbi : bIter buf n s = s := by
        cases n with
        | zero => rfl
        | succ n => exact bIter_none buf n s hst
      rw [hnil, beastScan, hbi]
      exact ⟨rfl, hst⟩
    · have hd := drop_eq_cons_getD buf s.i hlt
      obtain ⟨n', rfl⟩ : ∃ n', n = n' + 1 := ⟨n - 1, by omega⟩
      rcases Nat.lt_or_ge (s.i + 1) buf.length with hlt2 | hge2
      · -- at least two bytes left
        have hd2 := drop_eq_cons_getD buf (s.i + 1) hlt2
        have hsl : slice s.i (s.i + 2) buf = [buf.getD s.i 0, buf.getD (s.i + 1) 0] := by
          simp only [slice, hd, hd2, Nat.add_sub_cancel_left, List.take_succ_cons, List.take_zero]
        have hnl : ¬ (s.i = buf.length - 1 ∧ buf.getD s.i 0 = 26) := by omega
        rw [hd, hd2, beastScan]
        by_cases hesc : buf.getD s.i 0 = 0x1A ∧ buf.getD (s.i + 1) 0 = 0x1A
        · have hst := bStep_esc buf s hlt (by rw [hsl, hesc.1, hesc.2])
          rw [if_pos hesc, bIter_some buf _ s _ hst]
          exact ih n' (by omega) ⟨s.out, s.msg ++ [26], s.i + 2, s.start⟩ (by simp only; omega) (by simp only; omega)
        · rw [if_neg hesc]
          have hsl' : ¬ slice s.i (s.i + 2) buf = [26, 26] := by
            rw [hsl]; intro e; injection e with e1 e2; injection e2 with e2 _; exact hesc ⟨e1, e2⟩
          by_cases hdiv : buf.getD s.i 0 = 0x1A
          · have hst := bStep_div buf s hlt hsl' hnl hdiv
            rw [if_pos hdiv, bIter_some buf _ s _ hst]
            have := ih n' (by omega) ⟨if 0 < s.msg.length then s.msg :: s.out else s.out, [], s.i + 1, s.i⟩
              (by simp only; omega) (by simp only; omega)
            simp only at this
            rw [hd2, hd, hd2] at this
            have hemp : (if s.msg.isEmpty then s.out else s.msg :: s.out) =
                (if 0 < s.msg.length then s.msg :: s.out else s.out) := by
              cases s.msg <;> simp
            rw [hemp]
            exact this
          · have hst := bStep_byte buf s hlt hsl' hnl hdiv
            rw [if_neg hdiv, bIter_some buf _ s _ hst]
            have := ih n' (by omega) ⟨s.out, s.msg ++ [buf.getD s.i 0], s.i + 1, s.start⟩
              (by simp only; omega) (by simp only; omega)
            simp only at this
            rw [hd2] at this
            exact this
      · -- exactly one byte left
        have hnil : buf.drop (s.i + 1) = [] := List.drop_eq_nil_of_le hge2
        have hsl' : ¬ slice s.i (s.i + 2) buf = [26, 26] := by
          intro e
          have := congrArg List.length e
          simp [slice] at this
          omega
        rw [hd, hnil, beastScan]
        by_cases hdiv : buf.getD s.i 0 = 0x1A
        · have hst := bStep_last buf s hlt hsl' ⟨by omega, hdiv⟩
          rw [if_pos hdiv, bIter_none buf _ s hst]
          exact ⟨rfl, hst⟩
        · have hnl : ¬ (s.i = buf.length - 1 ∧ buf.getD s.i 0 = 26) := fun h => hdiv h.2
          have hst := bStep_byte buf s hlt hsl' hnl hdiv
          rw [if_neg hdiv, bIter_some buf _ s _ hst]
          have := ih n' (by omega) ⟨s.out, s.msg ++ [buf.getD s.i 0], s.i + 1, s.start⟩
            (by simp only; omega) (by simp only; omega)
          simp only at this
          rw [hnil] at this
          exact this

/-! ### first loop: the generated `while` against `bIter` -/

def encMlat (l : List (List Byte)) : Val := .tuple (l.map encBytes)

abbrev S1 := Val × Val × Val × Val × Bool

def encS (s : BS) (fl : Bool) : S1 := (encMlat s.out.reverse, encBytes s.msg, Val.ofNat s.i, Val.ofNat s.start, fl)

theorem loop1 (buf : List Byte) (f : Nat → S1 → Res (ForInStep S1))
    (hstep : ∀ x s, f x (encS s true) = .val (match bStep buf s with
      | none => .done (encS s false)
      | some s' => .yield (encS s' true))) :
    ∀ (n : Nat) (s : BS) (a r : Nat), n < r → bStep buf (bIter buf n s) = none →
      forIn (List.range' a r 1) (encS s true) f = Res.val (encS (bIter buf n s) false) := by
  intro n
  induction n with
  | zero =>
    intro s a r hr hnone
    obtain ⟨r', rfl⟩ : ∃ r', r = r' + 1 := ⟨r - 1, by omega⟩
    rw [bIter] at hnone ⊢
    rw [List.range'_succ, List.forIn_cons, hstep, hnone, bind_val']
    rfl
  | succ n ih =>
    intro s a r hr hnone
    obtain ⟨r', rfl⟩ : ∃ r', r = r' + 1 := ⟨r - 1, by omega⟩
    rw [List.range'_succ, List.forIn_cons, hstep, bind_val']
    cases hst : bStep buf s with
    | none =>
      rw [bIter_none buf n s hst]
      rfl
    | some s' =>
      rw [bIter_some buf n s s' hst] at hnone ⊢
      simp only []
      exact ih s' (a + 1) r' (by omega) hnone

theorem beqList_bytes (x y : List Byte) : Val.beqList (x.map Val.ofNat) (y.map Val.ofNat) = decide (x = y) := by
  induction x generalizing y with
  | nil => cases y <;> simp [Val.beqList]
  | cons a x ih =>
    cases y with
    | nil => simp [Val.beqList]
    | cons b y =>
      have hab : (Val.ofNat a).beq (Val.ofNat b) = decide (a = b) := ofNat_beq a b
      simp only [List.map_cons, Val.beqList, hab, ih, List.cons.injEq, Bool.decide_and]

theorem pyEq_bytes (x y : List Byte) : pyEq (encBytes x) (encBytes y) = .val (.bool (decide (x = y))) := by
  simp only [pyEq, encBytes, Val.beq, beqList_bytes]

theorem pyEq_ofNat2 (a b : Nat) : pyEq (Val.ofNat a) (Val.ofNat b) = .val (.bool (decide (a = b))) := pyEq_ofNat a b
theorem pyLt_ofNat2 (a b : Nat) : pyLt (Val.ofNat a) (Val.ofNat b) = .val (.bool (decide (a < b))) := by
  simp [pyLt, cmpNum, Val.ofNat]
theorem pySub_one (a : Nat) (h : 1 ≤ a) : pySub (Val.ofNat a) (.num 1) = .val (Val.ofNat (a - 1)) := by
  simp [Val.ofNat, Nat.cast_sub h, pySub, arith]
theorem add2 (a : Nat) : pyAdd (Val.ofNat a) (.num 2) = .val (Val.ofNat (a + 2)) := pyAdd_ofNat a 2
theorem eq26 (n : Nat) : pyEq (Val.ofNat n) (.num 26) = .val (.bool (decide (n = 26))) := pyEq_ofNat n 26
theorem gt0 (n : Nat) : pyGt (Val.ofNat n) (.num 0) = .val (.bool (decide (0 < n))) := by
  simp [pyGt, cmpNum, Val.ofNat]
theorem app26 (m : List Byte) : pyAppend (encBytes m) (.num 26) = .val (encBytes (m ++ [26])) := by
  simp [pyAppend, encBytes]; rfl
theorem appByte (m : List Byte) (b : Nat) : pyAppend (encBytes m) (Val.ofNat b) = .val (encBytes (m ++ [b])) := by
  simp [pyAppend, encBytes]
theorem appMlat (o : List (List Byte)) (m : List Byte) :
    pyAppend (encMlat o) (encBytes m) = .val (encMlat (o ++ [m])) := by
  simp [pyAppend, encMlat]

def encStamped (l : List Msg) : Val := .tuple (l.map fun m => .tuple [.str m, .num 0])


/-! ### frames collected by the first loop are non-empty lists of bytes -/

def Good (s : BS) : Prop := (∀ fr ∈ s.out, fr ≠ [] ∧ ∀ b ∈ fr, b < 256) ∧ ∀ b ∈ s.msg, b < 256

theorem getD_lt (buf : List Byte) (hb : ∀ b ∈ buf, b < 256) (i : Nat) : buf.getD i 0 < 256 := by
  rcases Nat.lt_or_ge i buf.length with h | h
  · have : buf.getD i 0 = buf[i] := by simp [h]
    rw [this]; exact hb _ (List.getElem_mem h)
  · simp [List.getElem?_eq_none h]

theorem bStep_good (buf : List Byte) (hb : ∀ b ∈ buf, b < 256) (s s' : BS) (hg : Good s)
    (h : bStep buf s = some s') : Good s' := by
  obtain ⟨ho, hm⟩ := hg
  by_cases h1 : s.i < buf.length
  swap
  · rw [bStep_done buf s h1] at h; cases h
  by_cases h2 : slice s.i (s.i + 2) buf = [26, 26]
  · rw [bStep_esc buf s h1 h2] at h
    cases h
    refine ⟨ho, ?_⟩
    intro b hbm
    simp only [List.mem_append, List.mem_singleton] at hbm
    rcases hbm with h | h
    · exact hm b h
    · subst h; decide
  by_cases h3 : s.i = buf.length - 1 ∧ buf.getD s.i 0 = 26
  · rw [bStep_last buf s h1 h2 h3] at h; cases h
  by_cases h4 : buf.getD s.i 0 = 26
  · rw [bStep_div buf s h1 h2 h3 h4] at h
    cases h
    refine ⟨?_, fun b hbm => by simp at hbm⟩
    simp only
    by_cases hl : 0 < s.msg.length
    · rw [if_pos hl]
      intro fr hfr
      rcases List.mem_cons.1 hfr with h | h
      · subst h
        exact ⟨fun e => by simp [e] at hl, hm⟩
      · exact ho fr h
    · rw [if_neg hl]; exact ho
  · rw [bStep_byte buf s h1 h2 h3 h4] at h
    cases h
    refine ⟨ho, ?_⟩
    intro b hbm
    simp only [List.mem_append, List.mem_singleton] at hbm
    rcases hbm with h | h
    · exact hm b h
    · subst h; exact getD_lt buf hb _

theorem bIter_good (buf : List Byte) (hb : ∀ b ∈ buf, b < 256) (n : Nat) (s : BS) (hg : Good s) :
    Good (bIter buf n s) := by
  induction n generalizing s with
  | zero => exact hg
  | succ n ih =>
    cases h : bStep buf s with
    | none => rw [bIter_none buf n s h]; exact hg
    | some s' => rw [bIter_some buf n s s' h]; exact ih s' (bStep_good buf hb s s' hg h)

/-! ### second loop -/

abbrev S2 := Val × Val × Val × Val × Val × Val

theorem loop2 (f : Val → S2 → Res (ForInStep S2))
    (hstep : ∀ frame : List Byte, frame ≠ [] → (∀ b ∈ frame, b < 256) → ∀ (st : S2) (msgs : List Msg),
      st.2.2.2.2.2 = encStamped msgs →
      ∃ st', f (encBytes frame) st = .val (.yield st') ∧
        st'.2.2.2.2.2 = encStamped (msgs ++ (beastExtract frame).toList)) :
    ∀ (frames : List (List Byte)), (∀ fr ∈ frames, fr ≠ [] ∧ ∀ b ∈ fr, b < 256) →
      ∀ (st : S2) (msgs : List Msg), st.2.2.2.2.2 = encStamped msgs →
      ∃ st', forIn (frames.map encBytes) st f = .val st' ∧
        st'.2.2.2.2.2 = encStamped (msgs ++ frames.filterMap beastExtract) := by
  intro frames
  induction frames with
  | nil => intro _ st msgs h; exact ⟨st, rfl, by simpa using h⟩
  | cons fr frames ih =>
    intro hfr st msgs h
    obtain ⟨st1, e1, e2⟩ := hstep fr (hfr fr (by simp)).1 (hfr fr (by simp)).2 st msgs h
    obtain ⟨st2, e3, e4⟩ := ih (fun x hx => hfr x (List.mem_cons_of_mem _ hx)) st1 _ e2
    refine ⟨st2, ?_, ?_⟩
    · rw [List.map_cons, List.forIn_cons, e1, bind_val']
      exact e3
    · rw [e4, List.filterMap_cons]
      cases beastExtract fr <;> simp

theorem loop2_cont (f : Val → S2 → Res (ForInStep S2)) (K : S2 → Res Val) (R : Res Val)
    (hstep : ∀ frame : List Byte, frame ≠ [] → (∀ b ∈ frame, b < 256) → ∀ (st : S2) (msgs : List Msg),
      st.2.2.2.2.2 = encStamped msgs →
      ∃ st', f (encBytes frame) st = .val (.yield st') ∧
        st'.2.2.2.2.2 = encStamped (msgs ++ (beastExtract frame).toList))
    (frames : List (List Byte)) (hfr : ∀ fr ∈ frames, fr ≠ [] ∧ ∀ b ∈ fr, b < 256)
    (st : S2) (hst : st.2.2.2.2.2 = encStamped [])
    (hK : ∀ st' : S2, st'.2.2.2.2.2 = encStamped (frames.filterMap beastExtract) → K st' = R) :
    (forIn (frames.map encBytes) st f >>= K) = R := by
  obtain ⟨st', e1, e2⟩ := loop2 f hstep frames hfr st [] hst
  rw [e1, bind_val']
  exact hK st' (by simpa using e2)

/-! ### primitives of the second loop -/

theorem pySliceNN_bytes (fr : List Byte) (a b : Nat) :
    pySliceNN (encBytes fr) a b = .val (encBytes (slice a b fr)) := by
  simp [pySliceNN, encBytes, slice, List.map_take, List.map_drop]

theorem isHex_hexOfBytes (p : List Byte) : IsHex (hexOfBytes p) := by
  intro c hc
  simp only [hexOfBytes, List.mem_flatMap, hex2, List.mem_cons, List.not_mem_nil, or_false] at hc
  obtain ⟨b, _, hcb⟩ := hc
  rcases hcb with h | h <;> subst h
  · exact (hexDigitU_facts _ (Nat.mod_lt _ (by decide))).2.1
  · exact (hexDigitU_facts _ (Nat.mod_lt _ (by decide))).2.1

theorem hexOfBytes_length (p : List Byte) : (hexOfBytes p).length = 2 * p.length := by
  induction p with
  | nil => rfl
  | cons b p ih => simp only [hexOfBytes, List.flatMap_cons, List.length_append, List.length_cons] at ih ⊢; simp [hex2]; omega

theorem notin1428 (n : Nat) :
    pyNotIn (Val.ofNat n) (.tuple [.num 14, .num 28]) = .val (.bool (!decide (n ∈ [14, 28]))) := by
  have := pyNotIn_ofNat n [14, 28]
  simpa only [List.map_cons, List.map_nil, Nat.cast_ofNat] using this
theorem inShort (n : Nat) :
    pyIn (Val.ofNat n) (.tuple [.num 0, .num 4, .num 5, .num 11]) = .val (.bool (decide (n ∈ [0, 4, 5, 11]))) := by
  have := pyIn_ofNat n [0, 4, 5, 11]
  simpa only [List.map_cons, List.map_nil, Nat.cast_ofNat, Nat.cast_zero] using this
theorem inLong (n : Nat) :
    pyIn (Val.ofNat n) (.tuple [.num 16, .num 17, .num 18, .num 19, .num 20, .num 21, .num 24]) =
      .val (.bool (decide (n ∈ [16, 17, 18, 19, 20, 21, 24]))) := by
  have := pyIn_ofNat n [16, 17, 18, 19, 20, 21, 24]
  simpa only [List.map_cons, List.map_nil, Nat.cast_ofNat] using this
theorem ne14 (n : Nat) : pyNe (Val.ofNat n) (.num 14) = .val (.bool (!decide (n = 14))) := by
  have := ofNat_beq n 14
  simp only [pyNe]; rw [← this]; rfl
theorem ne28 (n : Nat) : pyNe (Val.ofNat n) (.num 28) = .val (.bool (!decide (n = 28))) := by
  have := ofNat_beq n 28
  simp only [pyNe]; rw [← this]; rfl
theorem eq50 (n : Nat) : pyEq (Val.ofNat n) (.num 50) = .val (.bool (decide (n = 50))) := pyEq_ofNat n 50
theorem eq51 (n : Nat) : pyEq (Val.ofNat n) (.num 51) = .val (.bool (decide (n = 51))) := pyEq_ofNat n 51
theorem appStamped (msgs : List Msg) (m : Msg) :
    pyAppend (encStamped msgs) (.tuple [.str m, .num 0]) = .val (encStamped (msgs ++ [m])) := by
  simp [pyAppend, encStamped]

/-- the checks of `beastExtract` on a candidate message -/
def chk (m : Msg) : Option Msg :=
  if m.length ≠ 14 ∧ m.length ≠ 28 then none else
  if (PyModeS.df m = 0 ∨ PyModeS.df m = 4 ∨ PyModeS.df m = 5 ∨ PyModeS.df m = 11) ∧ m.length ≠ 14 then none
  else if (PyModeS.df m = 16 ∨ PyModeS.df m = 17 ∨ PyModeS.df m = 18 ∨ PyModeS.df m = 19 ∨ PyModeS.df m = 20 ∨
    PyModeS.df m = 21 ∨ PyModeS.df m = 24) ∧ m.length ≠ 28 then none
  else some m

theorem beastExtract_cons (t : Byte) (rest : List Byte) :
    beastExtract (t :: rest) =
      if t = 50 then chk (hexOfBytes (slice 8 15 (t :: rest)))
      else if t = 51 then chk (hexOfBytes (slice 8 22 (t :: rest))) else none := by
  unfold beastExtract chk
  by_cases h50 : t = 50
  · simp [h50]
  · by_cases h51 : t = 51
    · simp [h51]
    · simp [h50, h51]

set_option hygiene false in
/-- the length / DF checks of the second loop on a candidate message `m` (`hx : IsHex m`) against `chk m` -/
macro "beast_check" : tactic => `(tactic|
  (by_cases hl : m.length ∈ [14, 28]
   · have hl2 : 2 ≤ m.length := by
       simp only [List.mem_cons, List.not_mem_nil, or_false] at hl; omega
     simp only [hl, decide_true, Bool.not_true, Bool.false_eq_true, if_false, df_str m hx hl2, bind_val', inShort, inLong,
       ne14, ne28, pyTruth_bool, Res.pure_eq, appStamped, List.mem_cons, List.not_mem_nil, or_false]
     simp only [List.mem_cons, List.not_mem_nil, or_false] at hl
     unfold chk
     by_cases hs : (PyModeS.df m = 0 ∨ PyModeS.df m = 4 ∨ PyModeS.df m = 5 ∨ PyModeS.df m = 11) <;>
     by_cases hL : (PyModeS.df m = 16 ∨ PyModeS.df m = 17 ∨ PyModeS.df m = 18 ∨ PyModeS.df m = 19 ∨
       PyModeS.df m = 20 ∨ PyModeS.df m = 21 ∨ PyModeS.df m = 24) <;>
     by_cases h14 : m.length = 14 <;> by_cases h28 : m.length = 28 <;>
     first
       | (exfalso; omega)
       | (simp only [hs, hL, h14, h28, decide_true, decide_false, Bool.not_true, Bool.not_false, if_true, if_false,
            Bool.false_eq_true, bind_val', pyTruth_bool, ne_eq, not_true_eq_false, not_false_eq_true, and_true,
            and_false, and_self, true_and, false_and, Nat.reduceEqDiff, Option.toList, List.append_nil]
          exact ⟨_, rfl, rfl⟩)
   · have hnl : m.length ≠ 14 ∧ m.length ≠ 28 := by
       simp only [List.mem_cons, List.not_mem_nil, or_false] at hl; omega
     simp only [hl, decide_false, Bool.not_false, if_true, Res.pure_eq, chk, hnl, ne_eq, not_false_eq_true, and_self,
       Option.toList, List.append_nil]
     exact ⟨_, rfl, rfl⟩))

end PyModeS.Tie.Beast
namespace PyModeS.Tie
open PyModeS.Tie.Beast

/-- `read_beast_buffer()` on any receiver `l` whose `buffer` attribute holds the bytes `buf` (all below 256, as the
    items of a `bytes` chunk are; fewer than `whileFuel` = 2^20 of them, the iterations the generated `while` loop is
    granted): the returned `[msg, ts]` list is `(readBeast buf).1` (every `ts` is the `0` of `Ext.time_time`) and
    `self.buffer` becomes `(readBeast buf).2`; no other attribute changes. -/
theorem TcpClient_read_beast_buffer_tie (l : List (Val × Val)) (buf : List Byte)
    (hbuf : dictFind l (attrKey "buffer") = some (encBytes buf))
    (hb : ∀ b ∈ buf, b < 256) (hlen : buf.length < whileFuel) :
    Gen.tcpclient.TcpClient_read_beast_buffer (.dict l) =
      .val (.tuple [.dict (setPair (attrKey "buffer") (encBytes (readBeast buf).2) l),
        encStamped (readBeast buf).1]) := by
  have hg : pyGetAttr (.dict l) "buffer" = .val (encBytes buf) := by simp only [pyGetAttr, hbuf]
  unfold Gen.tcpclient.TcpClient_read_beast_buffer
  simp only [Std.Legacy.Range.forIn_eq_forIn_range', Std.Legacy.Range.size, Nat.sub_zero, Nat.add_sub_cancel,
    Nat.div_one]
  have hinit : ((Val.tuple [], Val.tuple [], Val.num 0, Val.num 0, true) : S1) = encS ⟨[], [], 0, 0⟩ true := by
    simp only [encS, num_zero_ofNat]; rfl
  rw [hinit, loop1 buf _ ?step buf.length ⟨[], [], 0, 0⟩ 0 whileFuel hlen ?hnone, bind_val']
  case hnone =>
    exact (beastScan_eq_bIter buf buf.length ⟨[], [], 0, 0⟩ (by simp) (by simp)).2
  case step =>
    intro x s
    have e2626 : Val.tuple [Val.num 26, Val.num 26] = encBytes [26, 26] := rfl
    simp only [encS, hg, bind_val', len_bytes, pyLt_ofNat2, pyTruth_bool, add2, add1, pySlice_bytes, e2626, pyEq_bytes,
      app26, Res.pure_eq, pyEq_ofNat2, eq26, gt0, appMlat]
    by_cases hlt : s.i < buf.length
    swap
    · rw [bStep_done buf s hlt]
      simp only [hlt, decide_false, Bool.not_false, if_true]
    have h1 : 1 ≤ buf.length := by omega
    simp only [hlt, decide_true, Bool.not_true, Bool.false_eq_true, if_false, pySub_one _ h1, bind_val', pyEq_ofNat2,
      pyIdx_bytes buf s.i hlt, eq26, pyTruth_bool, appByte]
    by_cases hsl : slice s.i (s.i + 2) buf = [26, 26]
    · rw [bStep_esc buf s hlt hsl]
      simp only [hsl, decide_true, if_true]
    simp only [hsl, decide_false, Bool.false_eq_true, if_false]
    by_cases hl : s.i = buf.length - 1 ∧ buf.getD s.i 0 = 26
    · rw [bStep_last buf s hlt hsl hl]
      simp only [hl.1, hl.2, decide_true, if_true, bind_val', pyTruth_bool]
      simp only [← hl.1, hl.2, decide_true, if_true]
    by_cases hdiv : buf.getD s.i 0 = 26
    · have hi : ¬ s.i = buf.length - 1 := fun h => hl ⟨h, hdiv⟩
      rw [bStep_div buf s hlt hsl hl hdiv]
      simp only [hi, hdiv, decide_true, decide_false, if_true, Bool.false_eq_true, if_false, bind_val', pyTruth_bool]
      by_cases hm : 0 < s.msg.length
      · simp only [hm, decide_true, if_true, List.reverse_cons]
        rfl
      · have : s.msg = [] := by
          cases hmm : s.msg with
          | nil => rfl
          | cons a m => rw [hmm] at hm; simp at hm
        rw [this]
        simp
    · rw [bStep_byte buf s hlt hsl hl hdiv]
      by_cases hi : s.i = buf.length - 1
      · simp only [hi, hdiv, decide_true, decide_false, if_true, Bool.false_eq_true, if_false, bind_val', pyTruth_bool]
        simp only [← hi, hdiv, decide_false, Bool.false_eq_true, if_false]
      · simp only [hi, hdiv, decide_true, decide_false, if_true, Bool.false_eq_true, if_false, bind_val', pyTruth_bool]
  have hB := beastScan_eq_bIter buf buf.length ⟨[], [], 0, 0⟩ (by simp) (by simp)
  have hgood : Good (bIter buf buf.length ⟨[], [], 0, 0⟩) :=
    bIter_good buf hb _ _ ⟨fun _ h => by simp at h, fun _ h => by simp at h⟩
  have hread : readBeast buf = ((bIter buf buf.length ⟨[], [], 0, 0⟩).out.reverse.filterMap beastExtract,
      buf.drop (bIter buf buf.length ⟨[], [], 0, 0⟩).start) := by
    have := hB.1
    simp only [List.drop_zero] at this
    simp only [readBeast, this]
  rw [hread]
  generalize bIter buf buf.length ⟨[], [], 0, 0⟩ = B at hgood
  have hit : pyIter (encMlat B.out.reverse) = .val (B.out.reverse.map encBytes) := rfl
  simp only [encS, Bool.false_eq_true, if_false, hg, bind_val', pySlice_bytes_from]
  have hset : ∀ v, pySetAttr (Val.dict l) "buffer" v = .val (.dict (setPair (attrKey "buffer") v l)) := fun _ => rfl
  rw [hset, bind_val', hit, bind_val']
  refine loop2_cont _ _ _ ?step2 B.out.reverse ?hfr _ rfl ?hK
  case hfr =>
    intro fr hfr
    exact hgood.1 fr (List.mem_reverse.1 hfr)
  case hK =>
    intro st' h
    simp only [h, Res.pure_eq]
  case step2 =>
    intro frame hne hlt st msgs hst
    obtain ⟨mm0, ts0, mt0, df0, msg0, messages0⟩ := st
    simp only at hst
    subst hst
    obtain ⟨t, rest, rfl⟩ : ∃ t rest, frame = t :: rest := by
      cases frame with
      | nil => exact absurd rfl hne
      | cons t rest => exact ⟨t, rest, rfl⟩
    have htime : Gen.Ext.time_time = .val (.num 0) := rfl
    have hlen : ∀ m : Msg, pyLen (.str m) = .val (Val.ofNat m.length) := fun _ => rfl
    have hfmt : ∀ (p : List Byte), (∀ b ∈ p, b < 256) → ∀ b ∈ p,
        (fun x__5 => do
          let __do_lift ← pyFmtHexU 2 x__5
          pure (some __do_lift) : Val → Res (Option Val)) (Val.ofNat b) = .val (some (.str (hex2 b))) := by
      intro p hp b hbp
      simp only [fmt2 b (hp b hbp), bind_val', Res.pure_eq]
    have hsl : ∀ a c, ∀ b ∈ slice a c (t :: rest), b < 256 := by
      intro a c b hbm
      exact hlt b (List.mem_of_mem_drop (List.mem_of_mem_take hbm))
    rw [beastExtract_cons]
    simp only [htime, bind_val', pyIdxN_bytes (t :: rest) 0 (by simp), List.getD_cons_zero, eq50, eq51, pyTruth_bool,
      pySliceNN_bytes]
    by_cases h50 : t = 50
    · simp only [h50, decide_true, if_true]
      rw [← h50, pyComp_hex _ (slice 8 15 (t :: rest)) (hfmt _ (hsl 8 15))]
      simp only [bind_val', pyJoin_hex]
      have hx := isHex_hexOfBytes (slice 8 15 (t :: rest))
      generalize hexOfBytes (slice 8 15 (t :: rest)) = m at hx
      simp only [hlen, notin1428, bind_val', pyTruth_bool]
      beast_check
    · by_cases h51 : t = 51
      · simp only [h50, h51, decide_true, decide_false, Bool.false_eq_true, if_true, if_false, Nat.reduceEqDiff]
        rw [← h51, pyComp_hex _ (slice 8 22 (t :: rest)) (hfmt _ (hsl 8 22))]
        simp only [bind_val', pyJoin_hex]
        have hx := isHex_hexOfBytes (slice 8 22 (t :: rest))
        generalize hexOfBytes (slice 8 22 (t :: rest)) = m at hx
        simp only [hlen, notin1428, bind_val', pyTruth_bool]
        beast_check
      · simp only [h50, h51, decide_false, Bool.false_eq_true, if_false, Res.pure_eq, Option.toList, List.append_nil]
        exact ⟨_, rfl, rfl⟩

end PyModeS.Tie
