/-
  C18 transported to the source-generated definitions of uplink.py: the address round trip of `uplink_icao` (the
  bit-serial division loop, translated from the current Python text) for every data field and every 24-bit address.
-/
import PyModeS.Properties.C18
import PyModeS.Tie.Uplink

-- symbolic execution of long generated `do` blocks: generous but finite budget (proof times are seconds)
set_option maxHeartbeats 1000000
namespace PyModeS.C18Gen
open PyModeS PyModeS.Py PyModeS.CRC

/-- For any data field of a multiple of 4 bits ≥ 32 and any address `A < 2^24`: the *generated* `uplink_icao`, applied to
    the interrogation whose AP field was formed per Annex 10 for `A`, returns the six upper-case hex digits of `A`. -/
theorem uplink_icao_roundtrip_tie (d : Bits) (A : Nat) (hA : A < 2 ^ 24) (h4 : d.length % 4 = 0) (hd : 32 ≤ d.length) :
    Gen.uplink.uplink_icao (.str (Uplink.uplinkFrame d A)) = .val (.str (hex6 A)) := by
  have hhex : IsHex (Uplink.uplinkFrame d A) := CRC.hexOfBits_isHex _
  have hlen : 14 ≤ (Uplink.uplinkFrame d A).length := by
    unfold Uplink.uplinkFrame
    rw [CRC.hexOfBits_length]
    simp only [List.length_append, natToBits_length]
    omega
  rw [Tie.uplink_icao_tie _ hhex hlen, C18.uplink_icao_roundtrip d A hA h4 hd]

end PyModeS.C18Gen
