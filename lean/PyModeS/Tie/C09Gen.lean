/-
  C09 transported to the source-generated definitions of bds06.py / bds09.py / adsb.py: the surface velocity of the
  function py2lean.py produced from the current text of `bds06.surface_velocity` is the DO-260B movement table and
  the 7-bit track on every TC 5-8 frame, `bds09.altitude_diff` is `±(N−1)·25 ft`, and `adsb.velocity` routes by type
  code.  Each statement composes a tie theorem (`Tie/Bds05b.lean`, `Tie/Bds08.lean`, `Tie/Adsb.lean`) with a theorem
  of `Properties/C09.lean`; the hand-written model no longer occurs in the statements.
  (`bds09.airborne_velocity` has no tie theorem yet, so `C09.airborne_velocity_spec` is not transported here.)
-/
import PyModeS.Properties.C09
import PyModeS.Tie.Bds05b
import PyModeS.Tie.Bds08
import PyModeS.Tie.Adsb

-- symbolic execution of long generated `do` blocks: generous but finite budget (proof times are seconds)
set_option maxHeartbeats 1000000
namespace PyModeS.C09Gen
open PyModeS PyModeS.Py PyModeS.CRC PyModeS.C09 PyModeS.Spec PyModeS.Fields

theorem frame_bits (m : Msg) (hl : m.length = 28) : (hex2binM m).length = 112 := by
  rw [hex2binM_length, hl]

/-- the constant tail of the tuple `surface_velocity` returns: `0, "GS"` and, with `source=True`, `"TRUE_NORTH", None` -/
def surfTail (src : Bool) : List Val :=
  [.num 0, .str ['G', 'S']] ++ if src then [.str ['T', 'R', 'U', 'E', '_', 'N', 'O', 'R', 'T', 'H'], .none] else []

/-- **Surface velocity.** On every 28-digit TC 5-8 frame the generated `surface_velocity(msg, source)` returns the
    DO-260B movement-table speed of ME bits 6-12 (all 128 codes; `None` for "no information" / reserved) and the track
    `N·360/128` of ME bits 14-20 when the status bit (ME bit 13) is set, `None` otherwise. -/
theorem surface_velocity_spec_tie (m : Msg) (h : IsHex m) (hl : m.length = 28) (src : Bool) (tc : Nat)
    (htc : tcB (hex2binM m) = some tc) (h58 : 5 ≤ tc ∧ tc ≤ 8) :
    Gen.bds06.surface_velocity (.str m) (.bool src) =
      .val (.tuple ([Val.ofOptRat (movementSpeed (bin2int (slice 37 44 (hex2binM m)))),
        Val.ofOptRat (if (hex2binM m).getD 44 false then
          some ((bin2int (slice 45 52 (hex2binM m)) : Rat) * 360 / 128) else none)] ++ surfTail src)) := by
  have hb := frame_bits m hl
  rw [Tie.surface_velocity_tie m h (by omega) src, surface_velocity_spec _ hb tc htc h58]
  simp only [List.getD_eq_getElem?_getD, List.getElem?_eq_getElem (show 44 < (hex2binM m).length by omega),
    Option.getD_some]
  rfl

/-- every one of the 128 movement codes: the generated decoder returns the DO-260B quantisation table entry
    (the track status bit clear), whatever the other bits of the frame are -/
theorem surface_speed_table_tie (m : Msg) (h : IsHex m) (hl : m.length = 28) (tc : Nat)
    (htc : tcB (hex2binM m) = some tc) (h58 : 5 ≤ tc ∧ tc ≤ 8) (mov : Nat)
    (hmov : bin2int (slice 37 44 (hex2binM m)) = mov) (hst : (hex2binM m).getD 44 false = false) :
    Gen.bds06.surface_velocity (.str m) (.bool false) =
      .val (.tuple [Val.ofOptRat (movementSpeed mov), .none, .num 0, .str ['G', 'S']]) := by
  rw [surface_velocity_spec_tie m h hl false tc htc h58, hmov, hst]
  rfl

/-- outside TC 5-8 (or outside DF 17/18) the generated `surface_velocity` raises RuntimeError -/
theorem surface_velocity_guard_tie (m : Msg) (h : IsHex m) (hl : 10 ≤ m.length) (src : Bool)
    (hg : ∀ tc, tcB (hex2binM m) = some tc → tc < 5 ∨ tc > 8) :
    Gen.bds06.surface_velocity (.str m) (.bool src) = .rte := by
  rw [Tie.surface_velocity_tie m h hl src, surface_velocity_guard _ hg]
  rfl

/-- **GNSS–baro difference** of the generated `bds09.altitude_diff`: `±(N−1)·25 ft`, `None` for N = 0 (and, as coded,
    for the saturated code 127) on every 28-digit TC 19 frame. -/
theorem altitude_diff_spec_tie (m : Msg) (h : IsHex m) (hl : m.length = 28) (htc : tcB (hex2binM m) = some 19) :
    Gen.bds09.altitude_diff (.str m) =
      .val (Val.ofOptInt
        (let v := bin2int (slice 81 88 (hex2binM m))
         let sign : Int := if (hex2binM m).getD 80 false then -1 else 1
         if v = 0 ∨ v = 127 then none else some (sign * ((v : Int) - 1) * 25))) := by
  have hb := frame_bits m hl
  rw [Tie.altitude_diff_tie m h (by omega), altitude_diff_partial _ hb htc]
  simp only [List.getD_eq_getElem?_getD, List.getElem?_eq_getElem (show 80 < (hex2binM m).length by omega),
    Option.getD_some]
  rfl

/-- the generated `altitude_diff` raises RuntimeError unless the type code is 19 -/
theorem altitude_diff_guard_tie (m : Msg) (h : IsHex m) (hl : 10 ≤ m.length) (htc : tcB (hex2binM m) ≠ some 19) :
    Gen.bds09.altitude_diff (.str m) = .rte := by
  rw [Tie.altitude_diff_tie m h hl, altitude_diff_guard _ htc]
  rfl

/-- **Encoder round trip** for the altitude difference: the DO-260B airborne-velocity frame built from any field
    values within their widths (arbitrary CA, address, reserved bits, parity), written as 28 hex digits, is decoded by
    the generated `altitude_diff` to `±(N−1)·25 ft` of exactly the encoded sign and value. -/
theorem altitude_diff_roundtrip_tie (df ca icao st x1 : Nat) (s_ew : Bool) (v_ew : Nat) (s_ns : Bool)
    (v_ns : Nat) (vrsrc s_vr : Bool) (vr x2 : Nat) (dsign : Bool) (diff parity : Nat)
    (hdf : df = 17 ∨ df = 18) (hst : st < 8) (hew : v_ew < 1024) (hns : v_ns < 1024) (hvr : vr < 512)
    (hd : diff < 128) :
    Gen.bds09.altitude_diff (.str (hexOfBits
        (build (velFrame df ca icao st x1 s_ew v_ew s_ns v_ns vrsrc s_vr vr x2 dsign diff parity)))) =
      .val (Val.ofOptInt (if diff = 0 ∨ diff = 127 then none
        else some ((if dsign then -1 else 1) * ((diff : Int) - 1) * 25))) := by
  obtain ⟨hlen, _, _, hdiff⟩ := airborne_velocity_roundtrip df ca icao st x1 s_ew v_ew s_ns v_ns vrsrc s_vr vr x2
    dsign diff parity hdf hst hew hns hvr hd
  have hhex := hexOfBits_isHex
    (build (velFrame df ca icao st x1 s_ew v_ew s_ns v_ns vrsrc s_vr vr x2 dsign diff parity))
  have hl : (hexOfBits
      (build (velFrame df ca icao st x1 s_ew v_ew s_ns v_ns vrsrc s_vr vr x2 dsign diff parity))).length = 28 := by
    rw [hexOfBits_length, hlen]
  rw [Tie.altitude_diff_tie _ hhex (by omega), hex2binM_hexOfBits _ (by rw [hlen]), hdiff]
  rfl

/-- **Routing.** The generated `adsb.velocity` calls the generated `surface_velocity` exactly for TC 5-8, the generated
    `airborne_velocity` exactly for TC 19, and raises RuntimeError for every other type code and for frames without a
    type code (DF other than 17/18); `source` is handed on unchanged. -/
theorem velocity_routing_tie (m : Msg) (h : IsHex m) (hl : 10 ≤ m.length) (source : Val) :
    (∀ tc, tcB (hex2binM m) = some tc → 5 ≤ tc ∧ tc ≤ 8 →
      Gen.adsb.velocity (.str m) source = Gen.bds06.surface_velocity (.str m) source) ∧
    (tcB (hex2binM m) = some 19 →
      Gen.adsb.velocity (.str m) source = Gen.bds09.airborne_velocity (.str m) source) ∧
    (∀ tc, tcB (hex2binM m) = some tc → ¬ (5 ≤ tc ∧ tc ≤ 8) → tc ≠ 19 → Gen.adsb.velocity (.str m) source = .rte) ∧
    (tcB (hex2binM m) = none → Gen.adsb.velocity (.str m) source = .rte) := by
  obtain ⟨r1, r2, r3, r4⟩ := velocity_routing (hex2binM m)
  rw [Tie.velocity_tie m h hl source]
  refine ⟨?_, ?_, ?_, ?_⟩
  · intro tc htc h58; rw [r1 tc htc h58]; rfl
  · intro htc; rw [r2 htc]; rfl
  · intro tc htc h1 h2; rw [r3 tc htc h1 h2]; rfl
  · intro htc; rw [r4 htc]; rfl

/-- `adsb.velocity` on a surface frame: the movement table and the track, as for `surface_velocity` -/
theorem velocity_surface_spec_tie (m : Msg) (h : IsHex m) (hl : m.length = 28) (src : Bool) (tc : Nat)
    (htc : tcB (hex2binM m) = some tc) (h58 : 5 ≤ tc ∧ tc ≤ 8) :
    Gen.adsb.velocity (.str m) (.bool src) =
      .val (.tuple ([Val.ofOptRat (movementSpeed (bin2int (slice 37 44 (hex2binM m)))),
        Val.ofOptRat (if (hex2binM m).getD 44 false then
          some ((bin2int (slice 45 52 (hex2binM m)) : Rat) * 360 / 128) else none)] ++ surfTail src)) := by
  rw [(velocity_routing_tie m h (by omega) (.bool src)).1 tc htc h58]
  exact surface_velocity_spec_tie m h hl src tc htc h58

end PyModeS.C09Gen
